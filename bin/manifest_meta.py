from props_meta import PROPS

# properties whose check is finished and registered in MANIFEST.json (others stay under not_applicable
# with the reason below until their theorems and harness are complete)
READY = ["C01", "C02", "C03", "C04", "C05", "C06", "C07", "C08", "C09", "C10", "C11", "C12", "C13", "C14", "C15", "C16", "C17", "C18", "C19", "C20"]

CHECKS = {pid: d["manifest"] for pid, d in PROPS.items() if "manifest" in d and pid in READY}
NOT_YET = {}
