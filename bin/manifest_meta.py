CHECKS = {
    "C19": {
        "text": "Kernel-checked theorems over the Lean definitions regenerated from domains/chainwork.go and domains/headers.go on every run: target = sign*mantissa*256^(e-3) (truncating), work = floor(2^256/(t+1)) or 0, antitone on positive targets, FastLog2Floor = floor(log2 n) — for all 2^32 inputs by proof, not enumeration. The translator is validated on every run by evaluating the regenerated definitions (Lean driver) and the Go functions on the same inputs; the Go oracle compares the implementation with an independently written reference (thorough: complete enumeration of both 2^32 domains).",
        "note": "Trusted: Lean kernel; axioms propext/Classical.choice/Quot.sound; the Go->Lean translator for the straight-line subset (validated by correspondence); math/big modelled as Int. A source edit outside the translatable subset breaks the obligation (reported with the oracle's failing input or no-failing-input-found).",
        "technique": "Lean 4 proof on translated source (arithmetic lemmas, omega) + differential correspondence",
    },
}
NOT_YET = {}
