from props_meta import PROPS
CHECKS = {pid: d["manifest"] for pid, d in PROPS.items() if "manifest" in d}
NOT_YET = {}
