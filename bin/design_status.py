#!/usr/bin/env python3
"""Regenerates the table of DESIGN.md §8.2b from bin/meta/*.json, lean/BHS/Audit/*.lean and KNOWN_FINDINGS.json."""
import json, re, glob, os
V = os.path.dirname(os.path.dirname(os.path.abspath(__file__)))
k = json.load(open(os.path.join(V, "KNOWN_FINDINGS.json")))
rows = []
for i in range(1, 21):
    pid = f"C{i:02d}"
    m = json.load(open(os.path.join(V, "bin/meta", pid + ".json")))
    n = len(re.findall(r"#print axioms", open(os.path.join(V, "lean/BHS/Audit", pid + ".lean")).read()))
    fixes = sorted({f.get("commit", "") for f in k["fixed"] if f["property"] == pid and re.fullmatch(r"[0-9a-f]{7,40}", f.get("commit", "") or "")})
    finds = [f["id"] for f in k["findings"] if f["property"] == pid]
    st = "holds"
    if fixes:
        st += " after fixes " + ", ".join(fixes)
    if finds:
        st += "; known findings " + ", ".join(finds)
    if m.get("partial"):
        st += f"; partial: {len(m['partial'])} item(s), see bin/meta"
    rows.append(f"| {pid} | {n} | {', '.join(m.get('gen', []))} | {st} |")
table = "| id | audited theorems | regenerated modules in the property's closure | status on the repaired tree |\n|---|---|---|---|\n" + "\n".join(rows) + "\n"
p = os.path.join(V, "DESIGN.md")
s = open(p).read()
a = s.index("| id | audited theorems | regenerated modules")
b = s.index("\n### 8.3 ")
s = s[:a] + table + s[b:]
open(p, "w").write(s)
print(table)
