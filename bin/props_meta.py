"""Per-property metadata for bin/check."""

COMMON_TRUSTED = [
    "Lean 4.33.0 kernel (thorough tier: leanchecker re-check of the .olean files)",
    "axioms: at most propext, Classical.choice, Quot.sound (audited by #print axioms on every run; no sorry/admit/native_decide/bv_decide/own axioms — grep on every run)",
    "harness/cmd/extract (translator / constant and table extractor) and harness/cmd/drive (correspondence harness): generator quality bounds what correspondence sees",
    "Go toolchain, SQLite, gin, encoding/json, viper, net/http, centrifuge are parameters of the model, exercised by the correspondence check, not verified",
]

PROPS = {
    "C19": {
        "gen": ["Arith"],
        "lean_targets": ["BHS.Props.C19"],
        "audit": "BHS/Audit/C19.lean",
        "trusted": [
            "translator harness/cmd/extract/arith.go (Go straight-line subset -> Lean do-block; validated on every run by the correspondence check: the regenerated Lean definitions and domains.CompactToBig/CalculateWork/FastLog2Floor are evaluated on the same inputs)",
            "math/big (Lsh, Add, Div, Neg, Sign) is modelled by Lean Int arithmetic",
        ],
        "assumptions": ["inputs are uint32 (hypothesis b < 2^32 / n < 2^32 of every theorem)"],
        "explanation": "Theorems are stated over BHS.Gen.compactToBig/calcWork/fastLog2Floor, which are regenerated from domains/chainwork.go and domains/headers.go on every run; they cover all 2^32 inputs by proof, not enumeration.",
    },
}
