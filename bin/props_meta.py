"""Per-property metadata for bin/check: one JSON file per property under bin/meta/.

Keys of bin/meta/<ID>.json:
  gen           regenerated modules (names of lean/BHS/Gen/<name>.lean) the property depends on
  lean_targets  lake targets holding the property theorems (e.g. ["BHS.Props.C19"])
  audit         path (relative to lean/) of the file with one `#print axioms <theorem>` per property theorem
  trusted       list of strings: property-specific trusted base
  assumptions   list of strings
  partial       list of strings naming `_partial` theorems and what they exclude
  explanation   string
  manifest      {text, note, technique, category?, design_ref?} for MANIFEST.json
"""
import glob
import json
import os

COMMON_TRUSTED = [
    "Lean 4.33.0 kernel (thorough tier: leanchecker re-check of the .olean files)",
    "axioms: at most propext, Classical.choice, Quot.sound (audited by #print axioms on every run; no sorry/admit/native_decide/bv_decide/own axioms — grep on every run)",
    "harness/cmd/extract (translator / constant and table extractor) and harness/cmd/drive (correspondence harness): generator quality bounds what correspondence sees",
    "Go toolchain, SQLite, gin, encoding/json, viper, net/http, centrifuge are parameters of the model, exercised by the correspondence check, not verified",
]

PROPS = {}
for _p in sorted(glob.glob(os.path.join(os.path.dirname(os.path.abspath(__file__)), "meta", "C*.json"))):
    PROPS[os.path.basename(_p)[:-5]] = json.load(open(_p))
