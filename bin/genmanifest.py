#!/usr/bin/env python3
"""Regenerates MANIFEST.json from bin/props_meta.py and bin/manifest_meta.py."""
import json, os, sys
V = os.path.dirname(os.path.dirname(os.path.abspath(__file__)))
sys.path.insert(0, os.path.join(V, "bin"))
from props_meta import PROPS
from manifest_meta import CHECKS, NOT_YET
ids = [json.loads(l)["id"] for l in open(os.path.join(V, "properties.jsonl"))]
m = {
    "version": 1,
    "setup_cmd": "bin/setup",
    "hooks": {
        "guard": "verif",
        "enable": "go build -tags verif -overlay /verif/harness/overlay/overlay.json (files are injected into repo packages by build overlay; nothing guarded lives in /repo)",
        "baseline_off_cmd": "cd /repo && go test -vet=off -count=1 -timeout 25m ./...",
        "source_commits": [],
        "add_only": True,
    },
    "engines": [
        {"name": "lean-model", "path": "lean/", "serves_properties": sorted(PROPS), "kind_free_text": "Lean 4 model + theorems (lake project BHS), regenerated modules under lean/BHS/Gen, regenerated Go→Lean translations with refinement theorems, one line-protocol model driver per group (lean/Driver/Mains, exes drv_<group>)"},
        {"name": "harness", "path": "harness/", "serves_properties": sorted(PROPS), "kind_free_text": "Go: extractor/translator (cmd/extract) and correspondence + oracle driver (cmd/drive) running the real stack"},
    ],
    "checks": [],
    "not_applicable": [],
    "notes": "Technique: machine-checked proof in Lean 4 over an executable model tied to /repo by regenerated modules and a differential correspondence harness; see DESIGN.md.",
}
for pid in ids:
    if pid in CHECKS and pid in PROPS:
        c = CHECKS[pid]
        m["checks"].append({
            "property_id": pid,
            "quick_cmd": f"bin/check {pid} quick",
            "thorough_cmd": f"bin/check {pid} thorough",
            "evidence_file": f"/verif/evidence/{pid}.json",
            "replay_cmd_template": f"bin/check {pid} --replay {{path}}",
            "engine": "lean-model+harness",
            "level_claimed": {"category": c.get("category", "proof"), "text": c["text"], "design_ref": c.get("design_ref", f"DESIGN.md §4 {pid}")},
            "level_note": c["note"],
            "technique": c["technique"],
        })
    else:
        m["not_applicable"].append({"property_id": pid, "reason": NOT_YET.get(pid, "check not built yet in this session (planned, see DESIGN.md §4); not claimed until its theorems and correspondence harness exist")})
json.dump(m, open(os.path.join(V, "MANIFEST.json"), "w"), indent=1)
print("checks:", [c["property_id"] for c in m["checks"]])
