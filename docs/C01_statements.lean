/-
STATEMENTS to be proved for C01 (and reused by C02/C03/C05/C08/C11/C13/C17).
This file is the specification handed to the prover: the definitions it mentions
(BHS/Model/Chain.lean, BHS/Spec/BestChain.lean) are FIXED. Proofs go to
BHS/Proofs/Chain*.lean (helper lemmas) and BHS/Props/C01.lean (exactly these theorems).
-/
import BHS.Model.Chain
import BHS.Spec.BestChain

namespace BHS.Props.C01
open BHS BHS.Chain
variable {H : Type} [DecidableEq H]

/-- the root row a store starts from (database/genesis.go) -/
def IsRoot (g : Row H) : Prop := g.id = 0 ∧ g.st = .lc ∧ g.height = 0 ∧ g.hash ≠ g.prev

/-- the submission does not hit the one known defect: a zero-work header extending the current tip -/
def NotZeroOnTip (s : Store H) (x : Src H) : Prop :=
  work x.bits = 0 → ∀ t, getTip s = some t → t.hash ≠ x.prev

/-- hashes of submitted headers never equal the root's previous-hash (the all-zero hash): trusted property of SHA-256d -/
def HashAvoids (cfg : Cfg H) (z : H) : Prop := ∀ x, cfg.hashOf x ≠ z

theorem C01_inv_init (cfg : Cfg H) (g : Row H) (hg : IsRoot g) : Inv cfg [g] := sorry

/-- one step: the invariant is preserved by every submission except a zero-work extension of the tip -/
theorem C01_inv_step (cfg : Cfg H) (s : Store H) (x : Src H) (g : Row H) (hg : g ∈ s) (hg0 : g.id = 0)
    (hz : HashAvoids cfg g.prev) (h : Inv cfg s) (hx : NotZeroOnTip s x) : Inv cfg (add cfg s x).1 := sorry

/-- structural well-formedness is preserved by EVERY submission (also the zero-work one) -/
theorem C01_wf_step (cfg : Cfg H) (s : Store H) (x : Src H) (g : Row H) (hg : g ∈ s) (hg0 : g.id = 0)
    (hz : HashAvoids cfg g.prev) (h : WF cfg s) : WF cfg (add cfg s x).1 := sorry

/-- the invariant gives the property's labelling clause -/
theorem C01_inv_canon (cfg : Cfg H) (s : Store H) (h : Inv cfg s) : Canon s := sorry

/-- FULL STATEMENT (false on the unchanged code, see C01_canonical_counterexample):
      ∀ hist, Canon (run cfg [g] hist)
    proved for histories in which every header has positive work: -/
theorem C01_canonical_partial (cfg : Cfg H) (g : Row H) (hg : IsRoot g) (hz : HashAvoids cfg g.prev)
    (hist : List (Src H)) (hpos : ∀ x ∈ hist, 0 < work x.bits) :
    Inv cfg (run cfg [g] hist) ∧ Canon (run cfg [g] hist) := sorry

/-- every other connected header is STALE -/
theorem C01_stale_or_lc (r : Row H) (h : connected r) : r.st = .lc ∨ r.st = .stale := sorry

/-- every submission is answered stored / duplicate / rejected: never a failure (hence never the nil dereference the
    unfixed code had) -/
theorem C01_answered (cfg : Cfg H) (s : Store H) (x : Src H) (h : WF cfg s) :
    (∃ r, (add cfg s x).2 = .stored r) ∨ (add cfg s x).2 = .duplicate ∨ (add cfg s x).2 = .rejected := sorry

/-- re-submitting a known header changes nothing -/
theorem C01_idempotent (cfg : Cfg H) (s : Store H) (x : Src H) (h : (byHash s (cfg.hashOf x)).isSome) :
    (add cfg s x).1 = s ∧ (add cfg s x).2 = .duplicate := sorry

/-- a forbidden header is rejected and nothing is written -/
theorem C01_forbidden (cfg : Cfg H) (s : Store H) (x : Src H) (hn : (byHash s (cfg.hashOf x)).isNone)
    (hf : cfg.hashOf x ∈ cfg.forbidden) : (add cfg s x).1 = s ∧ (add cfg s x).2 = .rejected := sorry

/-- an ORPHAN row is never relabelled or removed, whatever is submitted later -/
theorem C01_orphan_forever (cfg : Cfg H) (s : Store H) (hist : List (Src H)) (g : Row H) (hg : g ∈ s) (hg0 : g.id = 0)
    (hz : HashAvoids cfg g.prev) (h : WF cfg s) (r : Row H)
    (hr : r ∈ s) (ho : r.st = .orphan) : r ∈ run cfg s hist := sorry

/-- the full statement fails on the unchanged code: a zero-work child of the tip becomes the tip although the old tip
    has the same cumulative work and was stored earlier (known finding K-C01-zero-work). Concrete witness over H := Nat. -/
def cexCfg : Cfg Nat := { hashOf := fun x => x.nonce, forbidden := [] }
def cexRoot : Row Nat :=
  { id := 0, hash := 1000, prev := 0, merkle := 0, height := 0, version := 1, time := 0, bits := 486604799, nonce := 1000,
    work := 4295032833, cum := 4295032833, st := .lc }
def cexHist : List (Src Nat) := [{ version := 1, prev := 1000, merkle := 1, time := 1, bits := 0, nonce := 7 }]
theorem C01_canonical_counterexample : IsRoot cexRoot ∧ HashAvoids cexCfg 0 → ¬ Canon (run cexCfg [cexRoot] cexHist) := sorry
-- (state it in whatever closed form `decide` can check, e.g. `¬ Canon (run cexCfg [cexRoot] cexHist) := by decide`;
--  HashAvoids cannot hold for this toy hash (nonce 0 would collide) — drop it from the counterexample statement.)

end BHS.Props.C01
