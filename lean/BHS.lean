import BHS.Model.Prim
import BHS.Gen.Arith
import BHS.Gen.Consts
