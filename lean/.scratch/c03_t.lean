set_option profiler true
set_option profiler.threshold 20
def o := "database/migrations/7_make_cols_driver_agnostic.up.sql"
example : o.toList.take 20 = "database/migrations/".toList := by decide
example : o.toUTF8.data.toList.take 20 = "database/migrations/".toUTF8.data.toList := by decide
example : o.toUTF8.extract 0 20 = "database/migrations/".toUTF8 := by decide
example : (o.startsWith "database/migrations/") = true := by decide
example : ("database/migrations/".isPrefixOf o) = true := by decide
