import BHS.Proofs.Fields
#print axioms BHS.Chain.eventsOf_match
