/-
API handlers (C16): the REGENERATED handlers refine the hand model.

`BHS.Gen.Handlers` is produced on every run by harness/cmd/extract/gen_handlers.go from
  /repo/transports/http/endpoints/api/headers/endpoints.go      getHeaderByHash, getHeaderByHeight, getHeaderAncestorsByHash,
                                                                getCommonAncestor, getHeadersState
  /repo/transports/http/endpoints/api/tips/endpoints.go         getTips, getTipLongestChain
  /repo/transports/http/endpoints/api/merkleroots/endpoints.go  verify            (the listing: BHS.Props.MerkleRootsGen)
  /repo/transports/http/endpoints/api/webhook/endpoints.go      registerWebhook, getWebhook, revokeWebhook
  /repo/transports/http/endpoints/api/access/endpoints.go       getToken, createToken, revokeToken
  /repo/bhserrors/http_response.go                              ErrorResponse, AbortWithErrorResponse, mapAndLog
— a statement-by-statement translation into `Except Fault` (subset, primitive table, effect and skip lists in the
header of the translator; vocabulary in BHS/Model/HandlersPrim.lean; wiring in BHS/Model/HandlersWire.lean). Service
calls stay primitives defined from the service-level hand model.

For EVERY world (store, excess, webhook table, service-level switches) and EVERY gin context (parameters, query, bind
outcome incl. whatever the decoder left behind, authentication class, earlier writes):
  * `<handler>_refines`  the translated handler ends without a fault and appends exactly the writes stated — the JSON
                          value (which row, which list) or the `{code, message}` document and status that `mapAndLog`
                          computes from the regenerated error table;
  * `<handler>_answer`   what those writes leave on the wire is the response of the hand model's decision function
                          `Http.<handler>H` — the functions the 25 C16 theorems are stated over;
  * `served_*`            the same for a whole exchange (token middleware, RequireAdmin, handler) against `Http.step`,
                          and: no fault, exactly one document, for the code today on healthy storage;
  * the C16 headlines (`no 5xx`, `exactly one JSON document`) re-stated over the generated handlers.
Hypotheses: the four handler-level switches of `Http.Fixes` are on wherever a theorem mentions `fx` for a handler whose
own text carries the repair (the translated text IS the repaired handler; with the switch off the hand model describes
the code before the repair). The two service-level switches stay arbitrary: with them off the generated
getCommonAncestor FAULTS exactly where the hand model says `panicResp` (`getCommonAncestor_answer`).
An edit of a handler changes `Gen/Handlers.lean` and re-opens these obligations.
-/
import BHS.Gen.Handlers
import BHS.Model.HandlersWire
import BHS.Props.C16

set_option linter.unusedSectionVars false
set_option linter.unusedSimpArgs false
set_option linter.unusedVariables false

namespace BHS.Props.HandlersGen
open BHS BHS.Chain BHS.Http BHS.HandlersPrim BHS.Gen.Handlers BHS.HandlersWire BHS.Props.C16
open BHS.MerkleRootsPrim (Fault Err bhsWrap deref strconvAtoi)

/-! ## bhserrors: mapAndLog, ErrorResponse, AbortWithErrorResponse -/

/-- the document and status `mapAndLog` computes for an error: those of the first ExtendedError of its chain (looked up
    in the regenerated table), else the `error-unknown` fallback -/
def docOf (e : Option Err) : RespErr × Int :=
  match e.bind errDefOf with
  | some d => (⟨d.code, d.message⟩, (d.status : Int))
  | none => (⟨Gen.unknownErrorCode, Gen.unknownErrorMessage⟩, (Gen.unknownErrorStatus : Int))

/-- **mapAndLog** never faults (the ExtendedError is only read where `errors.As` found one) and computes `docOf` -/
theorem mapAndLog_refines (e : Option Err) : bhserrors_mapAndLog e = .ok (docOf e) := by
  unfold bhserrors_mapAndLog docOf errorsAs
  cases h : e.bind errDefOf with
  | none => simp [h, pure, Except.pure]; decide
  | some d => simp [h, deref, bind, Except.bind, pure, Except.pure]

/-- the write of an error answer -/
def errOut (e : Option Err) : Out := .json (docOf e).2 (jvRespErr (docOf e).1)

/-- one more write -/
def wrote (c : Gin) (o : Out) : Gin := { c with out := c.out ++ [o] }

/-- **ErrorResponse** writes exactly one document: `mapAndLog`'s -/
theorem ErrorResponse_refines (c : Gin) (e : Option Err) : bhserrors_ErrorResponse c e = .ok (wrote c (errOut e)) := by
  unfold bhserrors_ErrorResponse
  rw [mapAndLog_refines]
  rfl

/-- **AbortWithErrorResponse** writes the same document and aborts the chain -/
theorem AbortWithErrorResponse_refines (c : Gin) (e : Option Err) :
    bhserrors_AbortWithErrorResponse c e = .ok { wrote c (errOut e) with aborted := true } := by
  unfold bhserrors_AbortWithErrorResponse
  rw [mapAndLog_refines]
  rfl

/-- a definition of the table is found again by its name (the names are pairwise distinct) -/
theorem errDefOf_table : ∀ d ∈ Gen.errorTable, errDefOf (.bhs d.name) = some d := by decide

/-- on the wire: a table error is `errResp` of its definition -/
theorem respOf_errOut_table (d : Gen.ErrDef) (hd : d ∈ Gen.errorTable) : respOf [errOut (bhsErr d)] = errResp d := by
  simp [respOf, errOut, docOf, bhsErr, errDefOf_table d hd, sendOut, send, jvRespErr, bodyOf, errResp, errDoc]

/-- … wrapped around a cause as well -/
theorem respOf_errOut_wrap (n : String) (d : Gen.ErrDef) (hd : d ∈ Gen.errorTable) (hn : d.name = n) (cause : Option Err) :
    respOf [errOut (bhsWrap n cause)] = errResp d := by
  have := errDefOf_table d hd
  subst hn
  cases cause <;>
    simp [respOf, errOut, docOf, bhsWrap, MerkleRootsPrim.bhsWrap, errDefOf, sendOut, send, jvRespErr, bodyOf, errResp, errDoc] <;>
    simp [errDefOf] at this <;> simp [this]

/-- an error that carries no ExtendedError is the 500 `error-unknown` answer -/
theorem respOf_errOut_unknown (e : Option Err) (h : e.bind errDefOf = none) : respOf [errOut e] = unknownErr := by
  simp [respOf, errOut, docOf, h, sendOut, send, jvRespErr, bodyOf, unknownErr]

/-! ## transports/http/endpoints/api/headers -/

theorem drop_wrote (c : Gin) (l : List Out) : (c.out ++ l).drop c.out.length = l := List.drop_left

/-- **getHeaderByHash**: the stored row with that hash as a BlockHeaderResponse, else ErrHeaderNotFound -/
theorem getHeaderByHash_refines (h : World) (c : Gin) :
    headers_getHeaderByHash h c = .ok (h, wrote c (match byHash h.env.store (c.param "hash") with
      | some r => .json 200 (.blockHeader r)
      | none => errOut (bhsErr Gen.errHeaderNotFound))) := by
  unfold headers_getHeaderByHash Headers_GetHeaderByHash
  cases hb : byHash h.env.store (c.param "hash") <;>
    simp [hb, ginParam, ginJSON, wrote, bhsErr, newBlockHeaderResponse, deref, ErrorResponse_refines, bind, Except.bind, pure, Except.pure]

theorem getHeaderByHash_answer (h : World) (c : Gin) :
    answer c (headers_getHeaderByHash h c) = headerByHashH h.env.store (c.param "hash") := by
  rw [getHeaderByHash_refines]
  unfold headerByHashH
  cases byHash h.env.store (c.param "hash")
  · simpa [answer, newOuts, wrote, drop_wrote] using respOf_errOut_table Gen.errHeaderNotFound (by decide)
  · simp [answer, newOuts, wrote, drop_wrote]; rfl

/-- **getHeadersState**: the same lookup, rendered as a BlockHeaderStateResponse -/
theorem getHeadersState_refines (h : World) (c : Gin) :
    headers_getHeadersState h c = .ok (h, wrote c (match byHash h.env.store (c.param "hash") with
      | some r => .json 200 (.blockHeaderState r)
      | none => errOut (bhsErr Gen.errHeaderNotFound))) := by
  unfold headers_getHeadersState Headers_GetHeaderByHash
  cases hb : byHash h.env.store (c.param "hash") <;>
    simp [hb, ginParam, ginJSON, wrote, bhsErr, newBlockHeaderStateResponse, deref, ErrorResponse_refines, bind, Except.bind, pure, Except.pure]

theorem getHeadersState_answer (h : World) (c : Gin) :
    answer c (headers_getHeadersState h c) = headerByHashH h.env.store (c.param "hash") := by
  rw [getHeadersState_refines]
  unfold headerByHashH
  cases byHash h.env.store (c.param "hash")
  · simpa [answer, newOuts, wrote, drop_wrote] using respOf_errOut_table Gen.errHeaderNotFound (by decide)
  · simp [answer, newOuts, wrote, drop_wrote]; rfl

theorem ginGetQuery_eq (c : Gin) (k : String) : ginGetQuery c k = ((c.query k).getD "", (c.query k).isSome) := by
  unfold ginGetQuery; cases c.query k <;> rfl

/-- **getHeaderByHeight**: `height` must be a `strconv.Atoi` number (absent = ""), else ErrInvalidHeight wrapping the
    parse error; `count` defaults to 1 when absent or not a number; then the rows of the height range -/
theorem getHeaderByHeight_refines (h : World) (c : Gin) :
    headers_getHeaderByHeight h c = .ok (h, wrote c (match atoi ((c.query "height").getD "") with
      | some n => .json 200 (.blockHeaders (byHeightRange h.env.store n (n + (atoi ((c.query "count").getD "")).getD 1 - 1)))
      | none => errOut (bhsWrap "ErrInvalidHeight" (some .numError)))) := by
  unfold headers_getHeaderByHeight Headers_GetHeadersByHeight
  simp only [ginGetQuery_eq]
  cases ha : atoi ((c.query "height").getD "") <;> cases hb : atoi ((c.query "count").getD "") <;>
    simp [ha, hb, strconvAtoi, ginJSON, wrote, mapToBlockHeadersResponses, ErrorResponse_refines, bind, Except.bind, pure, Except.pure]

theorem getHeaderByHeight_answer (h : World) (c : Gin) (hfx : h.fx.byHeightValidatesHeight = true) :
    answer c (headers_getHeaderByHeight h c) = byHeightH h.fx (c.query "height") (c.query "count") := by
  rw [getHeaderByHeight_refines]
  unfold byHeightH
  cases atoi ((c.query "height").getD "")
  · simpa [answer, newOuts, wrote, drop_wrote, hfx] using
      respOf_errOut_wrap "ErrInvalidHeight" Gen.errInvalidHeight (by decide) rfl (some .numError)
  · simp [answer, newOuts, wrote, drop_wrote]; rfl

/-- the Go error of an `AncErr` -/
def ancErrDef : AncErr → Gen.ErrDef
  | .notFound => Gen.errHeaderWithGivenHashes
  | .ancestorHigher => Gen.errAncestorHashHigher
  | .notSameChain => Gen.errHeadersNotPartOfTheSameChain

/-- **getHeaderAncestorsByHash**: the chain between the two headers, or the service's error -/
theorem getHeaderAncestorsByHash_refines (h : World) (c : Gin) :
    headers_getHeaderAncestorsByHash h c = .ok (h, wrote c (match ancestors h.env.store (c.param "hash") (c.param "ancestorHash") with
      | .ok l => .json 200 (.blockHeaders l)
      | .error e => errOut (bhsErr (ancErrDef e)))) := by
  unfold headers_getHeaderAncestorsByHash Headers_GetHeaderAncestorsByHash
  cases hb : ancestors h.env.store (c.param "hash") (c.param "ancestorHash") with
  | ok l => simp [hb, ginParam, ginJSON, wrote, mapToBlockHeadersResponses, bind, Except.bind, pure, Except.pure]
  | error e =>
    cases e <;>
      simp [hb, ginParam, wrote, bhsErr, ancErrDef, ErrorResponse_refines, bind, Except.bind, pure, Except.pure]

theorem getHeaderAncestorsByHash_answer (h : World) (c : Gin) :
    answer c (headers_getHeaderAncestorsByHash h c) = ancestorsH h.env.store (c.param "hash") (c.param "ancestorHash") := by
  rw [getHeaderAncestorsByHash_refines]
  unfold ancestorsH
  cases ancestors h.env.store (c.param "hash") (c.param "ancestorHash") with
  | ok l => simp [answer, newOuts, wrote, drop_wrote]; rfl
  | error e =>
    cases e <;> simp only [answer, newOuts, wrote, drop_wrote, ancErrDef]
    · exact respOf_errOut_table _ (by decide)
    · exact respOf_errOut_table _ (by decide)
    · exact respOf_errOut_table _ (by decide)

/-- the context after a refused Must-bind: status line 400 written, chain aborted -/
def bindFailed (c : Gin) : Gin := { c with out := c.out ++ [.bindAbort], aborted := true }

/-- the answer to a body that does not bind -/
def bindErrOut : Out := errOut (bhsWrap "ErrBindBody" (some bindError))

theorem drop_wrote2 (c : Gin) (a b : Out) : (c.out ++ [a] ++ [b]).drop c.out.length = [a, b] := by
  rw [List.append_assoc]; exact List.drop_left

theorem respOf_bindErr : respOf [.bindAbort, bindErrOut] = send afterBindAbort Gen.errBindBody.status (errDoc Gen.errBindBody) := by
  decide

/-- **getCommonAncestor**, whatever the service answers: a refused body is ErrBindBody after gin's 400 status line;
    a header is rendered; an error is handed to ErrorResponse; `nil, nil` is a nil dereference in
    newBlockHeaderResponse; a panic inside the service stays one -/
theorem getCommonAncestor_refines (h : World) (c : Gin) :
    headers_getCommonAncestor h c =
      if c.bodyStrs.err then .ok (h, wrote (bindFailed c) bindErrOut)
      else match Headers_GetCommonAncestor h c.bodyStrs.left with
        | .error f => .error f
        | .ok (some r, none) => .ok (h, wrote c (.json 200 (.blockHeader r)))
        | .ok (none, none) => .error .noRow
        | .ok (_, some e) => .ok (h, wrote c (errOut (some e))) := by
  unfold headers_getCommonAncestor
  by_cases hb : c.bodyStrs.err = true
  · simp [hb, ginBindJSON, ginBind, Bindable.input, bindError, bindErrOut, bindFailed, wrote, ErrorResponse_refines, bind, Except.bind, pure, Except.pure]
  · simp only [Bool.not_eq_true] at hb
    simp only [ginBindJSON, ginBind, Bindable.input, hb, Bool.false_eq_true, ↓reduceIte]
    rcases hs : Headers_GetCommonAncestor h c.bodyStrs.left with f | ⟨_ | r, _ | e⟩ <;>
      simp [hs, ginJSON, wrote, newBlockHeaderResponse, deref, ErrorResponse_refines, bind, Except.bind, pure, Except.pure, throw, throwThe, MonadExceptOf.throw]

/-- against the hand model, for EVERY setting of the switches: with the service-level repairs off the generated handler
    faults exactly where the hand model says the handler panics -/
theorem getCommonAncestor_answer (h : World) (c : Gin) :
    answer c (headers_getCommonAncestor h c) = commonAncestorH h.fx h.env.store (bindOf c.bodyStrs) := by
  rw [getCommonAncestor_refines]
  unfold commonAncestorH bindOf
  by_cases hb : c.bodyStrs.err = true
  · simp only [hb, ↓reduceIte, answer, newOuts, wrote, bindFailed, drop_wrote2]
    exact respOf_bindErr
  · simp only [Bool.not_eq_true] at hb
    simp only [hb, Bool.false_eq_true, ↓reduceIte]
    unfold Headers_GetCommonAncestor caKind
    by_cases he : (h.fx.commonAncestorRejectsEmpty && c.bodyStrs.left.isEmpty) = true
    · simp only [he, ↓reduceIte, pure, Except.pure, bhsErr, answer, newOuts, wrote, drop_wrote]
      exact respOf_errOut_table Gen.errCommonAncestorEmptyList (by decide)
    · simp only [he, Bool.false_eq_true, ↓reduceIte]
      cases hc : commonAncestor h.env.store c.bodyStrs.left with
      | found r => simp [answer, newOuts, wrote, drop_wrote, pure, Except.pure]; rfl
      | notFound =>
        simp only [pure, Except.pure, bhsErr, answer, newOuts, wrote, drop_wrote]
        exact respOf_errOut_table _ (by
          have := C16_used_errors_mapped _ (caErr_used h.env.store c.bodyStrs.left)
          exact this.1)
      | nilResult =>
        by_cases hn : h.fx.commonAncestorHandlesNil = true
        · simp only [hn, ↓reduceIte, pure, Except.pure, bhsErr, answer, newOuts, wrote, drop_wrote]
          exact respOf_errOut_table Gen.errAncestorNotFound (by decide)
        · simp only [hn, Bool.false_eq_true, ↓reduceIte, pure, Except.pure, answer]
      | panicEmpty => simp [answer, throw, throwThe, MonadExceptOf.throw]

/-! ## transports/http/endpoints/api/tips -/

/-- **getTips**: every tip as a TipStateResponse -/
theorem getTips_refines (h : World) (c : Gin) :
    tips_getTips h c = .ok (h, wrote c (.json 200 (.tipStates (allTips h.env.store)))) := by
  simp [tips_getTips, Headers_GetTips, ginJSON, wrote, mapToTipStateResponse, bind, Except.bind, pure, Except.pure]

theorem getTips_answer (h : World) (c : Gin) : answer c (tips_getTips h c) = ok200 := by
  rw [getTips_refines]; simp [answer, newOuts, wrote, drop_wrote]; rfl

/-- **getTipLongestChain**: the tip — and a nil dereference in newTipStateResponse when the store has none -/
theorem getTipLongestChain_refines (h : World) (c : Gin) :
    tips_getTipLongestChain h c = (match getTip h.env.store with
      | some t => .ok (h, wrote c (.json 200 (.tipState t)))
      | none => .error .noRow) := by
  unfold tips_getTipLongestChain Headers_GetTip
  cases getTip h.env.store <;>
    simp [ginJSON, wrote, newTipStateResponse, deref, bind, Except.bind, pure, Except.pure, throw, throwThe, MonadExceptOf.throw]

theorem getTipLongestChain_answer (h : World) (c : Gin) :
    answer c (tips_getTipLongestChain h c) = tipLongestH h.env.store := by
  rw [getTipLongestChain_refines]
  unfold tipLongestH
  cases getTip h.env.store
  · rfl
  · simp [answer, newOuts, wrote, drop_wrote]; rfl

/-! ## transports/http/endpoints/api/merkleroots: verify -/

/-- **verify**: a refused body is ErrBindBody (after gin's 400 status line), an empty list ErrVerifyMerklerootsBadBody;
    else the confirmations, or ErrGetChainTipHeight when the store has no longest-chain row -/
theorem verify_refines (h : World) (c : Gin) :
    merkleroots_verify h c = .ok (h,
      if c.bodyItems.err then wrote (bindFailed c) bindErrOut
      else if c.bodyItems.left = [] then wrote c (errOut (bhsErr Gen.errVerifyMerklerootsBadBody))
      else match Chain.verify h.env.store h.env.excess c.bodyItems.left with
        | some l => wrote c (.json 200 (.confirmations l))
        | none => wrote c (errOut (bhsErr Gen.errGetChainTipHeight))) := by
  unfold merkleroots_verify
  by_cases hb : c.bodyItems.err = true
  · simp [hb, ginBindJSON, ginBind, Bindable.input, bindError, bindErrOut, bindFailed, wrote, ErrorResponse_refines, bind, Except.bind, pure, Except.pure]
  · simp only [Bool.not_eq_true] at hb
    simp only [ginBindJSON, ginBind, Bindable.input, hb, Bool.false_eq_true, ↓reduceIte]
    by_cases hl : c.bodyItems.left = []
    · simp [hl, wrote, bhsErr, ErrorResponse_refines, bind, Except.bind, pure, Except.pure]; rfl
    · -- "the list is not empty" in every form a Go comparison of `len(body)` can take
      have hpos : 0 < c.bodyItems.left.length := List.length_pos_iff.2 hl
      have f1 : ¬ ((c.bodyItems.left.length : Int) = 0) := by omega
      have f2 : ¬ ((c.bodyItems.left.length : Int) < 1) := by omega
      have f3 : ¬ ((c.bodyItems.left.length : Int) ≤ 0) := by omega
      have f4 : ¬ ((0 : Int) = (c.bodyItems.left.length : Int)) := by omega
      have f5 : (0 : Int) < (c.bodyItems.left.length : Int) := by omega
      have f6 : (1 : Int) ≤ (c.bodyItems.left.length : Int) := by omega
      unfold Merkleroots_GetMerkleRootsConfirmations
      cases hv : Chain.verify h.env.store h.env.excess c.bodyItems.left <;>
        simp [hl, hv, f1, f2, f3, f4, f5, f6, ginJSON, wrote, bhsErr, mapToMerkleRootsConfirmationsResponses, ErrorResponse_refines,
          bind, Except.bind, pure, Except.pure]

theorem verify_answer (h : World) (c : Gin) (hfx : h.fx.verifyBindErrorStructured = true) :
    answer c (merkleroots_verify h c) = verifyH h.fx h.env.store h.env.excess (bindOf c.bodyItems) := by
  rw [verify_refines]
  unfold bindOf
  by_cases hb : c.bodyItems.err = true
  · simp only [hb, ↓reduceIte, verifyH, hfx, answer, newOuts, wrote, bindFailed, drop_wrote2]
    exact respOf_bindErr
  · simp only [Bool.not_eq_true] at hb
    simp only [hb, Bool.false_eq_true, ↓reduceIte]
    cases hl : c.bodyItems.left with
    | nil =>
      simp only [↓reduceIte, verifyH, answer, newOuts, wrote, drop_wrote]
      exact respOf_errOut_table Gen.errVerifyMerklerootsBadBody (by decide)
    | cons x xs =>
      simp only [reduceCtorEq, ↓reduceIte, verifyH]
      cases Chain.verify h.env.store h.env.excess (x :: xs)
      · simp only [answer, newOuts, wrote, drop_wrote]
        exact respOf_errOut_table Gen.errGetChainTipHeight (by decide)
      · simp [answer, newOuts, wrote, drop_wrote]; rfl

/-! ## transports/http/endpoints/api/webhook -/

def withHooks (h : World) (hooks : List Hook) : World := { h with env := { h.env with hooks := hooks } }

/-- **registerWebhook**: a refused body is ErrBindBody AND NOTHING ELSE (the handler returns); an empty `url`
    ErrURLBodyRequired; an active webhook with that url ErrRefreshWebhook; else the webhook is created (or
    re-activated), stored and written -/
theorem registerWebhook_refines (h : World) (c : Gin) :
    webhook_registerWebhook h c = .ok (
      if c.bodyHook.err then (h, wrote (bindFailed c) bindErrOut)
      else if c.bodyHook.left.url = "" then (h, wrote c (errOut (bhsErr Gen.errURLBodyRequired)))
      else match (createWebhook h.env.hooks c.bodyHook.left.url).1 with
        | .alreadyActive => (h, wrote c (errOut (bhsErr Gen.errRefreshWebhook)))
        | _ => (withHooks h (createWebhook h.env.hooks c.bodyHook.left.url).2,
                wrote c (.json 200 (.webhook (some ⟨c.bodyHook.left.url, true⟩))))) := by
  unfold webhook_registerWebhook
  by_cases hb : c.bodyHook.err = true
  · simp [hb, ginBind, Bindable.input, bindError, bindErrOut, bindFailed, wrote, ErrorResponse_refines, bind, Except.bind, pure, Except.pure]
  · simp only [Bool.not_eq_true] at hb
    simp only [ginBind, Bindable.input, hb, Bool.false_eq_true, ↓reduceIte]
    by_cases hu : c.bodyHook.left.url = ""
    · have hu' : "" = c.bodyHook.left.url := hu.symm
      simp [hu, wrote, bhsErr, ErrorResponse_refines, bind, Except.bind, pure, Except.pure]; rfl
    · have hu' : ¬ "" = c.bodyHook.left.url := fun e => hu e.symm
      unfold Webhooks_CreateWebhook
      cases hc : (createWebhook h.env.hooks c.bodyHook.left.url).1 <;>
        simp [hu, hu', hc, ginJSON, wrote, bhsErr, jvHook, withHooks, ErrorResponse_refines, bind, Except.bind, pure, Except.pure]

theorem registerWebhook_answer (h : World) (c : Gin) (hfx : h.fx.webhookReturnsAfterBindError = true) :
    answer c (webhook_registerWebhook h c) = (webhookRegisterH h.fx h.env.hooks c.bodyHook.err c.bodyHook.left.url).1 ∧
    envAfter h (webhook_registerWebhook h c) =
      { h.env with hooks := (webhookRegisterH h.fx h.env.hooks c.bodyHook.err c.bodyHook.left.url).2 } := by
  rw [registerWebhook_refines]
  unfold webhookRegisterH
  by_cases hb : c.bodyHook.err = true
  · simp only [hb, hfx, ↓reduceIte, Bool.and_self, answer, envAfter, newOuts, wrote, bindFailed, drop_wrote2]
    exact ⟨respOf_bindErr, trivial⟩
  · simp only [Bool.not_eq_true] at hb
    simp only [hb, Bool.false_and, Bool.false_eq_true, ↓reduceIte]
    by_cases hu : c.bodyHook.left.url = ""
    · simp only [hu, ↓reduceIte, answer, envAfter, newOuts, wrote, drop_wrote]
      exact ⟨respOf_errOut_table Gen.errURLBodyRequired (by decide), trivial⟩
    · simp only [hu, ↓reduceIte]
      cases hc : (createWebhook h.env.hooks c.bodyHook.left.url).1
      · simp [answer, envAfter, newOuts, wrote, drop_wrote, withHooks]; rfl
      · simp [answer, envAfter, newOuts, wrote, drop_wrote, withHooks]; rfl
      · simp only [answer, envAfter, newOuts, wrote, drop_wrote]
        exact ⟨respOf_errOut_table Gen.errRefreshWebhook (by decide), trivial⟩

/-- **getWebhook**: `url` is required; the stored webhook or ErrWebhookNotFound -/
theorem getWebhook_refines (h : World) (c : Gin) :
    webhook_getWebhook h c = .ok (h,
      if (c.query "url").getD "" = "" then wrote c (errOut (bhsErr Gen.errURLParamRequired))
      else match findHook h.env.hooks ((c.query "url").getD "") with
        | some w => wrote c (.json 200 (.webhook (some w)))
        | none => wrote c (errOut (bhsErr Gen.errWebhookNotFound))) := by
  unfold webhook_getWebhook
  by_cases hu : (c.query "url").getD "" = ""
  · have hu' : "" = (c.query "url").getD "" := hu.symm
    simp [ginQuery, hu, wrote, bhsErr, ErrorResponse_refines, bind, Except.bind, pure, Except.pure]; rfl
  · have hu' : ¬ "" = (c.query "url").getD "" := fun e => hu e.symm
    unfold Webhooks_GetWebhookByURL
    cases hf : findHook h.env.hooks ((c.query "url").getD "") <;>
      simp [ginQuery, hu, hu', hf, ginJSON, wrote, bhsErr, jvHook, ErrorResponse_refines, bind, Except.bind, pure, Except.pure]

theorem getWebhook_answer (h : World) (c : Gin) :
    answer c (webhook_getWebhook h c) = webhookGetH h.env.hooks (c.query "url") := by
  rw [getWebhook_refines]
  unfold webhookGetH
  by_cases hu : (c.query "url").getD "" = ""
  · simp only [hu, ↓reduceIte, answer, newOuts, wrote, drop_wrote]
    exact respOf_errOut_table Gen.errURLParamRequired (by decide)
  · simp only [hu, ↓reduceIte]
    cases findHook h.env.hooks ((c.query "url").getD "")
    · simp only [answer, newOuts, wrote, drop_wrote]
      exact respOf_errOut_table Gen.errWebhookNotFound (by decide)
    · simp [answer, newOuts, wrote, drop_wrote]; rfl

/-- **revokeWebhook**: `url` is required; a stored webhook is deleted and "Webhook revoked" written, else ErrWebhookNotFound -/
theorem revokeWebhook_refines (h : World) (c : Gin) :
    webhook_revokeWebhook h c = .ok (
      if (c.query "url").getD "" = "" then (h, wrote c (errOut (bhsErr Gen.errURLParamRequired)))
      else match findHook h.env.hooks ((c.query "url").getD "") with
        | some _ => (withHooks h (deleteHook h.env.hooks ((c.query "url").getD "")), wrote c (.json 200 (.str "Webhook revoked")))
        | none => (h, wrote c (errOut (bhsErr Gen.errWebhookNotFound)))) := by
  unfold webhook_revokeWebhook
  by_cases hu : (c.query "url").getD "" = ""
  · have hu' : "" = (c.query "url").getD "" := hu.symm
    simp [ginQuery, hu, wrote, bhsErr, ErrorResponse_refines, bind, Except.bind, pure, Except.pure]; rfl
  · have hu' : ¬ "" = (c.query "url").getD "" := fun e => hu e.symm
    unfold Webhooks_DeleteWebhook
    cases hf : findHook h.env.hooks ((c.query "url").getD "") <;>
      simp [ginQuery, hu, hu', hf, ginJSON, wrote, bhsErr, jvStr, withHooks, ErrorResponse_refines, bind, Except.bind, pure, Except.pure]

theorem revokeWebhook_answer (h : World) (c : Gin) :
    answer c (webhook_revokeWebhook h c) = (webhookDeleteH h.env.hooks (c.query "url")).1 ∧
    envAfter h (webhook_revokeWebhook h c) = { h.env with hooks := (webhookDeleteH h.env.hooks (c.query "url")).2 } := by
  rw [revokeWebhook_refines]
  unfold webhookDeleteH
  by_cases hu : (c.query "url").getD "" = ""
  · simp only [hu, ↓reduceIte, answer, envAfter, newOuts, wrote, drop_wrote]
    exact ⟨respOf_errOut_table Gen.errURLParamRequired (by decide), trivial⟩
  · simp only [hu, ↓reduceIte]
    cases findHook h.env.hooks ((c.query "url").getD "")
    · simp only [answer, envAfter, newOuts, wrote, drop_wrote]
      exact ⟨respOf_errOut_table Gen.errWebhookNotFound (by decide), trivial⟩
    · simp [answer, envAfter, newOuts, wrote, drop_wrote, withHooks]; rfl

/-! ## transports/http/endpoints/api/access -/

/-- **getToken**: the token the middleware stored, or — authentication disabled — ErrTokenNotFound -/
theorem getToken_refines (h : World) (c : Gin) :
    access_getToken h c = .ok (h, match c.auth with
      | .disabled => wrote c (errOut (bhsErr Gen.errTokenNotFound))
      | a => wrote c (.json 200 (.any (some a)))) := by
  unfold access_getToken
  cases ha : c.auth <;>
    simp [ginGet, ha, ginJSON, wrote, bhsErr, jvAny, ErrorResponse_refines, bind, Except.bind, pure, Except.pure] <;> rfl

theorem getToken_answer (h : World) (c : Gin) (hfx : h.fx.accessGetNoAuthStructured = true) :
    answer c (access_getToken h c) = accessGetH h.fx c.auth := by
  rw [getToken_refines]
  unfold accessGetH
  cases c.auth
  · simp only [hfx, ↓reduceIte, answer, newOuts, wrote, drop_wrote]
    exact respOf_errOut_table Gen.errTokenNotFound (by decide)
  all_goals (simp [answer, newOuts, wrote, drop_wrote]; rfl)

/-- **createToken** (token table not modelled: GenerateToken succeeds) -/
theorem createToken_refines (h : World) (c : Gin) : access_createToken h c = .ok (h, wrote c (.json 200 .token)) := by
  simp [access_createToken, Tokens_GenerateToken, ginJSON, wrote, jvToken, bind, Except.bind, pure, Except.pure]

theorem createToken_answer (h : World) (c : Gin) : answer c (access_createToken h c) = ok200 := by
  rw [createToken_refines]; simp [answer, newOuts, wrote, drop_wrote]; rfl

/-- **revokeToken** (DeleteToken of an unknown token is not an error) -/
theorem revokeToken_refines (h : World) (c : Gin) :
    access_revokeToken h c = .ok (h, wrote c (.json 200 (.str "Token revoked"))) := by
  simp [access_revokeToken, Tokens_DeleteToken, ginParam, ginJSON, wrote, jvStr, bind, Except.bind, pure, Except.pure]

theorem revokeToken_answer (h : World) (c : Gin) : answer c (access_revokeToken h c) = ⟨200, [.bareString]⟩ := by
  rw [revokeToken_refines]; simp [answer, newOuts, wrote, drop_wrote]; rfl

/-! ## A whole exchange: token middleware, RequireAdmin, handler — against `Http.step` -/

/-- the handler list the theorems below cover is the list RegisterAPIEndpoints registers (an added handler changes the
    regenerated `registered` and breaks this) -/
theorem registered_covered :
    registered = ["headers_getHeaderByHash", "headers_getHeaderByHeight", "headers_getHeaderAncestorsByHash",
      "headers_getCommonAncestor", "headers_getHeadersState", "tips_getTips", "tips_getTipLongestChain", "merkleroots_verify",
      "webhook_registerWebhook", "webhook_getWebhook", "webhook_revokeWebhook", "access_getToken", "access_createToken",
      "access_revokeToken"] ∧
    adminOnly = ["access_createToken", "access_revokeToken"] := by decide

theorem gate_mem {a : AuthIn} {e : Gen.ErrDef} (h : gate a = some e) : e ∈ Gen.errorTable := by
  cases a <;> simp [gate] at h <;> subst h <;> decide

theorem adminGate_mem {a : AuthIn} {e : Gen.ErrDef} (h : adminGate a = some e) : e ∈ Gen.errorTable := by
  cases a <;> simp [adminGate] at h <;> subst h <;> decide

/-- a refusal is written by the generated AbortWithErrorResponse: the `{code, message}` document of the definition, once -/
theorem abortWith_spec (w : World) (c : Gin) (e : Gen.ErrDef) (he : e ∈ Gen.errorTable) :
    abortWith w c e = .ok (w, { wrote c (errOut (bhsErr e)) with aborted := true }) ∧
    answer c (abortWith w c e) = errResp e ∧ envAfter w (abortWith w c e) = w.env := by
  have h1 : abortWith w c e = .ok (w, { wrote c (errOut (bhsErr e)) with aborted := true }) := by
    unfold abortWith; rw [AbortWithErrorResponse_refines]; rfl
  refine ⟨h1, ?_, ?_⟩
  · rw [h1]; simp only [answer, newOuts, wrote, drop_wrote]; exact respOf_errOut_table e he
  · rw [h1]; rfl

theorem isApi_of_handler {r : Req} {p} (h : handlerOf r = some p) : r.isApi = true := by
  cases r <;> simp [handlerOf] at h <;> rfl

/-- what `genServe` runs -/
theorem genServe_eq (w : World) (a : AuthIn) (r : Req) (name : String) (f : World → Gin → Except Fault (World × Gin))
    (hh : handlerOf r = some (name, f)) :
    genServe w a r = some (match gate a with
      | some e => abortWith w (ginOf a r) e
      | none =>
        if adminOnly.contains name then
          (match adminGate a with
           | some e => abortWith w (ginOf a r) e
           | none => f w (ginOf a r))
        else f w (ginOf a r)) := by
  unfold genServe
  rw [hh]
  cases gate a
  · simp only; split
    · cases adminGate a <;> rfl
    · rfl
  · rfl

/-- an exchange on a route that is not behind RequireAdmin -/
theorem served_plain (w : World) (a : AuthIn) (r : Req) (name : String) (f : World → Gin → Except Fault (World × Gin))
    (hh : handlerOf r = some (name, f)) (hadm : adminOnly.contains name = false)
    (hf : answer (ginOf a r) (f w (ginOf a r)) = (handle w.fx w.env a r).1 ∧ envAfter w (f w (ginOf a r)) = (handle w.fx w.env a r).2) :
    ∃ res, genServe w a r = some res ∧ answer (ginOf a r) res = (step w.fx w.env a r).1 ∧ envAfter w res = (step w.fx w.env a r).2 := by
  refine ⟨_, genServe_eq w a r name f hh, ?_⟩
  unfold step
  rw [if_pos (isApi_of_handler hh)]
  cases hg : gate a with
  | some e => have := abortWith_spec w (ginOf a r) e (gate_mem hg); exact ⟨this.2.1, this.2.2⟩
  | none => simp only [hadm, Bool.false_eq_true, ↓reduceIte]; exact hf

/-- an exchange on a route behind RequireAdmin -/
theorem served_admin (w : World) (a : AuthIn) (r : Req) (name : String) (f : World → Gin → Except Fault (World × Gin))
    (ok : Response) (hh : handlerOf r = some (name, f)) (hadm : adminOnly.contains name = true)
    (hhandle : handle w.fx w.env a r = (adminH a ok, w.env))
    (hf : answer (ginOf a r) (f w (ginOf a r)) = ok ∧ envAfter w (f w (ginOf a r)) = w.env) :
    ∃ res, genServe w a r = some res ∧ answer (ginOf a r) res = (step w.fx w.env a r).1 ∧ envAfter w res = (step w.fx w.env a r).2 := by
  refine ⟨_, genServe_eq w a r name f hh, ?_⟩
  unfold step
  rw [if_pos (isApi_of_handler hh)]
  cases hg : gate a with
  | some e => have := abortWith_spec w (ginOf a r) e (gate_mem hg); exact ⟨this.2.1, this.2.2⟩
  | none =>
    simp only [hadm, ↓reduceIte, hhandle, adminH]
    cases hag : adminGate a with
    | some e => have := abortWith_spec w (ginOf a r) e (adminGate_mem hag); exact ⟨this.2.1, this.2.2⟩
    | none => exact hf

theorem envAfter_ok (w w' : World) (c : Gin) : envAfter w (.ok (w', c)) = w'.env := rfl

/-- **every exchange a translated handler serves is answered as the hand model's `step` says, and leaves the state
    `step` says** — for every world whose handler-level switches are on (the service-level ones arbitrary), every
    authentication class and every abstract request with a translated handler -/
theorem served_matches_step (w : World) (a : AuthIn) (r : Req) (hfx : handlerSwitchesOn w.fx = true)
    (hcov : (handlerOf r).isSome = true) :
    ∃ res, genServe w a r = some res ∧ answer (ginOf a r) res = (step w.fx w.env a r).1 ∧
      envAfter w res = (step w.fx w.env a r).2 := by
  simp only [handlerSwitchesOn, Bool.and_eq_true] at hfx
  obtain ⟨⟨⟨h1, h4⟩, h5⟩, h6⟩ := hfx
  cases r with
  | headerByHash x =>
    refine served_plain w a _ _ _ rfl (by decide) ⟨?_, ?_⟩
    · rw [getHeaderByHash_answer]; simp [handle, ginOf]
    · rw [getHeaderByHash_refines]; rfl
  | headerState x =>
    refine served_plain w a _ _ _ rfl (by decide) ⟨?_, ?_⟩
    · rw [getHeadersState_answer]; simp [handle, ginOf]
    · rw [getHeadersState_refines]; rfl
  | byHeight x n =>
    refine served_plain w a _ _ _ rfl (by decide) ⟨?_, ?_⟩
    · rw [getHeaderByHeight_answer _ _ h1]; simp [handle, ginOf]
    · rw [getHeaderByHeight_refines]; rfl
  | ancestors x y =>
    refine served_plain w a _ _ _ rfl (by decide) ⟨?_, ?_⟩
    · rw [getHeaderAncestorsByHash_answer]; simp [handle, ginOf]
    · rw [getHeaderAncestorsByHash_refines]; rfl
  | commonAncestor b =>
    refine served_plain w a _ _ _ rfl (by decide) ⟨?_, ?_⟩
    · rw [getCommonAncestor_answer]; cases b <;> simp [handle, ginOf, bindOf, inOf]
    · rw [getCommonAncestor_refines]
      split
      · rfl
      · split <;> rfl
  | tips =>
    refine served_plain w a _ _ _ rfl (by decide) ⟨?_, ?_⟩
    · rw [getTips_answer]; rfl
    · rw [getTips_refines]; rfl
  | tipLongest =>
    refine served_plain w a _ _ _ rfl (by decide) ⟨?_, ?_⟩
    · rw [getTipLongestChain_answer]; rfl
    · rw [getTipLongestChain_refines]; cases getTip w.env.store <;> rfl
  | verify b =>
    refine served_plain w a _ _ _ rfl (by decide) ⟨?_, ?_⟩
    · rw [verify_answer _ _ h5]; cases b <;> simp [handle, ginOf, bindOf, inOf]
    · rw [verify_refines]; rfl
  | webhookRegister e u =>
    refine served_plain w a _ _ _ rfl (by decide) ?_
    have := registerWebhook_answer w (ginOf a (.webhookRegister e u)) h4
    simpa [handle, ginOf] using this
  | webhookGet u =>
    refine served_plain w a _ _ _ rfl (by decide) ⟨?_, ?_⟩
    · rw [getWebhook_answer]; simp [handle, ginOf]
    · rw [getWebhook_refines]; rfl
  | webhookDelete u =>
    refine served_plain w a _ _ _ rfl (by decide) ?_
    have := revokeWebhook_answer w (ginOf a (.webhookDelete u))
    simpa [handle, ginOf] using this
  | accessGet =>
    refine served_plain w a _ _ _ rfl (by decide) ⟨?_, ?_⟩
    · rw [getToken_answer _ _ h6]; simp [handle, ginOf, baseGin]
    · rw [getToken_refines]; rfl
  | accessCreate =>
    refine served_admin w a _ _ _ ok200 rfl (by decide) rfl ⟨?_, ?_⟩
    · rw [createToken_answer]
    · rw [createToken_refines]; rfl
  | accessDelete t =>
    refine served_admin w a _ _ _ ⟨200, [.bareString]⟩ rfl (by decide) rfl ⟨?_, ?_⟩
    · rw [revokeToken_answer]
    · rw [revokeToken_refines]; rfl
  | merkleroots _ _ => simp [handlerOf] at hcov
  | peers => simp [handlerOf] at hcov
  | peersCount => simp [handlerOf] at hcov
  | status => simp [handlerOf] at hcov
  | noRoute => simp [handlerOf] at hcov
  | redirectSlash _ => simp [handlerOf] at hcov

/-! ## No fault, exactly one document -/

/-- the run ended normally and added exactly one document to the writes -/
def OneDoc (c : Gin) (res : Except Fault (World × Gin)) : Prop :=
  ∃ w' c', res = .ok (w', c') ∧ docs (newOuts c c') = 1

theorem errOut_isDoc (e : Option Err) : isDoc (errOut e) = true := rfl

theorem oneDoc_wrote (c : Gin) (w' : World) (o : Out) (ho : isDoc o = true) : OneDoc c (.ok (w', wrote c o)) :=
  ⟨w', _, rfl, by simp [docs, newOuts, wrote, drop_wrote, ho]⟩

theorem oneDoc_aborted (c : Gin) (w' : World) (o : Out) (ho : isDoc o = true) :
    OneDoc c (.ok (w', { wrote c o with aborted := true })) :=
  ⟨w', _, rfl, by simp [docs, newOuts, wrote, drop_wrote, ho]⟩

theorem oneDoc_bindFailed (c : Gin) (w' : World) : OneDoc c (.ok (w', wrote (bindFailed c) bindErrOut)) :=
  ⟨w', _, rfl, by simp [docs, newOuts, wrote, bindFailed, drop_wrote2, List.filter, isDoc, bindErrOut, errOut]⟩

theorem getHeaderByHash_oneDoc (h : World) (c : Gin) : OneDoc c (headers_getHeaderByHash h c) := by
  rw [getHeaderByHash_refines]; exact oneDoc_wrote _ _ _ (by split <;> rfl)
theorem getHeadersState_oneDoc (h : World) (c : Gin) : OneDoc c (headers_getHeadersState h c) := by
  rw [getHeadersState_refines]; exact oneDoc_wrote _ _ _ (by split <;> rfl)
theorem getHeaderByHeight_oneDoc (h : World) (c : Gin) : OneDoc c (headers_getHeaderByHeight h c) := by
  rw [getHeaderByHeight_refines]; exact oneDoc_wrote _ _ _ (by split <;> rfl)
theorem getHeaderAncestorsByHash_oneDoc (h : World) (c : Gin) : OneDoc c (headers_getHeaderAncestorsByHash h c) := by
  rw [getHeaderAncestorsByHash_refines]; exact oneDoc_wrote _ _ _ (by split <;> rfl)

/-- getCommonAncestor cannot fault once the service rejects the empty list and never answers `nil, nil`
    (the two repairs 397583f and 15c8125 in service/header_service.go) -/
theorem getCommonAncestor_oneDoc (h : World) (c : Gin) (h2 : h.fx.commonAncestorRejectsEmpty = true)
    (h3 : h.fx.commonAncestorHandlesNil = true) : OneDoc c (headers_getCommonAncestor h c) := by
  rw [getCommonAncestor_refines]
  split
  · exact oneDoc_bindFailed _ _
  · unfold Headers_GetCommonAncestor
    rw [h2, h3]
    by_cases he : c.bodyStrs.left.isEmpty = true
    · simp only [he, Bool.and_self, ↓reduceIte, pure, Except.pure, bhsErr]; exact oneDoc_wrote _ _ _ rfl
    · simp only [he, Bool.and_false, Bool.false_eq_true, ↓reduceIte]
      have hp : commonAncestor h.env.store c.bodyStrs.left ≠ .panicEmpty := by
        intro hc
        have : caKind h.env.store c.bodyStrs.left = .panic := by unfold caKind; rw [hc]
        have := C16_commonAncestor_panic_only_empty _ _ this
        rw [this] at he; exact he rfl
      cases hc : commonAncestor h.env.store c.bodyStrs.left with
      | found r => exact oneDoc_wrote _ _ _ rfl
      | notFound => simp only [pure, Except.pure, bhsErr]; exact oneDoc_wrote _ _ _ rfl
      | nilResult => simp only [↓reduceIte, pure, Except.pure, bhsErr]; exact oneDoc_wrote _ _ _ rfl
      | panicEmpty => exact absurd hc hp

theorem getTips_oneDoc (h : World) (c : Gin) : OneDoc c (tips_getTips h c) := by
  rw [getTips_refines]; exact oneDoc_wrote _ _ _ rfl

/-- getTipLongestChain cannot fault on healthy storage -/
theorem getTipLongestChain_oneDoc (h : World) (c : Gin) (hs : Healthy h.env.store) : OneDoc c (tips_getTipLongestChain h c) := by
  rw [getTipLongestChain_refines]
  obtain ⟨g, hg, hl⟩ := hs
  obtain ⟨t, ht, _⟩ := getTip_some hg hl
  rw [ht]; exact oneDoc_wrote _ _ _ rfl

theorem verify_oneDoc (h : World) (c : Gin) : OneDoc c (merkleroots_verify h c) := by
  rw [verify_refines]
  split
  · exact oneDoc_bindFailed _ _
  · split
    · exact oneDoc_wrote _ _ _ rfl
    · split <;> exact oneDoc_wrote _ _ _ rfl

/-- registerWebhook writes ONE document also when the body does not bind (the defect 64394b6 repaired) -/
theorem registerWebhook_oneDoc (h : World) (c : Gin) : OneDoc c (webhook_registerWebhook h c) := by
  rw [registerWebhook_refines]
  split
  · exact oneDoc_bindFailed _ _
  · split
    · exact oneDoc_wrote _ _ _ rfl
    · split <;> exact oneDoc_wrote _ _ _ rfl

theorem getWebhook_oneDoc (h : World) (c : Gin) : OneDoc c (webhook_getWebhook h c) := by
  rw [getWebhook_refines]
  split
  · exact oneDoc_wrote _ _ _ rfl
  · split <;> exact oneDoc_wrote _ _ _ rfl

theorem revokeWebhook_oneDoc (h : World) (c : Gin) : OneDoc c (webhook_revokeWebhook h c) := by
  rw [revokeWebhook_refines]
  split
  · exact oneDoc_wrote _ _ _ rfl
  · split <;> exact oneDoc_wrote _ _ _ rfl

theorem getToken_oneDoc (h : World) (c : Gin) : OneDoc c (access_getToken h c) := by
  rw [getToken_refines]; cases c.auth <;> exact oneDoc_wrote _ _ _ rfl
theorem createToken_oneDoc (h : World) (c : Gin) : OneDoc c (access_createToken h c) := by
  rw [createToken_refines]; exact oneDoc_wrote _ _ _ rfl
theorem revokeToken_oneDoc (h : World) (c : Gin) : OneDoc c (access_revokeToken h c) := by
  rw [revokeToken_refines]; exact oneDoc_wrote _ _ _ rfl

/-- **no panic, no double response**: for the code today on healthy storage every exchange a translated handler serves
    ends without a fault (no nil dereference, no index out of range) and writes exactly one document — the six
    repaired C16 defects were exactly faults, double documents and missing documents in these handlers -/
theorem served_no_fault_single (env : Env) (a : AuthIn) (r : Req) (hs : Healthy env.store)
    (hcov : (handlerOf r).isSome = true) :
    ∃ res, genServe ⟨codeToday, env⟩ a r = some res ∧ OneDoc (ginOf a r) res := by
  have key : ∀ name f, handlerOf r = some (name, f) → OneDoc (ginOf a r) (f ⟨codeToday, env⟩ (ginOf a r)) →
      ∃ res, genServe ⟨codeToday, env⟩ a r = some res ∧ OneDoc (ginOf a r) res := by
    intro name f hh hf
    refine ⟨_, genServe_eq _ a r name f hh, ?_⟩
    cases hg : gate a with
    | some e =>
      show OneDoc _ (abortWith _ _ e)
      rw [(abortWith_spec _ _ e (gate_mem hg)).1]; exact oneDoc_aborted _ _ _ rfl
    | none =>
      simp only
      split
      · cases hag : adminGate a with
        | some e =>
          show OneDoc _ (abortWith _ _ e)
          rw [(abortWith_spec _ _ e (adminGate_mem hag)).1]; exact oneDoc_aborted _ _ _ rfl
        | none => exact hf
      · exact hf
  cases r with
  | headerByHash x => exact key _ _ rfl (getHeaderByHash_oneDoc _ _)
  | headerState x => exact key _ _ rfl (getHeadersState_oneDoc _ _)
  | byHeight x n => exact key _ _ rfl (getHeaderByHeight_oneDoc _ _)
  | ancestors x y => exact key _ _ rfl (getHeaderAncestorsByHash_oneDoc _ _)
  | commonAncestor b => exact key _ _ rfl (getCommonAncestor_oneDoc _ _ rfl rfl)
  | tips => exact key _ _ rfl (getTips_oneDoc _ _)
  | tipLongest => exact key _ _ rfl (getTipLongestChain_oneDoc _ _ hs)
  | verify b => exact key _ _ rfl (verify_oneDoc _ _)
  | webhookRegister e u => exact key _ _ rfl (registerWebhook_oneDoc _ _)
  | webhookGet u => exact key _ _ rfl (getWebhook_oneDoc _ _)
  | webhookDelete u => exact key _ _ rfl (revokeWebhook_oneDoc _ _)
  | accessGet => exact key _ _ rfl (getToken_oneDoc _ _)
  | accessCreate => exact key _ _ rfl (createToken_oneDoc _ _)
  | accessDelete t => exact key _ _ rfl (revokeToken_oneDoc _ _)
  | merkleroots _ _ => simp [handlerOf] at hcov
  | peers => simp [handlerOf] at hcov
  | peersCount => simp [handlerOf] at hcov
  | status => simp [handlerOf] at hcov
  | noRoute => simp [handlerOf] at hcov
  | redirectSlash _ => simp [handlerOf] at hcov

/-! ## The C16 headlines over the generated handlers -/

theorem today_switches : handlerSwitchesOn codeToday = true := by decide

/-- **C16_no_5xx, generated**: for the code today, every store with a longest-chain row, every authentication class and
    every abstract request a translated handler serves, what the GENERATED chain writes is below 500 -/
theorem C16_no_5xx_generated (env : Env) (a : AuthIn) (r : Req) (hs : Healthy env.store) (hcov : (handlerOf r).isSome = true) :
    ∃ res, genServe ⟨codeToday, env⟩ a r = some res ∧
      200 ≤ (answer (ginOf a r) res).status ∧ (answer (ginOf a r) res).status < 500 := by
  obtain ⟨res, hg, hr, _⟩ := served_matches_step ⟨codeToday, env⟩ a r today_switches hcov
  exact ⟨res, hg, by rw [hr]; exact C16_no_5xx env a r hs⟩

/-- **exactly one JSON document, generated** (the three requests `C16_single_json_partial` excludes are gin's own
    answers and GET /status: none of them has a translated handler) -/
theorem C16_single_json_generated (env : Env) (a : AuthIn) (r : Req) (hs : Healthy env.store) (hcov : (handlerOf r).isSome = true) :
    ∃ res, genServe ⟨codeToday, env⟩ a r = some res ∧
      ∃ b, (answer (ginOf a r) res).bodies = [b] ∧ b.isJson = true := by
  obtain ⟨res, hg, hr, _⟩ := served_matches_step ⟨codeToday, env⟩ a r today_switches hcov
  refine ⟨res, hg, ?_⟩
  rw [hr]
  apply C16_single_json_partial env a r hs
  · rintro rfl; simp [handlerOf] at hcov
  · rintro rfl; simp [handlerOf] at hcov
  · rintro g rfl; simp [handlerOf] at hcov

/-- **client errors are structured, generated** -/
theorem C16_client_errors_structured_generated (env : Env) (a : AuthIn) (r : Req) (hs : Healthy env.store)
    (hcov : (handlerOf r).isSome = true) :
    ∃ res, genServe ⟨codeToday, env⟩ a r = some res ∧
      ((400 ≤ (answer (ginOf a r) res).status ∧ (answer (ginOf a r) res).status < 500) →
        ∃ c m, (answer (ginOf a r) res).bodies = [.errorDoc c m] ∧ c ≠ "" ∧ m ≠ "") := by
  obtain ⟨res, hg, hr, _⟩ := served_matches_step ⟨codeToday, env⟩ a r today_switches hcov
  refine ⟨res, hg, ?_⟩
  rw [hr]
  exact C16_client_errors_structured_partial env a r hs (by rintro rfl; simp [handlerOf] at hcov)

/-- **a rejected write changes nothing, generated**: an exchange answered with an error leaves store, excess and
    webhook table as they were -/
theorem C16_rejected_write_generated (env : Env) (a : AuthIn) (r : Req) (hcov : (handlerOf r).isSome = true) :
    ∃ res, genServe ⟨codeToday, env⟩ a r = some res ∧
      (400 ≤ (answer (ginOf a r) res).status → envAfter ⟨codeToday, env⟩ res = env) := by
  obtain ⟨res, hg, hr, he⟩ := served_matches_step ⟨codeToday, env⟩ a r today_switches hcov
  refine ⟨res, hg, fun h4 => ?_⟩
  rw [he]
  rw [hr] at h4
  exact C16_rejected_write env a r h4

/-- the driver's cross-check (`Driver/Ops/Http.lean`: `err:gen-mismatch`) can never fire -/
theorem agrees_always (fx : Fixes) (env : Env) (a : AuthIn) (r : Req) : agrees fx env a r = true := by
  unfold agrees
  split
  · rename_i hfx
    cases hh : handlerOf r with
    | none => simp [genServe, hh]
    | some p =>
      obtain ⟨res, hg, hr, he⟩ := served_matches_step ⟨fx, env⟩ a r hfx (by rw [hh]; rfl)
      simp only [hg, hr, he, decide_true, Bool.and_self]
  · rfl

/-! ## Non-vacuity: the generated chain computed on the concrete store of C16 (`exStore`: genesis "g", children "a" (longest) and "b" (stale)) -/

/-- what the generated chain answers -/
def ans (fx : Fixes) (env : Env) (a : AuthIn) (r : Req) : Option Response :=
  (genServe ⟨fx, env⟩ a r).map (answer (ginOf a r))

/-- … and the webhook table it leaves -/
def hooksAfter (fx : Fixes) (env : Env) (a : AuthIn) (r : Req) : Option (List Hook) :=
  (genServe ⟨fx, env⟩ a r).map (fun res => (envAfter ⟨fx, env⟩ res).hooks)

example : ans codeToday exEnv .disabled (.headerByHash "a") = some ok200 ∧
    ans codeToday exEnv .disabled (.headerState "zz") = some (errResp Gen.errHeaderNotFound) ∧
    ans codeToday exEnv .disabled (.ancestors "a" "b") = some (errResp Gen.errHeadersNotPartOfTheSameChain) := by decide

-- byHeight: a missing / non-integer height is ErrInvalidHeight (400); a bad count silently becomes 1
example : ans codeToday exEnv .disabled (.byHeight none (some "2")) = some (errResp Gen.errInvalidHeight) ∧
    ans codeToday exEnv .disabled (.byHeight (some "1x") none) = some (errResp Gen.errInvalidHeight) ∧
    ans codeToday exEnv .disabled (.byHeight (some "1") (some "x")) = some ok200 := by decide

-- commonAncestor: `[]` and a list with the genesis header are structured 400s today; with the service-level repair
-- off the GENERATED handler faults (index out of range inside the service / nil dereference in newBlockHeaderResponse)
example : ans codeToday exEnv .disabled (.commonAncestor (.parsed [])) = some (errResp Gen.errCommonAncestorEmptyList) ∧
    ans { codeToday with commonAncestorRejectsEmpty := false } exEnv .disabled (.commonAncestor (.parsed [])) = some panicResp := by
  decide
example : ans codeToday exEnv .disabled (.commonAncestor (.parsed ["a", "g"])) = some (errResp Gen.errAncestorNotFound) ∧
    ans { codeToday with commonAncestorHandlesNil := false } exEnv .disabled (.commonAncestor (.parsed ["a", "g"])) = some panicResp ∧
    ans codeToday exEnv .disabled (.commonAncestor (.parsed ["a", "b"])) = some ok200 := by
  decide
example : (match headers_getCommonAncestor ⟨{ codeToday with commonAncestorHandlesNil := false }, exEnv⟩
      (ginOf .disabled (.commonAncestor (.parsed ["a", "g"]))) with | .error .noRow => true | _ => false) = true := by decide

-- a body that does not bind: gin's 400 status line, then ONE ErrBindBody document; nothing is created
example : ans codeToday exEnv .disabled (.webhookRegister true "http://x") = some (errResp Gen.errBindBody) ∧
    hooksAfter codeToday exEnv .disabled (.webhookRegister true "http://x") = some [] ∧
    ans codeToday exEnv .disabled (.verify .bindErr) = some (errResp Gen.errBindBody) ∧
    ans codeToday exEnv .disabled (.commonAncestor .bindErr) = some (errResp Gen.errBindBody) := by decide

-- webhook life cycle
example : ans codeToday exEnv .disabled (.webhookRegister false "http://x") = some ok200 ∧
    hooksAfter codeToday exEnv .disabled (.webhookRegister false "http://x") = some [⟨"http://x", true⟩] ∧
    ans codeToday exEnv .disabled (.webhookRegister false "") = some (errResp Gen.errURLBodyRequired) ∧
    ans codeToday { exEnv with hooks := [⟨"u", true⟩] } .disabled (.webhookRegister false "u") = some (errResp Gen.errRefreshWebhook) := by
  decide
example : ans codeToday { exEnv with hooks := [⟨"u", true⟩] } .disabled (.webhookDelete (some "u")) = some ⟨200, [.bareString]⟩ ∧
    hooksAfter codeToday { exEnv with hooks := [⟨"u", true⟩] } .disabled (.webhookDelete (some "u")) = some [] ∧
    ans codeToday exEnv .disabled (.webhookDelete none) = some (errResp Gen.errURLParamRequired) ∧
    ans codeToday exEnv .disabled (.webhookGet (some "u")) = some (errResp Gen.errWebhookNotFound) := by decide

-- verify, tips
example : ans codeToday exEnv .disabled (.verify (.parsed [])) = some (errResp Gen.errVerifyMerklerootsBadBody) ∧
    ans codeToday exEnv .disabled (.verify (.parsed [("ma", 1)])) = some ok200 ∧
    ans codeToday { exEnv with store := [] } .disabled (.verify (.parsed [("ma", 1)])) = some (errResp Gen.errGetChainTipHeight) ∧
    ans codeToday exEnv .disabled .tipLongest = some ok200 ∧
    ans codeToday { exEnv with store := [] } .disabled .tipLongest = some panicResp := by decide

-- authentication: the middleware's refusals, RequireAdmin, GET /access without authentication
example : ans codeToday exEnv .missing .tips = some (errResp Gen.errMissingAuthHeader) ∧
    ans codeToday exEnv .user .accessCreate = some (errResp Gen.errUnauthorized) ∧
    ans codeToday exEnv .admin (.accessDelete "t") = some ⟨200, [.bareString]⟩ ∧
    ans codeToday exEnv .disabled .accessGet = some (errResp Gen.errTokenNotFound) ∧
    ans codeToday exEnv .user .accessGet = some ok200 := by decide

-- requests without a translated handler
example : ans codeToday exEnv .disabled .status = none ∧ ans codeToday exEnv .disabled (.merkleroots none none) = none := by decide

-- the hypotheses of the headline corollaries are met by a concrete state
example : Healthy exEnv.store ∧ (handlerOf (.commonAncestor (.parsed ["a", "b"]))).isSome = true ∧ handlerSwitchesOn codeToday = true :=
  ⟨exStore_healthy, rfl, by decide⟩

end BHS.Props.HandlersGen
