/-
C16 — No request crashes the API or earns a 5xx; client errors are structured 4xx.

Model: BHS/Model/Http.lean — per handler a decision function from abstract inputs (query / path parameters as
`Option String` parsed by `atoi`, the body's bind result, the token middleware's outcome, gin's routing verdict) and
the state (header store through BHS/Model/Query.lean, webhook table) to `Response = {status, bodies}`.
HTTP parsing, gin (routing, Recovery, ResponseWriter) and encoding/json binding are TRUSTED inputs of the model.

The model carries one switch per defect this check found (`Fixes`): `codeBefore` = the code as first checked (all off),
`codeToday` = switches 1–6 on (repaired in /repo by the `fix:` commits 8c36075 397583f 15c8125 64394b6 0f9264d
689736e), 7–9 off (known findings: empty /status answer, gin's plain 404, gin's trailing-slash redirect),
`allFixed` = all on. Every theorem is proved for an ARBITRARY setting of the switches:

  * `C16_…_iff`      the property holds for a request  ⇔  the request is outside an explicit decidable set
                     (`bad5xx` / `badBody` / `badStruct`) — so the excluded inputs are EXACTLY the failing ones;
  * for `codeToday`: `C16_no_5xx` and `C16_rejected_write` are now FULL statements (no exclusion);
                     `C16_single_json_partial` excludes exactly `status`, `noRoute`, `redirectSlash`;
                     `C16_client_errors_structured_partial` excludes exactly `noRoute`;
                     each exclusion has a `…_counterexample_*` (negation at a concrete witness);
  * `C16_…_fixed`    the full statements for `allFixed`.

FULL statements still false for the code today (see the counterexamples):
  C16_single_json               ∀ env healthy, ∀ a r,  (respond codeToday env a r).bodies = [b] with b a JSON document
  C16_client_errors_structured  ∀ env healthy, ∀ a r,  status 4xx → bodies = [errorDoc code message], code ≠ "" ≠ message
-/
import BHS.Proofs.Http
import BHS.Proofs.ChainBasic

namespace BHS.Props.C16
open BHS BHS.Chain BHS.Http

/-- healthy storage: table `headers` answers and holds at least one longest-chain row
    (database.Init inserts the genesis header; C01's invariant keeps one) -/
def Healthy (s : Store String) : Prop := ∃ g ∈ s, g.st = .lc

/-- every store reachable by ingestion is healthy (C01's invariant: the genesis row is on the longest chain) -/
theorem healthy_of_inv (cfg : Cfg String) (s : Store String) (h : Inv cfg s) : Healthy s := by
  obtain ⟨⟨_, _, ⟨g, hg, _, hl, _⟩, _⟩, _⟩ := h
  exact ⟨g, hg, hl⟩

/-! ### the three observable clauses, per response -/

def no5xx (r : Response) : Bool := decide (200 ≤ r.status ∧ r.status < 500)

/-- exactly one document in the body, and it is JSON -/
def singleJson (r : Response) : Bool :=
  match r.bodies with
  | [b] => b.isJson
  | _ => false

/-- a 4xx answer carries exactly one `{code, message}` document with both fields non-empty -/
def structured (r : Response) : Bool :=
  if 400 ≤ r.status ∧ r.status < 500 then
    match r.bodies with
    | [.errorDoc c m] => c ≠ "" && m ≠ ""
    | _ => false
  else true

/-! ### the error table (regenerated: BHS/Gen/Errors.lean) -/

/-- every defined error is a 4xx with a code and a message, except ErrGeneric (500) -/
theorem C16_error_table :
    ∀ e ∈ Gen.errorTable, (400 ≤ e.status ∧ e.status < 500 ∧ e.code ≠ "" ∧ e.message ≠ "") ∨ e = Gen.errGeneric := by
  decide

/-- the definitions the modelled handlers and middleware answer with -/
def usedErrors : List Gen.ErrDef :=
  [Gen.errBindBody, Gen.errMissingAuthHeader, Gen.errInvalidAuthHeader, Gen.errInvalidAccessToken, Gen.errUnauthorized,
   Gen.errMerklerootNotFound, Gen.errMerklerootNotInLongestChain, Gen.errInvalidBatchSize, Gen.errGetChainTipHeight,
   Gen.errVerifyMerklerootsBadBody, Gen.errAncestorHashHigher, Gen.errAncestorNotFound, Gen.errHeadersNotPartOfTheSameChain,
   Gen.errHeaderWithGivenHashes, Gen.errHeaderNotFound, Gen.errURLBodyRequired, Gen.errURLParamRequired,
   Gen.errWebhookNotFound, Gen.errRefreshWebhook, Gen.errInvalidHeight, Gen.errCommonAncestorEmptyList, Gen.errTokenNotFound]

/-- they all come from the table and none of them is the 500 one -/
theorem C16_used_errors_mapped : ∀ e ∈ usedErrors, e ∈ Gen.errorTable ∧ e ≠ Gen.errGeneric := by decide

/-- mapAndLog's fallback really is a 5xx (what an unwrapped error earns) -/
theorem C16_unknown_is_5xx : 500 ≤ Gen.unknownErrorStatus := by decide

theorem errResp_good (e : Gen.ErrDef) (he : e ∈ usedErrors) :
    no5xx (errResp e) = true ∧ singleJson (errResp e) = true ∧ structured (errResp e) = true := by
  obtain ⟨ht, hg⟩ := C16_used_errors_mapped e he
  rcases C16_error_table e ht with ⟨h1, h2, h3, h4⟩ | h
  · simp [no5xx, singleJson, structured, errResp, errDoc, Body.isJson, h1, h2, h3, h4]; omega
  · exact absurd h hg

/-! ### what each handler can answer -/

/-- an answer that satisfies all three clauses: 200 with one JSON document, or a mapped error -/
inductive Plain : Response → Prop where
  | ok : Plain ok200
  | okString : Plain ⟨200, [.bareString]⟩
  | err (e : Gen.ErrDef) (he : e ∈ usedErrors) : Plain (errResp e)
  | fixed (st : Nat) (c m : String) (h1 : 400 ≤ st) (h2 : st < 500) (hc : c ≠ "") (hm : m ≠ "") : Plain (fixedErr st c m)

theorem Plain.good {r : Response} (h : Plain r) : no5xx r = true ∧ singleJson r = true ∧ structured r = true := by
  cases h with
  | ok => decide
  | okString => decide
  | err e he => exact errResp_good e he
  | fixed st c m h1 h2 hc hm =>
    simp [no5xx, singleJson, structured, fixedErr, Body.isJson, h1, h2, hc, hm]; omega

theorem headerByHash_plain (s : Store String) (h : String) : Plain (headerByHashH s h) := by
  unfold headerByHashH
  split
  · exact .ok
  · exact .err _ (by decide)

theorem ancestors_plain (s : Store String) (h x : String) : Plain (ancestorsH s h x) := by
  unfold ancestorsH
  split
  · exact .ok
  · exact .err _ (by decide)
  · exact .err _ (by decide)
  · exact .err _ (by decide)

theorem tipLongest_plain (s : Store String) (hs : Healthy s) : Plain (tipLongestH s) := by
  obtain ⟨g, hg, hl⟩ := hs
  obtain ⟨t, ht, _⟩ := getTip_some hg hl
  unfold tipLongestH
  rw [ht]
  exact .ok

theorem page_ne_noTip (s : Store String) (hs : Healthy s) (n : Nat) (k : Option String) : page s n k ≠ .error .noTip := by
  obtain ⟨g, hg, hl⟩ := hs
  obtain ⟨t, ht, _⟩ := getTip_some hg hl
  unfold page
  rw [ht]
  split
  · rename_i e he
    intro h
    unfold lastEvalHeight at he
    split at he
    · cases he
    · split at he
      · cases he; cases h
      · split at he
        · cases he
        · cases he; cases h
  · simp only
    split <;> simp

theorem merkleroots_plain (s : Store String) (hs : Healthy s) (b k : Option String) : Plain (merklerootsH s b k) := by
  unfold merklerootsH
  split
  · exact .err _ (by decide)
  · split
    · exact .err _ (by decide)
    · split
      · exact .ok
      · exact .err _ (by decide)
      · exact .err _ (by decide)
      · rename_i h; exact absurd h (page_ne_noTip s hs _ _)

theorem verify_parsed_plain (fx : Fixes) (s : Store String) (e : Int) (items : List (String × Int)) :
    Plain (verifyH fx s e (.parsed items)) := by
  unfold verifyH
  split
  · rename_i h; cases h
  · exact .err _ (by decide)
  · split
    · exact .err _ (by decide)
    · exact .ok

theorem webhookGet_plain (hooks : List Hook) (u : Option String) : Plain (webhookGetH hooks u) := by
  unfold webhookGetH
  simp only
  split
  · exact .err _ (by decide)
  · split
    · exact .ok
    · exact .err _ (by decide)

theorem webhookDelete_plain (hooks : List Hook) (u : Option String) : Plain (webhookDeleteH hooks u).1 := by
  unfold webhookDeleteH
  simp only
  split
  · exact .err _ (by decide)
  · split
    · exact .okString
    · exact .err _ (by decide)

theorem admin_plain (a : AuthIn) (r : Response) (hr : Plain r) : Plain (adminH a r) := by
  unfold adminH
  cases a <;> simp only [adminGate]
  all_goals first | exact hr | exact .err _ (by decide)

theorem caErr_used (s : Store String) (hs : List String) : caErr s hs ∈ usedErrors := by
  unfold caErr
  split
  · decide
  · simp only
    split <;> decide

theorem bindErr_plain : Plain (send afterBindAbort Gen.errBindBody.status (errDoc Gen.errBindBody)) := by
  have : send afterBindAbort Gen.errBindBody.status (errDoc Gen.errBindBody) = errResp Gen.errBindBody := by decide
  rw [this]
  exact .err _ (by decide)

/-- webhook registration without a bind error, or with the early return: one document -/
theorem webhookRegister_plain (fx : Fixes) (hooks : List Hook) (e : Bool) (u : String)
    (h : e = false ∨ fx.webhookReturnsAfterBindError = true) : Plain (webhookRegisterH fx hooks e u).1 := by
  unfold webhookRegisterH
  cases e with
  | true =>
    rcases h with h | h
    · cases h
    · simp only [h, Bool.and_self, ↓reduceIte]
      exact bindErr_plain
  | false =>
    simp only [Bool.false_and, Bool.false_eq_true, ↓reduceIte]
    split
    · exact .err _ (by decide)
    · split
      · exact .err _ (by decide)
      · exact .ok

/-! ### the excluded inputs -/

/-- the token middleware lets the request through (or does not apply) -/
def passes (a : AuthIn) (r : Req) : Bool := !r.isApi || (gate a).isNone

/-- POST /chain/header/commonAncestor requests that make the handler panic: `[]` / `null` (index out of range)
    and lists for which the service answers `nil, nil` (nil dereference) -/
def caBad (fx : Fixes) (s : Store String) (hs : List String) : Bool :=
  (hs.isEmpty && !fx.commonAncestorRejectsEmpty) || (decide (caKind s hs = .nil) && !fx.commonAncestorHandlesNil)

/-- requests answered with a 5xx -/
def bad5xx (fx : Fixes) (env : Env) (a : AuthIn) (r : Req) : Bool :=
  passes a r &&
  match r with
  | .byHeight h _ => !fx.byHeightValidatesHeight && (atoi (h.getD "")).isNone                 -- `height` absent / not an int
  | .commonAncestor (.parsed hs) => caBad fx env.store hs                                     -- panic → Recovery
  | _ => false

/-- requests whose body is not exactly one JSON document -/
def badBody (fx : Fixes) (env : Env) (a : AuthIn) (r : Req) : Bool :=
  passes a r &&
  match r with
  | .commonAncestor (.parsed hs) => caBad fx env.store hs                                     -- empty body
  | .webhookRegister e _ => e && !fx.webhookReturnsAfterBindError                             -- two documents
  | .accessGet => decide (a = .disabled) && !fx.accessGetNoAuthStructured                     -- empty body
  | .status => !fx.statusWritesJson                                                           -- empty body
  | .noRoute => !fx.noRouteStructured                                                         -- text/plain
  | .redirectSlash _ => !(fx.trailingSlashRedirectOff && fx.noRouteStructured)                -- text/html, empty or text/plain
  | _ => false

/-- requests answered 4xx without a single `{code, message}` document -/
def badStruct (fx : Fixes) (_env : Env) (a : AuthIn) (r : Req) : Bool :=
  passes a r &&
  match r with
  | .verify .bindErr => !fx.verifyBindErrorStructured                                         -- bare JSON string
  | .webhookRegister e _ => e && !fx.webhookReturnsAfterBindError                             -- two documents
  | .accessGet => decide (a = .disabled) && !fx.accessGetNoAuthStructured                     -- empty body
  | .noRoute => !fx.noRouteStructured                                                         -- text/plain
  | .redirectSlash _ => fx.trailingSlashRedirectOff && !fx.noRouteStructured                  -- falls through to NoRoute
  | _ => false

/-- what the excluded commonAncestor requests are, concretely (1): the empty list always panics -/
theorem C16_commonAncestor_empty_panics (s : Store String) : caKind s [] = .panic := (caKind_panic_iff s []).2 rfl

/-- … and ONLY the empty list does -/
theorem C16_commonAncestor_panic_only_empty (s : Store String) (hs : List String) (h : caKind s hs = .panic) : hs = [] :=
  (caKind_panic_iff s hs).1 h

/-- (2): all hashes stored and one of them at height 0 (the genesis header) ⇒ the service answers `nil, nil` -/
theorem C16_commonAncestor_genesis_nil (s : Store String) (hashes : List String) (rows : List (Row String))
    (hall : hashes.mapM (byHash s) = some rows) (g : String) (hg : g ∈ hashes) (r : Row String)
    (hr : byHash s g = some r) (h0 : r.height = 0) : caKind s hashes = .nil :=
  (caKind_nil_iff s hashes).2 (commonAncestor_nil_of_height_zero s hashes rows hall g hg r hr h0)

/-! ### the handlers with defects, one lemma each -/

theorem byHeight_clauses (fx : Fixes) (h c : Option String) :
    (no5xx (byHeightH fx h c) = !(!fx.byHeightValidatesHeight && (atoi (h.getD "")).isNone)) ∧
    singleJson (byHeightH fx h c) = true ∧ structured (byHeightH fx h c) = true := by
  unfold byHeightH
  cases hh : atoi (h.getD "") with
  | none =>
    cases hf : fx.byHeightValidatesHeight <;> simp <;> decide
  | some n => simp; decide

theorem commonAncestor_clauses (fx : Fixes) (s : Store String) (hs : List String) :
    no5xx (commonAncestorH fx s (.parsed hs)) = !caBad fx s hs ∧ singleJson (commonAncestorH fx s (.parsed hs)) = !caBad fx s hs ∧
      structured (commonAncestorH fx s (.parsed hs)) = true := by
  have hp := caKind_panic_iff s hs
  unfold commonAncestorH caBad
  simp only
  by_cases hemp : hs = []
  · subst hemp
    have hk : caKind s [] = .panic := hp.2 rfl
    cases hf : fx.commonAncestorRejectsEmpty <;> simp [hk] <;> decide
  · have hne : hs.isEmpty = false := by cases hs <;> simp_all
    have hnp : caKind s hs ≠ .panic := fun h => hemp (hp.1 h)
    simp only [hne, Bool.and_false, Bool.false_eq_true, ↓reduceIte, Bool.false_and, Bool.false_or]
    cases hk : caKind s hs with
    | found => simp; decide
    | err =>
      have := errResp_good _ (caErr_used s hs)
      simp [this]
    | panic => exact absurd hk hnp
    | nil => cases hf : fx.commonAncestorHandlesNil <;> simp <;> decide

theorem verify_bindErr_clauses (fx : Fixes) (s : Store String) (e : Int) :
    no5xx (verifyH fx s e .bindErr) = true ∧ singleJson (verifyH fx s e .bindErr) = true ∧
      structured (verifyH fx s e .bindErr) = fx.verifyBindErrorStructured := by
  unfold verifyH
  cases fx.verifyBindErrorStructured <;> simp <;> decide

/-- POST /webhook with an unbindable body and no early return: status 400 and TWO documents, whatever happens next -/
theorem webhookRegister_double (fx : Fixes) (hooks : List Hook) (u : String) (hf : fx.webhookReturnsAfterBindError = false) :
    (webhookRegisterH fx hooks true u).1.status = 400 ∧ (webhookRegisterH fx hooks true u).1.bodies.length = 2 := by
  unfold webhookRegisterH
  simp only [hf, Bool.and_false, Bool.false_eq_true, ↓reduceIte]
  split
  · simp [send, afterBindAbort]
  · split <;> simp [send, afterBindAbort]

theorem webhookRegister_clauses (fx : Fixes) (hooks : List Hook) (e : Bool) (u : String) :
    let bad := e && !fx.webhookReturnsAfterBindError
    no5xx (webhookRegisterH fx hooks e u).1 = true ∧ singleJson (webhookRegisterH fx hooks e u).1 = !bad ∧
      structured (webhookRegisterH fx hooks e u).1 = !bad := by
  intro bad
  by_cases h : e = false ∨ fx.webhookReturnsAfterBindError = true
  · have hb : bad = false := by rcases h with h | h <;> simp [bad, h]
    have := (webhookRegister_plain fx hooks e u h).good
    simp [hb, this]
  · have he : e = true := by cases e <;> simp_all
    have hf : fx.webhookReturnsAfterBindError = false := by cases hh : fx.webhookReturnsAfterBindError <;> simp_all
    subst he
    obtain ⟨h1, h2⟩ := webhookRegister_double fx hooks u hf
    have hb : bad = true := by simp [bad, hf]
    refine ⟨by simp [no5xx, h1], ?_, ?_⟩
    · rw [hb]
      unfold singleJson
      split
      · rename_i b hbod; rw [hbod] at h2; simp at h2
      · rfl
    · rw [hb]
      unfold structured
      rw [if_pos (by omega)]
      split
      · rename_i c m hbod; rw [hbod] at h2; simp at h2
      · rfl

theorem accessGet_clauses (fx : Fixes) (a : AuthIn) (hp : gate a = none) :
    let bad := decide (a = .disabled) && !fx.accessGetNoAuthStructured
    no5xx (accessGetH fx a) = true ∧ singleJson (accessGetH fx a) = !bad ∧ structured (accessGetH fx a) = !bad := by
  cases a <;> simp [gate] at hp <;> cases hf : fx.accessGetNoAuthStructured <;> simp [accessGetH, hf] <;> decide

theorem status_clauses (fx : Fixes) :
    no5xx (statusH fx) = true ∧ singleJson (statusH fx) = fx.statusWritesJson ∧ structured (statusH fx) = true := by
  unfold statusH
  cases fx.statusWritesJson <;> simp <;> decide

theorem noRoute_clauses (fx : Fixes) :
    no5xx (noRouteH fx) = true ∧ singleJson (noRouteH fx) = fx.noRouteStructured ∧ structured (noRouteH fx) = fx.noRouteStructured := by
  unfold noRouteH
  cases fx.noRouteStructured <;> simp <;> decide

theorem redirect_clauses (fx : Fixes) (g : Bool) :
    no5xx (redirectH fx g) = true ∧ singleJson (redirectH fx g) = (fx.trailingSlashRedirectOff && fx.noRouteStructured) ∧
      structured (redirectH fx g) = !(fx.trailingSlashRedirectOff && !fx.noRouteStructured) := by
  unfold redirectH
  cases hf : fx.trailingSlashRedirectOff
  · cases g <;> simp <;> decide
  · have := noRoute_clauses fx
    cases hn : fx.noRouteStructured <;> simp_all

/-! ### the property theorems -/

/-- all three clauses at once, for every setting of the switches: each clause holds for a request exactly when the
    request is outside the corresponding excluded set -/
theorem C16_clauses_iff (fx : Fixes) (env : Env) (a : AuthIn) (r : Req) (hs : Healthy env.store) :
    no5xx (respond fx env a r) = !bad5xx fx env a r ∧
    singleJson (respond fx env a r) = !badBody fx env a r ∧
    structured (respond fx env a r) = !badStruct fx env a r := by
  unfold respond step
  by_cases hapi : r.isApi = true
  · rw [if_pos hapi]
    cases hg : gate a with
    | some e =>
      have he : e ∈ usedErrors := by cases a <;> simp [gate] at hg <;> subst hg <;> decide
      have := errResp_good e he
      simp [bad5xx, badBody, badStruct, passes, hapi, hg, this]
    | none =>
      have hp : passes a r = true := by simp [passes, hg]
      cases r with
      | headerByHash h => have := (headerByHash_plain env.store h).good; simpa [handle, bad5xx, badBody, badStruct] using this
      | headerState h => have := (headerByHash_plain env.store h).good; simpa [handle, bad5xx, badBody, badStruct] using this
      | byHeight h c => have := byHeight_clauses fx h c; simpa [handle, bad5xx, badBody, badStruct, hp] using this
      | ancestors h x => have := (ancestors_plain env.store h x).good; simpa [handle, bad5xx, badBody, badStruct] using this
      | commonAncestor b =>
        cases b with
        | bindErr => have := bindErr_plain.good; simpa [handle, bad5xx, badBody, badStruct, commonAncestorH] using this
        | parsed l => have := commonAncestor_clauses fx env.store l; simpa [handle, bad5xx, badBody, badStruct, hp] using this
      | tips => simp [handle, bad5xx, badBody, badStruct]; decide
      | tipLongest => have := (tipLongest_plain env.store hs).good; simpa [handle, bad5xx, badBody, badStruct] using this
      | merkleroots b k => have := (merkleroots_plain env.store hs b k).good; simpa [handle, bad5xx, badBody, badStruct] using this
      | verify b =>
        cases b with
        | bindErr => have := verify_bindErr_clauses fx env.store env.excess; simpa [handle, bad5xx, badBody, badStruct, hp] using this
        | parsed l => have := (verify_parsed_plain fx env.store env.excess l).good; simpa [handle, bad5xx, badBody, badStruct] using this
      | webhookRegister e u => have := webhookRegister_clauses fx env.hooks e u; simpa [handle, bad5xx, badBody, badStruct, hp] using this
      | webhookGet u => have := (webhookGet_plain env.hooks u).good; simpa [handle, bad5xx, badBody, badStruct] using this
      | webhookDelete u => have := (webhookDelete_plain env.hooks u).good; simpa [handle, bad5xx, badBody, badStruct] using this
      | accessGet => have := accessGet_clauses fx a hg; simpa [handle, bad5xx, badBody, badStruct, hp] using this
      | accessCreate => have := (admin_plain a ok200 .ok).good; simpa [handle, bad5xx, badBody, badStruct] using this
      | accessDelete t => have := (admin_plain a ⟨200, [.bareString]⟩ .okString).good; simpa [handle, bad5xx, badBody, badStruct] using this
      | peers => simp [handle, bad5xx, badBody, badStruct]; decide
      | peersCount => simp [handle, bad5xx, badBody, badStruct]; decide
      | status => simp [Req.isApi] at hapi
      | noRoute => simp [Req.isApi] at hapi
      | redirectSlash g => simp [Req.isApi] at hapi
  · rw [if_neg hapi]
    have hp : passes a r = true := by simp [passes]; left; simpa using hapi
    cases r with
    | status => have := status_clauses fx; simpa [handle, bad5xx, badBody, badStruct, hp] using this
    | noRoute => have := noRoute_clauses fx; simpa [handle, bad5xx, badBody, badStruct, hp] using this
    | redirectSlash g => have := redirect_clauses fx g; simpa [handle, bad5xx, badBody, badStruct, hp] using this
    | _ => simp [Req.isApi] at hapi

/-- no 5xx ⇔ the request is not one of the excluded ones (any switches) -/
theorem C16_no_5xx_iff (fx : Fixes) (env : Env) (a : AuthIn) (r : Req) (hs : Healthy env.store) :
    (200 ≤ (respond fx env a r).status ∧ (respond fx env a r).status < 500) ↔ bad5xx fx env a r = false := by
  have := (C16_clauses_iff fx env a r hs).1
  simp only [no5xx] at this
  cases hb : bad5xx fx env a r <;> simp_all

/-- exactly one JSON document ⇔ not excluded (any switches) -/
theorem C16_single_json_iff (fx : Fixes) (env : Env) (a : AuthIn) (r : Req) (hs : Healthy env.store) :
    (∃ b, (respond fx env a r).bodies = [b] ∧ b.isJson = true) ↔ badBody fx env a r = false := by
  have := (C16_clauses_iff fx env a r hs).2.1
  unfold singleJson at this
  cases hb : badBody fx env a r
  · simp only [hb, Bool.not_false] at this
    simp only [iff_true]
    split at this
    · rename_i b hbod; exact ⟨b, hbod, this⟩
    · cases this
  · simp only [hb, Bool.not_true] at this
    simp only [Bool.true_eq_false, iff_false]
    rintro ⟨b, hbod, hj⟩
    rw [hbod] at this
    simp [hj] at this

/-- client errors are structured ⇔ not excluded (any switches) -/
theorem C16_client_errors_structured_iff (fx : Fixes) (env : Env) (a : AuthIn) (r : Req) (hs : Healthy env.store) :
    ((400 ≤ (respond fx env a r).status ∧ (respond fx env a r).status < 500) →
        ∃ c m, (respond fx env a r).bodies = [.errorDoc c m] ∧ c ≠ "" ∧ m ≠ "") ↔ badStruct fx env a r = false := by
  have := (C16_clauses_iff fx env a r hs).2.2
  unfold structured at this
  cases hb : badStruct fx env a r
  · simp only [hb, Bool.not_false] at this
    simp only [iff_true]
    intro h4
    rw [if_pos h4] at this
    split at this
    · rename_i c m hbod
      simp only [Bool.and_eq_true, decide_eq_true_eq] at this
      exact ⟨c, m, hbod, by simpa using this.1, by simpa using this.2⟩
    · cases this
  · simp only [hb, Bool.not_true] at this
    simp only [Bool.true_eq_false, iff_false]
    intro h
    split at this
    · rename_i h4
      obtain ⟨c, m, hbod, hc, hm⟩ := h h4
      rw [hbod] at this
      simp [hc, hm] at this
    · cases this

/-! #### the code today -/

/-- FULL statement (since the fixes 8c36075, 397583f, 15c8125): no request earns a 5xx -/
theorem C16_no_5xx (env : Env) (a : AuthIn) (r : Req) (hs : Healthy env.store) :
    200 ≤ (respond codeToday env a r).status ∧ (respond codeToday env a r).status < 500 := by
  apply (C16_no_5xx_iff codeToday env a r hs).2
  cases r <;> simp [bad5xx, codeToday]
  rename_i b; cases b <;> simp [caBad]

/-- exactly one JSON document — except GET /status (empty), unmatched requests (gin's text/plain 404) and
    trailing-slash redirects (HTML / empty): the three remaining known findings -/
theorem C16_single_json_partial (env : Env) (a : AuthIn) (r : Req) (hs : Healthy env.store)
    (h1 : r ≠ .status) (h2 : r ≠ .noRoute) (h3 : ∀ g, r ≠ .redirectSlash g) :
    ∃ b, (respond codeToday env a r).bodies = [b] ∧ b.isJson = true := by
  apply (C16_single_json_iff codeToday env a r hs).2
  cases r <;> simp [badBody, codeToday] <;> try contradiction
  · rename_i b; cases b <;> simp [caBad]
  · exact absurd rfl (h3 _)

/-- the exclusion is exact: those three kinds of request always fail the clause -/
theorem C16_single_json_excluded_fail (env : Env) (a : AuthIn) (r : Req) (hs : Healthy env.store)
    (h : r = .status ∨ r = .noRoute ∨ ∃ g, r = .redirectSlash g) :
    ¬ ∃ b, (respond codeToday env a r).bodies = [b] ∧ b.isJson = true := by
  intro hj
  have := (C16_single_json_iff codeToday env a r hs).1 hj
  rcases h with rfl | rfl | ⟨g, rfl⟩ <;> simp [badBody, codeToday, passes, Req.isApi] at this

/-- a 4xx carries one {code, message} document — except for unmatched requests (gin's text/plain 404) -/
theorem C16_client_errors_structured_partial (env : Env) (a : AuthIn) (r : Req) (hs : Healthy env.store)
    (h2 : r ≠ .noRoute)
    (h4 : 400 ≤ (respond codeToday env a r).status ∧ (respond codeToday env a r).status < 500) :
    ∃ c m, (respond codeToday env a r).bodies = [.errorDoc c m] ∧ c ≠ "" ∧ m ≠ "" := by
  refine (C16_client_errors_structured_iff codeToday env a r hs).2 ?_ h4
  cases r <;> simp [badStruct, codeToday] <;> try contradiction
  rename_i b; cases b <;> simp

/-! #### with every suggested patch applied: the full statements -/

theorem C16_no_5xx_fixed (env : Env) (a : AuthIn) (r : Req) (hs : Healthy env.store) :
    200 ≤ (respond allFixed env a r).status ∧ (respond allFixed env a r).status < 500 := by
  apply (C16_no_5xx_iff allFixed env a r hs).2
  cases r <;> simp [bad5xx, allFixed]
  rename_i b; cases b <;> simp [caBad]

theorem C16_single_json_fixed (env : Env) (a : AuthIn) (r : Req) (hs : Healthy env.store) :
    ∃ b, (respond allFixed env a r).bodies = [b] ∧ b.isJson = true := by
  apply (C16_single_json_iff allFixed env a r hs).2
  cases r <;> simp [badBody, allFixed]
  rename_i b; cases b <;> simp [caBad]

theorem C16_client_errors_structured_fixed (env : Env) (a : AuthIn) (r : Req) (hs : Healthy env.store)
    (h4 : 400 ≤ (respond allFixed env a r).status ∧ (respond allFixed env a r).status < 500) :
    ∃ c m, (respond allFixed env a r).bodies = [.errorDoc c m] ∧ c ≠ "" ∧ m ≠ "" := by
  refine (C16_client_errors_structured_iff allFixed env a r hs).2 ?_ h4
  cases r <;> simp [badStruct, allFixed]
  rename_i b; cases b <;> simp

/-! #### the header store is untouched -/

/-- No request changes table `headers`: by construction — no handler of the model returns a new store (the HTTP API
    has no route that writes headers; the webhook and token routes write their own tables). Stated for every
    switch setting, every request, healthy storage or not. -/
theorem C16_store_untouched (fx : Fixes) (env : Env) (a : AuthIn) (r : Req) :
    (step fx env a r).2.store = env.store ∧ (step fx env a r).2.excess = env.excess := by
  unfold step
  split
  · split
    · exact ⟨rfl, rfl⟩
    · cases r <;> exact ⟨rfl, rfl⟩
  · cases r <;> exact ⟨rfl, rfl⟩

/-- read handlers leave the webhook table alone too: only POST / DELETE /webhook can change it -/
theorem C16_reads_pure (fx : Fixes) (env : Env) (a : AuthIn) (r : Req)
    (hr : ∀ e u, r ≠ .webhookRegister e u) (hd : ∀ u, r ≠ .webhookDelete u) : (step fx env a r).2 = env := by
  unfold step
  split
  · split
    · rfl
    · cases r <;> first | rfl | exact absurd rfl (hr _ _) | exact absurd rfl (hd _)
  · cases r <;> first | rfl | exact absurd rfl (hr _ _) | exact absurd rfl (hd _)

/-- the token middleware either answers itself (state unchanged) or hands over to the handler -/
theorem step_cases (fx : Fixes) (env : Env) (a : AuthIn) (r : Req) :
    (∃ e, step fx env a r = (errResp e, env)) ∨ step fx env a r = handle fx env a r := by
  unfold step
  split
  · split
    · exact Or.inl ⟨_, rfl⟩
    · exact Or.inr rfl
  · exact Or.inr rfl

/-- a rejected write changes nothing, for every switch setting: with switch 4 off, POST /webhook with an unbindable
    body that still carried a `url` is the one exception (it created the webhook) -/
theorem C16_rejected_write_partial (fx : Fixes) (env : Env) (a : AuthIn) (r : Req)
    (hex : ∀ u, r = .webhookRegister true u → fx.webhookReturnsAfterBindError = true)
    (h4 : 400 ≤ (step fx env a r).1.status) : (step fx env a r).2 = env := by
  rcases step_cases fx env a r with ⟨e, he⟩ | he
  · rw [he]
  · rw [he] at h4 ⊢
    cases r with
    | webhookRegister e u =>
      simp only [handle] at h4 ⊢
      unfold webhookRegisterH at h4 ⊢
      cases e with
      | true =>
        have := hex u rfl
        simp [this]
      | false =>
        simp only [Bool.false_and, Bool.false_eq_true, ↓reduceIte] at h4 ⊢
        by_cases hu : u = ""
        · simp [hu]
        · simp only [hu, ↓reduceIte] at h4 ⊢
          cases hc : (createWebhook env.hooks u).1 with
          | alreadyActive => simp
          | created => simp [hc, send] at h4
          | refreshed => simp [hc, send] at h4
    | webhookDelete u =>
      simp only [handle] at h4 ⊢
      unfold webhookDeleteH at h4 ⊢
      simp only at h4 ⊢
      by_cases hu : u.getD "" = ""
      · simp [hu]
      · simp only [hu, ↓reduceIte] at h4 ⊢
        cases hf : findHook env.hooks (u.getD "") with
        | none => simp
        | some k => simp [hf] at h4
    | _ => rfl

/-- FULL statement (since the fix 64394b6): a request answered with an error leaves the whole state unchanged -/
theorem C16_rejected_write (env : Env) (a : AuthIn) (r : Req) (h4 : 400 ≤ (step codeToday env a r).1.status) :
    (step codeToday env a r).2 = env :=
  C16_rejected_write_partial codeToday env a r (fun _ _ => rfl) h4

/-! ### counterexamples: the code today at concrete witnesses (one per remaining known finding) -/

/-- a store with the genesis header and one child -/
def exStore : Store String :=
  [ { id := 0, hash := "g", prev := "0", merkle := "mg", height := 0, version := 1, time := 0, bits := 0, nonce := 0, work := 1, cum := 1, st := .lc },
    { id := 1, hash := "a", prev := "g", merkle := "ma", height := 1, version := 1, time := 0, bits := 0, nonce := 1, work := 1, cum := 2, st := .lc },
    { id := 2, hash := "b", prev := "g", merkle := "mb", height := 1, version := 1, time := 0, bits := 0, nonce := 2, work := 1, cum := 2, st := .stale } ]

def exEnv : Env := { store := exStore, excess := 6, hooks := [] }

theorem exStore_healthy : Healthy exStore := ⟨_, List.mem_cons_self, rfl⟩

/-- GET /status → 200 with an empty body (no JSON document) -/
theorem C16_single_json_counterexample_status : respond codeToday exEnv .disabled .status = ⟨200, []⟩ := by decide

/-- unknown route → gin's 404 text/plain -/
theorem C16_client_errors_structured_counterexample_noRoute :
    respond codeToday exEnv .admin .noRoute = ⟨404, [.nonJson]⟩ := by decide

/-- trailing-slash redirect → 301 with an HTML body -/
theorem C16_single_json_counterexample_redirect :
    respond codeToday exEnv .admin (.redirectSlash true) = ⟨301, [.nonJson]⟩ := by decide

/-! ### the record of the repaired defects: what the model says with the switches off (`codeBefore`), next to today -/

-- F-1 byHeight without / with a non-integer `height`: was 500 `error-unknown`
example : respond codeBefore exEnv .disabled (.byHeight none (some "2")) = ⟨500, [.errorDoc "error-unknown" "Internal server error"]⟩ := by decide
example : respond codeToday exEnv .disabled (.byHeight none (some "2")) = errResp Gen.errInvalidHeight := by decide
example : respond codeToday exEnv .disabled (.byHeight (some "9223372036854775808") none) = errResp Gen.errInvalidHeight := by decide
-- F-2 commonAncestor `[]`: was a panic (500, empty body)
example : respond codeBefore exEnv .disabled (.commonAncestor (.parsed [])) = ⟨500, []⟩ := by decide
example : respond codeToday exEnv .disabled (.commonAncestor (.parsed [])) = errResp Gen.errCommonAncestorEmptyList := by decide
-- F-3 commonAncestor with the genesis hash: was a nil dereference (500, empty body)
example : respond codeBefore exEnv .disabled (.commonAncestor (.parsed ["a", "g"])) = ⟨500, []⟩ := by decide
example : respond codeToday exEnv .disabled (.commonAncestor (.parsed ["a", "g"])) = errResp Gen.errAncestorNotFound := by decide
-- F-4 POST /webhook with an unbindable body: was two documents, and a created webhook when `url` had been decoded
example : respond codeBefore exEnv .disabled (.webhookRegister true "") =
    ⟨400, [.errorDoc "ErrBindBody" "error during bind JSON body", .errorDoc "ErrURLBodyRequired" "url is required"]⟩ := by decide
example : (step codeBefore exEnv .disabled (.webhookRegister true "http://x")).2.hooks = [⟨"http://x", true⟩] := by decide
example : (step codeToday exEnv .disabled (.webhookRegister true "http://x")).1 = errResp Gen.errBindBody ∧
    (step codeToday exEnv .disabled (.webhookRegister true "http://x")).2.hooks = [] := by decide
-- F-5 verify with an unbindable body: was a bare JSON string
example : respond codeBefore exEnv .disabled (.verify .bindErr) = ⟨400, [.bareString]⟩ := by decide
example : respond codeToday exEnv .disabled (.verify .bindErr) = errResp Gen.errBindBody := by decide
-- F-6 GET /access with authentication disabled: was 400 with an empty body
example : respond codeBefore exEnv .disabled .accessGet = ⟨400, []⟩ := by decide
example : respond codeToday exEnv .disabled .accessGet = errResp Gen.errTokenNotFound := by decide

/-! ### non-vacuity: requests that meet the hypotheses and exercise every kind of answer -/

example : Healthy exEnv.store := exStore_healthy
example : bad5xx codeToday exEnv .disabled (.byHeight (some "-1") (some "x")) = false := by decide
example : respond codeToday exEnv .disabled (.byHeight (some "9223372036854775807") (some "5")) = ok200 := by decide
example : bad5xx codeToday exEnv .disabled (.commonAncestor (.parsed ["a", "b"])) = false := by decide
example : respond codeToday exEnv .disabled (.commonAncestor (.parsed ["a", "b"])) = ok200 := by decide
example : respond codeToday exEnv .disabled (.commonAncestor (.parsed ["a", "zz"])) = errResp Gen.errHeaderNotFound := by decide
example : respond codeToday exEnv .disabled (.commonAncestor .bindErr) = errResp Gen.errBindBody := by decide
example : respond codeToday exEnv .missing (.commonAncestor (.parsed [])) = errResp Gen.errMissingAuthHeader := by decide
example : respond codeToday exEnv .user .accessCreate = errResp Gen.errUnauthorized := by decide
example : respond codeToday exEnv .user .accessGet = ok200 := by decide
example : respond codeToday exEnv .disabled (.merkleroots (some "-1") none) = errResp Gen.errInvalidBatchSize := by decide
example : respond codeToday exEnv .disabled (.merkleroots none (some "mb")) = errResp Gen.errMerklerootNotInLongestChain := by decide
example : respond codeToday exEnv .disabled (.merkleroots (some "0") (some "ma")) = ok200 := by decide
example : respond codeToday exEnv .disabled (.verify (.parsed [])) = errResp Gen.errVerifyMerklerootsBadBody := by decide
example : respond codeToday exEnv .disabled (.verify (.parsed [("ma", 1)])) = ok200 := by decide
example : respond codeToday exEnv .disabled (.ancestors "a" "b") = errResp Gen.errHeadersNotPartOfTheSameChain := by decide
example : respond codeToday exEnv .disabled (.webhookRegister false "http://x") = ok200 := by decide
example : respond codeToday { exEnv with hooks := [⟨"http://x", true⟩] } .disabled (.webhookRegister false "http://x") = errResp Gen.errRefreshWebhook := by decide
example : respond allFixed exEnv .disabled .noRoute = fixedErr 404 "ErrRouteNotFound" "route not found" := by decide
example : respond allFixed exEnv .disabled (.webhookRegister true "http://x") = errResp Gen.errBindBody := by decide

end BHS.Props.C16
