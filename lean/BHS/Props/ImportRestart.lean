/-
The start-up import on a database that already holds headers — C03 ("once stored, no field of a header except its
chain-state label ever changes and no header ever disappears … restarts") and C05 ("restarting on an existing database
never modifies stored headers"), stated over the GENERATED definitions.

`BHS/Gen/Import.lean` is rewritten on every run by harness/cmd/extract/gen_import.go from /repo/database/import.go and
/repo/database/sqlite_adapter.go (`importHeaders`, the skip guard `if hCount > 0 { … return nil }`, the adapter's loops,
validateDbConsistency, `removeImportedHeaders` = `DELETE FROM headers` on both error paths, …). database.Init with
prepared_db = true calls exactly this function on every start. The theorems below say that the only code of the service
that deletes from table `headers` can never touch a row it did not write itself:

  import_nonempty_noop                     on a table with at least one row, importHeaders returns nil and the WHOLE world
                                           is as before: table, prepared file, checkpoints, csv.Reader state (the file is
                                           not even opened, nothing is inserted, nothing is deleted)
  import_never_deletes_foreign_rows        for every run of importHeaders, whatever it returns: every row present before
                                           the call is present, unchanged, at the same rowid afterwards
  import_changes_only_an_empty_table       any run that changes the table (insert or DELETE) started from the empty table —
                                           `removeImportedHeaders` is reached only on such runs
  C03_start_up_import_preserves_rows, C05_restart_import_preserves_rows   the same in the vocabulary of C03 / C05

They hold for EVERY configuration (`Cfg`, codec, the integer constants — any batch size, even ≤ 0), file content, checkpoint
list and reader state; no hypothesis about the file (`CsvOk` of Props/ImportGen.lean is not needed). `World H` is the whole
database state the import can reach (Model/ImportPrim.lean: the generated code issues no statement on another table — an
SQL text the primitive `sqlExec` / `sqlGet` does not know aborts with `outside`, which the first theorem excludes).
A change of the guard in the Go source (weakened, conjoined with another test, dropped) changes the generated
`importHeaders` and re-opens these obligations.
-/
import BHS.Gen.Import
import BHS.Model.Crash

set_option linter.unusedSectionVars false
set_option linter.unusedVariables false
set_option linter.unusedSimpArgs false

namespace BHS.Props.ImportRestart
open BHS BHS.Chain BHS.ImpExp BHS.ImportPrim BHS.Gen.Import

variable {H : Type} [DecidableEq H]

/-- EXISTING DATABASE ⇒ NO-OP. For every configuration, codec, constants and world whose table `headers` holds at least
    one row: the generated `importHeaders` returns no error and leaves the world exactly as it was. -/
theorem import_nonempty_noop (cfg : Cfg H) (cd : Codec H) (k : Consts) (w : World H) (h : w.tbl ≠ []) :
    importHeaders cfg cd k w = (.ok none, w) := by
  have hlt : 0 < w.tbl.length := List.length_pos_iff.2 h
  simp [importHeaders, repoCount, hlt]

/-- … in terms of a database (`world0 tbl file cps`): table, file and checkpoints as before, the reader untouched -/
theorem import_nonempty_noop_db (cfg : Cfg H) (cd : Codec H) (k : Consts) (tbl : Store H) (file : Option (List Record))
    (cps : List (Nat × H)) (h : tbl ≠ []) :
    importHeaders cfg cd k (world0 tbl file cps) = (.ok none, world0 tbl file cps) :=
  import_nonempty_noop cfg cd k _ h

/-- a run that changes table `headers` — by the batches it commits or by the `DELETE FROM headers` of
    removeImportedHeaders — started from the EMPTY table: every row the clean-up deletes was written by this import -/
theorem import_changes_only_an_empty_table (cfg : Cfg H) (cd : Codec H) (k : Consts) (w : World H)
    (h : (importHeaders cfg cd k w).2.tbl ≠ w.tbl) : w.tbl = [] := by
  apply Decidable.byContradiction
  intro hne
  rw [import_nonempty_noop cfg cd k w hne] at h
  exact h rfl

/-- NO FOREIGN ROW IS EVER DELETED OR CHANGED. For all runs of the generated `importHeaders` (any result: nil, an error
    after the clean-up, a panic of validateNewestCheckpointBlock, …): every row present before the call is present after
    it, unchanged in every column, at the same position. -/
theorem import_never_deletes_foreign_rows (cfg : Cfg H) (cd : Codec H) (k : Consts) (w : World H) :
    (∀ r ∈ w.tbl, r ∈ (importHeaders cfg cd k w).2.tbl) ∧
    (∀ (i : Nat) (hi : i < w.tbl.length), (importHeaders cfg cd k w).2.tbl[i]? = some w.tbl[i]) := by
  by_cases hne : w.tbl = []
  · rw [hne]
    exact ⟨fun r hr => absurd hr (by simp), fun i hi => absurd hi (by simp)⟩
  · rw [import_nonempty_noop cfg cd k w hne]
    exact ⟨fun r hr => hr, fun i hi => by simp [hi]⟩

/-- C03 over the start-up import: `rowsPreserved` (the relation of C03_immutable: the table does not shrink and every row
    keeps all fields but possibly the state label at its rowid) holds between the table before and after ANY run of the
    generated `importHeaders`; moreover no row disappears and here not even the state label changes. -/
theorem C03_start_up_import_preserves_rows (cfg : Cfg H) (cd : Codec H) (k : Consts) (w : World H) :
    rowsPreserved w.tbl (importHeaders cfg cd k w).2.tbl ∧ ∀ r ∈ w.tbl, r ∈ (importHeaders cfg cd k w).2.tbl := by
  refine ⟨?_, (import_never_deletes_foreign_rows cfg cd k w).1⟩
  by_cases hne : w.tbl = []
  · rw [hne]
    exact ⟨Nat.zero_le _, fun i hi => absurd hi (by simp)⟩
  · rw [import_nonempty_noop cfg cd k w hne]
    exact ⟨Nat.le_refl _, fun i hi _ => ⟨rfl, rfl, rfl, rfl, rfl, rfl, rfl, rfl, rfl, rfl, rfl⟩⟩

/-- C05 over the start-up import: restarting with prepared_db on an existing database (a table that holds headers) never
    modifies stored headers — the start succeeds, the table is the same list of rows, nothing else of the database changed. -/
theorem C05_restart_import_preserves_rows (cfg : Cfg H) (cd : Codec H) (k : Consts) (tbl : Store H)
    (file : Option (List Record)) (cps : List (Nat × H)) (h : tbl ≠ []) :
    (importHeaders cfg cd k (world0 tbl file cps)).1 = .ok none ∧
    (importHeaders cfg cd k (world0 tbl file cps)).2.tbl = tbl ∧
    (importHeaders cfg cd k (world0 tbl file cps)).2 = world0 tbl file cps := by
  rw [import_nonempty_noop_db cfg cd k tbl file cps h]
  exact ⟨rfl, rfl, rfl⟩

/-- the world after `n` starts with prepared_db -/
def afterStarts (cfg : Cfg H) (cd : Codec H) (k : Consts) : Nat → World H → World H
  | 0, w => w
  | n + 1, w => afterStarts cfg cd k n (importHeaders cfg cd k w).2

/-- any number of restarts -/
theorem C05_restarts_import_preserve_rows (cfg : Cfg H) (cd : Codec H) (k : Consts) (tbl : Store H)
    (file : Option (List Record)) (cps : List (Nat × H)) (h : tbl ≠ []) (n : Nat) :
    afterStarts cfg cd k n (world0 tbl file cps) = world0 tbl file cps := by
  induction n with
  | zero => rfl
  | succ n ih =>
    show afterStarts cfg cd k n (importHeaders cfg cd k (world0 tbl file cps)).2 = _
    rw [import_nonempty_noop_db cfg cd k tbl file cps h]
    exact ih

/-! ### non-vacuity: a store with genesis, stale and orphan rows below the newest checkpoint, prepared file present -/

def exCodec : Codec Nat := { showH := showNat, parseH := digits?, zero := 0 }
def exCfg : Cfg Nat := { hashOf := fun x => x.nonce + 1, forbidden := [] }

/-- genesis; a stale child; its longest-chain sibling; an orphan -/
def exStore : Store Nat :=
  [ { id := 0, hash := 1000, prev := 0, merkle := 0, height := 0, version := 1, time := 0, bits := 486604799,
      nonce := 999, work := 4295032833, cum := 4295032833, st := .lc },
    { id := 1, hash := 2, prev := 1000, merkle := 1, height := 1, version := 1, time := 1, bits := 486604799,
      nonce := 1, work := 4295032833, cum := 8590065666, st := .stale },
    { id := 2, hash := 3, prev := 1000, merkle := 2, height := 1, version := -1, time := 4294967295, bits := 486604799,
      nonce := 2, work := 4295032833, cum := 8590065666, st := .lc },
    { id := 3, hash := 5, prev := 777, merkle := 4, height := 1, version := 1, time := 4, bits := 486604799,
      nonce := 4, work := 4295032833, cum := 4295032833, st := .orphan } ]

/-- a prepared file of three records (it would import as heights 0, 1, 2) -/
def exFile : List Record :=
  [ headerLine,
    ["1".toList, "0".toList, "999".toList, "486604799".toList, "0".toList],
    ["-1".toList, "2".toList, "2".toList, "486604799".toList, "4294967295".toList],
    ["1".toList, "7".toList, "10".toList, "486604799".toList, "9".toList] ]

/-- the hypotheses are met: the store is not empty, it holds a stale and an orphan row, its greatest height (1) is below
    the newest checkpoint (height 2), the file is there -/
example : exStore ≠ [] ∧ (∃ r ∈ exStore, r.st = .stale) ∧ (∃ r ∈ exStore, r.st = .orphan) ∧
    maxHeight exStore < 2 ∧ exStore.find? (fun r => decide (r.height = 2)) = none := by decide

/-- the start the seeded change broke: prepared file present, store below the newest checkpoint with a stale and an orphan
    row — nothing happens -/
example : importHeaders exCfg exCodec consts (world0 exStore (some exFile) [(2, 11)]) =
    (.ok none, world0 exStore (some exFile) [(2, 11)]) :=
  import_nonempty_noop_db _ _ _ _ _ _ (by decide)

example : rowsPreserved exStore (importHeaders exCfg exCodec consts (world0 exStore (some exFile) [(2, 11)])).2.tbl :=
  (C03_start_up_import_preserves_rows exCfg exCodec consts (world0 exStore (some exFile) [(2, 11)])).1

/-- the guard is not what `importHeaders` always takes: on the EMPTY table the file is asked for (here: missing) -/
example : importHeaders exCfg exCodec consts (world0 [] none [(2, 11)]) = (.ok (some .unreadable), world0 [] none [(2, 11)]) := by
  simp [importHeaders, repoCount, getHeadersFile, world0]

end BHS.Props.ImportRestart
