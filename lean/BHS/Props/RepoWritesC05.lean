/-
RepoWritesC05 — the crash / fault theorem of C05 at the REAL transaction boundaries: the writes of one `Add` issued
through the regenerated repository and SQL layer (BHS/Gen/RepoWrites.lean) under an arbitrary fault schedule of the
transactional store monad (BHS/Model/TxM.lean). See BHS/Props/RepoWritesGen.lean.
-/
import BHS.Props.RepoWritesGen
import BHS.Props.C05

set_option linter.unusedSectionVars false

namespace BHS.Props.RepoWritesGen
open BHS BHS.Chain BHS.Gen.RepoWrites
open BHS.TxM (TxM observe)
open BHS.TxM.Refine (txOutcome txFails okPrefix genWrite genWrites WriteOk)
open BHS.Props.C01 (exStore exRoot exCfg exNext)
variable {H : Type} [DecidableEq H] [Inhabited H]

/-- C05_struct_valid at the real transaction boundaries: the writes of `Add` for ANY submission issued through the
    generated repository and SQL layer, with ANY pattern of failing BEGIN / EXEC / COMMIT / ROLLBACK calls, then a
    restart: the store is structurally valid and every stored row is preserved -/
theorem C05_struct_valid_at_tx_boundaries (cfg : Cfg H) (s : Store H) (x : Src H) (g : Row H) (hg : g ∈ s) (hg0 : g.id = 0)
    (hz : BHS.Props.C01.HashAvoids cfg g.prev) (h : Inv cfg s) (c : Nat) (sched : Nat → Bool) :
    ∃ e s' cm k, observe s c sched (genWrites (plan cfg s x).2) = .ok (e, s', cm, k) ∧
      s' = addPrefix cfg s x (okPrefix sched c (nWrites cfg s x)) ∧
      StructValid (restart g s') ∧ rowsPreserved s s' := by
  obtain ⟨e, k, hrun, _⟩ := Gen_write_sequence s c sched (plan cfg s x).2 (plan_writes_ok cfg s x)
  refine ⟨e, _, _, k, hrun, rfl, ?_⟩
  have := BHS.Props.C05.C05_struct_valid cfg s x g hg hg0 hz h (okPrefix sched c (nWrites cfg s x))
  exact ⟨this.1, this.2.1⟩

/-- non-vacuity: the three-write reorganisation of C05 with the COMMIT of its second transaction failing
    (call index 5): exactly the first update is applied -/
example : exRoot ∈ exStore ∧ Inv exCfg exStore ∧ nWrites exCfg exStore exNext = 3 ∧
    okPrefix (· == 5) 0 3 = 1 ∧
    ran (observe exStore 0 (· == 5) (genWrites (plan exCfg exStore exNext).2)) =
      some (some (.wrap (.db "commit")), addPrefix exCfg exStore exNext 1, 1, 6) ∧
    addPrefix exCfg exStore exNext 1 ≠ exStore := by
  refine ⟨by decide, by decide, by decide, by decide, by decide, by decide⟩

end BHS.Props.RepoWritesGen
