/-
Connection manager (C18, part 2): the REGENERATED code refines the hand model M-ConnMgr.

`BHS.Gen.ConnMgr` is produced on every run by harness/cmd/extract/gen_connmgr.go from
/repo/transports/p2p/connmgr/connmanager.go: the four cases of the `connHandler` loop, `handleFailedConn`,
`registerFailedConnectionTo`, `registerFailedConnection` and the failed-attempts helpers, `NewConnReq` (cut at
`cfg.GetNewAddress()`), `Connect`, `Disconnect`, `Remove` — a statement-by-statement translation (subset, primitive
table and skip list in the header of the translator). `BHS.Model.ConnMgrWire.genStep` runs the hand model's events
on these translations (state `G` = the hand model's `St` + the request states, retry counters, `Stop` flag, timers
the counter machine left out).

The theorems say: for EVERY state and event the generated machine's next state, projected to the hand model's
fields (`G.toSt`: the maps, the counters and the recorded actions `banned`, `dials`, `asks`, `closed`, `live`), IS
the hand model's `step` (`genStep_refines`; proved by unfolding the generated definitions: helper lemmas that do
not mention the generated module are in `BHS/Proofs/ConnMgrGen.lean`); hence every run from `Start` is the hand model's run
(`genRun_refines`) and every C18 theorem about `run … (start …)` is a theorem about what the Go source says now;
the headline ones are re-stated over the generated definitions. An edit of one of the Go functions changes
`Gen/ConnMgr.lean` and re-opens these obligations.

Hypotheses — each is a documented restriction of the hand model (header of Model/ConnMgr.lean), none is needed for
runs from `Start`:
* `Srv c`   `GetNewAddress` and `OnDisconnection` are configured (the hand model has no switch for them);
* `Base g`  `Stop` was not called and no request is permanent (neither is an event of the hand model; the permanent
            branch of `handleFailedConn` is covered by `retry_*` below instead);
* `Coh g id`, only for the two dial events of a parked request: its id is not 0 and its `state` is `ConnCanceled`
            exactly when it is no longer in `pending` — the hand model reads "cancelled" off the map, `Connect` reads
            the field. `coherent_along_runs` proves it for every state a run from `Start` reaches.
-/
import BHS.Model.ConnMgrWire
import BHS.Proofs.ConnMgrGen
import BHS.Props.C18

namespace BHS.Props.ConnMgrGen
open BHS BHS.Model.ConnMgr BHS.Gen.ConnMgr BHS.Proofs.ConnMgrGen

/-! ## Pieces -/

/-- **`NewConnReq` up to its call of `GetNewAddress` = `spawn`**: a new id, registered as pending (through the
translated `registerPending` case), its goroutine parked. -/
theorem NewConnReq_begin_refines {c : GCfg} (hc : Srv c) {g : G} (hs : g.stop = 0) :
    (NewConnReq_begin c g).toSt = spawn g.toSt := by
  simp [NewConnReq_begin, hs, hc.gna, newObj, connHandler_registerPending, park, spawn]

/-- … and what it does to the fields the hand model has not: the new request is `ConnPending`, `Stop`'s flag is
untouched, no permanent request appears. -/
theorem NewConnReq_begin_state {c : GCfg} (hc : Srv c) {g : G} (hs : g.stop = 0) :
    (∀ j, (NewConnReq_begin c g).rstate j = if j = g.nextId + 1 then ConnPending else g.rstate j) ∧
    (NewConnReq_begin c g).stop = g.stop ∧
    ((∀ i, g.perm i = false) → ∀ i, (NewConnReq_begin c g).perm i = false) := by
  refine ⟨?_, ?_, ?_⟩
  · intro j
    by_cases h : j = g.nextId + 1 <;>
      simp [NewConnReq_begin, hs, hc.gna, newObj, connHandler_registerPending, park, upd, ConnPending, h]
  · simp [NewConnReq_begin, hs, hc.gna, newObj, connHandler_registerPending, park]
  · intro hp i
    simp [NewConnReq_begin, hs, hc.gna, newObj, connHandler_registerPending, park, updB, hp]

theorem begin_base {c : GCfg} (hc : Srv c) {g : G} (hb : Base g) : Base (NewConnReq_begin c g) :=
  ⟨by rw [(NewConnReq_begin_state hc hb.stop).2.1]; exact hb.stop, (NewConnReq_begin_state hc hb.stop).2.2 hb.perm⟩

set_option linter.unusedSimpArgs false in
/-- **`handleFailedConn`** (no `Stop`, the request is not permanent, `GetNewAddress` configured), with
`registerFailedConnectionTo`, `registerFailedConnection` and the four counter helpers: the failure is counted
(`failedPre`: per address with `BanAddress` configured, else globally), the address handed to `BanAddress` at the
threshold, and then ALWAYS — also after a ban — a new request is begun. -/
theorem handleFailedConn_eq {c : GCfg} (hc : Srv c) {g : G} (hs : g.stop = 0) (hp : ∀ i, g.perm i = false) (r : Req) :
    handleFailedConn c g r = NewConnReq_begin c (failedPre c g r.addr) := by
  -- split on everything the code looks at first (both thresholds, in `≤` and in `<` form, so that a comparison
  -- written the other way round in Go is still recognised), then both sides compute
  have key : ∀ a : Option Nat, r.addr = a →
      handleFailedConn c g r = NewConnReq_begin c (failedPre c g a) := by
    intro a ha
    by_cases h2 : c.maxFailed ≤ g.gfails + 1 <;> cases hban : c.banAddr <;> cases a with
    | none =>
      have h2' : (g.gfails + 1 < c.maxFailed) ↔ ¬ (c.maxFailed ≤ g.gfails + 1) := by omega
      simp only [h2, not_true_eq_false, not_false_eq_true, iff_true, iff_false] at h2'
      simp [handleFailedConn, registerFailedConnectionTo, registerFailedConnection, incAddrConnAttempt,
        isAddressConnectionAttemptsExceeded, incGlobalFailedAttempts, isGlobalConnectionAttemptsExceeded,
        failedPre, hs, hp, hc.gna, ha, hban, upd, h2, h2']
    | some x =>
      have h2' : (g.gfails + 1 < c.maxFailed) ↔ ¬ (c.maxFailed ≤ g.gfails + 1) := by omega
      simp only [h2, not_true_eq_false, not_false_eq_true, iff_true, iff_false] at h2'
      by_cases h1 : c.maxFailed ≤ (g.fails x + 1) % 65536
      all_goals
        have h1' : ((g.fails x + 1) % 65536 < c.maxFailed) ↔ ¬ (c.maxFailed ≤ (g.fails x + 1) % 65536) := by omega
        simp only [h1, not_true_eq_false, not_false_eq_true, iff_true, iff_false] at h1'
        simp [handleFailedConn, registerFailedConnectionTo, registerFailedConnection, incAddrConnAttempt,
          isAddressConnectionAttemptsExceeded, incGlobalFailedAttempts, isGlobalConnectionAttemptsExceeded,
          failedPre, hs, hp, hc.gna, ha, hban, upd, h1, h2, h1', h2']
  exact key r.addr rfl

/-- **`handleFailedConn` = `failedConn`** for every state, request and configuration with or without `BanAddress`. -/
theorem handleFailedConn_refines {c : GCfg} (hc : Srv c) {g : G} (hs : g.stop = 0) (hp : ∀ i, g.perm i = false) (r : Req) :
    (handleFailedConn c g r).toSt = failedConn c.toCfg g.toSt r.addr := by
  rw [handleFailedConn_eq hc hs hp, NewConnReq_begin_refines hc (by rw [failedPre_stop]; exact hs), failedPre_spawn]

theorem failed_base {c : GCfg} (hc : Srv c) {g : G} (hb : Base g) (r : Req) : Base (handleFailedConn c g r) := by
  rw [handleFailedConn_eq hc hb.stop hb.perm]
  exact begin_base hc (failedPre_base _ hb)

/-! ## One event -/

/-- the hand model reads "the request was cancelled" (`Connect`: `c.State() == ConnCanceled`) off the `pending`
map; the Go code reads the request's `state` field. They agree on the parked request `id` when: -/
def Coh (g : G) (id : Nat) : Prop := id ≠ 0 ∧ (g.rstate id = ConnCanceled ↔ id ∉ g.pending)

set_option linter.unusedSimpArgs false in
theorem genStep_refines_dialOk {c : GCfg} (_hc : Srv c) {g : G} (hb : Base g) (id a : Nat) (hcoh : id ∈ g.live → Coh g id) :
    (genStep c g (.dialOk id a)).toSt = step c.toCfg g.toSt (.dialOk id a) := by
  by_cases hl : id ∈ g.live
  · obtain ⟨h0, hcan⟩ := hcoh hl
    by_cases hp : id ∈ g.pending
    · have hnc : ¬ g.rstate id = ConnCanceled := fun h => (hcan.1 h) hp
      simp [genStep, step, NewConnReq_resume, Connect, connHandler_handleConnected, resetFailedAttempts, putConn,
        hl, hp, hnc, h0, hb.stop]
    · have hcc : g.rstate id = ConnCanceled := hcan.2 hp
      simp [genStep, step, NewConnReq_resume, Connect, hl, hp, hcc]
  · simp [genStep, step, hl]

set_option linter.unusedSimpArgs false in
theorem genStep_refines_dialFail {c : GCfg} (hc : Srv c) {g : G} (hb : Base g) (id a : Nat) (hcoh : id ∈ g.live → Coh g id) :
    (genStep c g (.dialFail id a)).toSt = step c.toCfg g.toSt (.dialFail id a) := by
  by_cases hl : id ∈ g.live
  · obtain ⟨h0, hcan⟩ := hcoh hl
    by_cases hp : id ∈ g.pending
    · have hnc : ¬ g.rstate id = ConnCanceled := fun h => (hcan.1 h) hp
      simp [genStep, step, NewConnReq_resume, Connect, connHandler_handleFailed, handleFailedConn_refines hc,
        hl, hp, hnc, h0, hb.stop, hb.perm]
    · have hcc : g.rstate id = ConnCanceled := hcan.2 hp
      simp [genStep, step, NewConnReq_resume, Connect, hl, hp, hcc]
  · simp [genStep, step, hl]

set_option linter.unusedSimpArgs false in
theorem genStep_refines_addrFail {c : GCfg} (hc : Srv c) {g : G} (hb : Base g) (id : Nat) :
    (genStep c g (.addrFail id)).toSt = step c.toCfg g.toSt (.addrFail id) := by
  by_cases hl : id ∈ g.live
  · by_cases hp : id ∈ g.pending <;>
      simp [genStep, step, NewConnReq_resume, connHandler_handleFailed, handleFailedConn_refines hc, hl, hp, hb.stop, hb.perm]
  · simp [genStep, step, hl]

set_option linter.unusedSimpArgs false in
theorem genStep_refines_disc {c : GCfg} (hc : Srv c) {g : G} (hb : Base g) (id : Nat) (retry : Bool) :
    (genStep c g (.disc id retry)).toSt = step c.toCfg g.toSt (.disc id retry) := by
  have hlen : ∀ l : List (Nat × Nat), (l.length < c.target ↔ ¬ c.target ≤ l.length) := fun l => by omega
  cases hlk : lookupConn g.conns id with
  | none =>
    by_cases hp : id ∈ g.pending <;> cases retry <;>
      simp [genStep, step, Disconnect, Remove, connHandler_handleDisconnected, hasConn_lookup, hlk, hp, hb.stop]
  | some a =>
    cases retry
    · simp [genStep, step, Remove, connHandler_handleDisconnected, hasConn_lookup, hlk, hb.stop, hc.ond, delConn]
    · by_cases ht : (g.conns.filter (fun x => x.1 != id)).length < c.target
      · simp [genStep, step, Disconnect, connHandler_handleDisconnected, hasConn_lookup, addrOf_lookup, hlk, hb.stop,
          hc.ond, delConn, ht, hb.perm, handleFailedConn_refines hc]
      · simp [genStep, step, Disconnect, connHandler_handleDisconnected, hasConn_lookup, addrOf_lookup, hlk, hb.stop,
          hc.ond, delConn, ht, hb.perm]

/-- **every step of the generated machine is the hand model's step**: next state (maps, counters) and recorded
actions (`BanAddress` calls, dials, `GetNewAddress` calls, `OnDisconnection` calls, requests in flight). -/
theorem genStep_refines {c : GCfg} (hc : Srv c) {g : G} (hb : Base g) (e : Event)
    (hcoh : ∀ id a, (e = .dialOk id a ∨ e = .dialFail id a) → id ∈ g.live → Coh g id) :
    (genStep c g e).toSt = step c.toCfg g.toSt e := by
  cases e with
  | dialOk id a => exact genStep_refines_dialOk hc hb id a (hcoh id a (Or.inl rfl))
  | dialFail id a => exact genStep_refines_dialFail hc hb id a (hcoh id a (Or.inr rfl))
  | addrFail id => exact genStep_refines_addrFail hc hb id
  | disc id retry => exact genStep_refines_disc hc hb id retry

/-- `addrFail`: `Dial` is not reached, the wiring's last argument is not looked at. -/
theorem genStep_addrFail_dial (c : GCfg) (g : G) (r : Req) (d : Bool) :
    NewConnReq_resume c g r none d = NewConnReq_resume c g r none false := rfl

/-! ## The hypotheses hold along every run -/

def CohAll (g : G) : Prop := CohF ConnCanceled g.live g.pending g.rstate

theorem cohAll_begin {c : GCfg} (hc : Srv c) {g : G} (hs : g.stop = 0) (hle : ∀ j ∈ g.live, j ≤ g.nextId)
    (h : CohAll g) : CohAll (NewConnReq_begin c g) := by
  have e1 := congrArg St.live (NewConnReq_begin_refines hc hs)
  have e2 := congrArg St.pending (NewConnReq_begin_refines hc hs)
  simp only [spawn] at e1 e2
  unfold CohAll
  rw [show (NewConnReq_begin c g).live = _ from e1, show (NewConnReq_begin c g).pending = _ from e2]
  exact cohF_spawn g.nextId ConnPending (by decide) hle (NewConnReq_begin_state hc hs).1 h

theorem cohAll_failed {c : GCfg} (hc : Srv c) {g : G} (hb : Base g) (r : Req) (hle : ∀ j ∈ g.live, j ≤ g.nextId)
    (h : CohAll g) : CohAll (handleFailedConn c g r) := by
  rw [handleFailedConn_eq hc hb.stop hb.perm]
  apply cohAll_begin hc (by rw [failedPre_stop]; exact hb.stop)
  · rw [failedPre_live, failedPre_nextId]; exact hle
  · unfold CohAll
    rw [failedPre_live, failedPre_pending, failedPre_rstate]; exact h

theorem erase_le {g : G} (hw : WfL g.toSt) (id : Nat) : ∀ j ∈ g.live.erase id, j ≤ g.nextId :=
  fun j hj => hw.liveLe j (List.mem_of_mem_erase hj)

/-- **the request states stay coherent with `pending`**, whatever the event (cancellations, `Remove` included) -/
theorem genStep_coherent {c : GCfg} (hc : Srv c) {g : G} (hb : Base g) (hw : WfL g.toSt) (h : CohAll g) (e : Event) :
    CohAll (genStep c g e) := by
  have hnd : g.live.Nodup := hw.liveNd
  cases e with
  | dialOk id a =>
    by_cases hl : id ∈ g.live
    · have h0 : id ≠ 0 := hw.livePos id hl
      by_cases hcc : g.rstate id = ConnCanceled
      · simp [genStep, NewConnReq_resume, Connect, hl, hcc]
        exact cohF_erase id h
      · by_cases hp : id ∈ g.pending
        · simp [genStep, NewConnReq_resume, Connect, connHandler_handleConnected, resetFailedAttempts, hl, hcc, hp, h0, hb.stop]
          exact cohF_erase_rem_upd id _ hnd h
        · simp [genStep, NewConnReq_resume, Connect, connHandler_handleConnected, hl, hcc, hp, h0, hb.stop]
          exact cohF_erase id h
    · simpa [genStep, hl] using h
  | dialFail id a =>
    by_cases hl : id ∈ g.live
    · have h0 : id ≠ 0 := hw.livePos id hl
      by_cases hcc : g.rstate id = ConnCanceled
      · simp [genStep, NewConnReq_resume, Connect, hl, hcc]
        exact cohF_erase id h
      · by_cases hp : id ∈ g.pending
        · simp [genStep, NewConnReq_resume, Connect, connHandler_handleFailed, hl, hcc, hp, h0, hb.stop]
          refine cohAll_failed hc ⟨?_, ?_⟩ _ ?_ ?_
          · first | exact hb.stop | rfl
          · exact hb.perm
          · exact erase_le hw id
          · exact cohF_erase_upd id _ hnd h
        · simp [genStep, NewConnReq_resume, Connect, connHandler_handleFailed, hl, hcc, hp, h0, hb.stop]
          exact cohF_erase id h
    · simpa [genStep, hl] using h
  | addrFail id =>
    by_cases hl : id ∈ g.live
    · by_cases hp : id ∈ g.pending
      · simp [genStep, NewConnReq_resume, connHandler_handleFailed, hl, hp]
        refine cohAll_failed hc ⟨?_, ?_⟩ _ ?_ ?_
        · first | exact hb.stop | rfl
        · exact hb.perm
        · exact erase_le hw id
        · exact cohF_erase_upd id _ hnd h
      · simp [genStep, NewConnReq_resume, connHandler_handleFailed, hl, hp]
        exact cohF_erase id h
    · simpa [genStep, hl] using h
  | disc id retry =>
    cases hlk : lookupConn g.conns id with
    | none =>
      by_cases hp : id ∈ g.pending
      · cases retry <;>
          simp [genStep, Disconnect, Remove, connHandler_handleDisconnected, hlk, hp, hb.stop] <;>
          exact cohF_cancel id h
      · cases retry <;>
          simpa [genStep, Disconnect, Remove, connHandler_handleDisconnected, hlk, hp, hb.stop] using h
    | some a =>
      have hni : id ∉ g.live := by
        have : hasConn g.toSt id = true := by rw [hasConn_lookup, hlk]; rfl
        obtain ⟨x, hx, hxe⟩ := BHS.Proofs.ConnMgr.hasConn_iff.1 this
        exact hxe ▸ hw.connLive x hx
      cases retry
      · simp [genStep, Remove, connHandler_handleDisconnected, hlk, hb.stop, hc.ond]
        exact cohF_upd_notlive id _ hni h
      · by_cases ht : (delConn g.conns id).length < c.target
        · simp [genStep, Disconnect, connHandler_handleDisconnected, hlk, hb.stop, hc.ond, ht, hb.perm]
          refine cohAll_failed hc ⟨?_, ?_⟩ _ ?_ ?_
          · first | exact hb.stop | rfl
          · exact hb.perm
          · exact hw.liveLe
          · exact cohF_ins_upd id _ hni h
        · simp [genStep, Disconnect, connHandler_handleDisconnected, hlk, hb.stop, hc.ond, ht, hb.perm]
          exact h

set_option linter.unusedSimpArgs false in
theorem genStep_base {c : GCfg} (hc : Srv c) {g : G} (hb : Base g) (hpos : ∀ id ∈ g.live, id ≠ 0) (e : Event) :
    Base (genStep c g e) := by
  have hrec : ∀ g' : G, g'.stop = g.stop → g'.perm = g.perm → Base g' :=
    fun g' h1 h2 => ⟨h1 ▸ hb.stop, h2 ▸ hb.perm⟩
  cases e with
  | dialOk id a =>
    by_cases hl : id ∈ g.live
    · have h0 : id ≠ 0 := hpos id hl
      by_cases hcc : g.rstate id = ConnCanceled
      · simp [genStep, NewConnReq_resume, Connect, hl, hcc]
        exact hrec _ rfl rfl
      · by_cases hp : id ∈ g.pending <;> cases ha : (none : Option Nat) <;>
          simp [genStep, NewConnReq_resume, Connect, connHandler_handleConnected, resetFailedAttempts, hl, hcc, hp, h0, hb.stop] <;>
          exact hrec _ (by first | rfl | exact hb.stop.symm) rfl
    · simpa [genStep, hl] using hb
  | dialFail id a =>
    by_cases hl : id ∈ g.live
    · have h0 : id ≠ 0 := hpos id hl
      by_cases hcc : g.rstate id = ConnCanceled
      · simp [genStep, NewConnReq_resume, Connect, hl, hcc]
        exact hrec _ rfl rfl
      · by_cases hp : id ∈ g.pending
        · simp [genStep, NewConnReq_resume, Connect, connHandler_handleFailed, hl, hcc, hp, h0, hb.stop]
          refine failed_base hc ?_ _
          exact hrec _ (by first | rfl | exact hb.stop.symm) rfl
        · simp [genStep, NewConnReq_resume, Connect, connHandler_handleFailed, hl, hcc, hp, h0, hb.stop]
          exact hrec _ (by first | rfl | exact hb.stop.symm) rfl
    · simpa [genStep, hl] using hb
  | addrFail id =>
    by_cases hl : id ∈ g.live
    · by_cases hp : id ∈ g.pending
      · simp [genStep, NewConnReq_resume, connHandler_handleFailed, hl, hp]
        refine failed_base hc ?_ _
        exact hrec _ rfl rfl
      · simp [genStep, NewConnReq_resume, connHandler_handleFailed, hl, hp]
        exact hrec _ rfl rfl
    · simpa [genStep, hl] using hb
  | disc id retry =>
    cases hlk : lookupConn g.conns id with
    | none =>
      by_cases hp : id ∈ g.pending <;> cases retry <;>
        simp [genStep, Disconnect, Remove, connHandler_handleDisconnected, hlk, hp, hb.stop] <;>
        first | exact hb | exact hrec _ (by first | rfl | exact hb.stop.symm) rfl
    | some a =>
      cases retry
      · simp [genStep, Remove, connHandler_handleDisconnected, hlk, hb.stop, hc.ond]
        exact hrec _ (by first | rfl | exact hb.stop.symm) rfl
      · by_cases ht : (delConn g.conns id).length < c.target
        · simp [genStep, Disconnect, connHandler_handleDisconnected, hlk, hb.stop, hc.ond, ht, hb.perm]
          refine failed_base hc ?_ _
          exact hrec _ (by first | rfl | exact hb.stop.symm) rfl
        · simp [genStep, Disconnect, connHandler_handleDisconnected, hlk, hb.stop, hc.ond, ht, hb.perm]
          exact hrec _ (by first | rfl | exact hb.stop.symm) rfl

structure Inv (g : G) : Prop where
  base : Base g
  wfl : WfL g.toSt
  coh : CohAll g

theorem coh_of_inv {g : G} (hi : Inv g) (id : Nat) (hl : id ∈ g.live) : Coh g id :=
  ⟨hi.wfl.livePos id hl, hi.coh id hl⟩

theorem inv_step {c : GCfg} (hc : Srv c) {g : G} (hi : Inv g) (e : Event) : Inv (genStep c g e) := by
  refine ⟨genStep_base hc hi.base hi.wfl.livePos e, ?_, genStep_coherent hc hi.base hi.wfl hi.coh e⟩
  rw [genStep_refines hc hi.base e (fun id _ _ hl => coh_of_inv hi id hl)]
  exact wfl_step hi.wfl e

theorem inv_begin {c : GCfg} (hc : Srv c) {g : G} (hi : Inv g) : Inv (NewConnReq_begin c g) := by
  refine ⟨begin_base hc hi.base, ?_, cohAll_begin hc hi.base.stop hi.wfl.liveLe hi.coh⟩
  rw [NewConnReq_begin_refines hc hi.base.stop]
  exact wfl_spawn hi.wfl

theorem spawnN_toSt {c : GCfg} (hc : Srv c) (n : Nat) : ∀ g : G, Inv g →
    (genSpawnN c n g).toSt = spawnN n g.toSt ∧ Inv (genSpawnN c n g) := by
  induction n with
  | zero => intro g hi; exact ⟨rfl, hi⟩
  | succ n ih =>
    intro g hi
    have := ih _ (inv_begin hc hi)
    rw [NewConnReq_begin_refines hc hi.base.stop] at this
    exact this

theorem inv_empty : Inv ({} : G) :=
  ⟨⟨rfl, fun _ => rfl⟩, by constructor <;> simp, by intro j hj; cases hj⟩

theorem start_toSt {c : GCfg} (hc : Srv c) : (genStart c).toSt = start c.toCfg ∧ Inv (genStart c) :=
  spawnN_toSt hc c.target {} inv_empty

theorem run_toSt {c : GCfg} (hc : Srv c) : ∀ (evs : List Event) (g : G), Inv g →
    (genRun c g evs).toSt = run c.toCfg g.toSt evs ∧ Inv (genRun c g evs) := by
  intro evs
  induction evs with
  | nil => intro g hi; exact ⟨rfl, hi⟩
  | cons e es ih =>
    intro g hi
    have h1 := genStep_refines hc hi.base e (fun id _ _ hl => coh_of_inv hi id hl)
    have := ih _ (inv_step hc hi e)
    simp only [genRun, run, List.foldl_cons] at this ⊢
    rw [h1] at this
    exact this

/-- **the hypotheses of `genStep_refines` hold in every state the generated machine reaches from `Start`**, for
every event sequence (cancellations and `Remove` included). -/
theorem coherent_along_runs (c : GCfg) (hc : Srv c) (evs : List Event) :
    Base (genRun c (genStart c) evs) ∧ ∀ id ∈ (genRun c (genStart c) evs).live, Coh (genRun c (genStart c) evs) id := by
  have hi := (run_toSt hc evs _ (start_toSt hc).2).2
  exact ⟨hi.base, fun id hl => coh_of_inv hi id hl⟩

/-- **`Start` of the generated machine is the hand model's `start`.** -/
theorem genStart_refines (c : GCfg) (hc : Srv c) : (genStart c).toSt = start c.toCfg :=
  (start_toSt hc).1

/-- **every run of the generated machine from `Start` is the hand model's run.** -/
theorem genRun_refines (c : GCfg) (hc : Srv c) (evs : List Event) :
    (genRun c (genStart c) evs).toSt = run c.toCfg (start c.toCfg) evs := by
  have := (run_toSt hc evs _ (start_toSt hc).2).1
  rw [(start_toSt hc).1] at this
  exact this

/-! ## C18 headlines over the generated code -/
open BHS.Props.C18

/-- the connection manager as the server configures it, with a retry duration -/
def serverG (target : Nat) (banAddr : Bool) (retryDuration : Int) : GCfg :=
  { toCfg := serverConn target banAddr, retryDuration := retryDuration }

theorem serverG_srv (t : Nat) (b : Bool) (rd : Int) : Srv (serverG t b rd) := ⟨rfl, rfl⟩

/-- **Never more than the target, for the regenerated code** (`C18_target_never_exceeded`): every event sequence. -/
theorem C18_target_never_exceeded_generated (c : GCfg) (hc : Srv c) (evs : List Event) :
    (genRun c (genStart c) evs).conns.length + (genRun c (genStart c) evs).live.length ≤ c.target := by
  have h := C18_target_never_exceeded c.toCfg evs
  rw [← genRun_refines c hc evs] at h
  exact h

/-- **Target kept after any failure history, for the regenerated code** (`C18_target`): with and without
`BanAddress`, after any sequence of dial failures, address errors, connections, bans and disconnections of
established connections, `established + in flight = TargetOutbound`, and below the target a request is in flight. -/
theorem C18_target_generated (c : GCfg) (hc : Srv c) (evs : List Event) (ha : AdmAll c.toCfg (start c.toCfg) evs) :
    (genRun c (genStart c) evs).conns.length + (genRun c (genStart c) evs).live.length = c.target ∧
    (genRun c (genStart c) evs).conns.length ≤ c.target ∧
    ((genRun c (genStart c) evs).conns.length < c.target → (genRun c (genStart c) evs).live ≠ []) := by
  have h := C18_target c.toCfg evs ha
  rw [← genRun_refines c hc evs] at h
  exact h

/-- **A ban never loses a slot** (the repaired defect R-C18, for the regenerated code and EVERY state): whatever the
failure counters are — in particular when this failure makes the address reach `maxFailedAttempts` and
`BanAddress` is called — `handleFailedConn` of a non-permanent request leaves exactly one more request in flight,
registered as pending under a new id. -/
theorem ban_never_loses_slot (c : GCfg) (hc : Srv c) (g : G) (hb : Base g) (r : Req) :
    (handleFailedConn c g r).live = g.live ++ [g.nextId + 1] ∧
    (g.nextId + 1) ∈ (handleFailedConn c g r).pending ∧
    (handleFailedConn c g r).nextId = g.nextId + 1 := by
  have e : handleFailedConn c g r = NewConnReq_begin c (failedPre c g r.addr) := handleFailedConn_eq hc hb.stop hb.perm r
  have h := NewConnReq_begin_refines hc (g := failedPre c g r.addr) (by rw [failedPre_stop]; exact hb.stop)
  have e1 := failedPre_live c g r.addr
  have h1 := congrArg St.live h
  have h2 := congrArg St.pending h
  have h3 := congrArg St.nextId h
  simp only [spawn] at h1 h2 h3
  rw [e]
  refine ⟨?_, ?_, ?_⟩
  · rw [h1, e1, failedPre_nextId]
  · rw [h2, failedPre_nextId]; exact BHS.Proofs.ConnMgr.mem_ins.2 (Or.inl rfl)
  · rw [h3, failedPre_nextId]

/-- … and the ban itself is made: with `BanAddress`, the failure that brings the address's counter to
`maxFailedAttempts` hands the address to `BanAddress`. -/
theorem ban_at_threshold (c : GCfg) (hc : Srv c) (g : G) (hb : Base g) (id a : Nat) (hban : c.banAddr = true)
    (hth : c.maxFailed ≤ (g.fails a + 1) % 65536) :
    (handleFailedConn c g { id := id, addr := some a }).banned = g.banned ++ [a] := by
  have h := congrArg St.banned (handleFailedConn_refines hc hb.stop hb.perm { id := id, addr := some a })
  rw [show (handleFailedConn c g { id := id, addr := some a }).banned =
      (handleFailedConn c g { id := id, addr := some a }).toSt.banned from rfl, h]
  simp [failedConn, hban, afterBanAddress, slotLostOnBan, upd, hth, spawn]

/-- **Regression of R-C18 on the regenerated code** (`C18_target_after_ban`): one outbound slot, `BanAddress`
configured, the same address refuses `maxFailedAttempts` times: one ban, and a further request IS in flight. -/
theorem C18_target_after_ban_generated (rd : Int) :
    let c := serverG 1 true rd
    (genRun c (genStart c) witness).dials = Gen.maxFailedAttempts ∧
    (genRun c (genStart c) witness).banned = [0] ∧
    (genRun c (genStart c) witness).live.length = 1 := by
  intro c
  have h := C18_target_after_ban
  simp only at h
  have e := genRun_refines c (serverG_srv 1 true rd) witness
  have e1 := congrArg St.dials e
  have e2 := congrArg St.banned e
  have e3 := congrArg St.live e
  exact ⟨e1.trans h.2.1, e2.trans h.2.2.1, by rw [show (genRun c (genStart c) witness).live = _ from e3]; exact h.2.2.2⟩

/-- **Replacement of a closed connection, for the regenerated code** (`C18_target_replacement`). -/
theorem C18_target_replacement_generated (c : GCfg) (hc : Srv c) (evs : List Event)
    (ha : AdmAll c.toCfg (start c.toCfg) evs) (id : Nat)
    (hcn : hasConn (genRun c (genStart c) evs).toSt id = true) (hl : id ∉ (genRun c (genStart c) evs).live) :
    (Disconnect c (genRun c (genStart c) evs) id).conns.length + 1 = (genRun c (genStart c) evs).conns.length ∧
    (Disconnect c (genRun c (genStart c) evs) id).live.length = (genRun c (genStart c) evs).live.length + 1 := by
  have hb := (coherent_along_runs c hc evs).1
  have hs := genStep_refines_disc hc hb id true
  have e := genRun_refines c hc evs
  rw [e] at hs hcn
  have hl' : id ∉ (run c.toCfg (start c.toCfg) evs).live := by rw [← e]; exact hl
  have h := C18_target_replacement c.toCfg evs ha id hcn hl'
  rw [← hs, ← e] at h
  exact h

/-! ## The permanent branch (outside the hand model): retry delay growth and its cap -/

/-- **`handleFailedConn` of a permanent request**: the retry counter (uint32) is incremented, a timer calling
`Connect(c)` is started after `retryCount * RetryDuration` capped at `maxRetryDuration`, nothing else changes
(no new request, the maps untouched). -/
theorem retry_permanent (c : GCfg) (g : G) (hs : g.stop = 0) (r : Req) (hp : g.perm r.id = true) :
    handleFailedConn c g r =
      { g with retryCnt := upd g.retryCnt r.id ((g.retryCnt r.id + 1) % 4294967296),
               acts := g.acts ++ [Act.after (retryDelay maxRetryDuration c ((g.retryCnt r.id + 1) % 4294967296)) (Fn.connect r.id)] } := by
  simp [handleFailedConn, hs, hp, retryDelay, upd]
  split <;> rfl

/-- **the cap**: whatever the counter and the configured duration are (overflow of the int64 product included),
the delay never exceeds `maxRetryDuration` (5 minutes, regenerated). -/
theorem retry_delay_capped (c : GCfg) (n : Nat) : retryDelay maxRetryDuration c n ≤ maxRetryDuration :=
  retryDelay_le _ c n

/-- **the growth**: as long as the product fits an int64, the delay is `min (n * RetryDuration) maxRetryDuration`,
hence non-decreasing in the number of retries and linear below the cap. -/
theorem retry_delay_grows (c : GCfg) (n : Nat) (hrd : 0 ≤ c.retryDuration)
    (hfit : (n : Int) * c.retryDuration < 9223372036854775808) :
    retryDelay maxRetryDuration c n = min ((n : Int) * c.retryDuration) maxRetryDuration := by
  have h0 : 0 ≤ (n : Int) * c.retryDuration := Int.mul_nonneg (Int.natCast_nonneg n) hrd
  unfold retryDelay
  rw [show Int.ofNat n = (n : Int) from rfl, durMul_small h0 hfit]
  split <;> omega

theorem retry_delay_mono (c : GCfg) (m n : Nat) (hmn : m ≤ n) (hrd : 0 ≤ c.retryDuration)
    (hfit : (n : Int) * c.retryDuration < 9223372036854775808) : retryDelay maxRetryDuration c m ≤ retryDelay maxRetryDuration c n := by
  have hle : (m : Int) * c.retryDuration ≤ (n : Int) * c.retryDuration :=
    Int.mul_le_mul_of_nonneg_right (Int.ofNat_le.2 hmn) hrd
  rw [retry_delay_grows c n hrd hfit, retry_delay_grows c m hrd (Int.lt_of_le_of_lt hle hfit)]
  omega

/-! ### non-vacuity: the generated machine evaluated on concrete histories -/

private def gc (b : Bool) : GCfg := { target := 2, banAddr := b, maxFailed := 3 }
example : Srv (gc true) ∧ Srv (gc false) := ⟨⟨rfl, rfl⟩, ⟨rfl, rfl⟩⟩
-- Start: two requests parked, registered, state ConnPending
example : (genStart (gc true)).live = [1, 2] ∧ (genStart (gc true)).pending = [2, 1] ∧ (genStart (gc true)).nextId = 2 := by decide
private def k1 : List Event := [.dialFail 1 0, .dialOk 2 5, .addrFail 3, .dialOk 4 6, .disc 2 true, .dialOk 5 7]
example : AdmAll (gc false).toCfg (start (gc false).toCfg) k1 := by decide
example : (genRun (gc false) (genStart (gc false)) k1).conns = [(4, 6), (5, 7)] ∧
    (genRun (gc false) (genStart (gc false)) k1).live = [] ∧ (genRun (gc false) (genStart (gc false)) k1).closed = [2] := by decide
-- request states as the Go code keeps them: 1 and 3 failed, 4 and 5 established, 2 pending again (its slot was re-dialled)
example : let g := genRun (gc false) (genStart (gc false)) k1
    g.rstate 1 = ConnFailing ∧ g.rstate 3 = ConnFailing ∧ g.rstate 4 = ConnEstablished ∧ g.rstate 2 = ConnPending := by decide
-- three refusals of address 0 with BanAddress: one ban, and both slots are still being served
example : let g := genRun (gc true) (genStart (gc true)) [.dialFail 1 0, .dialFail 3 0, .dialFail 4 0]
    g.banned = [0] ∧ g.live = [2, 5] ∧ g.conns = [] ∧ g.dials = 3 ∧ g.asks = 3 := by decide
-- hypotheses of ban_at_threshold / ban_never_loses_slot met in that run, before the third refusal
example : let g := genRun (gc true) (genStart (gc true)) [.dialFail 1 0, .dialFail 3 0]
    (gc true).maxFailed ≤ (g.fails 0 + 1) % 65536 ∧ g.stop = 0 ∧ g.perm 4 = false := by decide
-- cancelling a parked request: the Go code marks it ConnCanceled, `Connect` then returns without dialling
example : let g := genRun (gc true) (genStart (gc true)) [.disc 1 true, .dialOk 1 9]
    g.rstate 1 = ConnCanceled ∧ g.dials = 0 ∧ g.asks = 1 ∧ g.conns = [] ∧ g.live = [2] := by decide
-- a state where `Coh` fails (request 1 parked, dropped from pending, state not Canceled) and the Go code differs from
-- the hand model exactly in the dial it makes: the hypothesis of genStep_refines is needed
example : let g : G := { nextId := 1, live := [1] }
    (genStep (gc true) g (.dialOk 1 9)).dials = 1 ∧ (step (gc true).toCfg g.toSt (.dialOk 1 9)).dials = 0 := by decide
-- globalFailedAttempts at the threshold: the new request is made through a timer (recorded), and made
example : let g := genRun (gc false) (genStart (gc false)) [.addrFail 1, .addrFail 2, .addrFail 3]
    g.acts = [Act.after 5000000000 Fn.newConnReq] ∧ g.live = [4, 5] := by decide
-- permanent branch: 3rd retry at 5 s -> 15 s; 100th retry -> the cap; an overflowing product fires at once (negative)
example : retryDelay maxRetryDuration (gc true) 3 = 15000000000 ∧ retryDelay maxRetryDuration (gc true) 100 = maxRetryDuration := by decide
example : retryDelay maxRetryDuration { (gc true) with retryDuration := 3600000000000 } 2600000 < 0 := by decide
example : let g : G := { perm := fun i => i == 7, retryCnt := fun _ => 2 }
    (handleFailedConn (gc true) g { id := 7, addr := some 1 }).acts = [Act.after 15000000000 (Fn.connect 7)] ∧
    (handleFailedConn (gc true) g { id := 7, addr := some 1 }).live = [] := by decide
-- a request built by a caller (id 0) is registered by `Connect` under a new id, then dialled
example : (Connect (gc true) {} { id := 0, addr := some 4 } true).conns = [(1, 4)] ∧
    (Connect (gc true) {} { id := 0, addr := some 4 } true).nextId = 1 := by decide
-- a nil address dereferenced (`registerFailedConnectionTo` called with one): Go panics
example : (registerFailedConnectionTo (gc true) {} { id := 1 }).panicked = true := by decide
example : (serverG 0 true 5).target = Gen.defaultTargetOutbound ∧ (serverG 0 true 5).maxFailed = Gen.maxFailedAttempts := by decide

end BHS.Props.ConnMgrGen
