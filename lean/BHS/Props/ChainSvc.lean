/-
ChainSvc — the hand model of `Chains.Add` IS what the Go source says now.

BHS/Gen/ChainSvc.lean is REGENERATED on every check run from /repo/service/chain_service.go and
/repo/domains/headers.go by harness/cmd/extract/gen_chainsvc.go (a statement-by-statement translation of `Add` and of
every function it reaches into `do` blocks over the repository monad BHS/Model/RepoM.lean). The theorems below state
that the generated `Add`, run from ANY store, produces exactly the answer, the write transactions (in order) and the
final store of the hand model `plan` / `add` (BHS/Model/Chain.lean) — so every theorem of C01 / C05 / C15, all stated
over `plan` / `add`, is a theorem about the translated source, and an edit of `Add` or of a helper changes the generated
module and re-opens these obligations. Re-stated below over the generated definition: `C01_canonical`,
`C05_struct_valid`, `C05_redeliver_exact`, `C15_seq_refines`.

What "no panic" covers: `observe … = .ok …` excludes the faults of the monad — a nil `*BlockHeader` dereference, an index
out of range (the class of the repaired defect d436b56), and a repository call made while `addMutex` is not held.

Storage faults: `Gen_add_fault_refines` runs the generated `Add` with the write of index `k` returning an error; it
shows that the code then issues NO further write (the store is `addPrefix … k`), which the C05 fault model used to
assume. The answer in that case (`ChainUpdateFail` / `HeaderSaveFail`, for a failed switch `(h, err)` with a non-nil
header) has no constructor in the fault-free `Outcome` and is reported as `none`.

Where the translation abstracts (see the header of RepoM.lean and of gen_chainsvc.go): `Row.id` is not a Go field (the
stored row is reported with the rowid the insert assigns, `outcomeOf`); big integers are naturals without nil;
`domains.NewRejectedBlockHeader` (a value both callers ignore) is "no header"; logging, metrics and `Notify` are skipped
(Notify placement is pinned by Gen.CallSites). Helper lemmas: BHS/Proofs/ChainSvcRefine.lean.
-/
import BHS.Model.RepoM
import BHS.Gen.ChainSvc
import BHS.Proofs.ChainSvcRefine
import BHS.Props.C01
import BHS.Props.C05
import BHS.Props.C15

set_option linter.unusedSectionVars false

namespace BHS.Props.ChainSvc
open BHS BHS.Chain
open BHS.Props.C01 (IsRoot HashAvoids exCfg exRoot exStore exNext exHist exAvoids exStore_eq)
variable {H : Type} [DecidableEq H] [Inhabited H]

/-! ### the refinement -/

/-- FULL STATEMENT, no hypothesis on the store: the regenerated `Add` run without storage faults from store `s` does not
    panic (no nil dereference, no index out of range, no repository call outside `addMutex`), answers the hand model's
    outcome, issues exactly the hand model's write transactions in order, and leaves the hand model's store. -/
theorem Gen_add_refines (cfg : Cfg H) (s : Store H) (x : Src H) :
    observe s none (Gen.ChainSvc.Add cfg x) = .ok (some (plan cfg s x).1, (plan cfg s x).2, (add cfg s x).1) :=
  BHS.Chain.Refine.Gen_add_refines cfg s x

/-- the same with the write of index `k` returning an error: exactly the first `k` writes of the hand model's list are
    executed and NO further one (the store is `addPrefix cfg s x k`); when `k` is past the last write nothing fails and the
    answer is the hand model's; otherwise the answer is an error outside the fault-free `Outcome` (`none`). -/
theorem Gen_add_fault_refines (cfg : Cfg H) (s : Store H) (x : Src H) (k : Nat) :
    observe s (some k) (Gen.ChainSvc.Add cfg x) =
      .ok (if k < nWrites cfg s x then none else some (plan cfg s x).1, (plan cfg s x).2.take k, addPrefix cfg s x k) := by
  rw [BHS.Chain.Refine.Gen_add_fault_refines]
  unfold BHS.Chain.Refine.issue nWrites addPrefix
  by_cases h : k < (plan cfg s x).2.length
  · simp [h]
  · simp [h, List.take_of_length_le (Nat.le_of_not_gt h)]

/-- the lock discipline is not vacuous: the primitives do fault outside the critical section -/
example : (getTip' (H := Nat)).run { store := exStore } = .error .unlocked := rfl

/-! ### ingestion through the generated definition -/

/-- the store the regenerated `Add` leaves (`f = some k`: write `k` fails); a panic would leave the store untouched -/
def genStore (cfg : Cfg H) (s : Store H) (x : Src H) (f : Option Nat := none) : Store H :=
  match observe s f (Gen.ChainSvc.Add cfg x) with
  | .ok (_, _, s') => s'
  | .error _ => s

/-- the write transactions the regenerated `Add` issues without faults -/
def genWrites (cfg : Cfg H) (s : Store H) (x : Src H) : List (Write H) :=
  match observe s none (Gen.ChainSvc.Add cfg x) with
  | .ok (_, ws, _) => ws
  | .error _ => []

/-- ingestion of a history by the regenerated `Add` -/
def genRun (cfg : Cfg H) (s : Store H) (hist : List (Src H)) : Store H :=
  hist.foldl (fun s x => genStore cfg s x) s

/-- non-vacuity: the generated `Add` evaluated on the reorganisation of C05 (`exNext` on the six-row store `exStore`:
    five reads, both updates, the insert), without a fault and with its second write failing -/
example : (observe exStore none (Gen.ChainSvc.Add exCfg exNext)).toBool = true ∧
    (genWrites exCfg exStore exNext).length = 3 ∧
    genStore exCfg exStore exNext = (add exCfg exStore exNext).1 ∧ genStore exCfg exStore exNext ≠ exStore ∧
    genStore exCfg exStore exNext (some 1) = addPrefix exCfg exStore exNext 1 ∧
    genStore exCfg exStore exNext (some 1) ≠ exStore ∧
    genStore exCfg exStore exNext (some 1) ≠ genStore exCfg exStore exNext := by decide

theorem genStore_eq (cfg : Cfg H) (s : Store H) (x : Src H) : genStore cfg s x = (add cfg s x).1 := by
  unfold genStore; rw [Gen_add_refines]

theorem genStore_fault_eq (cfg : Cfg H) (s : Store H) (x : Src H) (k : Nat) :
    genStore cfg s x (some k) = addPrefix cfg s x k := by
  unfold genStore; rw [Gen_add_fault_refines]

theorem genWrites_eq (cfg : Cfg H) (s : Store H) (x : Src H) : genWrites cfg s x = (plan cfg s x).2 := by
  unfold genWrites; rw [Gen_add_refines]

/-- ingesting any history with the regenerated `Add` is the hand model's `run` -/
theorem Gen_run_refines (cfg : Cfg H) (s : Store H) (hist : List (Src H)) : genRun cfg s hist = run cfg s hist := by
  unfold genRun run
  congr 1
  funext s x
  exact genStore_eq cfg s x

example : genRun exCfg [exRoot] exHist = exStore := by rw [Gen_run_refines]; exact exStore_eq

/-! ### headline theorems over the generated definition -/

/-- C01_canonical for the translated source: after ANY history ingested by the regenerated `Add` the store satisfies
    the invariant and is canonically labelled -/
theorem C01_canonical_generated (cfg : Cfg H) (g : Row H) (hg : IsRoot g) (hz : HashAvoids cfg g.prev)
    (hist : List (Src H)) : Inv cfg (genRun cfg [g] hist) ∧ Canon (genRun cfg [g] hist) := by
  rw [Gen_run_refines]
  exact BHS.Props.C01.C01_canonical cfg g hg hz hist

example : IsRoot exRoot ∧ HashAvoids exCfg exRoot.prev ∧ genRun exCfg [exRoot] exHist = exStore :=
  ⟨by decide, exAvoids, by rw [Gen_run_refines]; exact exStore_eq⟩

/-- C05_struct_valid for the translated source, both readings of the fault: the process is killed after the first `k`
    write transactions the regenerated `Add` issues, or its write of index `k` returns an error (the regenerated code then
    stops writing by itself) — after a restart the store is structurally valid and every stored row is preserved -/
theorem C05_struct_valid_generated (cfg : Cfg H) (s : Store H) (x : Src H) (g : Row H) (hg : g ∈ s) (hg0 : g.id = 0)
    (hz : HashAvoids cfg g.prev) (h : Inv cfg s) (k : Nat) :
    (StructValid (restart g (applyWrites s ((genWrites cfg s x).take k))) ∧
      rowsPreserved s (applyWrites s ((genWrites cfg s x).take k))) ∧
    (StructValid (restart g (genStore cfg s x (some k))) ∧ rowsPreserved s (genStore cfg s x (some k))) := by
  rw [genWrites_eq, genStore_fault_eq]
  have := BHS.Props.C05.C05_struct_valid cfg s x g hg hg0 hz h k
  exact ⟨⟨this.1, this.2.1⟩, ⟨this.1, this.2.1⟩⟩

example : exRoot ∈ exStore ∧ exRoot.id = 0 ∧ HashAvoids exCfg exRoot.prev ∧ Inv exCfg exStore ∧
    (genWrites exCfg exStore exNext).length = 3 ∧ genStore exCfg exStore exNext (some 1) ≠ exStore :=
  ⟨by decide, by decide, exAvoids, by decide, by decide, by decide⟩

/-- C05_redeliver_exact for the translated source: write `k` of the regenerated `Add` fails, the service is restarted,
    the same header is delivered again to the regenerated `Add` — the store is exactly the uninterrupted one -/
theorem C05_redeliver_generated (cfg : Cfg H) (s : Store H) (x : Src H) (g : Row H) (hg : g ∈ s) (h : Inv cfg s)
    (k : Nat) : genStore cfg (restart g (genStore cfg s x (some k))) x = genStore cfg s x := by
  rw [genStore_fault_eq, genStore_eq, genStore_eq]
  exact BHS.Props.C05.C05_redeliver_exact cfg s x g hg h k

example : exRoot ∈ exStore ∧ Inv exCfg exStore ∧
    genStore exCfg (restart exRoot (genStore exCfg exStore exNext (some 2))) exNext = genStore exCfg exStore exNext :=
  ⟨by decide, by decide, by decide⟩

/-- C15_seq_refines for the translated source: one thread of the small-step model run alone ends in the store the
    regenerated `Add` leaves (and `Gen_add_refines` shows every repository call of it is made under `addMutex`) -/
theorem C15_seq_generated (cfg : Cfg H) (s : Store H) (x : Src H) :
    (runThread cfg maxSteps s { x := x, pc := .start }).1 = genStore cfg s x := by
  rw [BHS.Props.C15.C15_seq_refines, genStore_eq]

example : (runThread exCfg maxSteps exStore { x := exNext, pc := .start }).1 = genStore exCfg exStore exNext := by decide

end BHS.Props.ChainSvc
