/-
C13 — Block locators and getheaders answers describe the longest chain correctly.
"The block locator the service sends starts at its tip, ends at genesis, contains only longest-chain hashes in
strictly descending height, steps back one block at a time for the first entries and then doubles the step. In answer
to any getheaders (locator, stop hash) it returns the longest-chain headers immediately following the highest locator
entry that is on its longest chain - from height 1 if none is - in ascending, parent-linked order, ending at the stop
hash when that lies ahead on the longest chain, never more than 2000 and never a stale or orphan header; a stop at or
below the start yields nothing."

Model: BHS/Model/Query.lean (`locatorGo`, `locator`, `startHeight`, `stopHeight`, `rangeLc`, `getHeaders`), a
transcription of HeaderService.LatestHeaderLocator / locateHeadersGetHeaders and their SQL statements; the cap is the
REGENERATED constant `BHS.Gen.maxCFHeadersPerMsg`.
The theorems hold for EVERY store satisfying the chain invariant `Inv cfg s` (proved for every reachable store in
C01). Helper lemmas: BHS/Proofs/Query{Sort,Lc,Page,Locator}.lean.

Two recorded deviations of the unchanged code from the text (known findings) — see `C13_getheaders_partial`,
`C13_empty_locator_counterexample`, `C13_stop_genesis_counterexample`.
-/
import BHS.Model.Query
import BHS.Spec.BestChain
import BHS.Proofs.QueryPage
import BHS.Proofs.QueryLocator
import BHS.Proofs.Fields
import BHS.Props.C01

set_option linter.unusedSectionVars false

namespace BHS.Props.C13
open BHS BHS.Chain
variable {H : Type} [DecidableEq H]

/-! ### the concrete store used by the non-vacuity examples -/

def exCfg : Cfg Nat := { hashOf := fun x => x.nonce + 1, forbidden := [99] }

def exRow (id hash prev merkle height cum : Nat) (st : St) : Row Nat :=
  { id := id, hash := hash, prev := prev, merkle := merkle, height := height, version := 1, time := merkle,
    bits := 486604799, nonce := hash - 1, work := 4295032833, cum := cum, st := st }

def exRoot : Row Nat := exRow 0 1000 0 0 0 4295032833 .lc

/-- root; a STALE child; its LONGEST_CHAIN sibling; the sibling's child; an ORPHAN; a STALE grandchild;
    two more LONGEST_CHAIN rows (tip height 4) -/
def exStore : Store Nat :=
  [ exRoot,
    exRow 1 2 1000 1 1 8590065666 .stale,
    exRow 2 3 1000 2 1 8590065666 .lc,
    exRow 3 4 3 3 2 12885098499 .lc,
    exRow 4 5 777 4 1 4295032833 .orphan,
    exRow 5 6 2 5 2 12885098499 .stale,
    exRow 6 7 4 6 3 17180131332 .lc,
    exRow 7 8 7 7 4 21475164165 .lc ]

def exTip : Row Nat := exRow 7 8 7 7 4 21475164165 .lc

theorem exInv : Inv exCfg exStore := by decide
theorem exTip_eq : getTip exStore = some exTip := by decide

/-! ### the locator -/

/- Defined in BHS/Proofs/QueryLocator.lean (the helper lemmas need them); repeated here as checked equations:
   `locHeights fuel h step n` = the heights the step rule visits, mirroring `locatorGo` (`n` = entries appended so far);
   `locStep j` = the distance between entry `j` and entry `j+1`; `lcRowsAt s hs` = the longest-chain rows at heights `hs`. -/
example (h step n : Nat) : locHeights 0 h step n = [] := rfl
example (fuel h step n : Nat) : locHeights (fuel + 1) h step n =
    h :: (if h = 0 then [] else locHeights fuel (h - step) (if n + 1 > 10 then step * 2 else step) (n + 1)) := rfl
example (j : Nat) : locStep j = if j ≤ 10 then 1 else 2 ^ (j - 10) := rfl
example (s : Store H) (hs : List Nat) : lcRowsAt s hs = hs.filterMap (lcAtHeight s) := rfl

/-- the locator is: the hashes of the longest-chain rows at the heights of the step rule, starting at the tip's
    height with step 1; no height is dropped; every row is a stored LONGEST_CHAIN row -/
theorem C13_locator (cfg : Cfg H) (s : Store H) (t : Row H) (h : Inv cfg s) (htip : getTip s = some t) :
    locator s = (lcRowsAt s (locHeights (t.height + 1) t.height 1 0)).map (·.hash) ∧
    (lcRowsAt s (locHeights (t.height + 1) t.height 1 0)).map (·.height) = locHeights (t.height + 1) t.height 1 0 ∧
    ∀ r ∈ lcRowsAt s (locHeights (t.height + 1) t.height 1 0), r ∈ s ∧ r.st = .lc := by
  obtain ⟨hw, t', ht, hl⟩ := h
  have : t' = t := by have := hl.getTip ht; rw [htip] at this; cases this; rfl
  subst this
  refine ⟨?_, ?_, fun r hr => ⟨(mem_lcRowsAt hr).1, (mem_lcRowsAt hr).2.1⟩⟩
  · simp only [locator, htip]
    exact locatorGo_eq hw ht hl _ t' 1 0 ht hl.lc
  · exact lcRowsAt_heights hw ht hl _ (locHeights_le _ _ _ _)

example : Inv exCfg exStore ∧ getTip exStore = some exTip := ⟨exInv, exTip_eq⟩
example : locator exStore = [8, 7, 4, 3, 1000] ∧ locHeights (exTip.height + 1) exTip.height 1 0 = [4, 3, 2, 1, 0] := by
  decide
/-- the doubling on a longer chain: 12 consecutive heights, then steps 2, 4, 8, a clipped last step -/
example : locHeights 31 30 1 0 = [30, 29, 28, 27, 26, 25, 24, 23, 22, 21, 20, 19, 17, 13, 5, 0] := by decide

/-- the shape of the expected heights (for every tip height `h`): the first is `h`, the last is 0 (the fuel `h + 1`
    suffices, and more fuel changes nothing), strictly descending, entry `i+1` lies `locStep i` below entry `i`
    (clipped at 0) where `locStep i` is 1 for `i ≤ 10` and doubles from then on -/
theorem C13_locator_heights (h : Nat) :
    (locHeights (h + 1) h 1 0).head? = some h ∧
    (locHeights (h + 1) h 1 0).getLast? = some 0 ∧
    (∀ fuel, h < fuel → locHeights fuel h 1 0 = locHeights (h + 1) h 1 0) ∧
    (locHeights (h + 1) h 1 0).Pairwise (· > ·) ∧
    (∀ i x y, (locHeights (h + 1) h 1 0)[i]? = some x → (locHeights (h + 1) h 1 0)[i + 1]? = some y →
      y = x - locStep i) ∧
    (∀ i, i ≤ 10 → locStep i = 1) ∧ (∀ i, 10 ≤ i → locStep (i + 1) = 2 * locStep i) := by
  refine ⟨rfl, locHeights_last _ _ _ _ (Nat.le_refl _) (Nat.lt_succ_self _),
    fun fuel hf => locHeights_fuel _ _ _ _ _ (Nat.le_refl _) hf (Nat.lt_succ_self _),
    locHeights_desc _ _ _ _ (Nat.le_refl _), ?_, ?_, ?_⟩
  · intro i x y hx hy
    have := locHeights_step (h + 1) h 0 i x y hx hy
    rw [Nat.zero_add] at this
    exact this
  · intro i hi; unfold locStep; rw [if_pos hi]
  · intro i hi
    rw [← locStep_succ, if_pos (by omega), Nat.mul_comm]

/-- the locator starts at the tip, ends at the root (genesis), contains only hashes of stored LONGEST_CHAIN rows,
    in strictly descending height -/
theorem C13_locator_ends (cfg : Cfg H) (s : Store H) (t g : Row H) (h : Inv cfg s) (htip : getTip s = some t)
    (hg : g ∈ s) (hg0 : g.id = 0) :
    (locator s).head? = some t.hash ∧ (locator s).getLast? = some g.hash ∧
    (∀ x ∈ locator s, ∃ r ∈ s, r.st = .lc ∧ r.hash = x) ∧
    ((lcRowsAt s (locHeights (t.height + 1) t.height 1 0)).map (·.height)).Pairwise (· > ·) := by
  obtain ⟨e1, e2, e3⟩ := C13_locator cfg s t h htip
  obtain ⟨hw, t', ht, hl⟩ := h
  have : t' = t := by have := hl.getTip ht; rw [htip] at this; cases this; rfl
  subst this
  obtain ⟨hh1, hh2, _, hh4, _⟩ := C13_locator_heights t'.height
  have hgl := hw.root_of_id hg hg0
  refine ⟨?_, ?_, ?_, by rw [e2]; exact hh4⟩
  · rw [e1, List.head?_map]
    have := congrArg List.head? e2
    rw [List.head?_map, hh1] at this
    cases e : (lcRowsAt s (locHeights (t'.height + 1) t'.height 1 0)).head? with
    | none => rw [e] at this; cases this
    | some r =>
      rw [e] at this
      have hr := e3 r (List.mem_of_head? e)
      have hrt : r = t' := hl.uniq r hr.1 t' ht hr.2 hl.lc (by simpa using this)
      rw [hrt]; rfl
  · rw [e1, List.getLast?_map]
    have := congrArg List.getLast? e2
    rw [List.getLast?_map, hh2] at this
    cases e : (lcRowsAt s (locHeights (t'.height + 1) t'.height 1 0)).getLast? with
    | none => rw [e] at this; cases this
    | some r =>
      rw [e] at this
      have hr := e3 r (List.mem_of_getLast? e)
      have hrg : r = g := hl.uniq r hr.1 g hg hr.2 hgl.1 (by rw [hgl.2.1]; simpa using this)
      rw [hrg]; rfl
  · intro x hx
    rw [e1] at hx
    obtain ⟨r, hr, e⟩ := List.mem_map.1 hx
    exact ⟨r, (e3 r hr).1, (e3 r hr).2, e⟩

example : Inv exCfg exStore ∧ getTip exStore = some exTip ∧ exRoot ∈ exStore ∧ exRoot.id = 0 :=
  ⟨exInv, exTip_eq, by decide, by decide⟩

/-! ### getheaders -/

/-- the cap is the regenerated constant; a changed constant fails the build here -/
example : Gen.maxCFHeadersPerMsg = 2000 := by decide

/-- the start: the greatest height of a LONGEST_CHAIN row whose hash is in the locator, or 0 if there is none -/
theorem C13_start (s : Store H) (loc : List H) :
    (∀ r ∈ s, r.st = .lc → r.hash ∈ loc → r.height ≤ startHeight s loc) ∧
      ((∃ r ∈ s, r.st = .lc ∧ r.hash ∈ loc ∧ r.height = startHeight s loc) ∨
       ((∀ r ∈ s, r.st = .lc → r.hash ∉ loc) ∧ startHeight s loc = 0)) :=
  startHeight_spec s loc

example : startHeight exStore [6, 3, 4, 5, 99] = 2 ∧ startHeight exStore [6, 5, 99] = 0 := by decide

/-- the zero hash (the "no stop" value of the protocol) is the root's previous-hash, which no stored row has -/
theorem C13_zero_not_stored (cfg : Cfg H) (s : Store H) (g : Row H) (hw : WF cfg s) (hg : g ∈ s) (hg0 : g.id = 0) :
    ∀ r ∈ s, r.hash ≠ g.prev := (hw.root_of_id hg hg0).2.2

example : WF exCfg exStore ∧ exRoot ∈ exStore ∧ exRoot.id = 0 ∧ exRoot.prev = 0 := ⟨exInv.1, by decide, by decide, rfl⟩

/- FULL STATEMENT (false on the unchanged code in two recorded ways, see the two counterexamples below):
     for `Inv cfg s`, no stored hash equal to `zero`, every locator `loc` and stop hash `stop`, with
       start := startHeight s loc      (C13_start; 0 — "from height 1" — when no entry is on the longest chain, also
                                        for the EMPTY locator)
       stop' := the height of the longest-chain row with hash `stop` if there is one, else start + cap:
     if stop' ≤ start the answer is nothing (no headers), otherwise `getHeaders s zero loc stop = .ok rows` where
     rows are exactly the longest-chain rows with height in (start, min stop' (start + cap)], ascending, parent-linked,
     at most cap.
   The unchanged code (1) answers `.error .noLocators` for the empty locator, and (2) treats a stop hash that is the
   ROOT (height 0) like an absent stop (`stopHeight = 0`) and sends up to cap headers instead of nothing.
   Proved: the statement for `loc ≠ []` and a stop hash that is not a longest-chain row of height 0. -/

/-- the answer to getheaders (non-empty locator; the stop hash is not the longest-chain row of height 0):
    `hi` is the stop row's height when the stop hash is a longest-chain row (then it lies ahead: `start < height`),
    else `start + cap`, capped at `start + cap`; the rows are exactly the stored LONGEST_CHAIN rows with height in
    `(start, hi]` — never a stale or orphan header —, their heights are `start+1, start+2, …` in this order,
    consecutive rows are parent-linked, the first row's parent is the longest-chain row at height `start`,
    and there are at most `Gen.maxCFHeadersPerMsg` of them -/
theorem C13_getheaders_partial (cfg : Cfg H) (s : Store H) (zero : H) (loc : List H) (stop : H) (rows : List (Row H))
    (h : Inv cfg s) (hz : ∀ r ∈ s, r.hash ≠ zero) (hloc : loc ≠ [])
    (hstop0 : ∀ r ∈ s, r.st = .lc → r.hash = stop → r.height ≠ 0)
    (hok : getHeaders s zero loc stop = .ok rows) :
    ∃ hi,
      ((∃ sr ∈ s, sr.st = .lc ∧ sr.hash = stop ∧ startHeight s loc < sr.height ∧
          hi = min sr.height (startHeight s loc + Gen.maxCFHeadersPerMsg)) ∨
       ((∀ r ∈ s, r.st = .lc → r.hash ≠ stop) ∧ hi = startHeight s loc + Gen.maxCFHeadersPerMsg)) ∧
      (∀ r, r ∈ rows ↔ r ∈ s ∧ r.st = .lc ∧ startHeight s loc < r.height ∧ r.height ≤ hi) ∧
      rows.map (·.height) = List.range' (startHeight s loc + 1) rows.length ∧
      (∀ i (hi' : i + 1 < rows.length), rows[i + 1].prev = rows[i].hash) ∧
      (∀ r0, rows.head? = some r0 → ∃ p ∈ s, p.st = .lc ∧ p.height = startHeight s loc ∧ r0.prev = p.hash) ∧
      rows.length ≤ Gen.maxCFHeadersPerMsg := by
  obtain ⟨hw, t, ht, hl⟩ := h
  rw [getHeaders_eq s zero stop hloc] at hok
  by_cases hle : ghStop s zero loc stop ≤ startHeight s loc
  · rw [if_pos hle] at hok; cases hok
  rw [if_neg hle] at hok
  have hrows : rows = rangeLc s (startHeight s loc + 1)
      (min (ghStop s zero loc stop) (startHeight s loc + Gen.maxCFHeadersPerMsg)) := by
    cases hok; rfl
  clear hok
  generalize hhi : min (ghStop s zero loc stop) (startHeight s loc + Gen.maxCFHeadersPerMsg) = hi at hrows
  have hhile : hi ≤ startHeight s loc + Gen.maxCFHeadersPerMsg := by omega
  refine ⟨hi, ?_, ?_, ?_, ?_, ?_, ?_⟩
  · -- the upper end
    unfold ghStop at hhi hle
    by_cases hc : stop = zero ∨ stopHeight s stop = 0
    · right
      rw [if_pos hc] at hhi
      refine ⟨?_, by omega⟩
      intro r hr hrl e
      rcases hc with hc | hc
      · exact hz r hr (e.trans hc)
      · have := stopHeight_lc hw.nodup hr hrl
        rw [e, hc] at this
        exact hstop0 r hr hrl e this.symm
    · left
      rw [if_neg hc] at hhi hle
      obtain ⟨sr, hsr, hsl, hse, hsh⟩ := stopHeight_pos (fun e => hc (Or.inr e))
      exact ⟨sr, hsr, hsl, hse, by omega, by omega⟩
  · intro r
    rw [hrows, mem_rangeLc]
    constructor
    · rintro ⟨h1, h2, h3, h4⟩; exact ⟨h1, h2, by omega, h4⟩
    · rintro ⟨h1, h2, h3, h4⟩; exact ⟨h1, h2, by omega, h4⟩
  · have hf := ((lcAsc_hf hw ht hl).drop (startHeight s loc + 1)).take (hi + 1 - (startHeight s loc + 1))
    rw [← rangeLc_eq_slice (lcAsc_hf hw ht hl), ← hrows] at hf
    unfold HF at hf
    rw [hf, Nat.zero_add]
  · intro i hi'
    rw [rangeLc_eq_slice (lcAsc_hf hw ht hl)] at hrows
    subst hrows
    obtain ⟨h1, e1⟩ := slice_getElem _ _ _ (i + 1) hi'
    obtain ⟨h2, e2⟩ := slice_getElem (lcAsc s) (startHeight s loc + 1) (hi + 1 - (startHeight s loc + 1)) i
      (Nat.lt_of_succ_lt hi')
    rw [e1, e2]
    exact lcAsc_prev hw ht hl _ h1
  · intro r0 hr0
    rw [rangeLc_eq_slice (lcAsc_hf hw ht hl)] at hrows
    subst hrows
    rw [List.head?_eq_getElem?] at hr0
    obtain ⟨h0, e0⟩ := List.getElem?_eq_some_iff.1 hr0
    obtain ⟨h1, e1⟩ := slice_getElem _ _ _ 0 h0
    rw [e1] at e0
    have hidx : startHeight s loc < (lcAsc s).length := by omega
    have hm := mem_lcAsc.1 (List.getElem_mem hidx)
    refine ⟨(lcAsc s)[startHeight s loc], hm.1, hm.2, lcAsc_getElem_height hw ht hl _ hidx, ?_⟩
    rw [← e0]
    exact lcAsc_prev hw ht hl _ h1
  · rw [hrows, rangeLc_eq_slice (lcAsc_hf hw ht hl)]
    have := slice_length_le (lcAsc s) (startHeight s loc + 1) (hi + 1 - (startHeight s loc + 1))
    omega

/-- locator [3, 12345] (highest longest-chain entry: height 1), stop hash 7 (height 3): the rows at heights 2, 3 -/
example : Inv exCfg exStore ∧ (∀ r ∈ exStore, r.hash ≠ 0) ∧ [3, 12345] ≠ [] ∧
    (∀ r ∈ exStore, r.st = .lc → r.hash = 7 → r.height ≠ 0) ∧
    getHeaders exStore 0 [3, 12345] 7 = .ok [exRow 3 4 3 3 2 12885098499 .lc, exRow 6 7 4 6 3 17180131332 .lc] :=
  ⟨exInv, by decide, by decide, by decide, by decide⟩
/-- no stop (zero hash), nothing of the locator on the longest chain: everything from height 1 -/
example : getHeaders exStore 0 [6, 5] 0 = .ok [exRow 2 3 1000 2 1 8590065666 .lc, exRow 3 4 3 3 2 12885098499 .lc,
    exRow 6 7 4 6 3 17180131332 .lc, exTip] := by decide

/-- a stop hash that is a longest-chain block above the root but at or below the start: nothing is sent -/
theorem C13_stop_lower (cfg : Cfg H) (s : Store H) (zero : H) (loc : List H) (sr : Row H) (h : Inv cfg s)
    (hz : ∀ r ∈ s, r.hash ≠ zero) (hloc : loc ≠ []) (hsr : sr ∈ s) (hsl : sr.st = .lc) (hpos : 0 < sr.height)
    (hle : sr.height ≤ startHeight s loc) : getHeaders s zero loc sr.hash = .error .stopLower := by
  rw [getHeaders_eq s zero sr.hash hloc]
  have e := stopHeight_lc h.1.nodup hsr hsl
  have : ghStop s zero loc sr.hash = sr.height := by
    unfold ghStop
    rw [if_neg, e]
    rintro (k | k)
    · exact hz sr hsr k
    · omega
  rw [this, if_pos hle]

example : Inv exCfg exStore ∧ (∀ r ∈ exStore, r.hash ≠ 0) ∧ [7] ≠ [] ∧ exRow 2 3 1000 2 1 8590065666 .lc ∈ exStore ∧
    0 < (exRow 2 3 1000 2 1 8590065666 .lc).height ∧
    (exRow 2 3 1000 2 1 8590065666 .lc).height ≤ startHeight exStore [7] ∧
    getHeaders exStore 0 [7] 3 = .error .stopLower :=
  ⟨exInv, by decide, by decide, by decide, by decide, by decide, by decide⟩

/-- in every other case with a non-empty locator there IS an answer (this uses `0 < Gen.maxCFHeadersPerMsg`) -/
theorem C13_getheaders_answers (s : Store H) (zero : H) (loc : List H) (stop : H) (hloc : loc ≠ [])
    (hno : ∀ r ∈ s, r.st = .lc → r.hash = stop → r.height = 0 ∨ startHeight s loc < r.height) :
    ∃ rows, getHeaders s zero loc stop = .ok rows := by
  rw [getHeaders_eq s zero stop hloc]
  have hcap : 0 < Gen.maxCFHeadersPerMsg := by decide
  rw [if_neg]
  · exact ⟨_, rfl⟩
  · unfold ghStop
    by_cases hc : stop = zero ∨ stopHeight s stop = 0
    · rw [if_pos hc]; omega
    · rw [if_neg hc]
      obtain ⟨sr, hsr, hsl, hse, hsh⟩ := stopHeight_pos (fun e => hc (Or.inr e))
      rcases hno sr hsr hsl hse with k | k
      · exact absurd (hsh.symm.trans k) (fun e => hc (Or.inr e))
      · omega

example : [3] ≠ [] ∧ ∀ r ∈ exStore, r.st = .lc → r.hash = 7 → r.height = 0 ∨ startHeight exStore [3] < r.height := by
  decide

/-- never a stale or orphan header, whatever the request -/
theorem C13_getheaders_lc (s : Store H) (zero : H) (loc : List H) (stop : H) (rows : List (Row H))
    (hok : getHeaders s zero loc stop = .ok rows) : ∀ r ∈ rows, r ∈ s ∧ r.st = .lc := by
  by_cases hloc : loc = []
  · subst hloc; simp [getHeaders] at hok
  · rw [getHeaders_eq s zero stop hloc] at hok
    split at hok
    · cases hok
    · cases hok
      intro r hr
      have := mem_rangeLc.1 hr
      exact ⟨this.1, this.2.1⟩

/-- never more than `Gen.maxCFHeadersPerMsg` (= 2000) headers, whatever the request -/
theorem C13_getheaders_cap (cfg : Cfg H) (s : Store H) (zero : H) (loc : List H) (stop : H) (rows : List (Row H))
    (h : Inv cfg s) (hok : getHeaders s zero loc stop = .ok rows) : rows.length ≤ Gen.maxCFHeadersPerMsg := by
  obtain ⟨hw, t, ht, hl⟩ := h
  by_cases hloc : loc = []
  · subst hloc; simp [getHeaders] at hok
  · rw [getHeaders_eq s zero stop hloc] at hok
    split at hok
    · cases hok
    · cases hok
      rw [rangeLc_eq_slice (lcAsc_hf hw ht hl)]
      have := slice_length_le (lcAsc s) (startHeight s loc + 1)
        (min (ghStop s zero loc stop) (startHeight s loc + Gen.maxCFHeadersPerMsg) + 1 - (startHeight s loc + 1))
      omega

example : Inv exCfg exStore ∧ getHeaders exStore 0 [1000] 4 = .ok [exRow 2 3 1000 2 1 8590065666 .lc,
    exRow 3 4 3 3 2 12885098499 .lc] := ⟨exInv, by decide⟩

/-! ### the two recorded deviations -/

/-- known finding: an EMPTY locator is answered with an error, although the text asks for the headers from height 1
    (which exist: the store has longest-chain rows above the root) -/
theorem C13_empty_locator_counterexample :
    Inv exCfg exStore ∧ (∃ r ∈ exStore, r.st = .lc ∧ 0 < r.height) ∧
      getHeaders exStore 0 [] 0 = .error .noLocators := by decide

/-- known finding: a stop hash equal to the ROOT (height 0, at or below every start) does not yield "nothing":
    it is indistinguishable from an absent stop (`stopHeight = 0`) and everything after the start is sent -/
theorem C13_stop_genesis_counterexample :
    Inv exCfg exStore ∧ exRoot ∈ exStore ∧ exRoot.st = .lc ∧ exRoot.height = 0 ∧
      exRoot.height ≤ startHeight exStore [3] ∧ stopHeight exStore exRoot.hash = 0 ∧
      getHeaders exStore 0 [3] exRoot.hash =
        .ok [exRow 3 4 3 3 2 12885098499 .lc, exRow 6 7 4 6 3 17180131332 .lc, exTip] := by decide

/-! ### for every store reachable by ingestion
The theorems above restated for `run cfg [g] hist` — the store after ANY ingestion history (reorganisations, stale
blocks, orphans, duplicates, forbidden and zero-work headers) from a root row `g`; the chain invariant comes from
`C01_canonical`, so no `Inv` hypothesis is left. The protocol's zero hash is the root's previous hash `g.prev`; that
no stored row has it is derived (`C13_zero_not_stored_reachable`), not assumed. -/
section Reachable
open BHS.Props.C01 (IsRoot HashAvoids C01_canonical)

/-- every reachable store still holds its root row -/
theorem C13_root_stored_reachable (cfg : Cfg H) (g : Row H) (hg : IsRoot g) (hz : HashAvoids cfg g.prev)
    (hist : List (Src H)) : g ∈ run cfg [g] hist :=
  (WF.run hg.1 hz hist (C01.C01_inv_init cfg g hg).1 (List.mem_singleton.2 rfl)).2

/-- no row of a reachable store has the zero hash (the root's previous hash) -/
theorem C13_zero_not_stored_reachable (cfg : Cfg H) (g : Row H) (hg : IsRoot g) (hz : HashAvoids cfg g.prev)
    (hist : List (Src H)) : ∀ r ∈ run cfg [g] hist, r.hash ≠ g.prev :=
  C13_zero_not_stored cfg _ g (C01_canonical cfg g hg hz hist).1.1 (C13_root_stored_reachable cfg g hg hz hist) hg.1

theorem C13_locator_reachable (cfg : Cfg H) (g : Row H) (hg : IsRoot g) (hz : HashAvoids cfg g.prev)
    (hist : List (Src H)) (t : Row H) (htip : getTip (run cfg [g] hist) = some t) :
    locator (run cfg [g] hist) =
      (lcRowsAt (run cfg [g] hist) (locHeights (t.height + 1) t.height 1 0)).map (·.hash) ∧
    (lcRowsAt (run cfg [g] hist) (locHeights (t.height + 1) t.height 1 0)).map (·.height) =
      locHeights (t.height + 1) t.height 1 0 ∧
    ∀ r ∈ lcRowsAt (run cfg [g] hist) (locHeights (t.height + 1) t.height 1 0),
      r ∈ run cfg [g] hist ∧ r.st = .lc :=
  C13_locator cfg _ t (C01_canonical cfg g hg hz hist).1 htip

/-- the locator of every reachable store starts at the tip and ends at THE root `g` the history started from -/
theorem C13_locator_ends_reachable (cfg : Cfg H) (g : Row H) (hg : IsRoot g) (hz : HashAvoids cfg g.prev)
    (hist : List (Src H)) (t : Row H) (htip : getTip (run cfg [g] hist) = some t) :
    (locator (run cfg [g] hist)).head? = some t.hash ∧ (locator (run cfg [g] hist)).getLast? = some g.hash ∧
    (∀ x ∈ locator (run cfg [g] hist), ∃ r ∈ run cfg [g] hist, r.st = .lc ∧ r.hash = x) ∧
    ((lcRowsAt (run cfg [g] hist) (locHeights (t.height + 1) t.height 1 0)).map (·.height)).Pairwise (· > ·) :=
  C13_locator_ends cfg _ t g (C01_canonical cfg g hg hz hist).1 htip (C13_root_stored_reachable cfg g hg hz hist) hg.1

/-- (non-empty locator, stop hash not the height-0 row: the two recorded deviations stay excluded) -/
theorem C13_getheaders_partial_reachable (cfg : Cfg H) (g : Row H) (hg : IsRoot g) (hz : HashAvoids cfg g.prev)
    (hist : List (Src H)) (loc : List H) (stop : H) (rows : List (Row H)) (hloc : loc ≠ [])
    (hstop0 : ∀ r ∈ run cfg [g] hist, r.st = .lc → r.hash = stop → r.height ≠ 0)
    (hok : getHeaders (run cfg [g] hist) g.prev loc stop = .ok rows) :
    ∃ hi,
      ((∃ sr ∈ run cfg [g] hist, sr.st = .lc ∧ sr.hash = stop ∧ startHeight (run cfg [g] hist) loc < sr.height ∧
          hi = min sr.height (startHeight (run cfg [g] hist) loc + Gen.maxCFHeadersPerMsg)) ∨
       ((∀ r ∈ run cfg [g] hist, r.st = .lc → r.hash ≠ stop) ∧
          hi = startHeight (run cfg [g] hist) loc + Gen.maxCFHeadersPerMsg)) ∧
      (∀ r, r ∈ rows ↔ r ∈ run cfg [g] hist ∧ r.st = .lc ∧ startHeight (run cfg [g] hist) loc < r.height ∧
        r.height ≤ hi) ∧
      rows.map (·.height) = List.range' (startHeight (run cfg [g] hist) loc + 1) rows.length ∧
      (∀ i (hi' : i + 1 < rows.length), rows[i + 1].prev = rows[i].hash) ∧
      (∀ r0, rows.head? = some r0 → ∃ p ∈ run cfg [g] hist, p.st = .lc ∧
        p.height = startHeight (run cfg [g] hist) loc ∧ r0.prev = p.hash) ∧
      rows.length ≤ Gen.maxCFHeadersPerMsg :=
  C13_getheaders_partial cfg _ g.prev loc stop rows (C01_canonical cfg g hg hz hist).1
    (C13_zero_not_stored_reachable cfg g hg hz hist) hloc hstop0 hok

theorem C13_stop_lower_reachable (cfg : Cfg H) (g : Row H) (hg : IsRoot g) (hz : HashAvoids cfg g.prev)
    (hist : List (Src H)) (loc : List H) (sr : Row H) (hloc : loc ≠ []) (hsr : sr ∈ run cfg [g] hist)
    (hsl : sr.st = .lc) (hpos : 0 < sr.height) (hle : sr.height ≤ startHeight (run cfg [g] hist) loc) :
    getHeaders (run cfg [g] hist) g.prev loc sr.hash = .error .stopLower :=
  C13_stop_lower cfg _ g.prev loc sr (C01_canonical cfg g hg hz hist).1
    (C13_zero_not_stored_reachable cfg g hg hz hist) hloc hsr hsl hpos hle

theorem C13_getheaders_cap_reachable (cfg : Cfg H) (g : Row H) (hg : IsRoot g) (hz : HashAvoids cfg g.prev)
    (hist : List (Src H)) (zero : H) (loc : List H) (stop : H) (rows : List (Row H))
    (hok : getHeaders (run cfg [g] hist) zero loc stop = .ok rows) : rows.length ≤ Gen.maxCFHeadersPerMsg :=
  C13_getheaders_cap cfg _ zero loc stop rows (C01_canonical cfg g hg hz hist).1 hok

/-- the tip of the store C01's history produces -/
def exTipR : Row Nat :=
  { id := 3, hash := 4, prev := 3, merkle := 3, height := 2, version := 1, time := 3, bits := 486604799,
    nonce := 3, work := 4295032833, cum := 12885098499, st := .lc }

/-- non-vacuity on the history of C01 (fork, tie, reorganisation, orphan): the locator runs from the tip (hash 4) over
    the sibling that won the reorganisation (hash 3) down to the root; getheaders after locator entry 3 sends the tip;
    a stop at the start sends nothing -/
example : IsRoot C01.exRoot ∧ HashAvoids C01.exCfg C01.exRoot.prev ∧
    getTip (run C01.exCfg [C01.exRoot] C01.exHist) = some exTipR ∧
    locator (run C01.exCfg [C01.exRoot] C01.exHist) = [4, 3, 1000] ∧
    (locator (run C01.exCfg [C01.exRoot] C01.exHist)).getLast? = some C01.exRoot.hash ∧
    getHeaders (run C01.exCfg [C01.exRoot] C01.exHist) C01.exRoot.prev [3, 2] C01.exRoot.prev = .ok [exTipR] ∧
    getHeaders (run C01.exCfg [C01.exRoot] C01.exHist) C01.exRoot.prev [3, 2] 3 = .error .stopLower :=
  ⟨by decide, C01.exAvoids, by decide, by decide,
    (C13_locator_ends_reachable C01.exCfg C01.exRoot (by decide) C01.exAvoids C01.exHist exTipR (by decide)).2.1,
    by decide,
    C13_stop_lower_reachable C01.exCfg C01.exRoot (by decide) C01.exAvoids C01.exHist [3, 2]
      { id := 2, hash := 3, prev := 1000, merkle := 2, height := 1, version := 1, time := 2, bits := 486604799,
        nonce := 2, work := 4295032833, cum := 8590065666, st := .lc }
      (by decide) (by decide) (by decide) (by decide) (by decide)⟩

end Reachable

end BHS.Props.C13
