/-
C20 — Configuration resolves as environment over file over defaults, for every key;
invalid database sections are refused at validation.

Two layers:

* the RULE (`BHS.Config.resolve`, `validateDb`) — theorems for all sources / all sections;
* the regenerated key table `BHS.Gen.keys` (reflection over `config.AppConfig`, viper
  queried after `SetDefaults`) — `decide` over the finite table (re-run when it changes)
  shows that every leaf key has a registered viper default equal to the documented one,
  that keys and environment-variable names are unique, and therefore that the
  viper-accurate model `effective` (environment consulted only for *known* keys, empty
  variable = unset) IS the rule for every key of the table.

viper/mapstructure themselves are trusted (parameters of the model): that the real
`config.Load` behaves as `effective` is what the per-key correspondence check establishes.
-/
import BHS.Model.Config
import BHS.Gen.ConfigKeys
import BHS.Proofs.Config

namespace BHS.Props.C20
open BHS BHS.Config BHS.Proofs.Config

/-! ### The rule -/

/-- Precedence, all three clauses, for all sources and every key: a value in the
environment wins; otherwise a value in the file wins; otherwise the default. -/
theorem C20_precedence (env file dflt : Source) (k : String) :
    (∀ v, env k = some v → resolve env file dflt k = some v) ∧
    (∀ v, env k = none → file k = some v → resolve env file dflt k = some v) ∧
    (env k = none → file k = none → resolve env file dflt k = dflt k) :=
  ⟨fun v h => resolve_env env file dflt k v h,
   fun v he h => resolve_file env file dflt k v he h,
   fun he hf => resolve_default env file dflt k he hf⟩

/-- A key absent from environment and file keeps its default, and overriding key `k`
(in the environment or in the file) does not change the resolution of any other key. -/
theorem C20_untouched_keep_default (env file dflt : Source) (k : String) :
    (env k = none → file k = none → resolve env file dflt k = dflt k) ∧
    (∀ v k', k' ≠ k → resolve (override env k v) file dflt k' = resolve env file dflt k') ∧
    (∀ v k', k' ≠ k → resolve env (override file k v) dflt k' = resolve env file dflt k') := by
  refine ⟨fun he hf => resolve_default env file dflt k he hf, ?_, ?_⟩
  · intro v k' h; simp [resolve, override, h]
  · intro v k' h; simp [resolve, override, h]

/-! ### The regenerated key table -/

/-- Every leaf key of `config.AppConfig` has a viper default registered by `SetDefaults`,
and it is the value of `GetDefaultAppConfig()`. (This is what makes the environment
override effective: `viper.Unmarshal` consults `AutomaticEnv` only for known keys.) -/
theorem C20_every_key_has_default : ∀ i ∈ Gen.keys, i.registered = true ∧ i.viperDflt = i.dflt := by
  decide

/-- Dotted keys are unique, and so are the environment-variable names viper derives from
them (`BHS_` + upper-cased key with "." → "_"), including the one of `config_file`:
no variable can address two keys. -/
theorem C20_keys_and_env_names_distinct :
    (Gen.keys.map (·.key)).Nodup ∧
    ((Gen.keys.map (·.key) ++ Gen.extraViperKeys).map (envName Gen.envPrefix)).Nodup := by
  decide +kernel

/-- The table is not empty and every key has a kind the correspondence generator can draw
values for (a new key of another kind re-opens this obligation instead of going untested). -/
theorem C20_kinds_supported : Gen.keys ≠ [] ∧ ∀ i ∈ Gen.keys, i.kind ≠ Kind.other := by
  decide

/-- The engine names the model's `validateDb` compares with are the repo's constants. -/
theorem C20_engine_names : Gen.dbSqlite = engineSqlite ∧ Gen.dbPostgres = enginePostgres := by
  decide

/-- `Load` as modelled, on the regenerated table with the probed viper setting. -/
abbrev load (rawEnv file : Source) (key : String) : Option String :=
  effective Gen.keys Gen.allowEmptyEnv rawEnv file key

/-- For every key of the table and all sources, what `config.Load` computes (model
`effective`) is: the environment variable if set (to a non-empty value, unless viper's
AllowEmptyEnv is on), otherwise the file's value, otherwise the documented default —
never "no value". -/
theorem C20_table_precedence (i : KeyInfo) (hi : i ∈ Gen.keys) (rawEnv file : Source) :
    (∀ v, rawEnv i.key = some v → (v ≠ "" ∨ Gen.allowEmptyEnv = true) → load rawEnv file i.key = some v) ∧
    (∀ v, rawEnv i.key = none → file i.key = some v → load rawEnv file i.key = some v) ∧
    (rawEnv i.key = none → file i.key = none → load rawEnv file i.key = some i.dflt) := by
  have e := effective_eq_resolve Gen.keys C20_keys_and_env_names_distinct.1 C20_every_key_has_default i hi
    Gen.allowEmptyEnv rawEnv file
  refine ⟨?_, ?_, ?_⟩
  · intro v h hv
    rw [load, e]; exact resolve_env _ _ _ _ _ (viperEnv_nonempty _ rawEnv i.key v h hv)
  · intro v he hf
    rw [load, e]; exact resolve_file _ _ _ _ _ (viperEnv_none _ rawEnv i.key he) hf
  · intro he hf
    rw [load, e, resolve_default _ _ _ _ (viperEnv_none _ rawEnv i.key he) hf]

/-- Whole table: overriding one key (environment or file) leaves the effective value of
every other key of the table unchanged; with nothing overridden every key has its default. -/
theorem C20_table_untouched (i : KeyInfo) (hi : i ∈ Gen.keys) (rawEnv file : Source) (k v : String) (hk : i.key ≠ k) :
    load (override rawEnv k v) file i.key = load rawEnv file i.key ∧
    load rawEnv (override file k v) i.key = load rawEnv file i.key ∧
    load (fun _ => none) (fun _ => none) i.key = some i.dflt := by
  have e := effective_eq_resolve Gen.keys C20_keys_and_env_names_distinct.1 C20_every_key_has_default i hi Gen.allowEmptyEnv
  refine ⟨?_, ?_, ?_⟩
  · rw [load, load, e, e]; simp [resolve, viperEnv, override, hk]
  · rw [load, load, e, e]; simp [resolve, override, hk]
  · rw [load, e]; simp [resolve, viperEnv]

/-
FULL-STRENGTH statement of "the environment variable wins if set", which the unchanged
code VIOLATES (viper's AllowEmptyEnv is off: a variable set to the empty string is treated
as unset, although "" is a value of every string-typed key and the file can supply it):

  theorem C20_env_set_wins (i : KeyInfo) (hi : i ∈ Gen.keys) (rawEnv file : Source) (v : String) :
      rawEnv i.key = some v → load rawEnv file i.key = some v

Proved instead: the same with the decidable hypothesis `v ≠ ""`, the probed fact that
AllowEmptyEnv is off, and the negation at a concrete witness (any key of the table,
variable set to "", file value "f").  If envConfig() is changed to call
viper.AllowEmptyEnv(true), `Gen.allowEmptyEnv` becomes true: `C20_table_precedence` then
IS the full statement, and the two theorems below that record the deviation stop
checking (they are to be deleted with the known finding).
-/

/-- Environment wins whenever the variable is set to a non-empty value. -/
theorem C20_env_set_wins_partial (i : KeyInfo) (hi : i ∈ Gen.keys) (rawEnv file : Source) (v : String)
    (hv : v ≠ "") : rawEnv i.key = some v → load rawEnv file i.key = some v :=
  fun h => (C20_table_precedence i hi rawEnv file).1 v h (Or.inl hv)

/-- The live viper instance treats an empty variable as unset (probed by the extractor). -/
theorem C20_empty_env_is_unset : Gen.allowEmptyEnv = false := by decide

/-- A variable set to the empty string does not win: the file's value is used. -/
theorem C20_env_set_wins_counterexample :
    ∃ i ∈ Gen.keys, ∃ (rawEnv file : Source) (v : String),
      rawEnv i.key = some v ∧ load rawEnv file i.key ≠ some v := by
  obtain ⟨i, hi⟩ := List.exists_mem_of_ne_nil _ C20_kinds_supported.1
  refine ⟨i, hi, fun _ => some "", fun _ => some "f", "", rfl, ?_⟩
  rw [load, effective_eq_resolve Gen.keys C20_keys_and_env_names_distinct.1 C20_every_key_has_default i hi,
    C20_empty_env_is_unset]
  simp [resolve, viperEnv]

/-- Why registration matters (the accident `effective` models): on a table where a key's
default is NOT registered and the file does not mention it, the environment variable is
ignored and the pre-filled struct value stays. -/
theorem C20_unregistered_key_ignores_env (keys : List KeyInfo) (i : KeyInfo) (ae : Bool)
    (hl : lookup keys i.key = some i) (hr : i.registered = false) (rawEnv file : Source)
    (hf : file i.key = none) : effective keys ae rawEnv file i.key = some i.dflt := by
  simp [effective, viperDefaults, structDefaults, hl, hr, hf]

/-! ### Validation of the database section -/

/-- `DbConfig.Validate` accepts exactly: (prepared database off, or its path non-empty
and the file existing) and (engine sqlite with a non-empty path, or engine postgres
with host, port, user and database name all given). -/
theorem C20_validate (ex : String → Bool) (c : DbSection) :
    validateDb ex (some c) = .ok ↔
      (c.prepared = true → c.preparedPath ≠ "" ∧ ex c.preparedPath = true) ∧
      ((c.engine = Gen.dbSqlite ∧ c.sqlitePath ≠ "") ∨
       (c.engine = Gen.dbPostgres ∧ c.pgHost ≠ "" ∧ c.pgPort ≠ 0 ∧ c.pgUser ≠ "" ∧ c.pgDb ≠ "")) := by
  have hne : engineSqlite ≠ enginePostgres := by decide
  rw [C20_engine_names.1, C20_engine_names.2]
  unfold validateDb
  cases hp : c.prepared <;> by_cases h1 : c.preparedPath = "" <;> cases h2 : ex c.preparedPath <;>
    by_cases hs : c.engine = engineSqlite <;> by_cases hg : c.engine = enginePostgres <;>
    by_cases h3 : c.sqlitePath = "" <;> simp_all <;> omega

/-- A missing configuration section is refused. -/
theorem C20_refuses_nil (ex : String → Bool) : validateDb ex none = .refused .nilDb := rfl

/-- An unsupported engine is refused (whatever the rest says). -/
theorem C20_refuses_unsupported_engine (ex : String → Bool) (c : DbSection)
    (h1 : c.engine ≠ Gen.dbSqlite) (h2 : c.engine ≠ Gen.dbPostgres) : validateDb ex (some c) ≠ .ok := by
  rw [Ne, C20_validate]; simp [h1, h2]

/-- An empty SQLite path is refused. -/
theorem C20_refuses_empty_sqlite_path (ex : String → Bool) (c : DbSection)
    (h1 : c.engine = Gen.dbSqlite) (h2 : c.sqlitePath = "") : validateDb ex (some c) ≠ .ok := by
  have hne : Gen.dbSqlite ≠ Gen.dbPostgres := by decide
  rw [Ne, C20_validate]; simp [h1, h2, hne]

/-- Incomplete Postgres settings are refused. -/
theorem C20_refuses_incomplete_postgres (ex : String → Bool) (c : DbSection)
    (h1 : c.engine = Gen.dbPostgres) (h2 : c.pgHost = "" ∨ c.pgPort = 0 ∨ c.pgUser = "" ∨ c.pgDb = "") :
    validateDb ex (some c) ≠ .ok := by
  have hne : Gen.dbPostgres ≠ Gen.dbSqlite := by decide
  rw [Ne, C20_validate]
  rcases h2 with h | h | h | h <;> simp [h1, h, hne]

/-- A prepared database whose path is empty or whose file does not exist is refused. -/
theorem C20_refuses_missing_prepared_file (ex : String → Bool) (c : DbSection)
    (h1 : c.prepared = true) (h2 : c.preparedPath = "" ∨ ex c.preparedPath = false) :
    validateDb ex (some c) ≠ .ok := by
  rw [Ne, C20_validate]
  rcases h2 with h | h <;> simp [h1, h]

/-- The reason reported follows the order of the checks in the code. -/
theorem C20_validate_reason (ex : String → Bool) (c : DbSection) :
    validateDb ex (some c) =
      if c.prepared = true ∧ c.preparedPath = "" then .refused .preparedPathEmpty
      else if c.prepared = true ∧ ex c.preparedPath = false then .refused .preparedMissing
      else if c.engine = Gen.dbSqlite then (if c.sqlitePath = "" then .refused .sqlitePathEmpty else .ok)
      else if c.engine = Gen.dbPostgres then
        (if c.pgHost = "" ∨ c.pgPort = 0 ∨ c.pgUser = "" ∨ c.pgDb = "" then .refused .postgresIncomplete else .ok)
      else .refused .unsupportedEngine := by
  rw [C20_engine_names.1, C20_engine_names.2]; rfl

/-! ### Non-vacuity -/

private def envA : Source := ofList [("http.port", "9000"), ("http.auth_token", "")]
private def fileA : Source := ofList [("http.port", "8000"), ("http.auth_token", "tok"), ("db.engine", "postgres")]

-- hypotheses of the clauses are met by concrete sources, on keys of the regenerated table
example : load envA fileA "http.port" = some "9000" := by decide
example : load envA fileA "db.engine" = some "postgres" := by decide
example : load envA fileA "db.sqlite.file_path" = some "./data/blockheaders.db" := by decide
example : load envA fileA "http.auth_token" = some "tok" := by decide   -- empty variable ignored
example : load envA fileA "no.such.key" = none := by decide
example : ∃ i ∈ Gen.keys, i.key = "http.port" ∧ envA i.key = some "9000" ∧ fileA i.key = some "8000" := by decide
example : envName Gen.envPrefix "db.sqlite.file_path" = "BHS_DB_SQLITE_FILE_PATH" := by decide +kernel
example : (effectiveTable Gen.keys Gen.allowEmptyEnv envA fileA).length = Gen.keys.length := by simp [effectiveTable]

private def okSqlite : DbSection :=
  { engine := "sqlite", sqlitePath := "./x.db", pgHost := "", pgPort := 0, pgUser := "", pgDb := "", prepared := false, preparedPath := "" }
private def okPg : DbSection :=
  { engine := "postgres", sqlitePath := "", pgHost := "h", pgPort := 5432, pgUser := "u", pgDb := "d", prepared := true, preparedPath := "p.gz" }

example : validateDb (fun _ => true) (some okSqlite) = .ok := by decide
example : validateDb (fun _ => true) (some okPg) = .ok := by decide
example : validateDb (fun _ => false) (some okPg) = .refused .preparedMissing := by decide
example : validateDb (fun _ => true) (some { okPg with preparedPath := "" }) = .refused .preparedPathEmpty := by decide
example : validateDb (fun _ => true) (some { okPg with pgPort := 0 }) = .refused .postgresIncomplete := by decide
example : validateDb (fun _ => true) (some { okSqlite with sqlitePath := "" }) = .refused .sqlitePathEmpty := by decide
example : validateDb (fun _ => true) (some { okSqlite with engine := "mysql" }) = .refused .unsupportedEngine := by decide

end BHS.Props.C20
