/-
RepoWritesGen — the write primitives the chain-service translation rests on are what the Go source says now.

Gen.ChainSvc (BHS/Gen/ChainSvc.lean) stops at the repository interface: its monad RepoM ASSUMES that `UpdateState` and
`AddHeaderToDatabase` are each one atomic write that either happens and returns nil, or does not happen and returns an
error. This file closes that gap. BHS/Gen/RepoWrites.lean is REGENERATED on every check run from
/repo/database/repository/header_repository.go (`AddHeaderToDatabase`, `UpdateState`) and /repo/database/sql/headers.go
(`(*HeadersDb).Create`, `(*HeadersDb).UpdateState`: BeginTxx / sqlx.In / Exec / Commit / deferred Rollback, pkg/errors
wrapping) by harness/cmd/extract/gen_repowrites.go into `do` blocks of the transactional store monad BHS/Model/TxM.lean, in
which EVERY database call (begin, exec, commit, rollback) may fail according to an arbitrary fault schedule
`sched : Nat → Bool`. The theorems hold for ALL stores, arguments, schedules and positions `c` in the schedule:

* `UpdateState_atomic`, `AddHeaderToDatabase_atomic`: no error ⇔ none of the three calls of the transaction fails, and then
  the store is the hand model's write applied once; an error ⇒ the store is unchanged. Never a partial update, never
  success with an unchanged store, never an error after the data was committed.
* `RepoM_writes_simulated`: the RepoM primitives of Gen.ChainSvc have exactly these behaviours; RepoM's fault model is
  COARSER (one fault point per write = TxM's three calls begin / exec / commit collapsed), and every RepoM fault decision is
  realised by a schedule (`RepoM_faults_realised`).
* `Gen_write_sequence` / `C05_struct_valid_at_tx_boundaries` (BHS/Props/RepoWritesC05.lean): the writes of one `Add` issued through the generated write
  path under ANY schedule leave `addPrefix cfg s x k` for the number `k` of leading transactions without a failing call —
  so the crash / fault theorems of C05 quantify over faults at the real transaction boundaries.

The empty hash list (`Gen_UpdateState_nil`): sqlx.In refuses it, an error is returned, nothing is written; since the fix
d436b56 `switchChainsStates` guards both calls with `len(…) > 0` (visible in Gen.ChainSvc, used by `Gen_add_refines`),
and every state update the hand model issues names at least one hash (`plan_writes_ok`).
Helper lemmas: BHS/Proofs/RepoWritesRefine.lean.
-/
import BHS.Model.TxM
import BHS.Model.RepoM
import BHS.Gen.RepoWrites
import BHS.Proofs.RepoWritesRefine
import BHS.Model.Crash
import BHS.Props.C01

set_option linter.unusedSectionVars false

namespace BHS.Props.RepoWritesGen
open BHS BHS.Chain BHS.Gen.RepoWrites
open BHS.TxM (TxM observe)
open BHS.TxM.Refine (txOutcome txFails okPrefix genWrite genWrites WriteOk)
variable {H : Type} [DecidableEq H] [Inhabited H]

/-! ### the refinements: exact outcome for every schedule -/

/-- `HeaderRepository.UpdateState` (non-empty list) = one transaction over the calls `c, c+1, c+2` of the schedule:
    (error of the first failing call, wrapped as the Go text wraps it | nil; the store; the committed transactions;
    the number of database calls made) -/
theorem Gen_UpdateState_refines (s : Store H) (c : Nat) (sched : Nat → Bool) (hashes : List H) (st : St)
    (hne : hashes ≠ []) :
    observe s c sched (HeaderRepository_UpdateState hashes st) = .ok (
      (txOutcome sched c).1,
      (if (txOutcome sched c).2.1 then applyWrite s (.setState hashes st) else s),
      (if (txOutcome sched c).2.1 then [[.setState hashes st]] else []),
      c + (txOutcome sched c).2.2) :=
  TxM.Refine.Gen_UpdateState_refines s c sched hashes st hne

/-- the empty list: an error, nothing written (the callers never pass it: d436b56) -/
theorem Gen_UpdateState_nil (s : Store H) (c : Nat) (sched : Nat → Bool) (st : St) :
    observe s c sched (HeaderRepository_UpdateState ([] : List H) st) = .ok (
      if sched c then (some (.db "begin"), s, [], c + 1)
      else (some (.wrap .emptyIn), s, [], c + 2)) :=
  TxM.Refine.Gen_UpdateState_nil s c sched st

/-- `HeaderRepository.AddHeaderToDatabase` = one transaction `begin; insert; commit` -/
theorem Gen_AddHeaderToDatabase_refines (s : Store H) (c : Nat) (sched : Nat → Bool) (r : Row H) :
    observe s c sched (HeaderRepository_AddHeaderToDatabase r) = .ok (
      (txOutcome sched c).1,
      (if (txOutcome sched c).2.1 then applyWrite s (.insert r) else s),
      (if (txOutcome sched c).2.1 then [[.insert r]] else []),
      c + (txOutcome sched c).2.2) :=
  TxM.Refine.Gen_AddHeaderToDatabase_refines s c sched r

/-! ### atomicity -/

/-- FULL STATEMENT: for every store, non-empty hash list, state, fault schedule and position in it, the generated
    `HeaderRepository_UpdateState` does not panic and EITHER returns no error, the store is the hand model's
    `Write.setState` applied once, exactly that transaction was committed and none of its three database calls failed,
    OR returns an error, the store is unchanged, nothing was committed and one of the three calls failed. -/
theorem UpdateState_atomic (s : Store H) (c : Nat) (sched : Nat → Bool) (hashes : List H) (st : St) (hne : hashes ≠ []) :
    ∃ e s' cm k, observe s c sched (HeaderRepository_UpdateState hashes st) = .ok (e, s', cm, k) ∧
      ((e = none ∧ s' = setState s hashes st ∧ cm = [[.setState hashes st]] ∧
          sched c = false ∧ sched (c + 1) = false ∧ sched (c + 2) = false) ∨
       (e ≠ none ∧ s' = s ∧ cm = [] ∧ (sched c = true ∨ sched (c + 1) = true ∨ sched (c + 2) = true))) := by
  refine ⟨_, _, _, _, Gen_UpdateState_refines s c sched hashes st hne, ?_⟩
  unfold txOutcome
  cases h0 : sched c <;> cases h1 : sched (c + 1) <;> cases h2 : sched (c + 2) <;> simp [applyWrite]

/-- FULL STATEMENT for the insert (`insertRow`: `INSERT … ON CONFLICT DO NOTHING`, the rowid is the insertion position) -/
theorem AddHeaderToDatabase_atomic (s : Store H) (c : Nat) (sched : Nat → Bool) (r : Row H) :
    ∃ e s' cm k, observe s c sched (HeaderRepository_AddHeaderToDatabase r) = .ok (e, s', cm, k) ∧
      ((e = none ∧ s' = insertRow s r ∧ cm = [[.insert r]] ∧
          sched c = false ∧ sched (c + 1) = false ∧ sched (c + 2) = false) ∨
       (e ≠ none ∧ s' = s ∧ cm = [] ∧ (sched c = true ∨ sched (c + 1) = true ∨ sched (c + 2) = true))) := by
  refine ⟨_, _, _, _, Gen_AddHeaderToDatabase_refines s c sched r, ?_⟩
  unfold txOutcome
  cases h0 : sched c <;> cases h1 : sched (c + 1) <;> cases h2 : sched (c + 2) <;> simp [applyWrite]

/-! ### non-vacuity: the generated functions evaluated on the six-row store of C01, incl. a failing COMMIT -/

open BHS.Props.C01 (exStore exRoot exCfg exNext)

/-- a run, for evaluation: (error, store, number of committed transactions, database calls made); `none` = a panic -/
def ran (r : Except TxM.Fault (Option TxM.Err × Store H × List (List (Write H)) × Nat)) :
    Option (Option TxM.Err × Store H × Nat × Nat) :=
  match r with
  | .ok (e, s', cm, k) => some (e, s', cm.length, k)
  | .error _ => none

/-- no fault / BEGIN fails / EXEC fails / COMMIT fails: only the first run changes the store, the other three return
    an error (a failed commit is NOT reported as success) -/
example :
    ran (observe exStore 0 (fun _ => false) (HeaderRepository_UpdateState [2, 3] St.stale)) =
      some (none, setState exStore [2, 3] .stale, 1, 3) ∧ setState exStore [2, 3] .stale ≠ exStore ∧
    ran (observe exStore 0 (· == 0) (HeaderRepository_UpdateState [2, 3] St.stale)) =
      some (some (.db "begin"), exStore, 0, 1) ∧
    ran (observe exStore 0 (· == 1) (HeaderRepository_UpdateState [2, 3] St.stale)) =
      some (some (.wrap (.db "exec")), exStore, 0, 3) ∧
    ran (observe exStore 0 (· == 2) (HeaderRepository_UpdateState [2, 3] St.stale)) =
      some (some (.wrap (.db "commit")), exStore, 0, 3) ∧
    ran (observe exStore 7 (· == 9) (HeaderRepository_AddHeaderToDatabase { exRoot with hash := 77 })) =
      some (some (.wrap (.db "commit")), exStore, 0, 10) ∧
    ran (observe exStore 7 (fun _ => false) (HeaderRepository_AddHeaderToDatabase { exRoot with hash := 77 })) =
      some (none, exStore ++ [{ exRoot with hash := 77, id := 6 }], 1, 10) := by
  refine ⟨?_, ?_, ?_, ?_, ?_, ?_, ?_⟩ <;> decide

/-! ### the RepoM primitives of Gen.ChainSvc are these behaviours -/

/-- what RepoM observes of one write primitive: (an error was returned, the store, the number of recorded writes) -/
def repoObs (s : Store H) (fail : Bool) (m : RepoM H (Option Chain.Err)) : Option (Bool × Store H × Nat) :=
  match m.run { store := s, writes := [], failIn := if fail then some 0 else none, locked := true } with
  | .ok (e, rs) => some (e.isSome, rs.store, rs.writes.length)
  | .error _ => none

/-- the same observation of a run of the generated write path -/
def txObs (r : Except TxM.Fault (Option TxM.Err × Store H × List (List (Write H)) × Nat)) : Option (Bool × Store H × Nat) :=
  match r with
  | .ok (e, s', cm, _) => some (e.isSome, s', cm.length)
  | .error _ => none

/-- SIMULATION: for every schedule, the generated `UpdateState` / `AddHeaderToDatabase` started at call index `c` behave
    exactly like the RepoM primitives `updateState` / `addHeaderToDatabase` with the fault decision
    "this write fails" := one of the calls `c, c+1, c+2` (begin, exec, commit) fails. RepoM's fault model is coarser:
    its single fault point per write stands for the three database calls of the transaction. -/
theorem RepoM_writes_simulated (s : Store H) (c : Nat) (sched : Nat → Bool) :
    (∀ (hashes : List H) (st : St), hashes ≠ [] →
      txObs (observe s c sched (HeaderRepository_UpdateState hashes st)) =
        repoObs s (txFails sched c) (updateState hashes st)) ∧
    (∀ r : Row H,
      txObs (observe s c sched (HeaderRepository_AddHeaderToDatabase r)) =
        repoObs s (txFails sched c) (addHeaderToDatabase r)) := by
  refine ⟨fun hashes st hne => ?_, fun r => ?_⟩
  · rw [Gen_UpdateState_refines s c sched hashes st hne]
    unfold txOutcome txFails repoObs updateState writeStore
    cases h0 : sched c <;> cases h1 : sched (c + 1) <;> cases h2 : sched (c + 2) <;> simp [txObs, StateT.run]
  · rw [Gen_AddHeaderToDatabase_refines s c sched r]
    unfold txOutcome txFails repoObs addHeaderToDatabase writeStore readStore
    cases h0 : sched c <;> cases h1 : sched (c + 1) <;> cases h2 : sched (c + 2) <;>
      simp [txObs, StateT.run, bind, StateT.bind, Except.bind, applyWrite, insertRow]

/-- conversely every fault decision of RepoM is realised by a schedule: no failing call / a failing COMMIT -/
theorem RepoM_faults_realised (c : Nat) :
    txFails (fun _ => false) c = false ∧ txFails (· == c + 2) c = true := by
  unfold txFails
  simp

/-! ### the writes of one `Add` through the generated write path: faults at the real transaction boundaries -/

/-- every write the hand model issues can be issued: a state update names at least one hash (the fix d436b56) -/
theorem plan_writes_ok (cfg : Cfg H) (s : Store H) (x : Src H) : ∀ w ∈ (plan cfg s x).2, WriteOk w := by
  intro w hw
  unfold plan at hw
  dsimp only at hw
  split at hw
  · cases hw
  · split at hw
    · cases hw
    · split at hw
      · split at hw
        · cases hw
        · split at hw
          · simp only [switchWrites, List.mem_append, List.mem_singleton] at hw
            rcases hw with (hw | hw) | hw
            · split at hw
              · cases hw
              · rename_i hne
                simp only [List.mem_singleton] at hw
                subst hw
                simp only [WriteOk]
                intro h
                apply hne
                simpa using h
            · split at hw
              · cases hw
              · rename_i hne
                simp only [List.mem_singleton] at hw
                subst hw
                simp only [WriteOk]
                intro h
                apply hne
                simpa using h
            · subst hw; trivial
          · simp only [List.mem_singleton] at hw; subst hw; trivial
      · simp only [List.mem_singleton] at hw; subst hw; trivial

/-- issuing a list of hand-model writes through the generated write path under ANY schedule: exactly the leading
    transactions without a failing call are applied (each as one committed transaction), the first failing one and all
    later ones are not, and an error is returned iff one failed -/
theorem Gen_write_sequence (s : Store H) (c : Nat) (sched : Nat → Bool) (ws : List (Write H)) (hok : ∀ w ∈ ws, WriteOk w) :
    ∃ e k, observe s c sched (genWrites ws) =
        .ok (e, applyWrites s (ws.take (okPrefix sched c ws.length)),
          (ws.take (okPrefix sched c ws.length)).map ([·]), k) ∧
      (e.isSome = decide (okPrefix sched c ws.length < ws.length)) := by
  obtain ⟨e, st, hrun, hs, hc, he⟩ := TxM.Refine.genWrites_run sched ws hok s [] 0 c
  refine ⟨e, st.calls, ?_, he⟩
  rw [TxM.Refine.observe_eq hrun, hs, hc]
  simp

end BHS.Props.RepoWritesGen
