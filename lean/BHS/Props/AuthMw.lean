/-
Refinement of the REGENERATED authentication code (`BHS.Gen.AuthMw`, translated from
transports/http/auth/*.go, service/token_service.go, domains/tokens.go on every serveChain) to the hand
model `BHS.Model.Auth`, over which the C09 / C10 theorems are stated — for EVERY header string,
token table, configuration, gin context and handler.

Reading of the generated definitions (primitives: `BHS.Model.AuthMwPrim`):
  * a `*gin.Context` is a `Ctx σ`; the header the model calls `hdr` is `c.header "Authorization"`;
  * the model's `Reject` kinds are the regenerated `bhserrors` definitions (`rejectDef`), so the
    "401" of the model is the `status` field of `BHS.Gen.errX`;
  * `repo.Tokens.GetTokenByValue` is a parameter `r`; the model's reading of the tokens table
    (`SELECT … WHERE token = ?`) is the hypothesis `RepoSpec r st`;
  * the wiring `NewTokenService(repo, adminToken)`, `NewMiddleware(services, cfg)` is `AuthMwWire.mwOf`
    (by hand); gin's handler chain is `AuthMwPrim.chain`, a route's chain `AuthMwWire.serveChain` (by hand; the
    driver evaluates `AuthMwWire.genAuthorize` on every authentication op of the C09/C10 runs).
-/
import BHS.Model.AuthMwWire
import BHS.Props.C09
import BHS.Props.C10

namespace BHS.Props.AuthMw
open BHS BHS.Model.Auth BHS.Model.AuthMwPrim BHS.Model.AuthMwWire BHS.Proofs.Auth BHS.Spec.Auth

variable {σ : Type}

/-! ### views -/

/-- the `bhserrors` definition behind each rejection kind of the model -/
def rejectDef : Reject → Gen.ErrDef
  | .missingHeader => Gen.errMissingAuthHeader
  | .invalidHeader => Gen.errInvalidAuthHeader
  | .invalidToken => Gen.errInvalidAccessToken
  | .notAdmin => Gen.errUnauthorized
  | .adminTokenNotFound => Gen.errAdminTokenNotFound

/-- every rejection of the model is a 401 of the regenerated error table, under the name the model prints -/
theorem AuthMw_reject_401 (w : Reject) : (rejectDef w).status = 401 ∧ (rejectDef w).name = w.code := by
  cases w <;> decide

def parseView : Parse → Res String
  | .missing => .err (.bhs Gen.errMissingAuthHeader)
  | .invalid => .err (.bhs Gen.errInvalidAuthHeader)
  | .token t => .ok t

/-- what the model assumes of `repo.Tokens.GetTokenByValue` over the table `st`: a stored value gives a
    non-admin token, any other value an error (never a panic) -/
def RepoSpec (r : String → Res Tok) (st : Store) : Prop :=
  ∀ t, (t ∈ st → ∃ tok, r t = .ok tok ∧ tok.isAdmin = false) ∧ (t ∉ st → ∃ e, r t = .err e)

/-- the repository the driver evaluates meets `RepoSpec` -/
theorem repoOf_spec (st : Store) : RepoSpec (repoOf st) st := by
  intro t
  constructor
  · intro h; exact ⟨⟨t, false⟩, by simp [repoOf, h], rfl⟩
  · intro h; exact ⟨.other "sql: no rows in result set", by simp [repoOf, h]⟩

/-- `Res Tok` against the model's `Option Bool` (some isAdmin / none) -/
def TokRel (x : Res Tok) : Option Bool → Prop
  | some a => ∃ tok, x = .ok tok ∧ tok.isAdmin = a
  | none => ∃ e, x = .err e

/-- what `ApplyToAPI` left of context `c`, against the model's `Mw` -/
def MwRel (c c' : Ctx σ) : Mw → Prop
  | .abort why => c' = c.abort (.bhs (rejectDef why))
  | .next none => c' = c
  | .next (some a) => ∃ tok, tok.isAdmin = a ∧ c' = c.set "token" (.tok tok)

/-- the token the model's `requireAdmin` sees in the context -/
def ctxTok (c : Ctx σ) : Option Bool :=
  match c.get "token" with
  | some (.tok t) => some t.isAdmin
  | _ => none

/-! ### refinement, function by function -/

private theorem ofList_eq_iff (a : List Char) (s : String) : String.ofList a = s ↔ a = s.toList := by
  constructor
  · rintro rfl; simp
  · rintro rfl; simp

/-- `parseAuthHeader` (generated) = `parseAuthHeader` (model), for every context: in particular the
    generated code never panics on `headerParts[0]` / `headerParts[1]` -/
theorem AuthMw_parse (h : TokenMiddleware) (c : Ctx σ) :
    Gen.AuthMw.parseAuthHeader h c = parseView (parseAuthHeader (c.header "Authorization")) := by
  by_cases he : c.header "Authorization" = ""
  · simp [Gen.AuthMw.parseAuthHeader, parseAuthHeader, Ctx.getHeader, he, parseView]
  · rcases hl : split (c.header "Authorization").toList with _ | ⟨a, _ | ⟨b, _ | ⟨d, l⟩⟩⟩
    · simp [Gen.AuthMw.parseAuthHeader, parseAuthHeader, Ctx.getHeader, stringsSplitSp, hl, he, Res.bind, parseView]
    · simp [Gen.AuthMw.parseAuthHeader, parseAuthHeader, Ctx.getHeader, stringsSplitSp, hl, he, Res.bind, parseView]
    · by_cases ha : a = "Bearer".toList
      · subst ha
        simp [Gen.AuthMw.parseAuthHeader, parseAuthHeader, Ctx.getHeader, stringsSplitSp, hl, he, Res.bind,
          parseView, index]
      · have hb : String.ofList a ≠ "Bearer" := fun e => ha ((ofList_eq_iff _ _).1 e)
        simp only [parseAuthHeader, hl, if_neg he, if_neg ha]
        simp [Gen.AuthMw.parseAuthHeader, Ctx.getHeader, stringsSplitSp, hl, he, Res.bind, parseView, index, hb]
    · simp [Gen.AuthMw.parseAuthHeader, parseAuthHeader, Ctx.getHeader, stringsSplitSp, hl, he, Res.bind, parseView]

/-- `(*TokenService).GetToken` (generated) against `getToken` (model): admin compare first, then the table -/
theorem AuthMw_getToken (admin : String) (r : String → Res Tok) (st : Store) (hr : RepoSpec r st) (t : String) :
    TokRel (Gen.AuthMw.tokenServiceGetToken ⟨admin, r⟩ t) (getToken admin st t) := by
  unfold Gen.AuthMw.tokenServiceGetToken getToken
  by_cases ha : t = admin
  · simp [ha, TokRel, Gen.AuthMw.createAdminToken]
  · by_cases hm : t ∈ st
    · obtain ⟨tok, hk, hf⟩ := (hr t).1 hm
      simp [ha, hm, TokRel, hk, hf]
    · obtain ⟨e, hk⟩ := (hr t).2 hm
      simp [ha, hm, TokRel, hk]

/-- `ApplyToAPI` (generated) against `middleware` (model) -/
theorem AuthMw_middleware (env : Env) (st : Store) (r : String → Res Tok) (hr : RepoSpec r st) (c : Ctx σ) :
    MwRel c (Gen.AuthMw.applyToAPI (mwOf env r) c) (middleware env st (c.header "Authorization")) := by
  unfold Gen.AuthMw.applyToAPI middleware
  cases hu : env.useAuth with
  | false => simp [mwOf, hu, MwRel]
  | true =>
    simp only [mwOf, hu, if_true]
    rw [AuthMw_parse]
    cases hp : parseAuthHeader (c.header "Authorization") with
    | missing => simp [parseView, MwRel, rejectDef]
    | invalid => simp [parseView, MwRel, rejectDef]
    | token t =>
      simp only [parseView, Gen.AuthMw.getToken]
      have hg := AuthMw_getToken env.admin r st hr t
      cases hm : getToken env.admin st t with
      | none =>
        rw [hm] at hg
        obtain ⟨e, he⟩ := hg
        simp [he, MwRel, rejectDef]
      | some a =>
        rw [hm] at hg
        obtain ⟨tok, he, hadm⟩ := hg
        simp only [he, MwRel]
        exact ⟨tok, hadm, rfl⟩

/-- `RequireAdmin` + `validateToken` (generated) = `requireAdmin` (model). Hypothesis: the value under the
    key "token" is a `*domains.Token` — the Go code has a fourth answer (ErrGeneric, 500) for a value of
    another type, which the model does not have; `AuthMw_requireAdmin_other` states that case. Behind
    `ApplyToAPI` the hypothesis always holds (`AuthMw_authorize` needs no such hypothesis). -/
theorem AuthMw_requireAdmin (handler : Ctx σ → Ctx σ) (wrapped : Bool) (c : Ctx σ)
    (hk : c.get "token" ≠ some .other) :
    Gen.AuthMw.requireAdmin handler wrapped c =
      match requireAdmin wrapped (ctxTok c) with
      | .unauthorized401 why => c.abort (.bhs (rejectDef why))
      | .pass _ => handler c := by
  unfold Gen.AuthMw.requireAdmin Gen.AuthMw.validateToken requireAdmin ctxTok
  cases wrapped with
  | false => simp
  | true =>
    simp only [if_true]
    cases hg : c.get "token" with
    | none => simp [rejectDef]
    | some v =>
      cases v with
      | other => exact absurd hg hk
      | tok t => cases ha : t.isAdmin <;> simp [Val.asTok, ha, rejectDef]

/-- the case excluded above: a non-token value under "token" is answered ErrGeneric (500), handler not serveChain -/
theorem AuthMw_requireAdmin_other (handler : Ctx σ → Ctx σ) (c : Ctx σ) (hk : c.get "token" = some .other) :
    Gen.AuthMw.requireAdmin handler true c = c.abort (.bhs Gen.errGeneric) := by
  simp [Gen.AuthMw.requireAdmin, Gen.AuthMw.validateToken, hk, Val.asTok]

/-! ### the whole authentication layer of one request -/

/-- `c'` is `c` except possibly for a token stored under the key "token" -/
def SameButToken (c c' : Ctx σ) : Prop := c' = c ∨ ∃ tok, c' = c.set "token" (.tok tok)

private theorem get_set (c : Ctx σ) (k : String) (v : Val) : (c.set k v).get k = some v := by
  simp [Ctx.set, Ctx.get]

private theorem chain_one (f : Ctx σ → Ctx σ) (c : Ctx σ) : chain [f] c = f c := by
  simp only [chain]; split <;> rfl

private theorem chain_two (f g : Ctx σ → Ctx σ) (c : Ctx σ) :
    chain [f, g] c = if (f c).status = .running then g (f c) else f c := by
  unfold chain
  cases hs : (f c).status <;> simp [chain_one, hs]

/-- a request the middleware aborts: the context is the incoming one plus the abort -/
theorem AuthMw_abort (env : Env) (st : Store) (r : String → Res Tok) (hr : RepoSpec r st)
    (handler : Ctx σ → Ctx σ) (admin : Bool) (c : Ctx σ) (why : Reject)
    (hmw : middleware env st (c.header "Authorization") = .abort why) :
    serveChain env r handler admin c = c.abort (.bhs (rejectDef why)) := by
  have hm := AuthMw_middleware env st r hr c
  rw [hmw] at hm
  simp only [MwRel] at hm
  simp [serveChain, chain_two, hm, Ctx.abort]

/-- generated chain = `authorize` (model): a rejected request ends aborted with the model's 401 kind and no
    handler ran (the context is the incoming one, at most with the token the middleware stored); a passed
    request runs the handler on the context the middleware left, which holds the token the model says -/
theorem AuthMw_authorize (env : Env) (st : Store) (r : String → Res Tok) (hr : RepoSpec r st)
    (handler : Ctx σ → Ctx σ) (admin : Bool) (c : Ctx σ) (hc : c.status = .running) :
    match authorize env st admin (c.header "Authorization") with
    | .unauthorized401 why =>
        ∃ c', SameButToken c c' ∧ serveChain env r handler admin c = c'.abort (.bhs (rejectDef why))
    | .pass ctx => ∃ c', MwRel c c' (.next ctx) ∧ serveChain env r handler admin c = handler c' := by
  have hm := AuthMw_middleware env st r hr c
  unfold authorize
  cases hmw : middleware env st (c.header "Authorization") with
  | abort why => exact ⟨c, Or.inl rfl, AuthMw_abort env st r hr handler admin c why hmw⟩
  | next ctx =>
    rw [hmw] at hm
    cases ctx with
    | none =>
      simp only [MwRel] at hm
      have hu : env.useAuth = false := by
        cases hu : env.useAuth with
        | false => rfl
        | true =>
          exfalso
          obtain ⟨t, a, h, _⟩ := (middleware_next_iff env st _ hu none).1 hmw
          cases h
      cases admin <;>
        simp [serveChain, chain_two, hm, hc, hu, requireAdmin, Gen.AuthMw.requireAdmin, MwRel]
    | some a =>
      obtain ⟨tok, hadm, hc'⟩ := hm
      have hu : env.useAuth = true := by
        cases hu : env.useAuth with
        | true => rfl
        | false => rw [middleware_off env st _ hu] at hmw; cases hmw
      have hs : (c.set "token" (.tok tok)).status = .running := by simpa [Ctx.set] using hc
      cases admin with
      | false =>
        simp only [serveChain, chain_two, hc', hs, Bool.false_and, requireAdmin, if_true]
        exact ⟨_, ⟨tok, hadm, rfl⟩, by simp⟩
      | true =>
        have hra := AuthMw_requireAdmin handler true (c.set "token" (.tok tok))
          (by rw [get_set]; simp)
        have hct : ctxTok (c.set "token" (.tok tok)) = some a := by simp [ctxTok, get_set, hadm]
        rw [hct] at hra
        simp only [serveChain, chain_two, hc', hs, hu, Bool.and_self, if_true, hra]
        cases a with
        | true =>
          simp only [requireAdmin, if_true]
          exact ⟨_, ⟨tok, hadm, rfl⟩, rfl⟩
        | false =>
          simp only [requireAdmin, if_true]
          exact ⟨_, Or.inr ⟨tok, rfl⟩, rfl⟩

/-- an endpoint handler of the model (`World τ → World τ`) as a gin handler -/
def liftH {τ : Type} (hw : World τ → World τ) : Ctx (World τ) → Ctx (World τ) :=
  fun c => { c with world := hw c.world }

/-- generated chain = `serve` (model): same world afterwards, the chain is still running (the handler was
    the last one to serveChain) exactly when the model says the handler ran, and a rejection is the abort with
    the model's 401 kind -/
theorem AuthMw_serve {τ : Type} (env : Env) (r : String → Res Tok) (hw : World τ → World τ) (admin : Bool)
    (c : Ctx (World τ)) (hc : c.status = .running) (hr : RepoSpec r c.world.tokens) :
    (serveChain env r (liftH hw) admin c).world = (serve env admin hw c.world (c.header "Authorization")).world ∧
    ((serveChain env r (liftH hw) admin c).status = .running ↔
      (serve env admin hw c.world (c.header "Authorization")).handlerRan = true) ∧
    (∀ why, (serve env admin hw c.world (c.header "Authorization")).decision = .unauthorized401 why →
      (serveChain env r (liftH hw) admin c).status = .aborted (.bhs (rejectDef why))) := by
  have h := AuthMw_authorize env c.world.tokens r hr (liftH hw) admin c hc
  unfold serve
  cases ha : authorize env c.world.tokens admin (c.header "Authorization") with
  | unauthorized401 why =>
    rw [ha] at h
    obtain ⟨c', hsame, hrun⟩ := h
    have hw' : c'.world = c.world := by
      rcases hsame with rfl | ⟨tok, rfl⟩ <;> rfl
    simp [hrun, Ctx.abort, hw']
  | pass ctx =>
    rw [ha] at h
    obtain ⟨c', hrel, hrun⟩ := h
    have hw' : c'.world = c.world ∧ c'.status = .running := by
      cases ctx with
      | none => simp only [MwRel] at hrel; subst hrel; exact ⟨rfl, hc⟩
      | some a =>
        obtain ⟨tok, _, rfl⟩ := hrel
        exact ⟨rfl, by simpa [Ctx.set] using hc⟩
    simp [hrun, liftH, hw'.1, hw'.2]

/-- the answer line read off the generated chain is the model's `Decision.render`, for every repository that
    meets `RepoSpec`, every configuration, table and header -/
theorem AuthMw_render_of_spec (env : Env) (st : Store) (r : String → Res Tok) (hr : RepoSpec r st)
    (admin : Bool) (hdr : String) :
    renderCtx (serveChain env r id admin (freshCtx hdr ())) = (authorize env st admin hdr).render := by
  have h := AuthMw_authorize env st r hr id admin (freshCtx hdr ()) rfl
  have hh : (freshCtx hdr ()).header "Authorization" = hdr := by simp [freshCtx]
  rw [hh] at h
  cases ha : authorize env st admin hdr with
  | unauthorized401 why =>
    rw [ha] at h
    obtain ⟨c', _, hrun⟩ := h
    rw [hrun]
    cases why <;> rfl
  | pass ctx =>
    rw [ha] at h
    obtain ⟨c', hrel, hrun⟩ := h
    rw [hrun]
    cases ctx with
    | none =>
      simp only [MwRel] at hrel
      subst hrel
      rfl
    | some a =>
      obtain ⟨tok, hadm, rfl⟩ := hrel
      cases a <;> simp [renderCtx, Ctx.set, Ctx.get, freshCtx, hadm, Decision.render]

/-- what the driver cross-checks on every authentication op can never differ -/
theorem AuthMw_render (env : Env) (st : Store) (admin : Bool) (hdr : String) :
    genAuthorize env st admin hdr = (authorize env st admin hdr).render :=
  AuthMw_render_of_spec env st (repoOf st) (repoOf_spec st) admin hdr

/-! ### the C09 / C10 headlines over the generated definitions -/

/-- C09 headline over the generated code ("no handler runs unless authenticated"): with authentication
    on, a request whose Authorization header is not `Bearer <admin token | stored token>` leaves the gin
    chain aborted with a 401 of the error table, whatever the handler is — the resulting context is the
    incoming one plus the abort, so the handler did not serveChain and the world is unchanged. -/
theorem C09_mediated_generated (env : Env) (st : Store) (r : String → Res Tok) (hr : RepoSpec r st)
    (handler : Ctx σ → Ctx σ) (admin : Bool) (c : Ctx σ)
    (hu : env.useAuth = true) (hcred : ¬ validCred env st (c.header "Authorization")) :
    ∃ d : Gen.ErrDef, d.status = 401 ∧ serveChain env r handler admin c = c.abort (.bhs d) ∧
      (serveChain env r handler admin c).world = c.world := by
  obtain ⟨why, hw⟩ := (middleware_abort_iff env st _ hu).2 hcred
  have h := AuthMw_abort env st r hr handler admin c why hw
  exact ⟨rejectDef why, (AuthMw_reject_401 why).1, h, by rw [h]; rfl⟩

/-- …and a valid credential reaches the handler of an ordinary route, with the token in the context
    marked admin exactly for the admin token (`C10_http` / `C09_valid_passes` through the refinement) -/
theorem C09_valid_passes_generated (env : Env) (st : Store) (r : String → Res Tok) (hr : RepoSpec r st)
    (handler : Ctx σ → Ctx σ) (c : Ctx σ) (hc : c.status = .running) (t : String)
    (hu : env.useAuth = true) (hh : c.header "Authorization" = bearer t)
    (hs : ' ' ∉ t.toList) (hv : t = env.admin ∨ t ∈ st) :
    ∃ tok, tok.isAdmin = decide (t = env.admin) ∧
      serveChain env r handler false c = handler (c.set "token" (.tok tok)) := by
  have h := AuthMw_authorize env st r hr handler false c hc
  have ha : authorize env st false (bearer t) = .pass (some (decide (t = env.admin))) :=
    (C10.C10_http ⟨env, st⟩ t hu hs).1 hv
  rw [hh, ha] at h
  obtain ⟨c', ⟨tok, hadm, rfl⟩, hrun⟩ := h
  exact ⟨tok, hadm, hrun⟩

/-- C09 admin headline over the generated code: on a `RequireAdmin` route every header other than
    `Bearer <admin token>` is answered 401 without running the handler (world unchanged) -/
theorem C09_admin_generated (env : Env) (st : Store) (r : String → Res Tok) (hr : RepoSpec r st)
    (handler : Ctx σ → Ctx σ) (c : Ctx σ) (hc : c.status = .running)
    (hu : env.useAuth = true) (hcred : ¬ adminCred env (c.header "Authorization")) :
    ∃ (d : Gen.ErrDef) (c' : Ctx σ), d.status = 401 ∧ SameButToken c c' ∧
      serveChain env r handler true c = c'.abort (.bhs d) ∧ (serveChain env r handler true c).world = c.world := by
  have h := AuthMw_authorize env st r hr handler true c hc
  cases ha : authorize env st true (c.header "Authorization") with
  | unauthorized401 why =>
    rw [ha] at h
    obtain ⟨c', hsame, hrun⟩ := h
    refine ⟨rejectDef why, c', (AuthMw_reject_401 why).1, hsame, hrun, ?_⟩
    rw [hrun]
    rcases hsame with rfl | ⟨tok, rfl⟩ <;> rfl
  | pass cx =>
    exfalso
    rcases (authorize_admin_iff env st _).1 ⟨cx, ha⟩ with h' | h'
    · rw [hu] at h'; cases h'
    · exact hcred h'

/-- C10 headline over the generated code (`C10_auth_iff` through the refinement): the translated
    `(*TokenService).GetToken` succeeds exactly for the admin token and the members of the table, and
    says `IsAdmin` exactly for the admin token -/
theorem C10_auth_iff_generated (s : Sys) (r : String → Res Tok) (hr : RepoSpec r s.store) (t : String) :
    ((∃ tok, Gen.AuthMw.tokenServiceGetToken ⟨s.env.admin, r⟩ t = .ok tok) ↔ valid s.env.admin (C10.abs s) t) ∧
    ((∃ tok, Gen.AuthMw.tokenServiceGetToken ⟨s.env.admin, r⟩ t = .ok tok ∧ tok.isAdmin = true) ↔ t = s.env.admin) := by
  have h := AuthMw_getToken s.env.admin r s.store hr t
  obtain ⟨h1, h2⟩ := C10.C10_auth_iff s t
  cases hg : getToken s.env.admin s.store t with
  | none =>
    rw [hg] at h h1 h2
    obtain ⟨e, he⟩ := h
    constructor
    · rw [← h1]; simp [he]
    · rw [← h2]; simp [he]
  | some a =>
    rw [hg] at h h1 h2
    obtain ⟨tok, he, hadm⟩ := h
    constructor
    · rw [← h1]; simp [he]
    · rw [← h2]; simp [he, hadm]

/-- the websocket connect handshake (`OnConnecting`: `Tokens.GetToken(event.Token)` when authentication is
    on) over the generated `GetToken`: connects exactly when the translated code returns a token
    (`C10_ws` through the refinement; this is what the driver's `tok ws` cross-checks) -/
theorem C10_ws_generated (s : Sys) (r : String → Res Tok) (hr : RepoSpec r s.store) (t : String)
    (hu : s.env.useAuth = true) :
    (∃ tok, Gen.AuthMw.tokenServiceGetToken ⟨s.env.admin, r⟩ t = .ok tok) ↔ wsConnect s.env s.store t = true := by
  rw [C10.C10_ws s t hu]
  exact (C10_auth_iff_generated s r hr t).1

/-- C10 "never after" over the generated code: a value that is neither the admin token nor in the table
    (e.g. after its revocation, `C10_never_after`) is answered 401 ErrInvalidAccessToken by the generated
    chain, on every route, without running the handler -/
theorem C10_rejected_generated (s : Sys) (r : String → Res Tok) (hr : RepoSpec r s.store)
    (handler : Ctx σ → Ctx σ) (admin : Bool) (c : Ctx σ) (t : String)
    (hu : s.env.useAuth = true) (hh : c.header "Authorization" = bearer t) (hs : ' ' ∉ t.toList)
    (hv : ¬ valid s.env.admin (C10.abs s) t) :
    serveChain s.env r handler admin c = c.abort (.bhs Gen.errInvalidAccessToken) := by
  have ha := (C10.C10_http s t hu hs).2 hv
  have hmw : middleware s.env s.store (c.header "Authorization") = .abort .invalidToken := by
    rw [hh]
    unfold authorize at ha
    cases hm : middleware s.env s.store (bearer t) with
    | abort w => rw [hm] at ha; simp at ha; rw [ha]
    | next cx => rw [hm] at ha; simp [requireAdmin] at ha
  exact AuthMw_abort s.env s.store r hr handler admin c .invalidToken hmw

/-! ### non-vacuity -/

def envOn : Env := ⟨"adm1n", true⟩
def st0 : Store := ["tokA", "tokB"]
def ctx0 (hdr : String) : Ctx Nat := { header := fun k => if k = "Authorization" then hdr else "", world := 0 }
def bump : Ctx Nat → Ctx Nat := fun c => { c with world := c.world + 1 }

example : RepoSpec (repoOf st0) st0 := repoOf_spec st0
example : (ctx0 "x").status = .running := rfl
example : Gen.AuthMw.parseAuthHeader (mwOf envOn (repoOf st0)) (ctx0 "Bearer tokA") = .ok "tokA" := by decide
example : Gen.AuthMw.parseAuthHeader (mwOf envOn (repoOf st0)) (ctx0 "bearer tokA") = .err (.bhs Gen.errInvalidAuthHeader) := by decide
example : Gen.AuthMw.parseAuthHeader (mwOf envOn (repoOf st0)) (ctx0 "Bearer tokA x") = .err (.bhs Gen.errInvalidAuthHeader) := by decide
example : Gen.AuthMw.parseAuthHeader (mwOf envOn (repoOf st0)) (ctx0 "") = .err (.bhs Gen.errMissingAuthHeader) := by decide
example : Gen.AuthMw.tokenServiceGetToken ⟨"adm1n", repoOf st0⟩ "adm1n" = .ok ⟨"adm1n", true⟩ := by decide
example : Gen.AuthMw.tokenServiceGetToken ⟨"adm1n", repoOf st0⟩ "tokB" = .ok ⟨"tokB", false⟩ := by decide
example : (serveChain envOn (repoOf st0) bump false (ctx0 "Bearer tokA")).world = 1 := by decide
example : (serveChain envOn (repoOf st0) bump false (ctx0 "Bearer tokC")).world = 0 := by decide
example : (serveChain envOn (repoOf st0) bump false (ctx0 "Bearer tokC")).status = .aborted (.bhs Gen.errInvalidAccessToken) := by decide
example : (serveChain envOn (repoOf st0) bump true (ctx0 "Bearer tokA")).status = .aborted (.bhs Gen.errUnauthorized) := by decide
example : (serveChain envOn (repoOf st0) bump true (ctx0 "Bearer adm1n")).world = 1 := by decide
example : (serveChain ⟨"adm1n", false⟩ (repoOf st0) bump true (ctx0 "garbage")).world = 1 := by decide
example : ¬ validCred envOn st0 ((ctx0 "Bearer tokC").header "Authorization") := by
  rintro ⟨t, h, _, hv⟩
  have : t = "tokC" := by
    have := congrArg String.toList h
    simp [ctx0, bearer, String.toList_append] at this
    exact String.toList_inj.1 this.symm
  subst this
  revert hv; decide

end BHS.Props.AuthMw
