/-
C06 — sync converges on the best chain peers offer.

Models: M-Sync (BHS/Model/Sync.lean, the default engine as a state machine over the chain model), M-Node
(BHS/Model/Node.lean: the conformant node's answer to getheaders, and `rounds`, the closed loop engine × node in the
request/response abstraction). Both are compared with the real code on every run (harness/cmd/drive/c06_*.go): per
event the requests (locator, stop hash), disconnects and bans, at the end the table.

LIVENESS IS PROVED IN THE REQUEST/RESPONSE ABSTRACTION: a round = "the node answers the outstanding request, the engine
handles the answer". Goroutine scheduling, sockets and timers are not in the model; the rig exercises them.

Proved for ALL chains, caps, checkpoint lists, initial prefixes, random picks:
  * `C06_linear`     closed loop on a linear chain: from New + the first peer, after at most
                     ⌈missing / cap⌉ + |checkpoints| + 1 rounds the loop is quiescent and the table is exactly the node's chain with its last header as the tip —
                     any cap ≥ 1, any ascending checkpoint list the chain contains, checkpoints enabled or disabled,
                     initial store = genesis or any prefix;
  * `C06_checkpoint_cursor` + `C06_cursor_round`  throughout that loop nextCheckpoint is the first checkpoint above the tip
                     height (none when there is none); `C06_checkpoint_cursor_counterexample`: NOT so for arbitrary event
                     sequences (a reply that crosses two checkpoints leaves the cursor below the tip);
  * `C06_peer_loss`  losing the sync peer with other never-asked, connected candidates at or above our height selects
                     one of them and sends it the request the cursor calls for;
  * `C06_announce`   an inv of an unknown block from a peer the manager listens to produces
                     getheaders(locator(tip), 0) to that peer THROUGH the duplicate filter.
Three defects this check found are REPAIRED in /repo (8573612 F4a, f49151a F4b, 0b0b1e1 F4d); the model follows them
through the three switches of Model/Sync.lean (all `true` = the code as it is now), their witnesses run first on every
check, and the theorems below are at full strength for the repaired code:
  * `C06_linear` holds with checkpoints enabled AND disabled (`C06_disabled_mode`: New leaves headersFirstMode set);
  * `C06_announce_after_answer`: once a headers message from the peer has been handled, an inv of an unknown block DOES
    produce getheaders(locator(tip), 0) — the duplicate filter was cleared by that message;
  * `C06_tick_keeps_passed_peer`: the watchdog keeps a sync peer we are at or ahead of.
Two findings remain (KNOWN_FINDINGS C06-F4c, C06-X1); `C06_tick_keeps_exhausted_peer` states F4c for all states.
`C06_unrequested_headers` and `C06_announce_filtered` describe rules that are still in the code (headers outside
headers-first mode disconnect their sender; a repeat of a still unanswered request is dropped).
-/
import BHS.Props.C01
import BHS.Model.Sync
import BHS.Model.Node
import BHS.Proofs.SyncLinear

set_option linter.unusedSectionVars false

namespace BHS.Props.C06
open BHS BHS.Chain BHS.Sync
variable {H : Type} [DecidableEq H]

/-! ### linear catch-up -/

/-- FULL STATEMENT (since /repo 8573612 also for `disable_checkpoints = true`).
    Closed loop engine × conformant node over a linear chain `C = done ++ rest` of new, clean, positive-work headers on
    the genesis row `g`, the table holding `done`: after New and the announcement of the peer (advertising height |C|)
    one request is out, and after at most ⌈|rest| / cap⌉ + |checkpoints| + 1 rounds the loop is quiescent with the table
    synced to `C` (every round is a full reply, or ends on a checkpoint, or brings the last missing header; one more
    round for the empty answer). -/
theorem C06_linear (cfg : Sync.Cfg H) (g : Row H) (C : List (Src H)) (n : Node H) (p pick : Nat)
    (hs : LinSetup cfg g C n) (hg : g.st = .lc) (hg0 : g.height = 0) (done rest : List (Src H)) (hsplit : C = done ++ rest) :
    ∃ req k st',
      (newPeer cfg (new cfg (run cfg.chain [g] done)) p true (C.length : Int) pick).2 = [.getheaders p req.1 req.2] ∧
      k ≤ (rest.length + n.cap - 1) / n.cap + cfg.checkpoints.length + 1 ∧
      rounds cfg n p k ((newPeer cfg (new cfg (run cfg.chain [g] done)) p true (C.length : Int) pick).1, some req) = (st', none) ∧
      SyncedTo cfg.chain g C st'.store := by
  have hsub : ∀ x ∈ done, x ∈ C := fun x hx => by rw [hsplit]; exact List.mem_append_left _ hx
  have hl : Linked cfg.chain.hashOf g.hash done := linked_prefix _ done rest _ (hsplit ▸ hs.linked)
  have hn : (g.hash :: done.map cfg.chain.hashOf).Nodup := by
    have hsubl : List.Sublist (g.hash :: done.map cfg.chain.hashOf) (g.hash :: C.map cfg.chain.hashOf) := by
      rw [hsplit, List.map_append]
      exact List.Sublist.cons_cons _ (List.sublist_append_left _ _)
    exact List.Nodup.sublist hsubl hs.nodup
  obtain ⟨t0, htop, hth, hthash, hmap⟩ := run_linear cfg.chain g done hg hl hn (fun x hx => hs.clean x (hsub x hx))
    (fun x hx => hs.work x (hsub x hx))
  rw [hg0, Nat.zero_add] at hth
  obtain ⟨req, hact, hinv⟩ := lin_start hs p pick done rest hsplit _ t0 htop hth hthash hmap (Or.inr rfl)
  obtain ⟨k, st', hk, hr, hsync⟩ := lin_rounds_tight hs _ _ done rest req rfl hinv
  have := potential_le cfg n.cap rest.length done.length
  exact ⟨req, k, st', hact, by omega, hr, hsync⟩

/-- throughout linear catch-up the cursor is the first checkpoint above the tip height: a member of the list above the
    tip, the lowest such — and `none` only when no checkpoint lies above the tip -/
theorem C06_checkpoint_cursor (cfg : Sync.Cfg H) (g : Row H) (C : List (Src H)) (n : Node H) (p : Nat) (st : State H)
    (done rest : List (Src H)) (req : List H × H) (hs : LinSetup cfg g C n) (hi : LinInv cfg g C p st done rest req)
    (hen : cfg.disableCp = false) :
    (∀ c, st.nextCp = some c → c ∈ cfg.checkpoints ∧ Sync.tipHeight st.store < c.1 ∧
        ∀ d ∈ cfg.checkpoints, Sync.tipHeight st.store < d.1 → c.1 ≤ d.1) ∧
    (st.nextCp = none → ∀ d ∈ cfg.checkpoints, d.1 ≤ Sync.tipHeight st.store) := by
  obtain ⟨t, _, htop, hth, _⟩ := hi.core
  have htip : Sync.tipHeight st.store = done.length := by rw [htop.tipHeight_eq, hth]
  have hcur : st.nextCp = findNext cfg.checkpoints done.length := by
    rw [hi.cursor]; unfold cursorOf; rw [hen]; rfl
  rw [htip, hcur]
  exact findNext_spec cfg.checkpoints hs.asc done.length

/-- … and every round re-establishes it: the node's answer is a non-empty batch of at most `cap` next headers, all of
    them are stored, exactly one new request goes out, and the round invariant (hence `C06_checkpoint_cursor`) holds
    again for the longer stored prefix -/
theorem C06_cursor_round (cfg : Sync.Cfg H) (g : Row H) (C : List (Src H)) (n : Node H) (p : Nat) (st : State H)
    (done rest : List (Src H)) (req : List H × H) (hs : LinSetup cfg g C n) (hi : LinInv cfg g C p st done rest req)
    (hne : rest ≠ []) :
    ∃ B rest' req', rest = B ++ rest' ∧ B ≠ [] ∧ B.length ≤ n.cap ∧
      (B.length = n.cap ∨ rest' = [] ∨ ∃ c, st.nextCp = some c ∧ (done ++ B).length = c.1) ∧
      reply cfg.chain.hashOf n req.1 req.2 = B ∧
      (handleHeaders cfg st p B).2 = [.getheaders p req'.1 req'.2] ∧
      LinInv cfg g C p (handleHeaders cfg st p B).1 (done ++ B) rest' req' :=
  lin_round hs hi hne

/-! ### checkpoints disabled (former finding F4a, repaired by 8573612) -/

/-- outside headers-first mode every headers message from a connected, known peer is "unrequested": the peer is
    disconnected and nothing is stored (the rule that made F4a fatal; `C06_disabled_mode` shows the mode is now set) -/
theorem C06_unrequested_headers (cfg : Sync.Cfg H) (st : State H) (p : Nat) (q : PeerSt H) (hs : List (Src H))
    (hq : lookup st.peers p = some q) (hin : q.inMap = true) (hd : q.disc = false) (hf : st.headersFirst = false) :
    (handleHeaders cfg st p hs).2 = [.disconnect p] ∧ (handleHeaders cfg st p hs).1.store = st.store := by
  have hq1 : lookup (onHeadersReceived st.peers p) p = some (headersSeen q) := lookup_onHeadersReceived hq
  obtain ⟨_, ha⟩ := disconnectPeer_connected hq1 (by rw [headersSeen_disc]; exact hd)
  unfold handleHeaders handleHeadersCore
  simp only [hq1]
  simp only [headersSeen_inMap, hin, hf, Bool.not_true, Bool.not_false, Bool.false_eq_true, if_false, if_true]
  refine ⟨?_, ?_⟩ <;> first | exact ha | rfl | trivial

/-- New with checkpoints disabled leaves headersFirstMode SET (8573612), and startSync keeps it -/
theorem C06_disabled_mode (cfg : Sync.Cfg H) (store : Store H) (p pick : Nat) (lb : Int) (hd : cfg.disableCp = true)
    (hlb : (Sync.tipHeight store : Int) ≤ lb) :
    (newPeer cfg (new cfg store) p true lb pick).1.headersFirst = true := by
  have hnp : newPeer cfg (new cfg store) p true lb pick =
      startSync cfg { peers := [freshPeer p lb], syncPeer := none, headersFirst := newHeadersFirst cfg store, nextCp := cursorOf cfg (Sync.tipHeight store), store := store } pick := by
    rw [new_eq]
    unfold newPeer
    simp [Sync.insert, lookup, freshPeer]
  rw [hnp, startSync_single cfg p pick _ _ _ _ hlb]
  have hc : cursorOf cfg (Sync.tipHeight store) = none := by unfold cursorOf; rw [hd]; rfl
  rw [hc]
  simp only []
  unfold newHeadersFirst
  rw [hd]; rfl

/-! ### peer loss -/

/-- the sync peer is lost while every other candidate in the peer table is connected, was never asked, and advertises a
    height at or above ours (and there is one): a new sync peer is chosen among them and gets the request the cursor
    calls for — getheaders(locator(tip), next checkpoint's hash) below the cursor, getheaders(locator(tip), 0) otherwise -/
theorem C06_peer_loss (cfg : Sync.Cfg H) (st : State H) (p pick : Nat) (q : PeerSt H)
    (hq : lookup st.peers p = some q) (hin : q.inMap = true) (hsync : st.syncPeer = some p)
    (hothers : ∀ r ∈ update st.peers { q with inMap := false, disc := true }, r.inMap = true → r.candidate = true →
        r.disc = false ∧ r.prevStop = none ∧ (Sync.tipHeight st.store : Int) ≤ r.lastBlock)
    (hex : ∃ r ∈ update st.peers { q with inMap := false, disc := true }, r.inMap = true ∧ r.candidate = true) :
    ∃ r ∈ update st.peers { q with inMap := false, disc := true }, r.inMap = true ∧ r.candidate = true ∧
      (donePeer cfg st p pick).1.syncPeer = some r.id ∧
      (donePeer cfg st p pick).2 = [.getheaders r.id (locator st.store)
        (match st.nextCp with | some c => if Sync.tipHeight st.store < c.1 then c.2 else cfg.zero | none => cfg.zero)] := by
  obtain ⟨hqm, hqid⟩ := lookup_mem hq
  -- the state after the peer has been taken out of the map
  let ps := update st.peers { q with inMap := false, disc := true }
  have hlook : lookup ps p = some { q with inMap := false, disc := true } := lookup_update hq rfl
  have hdisc : disconnectPeer ps p = (ps, []) := by
    unfold disconnectPeer
    rw [hlook]
    rfl
  -- candidates of startSync
  let st1 : State H := { st with peers := ps, syncPeer := none }
  have hcne : syncCandidates st1 ≠ [] := by
    obtain ⟨r, hr, hrin, hrc⟩ := hex
    obtain ⟨_, _, hrlb⟩ := hothers r hr hrin hrc
    unfold syncCandidates
    by_cases hb : (bestPeers st1).isEmpty = true
    · rw [if_pos hb]
      have hnb : ¬ (r.lastBlock > (Sync.tipHeight st.store : Int)) := by
        intro hgt
        have : r ∈ bestPeers st1 := by
          unfold bestPeers
          exact List.mem_filter.2 ⟨hr, by simp [hrin, hrc, st1, hgt]⟩
        rw [List.isEmpty_iff.1 hb] at this
        cases this
      have : r ∈ okPeers st1 := by
        unfold okPeers
        refine List.mem_filter.2 ⟨hr, ?_⟩
        have : r.lastBlock = (Sync.tipHeight st.store : Int) := by omega
        simp [hrin, hrc, st1, this]
      exact List.ne_nil_of_mem this
    · rw [if_neg hb]
      intro he
      rw [he] at hb
      exact hb rfl
  have hlen : 0 < (syncCandidates st1).length := List.length_pos_iff.2 hcne
  have hidx : pick % (syncCandidates st1).length < (syncCandidates st1).length := Nat.mod_lt _ hlen
  obtain ⟨bp, hbp⟩ : ∃ bp, (syncCandidates st1)[pick % (syncCandidates st1).length]? = some bp :=
    ⟨_, List.getElem?_eq_getElem hidx⟩
  have hbpm : bp ∈ syncCandidates st1 := List.mem_of_getElem? hbp
  have hbpps : bp ∈ ps := syncCandidates_mem hbpm
  have hbpf : bp.inMap = true ∧ bp.candidate = true := by
    unfold syncCandidates at hbpm
    split at hbpm
    · have := (List.mem_filter.1 hbpm).2
      simp only [Bool.and_eq_true] at this
      exact ⟨this.1.1, this.1.2⟩
    · have := (List.mem_filter.1 hbpm).2
      simp only [Bool.and_eq_true] at this
      exact ⟨this.1.1, this.1.2⟩
  obtain ⟨hbd, hbs, _⟩ := hothers bp hbpps hbpf.1 hbpf.2
  have hpush : ∀ loc stop, pushGetHeaders bp loc stop =
      ({ bp with prevBegin := loc.head?, prevStop := some stop }, [Action.getheaders bp.id loc stop]) := by
    intro loc stop
    unfold pushGetHeaders
    simp [hbs, hbd]
  refine ⟨bp, hbpps, hbpf.1, hbpf.2, ?_⟩
  unfold donePeer
  rw [hq]
  simp only [hin, Bool.not_true, Bool.false_eq_true, if_false, hsync, if_true]
  unfold updateSyncPeer
  simp only []
  rw [show disconnectPeer (update st.peers { q with inMap := false, disc := true }) p = (ps, []) from hdisc]
  simp only [List.nil_append]
  show (startSync cfg st1 pick).1.syncPeer = some bp.id ∧ (startSync cfg st1 pick).2 = _
  unfold startSync
  simp only [st1, Option.isSome_none, Bool.false_eq_true, if_false]
  rw [show (syncCandidates { st with peers := ps, syncPeer := none })[pick %
      (syncCandidates { st with peers := ps, syncPeer := none }).length]? = some bp from hbp]
  simp only []
  cases hnc : st.nextCp with
  | none => simp only [hpush]; exact ⟨by first | rfl | trivial, by first | rfl | trivial⟩
  | some c =>
    simp only []
    by_cases hk : Sync.tipHeight st.store < c.1
    · simp only [hk, if_true, hpush]; exact ⟨by first | rfl | trivial, by first | rfl | trivial⟩
    · simp only [hk, if_false, hpush]; exact ⟨by first | rfl | trivial, by first | rfl | trivial⟩

/-! ### announcements (former finding F4b, repaired by f49151a) -/

/-- an inv whose last block is unknown, from a peer the manager listens to (the sync peer, or any peer while current):
    the manager calls PushGetHeadersMsg(locator(tip), 0) on that peer — what goes out is decided by the peer's
    back-to-back duplicate filter -/
theorem C06_announce (cfg : Sync.Cfg H) (st : State H) (p : Nat) (q : PeerSt H) (invs : List (Bool × H)) (h : H) (cur : Bool)
    (hq : lookup st.peers p = some q) (hin : q.inMap = true) (hne : invs.isEmpty = false)
    (hlast : lastBlockInv invs = some h) (hunk : byHash st.store h = none) (hcur : current cfg st = some cur)
    (hlisten : st.syncPeer = some p ∨ cur = true) :
    (handleInv cfg st p invs).2 = (pushGetHeaders q (locator st.store) cfg.zero).2 := by
  unfold handleInv
  rw [hq]
  simp only [hne, hin, hlast, hcur, hunk, Bool.not_true, Bool.false_eq_true, if_false, Option.isSome_some, Bool.or_true, if_true]
  have hp : (pushTo st p (locator st.store) cfg.zero).2 = (pushGetHeaders q (locator st.store) cfg.zero).2 := by
    unfold pushTo; rw [hq]
  rcases hlisten with hs | hc
  · simp only [hs, decide_true, Bool.not_true, Bool.false_and, Bool.false_eq_true, if_false]
    cases cur <;> simp [hp]
  · subst hc
    simp [hp]

/-- the filter itself: when the peer object still holds getheaders(locator(tip), 0) as its last request, the repeat is
    dropped. Before f49151a every completed sync ended in that state and announcements produced nothing (F4b); now a
    headers message clears the filter, so this state means "the request is still unanswered" — see
    `C06_announce_after_answer` -/
theorem C06_announce_filtered (cfg : Sync.Cfg H) (st : State H) (p : Nat) (q : PeerSt H) (invs : List (Bool × H)) (h : H)
    (cur : Bool) (b : H) (hq : lookup st.peers p = some q) (hin : q.inMap = true) (hne : invs.isEmpty = false)
    (hlast : lastBlockInv invs = some h) (hunk : byHash st.store h = none) (hcur : current cfg st = some cur)
    (hlisten : st.syncPeer = some p ∨ cur = true)
    (hb : (locator st.store).head? = some b) (hpb : q.prevBegin = some b) (hps : q.prevStop = some cfg.zero) :
    (handleInv cfg st p invs).2 = [] := by
  rw [C06_announce cfg st p q invs h cur hq hin hne hlast hunk hcur hlisten]
  unfold pushGetHeaders
  simp [hb, hpb, hps]

/-- the announcement is followed up whenever the filter holds anything else -/
theorem C06_announce_partial (cfg : Sync.Cfg H) (st : State H) (p : Nat) (q : PeerSt H) (invs : List (Bool × H)) (h : H)
    (cur : Bool) (hq : lookup st.peers p = some q) (hin : q.inMap = true) (hd : q.disc = false) (hne : invs.isEmpty = false)
    (hlast : lastBlockInv invs = some h) (hunk : byHash st.store h = none) (hcur : current cfg st = some cur)
    (hlisten : st.syncPeer = some p ∨ cur = true)
    (hfilter : q.prevStop ≠ some cfg.zero ∨ q.prevBegin ≠ (locator st.store).head?) :
    (handleInv cfg st p invs).2 = [.getheaders p (locator st.store) cfg.zero] := by
  obtain ⟨_, hid⟩ := lookup_mem hq
  rw [C06_announce cfg st p q invs h cur hq hin hne hlast hunk hcur hlisten]
  unfold pushGetHeaders
  rcases hfilter with hf | hf
  · simp [hf, hd, hid]
  · simp [hf, hd, hid]


/-- FULL STRENGTH (F4b repaired): once ANY headers message from the peer has been handled without a new request going
    out to it — in particular the empty answer that ends a sync — an inv of an unknown block from that peer (while the
    manager listens to it) produces exactly getheaders(locator(tip), 0), whatever the last request was -/
theorem C06_announce_after_answer (cfg : Sync.Cfg H) (st : State H) (p : Nat) (q : PeerSt H) (invs : List (Bool × H)) (h : H)
    (cur : Bool) (hq : lookup st.peers p = some q) (hin : q.inMap = true) (hd : q.disc = false)
    (hf : st.headersFirst = true) (hne : invs.isEmpty = false) (hlast : lastBlockInv invs = some h)
    (hunk : byHash st.store h = none)
    (hcur : current cfg (handleHeaders cfg st p []).1 = some cur)
    (hlisten : st.syncPeer = some p ∨ cur = true) :
    (handleHeaders cfg st p []).2 = [] ∧
    (handleInv cfg (handleHeaders cfg st p []).1 p invs).2 = [.getheaders p (locator st.store) cfg.zero] := by
  have hq1 : lookup (onHeadersReceived st.peers p) p = some (headersSeen q) := lookup_onHeadersReceived hq
  have hh : handleHeaders cfg st p [] = ({ st with peers := onHeadersReceived st.peers p }, []) := by
    unfold handleHeaders handleHeadersCore
    simp only [hq1]
    simp [headersSeen_inMap, hin, hf]
  rw [hh] at hcur ⊢
  refine ⟨rfl, ?_⟩
  have hseen : (headersSeen q).prevStop = none := by
    unfold headersSeen; simp [f4bFixed]
  exact C06_announce_partial cfg { st with peers := onHeadersReceived st.peers p } p (headersSeen q) invs h cur hq1
    (by rw [headersSeen_inMap]; exact hin) (by rw [headersSeen_disc]; exact hd) hne hlast hunk hcur hlisten
    (Or.inl (by rw [hseen]; intro e; cases e))

/-! ### the sync-peer watchdog (finding F4c; former finding F4d, repaired by 0b0b1e1) -/

/-- (F4c, for ALL states) handleCheckSyncPeer never replaces a sync peer whose advertised / announced height equals our
    tip height — however many other candidates advertise more -/
theorem C06_tick_keeps_exhausted_peer (cfg : Sync.Cfg H) (st : State H) (sp pick : Nat) (q : PeerSt H) (best : Row H)
    (stale : Bool) (hs : st.syncPeer = some sp) (hq : lookup st.peers sp = some q) (ht : getTip st.store = some best)
    (heq : max q.lastBlock q.startHeight = (best.height : Int)) :
    tick cfg st stale pick = (st, []) := by
  have hex : exhausted q best.height = true := by
    unfold exhausted
    split
    · exact decide_eq_true (by omega)
    · exact decide_eq_true heq
  unfold tick
  rw [hs]
  cases stale with
  | false => rfl
  | true => simp only [Bool.not_true, Bool.false_eq_true, if_false, ht, hq, hex, if_true]

/-- FULL STRENGTH (F4d repaired, 0b0b1e1): the watchdog keeps a sync peer whose advertised / announced height we have
    reached OR PASSED — it no longer disconnects an up-to-date peer once a block it announced has been fetched -/
theorem C06_tick_keeps_passed_peer (cfg : Sync.Cfg H) (st : State H) (sp pick : Nat) (q : PeerSt H) (best : Row H)
    (stale : Bool) (hs : st.syncPeer = some sp) (hq : lookup st.peers sp = some q) (ht : getTip st.store = some best)
    (hle : max q.lastBlock q.startHeight ≤ (best.height : Int)) :
    tick cfg st stale pick = (st, []) := by
  have hex : exhausted q best.height = true := by
    unfold exhausted
    simp only [f4dFixed, if_true]
    exact decide_eq_true hle
  unfold tick
  rw [hs]
  cases stale with
  | false => rfl
  | true => simp only [Bool.not_true, Bool.false_eq_true, if_false, ht, hq, hex, if_true]

/-- … and still replaces one that is behind what it advertised: the stale tick disconnects it and looks for another -/
theorem C06_tick_drops_lagging_peer (cfg : Sync.Cfg H) (st : State H) (sp pick : Nat) (q : PeerSt H) (best : Row H)
    (hs : st.syncPeer = some sp) (hq : lookup st.peers sp = some q) (ht : getTip st.store = some best)
    (hgt : (best.height : Int) < max q.lastBlock q.startHeight) (hin : q.inMap = true) (hd : q.disc = false) :
    ∃ rest, (tick cfg st true pick).2 = .disconnect sp :: rest := by
  have hex : exhausted q best.height = false := by
    unfold exhausted
    split
    · exact decide_eq_false (by omega)
    · exact decide_eq_false (by omega)
  obtain ⟨_, ha⟩ := disconnectPeer_connected hq hd
  unfold tick
  rw [hs]
  simp only [Bool.not_true, Bool.false_eq_true, if_false, ht, hq, hex, hin]
  unfold updateSyncPeer
  rw [hs]
  simp only [ha]
  exact ⟨_, rfl⟩

/-! ### non-vacuity and the remaining counterexample: a concrete chain over `H := Nat` (toy hash `nonce + 1`) -/

/-- four headers on C01's root (hash 1000): hashes 11, 12, 13, 14 at heights 1..4 -/
def exChain : List (Src Nat) := [C01.exSrc 1000 10, C01.exSrc 11 11, C01.exSrc 12 12, C01.exSrc 13 13]

def exCfg (disabled : Bool) : Sync.Cfg Nat :=
  { chain := C01.exCfg, zero := 0, checkpoints := [(2, 12), (4, 14)], disableCp := disabled, now := 100 }

def exNode (cap : Nat) : Node Nat := { genesis := 1000, chain := exChain, cap := cap }

theorem exSetup (disabled : Bool) (cap : Nat) (hc : 1 ≤ cap) : LinSetup (exCfg disabled) C01.exRoot exChain (exNode cap) where
  gen := rfl
  chain := rfl
  cap := hc
  linked := by cases disabled <;> (unfold exChain Linked Linked Linked Linked Linked; decide)
  nodup := by cases disabled <;> decide
  clean := by cases disabled <;> decide
  work := by decide
  zeroFresh := by cases disabled <;> decide
  asc := by cases disabled <;> (unfold Asc; decide)
  consistent := by
    intro c hc
    simp only [exCfg, List.mem_cons, List.mem_nil_iff, or_false] at hc
    rcases hc with rfl | rfl
    · exact ⟨[C01.exSrc 1000 10], C01.exSrc 11 11, [C01.exSrc 12 12, C01.exSrc 13 13], rfl, rfl, rfl⟩
    · exact ⟨[C01.exSrc 1000 10, C01.exSrc 11 11, C01.exSrc 12 12], C01.exSrc 13 13, [], rfl, rfl, rfl⟩

example : C01.exRoot.st = .lc ∧ C01.exRoot.height = 0 := ⟨rfl, rfl⟩

/-- the closed loop of the example, cap 3, genesis-only table: requests (G → cp 12), ([12] → cp 14), (locator → 0), then
    the empty answer: quiescent after 4 rounds with hash 14 as the tip -/
example : (rounds (exCfg false) (exNode 3) 7 4
    ((newPeer (exCfg false) (new (exCfg false) [C01.exRoot]) 7 true 4 0).1, some ([1000], 12))).2 = none ∧
    ((rounds (exCfg false) (exNode 3) 7 4
      ((newPeer (exCfg false) (new (exCfg false) [C01.exRoot]) 7 true 4 0).1, some ([1000], 12))).1.store.map (·.hash)) =
      [1000, 11, 12, 13, 14] := by decide

/-- F4b repaired, on the example: after the sync above the peer announces an unknown block (hash 555) by inv: the request
    getheaders(locator(tip), 0) goes out although it equals the last, answered one -/
example : (handleInv (exCfg false) (rounds (exCfg false) (exNode 3) 7 4
      ((newPeer (exCfg false) (new (exCfg false) [C01.exRoot]) 7 true 4 0).1, some ([1000], 12))).1 7 [(true, 555)]).2 =
    [.getheaders 7 [14, 13, 12, 11, 1000] 0] := by decide

/-- checkpoints disabled (8573612): the same loop asks without stop hash, cap 3: two full replies and the empty answer -/
example : (newPeer (exCfg true) (new (exCfg true) [C01.exRoot]) 7 true 4 0).2 = [.getheaders 7 [1000] 0] ∧
    (rounds (exCfg true) (exNode 3) 7 3
      ((newPeer (exCfg true) (new (exCfg true) [C01.exRoot]) 7 true 4 0).1, some ([1000], 0))).2 = none ∧
    ((rounds (exCfg true) (exNode 3) 7 3
      ((newPeer (exCfg true) (new (exCfg true) [C01.exRoot]) 7 true 4 0).1, some ([1000], 0))).1.store.map (·.hash)) =
      [1000, 11, 12, 13, 14] := by decide

/-- for arbitrary event sequences the cursor is NOT always the first checkpoint above the tip. Checkpoints at heights
    1 and 2; a headers message with the headers of heights 1, 2, 3 (a conformant answer to a request WITHOUT stop hash,
    which handleInvMsg and startSync do send below the checkpoints): the loop compares with the cursor (height 1) only,
    the header at height 2 is not compared at all, afterwards the cursor moves to the checkpoint of height 2 — below the
    tip, which stands at height 3. (The follow-up request getheaders([cp 1], cp 2) is answered with known headers and
    the manager stops asking: oracle signature c07-checkpoint-contradiction-stored-before-check / C06 free-running
    traces show the same stale cursor.) -/
theorem C06_checkpoint_cursor_counterexample :
    let cfg : Sync.Cfg Nat := { chain := C01.exCfg, zero := 0, checkpoints := [(1, 11), (2, 12)], disableCp := false, now := 100 }
    let st0 := (newPeer cfg (new cfg [C01.exRoot]) 7 true 4 0).1
    let st1 := (handleHeaders cfg st0 7 [C01.exSrc 1000 10, C01.exSrc 11 11, C01.exSrc 12 12]).1
    st1.nextCp = some (2, 12) ∧ Sync.tipHeight st1.store = 3 := by
  decide

example : ∃ b, (locator [C01.exRoot]).head? = some b := ⟨1000, by decide⟩

end BHS.Props.C06
