/-
C06 — sync converges on the best chain peers offer.

Models: M-Sync (BHS/Model/Sync.lean, the default engine as a state machine over the chain model), M-Node
(BHS/Model/Node.lean: the conformant node's answer to getheaders, and `rounds`, the closed loop engine × node in the
request/response abstraction). Both are compared with the real code on every run (harness/cmd/drive/c06_*.go): per
event the requests (locator, stop hash), disconnects and bans, at the end the table.

LIVENESS IS PROVED IN THE REQUEST/RESPONSE ABSTRACTION: a round = "the node answers the outstanding request, the engine
handles the answer". Goroutine scheduling, sockets and timers are not in the model; the rig exercises them.

Proved for ALL chains, caps, checkpoint lists, initial prefixes, random picks:
  * `C06_linear`     closed loop on a linear chain: from New + the first peer, after at most
                     ⌈missing / cap⌉ + |checkpoints| + 1 rounds the loop is quiescent and the table is exactly the node's chain with its last header as the tip —
                     any cap ≥ 1, any ascending checkpoint list the chain contains, checkpoints enabled or disabled,
                     initial store = genesis or any prefix;
  * `C06_checkpoint_cursor` + `C06_cursor_round`  throughout that loop nextCheckpoint is the first checkpoint above the tip
                     height (none when there is none); `C06_checkpoint_cursor_counterexample`: NOT so for arbitrary event
                     sequences (a reply that crosses two checkpoints leaves the cursor below the tip);
  * `C06_peer_loss`  losing the sync peer with other never-asked, connected candidates at or above our height selects
                     one of them and sends it the request the cursor calls for;
  * `C06_announce`   an inv of an unknown block from a peer the manager listens to produces
                     getheaders(locator(tip), 0) to that peer THROUGH the duplicate filter.
Three defects this check found are REPAIRED in /repo (8573612 F4a, f49151a F4b, 0b0b1e1 F4d); the model follows them
through the three switches of Model/Sync.lean (all `true` = the code as it is now), their witnesses run first on every
check, and the theorems below are at full strength for the repaired code:
  * `C06_linear` holds with checkpoints enabled AND disabled (`C06_disabled_mode`: New leaves headersFirstMode set);
  * `C06_announce_after_answer`: once a headers message from the peer has been handled, an inv of an unknown block DOES
    produce getheaders(locator(tip), 0) — the duplicate filter was cleared by that message;
  * `C06_tick_keeps_passed_peer`: the watchdog keeps a sync peer we are at or ahead of.
Forks and several peers (Proofs/SyncFork.lean, Proofs/SyncMulti.lean):
  * `C06_fork`       ANY table satisfying C01's invariant, no checkpoint ahead, the node's answer "one reply that suffices"
                     (decidable `OneReplySuffices`: known headers, then a linked, new, clean, positive-work branch on a
                     connected row, ending with the node's tip, heavier than every other connected row): quiescent after
                     two rounds, tip = node's tip, the branch LONGEST_CHAIN, labelling canonical (C01_inv_canon);
  * `C06_no_lc_header_stops` / `_quiet`  the complement, for all states: no header of a batch on the longest chain
                     (decidable `NoLcHeader`) ⇒ no getheaders at all, sync peer kept, tip unchanged;
  * `C06_any_choice`, `C06_first_peer_any_order`, `C06_late_announcement`  whichever conformant candidate startSync
                     picks, and whatever is announced afterwards in whatever order, the loop ends synced to the chosen
                     node's chain (`C06_linear_from_any_round`);
  * `C06_peer_loss_any_round`  the sync peer lost at ANY round with a pool of conformant candidates whose chains extend
                     what is stored: for every pick one of them takes over and the loop ends synced to ITS chain;
  * `C06_stalled_peer_replaced`  the same when the sync peer never answers and the watchdog tick + its done message
                     remove it — provided it advertised more than we hold (otherwise finding C06-F4c);
  * `C06_pool_stable`, `C06_pool_of_announcements`  those hypotheses survive every headers message of the sync peer and
                     arise from announcements of conformant nodes.
Three findings remain (KNOWN_FINDINGS C06-F4c, C06-F5, C06-X1; `C06_overlapping_requests_counterexample` exhibits F5 on the model); `C06_tick_keeps_exhausted_peer` states F4c for all states.
`C06_unrequested_headers` and `C06_announce_filtered` describe rules that are still in the code (headers outside
headers-first mode disconnect their sender; a repeat of a still unanswered request is dropped).
-/
import BHS.Props.C01
import BHS.Model.Sync
import BHS.Model.Node
import BHS.Proofs.SyncLinear
import BHS.Proofs.SyncMulti
import BHS.Proofs.SyncFork

set_option linter.unusedSectionVars false

namespace BHS.Props.C06
open BHS BHS.Chain BHS.Sync
variable {H : Type} [DecidableEq H]

/-! ### linear catch-up -/

/-- FULL STATEMENT (since /repo 8573612 also for `disable_checkpoints = true`).
    Closed loop engine × conformant node over a linear chain `C = done ++ rest` of new, clean, positive-work headers on
    the genesis row `g`, the table holding `done`: after New and the announcement of the peer (advertising height |C|)
    one request is out, and after at most ⌈|rest| / cap⌉ + |checkpoints| + 1 rounds the loop is quiescent with the table
    synced to `C` (every round is a full reply, or ends on a checkpoint, or brings the last missing header; one more
    round for the empty answer). -/
theorem C06_linear (cfg : Sync.Cfg H) (g : Row H) (C : List (Src H)) (n : Node H) (p pick : Nat)
    (hs : LinSetup cfg g C n) (hg : g.st = .lc) (hg0 : g.height = 0) (done rest : List (Src H)) (hsplit : C = done ++ rest) :
    ∃ req k st',
      (newPeer cfg (new cfg (run cfg.chain [g] done)) p true (C.length : Int) pick).2 = [.getheaders p req.1 req.2] ∧
      k ≤ (rest.length + n.cap - 1) / n.cap + cfg.checkpoints.length + 1 ∧
      rounds cfg n p k ((newPeer cfg (new cfg (run cfg.chain [g] done)) p true (C.length : Int) pick).1, some req) = (st', none) ∧
      SyncedTo cfg.chain g C st'.store := by
  have hsub : ∀ x ∈ done, x ∈ C := fun x hx => by rw [hsplit]; exact List.mem_append_left _ hx
  have hl : Linked cfg.chain.hashOf g.hash done := linked_prefix _ done rest _ (hsplit ▸ hs.linked)
  have hn : (g.hash :: done.map cfg.chain.hashOf).Nodup := by
    have hsubl : List.Sublist (g.hash :: done.map cfg.chain.hashOf) (g.hash :: C.map cfg.chain.hashOf) := by
      rw [hsplit, List.map_append]
      exact List.Sublist.cons_cons _ (List.sublist_append_left _ _)
    exact List.Nodup.sublist hsubl hs.nodup
  obtain ⟨t0, htop, hth, hthash, hmap⟩ := run_linear cfg.chain g done hg hl hn (fun x hx => hs.clean x (hsub x hx))
    (fun x hx => hs.work x (hsub x hx))
  rw [hg0, Nat.zero_add] at hth
  obtain ⟨req, hact, hinv⟩ := lin_start hs p pick done rest hsplit _ t0 htop hth hthash hmap (Or.inr rfl)
  obtain ⟨k, st', hk, hr, hsync⟩ := lin_rounds_tight hs _ _ done rest req rfl hinv
  have := potential_le cfg n.cap rest.length done.length
  exact ⟨req, k, st', hact, by omega, hr, hsync⟩

/-- throughout linear catch-up the cursor is the first checkpoint above the tip height: a member of the list above the
    tip, the lowest such — and `none` only when no checkpoint lies above the tip -/
theorem C06_checkpoint_cursor (cfg : Sync.Cfg H) (g : Row H) (C : List (Src H)) (n : Node H) (p : Nat) (st : State H)
    (done rest : List (Src H)) (req : List H × H) (hs : LinSetup cfg g C n) (hi : LinInv cfg g C p st done rest req)
    (hen : cfg.disableCp = false) :
    (∀ c, st.nextCp = some c → c ∈ cfg.checkpoints ∧ Sync.tipHeight st.store < c.1 ∧
        ∀ d ∈ cfg.checkpoints, Sync.tipHeight st.store < d.1 → c.1 ≤ d.1) ∧
    (st.nextCp = none → ∀ d ∈ cfg.checkpoints, d.1 ≤ Sync.tipHeight st.store) := by
  obtain ⟨t, _, htop, hth, _⟩ := hi.core
  have htip : Sync.tipHeight st.store = done.length := by rw [htop.tipHeight_eq, hth]
  have hcur : st.nextCp = findNext cfg.checkpoints done.length := by
    rw [hi.cursor]; unfold cursorOf; rw [hen]; rfl
  rw [htip, hcur]
  exact findNext_spec cfg.checkpoints hs.asc done.length

/-- … and every round re-establishes it: the node's answer is a non-empty batch of at most `cap` next headers, all of
    them are stored, exactly one new request goes out, and the round invariant (hence `C06_checkpoint_cursor`) holds
    again for the longer stored prefix -/
theorem C06_cursor_round (cfg : Sync.Cfg H) (g : Row H) (C : List (Src H)) (n : Node H) (p : Nat) (st : State H)
    (done rest : List (Src H)) (req : List H × H) (hs : LinSetup cfg g C n) (hi : LinInv cfg g C p st done rest req)
    (hne : rest ≠ []) :
    ∃ B rest' req', rest = B ++ rest' ∧ B ≠ [] ∧ B.length ≤ n.cap ∧
      (B.length = n.cap ∨ rest' = [] ∨ ∃ c, st.nextCp = some c ∧ (done ++ B).length = c.1) ∧
      reply cfg.chain.hashOf n req.1 req.2 = B ∧
      (handleHeaders cfg st p B).2 = [.getheaders p req'.1 req'.2] ∧
      LinInv cfg g C p (handleHeaders cfg st p B).1 (done ++ B) rest' req' :=
  lin_round hs hi hne

/-! ### checkpoints disabled (former finding F4a, repaired by 8573612) -/

/-- outside headers-first mode every headers message from a connected, known peer is "unrequested": the peer is
    disconnected and nothing is stored (the rule that made F4a fatal; `C06_disabled_mode` shows the mode is now set) -/
theorem C06_unrequested_headers (cfg : Sync.Cfg H) (st : State H) (p : Nat) (q : PeerSt H) (hs : List (Src H))
    (hq : lookup st.peers p = some q) (hin : q.inMap = true) (hd : q.disc = false) (hf : st.headersFirst = false) :
    (handleHeaders cfg st p hs).2 = [.disconnect p] ∧ (handleHeaders cfg st p hs).1.store = st.store := by
  have hq1 : lookup (onHeadersReceived st.peers p) p = some (headersSeen q) := lookup_onHeadersReceived hq
  obtain ⟨_, ha⟩ := disconnectPeer_connected hq1 (by rw [headersSeen_disc]; exact hd)
  unfold handleHeaders handleHeadersCore
  simp only [hq1]
  simp only [headersSeen_inMap, hin, hf, Bool.not_true, Bool.not_false, Bool.false_eq_true, if_false, if_true]
  refine ⟨?_, ?_⟩ <;> first | exact ha | rfl | trivial

/-- New with checkpoints disabled leaves headersFirstMode SET (8573612), and startSync keeps it -/
theorem C06_disabled_mode (cfg : Sync.Cfg H) (store : Store H) (p pick : Nat) (lb : Int) (hd : cfg.disableCp = true)
    (hlb : (Sync.tipHeight store : Int) ≤ lb) :
    (newPeer cfg (new cfg store) p true lb pick).1.headersFirst = true := by
  have hnp : newPeer cfg (new cfg store) p true lb pick =
      startSync cfg { peers := [freshPeer p lb], syncPeer := none, headersFirst := newHeadersFirst cfg store, nextCp := cursorOf cfg (Sync.tipHeight store), store := store } pick := by
    rw [new_eq]
    unfold newPeer
    simp [Sync.insert, lookup, freshPeer]
  rw [hnp, startSync_single cfg p pick _ _ _ _ hlb]
  have hc : cursorOf cfg (Sync.tipHeight store) = none := by unfold cursorOf; rw [hd]; rfl
  rw [hc]
  simp only []
  unfold newHeadersFirst
  rw [hd]; rfl

/-! ### peer loss -/

/-- the sync peer is lost while every other candidate in the peer table is connected, was never asked, and advertises a
    height at or above ours (and there is one): a new sync peer is chosen among them and gets the request the cursor
    calls for — getheaders(locator(tip), next checkpoint's hash) below the cursor, getheaders(locator(tip), 0) otherwise -/
theorem C06_peer_loss (cfg : Sync.Cfg H) (st : State H) (p pick : Nat) (q : PeerSt H)
    (hq : lookup st.peers p = some q) (hin : q.inMap = true) (hsync : st.syncPeer = some p)
    (hothers : ∀ r ∈ update st.peers { q with inMap := false, disc := true }, r.inMap = true → r.candidate = true →
        r.disc = false ∧ r.prevStop = none ∧ (Sync.tipHeight st.store : Int) ≤ r.lastBlock)
    (hex : ∃ r ∈ update st.peers { q with inMap := false, disc := true }, r.inMap = true ∧ r.candidate = true) :
    ∃ r ∈ update st.peers { q with inMap := false, disc := true }, r.inMap = true ∧ r.candidate = true ∧
      (donePeer cfg st p pick).1.syncPeer = some r.id ∧
      (donePeer cfg st p pick).2 = [.getheaders r.id (locator st.store)
        (match st.nextCp with | some c => if Sync.tipHeight st.store < c.1 then c.2 else cfg.zero | none => cfg.zero)] := by
  obtain ⟨hqm, hqid⟩ := lookup_mem hq
  -- the state after the peer has been taken out of the map
  let ps := update st.peers { q with inMap := false, disc := true }
  have hlook : lookup ps p = some { q with inMap := false, disc := true } := lookup_update hq rfl
  have hdisc : disconnectPeer ps p = (ps, []) := by
    unfold disconnectPeer
    rw [hlook]
    rfl
  -- candidates of startSync
  let st1 : State H := { st with peers := ps, syncPeer := none }
  have hcne : syncCandidates st1 ≠ [] := by
    obtain ⟨r, hr, hrin, hrc⟩ := hex
    obtain ⟨_, _, hrlb⟩ := hothers r hr hrin hrc
    unfold syncCandidates
    by_cases hb : (bestPeers st1).isEmpty = true
    · rw [if_pos hb]
      have hnb : ¬ (r.lastBlock > (Sync.tipHeight st.store : Int)) := by
        intro hgt
        have : r ∈ bestPeers st1 := by
          unfold bestPeers
          exact List.mem_filter.2 ⟨hr, by simp [hrin, hrc, st1, hgt]⟩
        rw [List.isEmpty_iff.1 hb] at this
        cases this
      have : r ∈ okPeers st1 := by
        unfold okPeers
        refine List.mem_filter.2 ⟨hr, ?_⟩
        have : r.lastBlock = (Sync.tipHeight st.store : Int) := by omega
        simp [hrin, hrc, st1, this]
      exact List.ne_nil_of_mem this
    · rw [if_neg hb]
      intro he
      rw [he] at hb
      exact hb rfl
  have hlen : 0 < (syncCandidates st1).length := List.length_pos_iff.2 hcne
  have hidx : pick % (syncCandidates st1).length < (syncCandidates st1).length := Nat.mod_lt _ hlen
  obtain ⟨bp, hbp⟩ : ∃ bp, (syncCandidates st1)[pick % (syncCandidates st1).length]? = some bp :=
    ⟨_, List.getElem?_eq_getElem hidx⟩
  have hbpm : bp ∈ syncCandidates st1 := List.mem_of_getElem? hbp
  have hbpps : bp ∈ ps := syncCandidates_mem hbpm
  have hbpf : bp.inMap = true ∧ bp.candidate = true := by
    unfold syncCandidates at hbpm
    split at hbpm
    · have := (List.mem_filter.1 hbpm).2
      simp only [Bool.and_eq_true] at this
      exact ⟨this.1.1, this.1.2⟩
    · have := (List.mem_filter.1 hbpm).2
      simp only [Bool.and_eq_true] at this
      exact ⟨this.1.1, this.1.2⟩
  obtain ⟨hbd, hbs, _⟩ := hothers bp hbpps hbpf.1 hbpf.2
  have hpush : ∀ loc stop, pushGetHeaders bp loc stop =
      ({ bp with prevBegin := loc.head?, prevStop := some stop }, [Action.getheaders bp.id loc stop]) := by
    intro loc stop
    unfold pushGetHeaders
    simp [hbs, hbd]
  refine ⟨bp, hbpps, hbpf.1, hbpf.2, ?_⟩
  unfold donePeer
  rw [hq]
  simp only [hin, Bool.not_true, Bool.false_eq_true, if_false, hsync, if_true]
  unfold updateSyncPeer
  simp only []
  rw [show disconnectPeer (update st.peers { q with inMap := false, disc := true }) p = (ps, []) from hdisc]
  simp only [List.nil_append]
  show (startSync cfg st1 pick).1.syncPeer = some bp.id ∧ (startSync cfg st1 pick).2 = _
  unfold startSync
  simp only [st1, Option.isSome_none, Bool.false_eq_true, if_false]
  rw [show (syncCandidates { st with peers := ps, syncPeer := none })[pick %
      (syncCandidates { st with peers := ps, syncPeer := none }).length]? = some bp from hbp]
  simp only []
  cases hnc : st.nextCp with
  | none => simp only [hpush]; exact ⟨by first | rfl | trivial, by first | rfl | trivial⟩
  | some c =>
    simp only []
    by_cases hk : Sync.tipHeight st.store < c.1
    · simp only [hk, if_true, hpush]; exact ⟨by first | rfl | trivial, by first | rfl | trivial⟩
    · simp only [hk, if_false, hpush]; exact ⟨by first | rfl | trivial, by first | rfl | trivial⟩

/-! ### announcements (former finding F4b, repaired by f49151a) -/

/-- an inv whose last block is unknown, from a peer the manager listens to (the sync peer, or any peer while current):
    the manager calls PushGetHeadersMsg(locator(tip), 0) on that peer — what goes out is decided by the peer's
    back-to-back duplicate filter -/
theorem C06_announce (cfg : Sync.Cfg H) (st : State H) (p : Nat) (q : PeerSt H) (invs : List (Bool × H)) (h : H) (cur : Bool)
    (hq : lookup st.peers p = some q) (hin : q.inMap = true) (hne : invs.isEmpty = false)
    (hlast : lastBlockInv invs = some h) (hunk : byHash st.store h = none) (hcur : current cfg st = some cur)
    (hlisten : st.syncPeer = some p ∨ cur = true) :
    (handleInv cfg st p invs).2 = (pushGetHeaders q (locator st.store) cfg.zero).2 := by
  unfold handleInv
  rw [hq]
  simp only [hne, hin, hlast, hcur, hunk, Bool.not_true, Bool.false_eq_true, if_false, Option.isSome_some, Bool.or_true, if_true]
  have hp : (pushTo st p (locator st.store) cfg.zero).2 = (pushGetHeaders q (locator st.store) cfg.zero).2 := by
    unfold pushTo; rw [hq]
  rcases hlisten with hs | hc
  · simp only [hs, decide_true, Bool.not_true, Bool.false_and, Bool.false_eq_true, if_false]
    cases cur <;> simp [hp]
  · subst hc
    simp [hp]

/-- the filter itself: when the peer object still holds getheaders(locator(tip), 0) as its last request, the repeat is
    dropped. Before f49151a every completed sync ended in that state and announcements produced nothing (F4b); now a
    headers message clears the filter, so this state means "the request is still unanswered" — see
    `C06_announce_after_answer` -/
theorem C06_announce_filtered (cfg : Sync.Cfg H) (st : State H) (p : Nat) (q : PeerSt H) (invs : List (Bool × H)) (h : H)
    (cur : Bool) (b : H) (hq : lookup st.peers p = some q) (hin : q.inMap = true) (hne : invs.isEmpty = false)
    (hlast : lastBlockInv invs = some h) (hunk : byHash st.store h = none) (hcur : current cfg st = some cur)
    (hlisten : st.syncPeer = some p ∨ cur = true)
    (hb : (locator st.store).head? = some b) (hpb : q.prevBegin = some b) (hps : q.prevStop = some cfg.zero) :
    (handleInv cfg st p invs).2 = [] := by
  rw [C06_announce cfg st p q invs h cur hq hin hne hlast hunk hcur hlisten]
  unfold pushGetHeaders
  simp [hb, hpb, hps]

/-- the announcement is followed up whenever the filter holds anything else -/
theorem C06_announce_partial (cfg : Sync.Cfg H) (st : State H) (p : Nat) (q : PeerSt H) (invs : List (Bool × H)) (h : H)
    (cur : Bool) (hq : lookup st.peers p = some q) (hin : q.inMap = true) (hd : q.disc = false) (hne : invs.isEmpty = false)
    (hlast : lastBlockInv invs = some h) (hunk : byHash st.store h = none) (hcur : current cfg st = some cur)
    (hlisten : st.syncPeer = some p ∨ cur = true)
    (hfilter : q.prevStop ≠ some cfg.zero ∨ q.prevBegin ≠ (locator st.store).head?) :
    (handleInv cfg st p invs).2 = [.getheaders p (locator st.store) cfg.zero] := by
  obtain ⟨_, hid⟩ := lookup_mem hq
  rw [C06_announce cfg st p q invs h cur hq hin hne hlast hunk hcur hlisten]
  unfold pushGetHeaders
  rcases hfilter with hf | hf
  · simp [hf, hd, hid]
  · simp [hf, hd, hid]


/-- FULL STRENGTH (F4b repaired): once ANY headers message from the peer has been handled without a new request going
    out to it — in particular the empty answer that ends a sync — an inv of an unknown block from that peer (while the
    manager listens to it) produces exactly getheaders(locator(tip), 0), whatever the last request was -/
theorem C06_announce_after_answer (cfg : Sync.Cfg H) (st : State H) (p : Nat) (q : PeerSt H) (invs : List (Bool × H)) (h : H)
    (cur : Bool) (hq : lookup st.peers p = some q) (hin : q.inMap = true) (hd : q.disc = false)
    (hf : st.headersFirst = true) (hne : invs.isEmpty = false) (hlast : lastBlockInv invs = some h)
    (hunk : byHash st.store h = none)
    (hcur : current cfg (handleHeaders cfg st p []).1 = some cur)
    (hlisten : st.syncPeer = some p ∨ cur = true) :
    (handleHeaders cfg st p []).2 = [] ∧
    (handleInv cfg (handleHeaders cfg st p []).1 p invs).2 = [.getheaders p (locator st.store) cfg.zero] := by
  have hq1 : lookup (onHeadersReceived st.peers p) p = some (headersSeen q) := lookup_onHeadersReceived hq
  have hh : handleHeaders cfg st p [] = ({ st with peers := onHeadersReceived st.peers p }, []) := by
    unfold handleHeaders handleHeadersCore
    simp only [hq1]
    simp [headersSeen_inMap, hin, hf]
  rw [hh] at hcur ⊢
  refine ⟨rfl, ?_⟩
  have hseen : (headersSeen q).prevStop = none := by
    unfold headersSeen; simp [f4bFixed]
  exact C06_announce_partial cfg { st with peers := onHeadersReceived st.peers p } p (headersSeen q) invs h cur hq1
    (by rw [headersSeen_inMap]; exact hin) (by rw [headersSeen_disc]; exact hd) hne hlast hunk hcur hlisten
    (Or.inl (by rw [hseen]; intro e; cases e))

/-! ### the sync-peer watchdog (finding F4c; former finding F4d, repaired by 0b0b1e1) -/

/-- (F4c, for ALL states) handleCheckSyncPeer never replaces a sync peer whose advertised / announced height equals our
    tip height — however many other candidates advertise more -/
theorem C06_tick_keeps_exhausted_peer (cfg : Sync.Cfg H) (st : State H) (sp pick : Nat) (q : PeerSt H) (best : Row H)
    (stale : Bool) (hs : st.syncPeer = some sp) (hq : lookup st.peers sp = some q) (ht : getTip st.store = some best)
    (heq : max q.lastBlock q.startHeight = (best.height : Int)) :
    tick cfg st stale pick = (st, []) := by
  have hex : exhausted q best.height = true := by
    unfold exhausted
    split
    · exact decide_eq_true (by omega)
    · exact decide_eq_true heq
  unfold tick
  rw [hs]
  cases stale with
  | false => rfl
  | true => simp only [Bool.not_true, Bool.false_eq_true, if_false, ht, hq, hex, if_true]

/-- FULL STRENGTH (F4d repaired, 0b0b1e1): the watchdog keeps a sync peer whose advertised / announced height we have
    reached OR PASSED — it no longer disconnects an up-to-date peer once a block it announced has been fetched -/
theorem C06_tick_keeps_passed_peer (cfg : Sync.Cfg H) (st : State H) (sp pick : Nat) (q : PeerSt H) (best : Row H)
    (stale : Bool) (hs : st.syncPeer = some sp) (hq : lookup st.peers sp = some q) (ht : getTip st.store = some best)
    (hle : max q.lastBlock q.startHeight ≤ (best.height : Int)) :
    tick cfg st stale pick = (st, []) := by
  have hex : exhausted q best.height = true := by
    unfold exhausted
    simp only [f4dFixed, if_true]
    exact decide_eq_true hle
  unfold tick
  rw [hs]
  cases stale with
  | false => rfl
  | true => simp only [Bool.not_true, Bool.false_eq_true, if_false, ht, hq, hex, if_true]

/-- … and still replaces one that is behind what it advertised: the stale tick disconnects it and looks for another -/
theorem C06_tick_drops_lagging_peer (cfg : Sync.Cfg H) (st : State H) (sp pick : Nat) (q : PeerSt H) (best : Row H)
    (hs : st.syncPeer = some sp) (hq : lookup st.peers sp = some q) (ht : getTip st.store = some best)
    (hgt : (best.height : Int) < max q.lastBlock q.startHeight) (hin : q.inMap = true) (hd : q.disc = false) :
    ∃ rest, (tick cfg st true pick).2 = .disconnect sp :: rest := by
  have hex : exhausted q best.height = false := by
    unfold exhausted
    split
    · exact decide_eq_false (by omega)
    · exact decide_eq_false (by omega)
  obtain ⟨_, ha⟩ := disconnectPeer_connected hq hd
  unfold tick
  rw [hs]
  simp only [Bool.not_true, Bool.false_eq_true, if_false, ht, hq, hex, hin]
  unfold updateSyncPeer
  rw [hs]
  simp only [ha]
  exact ⟨_, rfl⟩

/-! ### the closed loop from any round -/

/-- FROM ANY ROUND of a linear catch-up (the round invariant `LinInv` holds: `done` stored as one chain, the request
    `req` out to the sync peer `p`): the closed loop with the node is quiescent after at most
    ⌈|rest| / cap⌉ + |checkpoints| + 1 more rounds, the table synced to the node's chain -/
theorem C06_linear_from_any_round (cfg : Sync.Cfg H) (g : Row H) (C : List (Src H)) (n : Node H) (p : Nat) (st : State H)
    (done rest : List (Src H)) (req : List H × H) (hs : LinSetup cfg g C n) (hi : LinInv cfg g C p st done rest req) :
    ∃ k st', k ≤ (rest.length + n.cap - 1) / n.cap + cfg.checkpoints.length + 1 ∧
      rounds cfg n p k (st, some req) = (st', none) ∧ SyncedTo cfg.chain g C st'.store := by
  obtain ⟨k, st', hk, hr, hsync⟩ := lin_rounds_tight hs _ _ done rest req rfl hi
  have := potential_le cfg n.cap rest.length done.length
  exact ⟨k, st', by omega, hr, hsync⟩

/-! ### a competing fork -/

/-- C06_fork, FULL STATEMENT for "one reply suffices". The table is ANY store satisfying C01's invariant (a prefix, a
    stale fork, several branches, orphans …) with the root row on a previous-hash `z` nobody hashes to; the peer `p` is
    connected and in the map, the engine is in headers-first mode with no checkpoint ahead, `req` is the outstanding
    request. If the node's answer to `req` is "one reply that suffices" — `OneReplySuffices cfg st n req a`, a DECIDABLE
    predicate (Proofs/SyncFork.lean): headers the table has, then a non-empty run that hangs linked on a connected row
    `a` of the table, is new, clean, of positive work, ends with the node's tip and carries MORE cumulative work than
    every other connected row — then the closed loop is quiescent after TWO rounds (the reply, then the node's empty
    answer to the follow-up request), and
      * the table is the old table with the reply ingested (`run`), every old row still there (hash, parent, rowid),
      * the reported tip is the node's tip, LONGEST_CHAIN, with cumulative work `a.cum + Σ work(branch)`,
      * every header of the adopted branch is LONGEST_CHAIN,
      * C01's invariant holds, hence (C01_inv_canon) the labelling is canonical: LONGEST_CHAIN is exactly the
        parent-linked path from that tip back to the root, everything else connected is STALE,
      * and when the node's chain is linked from its genesis and its headers below the branch are rows of the table
        (same hash and parent), EVERY header of the node's best chain is LONGEST_CHAIN.
    `hnode`: the node's chain has distinct hashes different from its genesis hash. -/
theorem C06_fork (cfg : Sync.Cfg H) (z : H) (hz : ∀ y, cfg.chain.hashOf y ≠ z) (st : State H) (n : Node H) (p : Nat)
    (q : PeerSt H) (req : List H × H) (a : Row H) (hinv : Inv cfg.chain st.store)
    (hroot : ∃ g ∈ st.store, g.id = 0 ∧ g.prev = z) (hq : lookup st.peers p = some q) (hin : q.inMap = true)
    (hd : q.disc = false) (hf : st.headersFirst = true) (hcp : st.nextCp = none)
    (hnode : (n.genesis :: n.chain.map cfg.chain.hashOf).Nodup)
    (hone : OneReplySuffices cfg st n req a) :
    ∃ st', rounds cfg n p 2 (st, some req) = (st', none) ∧
      st'.store = run cfg.chain st.store (reply cfg.chain.hashOf n req.1 req.2) ∧
      (∃ t, getTip st'.store = some t ∧ t.hash = lastHash cfg.chain.hashOf n.genesis n.chain ∧ t.st = .lc ∧
        t.cum = cumAlong a.cum (forkNews cfg st n req)) ∧
      Inv cfg.chain st'.store ∧ Canon st'.store ∧
      (∀ x ∈ forkNews cfg st n req, ∃ r ∈ st'.store, r.hash = cfg.chain.hashOf x ∧ r.st = .lc) ∧
      (∀ b ∈ st.store, ∃ b' ∈ st'.store, b'.hash = b.hash ∧ b'.prev = b.prev ∧ b'.id = b.id) ∧
      (Linked cfg.chain.hashOf n.genesis n.chain →
        (∀ x ∈ n.chain, x ∉ forkNews cfg st n req →
          ∃ r ∈ st.store, r.hash = cfg.chain.hashOf x ∧ r.prev = x.prev ∧ r.id ≠ 0) →
        ∀ x ∈ n.chain, ∃ r ∈ st'.store, r.hash = cfg.chain.hashOf x ∧ r.st = .lc) := by
  obtain ⟨st', h1, h2, h3, h4, h5, h6, h7⟩ := fork_closed cfg z hz st n p q req a hinv hroot hq hin hd hf hcp hnode hone
  exact ⟨st', h1, h2, h3, h4, C01.C01_inv_canon cfg.chain st'.store h4, h5, h6, h7⟩

/-- THE COMPLEMENT, for ALL states and ALL batches (any cursor; forbidden headers and checkpoint contradictions
    included): when no header of a headers message lands on the longest chain — `NoLcHeader`, DECIDABLE: each header is a
    duplicate, refused, an orphan, or stored STALE because its branch does not carry more work than the tip's — the
    manager sends NO getheaders to anybody (it stops asking that peer) and keeps its sync peer. This is the rule behind
    the second half of finding C07-R1 (a branch that only ties within one reply is never completed). -/
theorem C06_no_lc_header_stops (cfg : Sync.Cfg H) (st : State H) (p : Nat) (hs : List (Src H))
    (hno : NoLcHeader cfg.chain st.store hs) :
    (∀ a ∈ (handleHeaders cfg st p hs).2, ∀ p' loc stop, a ≠ Action.getheaders p' loc stop) ∧
      (handleHeaders cfg st p hs).1.syncPeer = st.syncPeer :=
  no_lc_no_request cfg st p hs hno

/-- … and for a clean batch with no checkpoint ahead (the answer of a conformant node with a lighter or tying branch):
    the batch is ingested, NOTHING is sent, the reported tip, the sync peer and the cursor are what they were -/
theorem C06_no_lc_header_quiet (cfg : Sync.Cfg H) (st : State H) (p : Nat) (q : PeerSt H) (hs : List (Src H))
    (hq : lookup st.peers p = some q) (hin : q.inMap = true) (hf : st.headersFirst = true) (hcp : st.nextCp = none)
    (hclean : ∀ x ∈ hs, cfg.chain.hashOf x ∉ cfg.chain.forbidden) (hno : NoLcHeader cfg.chain st.store hs) :
    (handleHeaders cfg st p hs).2 = [] ∧
      (handleHeaders cfg st p hs).1.store = run cfg.chain st.store hs ∧
      getTip (handleHeaders cfg st p hs).1.store = getTip st.store ∧
      (handleHeaders cfg st p hs).1.syncPeer = st.syncPeer ∧ (handleHeaders cfg st p hs).1.nextCp = st.nextCp :=
  no_lc_quiet cfg st p q hs hq hin hf hcp hclean hno

/-! ### several peers

`Pool cfg g C nodeOf ps p` (Proofs/SyncMulti.lean): the ids of the table `ps` are distinct, there is an entry other than
`p` that is in the map and a candidate, and EVERY such entry is connected, was never asked, belongs to a conformant node
`nodeOf id` (`LinSetup`) whose chain extends `C`, and advertised that chain's length. `StoreAt cfg g done st`: the table
is the one chain `g :: done`, headers-first mode, cursor = first checkpoint above the tip. `pool_of_announcements` shows
how a pool comes about (announcements of conformant nodes under new ids while a sync peer is at work). -/

/-- (a) WHICHEVER CANDIDATE IS CHOSEN. No sync peer, the table holds `done`, the peer table is a pool of conformant
    candidates whose chains extend `C = done ++ rest` (`p0`: any id not in the table — the pool predicate exempts one
    id). For EVERY pick startSync chooses one of them, sends it exactly one request, and the closed loop with THAT node
    is quiescent within ⌈missing / cap⌉ + |checkpoints| + 1 rounds, the table synced to ITS chain. -/
theorem C06_any_choice (cfg : Sync.Cfg H) (g : Row H) (C done rest : List (Src H)) (nodeOf : Nat → Node H) (st : State H)
    (p0 pick : Nat) (hC : C = done ++ rest) (hst : StoreAt cfg g done st) (hsync : st.syncPeer = none)
    (hp0 : p0 ∉ st.peers.map (·.id)) (pool : Pool cfg g C nodeOf st.peers p0) :
    ∃ r ∈ st.peers, ∃ ext req' k st', (nodeOf r.id).chain = C ++ ext ∧
      (startSync cfg st pick).2 = [.getheaders r.id req'.1 req'.2] ∧
      (startSync cfg st pick).1.syncPeer = some r.id ∧
      k ≤ ((rest ++ ext).length + (nodeOf r.id).cap - 1) / (nodeOf r.id).cap + cfg.checkpoints.length + 1 ∧
      rounds cfg (nodeOf r.id) r.id k ((startSync cfg st pick).1, some req') = (st', none) ∧
      SyncedTo cfg.chain g (nodeOf r.id).chain st'.store := by
  obtain ⟨r0, hr0, hne0, hin0, hc0⟩ := pool.some
  have hasc := (pool.fresh r0 hr0 hne0 hin0 hc0).2.2.2.1.asc
  have hnot : ∀ r ∈ st.peers, r.id ≠ p0 := fun r hr e => hp0 (List.mem_map.2 ⟨r, hr, e⟩)
  rcases resync cfg g C done rest nodeOf st p0 pick hasc hC hst hsync pool (fun r hr e => absurd e (hnot r hr)) with
    ⟨r, hr, _, ext, req', hext, hact, hsp, hinv, _, hsetup⟩ | ⟨_, _, _, _, _, r, hr, e, _⟩
  · obtain ⟨k, st', hk, hrounds, hsynced⟩ := C06_linear_from_any_round cfg g _ _ r.id _ done (rest ++ ext) req' hsetup hinv
    exact ⟨r, hr, ext, req', k, st', hext, hact, hsp, hk, hrounds, hsynced⟩
  · exact absurd e (hnot r hr)

/-- (a) ANY ORDER OF ANNOUNCEMENTS. `C06_linear` with any sequence `evs` of further announcements after the first
    candidate's — other ids (new or re-used), candidates or not, any advertised heights, any picks, any order: they send
    nothing, the first candidate stays the sync peer, and the closed loop with its node ends synced to its chain
    within the same bound. -/
theorem C06_first_peer_any_order (cfg : Sync.Cfg H) (g : Row H) (C : List (Src H)) (n : Node H) (p pick : Nat)
    (hs : LinSetup cfg g C n) (hg : g.st = .lc) (hg0 : g.height = 0) (done rest : List (Src H)) (hsplit : C = done ++ rest)
    (evs : List (Nat × Event H)) (hev : ∀ e ∈ evs, OtherAnnouncement p e.2) :
    ∃ req k st',
      (newPeer cfg (new cfg (run cfg.chain [g] done)) p true (C.length : Int) pick).2 = [.getheaders p req.1 req.2] ∧
      (runEvents cfg (newPeer cfg (new cfg (run cfg.chain [g] done)) p true (C.length : Int) pick).1 evs).2 = [] ∧
      (runEvents cfg (newPeer cfg (new cfg (run cfg.chain [g] done)) p true (C.length : Int) pick).1 evs).1.syncPeer = some p ∧
      k ≤ (rest.length + n.cap - 1) / n.cap + cfg.checkpoints.length + 1 ∧
      rounds cfg n p k
        ((runEvents cfg (newPeer cfg (new cfg (run cfg.chain [g] done)) p true (C.length : Int) pick).1 evs).1, some req) = (st', none) ∧
      SyncedTo cfg.chain g C st'.store := by
  have hsub : ∀ x ∈ done, x ∈ C := fun x hx => by rw [hsplit]; exact List.mem_append_left _ hx
  have hl : Linked cfg.chain.hashOf g.hash done := linked_prefix _ done rest _ (hsplit ▸ hs.linked)
  have hn : (g.hash :: done.map cfg.chain.hashOf).Nodup := by
    have hsubl : List.Sublist (g.hash :: done.map cfg.chain.hashOf) (g.hash :: C.map cfg.chain.hashOf) := by
      rw [hsplit, List.map_append]
      exact List.Sublist.cons_cons _ (List.sublist_append_left _ _)
    exact List.Nodup.sublist hsubl hs.nodup
  obtain ⟨t0, htop, hth, hthash, hmap⟩ := run_linear cfg.chain g done hg hl hn (fun x hx => hs.clean x (hsub x hx))
    (fun x hx => hs.work x (hsub x hx))
  rw [hg0, Nat.zero_add] at hth
  obtain ⟨req, hact, hinv⟩ := lin_start hs p pick done rest hsplit _ t0 htop hth hthash hmap (Or.inr rfl)
  have hlb : (Sync.tipHeight (run cfg.chain [g] done) : Int) ≤ (C.length : Int) := by
    rw [htop.tipHeight_eq, hth, hsplit, List.length_append]; omega
  obtain ⟨hsp, _⟩ := first_peer_table cfg (run cfg.chain [g] done) p pick (C.length : Int) hlb
  obtain ⟨a1, a2, _, a4⟩ := announcements_other cfg g C p done rest req evs _ hsp hev hinv
  obtain ⟨k, st', hk, hr, hsync⟩ := C06_linear_from_any_round cfg g C n p _ done rest req hs a4
  exact ⟨req, k, st', hact, a1, a2, hk, hr, hsync⟩

/-- (a) … also in the middle of the sync: at ANY round an announcement under another id sends nothing, leaves the sync
    peer and the round invariant (hence `C06_linear_from_any_round`) as they are -/
theorem C06_late_announcement (cfg : Sync.Cfg H) (g : Row H) (C : List (Src H)) (st : State H) (p p' : Nat) (c : Bool)
    (lb : Int) (pick : Nat) (done rest : List (Src H)) (req : List H × H) (hsync : st.syncPeer = some p) (hne : p' ≠ p)
    (hi : LinInv cfg g C p st done rest req) :
    (newPeer cfg st p' c lb pick).2 = [] ∧ (newPeer cfg st p' c lb pick).1.syncPeer = some p ∧
      (newPeer cfg st p' c lb pick).1.store = st.store ∧
      LinInv cfg g C p (newPeer cfg st p' c lb pick).1 done rest req :=
  newPeer_other cfg g C st p p' c lb pick done rest req hsync hne hi

/-- the hypotheses of (b) and (c) are stable under the rounds of the sync peer and come about by announcements: a
    headers message of `p` (any content) keeps the pool of the others and the sync peer; conformant nodes announced under
    new distinct ids while `p` is the sync peer form a pool (nothing is sent, see `C06_first_peer_any_order`) -/
theorem C06_pool_stable (cfg : Sync.Cfg H) (g : Row H) (C : List (Src H)) (nodeOf : Nat → Node H) (st : State H) (p : Nat)
    (hs : List (Src H)) (pool : Pool cfg g C nodeOf st.peers p) :
    Pool cfg g C nodeOf (handleHeaders cfg st p hs).1.peers p ∧ (handleHeaders cfg st p hs).1.syncPeer = st.syncPeer :=
  pool.handleHeaders hs

theorem C06_pool_of_announcements (cfg : Sync.Cfg H) (g : Row H) (C : List (Src H)) (nodeOf : Nat → Node H) (p : Nat)
    (anns : List (Nat × Nat)) (st : State H) (hne : anns ≠ []) (hsync : st.syncPeer = some p)
    (hp : st.peers.map (·.id) = [p]) (hnd : (p :: anns.map (·.1)).Nodup)
    (hconf : ∀ a ∈ anns, LinSetup cfg g (nodeOf a.1).chain (nodeOf a.1) ∧ ∃ ext, (nodeOf a.1).chain = C ++ ext) :
    Pool cfg g C nodeOf (runEvents cfg st (conformantAnnouncements nodeOf anns)).1.peers p := by
  refine pool_of_announcements cfg g C nodeOf p anns st hne hsync (by rw [hp]; exact List.mem_singleton.2 rfl)
    (by rw [hp]; exact hnd) ?_ hconf
  intro r hr hne'
  exact absurd (List.mem_singleton.1 (hp ▸ List.mem_map.2 ⟨r, hr, rfl⟩)) hne'

/-- (b) THE SYNC PEER IS LOST AT ANY ROUND (`LinInv`: any stored prefix `done` of its chain `C`, its request out): its
    done message arrives while the other candidates form a pool of conformant nodes whose chains extend WHAT IS STORED
    (the same chain, a longer one, or another continuation of the stored prefix). For EVERY pick one of them becomes the
    sync peer, gets exactly one request, and the closed loop with THAT node is quiescent within
    ⌈missing / cap⌉ + |checkpoints| + 1 rounds, the table synced to ITS chain. -/
theorem C06_peer_loss_any_round (cfg : Sync.Cfg H) (g : Row H) (C done rest : List (Src H)) (nodeOf : Nat → Node H)
    (st : State H) (p pick : Nat) (req : List H × H) (hi : LinInv cfg g C p st done rest req)
    (hsync : st.syncPeer = some p) (pool : Pool cfg g done nodeOf st.peers p) :
    ∃ r ∈ st.peers, r.id ≠ p ∧ ∃ ext req' k st', (nodeOf r.id).chain = done ++ ext ∧
      (donePeer cfg st p pick).2 = [.getheaders r.id req'.1 req'.2] ∧
      (donePeer cfg st p pick).1.syncPeer = some r.id ∧
      k ≤ (ext.length + (nodeOf r.id).cap - 1) / (nodeOf r.id).cap + cfg.checkpoints.length + 1 ∧
      rounds cfg (nodeOf r.id) r.id k ((donePeer cfg st p pick).1, some req') = (st', none) ∧
      SyncedTo cfg.chain g (nodeOf r.id).chain st'.store := by
  obtain ⟨r0, hr0, hne0, hin0, hc0⟩ := pool.some
  have hasc := (pool.fresh r0 hr0 hne0 hin0 hc0).2.2.2.1.asc
  obtain ⟨_, q, _, _, _, _, hq, hin, _⟩ := hi.core
  obtain ⟨r, hr, hne, ext, req', hext, hact, hsp, hinv, hsetup⟩ :=
    done_resync cfg g done done [] nodeOf st p pick q hasc (List.append_nil _).symm hi.storeAt hsync hq hin pool
  obtain ⟨k, st', hk, hrounds, hsynced⟩ := C06_linear_from_any_round cfg g _ _ r.id _ done ([] ++ ext) req' hsetup hinv
  exact ⟨r, hr, hne, ext, req', k, st', hext, hact, hsp, hk, hrounds, hsynced⟩

/-- (c) THE SYNC PEER STALLS at any round (it never answers `req`): the watchdog tick finds it stale, later its done
    message arrives. If it advertised MORE than the table holds (`hadv` — a peer that advertised exactly what we have is
    kept by the watchdog however many better candidates are connected: finding C06-F4c, `C06_tick_keeps_exhausted_peer`)
    and the other candidates form a pool of conformant nodes whose chains extend what is stored, then for EVERY pair of
    picks: the stalled peer is disconnected, exactly one request goes out — to one of those candidates — and the closed
    loop with THAT node is quiescent within ⌈missing / cap⌉ + |checkpoints| + 1 rounds, the table synced to ITS chain. -/
theorem C06_stalled_peer_replaced (cfg : Sync.Cfg H) (g : Row H) (C done rest : List (Src H)) (nodeOf : Nat → Node H)
    (st : State H) (p pick1 pick2 : Nat) (req : List H × H) (q : PeerSt H) (hi : LinInv cfg g C p st done rest req)
    (hsync : st.syncPeer = some p) (hq : lookup st.peers p = some q) (hadv : (done.length : Int) < q.lastBlock)
    (pool : Pool cfg g done nodeOf st.peers p) :
    ∃ r ∈ st.peers, r.id ≠ p ∧ ∃ ext req' k st', (nodeOf r.id).chain = done ++ ext ∧
      (tick cfg st true pick1).2 ++ (donePeer cfg (tick cfg st true pick1).1 p pick2).2 =
        [.disconnect p, .getheaders r.id req'.1 req'.2] ∧
      (donePeer cfg (tick cfg st true pick1).1 p pick2).1.syncPeer = some r.id ∧
      k ≤ (ext.length + (nodeOf r.id).cap - 1) / (nodeOf r.id).cap + cfg.checkpoints.length + 1 ∧
      rounds cfg (nodeOf r.id) r.id k ((donePeer cfg (tick cfg st true pick1).1 p pick2).1, some req') = (st', none) ∧
      SyncedTo cfg.chain g (nodeOf r.id).chain st'.store := by
  obtain ⟨r0, hr0, hne0, hin0, hc0⟩ := pool.some
  have hasc := (pool.fresh r0 hr0 hne0 hin0 hc0).2.2.2.1.asc
  have hi' : LinInv cfg g done p st done [] req := ⟨(List.append_nil _).symm, hi.hf, hi.cursor, hi.stop, hi.core⟩
  obtain ⟨r, hr, hne, ext, req', hext, hact, hsp, hinv, hsetup⟩ :=
    stall_resync cfg g done done [] nodeOf st p pick1 pick2 req q hasc hi' hsync hq hadv pool
  obtain ⟨k, st', hk, hrounds, hsynced⟩ := C06_linear_from_any_round cfg g _ _ r.id _ done ([] ++ ext) req' hsetup hinv
  exact ⟨r, hr, hne, ext, req', k, st', hext, hact, hsp, hk, hrounds, hsynced⟩

/-! ### non-vacuity and the remaining counterexample: a concrete chain over `H := Nat` (toy hash `nonce + 1`) -/

/-- four headers on C01's root (hash 1000): hashes 11, 12, 13, 14 at heights 1..4 -/
def exChain : List (Src Nat) := [C01.exSrc 1000 10, C01.exSrc 11 11, C01.exSrc 12 12, C01.exSrc 13 13]

def exCfg (disabled : Bool) : Sync.Cfg Nat :=
  { chain := C01.exCfg, zero := 0, checkpoints := [(2, 12), (4, 14)], disableCp := disabled, now := 100 }

def exNode (cap : Nat) : Node Nat := { genesis := 1000, chain := exChain, cap := cap }

theorem exSetup (disabled : Bool) (cap : Nat) (hc : 1 ≤ cap) : LinSetup (exCfg disabled) C01.exRoot exChain (exNode cap) where
  gen := rfl
  chain := rfl
  cap := hc
  linked := by cases disabled <;> (unfold exChain Linked Linked Linked Linked Linked; decide)
  nodup := by cases disabled <;> decide
  clean := by cases disabled <;> decide
  work := by decide
  zeroFresh := by cases disabled <;> decide
  asc := by cases disabled <;> (unfold Asc; decide)
  consistent := by
    intro c hc
    simp only [exCfg, List.mem_cons, List.mem_nil_iff, or_false] at hc
    rcases hc with rfl | rfl
    · exact ⟨[C01.exSrc 1000 10], C01.exSrc 11 11, [C01.exSrc 12 12, C01.exSrc 13 13], rfl, rfl, rfl⟩
    · exact ⟨[C01.exSrc 1000 10, C01.exSrc 11 11, C01.exSrc 12 12], C01.exSrc 13 13, [], rfl, rfl, rfl⟩

example : C01.exRoot.st = .lc ∧ C01.exRoot.height = 0 := ⟨rfl, rfl⟩

/-- the closed loop of the example, cap 3, genesis-only table: requests (G → cp 12), ([12] → cp 14), (locator → 0), then
    the empty answer: quiescent after 4 rounds with hash 14 as the tip -/
example : (rounds (exCfg false) (exNode 3) 7 4
    ((newPeer (exCfg false) (new (exCfg false) [C01.exRoot]) 7 true 4 0).1, some ([1000], 12))).2 = none ∧
    ((rounds (exCfg false) (exNode 3) 7 4
      ((newPeer (exCfg false) (new (exCfg false) [C01.exRoot]) 7 true 4 0).1, some ([1000], 12))).1.store.map (·.hash)) =
      [1000, 11, 12, 13, 14] := by decide

/-- F4b repaired, on the example: after the sync above the peer announces an unknown block (hash 555) by inv: the request
    getheaders(locator(tip), 0) goes out although it equals the last, answered one -/
example : (handleInv (exCfg false) (rounds (exCfg false) (exNode 3) 7 4
      ((newPeer (exCfg false) (new (exCfg false) [C01.exRoot]) 7 true 4 0).1, some ([1000], 12))).1 7 [(true, 555)]).2 =
    [.getheaders 7 [14, 13, 12, 11, 1000] 0] := by decide

/-- checkpoints disabled (8573612): the same loop asks without stop hash, cap 3: two full replies and the empty answer -/
example : (newPeer (exCfg true) (new (exCfg true) [C01.exRoot]) 7 true 4 0).2 = [.getheaders 7 [1000] 0] ∧
    (rounds (exCfg true) (exNode 3) 7 3
      ((newPeer (exCfg true) (new (exCfg true) [C01.exRoot]) 7 true 4 0).1, some ([1000], 0))).2 = none ∧
    ((rounds (exCfg true) (exNode 3) 7 3
      ((newPeer (exCfg true) (new (exCfg true) [C01.exRoot]) 7 true 4 0).1, some ([1000], 0))).1.store.map (·.hash)) =
      [1000, 11, 12, 13, 14] := by decide

/-- for arbitrary event sequences the cursor is NOT always the first checkpoint above the tip. Checkpoints at heights
    1 and 2; a headers message with the headers of heights 1, 2, 3 (a conformant answer to a request WITHOUT stop hash,
    which handleInvMsg and startSync do send below the checkpoints): the loop compares with the cursor (height 1) only,
    the header at height 2 is not compared at all, afterwards the cursor moves to the checkpoint of height 2 — below the
    tip, which stands at height 3. (The follow-up request getheaders([cp 1], cp 2) is answered with known headers and
    the manager stops asking: oracle signature c07-checkpoint-contradiction-stored-before-check / C06 free-running
    traces show the same stale cursor.) -/
theorem C06_checkpoint_cursor_counterexample :
    let cfg : Sync.Cfg Nat := { chain := C01.exCfg, zero := 0, checkpoints := [(1, 11), (2, 12)], disableCp := false, now := 100 }
    let st0 := (newPeer cfg (new cfg [C01.exRoot]) 7 true 4 0).1
    let st1 := (handleHeaders cfg st0 7 [C01.exSrc 1000 10, C01.exSrc 11 11, C01.exSrc 12 12]).1
    st1.nextCp = some (2, 12) ∧ Sync.tipHeight st1.store = 3 := by
  decide

example : ∃ b, (locator [C01.exRoot]).head? = some b := ⟨1000, by decide⟩

/-! ### finding C06-F5: an announcement in the middle of the initial sync ends it short -/

/-- nine headers on C01's root: hashes 11 … 19 -/
def exChain9 : List (Src Nat) := [C01.exSrc 1000 10, C01.exSrc 11 11, C01.exSrc 12 12, C01.exSrc 13 13, C01.exSrc 14 14,
  C01.exSrc 15 15, C01.exSrc 16 16, C01.exSrc 17 17, C01.exSrc 18 18]

/-- (finding C06-F5, KNOWN_FINDINGS) the closed loop is NOT robust against an inv of the sync peer while its sync request
    is unanswered. Checkpoints at heights 2, 3, 4; the node (nine headers, cap 5) is asked ([G] → cp 12); before it answers
    it announces its ninth block by inv: a SECOND request ([G] → 0) goes out to the same peer. The answer to the first
    (11, 12) moves the cursor to (3, 13) and asks ([12] → 13); the answer to the second (11 … 15) runs past the
    checkpoints of heights 3 and 4 (only the cursor's is compared), moves the cursor to (4, 14) and asks ([13] → 14).
    Both follow-up answers (13; 14) hold only stored headers: no longest-chain header, nothing more is requested
    (`C06_no_lc_header_stops`). The table ends at height 5 of the node's 9 (+1 announced) headers, the cursor stands
    BELOW the tip, and no request is outstanding. -/
theorem C06_overlapping_requests_counterexample :
    let cfg : Sync.Cfg Nat := { chain := C01.exCfg, zero := 0, checkpoints := [(2, 12), (3, 13), (4, 14)], disableCp := false, now := 100 }
    let n : Node Nat := { genesis := 1000, chain := exChain9, cap := 5 }
    let s0 := newPeer cfg (new cfg [C01.exRoot]) 7 true 8 0
    let s1 := handleInv cfg s0.1 7 [(true, 19)]
    let s2 := handleHeaders cfg s1.1 7 (reply cfg.chain.hashOf n [1000] 12)
    let s3 := handleHeaders cfg s2.1 7 (reply cfg.chain.hashOf n [1000] 0)
    let s4 := handleHeaders cfg s3.1 7 (reply cfg.chain.hashOf n [12] 13)
    let s5 := handleHeaders cfg s4.1 7 (reply cfg.chain.hashOf n [13] 14)
    s0.2 = [.getheaders 7 [1000] 12] ∧ s1.2 = [.getheaders 7 [1000] 0] ∧ s2.2 = [.getheaders 7 [12] 13] ∧
      s3.2 = [.getheaders 7 [13] 14] ∧ s4.2 = [] ∧ s5.2 = [] ∧
      s5.1.store.map (·.hash) = [1000, 11, 12, 13, 14, 15] ∧ s5.1.nextCp = some (4, 14) ∧ n.chain.length = 9 := by
  decide

/-! ### forks and several peers on concrete trees -/

def exForkCfg : Sync.Cfg Nat := { chain := C01.exCfg, zero := 0, checkpoints := [], disableCp := false, now := 100 }

/-- the node's best chain: a branch of three headers (hashes 21, 22, 23) on the root -/
def exForkNode : Node Nat := { genesis := 1000, chain := [C01.exSrc 1000 20, C01.exSrc 21 21, C01.exSrc 22 22], cap := 2000 }

/-- the table: root, then the branch 11, 12 (two headers: LONGEST_CHAIN) -/
def exForkStore : Store Nat := run C01.exCfg [C01.exRoot] [C01.exSrc 1000 10, C01.exSrc 11 11]

def exForkSt : State Nat := (newPeer exForkCfg (new exForkCfg exForkStore) 7 true 3 0).1

/-- `C06_fork` is not vacuous: the request is getheaders([12, 11, 1000], 0); the node finds only its genesis in the
    locator and answers with its whole branch, which hangs on the root and outweighs the stored branch … -/
example : (newPeer exForkCfg (new exForkCfg exForkStore) 7 true 3 0).2 = [.getheaders 7 [12, 11, 1000] 0] ∧
    OneReplySuffices exForkCfg exForkSt exForkNode ([12, 11, 1000], 0) C01.exRoot := by decide

/-- … and the two rounds of the theorem, computed: quiescent, the node's branch LONGEST_CHAIN, the old branch STALE -/
example : (rounds exForkCfg exForkNode 7 2 (exForkSt, some ([12, 11, 1000], 0))).2 = none ∧
    (rounds exForkCfg exForkNode 7 2 (exForkSt, some ([12, 11, 1000], 0))).1.store.map (fun r => (r.hash, r.st)) =
      [(1000, .lc), (11, .stale), (12, .stale), (21, .lc), (22, .lc), (23, .lc)] := by decide

/-- a table that already holds the first header of the node's branch as a STALE fork (root, 11, 21 stale, 12): the reply
    starts with that known header, the fork point `a` is its stale row, the two new headers outweigh the stored tip -/
def exForkStore2 : Store Nat := run C01.exCfg [C01.exRoot] [C01.exSrc 1000 10, C01.exSrc 1000 20, C01.exSrc 11 11]

def exForkSt2 : State Nat := (newPeer exForkCfg (new exForkCfg exForkStore2) 7 true 3 0).1

example : ∃ a ∈ exForkSt2.store, a.hash = 21 ∧ a.st = .stale ∧
    OneReplySuffices exForkCfg exForkSt2 exForkNode ([12, 11, 1000], 0) a := by decide

/-- the complement on a concrete tree: a node whose branch (21, 22) only TIES with the stored one (11, 12): no header of
    its answer lands on the longest chain, nothing is sent, the tip stays 12 — the table now holds the tying branch as
    STALE and this peer is not asked again (`C06_no_lc_header_stops`, `C06_no_lc_header_quiet`) -/
def exTieNode : Node Nat := { genesis := 1000, chain := [C01.exSrc 1000 20, C01.exSrc 21 21], cap := 2000 }

example : NoLcHeader C01.exCfg exForkSt.store (reply C01.exCfg.hashOf exTieNode [12, 11, 1000] 0) ∧
    (handleHeaders exForkCfg exForkSt 7 (reply C01.exCfg.hashOf exTieNode [12, 11, 1000] 0)).2 = [] ∧
    (handleHeaders exForkCfg exForkSt 7 (reply C01.exCfg.hashOf exTieNode [12, 11, 1000] 0)).1.store.map (fun r => (r.hash, r.st)) =
      [(1000, .lc), (11, .lc), (12, .lc), (21, .stale), (22, .stale)] := by decide

/-- (a), (b) computed on the example chain (checkpoints at 2 and 4, cap 3): peer 7 is announced and asked, peer 8 is
    announced (nothing is sent), 7 answers its first request, then 7 is lost: 8 gets the request the cursor calls for and
    the loop with 8's node ends with the whole chain -/
example :
    let cfg := exCfg false
    let s1 := (newPeer cfg (newPeer cfg (new cfg [C01.exRoot]) 7 true 4 0).1 8 true 4 5)
    let s2 := handleHeaders cfg s1.1 7 (reply C01.exCfg.hashOf (exNode 3) [1000] 12)
    let s3 := donePeer cfg s2.1 7 9
    s1.2 = [] ∧ s2.2 = [.getheaders 7 [12] 14] ∧ s3.2 = [.getheaders 8 [12, 11, 1000] 14] ∧ s3.1.syncPeer = some 8 ∧
      (rounds cfg (exNode 3) 8 3 (s3.1, some ([12, 11, 1000], 14))).2 = none ∧
      (rounds cfg (exNode 3) 8 3 (s3.1, some ([12, 11, 1000], 14))).1.store.map (·.hash) = [1000, 11, 12, 13, 14] := by
  decide

/-- (c) computed: instead of being lost, 7 stalls: the stale tick disconnects it (with this pick it first re-selects the
    dead entry, silently — the entry stays a candidate until its done message), the done message hands over to 8 -/
example :
    let cfg := exCfg false
    let s1 := (newPeer cfg (newPeer cfg (new cfg [C01.exRoot]) 7 true 4 0).1 8 true 4 5)
    let s2 := handleHeaders cfg s1.1 7 (reply C01.exCfg.hashOf (exNode 3) [1000] 12)
    let s3 := tick cfg s2.1 true 4
    let s4 := donePeer cfg s3.1 7 9
    s3.2 = [.disconnect 7] ∧ s4.2 = [.getheaders 8 [12, 11, 1000] 14] ∧ s4.1.syncPeer = some 8 ∧
      (rounds cfg (exNode 3) 8 3 (s4.1, some ([12, 11, 1000], 14))).1.store.map (·.hash) = [1000, 11, 12, 13, 14] := by
  decide

end BHS.Props.C06
