/-
C15 — Concurrent ingestion/reads/peer churn: no races, valid views, serial outcome.
Under any interleaving of header submissions arriving from several peers with API reads, notification delivery and
peers connecting and disconnecting, the process has no data race and does not crash. Every tip a reader observes is a
longest-chain header of a structurally valid chain, and the final store equals the result of ingesting the same headers
in some sequential order (in particular never two longest-chain headers at one height).

Model: `BHS.Chain` (Model/Interleave.lean): `Chains.Add` as a small-step program over the shared store, one
repository call per step (`stepThread`), threads interleaved by a schedule (`runSchedule`). A reader is a repository
call that can land between any two steps, so "what a reader can observe" = every intermediate store.
Definitions (Proofs/InterleaveWorld.lean):
  `Thread.inAdd`   the thread has made its first repository call and has not returned (holds the mutex of the repaired code)
  `Allowed w i`    no thread other than i is inside `Add`
  `Exclusive`      every step of the schedule is `Allowed` = exactly the schedules a mutex held for the whole of `Add` admits
  `startOrder`     the thread numbers in the order in which they entered `Add`
  `blockSchedule`  run the given threads one after the other, `maxSteps` calls each
  `AllDone`        every thread has returned
The hypothesis `Exclusive` is tied to the source by the regenerated go/ast facts `Gen.addIsExclusive`, `Gen.addCallers`
(and `Gen.notifyCallers`, `Gen.notifyAfterInsert`: notification delivery happens inside the exclusive section, after the
insert): a removed lock, a new caller of `Add`, a moved `Notify` re-opens the obligation.

PARTIAL: data races in the sense of the Go memory model (unsynchronised access to a memory location) are outside any
model of this kind; the harness covers them by running the scheduler scenarios under the race detector. Peers
connecting and disconnecting appear here only as "submissions arrive from arbitrarily many threads, any of which may
stop being scheduled at any point OUTSIDE `Add`" (the reader theorems hold for incomplete schedules); the peer table
itself is C18's model. What is proved
here is the atomicity level: every interleaving the mutex admits is serialisable and every intermediate store is valid;
and the model without the mutex is NOT (`C15_unlocked_counterexample`, the defect found on the real code by the
scheduler harness and repaired with the mutex).
Helper lemmas: BHS/Proofs/Interleave.lean (one thread: forward simulation with `plan`/`add`, step measure) and
BHS/Proofs/InterleaveWorld.lean (worlds: the invariant `Mutex` of exclusive schedules).
-/
import BHS.Model.Chain
import BHS.Model.Interleave
import BHS.Model.Crash
import BHS.Spec.BestChain
import BHS.Gen.CallSites
import BHS.Proofs.InterleaveWorld
import BHS.Props.C01
import BHS.Props.C05

set_option linter.unusedSectionVars false

namespace BHS.Props.C15
open BHS BHS.Chain
open BHS.Props.C01 (IsRoot HashAvoids exCfg exRoot exSrc exHist exStore exNext exStore_eq exAvoids C01_inv_init
  C01_canonical exZero)
open BHS.Props.C05 (C05_struct_valid C05_inv_struct C05_restart_id ex_three_writes)
variable {H : Type} [DecidableEq H]

/-! ### the hypothesis `Exclusive` is what the source does -/

/-- `chainService.Add` starts with `Lock(); defer Unlock()` on one mutex -/
theorem C15_add_is_exclusive : Gen.addIsExclusive = true := by decide

/-- the only callers of `Chains.Add` are the two p2p engines' `handleHeadersMsg` -/
theorem C15_add_callers : Gen.addCallers =
    [("internal/transports/p2p/peer/peer.go", "handleHeadersMsg"),
     ("transports/p2p/p2psync/manager.go", "handleHeadersMsg")] := by decide

/-- notification delivery is called from `Add` only, after the insert (and after the insert's error return):
    it happens inside the exclusive section and is not a separate writer -/
theorem C15_notify_inside_add :
    Gen.notifyCallers = [("service/chain_service.go", "Add")] ∧ Gen.notifyAfterInsert = true := by decide

/-! ### one thread running alone is `add` -/

/-- running one thread alone to completion is exactly `add`: the same store AND the same answer (the stored row is
    rendered with the rowid of the row carrying its hash, which is the row `plan` returns). No hypothesis is needed:
    the hash was looked up and found absent at `.start`, and the `setState` writes change neither hashes nor the length. -/
theorem C15_seq_refines (cfg : Cfg H) (s : Store H) (x : Src H) :
    runThread cfg maxSteps s { x := x, pc := .start } =
      ((add cfg s x).1, { x := x, pc := .done (add cfg s x).2 }) := by
  rw [runThread_eq_steps]
  exact steps_max cfg s x

/-- the statement evaluated on the reorganisation of C05 (five reads, three write transactions: eight repository calls) -/
example : (runThread exCfg maxSteps exStore { x := exNext, pc := .start }).1 = (add exCfg exStore exNext).1 ∧
    (runThread exCfg 7 exStore { x := exNext, pc := .start }).1 ≠ (add exCfg exStore exNext).1 ∧
    (runThread exCfg 7 exStore { x := exNext, pc := .start }).2.isDone = false ∧
    (runThread exCfg 8 exStore { x := exNext, pc := .start }).2.isDone = true := by decide

/-- a thread started at `.start` has returned after at most `maxSteps` repository calls, so fuel `maxSteps` suffices
    (more fuel changes nothing); each call performs at most one write transaction -/
theorem C15_steps_bound (cfg : Cfg H) (s : Store H) (x : Src H) :
    (runThread cfg maxSteps s { x := x, pc := .start }).2.isDone = true ∧
    (∀ m, runThread cfg (maxSteps + m) s { x := x, pc := .start } = runThread cfg maxSteps s { x := x, pc := .start }) ∧
    (∀ (s' : Store H) (t : Thread H), (stepThread cfg s' t).1 = s' ∨ ∃ w, (stepThread cfg s' t).1 = applyWrite s' w) := by
  refine ⟨?_, ?_, step_one_write cfg⟩
  · rw [runThread_eq_steps]; exact steps_max_done cfg s x
  · intro m
    rw [runThread_eq_steps, runThread_eq_steps]
    exact steps_stable cfg (steps_max_done cfg s x) m

/-- also under ANY interleaving (whatever stores the thread gets to see): every call of a thread that has not returned
    decreases a measure that starts at `maxSteps` — no thread makes more than `maxSteps` calls, none gets stuck -/
theorem C15_progress (cfg : Cfg H) (s : Store H) (t : Thread H) (h : t.isDone = false) :
    (stepThread cfg s t).2.pc.mu < t.pc.mu ∧ (Pc.start : Pc H).mu = maxSteps :=
  ⟨mu_step cfg s t (by rw [h]; exact Bool.false_ne_true), rfl⟩

example : ({ x := exNext, pc := .start } : Thread Nat).isDone = false := rfl

/-! ### exclusive schedules are serial -/

/-- two submissions whose outcome depends on the order: `exNext` (a reorganisation) and its child -/
def exXs : List (Src Nat) := [exNext, exSrc 7 8]

/-- FINAL STORE = SEQUENTIAL INGESTION IN SOME ORDER. For every schedule the mutex admits that lets every submitter
    return, the final store is `run` over the submissions in the order in which they entered `Add`, and that order is a
    permutation of the submitted headers. -/
theorem C15_serial_if_exclusive (cfg : Cfg H) (s : Store H) (xs : List (Src H)) (sched : List Nat)
    (hex : Exclusive cfg (initWorld s xs) sched) (hd : AllDone (runSchedule cfg (initWorld s xs) sched)) :
    (runSchedule cfg (initWorld s xs) sched).store =
        run cfg s ((startOrder cfg (initWorld s xs) sched).filterMap (fun k : Nat => xs[k]?)) ∧
      ((startOrder cfg (initWorld s xs) sched).filterMap (fun k : Nat => xs[k]?)).Perm xs := by
  have hm := Mutex.run sched (mutex_init cfg s xs) hex
  rw [srcAt_init, List.nil_append] at hm
  refine ⟨hm.store_of_done hd, ?_⟩
  have hp := (startOrder_perm cfg s xs sched hd).filterMap (fun k : Nat => xs[k]?)
  rw [filterMap_range_getElem?] at hp
  exact hp

/-- thread 1 first, then thread 0 — and the other order: both exclusive, both complete, different final stores -/
example : Exclusive exCfg (initWorld exStore exXs) (blockSchedule [1, 0]) ∧
    AllDone (runSchedule exCfg (initWorld exStore exXs) (blockSchedule [1, 0])) ∧
    startOrder exCfg (initWorld exStore exXs) (blockSchedule [1, 0]) = [1, 0] ∧
    (runSchedule exCfg (initWorld exStore exXs) (blockSchedule [1, 0])).store ≠
      (runSchedule exCfg (initWorld exStore exXs) (blockSchedule [0, 1])).store := by decide

/-- every order is admitted by the mutex: running the threads one after the other is `Exclusive`
    (so the hypothesis of `C15_serial_if_exclusive` is satisfiable for every world and every order) -/
theorem C15_blocks_exclusive (cfg : Cfg H) (s : Store H) (xs : List (Src H)) (order : List Nat) :
    Exclusive cfg (initWorld s xs) (blockSchedule order) :=
  exclusive_blockSchedule cfg order _ (idleBut_init s xs)

/-- in particular never two longest-chain headers at one height: from the root row, with ANY headers (zero-work ones
    included), the final store of every complete exclusive schedule satisfies the invariant of C01, hence is
    canonically labelled and structurally valid -/
theorem C15_final_valid (cfg : Cfg H) (g : Row H) (hg : IsRoot g) (hz : HashAvoids cfg g.prev)
    (xs : List (Src H)) (sched : List Nat)
    (hex : Exclusive cfg (initWorld [g] xs) sched) (hd : AllDone (runSchedule cfg (initWorld [g] xs) sched)) :
    Inv cfg (runSchedule cfg (initWorld [g] xs) sched).store ∧ Canon (runSchedule cfg (initWorld [g] xs) sched).store ∧
      StructValid (runSchedule cfg (initWorld [g] xs) sched).store := by
  obtain ⟨e, hp⟩ := C15_serial_if_exclusive cfg [g] xs sched hex hd
  rw [e]
  have h := C01_canonical cfg g hg hz ((startOrder cfg (initWorld [g] xs) sched).filterMap (fun k : Nat => xs[k]?))
  exact ⟨h.1, h.2, C05_inv_struct cfg _ h.1⟩

example : IsRoot exRoot ∧ HashAvoids exCfg exRoot.prev ∧
    Exclusive exCfg (initWorld [exRoot] exHist) (blockSchedule [0, 1, 2, 3, 4]) ∧
    AllDone (runSchedule exCfg (initWorld [exRoot] exHist) (blockSchedule [0, 1, 2, 3, 4])) :=
  ⟨by decide, exAvoids, by decide, by decide⟩

/-- with a zero-work header on the tip among the submissions: the schedule completes and that header is STALE -/
example : (∃ x ∈ exHist ++ [exZero], work x.bits = 0) ∧
    Exclusive exCfg (initWorld [exRoot] (exHist ++ [exZero])) (blockSchedule [0, 1, 2, 3, 4, 5]) ∧
    AllDone (runSchedule exCfg (initWorld [exRoot] (exHist ++ [exZero])) (blockSchedule [0, 1, 2, 3, 4, 5])) ∧
    (∃ r ∈ (runSchedule exCfg (initWorld [exRoot] (exHist ++ [exZero])) (blockSchedule [0, 1, 2, 3, 4, 5])).store,
      r.work = 0 ∧ r.st = .stale) := by decide

/-! ### what a reader can observe -/

/-- while ONE submission is in progress, the store after any number `j` of its repository calls is the old store
    after a prefix of the write transactions of `add` (no hypothesis) -/
theorem C15_reader_prefix (cfg : Cfg H) (s : Store H) (x : Src H) (j : Nat) :
    ∃ k, (runThread cfg j s { x := x, pc := .start }).1 = addPrefix cfg s x k := by
  rw [runThread_eq_steps]
  exact sim_store (sim_steps cfg s x j)

/-- … hence (C05: every write prefix of an `add` on a store satisfying the invariant is structurally valid; the
    restart of C05 is the identity because the root row is stored) a reader sees a structurally valid chain whose
    reported tip is a LONGEST_CHAIN row -/
theorem C15_reader_view (cfg : Cfg H) (s : Store H) (x : Src H) (g : Row H) (hg : g ∈ s) (hg0 : g.id = 0)
    (hz : HashAvoids cfg g.prev) (h : Inv cfg s) (j : Nat) :
    StructValid (runThread cfg j s { x := x, pc := .start }).1 ∧
      ∃ t ∈ (runThread cfg j s { x := x, pc := .start }).1,
        getTip (runThread cfg j s { x := x, pc := .start }).1 = some t ∧ t.st = .lc := by
  obtain ⟨k, e⟩ := C15_reader_prefix cfg s x j
  rw [e]
  have hs := (C05_struct_valid cfg s x g hg hg0 hz h k).1
  rw [restart_of_preserved (rowsPreserved_addPrefix cfg s x k) hg] at hs
  refine ⟨hs, ?_⟩
  obtain ⟨t, ht, htip, _⟩ := hs
  exact ⟨t, ht, htip, (getTip_lc htip).2⟩

example : exRoot ∈ exStore ∧ exRoot.id = 0 ∧ HashAvoids exCfg exRoot.prev ∧ Inv exCfg exStore ∧
    nWrites exCfg exStore exNext = 3 :=
  ⟨by decide, by decide, exAvoids, by decide, ex_three_writes⟩

/-- the views around the writes of the reorganisation (after calls 5, 6, 7, 8) are the four write prefixes of C05 —
    pairwise different stores there; the one after the first update does not satisfy the full invariant of C01 —
    and all are structurally valid -/
example : (runThread exCfg 5 exStore { x := exNext, pc := .start }).1 = exStore ∧
    (runThread exCfg 6 exStore { x := exNext, pc := .start }).1 = addPrefix exCfg exStore exNext 1 ∧
    (runThread exCfg 7 exStore { x := exNext, pc := .start }).1 = addPrefix exCfg exStore exNext 2 ∧
    (runThread exCfg 8 exStore { x := exNext, pc := .start }).1 = addPrefix exCfg exStore exNext 3 ∧
    ¬ Inv exCfg (runThread exCfg 6 exStore { x := exNext, pc := .start }).1 ∧
    StructValid (runThread exCfg 6 exStore { x := exNext, pc := .start }).1 ∧
    StructValid (runThread exCfg 7 exStore { x := exNext, pc := .start }).1 := by decide

/-- lifted to schedules: from the root row, with ANY headers, EVERY intermediate store of a schedule the
    mutex admits (the store after any prefix of the schedule — the schedule need not be complete) is structurally
    valid and its reported tip is a LONGEST_CHAIN row -/
theorem C15_reader_view_exclusive (cfg : Cfg H) (g : Row H) (hg : IsRoot g) (hz : HashAvoids cfg g.prev)
    (xs : List (Src H)) (sched : List Nat)
    (hex : Exclusive cfg (initWorld [g] xs) sched) (n : Nat) :
    StructValid (runSchedule cfg (initWorld [g] xs) (sched.take n)).store ∧
      ∃ t ∈ (runSchedule cfg (initWorld [g] xs) (sched.take n)).store,
        getTip (runSchedule cfg (initWorld [g] xs) (sched.take n)).store = some t ∧ t.st = .lc := by
  have hm := Mutex.run (sched.take n) (mutex_init cfg [g] xs) (exclusive_take cfg hex n)
  rw [srcAt_init, List.nil_append] at hm
  have hg1 : g ∈ [g] := List.mem_singleton.2 rfl
  have hi0 := C01_inv_init cfg g hg
  have key : StructValid (runSchedule cfg (initWorld [g] xs) (sched.take n)).store := by
    rcases hm.store_shape with e | ⟨l0, x, k, el, e⟩
    · rw [e]
      exact C05_inv_struct cfg _ (hi0.run hz _ hg1 hg.1)
    · rw [e]
      have hinv := hi0.run hz l0 hg1 hg.1
      have hgm := run_keeps_root hz hg.1 l0 [g] hi0.1 hg1
      have hs := (C05_struct_valid cfg _ x g hgm hg.1 hz hinv k).1
      rw [restart_of_preserved (rowsPreserved_addPrefix cfg _ x k) hgm] at hs
      exact hs
  refine ⟨key, ?_⟩
  obtain ⟨t, ht, htip, _⟩ := key
  exact ⟨t, ht, htip, (getTip_lc htip).2⟩

example : IsRoot exRoot ∧ HashAvoids exCfg exRoot.prev ∧
    Exclusive exCfg (initWorld [exRoot] exHist) (blockSchedule [0, 1, 2, 3, 4]) :=
  ⟨by decide, exAvoids, by decide⟩

/-! ### without the mutex the property fails -/

/-- the root and one block -/
def cexStore : Store Nat := run exCfg [exRoot] [exSrc 1000 1]

/-- two siblings extending the tip, submitted concurrently by two peers -/
def cexXs : List (Src Nat) := [exSrc 2 10, exSrc 2 11]

/-- both threads make their three reads (known? / parent / longest-chain row at the new height?) before either inserts -/
def cexSched : List Nat := [0, 0, 0, 1, 1, 1, 0, 1]

/-- WITHOUT exclusivity: a schedule (not admitted by the mutex) after which both siblings are LONGEST_CHAIN at height 2
    — the store is not structurally valid — and the final store is the result of NEITHER sequential order.
    The start store satisfies the invariant of C01; both threads have returned. This is the defect found on the real
    code by the scheduler harness; the repair is the mutex (`C15_add_is_exclusive`). -/
theorem C15_unlocked_counterexample :
    Inv exCfg cexStore ∧ (∀ x ∈ cexXs, 0 < work x.bits) ∧
    AllDone (runSchedule exCfg (initWorld cexStore cexXs) cexSched) ∧
    ¬ Exclusive exCfg (initWorld cexStore cexXs) cexSched ∧
    (∃ r ∈ (runSchedule exCfg (initWorld cexStore cexXs) cexSched).store,
      ∃ r' ∈ (runSchedule exCfg (initWorld cexStore cexXs) cexSched).store,
        r ≠ r' ∧ r.st = .lc ∧ r'.st = .lc ∧ r.height = r'.height) ∧
    ¬ StructValid (runSchedule exCfg (initWorld cexStore cexXs) cexSched).store ∧
    (runSchedule exCfg (initWorld cexStore cexXs) cexSched).store ≠ run exCfg cexStore cexXs ∧
    (runSchedule exCfg (initWorld cexStore cexXs) cexSched).store ≠ run exCfg cexStore cexXs.reverse := by
  decide

/-- the same world under the mutex: both orders are admitted and give the two sequential results -/
example : (runSchedule exCfg (initWorld cexStore cexXs) (blockSchedule [0, 1])).store = run exCfg cexStore cexXs ∧
    (runSchedule exCfg (initWorld cexStore cexXs) (blockSchedule [1, 0])).store = run exCfg cexStore cexXs.reverse ∧
    StructValid (run exCfg cexStore cexXs) ∧ StructValid (run exCfg cexStore cexXs.reverse) := by decide

/-- the SAME header submitted by two peers, interleaved so that both pass the duplicate check: what the model gives
    without the mutex — both submitters are answered `stored` with the same row (ON CONFLICT DO NOTHING keeps one row,
    the loser's answer is rendered with the winner's rowid), the store is the sequential one, but sequentially the
    second submitter is answered `duplicate` (HeaderAlreadyExists): two ADD notifications for one header instead of one -/
theorem C15_duplicate_race_counterexample :
    (runSchedule exCfg (initWorld cexStore [exSrc 2 10, exSrc 2 10]) cexSched).store =
      run exCfg cexStore [exSrc 2 10, exSrc 2 10] ∧
    (runSchedule exCfg (initWorld cexStore [exSrc 2 10, exSrc 2 10]) cexSched).threads.map Thread.storedRow =
      [(run exCfg cexStore [exSrc 2 10])[2]?, (run exCfg cexStore [exSrc 2 10])[2]?] ∧
    (run exCfg cexStore [exSrc 2 10])[2]?.isSome = true ∧
    (add exCfg (add exCfg cexStore (exSrc 2 10)).1 (exSrc 2 10)).2.isDuplicate = true ∧
    ¬ Exclusive exCfg (initWorld cexStore [exSrc 2 10, exSrc 2 10]) cexSched := by
  decide

end BHS.Props.C15
