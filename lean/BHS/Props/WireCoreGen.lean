/-
Regenerated-model tie for the byte-level core of C14.

`BHS.Gen.WireCore` is TRANSLATED on every run from /repo/internal/wire (common.go ReadVarInt / WriteVarInt /
VarIntSerializeSize / ReadVarString / ReadVarBytes, message.go maxMessagePayload / readMessageHeader /
ReadMessageWithEncodingN / WriteMessageWithEncodingN, netaddress.go maxNetAddressPayload, the MaxPayloadLength
methods) by harness/cmd/extract/gen_wirecore.go.  The theorems below state, for EVERY byte list / value /
protocol version / global limit / hash function, that the translated functions are the hand model's
(`BHS.Wire`, the functions the 53 theorems of Props/C14.lean are stated over) — so those theorems are theorems
about what the Go source says now.  Props/WireCoreGenC14.lean re-states C14 headlines over the generated definitions.
This file does not import Props/C14.lean: a change of the Go source that breaks a C14 theorem AND a refinement shows both.
-/
import BHS.Proofs.WireCoreGen

set_option linter.unusedSimpArgs false

namespace BHS.Props.WireCoreGen
open BHS BHS.Wire BHS.Gen BHS.Gen.WireC BHS.WirePrim BHS.WireCoreGen

/-! ## common.go -/

/-- ReadVarInt as translated = the hand model's `getVarInt`: result, rest of the stream and allocation meter, on EVERY
    byte list (equality of the two readers as functions) -/
theorem readVarInt_refines : Gen.WireCore.readVarInt = getVarInt := by
  first
    | rfl
    | (funext b
       simp only [Gen.WireCore.readVarInt, getVarInt, bind_apply]
       repeat' split
       all_goals first | rfl | omega | (simp_all <;> omega))

/-- WriteVarInt as translated appends exactly the hand model's `putVarInt val` to the writer, for every value -/
theorem writeVarInt_refines (w : Bytes) (val : Nat) :
    Gen.WireCore.writeVarInt w val = .ok (w ++ putVarInt val) := by
  unfold Gen.WireCore.writeVarInt putVarInt
  repeat' split
  all_goals first
    | (exfalso; omega)
    | simp (disch := omega) [pure, Except.pure, put8, Nat.mod_eq_of_lt]

/-- VarIntSerializeSize as translated = the number of bytes WriteVarInt writes (the hand model has no separate size
    function: this is its specification) -/
theorem varIntSerializeSize_refines (val : Nat) :
    Gen.WireCore.varIntSerializeSize val = (putVarInt val).length := by
  unfold Gen.WireCore.varIntSerializeSize putVarInt
  repeat' split
  all_goals first | rfl | omega | simp_all

/-- ReadVarString as translated = the hand model's `getVarBytes` guarded by maxMessagePayload() (`gmax`): the size guard
    sits BEFORE the allocation -/
theorem readVarString_refines (gmax pver : Nat) : Gen.WireCore.readVarString gmax pver = getVarBytes gmax := by
  unfold Gen.WireCore.readVarString getVarBytes guardAlloc
  rw [readVarInt_refines]
  simp only [ite_bind, fail_bind, Nat.mul_one]

/-- ReadVarBytes as translated = `getVarBytes maxAllowed` -/
theorem readVarBytes_refines (pver maxAllowed : Nat) (fieldName : Bytes) :
    Gen.WireCore.readVarBytes pver maxAllowed fieldName = getVarBytes maxAllowed := by
  unfold Gen.WireCore.readVarBytes getVarBytes guardAlloc
  rw [readVarInt_refines]
  simp only [ite_bind, fail_bind, Nat.mul_one]

/-! ## limits: maxMessagePayload, maxNetAddressPayload, MaxPayloadLength of every type -/

theorem maxMessagePayload_refines (ebs : Nat) : Gen.WireCore.maxMessagePayload ebs = maxMessagePayload ebs := rfl

theorem maxNetAddressPayload_refines (pver : Nat) :
    Gen.WireCore.maxNetAddressPayload pver = maxNetAddressPayload pver := by
  unfold Gen.WireCore.maxNetAddressPayload maxNetAddressPayload
  by_cases h : netAddressTimeVersion ≤ pver
  · have h' : ¬ pver < netAddressTimeVersion := by omega
    simp only [ge_iff_le, gt_iff_lt, h, h', not_true_eq_false, not_false_eq_true, if_true, if_false]; rfl
  · have h' : pver < netAddressTimeVersion := by omega
    simp only [ge_iff_le, gt_iff_lt, h, h', not_true_eq_false, not_false_eq_true, if_true, if_false]

/-- the translated MaxPayloadLength methods, dispatched by the concrete type as makeEmptyMessage creates it, give the hand
    model's table for every type, protocol version and global limit (`none` = a type outside the model, on both sides) -/
theorem maxPayloadLength_refines (gmax pver : Nat) (t : MsgType) :
    Gen.WireCore.maxPayloadLength gmax pver t = maxPayloadLength gmax pver t := by
  cases t <;> simp only [Gen.WireCore.maxPayloadLength, maxPayloadLength, Gen.WireCore.mpl_MsgVersion,
    Gen.WireCore.mpl_MsgVerAck, Gen.WireCore.mpl_MsgGetAddr, Gen.WireCore.mpl_MsgAddr, Gen.WireCore.mpl_MsgGetBlocks,
    Gen.WireCore.mpl_MsgInv, Gen.WireCore.mpl_MsgGetData, Gen.WireCore.mpl_MsgNotFound, Gen.WireCore.mpl_MsgPing,
    Gen.WireCore.mpl_MsgPong, Gen.WireCore.mpl_MsgGetHeaders, Gen.WireCore.mpl_MsgHeaders, Gen.WireCore.mpl_MsgMemPool,
    Gen.WireCore.mpl_MsgReject, Gen.WireCore.mpl_MsgSendHeaders, Gen.WireCore.mpl_MsgFeeFilter,
    Gen.WireCore.mpl_MsgProtoconf, maxNetAddressPayload_refines]
  all_goals (try unfold maxNetAddressPayload)
  all_goals (repeat' split)
  all_goals first | rfl | decide | (exfalso; omega)

/-! ## message.go: frame layer -/

/-- readMessageHeader as translated: fewer than 24 bytes are refused as EOF; otherwise the four fields are what the hand
    model reads (command with its trailing NULs trimmed) and exactly 24 bytes are consumed, nothing is allocated -/
theorem readMessageHeader_refines (b : Bytes) :
    Gen.WireCore.readMessageHeader b =
      if b.length < messageHeaderSize then ([], .error .eof)
      else (do let magic ← get32le; let cmd ← getBytes commandSize; let len ← get32le; let ck ← getBytes 4
               pure (⟨magic, trimZeros cmd, len, ck⟩ : Gen.WireCore.MessageHeader) : Rd _) b := by
  by_cases hs : b.length < messageHeaderSize
  · rw [if_pos hs, readMessageHeader_refines_short b hs]
  · rw [if_neg hs]
    obtain ⟨magic, cmd, len, ck, rest, rfl, hm, hl, hc, hk⟩ := header_decompose b (by omega)
    rw [readMessageHeader_refines_frame _ _ _ _ _ hm hl hc hk]
    simp only [bind_apply, List.append_assoc, get32le_full _ hm, getBytes_full _ _ hc, get32le_full _ hl,
      getBytes_full _ _ hk, pure_apply, List.append_nil]

/-- ReadMessageWithEncodingN as translated (header, global limit, magic, utf8 test, command lookup, per-type limit,
    payload read, checksum test, Bsvdecode — in the source's order) = the hand model's `readMessageRd`, on EVERY byte
    stream, for every hash function, global limit, protocol version and network: same message / same error, same
    unread rest, same allocation meter.  (The generated function also returns the raw payload; the hand model does not.)
    `hU` is the one fact about utf8.ValidString that is used: an all-ASCII string is valid UTF-8. -/
theorem readMessage_refines (U : Bytes → Bool) (hU : ∀ c : Bytes, (∀ x ∈ c, x < 0x80) → U c = true)
    (H : Bytes → Bytes) (gmax pver net : Nat) (b : Bytes) :
    (Gen.WireCore.readMessageWithEncodingN U H gmax pver net >>= fun r => pure r.1) b =
      readMessageRd H gmax pver net b := by
  by_cases hs : b.length < messageHeaderSize
  · rw [readMessageRd_short _ _ _ _ _ hs]
    unfold Gen.WireCore.readMessageWithEncodingN
    simp only [bind_apply, readMessageHeader_refines_short _ hs]
  · obtain ⟨magic, cmd, len, ck, rest, rfl, hm, hl, hc, hk⟩ := header_decompose b (by omega)
    rw [readMessageRd_frame _ _ _ _ _ _ _ _ _ hm hl hc hk]
    unfold Gen.WireCore.readMessageWithEncodingN readBody
    simp only [bind_apply, readMessageHeader_refines_frame _ _ _ _ _ hm hl hc hk, maxPayloadLength_refines]
    -- every test is offered to simp in the forms `a > b`, `b < a`, `¬ a ≤ b` (and `x ≠ y`, `y ≠ x`), so that a harmless
    -- rewrite of a comparison in the Go source does not open the obligation
    by_cases h1 : gmax < len
    · have h1' : ¬ len ≤ gmax := by omega
      simp only [gt_iff_lt, ge_iff_le, h1, h1', not_true_eq_false, not_false_eq_true, if_true, if_false, fail_apply,
        List.append_nil]
    · have h1' : len ≤ gmax := by omega
      simp only [gt_iff_lt, ge_iff_le, h1, h1', not_true_eq_false, not_false_eq_true, if_true, if_false]
      by_cases h2 : magic = net
      · subst h2
        simp only [ne_eq, not_true_eq_false, if_false]
        by_cases h3 : U (trimZeros cmd) = true
        · simp only [h3, not_true_eq_false, if_false]
          cases ht : lookupCmd (trimZeros cmd) with
          | none => simp only [bind_apply, discard_apply, fail_apply, allocs_apply, List.append_nil, List.nil_append]
          | some t =>
            simp only
            cases hmpl : maxPayloadLength gmax pver t with
            | none => simp only [liftOpt, bind_apply, fail_apply, List.append_nil]
            | some mpl =>
              simp only [liftOpt, bind_apply, pure_apply, List.nil_append]
              by_cases h4 : mpl < len
              · have h4' : ¬ len ≤ mpl := by omega
                simp only [h4, h4', not_true_eq_false, not_false_eq_true, if_true, if_false, bind_apply, discard_apply,
                  fail_apply, allocs_apply, List.append_nil, List.nil_append]
              · have h4' : len ≤ mpl := by omega
                simp only [h4, h4', not_true_eq_false, not_false_eq_true, if_true, if_false]
                unfold readPayload
                simp only [bind_apply, alloc_apply]
                by_cases h5 : len ≤ rest.length
                · have hg : getBytes len rest = ([], .ok (rest.take len, rest.drop len)) := by
                    unfold getBytes; rw [if_pos h5]
                  simp only [hg, finishPayload, checksum, List.nil_append]
                  by_cases h6 : List.take 4 (H (H (List.take len rest))) = ck
                  · have h6' : ck = List.take 4 (H (H (List.take len rest))) := h6.symm
                    simp only [h6, not_true_eq_false, if_false, ne_eq, subRd_apply, bind_apply]
                    cases hd : decodeRd gmax pver t (List.take len rest) with
                    | mk al res =>
                      cases res with
                      | error e => simp only [List.append_nil]
                      | ok v => simp only [pure_apply, List.append_nil]
                  · have h6' : ¬ ck = List.take 4 (H (H (List.take len rest))) := fun h => h6 h.symm
                    simp only [h6, h6', not_false_eq_true, if_true, ne_eq, fail_apply, List.append_nil]
                · simp only [getBytes_short _ _ (Nat.lt_of_not_le h5), List.append_nil]
        · have hn : lookupCmd (trimZeros cmd) = none := by
            cases ht : lookupCmd (trimZeros cmd) with
            | none => rfl
            | some t => exact absurd (hU _ (lookupCmd_ascii ht)) h3
          simp only [if_pos h3, hn, bind_apply, discard_apply, fail_apply, allocs_apply, List.append_nil, List.nil_append]
      · have h2' : ¬ net = magic := fun h => h2 h.symm
        simp only [ne_eq, h2, h2', not_false_eq_true, if_true, bind_apply, discard_apply, fail_apply, allocs_apply,
          List.append_nil, List.nil_append]

/-- WriteMessageWithEncodingN as translated (command length, BsvEncode, global limit, per-type limit, header with the
    first four bytes of the double hash, header ++ payload) appends exactly the hand model's frame to the writer, or
    fails with the hand model's error.  `hg`: maxMessagePayload() is a uint32 (`uint32(lenp)` is then the identity on a
    length that passed the global check); `hH`: the hash has 32 bytes (`[0:4]` is in range) -/
theorem writeMessage_refines (H : Bytes → Bytes) (hH : ∀ x, (H x).length = 32) (gmax : Nat) (hg : gmax < 2^32)
    (w : Bytes) (m : Msg) (pver net : Nat) :
    Gen.WireCore.writeMessageWithEncodingN H gmax w m pver net =
      (match writeMessage H gmax pver net m with
       | .ok frame => .ok (w ++ frame)
       | .error e => .error e) := by
  unfold Gen.WireCore.writeMessageWithEncodingN writeMessage
  by_cases h1 : commandSize < m.command.length
  · have h1' : ¬ m.command.length ≤ commandSize := by omega
    simp only [gt_iff_lt, ge_iff_le, h1, h1', not_true_eq_false, not_false_eq_true, if_true, if_false]
  · have h1' : m.command.length ≤ commandSize := by omega
    simp only [gt_iff_lt, ge_iff_le, h1, h1', not_true_eq_false, not_false_eq_true, if_true, if_false]
    cases he : encodePayload pver m with
    | error e => rfl
    | ok payload =>
      simp only [bind, Except.bind, List.nil_append, maxPayloadLength_refines]
      by_cases h2 : gmax < payload.length
      · have h2' : ¬ payload.length ≤ gmax := by omega
        simp only [gt_iff_lt, ge_iff_le, h2, h2', not_true_eq_false, not_false_eq_true, if_true, if_false]
      · have h2' : payload.length ≤ gmax := by omega
        simp only [gt_iff_lt, ge_iff_le, h2, h2', not_true_eq_false, not_false_eq_true, if_true, if_false]
        have hmod : payload.length % 2^32 = payload.length := Nat.mod_eq_of_lt (by omega)
        cases hm : maxPayloadLength gmax pver m.msgType with
        | none => rfl
        | some mpl =>
          simp only [liftOptE, hmod]
          by_cases h3 : mpl < payload.length
          · have h3' : ¬ payload.length ≤ mpl := by omega
            simp only [gt_iff_lt, ge_iff_le, h3, h3', not_true_eq_false, not_false_eq_true, if_true, if_false]
          · have h3' : payload.length ≤ mpl := by omega
            have hck : goCopy (zeros 4) (List.take 4 (H (H payload))) = checksum H payload :=
              goCopy_full _ _ (by simp [zeros, hH])
            simp only [gt_iff_lt, ge_iff_le, h3, h3', not_true_eq_false, not_false_eq_true, if_true, if_false, pure,
              Except.pure, goCopy_pad _ h1', hck, List.append_assoc]

end BHS.Props.WireCoreGen
