/-
SyncMgrGen — the hand model of the default sync engine IS what the Go source says now.

BHS/Gen/SyncMgr.lean is REGENERATED on every check run from /repo/transports/p2p/p2psync/manager.go by
harness/cmd/extract/gen_syncmgr.go: a statement-by-statement translation of `New`, `handleNewPeerMsg`, `handleDonePeerMsg`,
`handleHeadersMsg`, `handleInvMsg`, `handleCheckSyncPeer` and of every function of that file they reach
(`isSyncCandidate`, `startSync`, `updateSyncPeer`, `topBlock`, `current`, `findNextHeaderCheckpoint`,
`verifyCheckpointHeight`, `requestForNextHeaderBatch`, `sendGetHeadersWithPassedParams`, `searchForFinalBlock`) into `do`
blocks over the handler monad of BHS/Model/SyncPrim.lean. The theorems below state that every translated handler, run
from a state of the hand model, leaves exactly the next state and the action list (getheaders / disconnect / ban / panic,
in order) of the corresponding function of BHS/Model/Sync.lean — so every theorem of C06 / C07, all stated over that
model, is a theorem about the translated source, and an edit of one of these Go functions changes the generated module
and re-opens these obligations. Re-stated at the end over the generated definitions: `C06_linear`, `C06_fork`,
`C07_ban_disconnect`, `C07_checkpoint_mismatch`, `C07_checkpoint_advance`.

WHERE THE HAND MODEL ABSTRACTS — the relation between a Go run and a model step, made explicit:
* one `PeerSt` entry = the peer OBJECT (lastBlock, startingHeight, duplicate filter, disconnect flag) + the manager's map
  entry `sm.peerStates[peer]` (present, SyncCandidate). The table represents a Go map: ids are distinct (`IdsNodup`), an
  invariant of every step of the hand model (`Gen_step_keeps_ids`) and a HYPOTHESIS of the refinements that range over the
  map (startSync and its callers); the handlers that do not (handleHeadersMsg, handleInvMsg) refine for EVERY state.
* a new-peer event = the peer object comes into existence (`withPeerObject`: advertised height, not in the map), then
  `handleNewPeerMsg`; `isSyncCandidate` reads the service bits of the peer object (`Env.services`), the event's `candidate`
  flag is its answer (`isFullNode`). The regression-test network is outside the model (folded condition).
* a done-peer event = the peer object has been disconnected (`markDisconnected`), then `handleDonePeerMsg`.
* a headers event = peer.go's inHandler part (`onHeadersReceived`: the duplicate filter is cleared — hand-modelled, not in
  manager.go), then `handleHeadersMsg`.
* the tick: what `validNetworkSpeed` and `time.Since(lastBlockTime)` answer are inputs (`Env.violations`,
  `Env.sinceLastBlock`); the hand model's `stale` flag is `staleOf env`, computed with the REGENERATED constants
  maxNetworkViolations and maxLastBlockTime. The network-speed bookkeeping itself (syncPeerState) is not modelled.
* `rand.Int` draws `pick % n` (`Env.pick`); iterating over the Go map visits the entries in table order (the hand model's
  candidate lists are in table order and the pick indexes them: the rig feeds the observed choice).
* a Go panic is the fault of the monad: `Action.panic` is appended and the state reached so far is kept.
* handleInvMsg: the log line `locator[0]` panics on a store without tip; the hand model's `handleInv` does not model that
  panic: hypothesis `locator st.store ≠ []` (every store that holds a longest-chain row has a non-empty locator).
* `Services.Chains.Add` is the chain model's `add` (tied to service/chain_service.go by Props/ChainSvc.lean
  `Gen_add_refines`), `Services.Headers.*` are the Query / Sync model functions (`tipHeight`, `getTip`, `locator`,
  `isCurrentHS`, `byHash`), `peer.PushGetHeadersMsg` / `peer.Disconnect` are the hand-modelled `pushTo` / `disconnectPeer`
  of peer.go. Helper lemmas: BHS/Proofs/SyncMgrRefine.lean.
-/
import BHS.Model.SyncPrim
import BHS.Gen.SyncMgr
import BHS.Model.SyncGenStep
import BHS.Proofs.SyncMgrRefine
import BHS.Props.C06
import BHS.Props.C07

set_option linter.unusedSectionVars false

namespace BHS.Props.SyncMgrGen
open BHS BHS.Chain BHS.Sync BHS.Sync.Refine
variable {H : Type} [DecidableEq H]

/-! ### the refinements, handler by handler -/

/-- `New` = `Sync.new`: run on the zero-valued manager over a store, the translated constructor returns no error, sends
    nothing and leaves the hand model's initial state (headersFirstMode and nextCheckpoint as `new` computes them —
    the repaired F4a lives here). -/
theorem Gen_New_refines (cfg : Sync.Cfg H) (env : Env) (store : Store H) :
    Gen.SyncMgr.New cfg env { st := blank store, acts := [] } = (.ok none, { st := Sync.new cfg store, acts := [] }) :=
  New_run cfg env store

/-- FULL STATEMENT, every state: `handleHeadersMsg` (with `verifyCheckpointHeight`, the ban path, `findNextHeaderCheckpoint`,
    `requestForNextHeaderBatch`, `sendGetHeadersWithPassedParams`) = `handleHeadersCore`: same next state (peer table,
    store, cursor, mode) and same actions in order, panics included. -/
theorem Gen_handleHeadersMsg_refines (cfg : Sync.Cfg H) (env : Env) (st : State H) (p : Nat) (hs : List (Src H)) :
    runH (Gen.SyncMgr.handleHeadersMsg cfg env p hs) st = handleHeadersCore cfg st p hs :=
  handleHeadersMsg_refines cfg env st p hs

/-- the loop of `handleHeadersMsg` alone = the hand model's `headersLoop` (`loopResult` spells out how the three ways the
    loop ends are seen by the code after it) -/
theorem Gen_headersLoop_refines (cfg : Sync.Cfg H) (env : Env) (p : Nat) (hs : List (Src H)) (m : MState H) (rc : Bool)
    (fh : Option H) :
    forRange hs (rc, fh) (Gen.SyncMgr.handleHeadersMsg_loop1 cfg env p) m =
      loopResult p m (headersLoop cfg.chain m.st.nextCp m.st.store hs rc fh) :=
  headersLoop_run cfg env p hs m rc fh

/-- `verifyCheckpointHeight`: no checkpoint ahead or another height — the flag as it was; the cursor's height and the
    checkpoint's hash — `true`; the cursor's height and another hash — Disconnect() and an error -/
theorem Gen_verifyCheckpointHeight_refines (cfg : Sync.Cfg H) (env : Env) (h : Row H) (rc : Bool) (p : Nat) (m : MState H) :
    Gen.SyncMgr.verifyCheckpointHeight cfg env h rc p m =
      match m.st.nextCp with
      | some c =>
        if h.height = c.1 then
          (if h.hash = c.2 then (.ok (true, none), m)
           else (.ok (false, some .other), { st := { m.st with peers := (disconnectPeer m.st.peers p).1 }, acts := m.acts ++ (disconnectPeer m.st.peers p).2 }))
        else (.ok (rc, none), m)
      | none => (.ok (rc, none), m) :=
  verify_run cfg env h rc p m

/-- `findNextHeaderCheckpoint` = `findNext` (reads only) -/
theorem Gen_findNextHeaderCheckpoint_refines (cfg : Sync.Cfg H) (env : Env) (height : Nat) (m : MState H) :
    Gen.SyncMgr.findNextHeaderCheckpoint cfg env (height : Int) m = (.ok (findNext cfg.checkpoints height), m) :=
  findNext_run cfg env height m

/-- `searchForFinalBlock` answers the index of the LAST block entry (`finalIdx`), -1 when there is none; and that is the
    hand model's `lastBlockInv`: the hash at that index is the announced hash -/
theorem Gen_searchForFinalBlock_refines (cfg : Sync.Cfg H) (env : Env) (invs : List (Bool × H)) (m : MState H) :
    Gen.SyncMgr.searchForFinalBlock cfg env invs m = (.ok (finalIdx invs), m) ∧
    ((lastBlockInv invs = none ∧ finalIdx invs = -1) ∨
     (∃ v, lastBlockInv invs = some v.2 ∧ finalIdx invs ≠ -1 ∧
        ∀ m' : MState H, (index invs (finalIdx invs) : SyncM H (Bool × H)) m' = (.ok v, m'))) :=
  ⟨search_run cfg env invs m, finalIdx_spec invs⟩

/-- `current()` = `Sync.current` (`none` = the panic) -/
theorem Gen_current_refines (cfg : Sync.Cfg H) (env : Env) (m : MState H) :
    Gen.SyncMgr.current cfg env m =
      match Sync.current cfg m.st with
      | some b => (.ok b, m)
      | none => (.fault (currentFault cfg m.st), { m with acts := m.acts ++ [.panic] }) :=
  current_run' cfg env m

/-- every state with a tip: `handleInvMsg` (with `searchForFinalBlock`, `current`) = `handleInv` -/
theorem Gen_handleInvMsg_refines (cfg : Sync.Cfg H) (env : Env) (st : State H) (p : Nat) (invs : List (Bool × H))
    (hloc : locator st.store ≠ []) :
    runH (Gen.SyncMgr.handleInvMsg cfg env p invs) st = handleInv cfg st p invs := by
  unfold runH
  rw [handleInvMsg_run cfg env st p invs hloc]

/-- a store that holds a longest-chain row has a non-empty locator -/
theorem locator_ne_nil (s : Store H) (t : Row H) (h : getTip s = some t) : locator s ≠ [] := by
  unfold locator
  rw [h]
  simp [locatorGo]

/-- `startSync` = `Sync.startSync` on every table with distinct ids: the demotion loop over sm.peerStates, the two
    candidate lists, the draw, the request the cursor calls for through the chosen peer's duplicate filter -/
theorem Gen_startSync_refines (cfg : Sync.Cfg H) (env : Env) (st : State H) (hnd : IdsNodup st) :
    runH (Gen.SyncMgr.startSync cfg env) st = Sync.startSync cfg st env.pick := by
  unfold runH
  rw [startSync_main cfg env { st := st, acts := [] } hnd]
  simp

/-- `handleNewPeerMsg` (+ `isSyncCandidate`, `startSync`) = `newPeer` -/
theorem Gen_handleNewPeerMsg_refines (cfg : Sync.Cfg H) (env : Env) (st : State H) (p : Nat) (lb : Int) (hnd : IdsNodup st) :
    runH (Gen.SyncMgr.handleNewPeerMsg cfg env p) (withPeerObject st p lb) =
      newPeer cfg st p (isFullNode env p) lb env.pick := by
  unfold runH
  rw [handleNewPeerMsg_run cfg env st p lb hnd]

/-- `handleDonePeerMsg` (+ `updateSyncPeer`, `startSync`) = `donePeer` -/
theorem Gen_handleDonePeerMsg_refines (cfg : Sync.Cfg H) (env : Env) (st : State H) (p : Nat) (hnd : IdsNodup st) :
    runH (Gen.SyncMgr.handleDonePeerMsg cfg env p) (markDisconnected st p) = donePeer cfg st p env.pick := by
  unfold runH
  rw [handleDonePeerMsg_run cfg env st p hnd]

/-- `handleCheckSyncPeer` (+ `topBlock`, `updateSyncPeer`, `startSync`) = `tick` with `stale = staleOf env` — the repaired
    F4d (`topBlock() <= best.Height`) lives here -/
theorem Gen_handleCheckSyncPeer_refines (cfg : Sync.Cfg H) (env : Env) (st : State H) (hnd : IdsNodup st) :
    runH (Gen.SyncMgr.handleCheckSyncPeer cfg env) st = tick cfg st (staleOf env) env.pick := by
  unfold runH
  rw [handleCheckSyncPeer_run cfg env st hnd]

/-- the regenerated constants the tick compares with -/
example : Gen.SyncMgr.maxNetworkViolations = 3 ∧ Gen.SyncMgr.maxLastBlockTime = 180 := by decide

/-- distinct ids are an invariant of the hand model: `new` starts with the empty table and every step keeps them -/
theorem Gen_step_keeps_ids (cfg : Sync.Cfg H) (store : Store H) (st : State H) (pick : Nat) (ev : Event H) :
    IdsNodup (Sync.new cfg store) ∧ (IdsNodup st → IdsNodup (step cfg st pick ev).1) :=
  ⟨new_nodup cfg store, step_nodup cfg st pick ev⟩

/-! ### the event machine over the generated handlers -/

theorem isFullNode_one (env : Env) (p : Nat) (h : env.services p = 1) : isFullNode env p = true := by
  unfold isFullNode; rw [h]; decide

theorem isFullNode_zero (env : Env) (p : Nat) (h : env.services p = 0) : isFullNode env p = false := by
  unfold isFullNode; rw [h]; decide

/-- EVERY STEP of the generated machine is the hand model's step: same next state, same actions -/
theorem genStep_eq_step (cfg : Sync.Cfg H) (st : State H) (pick : Nat) (ev : Event H) (hnd : IdsNodup st)
    (hloc : locator st.store ≠ []) : genStep cfg st pick ev = step cfg st pick ev := by
  cases ev with
  | newPeer p c lb =>
    show runH (Gen.SyncMgr.handleNewPeerMsg cfg _ p) _ = newPeer cfg st p c lb pick
    rw [Gen_handleNewPeerMsg_refines cfg _ st p lb hnd]
    have : isFullNode (envOf (H := H) pick (.newPeer p c lb)) p = c := by
      cases c
      · exact isFullNode_zero _ _ rfl
      · exact isFullNode_one _ _ rfl
    rw [this]; rfl
  | headers p hs => exact Gen_handleHeadersMsg_refines cfg _ _ p hs
  | inv p invs => exact Gen_handleInvMsg_refines cfg _ st p invs hloc
  | donePeer p => exact Gen_handleDonePeerMsg_refines cfg _ st p hnd
  | tick stale =>
    show runH (Gen.SyncMgr.handleCheckSyncPeer cfg _) st = tick cfg st stale pick
    rw [Gen_handleCheckSyncPeer_refines cfg _ st hnd]
    have : staleOf (envOf (H := H) pick (.tick stale)) = stale := by cases stale <;> rfl
    rw [this]; rfl

/-- every store along the run has a tip (true of every store reachable from a genesis row: C01's invariant) -/
def TipsAlong (cfg : Sync.Cfg H) : State H → List (Nat × Event H) → Prop
  | _, [] => True
  | st, (pick, ev) :: rest => locator st.store ≠ [] ∧ TipsAlong cfg (step cfg st pick ev).1 rest

/-- a run of the generated machine -/
def genRun (cfg : Sync.Cfg H) : State H → List (Nat × Event H) → State H × List (Action H)
  | st, [] => (st, [])
  | st, (pick, ev) :: rest => ((genRun cfg (genStep cfg st pick ev).1 rest).1, (genStep cfg st pick ev).2 ++ (genRun cfg (genStep cfg st pick ev).1 rest).2)

/-- EVERY RUN of the generated machine from a table with distinct ids (in particular from `new`) is the hand model's run -/
theorem genRun_eq_runEvents (cfg : Sync.Cfg H) : ∀ (evs : List (Nat × Event H)) (st : State H), IdsNodup st → TipsAlong cfg st evs →
    genRun cfg st evs = runEvents cfg st evs := by
  intro evs
  induction evs with
  | nil => intro st _ _; rfl
  | cons e rest ih =>
    intro st hnd ht
    obtain ⟨pick, ev⟩ := e
    have hstep := genStep_eq_step cfg st pick ev hnd ht.1
    show ((genRun cfg (genStep cfg st pick ev).1 rest).1, (genStep cfg st pick ev).2 ++ (genRun cfg (genStep cfg st pick ev).1 rest).2) = _
    rw [hstep, ih _ (step_nodup cfg st pick ev hnd) ht.2]
    rfl

/-! ### the closed loop and the C06 / C07 headlines over the generated definitions -/

/-- a headers message handled by the generated code (inHandler's part first) -/
def genHandleHeaders (cfg : Sync.Cfg H) (st : State H) (p : Nat) (hs : List (Src H)) : State H × List (Action H) :=
  runH (Gen.SyncMgr.handleHeadersMsg cfg {} p hs) { st with peers := onHeadersReceived st.peers p }

theorem genHandleHeaders_eq (cfg : Sync.Cfg H) (st : State H) (p : Nat) (hs : List (Src H)) :
    genHandleHeaders cfg st p hs = handleHeaders cfg st p hs :=
  Gen_handleHeadersMsg_refines cfg {} _ p hs

/-- `rounds` (engine × conformant node) with the generated `handleHeadersMsg` -/
def genRounds (cfg : Sync.Cfg H) (n : Node H) (p : Nat) : Nat → State H × Option (List H × H) → State H × Option (List H × H)
  | 0, x => x
  | _ + 1, (st, none) => (st, none)
  | k + 1, (st, some req) =>
    genRounds cfg n p k ((genHandleHeaders cfg st p (reply cfg.chain.hashOf n req.1 req.2)).1,
      requestTo p (genHandleHeaders cfg st p (reply cfg.chain.hashOf n req.1 req.2)).2)

theorem genRounds_eq_rounds (cfg : Sync.Cfg H) (n : Node H) (p : Nat) : ∀ (k : Nat) (x : State H × Option (List H × H)),
    genRounds cfg n p k x = rounds cfg n p k x := by
  intro k
  induction k with
  | zero => intro x; rfl
  | succ k ih =>
    intro x
    obtain ⟨st, r⟩ := x
    cases r with
    | none => rfl
    | some req =>
      show genRounds cfg n p k _ = rounds cfg n p k _
      rw [genHandleHeaders_eq, ih]

theorem genNew_eq (cfg : Sync.Cfg H) (store : Store H) : genNew cfg store = Sync.new cfg store := by
  unfold genNew; rw [New_run]

/-- the first candidate announced to the generated `handleNewPeerMsg` (a full node: the default `Env`) -/
def genFirstPeer (cfg : Sync.Cfg H) (st : State H) (p : Nat) (lb : Int) (pick : Nat) : State H × List (Action H) :=
  runH (Gen.SyncMgr.handleNewPeerMsg cfg { pick := pick } p) (withPeerObject st p lb)

theorem genFirstPeer_eq (cfg : Sync.Cfg H) (st : State H) (p : Nat) (lb : Int) (pick : Nat) (hnd : IdsNodup st) :
    genFirstPeer cfg st p lb pick = newPeer cfg st p true lb pick := by
  unfold genFirstPeer
  rw [Gen_handleNewPeerMsg_refines cfg _ st p lb hnd]
  have : isFullNode ({ pick := pick } : Env) p = true := isFullNode_one _ _ rfl
  rw [this]

/-- C06_linear FOR THE TRANSLATED SOURCE: the generated `New`, the generated `handleNewPeerMsg` for the first candidate,
    then the closed loop of the generated `handleHeadersMsg` with the conformant node: one request goes out and after at
    most ⌈missing / cap⌉ + |checkpoints| + 1 rounds the loop is quiescent with the table synced to the node's chain -/
theorem C06_linear_generated (cfg : Sync.Cfg H) (g : Row H) (C : List (Src H)) (n : Node H) (p pick : Nat)
    (hs : LinSetup cfg g C n) (hg : g.st = .lc) (hg0 : g.height = 0) (done rest : List (Src H)) (hsplit : C = done ++ rest) :
    ∃ req k st',
      (genFirstPeer cfg (genNew cfg (run cfg.chain [g] done)) p (C.length : Int) pick).2 = [.getheaders p req.1 req.2] ∧
      k ≤ (rest.length + n.cap - 1) / n.cap + cfg.checkpoints.length + 1 ∧
      genRounds cfg n p k ((genFirstPeer cfg (genNew cfg (run cfg.chain [g] done)) p (C.length : Int) pick).1, some req) = (st', none) ∧
      SyncedTo cfg.chain g C st'.store := by
  rw [genNew_eq, genFirstPeer_eq _ _ _ _ _ (new_nodup cfg _)]
  obtain ⟨req, k, st', h1, h2, h3, h4⟩ := C06.C06_linear cfg g C n p pick hs hg hg0 done rest hsplit
  exact ⟨req, k, st', h1, h2, by rw [genRounds_eq_rounds]; exact h3, h4⟩

/-- C06_fork FOR THE TRANSLATED SOURCE: two rounds of the generated `handleHeadersMsg` adopt a fork when one reply
    suffices (statement and hypotheses of `C06_fork`) -/
theorem C06_fork_generated (cfg : Sync.Cfg H) (z : H) (hz : ∀ y, cfg.chain.hashOf y ≠ z) (st : State H) (n : Node H) (p : Nat)
    (q : PeerSt H) (req : List H × H) (a : Row H) (hinv : Inv cfg.chain st.store)
    (hroot : ∃ g ∈ st.store, g.id = 0 ∧ g.prev = z) (hq : lookup st.peers p = some q) (hin : q.inMap = true)
    (hd : q.disc = false) (hf : st.headersFirst = true) (hcp : st.nextCp = none)
    (hnode : (n.genesis :: n.chain.map cfg.chain.hashOf).Nodup)
    (hone : OneReplySuffices cfg st n req a) :
    ∃ st', genRounds cfg n p 2 (st, some req) = (st', none) ∧
      st'.store = run cfg.chain st.store (reply cfg.chain.hashOf n req.1 req.2) ∧
      (∃ t, getTip st'.store = some t ∧ t.hash = lastHash cfg.chain.hashOf n.genesis n.chain ∧ t.st = .lc ∧
        t.cum = cumAlong a.cum (forkNews cfg st n req)) ∧
      Inv cfg.chain st'.store ∧ Canon st'.store ∧
      (∀ x ∈ forkNews cfg st n req, ∃ r ∈ st'.store, r.hash = cfg.chain.hashOf x ∧ r.st = .lc) := by
  obtain ⟨st', h1, h2, h3, h4, h5, h6, _⟩ := C06.C06_fork cfg z hz st n p q req a hinv hroot hq hin hd hf hcp hnode hone
  exact ⟨st', by rw [genRounds_eq_rounds]; exact h1, h2, h3, h4, h5, h6⟩

open BHS.Props.C07 in
/-- C07_ban_disconnect FOR THE TRANSLATED SOURCE: a forbidden header in a batch: exactly `ban p, disconnect p`, the
    headers before it stored, nothing after it looked at, the peer disconnected -/
theorem C07_ban_disconnect_generated (cfg : Sync.Cfg H) (st : State H) (p : Nat) (q : PeerSt H) (pre post : List (Src H))
    (x : Src H) (ht : Talking st p q) (h0 : NoForbidden cfg.chain st.store) (hx : cfg.chain.hashOf x ∈ cfg.chain.forbidden)
    (hpre : (headersLoop cfg.chain st.nextCp st.store pre false none).2.2.2 = .completed) :
    (genHandleHeaders cfg st p (pre ++ x :: post)).2 = [.ban p, .disconnect p] ∧
    (genHandleHeaders cfg st p (pre ++ x :: post)).1.store = run cfg.chain st.store pre ∧
    AllDisc (genHandleHeaders cfg st p (pre ++ x :: post)).1.peers p := by
  rw [genHandleHeaders_eq]
  exact C07_ban_disconnect cfg st p q pre post x ht h0 hx hpre

open BHS.Props.C07 in
/-- C07_checkpoint_mismatch FOR THE TRANSLATED SOURCE -/
theorem C07_checkpoint_mismatch_generated (cfg : Sync.Cfg H) (st : State H) (p : Nat) (q : PeerSt H) (pre post : List (Src H))
    (x : Src H) (c : Nat × H) (r : Row H) (ht : Talking st p q) (hc : st.nextCp = some c)
    (hpre : (headersLoop cfg.chain st.nextCp st.store pre false none).2.2.2 = .completed)
    (hadd : (add cfg.chain (run cfg.chain st.store pre) x).2 = .stored r) (hh : r.height = c.1) (hne : r.hash ≠ c.2) :
    (genHandleHeaders cfg st p (pre ++ x :: post)).2 = [.disconnect p] ∧
    (genHandleHeaders cfg st p (pre ++ x :: post)).1.store = run cfg.chain st.store (pre ++ [x]) ∧
    r ∈ (genHandleHeaders cfg st p (pre ++ x :: post)).1.store ∧
    AllDisc (genHandleHeaders cfg st p (pre ++ x :: post)).1.peers p := by
  rw [genHandleHeaders_eq]
  exact C07_checkpoint_mismatch cfg st p q pre post x c r ht hc hpre hadd hh hne

open BHS.Props.C07 in
/-- C07_checkpoint_advance FOR THE TRANSLATED SOURCE: after a matching checkpoint header the cursor moves to `findNext`
    and the next request targets the next checkpoint (or is unbounded after the last) -/
theorem C07_checkpoint_advance_generated (cfg : Sync.Cfg H) (st : State H) (p : Nat) (q : PeerSt H) (hs : List (Src H))
    (c : Nat × H) (s' : Store H) (fh : H) (ht : Talking st p q) (hc : st.nextCp = some c) (hne : hs.isEmpty = false)
    (hl : headersLoop cfg.chain st.nextCp st.store hs false none = (s', true, some fh, .completed)) :
    (genHandleHeaders cfg st p hs).1.nextCp = findNext cfg.checkpoints c.1 ∧
    (genHandleHeaders cfg st p hs).1.store = s' ∧
    (genHandleHeaders cfg st p hs).2 =
      match findNext cfg.checkpoints c.1 with
      | some c' => (pushGetHeaders (headersSeen q) [c.2] c'.2).2
      | none => (pushGetHeaders (headersSeen q) (locator s') cfg.zero).2 := by
  rw [genHandleHeaders_eq]
  exact C07_checkpoint_advance cfg st p q hs c s' fh ht hc hne hl

/-! ### non-vacuity: the generated handlers evaluated on concrete states -/

/-- the generated `New` + `handleNewPeerMsg` on the example chain of C06: one request to the checkpoint at height 2 -/
example : (genFirstPeer (C06.exCfg false) (genNew (C06.exCfg false) [C01.exRoot]) 7 4 0).2 = [.getheaders 7 [1000] 12] := by decide

/-- the generated closed loop (cap 3): four rounds, the whole chain -/
example : (genRounds (C06.exCfg false) (C06.exNode 3) 7 4
      ((genFirstPeer (C06.exCfg false) (genNew (C06.exCfg false) [C01.exRoot]) 7 4 0).1, some ([1000], 12))).2 = none ∧
    (genRounds (C06.exCfg false) (C06.exNode 3) 7 4
      ((genFirstPeer (C06.exCfg false) (genNew (C06.exCfg false) [C01.exRoot]) 7 4 0).1, some ([1000], 12))).1.store.map (·.hash) =
      [1000, 11, 12, 13, 14] := by decide

/-- the generated handleHeadersMsg on C07's batches: ban + disconnect at the forbidden header; disconnect at the
    contradicting checkpoint header; cursor advance and the next request after the matching one -/
example : (genHandleHeaders C07.exCfg C07.exState 7 C07.exBatch).2 = [.ban 7, .disconnect 7] ∧
    (genHandleHeaders C07.exCfg C07.exState 7 [C01.exSrc 1000 10, C01.exSrc 11 20, C01.exSrc 21 30]).2 = [.disconnect 7] ∧
    (genHandleHeaders C07.exCfg C07.exState 7 [C01.exSrc 1000 10, C01.exSrc 11 11]).1.nextCp = some (4, 14) ∧
    (genHandleHeaders C07.exCfg C07.exState 7 [C01.exSrc 1000 10, C01.exSrc 11 11]).2 = [.getheaders 7 [12] 14] := by decide

/-- the generated handleInvMsg: an inv with a tx entry, a known block and an unknown block (the LAST block entry
    counts), from the sync peer after its sync: getheaders(locator, 0); an empty inv: the panic of the log line -/
example :
    let cfg := C06.exCfg false
    let st := (rounds cfg (C06.exNode 3) 7 4 ((newPeer cfg (Sync.new cfg [C01.exRoot]) 7 true 4 0).1, some ([1000], 12))).1
    (genStep cfg st 0 (.inv 7 [(false, 5), (true, 14), (true, 555), (false, 6)])).2 = [.getheaders 7 [14, 13, 12, 11, 1000] 0] ∧
    (genStep cfg st 0 (.inv 7 [])).2 = [.panic] ∧
    (Gen.SyncMgr.searchForFinalBlock cfg {} [(false, 5), (true, 14), (true, 555), (false, 6)] { st := st, acts := [] }).1 = .ok 2 := by
  decide

/-- the generated machine on a run with two peers, a lost sync peer and a stale tick (the examples of C06) -/
example :
    let cfg := C06.exCfg false
    let evs : List (Nat × Event Nat) := [(0, .newPeer 7 true 4), (5, .newPeer 8 true 4),
      (0, .headers 7 (reply C01.exCfg.hashOf (C06.exNode 3) [1000] 12)), (4, .tick true), (9, .donePeer 7)]
    (genRun cfg (Sync.new cfg [C01.exRoot]) evs).2 =
      [.getheaders 7 [1000] 12, .getheaders 7 [12] 14, .disconnect 7, .getheaders 8 [12, 11, 1000] 14] ∧
    (genRun cfg (Sync.new cfg [C01.exRoot]) evs).2 = (runEvents cfg (Sync.new cfg [C01.exRoot]) evs).2 ∧
    (genRun cfg (Sync.new cfg [C01.exRoot]) evs).1.syncPeer = some 8 := by
  decide

end BHS.Props.SyncMgrGen
