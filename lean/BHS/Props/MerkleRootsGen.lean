/-
Merkle-root listing (C08): the REGENERATED listing refines the hand model.

`BHS.Gen.MerkleRoots` is produced on every run by harness/cmd/extract/gen_merkleroots.go from
  /repo/transports/http/endpoints/api/merkleroots/endpoints.go  (*handler).merkleroots
  /repo/service/merkleroots_service.go                           (*MerklerootsService).GetMerkleRoots
  /repo/database/repository/header_repository.go                 (*HeaderRepository).GetMerkleRoots, GetTip
  /repo/database/sql/headers.go                                  (*HeadersDb).GetMerkleRoots, getLastEvaluatedMerklerootHeight, GetTip
— a statement-by-statement translation into `Except Fault` (subset, primitive table, effect and skip lists in the
header of the translator; vocabulary in BHS/Model/MerkleRootsPrim.lean). The SQL statements stay primitives, mapped by
the NAME of the SQL constant to the list function the hand model (BHS/Model/Query.lean) reads for that statement.

The theorems below say that, for EVERY store, batch size and key, each translated function returns — without a fault —
what the hand model's `lastEvalHeight` / `rootsAfter` / `getTip` / `page` return: the content, the page information
(TotalElements = height of the tip, Size = number of entries, LastEvaluatedKey) and the exact error value. Hence every
C08 theorem about `page` is a theorem about what the Go source says now; the headline ones are re-stated over the
generated definitions at the end. An edit of one of the Go functions changes `Gen/MerkleRoots.lean` and re-opens
these obligations.

The only hypothesis is `0 ≤ batchSize` (it is written as a batch size `(n : Nat)`): the SQL layer hands a negative
batch size to `LIMIT ?`, whose meaning is engine dependent — the model gives it none (`Fault.negativeLimit`), and
`handler_refines` shows the handler never lets one through (its result is never a fault).
-/
import BHS.Gen.MerkleRoots
import BHS.Proofs.MerkleRootsGen
import BHS.Props.C08

set_option linter.unusedSectionVars false
set_option linter.unusedSimpArgs false

namespace BHS.Props.MerkleRootsGen
open BHS BHS.Chain BHS.MerkleRootsPrim BHS.Gen.MerkleRoots BHS.Proofs.MerkleRootsGen BHS.Props.C08
variable {H : Type} [DecidableEq H]

/-! ## Refinement, layer by layer -/

/-- **`getLastEvaluatedMerklerootHeight` = `lastEvalHeight`**: the height, or `(0, the error)` -/
theorem getLastEvaluatedMerklerootHeight_refines (s : Store H) (key : Option H) :
    HeadersDb_getLastEvaluatedMerklerootHeight s key =
      .ok (match lastEvalHeight s key with
        | .ok h => (h, none)
        | .error e => (0, some (errOf e))) := by
  cases key with
  | none => simp [HeadersDb_getLastEvaluatedMerklerootHeight, lastEvalHeight, pure, Except.pure]
  | some k =>
    unfold HeadersDb_getLastEvaluatedMerklerootHeight lastEvalHeight dbGet_sqlGetSingleMerkleroot
    cases hf : s.find? (fun r => decide (r.merkle = k)) with
    | none => simp [hf, isNoRows, Err.isNoRows, errOf, bind, Except.bind, pure, Except.pure]
    | some r =>
      by_cases hl : r.st = .lc
      · simp [hf, hl, isNoRows, Err.isNoRows, errOf, toBlockHeader, deref, bind, Except.bind, pure, Except.pure]
      · have hl' : ¬ St.lc = r.st := fun e => hl e.symm   -- the comparison written the other way round
        simp [hf, hl, hl', isNoRows, Err.isNoRows, errOf, toBlockHeader, deref, bind, Except.bind, pure, Except.pure]

/-- **SQL-layer `GetMerkleRoots`**: the rows of `rootsAfter` above the key's height, or `(nil, the error)` -/
theorem HeadersDb_GetMerkleRoots_refines (s : Store H) (n : Nat) (key : Option H) :
    HeadersDb_GetMerkleRoots s (n : Int) key =
      .ok (match lastEvalHeight s key with
        | .ok h => (rootsAfter s h n, none)
        | .error e => ([], some (errOf e))) := by
  unfold HeadersDb_GetMerkleRoots dbSelect_sqlMerkleRootsFromHeight
  rw [getLastEvaluatedMerklerootHeight_refines]
  have h0 : ¬ ((n : Int) < 0) := by omega
  cases lastEvalHeight s key <;> simp [h0, isNoRows, bind, Except.bind, pure, Except.pure]

/-- **SQL-layer `GetTip`** = `getTip` -/
theorem HeadersDb_GetTip_refines (s : Store H) :
    HeadersDb_GetTip s =
      .ok (match getTip s with
        | some t => (some t, none)
        | none => (none, some (errOf .noTip))) := by
  unfold HeadersDb_GetTip dbSelect_sqlSelectTip
  cases getTip s <;> simp [errOf, index_zero, bind, Except.bind, pure, Except.pure]

/-- **repository `GetTip`** = `getTip` -/
theorem HeaderRepository_GetTip_refines (s : Store H) :
    HeaderRepository_GetTip s =
      .ok (match getTip s with
        | some t => (some t, none)
        | none => (none, some (errOf .noTip))) := by
  unfold HeaderRepository_GetTip
  rw [HeadersDb_GetTip_refines]
  cases getTip s <;> simp [toBlockHeader, bind, Except.bind, pure, Except.pure]

/-- the hand model's answer in the vocabulary of the generated code: the page object for `.ok`, the Go error value
    for `.error` -/
def expected (s : Store H) (n : Nat) (key : Option H) : Option (PagedResp H) × Option Err :=
  match page s n key, getTip s with
  | .ok (rows, last), some tip =>
    (some { content := rows.map respOf,
            page := { totalElements := (tip.height : Int), size := (rows.length : Int), lastEvaluatedKey := last } }, none)
  | .ok _, none => (none, some (errOf .noTip))        -- does not occur: `page` is `.error .noTip` without a tip
  | .error e, _ => (none, some (errOf e))

/-- **repository `GetMerkleRoots` = `page`** for every store, batch size and key: the content is the rows of the hand
    model's page (merkle root and height of each), TotalElements is the height of the tip, Size the number of entries,
    LastEvaluatedKey the hand model's key; an error answer carries exactly the hand model's error -/
theorem HeaderRepository_GetMerkleRoots_refines (s : Store H) (n : Nat) (key : Option H) :
    HeaderRepository_GetMerkleRoots s (n : Int) key = .ok (expected s n key) := by
  unfold HeaderRepository_GetMerkleRoots expected page
  rw [HeadersDb_GetMerkleRoots_refines, HeaderRepository_GetTip_refines]
  cases lastEvalHeight s key with
  | error e => simp [bind, Except.bind, pure, Except.pure]
  | ok h =>
    cases getTip s with
    | none => simp [bind, Except.bind, pure, Except.pure]
    | some tip =>
      cases hl : (rootsAfter s h n).getLast? with
      | none =>
        have : rootsAfter s h n = [] := List.getLast?_eq_none_iff.1 hl
        simp [this, deref, makeRootResps, bind, Except.bind, pure, Except.pure]
      | some last =>
        have hne : ¬ (rootsAfter s h n = []) := by
          intro e; rw [e] at hl; cases hl
        -- "the rows are not empty" in every form a Go comparison of `len(rows)` can take
        have hlen : 0 < (rootsAfter s h n).length := List.length_pos_iff.2 hne
        have f1 : ¬ (((rootsAfter s h n).length : Int) = 0) := by omega
        have f2 : ¬ (((rootsAfter s h n).length : Int) < 1) := by omega
        have f3 : ¬ (((rootsAfter s h n).length : Int) ≤ 0) := by omega
        have f4 : ¬ ((0 : Int) = ((rootsAfter s h n).length : Int)) := by omega
        have f5 : (0 : Int) < ((rootsAfter s h n).length : Int) := by omega
        have f6 : (1 : Int) ≤ ((rootsAfter s h n).length : Int) := by omega
        -- the loop (whatever the order of its assignments) fills the content made by `make`
        have hfill : ∀ pg : PageInfo H, ∀ f : Int → Row H → PagedResp H → Except Fault (PagedResp H),
            (∀ (pre : List (RootResp H)) (x : Row H) (post : List (RootResp H)) (pg : PageInfo H),
              f (pre.length : Int) x ⟨pre ++ ⟨none, 0⟩ :: post, pg⟩ = .ok ⟨pre ++ respOf x :: post, pg⟩) →
            forRange (rootsAfter s h n) ⟨makeRootResps ((rootsAfter s h n).length : Int), pg⟩ f =
              .ok ⟨(rootsAfter s h n).map respOf, pg⟩ := fun pg f hf => forRange_fill hf _ pg
        by_cases hk : tip.merkle = last.merkle
        · have hk' : last.merkle = tip.merkle := hk.symm
          simp [hl, hne, f1, f2, f3, f4, f5, f6, hk', deref, index_last hl, bind, Except.bind, pure, Except.pure] <;>
            (rw [hfill] <;> simp [hk', modifyAt_mid, respOf, bind, Except.bind, pure, Except.pure])
        · have hk' : ¬ last.merkle = tip.merkle := fun e => hk e.symm
          simp [hl, hne, f1, f2, f3, f4, f5, f6, hk, hk', deref, index_last hl, bind, Except.bind, pure, Except.pure] <;>
            (rw [hfill] <;> simp [hk, hk', modifyAt_mid, respOf, bind, Except.bind, pure, Except.pure])

/-- **service `GetMerkleRoots` = `page`** (the service passes through) -/
theorem GetMerkleRoots_refines (s : Store H) (n : Nat) (key : Option H) :
    MerklerootsService_GetMerkleRoots s (n : Int) key = .ok (expected s n key) := by
  unfold MerklerootsService_GetMerkleRoots
  exact HeaderRepository_GetMerkleRoots_refines s n key

/-- the same with the batch size as the Go `int` it is: every non-negative one -/
theorem GetMerkleRoots_refines_int (s : Store H) (b : Int) (key : Option H) (hb : 0 ≤ b) :
    MerklerootsService_GetMerkleRoots s b key = .ok (expected s b.toNat key) := by
  have e : b = ((b.toNat : Nat) : Int) := by omega
  rw [e, GetMerkleRoots_refines, ← e]

/-! ## The handler: parameter handling -/

/-- the handler's answer written with the hand model: `batchSize` defaults to "2000" and must be a non-negative
    `strconv.Atoi` number (else ErrInvalidBatchSize wrapping the parse error, if any); `lastEvaluatedKey` defaults to
    the empty key; then the page as JSON with status 200, or the error of the listing -/
def handlerExpected (s : Store String) (c : Gin) : Gin :=
  match Http.atoi ((c.query "batchSize").getD "2000") with
  | none => errorResponse c (some (.bhsWrap "ErrInvalidBatchSize" .numError))
  | some b =>
    if b < 0 then errorResponse c (some (.bhs "ErrInvalidBatchSize"))
    else
      match expected s b.toNat (strKey ((c.query "lastEvaluatedKey").getD "")) with
      | (v, none) => ginJSON c 200 v
      | (_, some e) => errorResponse c (some e)

/-- **handler `merkleroots`**: for every store and request the translated handler ends without a fault (in
    particular it never hands a negative batch size to the SQL layer) and writes exactly `handlerExpected` -/
theorem handler_refines (s : Store String) (c : Gin) : handler_merkleroots s c = .ok (handlerExpected s c) := by
  cases ha : Http.atoi ((c.query "batchSize").getD "2000") with
  | none =>
    simp [handler_merkleroots, handlerExpected, strconvAtoi, ginDefaultQuery, ginQuery, ha, bhsWrap, pure, Except.pure]
  | some b =>
    -- the sign test in every form the Go comparison can take
    by_cases hb : b < 0
    · have g2 : ¬ (0 ≤ b) := by omega
      have g3 : b ≤ -1 := by omega
      have g4 : ¬ (-1 < b) := by omega
      simp [handler_merkleroots, handlerExpected, strconvAtoi, ginDefaultQuery, ginQuery, ha, hb, g2, g3, g4, bhsWrap,
        pure, Except.pure]
    · have g2 : 0 ≤ b := by omega
      have g3 : ¬ (b ≤ -1) := by omega
      have g4 : -1 < b := by omega
      have hr := GetMerkleRoots_refines_int s b (strKey ((c.query "lastEvaluatedKey").getD "")) g2
      rcases hx : expected s b.toNat (strKey ((c.query "lastEvaluatedKey").getD "")) with ⟨v, _ | err⟩ <;>
        simp [handler_merkleroots, handlerExpected, strconvAtoi, ginDefaultQuery, ginQuery, ha, hb, g2, g3, g4, hr, hx,
          bhsWrap, bind, Except.bind, pure, Except.pure]

/-- `errors.As(err, &ExtendedError)` in bhserrors.mapAndLog: the first BHSError of the chain, looked up in the
    regenerated table of definitions (Gen.Errors) -/
def errDefOf : Err → Option Gen.ErrDef
  | .bhs n => Gen.errorTable.find? (fun d => d.name == n)
  | .bhsWrap n _ => Gen.errorTable.find? (fun d => d.name == n)
  | .wrap _ c => errDefOf c
  | _ => none

/-- the HTTP response of one write of the handler, in the vocabulary of the HTTP hand model (BHS/Model/Http.lean) -/
def httpOf : Out → Http.Response
  | .json st _ => ⟨st.toNat, [.value]⟩
  | .errorResponse (some e) => (match errDefOf e with | some d => Http.errResp d | none => Http.unknownErr)
  | .errorResponse none => Http.unknownErr

theorem httpOf_invalid_parse :
    httpOf (.errorResponse (some (.bhsWrap "ErrInvalidBatchSize" .numError))) = Http.errResp Gen.errInvalidBatchSize := by
  decide
theorem httpOf_invalid_negative :
    httpOf (.errorResponse (some (.bhs "ErrInvalidBatchSize"))) = Http.errResp Gen.errInvalidBatchSize := by decide
theorem httpOf_errOf : ∀ e : PageErr, httpOf (.errorResponse (some (errOf e))) =
    (match e with
      | .notFound => Http.errResp Gen.errMerklerootNotFound
      | .notLc => Http.errResp Gen.errMerklerootNotInLongestChain
      | .noTip => Http.unknownErr) := by intro e; cases e <;> decide

/-- the generated handler writes exactly one response, and it is the response of the HTTP hand model's
    `merklerootsH` (the function the C16 theorems are stated over) for the same query parameters -/
theorem handler_matches_http_model (s : Store String) (c : Gin) :
    ∃ o, handler_merkleroots s c = .ok { c with out := c.out ++ [o] } ∧
      httpOf o = Http.merklerootsH s (c.query "batchSize") (c.query "lastEvaluatedKey") := by
  rw [handler_refines]
  unfold handlerExpected Http.merklerootsH
  have hk : strKey ((c.query "lastEvaluatedKey").getD "") =
      (c.query "lastEvaluatedKey").bind (fun k => if k = "" then none else some k) := by
    cases c.query "lastEvaluatedKey" <;> simp [strKey]
  rw [hk]
  cases Http.atoi ((c.query "batchSize").getD "2000") with
  | none => exact ⟨_, rfl, httpOf_invalid_parse⟩
  | some b =>
    by_cases hb : b < 0
    · simp only [hb, if_true]; exact ⟨_, rfl, httpOf_invalid_negative⟩
    · simp only [hb, if_false]
      unfold expected
      cases hp : page s b.toNat ((c.query "lastEvaluatedKey").bind (fun k => if k = "" then none else some k)) with
      | error e => exact ⟨_, rfl, by rw [httpOf_errOf]; cases e <;> rfl⟩
      | ok r =>
        obtain ⟨rows, last⟩ := r
        obtain ⟨_, t, _, ht, _, _⟩ := page_ok hp
        simp only [ht]
        exact ⟨_, rfl, rfl⟩

/-! ## The C08 headline over the generated definitions -/

/-- the client loop of C08 (`walk`) over the GENERATED service function: request a page with the current key, append
    its content, continue with the returned key until it comes back empty. `none` = an error answer, a fault, or the
    fuel ran out. -/
def genWalk (s : Store H) (n : Nat) : Nat → Option H → Option (List (RootResp H))
  | 0, _ => none
  | fuel + 1, key =>
    match MerklerootsService_GetMerkleRoots s (n : Int) key with
    | .ok (some p, none) =>
      (match p.page.lastEvaluatedKey with
       | none => some p.content
       | some k => (genWalk s n fuel (some k)).map (p.content ++ ·))
    | _ => none

theorem genWalk_eq_walk (s : Store H) (n : Nat) (fuel : Nat) (key : Option H) :
    genWalk s n fuel key = (walk s n fuel key).map (·.map respOf) := by
  induction fuel generalizing key with
  | zero => rfl
  | succ fuel ih =>
    simp only [genWalk, walk, GetMerkleRoots_refines, expected]
    cases hp : page s n key with
    | error e => rfl
    | ok r =>
      obtain ⟨rows, last⟩ := r
      obtain ⟨_, t, _, ht, _, _⟩ := page_ok hp
      simp only [ht]
      cases last with
      | none => rfl
      | some k => simp only [ih, Option.map_map]; cases walk s n fuel (some k) <;> simp

/-- **C08 headline, generated**: walking the GENERATED listing from the empty key returns exactly the longest-chain
    rows in ascending height order (merkle root and height of each), for every store satisfying the chain invariant
    with pairwise distinct merkle roots and every batch size ≥ 1 -/
theorem C08_walk_generated (cfg : Cfg H) (s : Store H) (n : Nat) (h : Inv cfg s) (hm : DistinctRoots s) (hn : 1 ≤ n) :
    genWalk s n (s.length + 1) none = some ((lcAsc s).map respOf) := by
  rw [genWalk_eq_walk, C08_walk cfg s n h hm hn]; rfl

/-- … and for every store reachable by ingestion (the invariant comes from `C01_canonical`) -/
theorem C08_walk_generated_reachable (cfg : Cfg H) (g : Row H) (hg : BHS.Props.C01.IsRoot g)
    (hz : BHS.Props.C01.HashAvoids cfg g.prev) (hist : List (Src H)) (n : Nat)
    (hm : DistinctRoots (run cfg [g] hist)) (hn : 1 ≤ n) :
    genWalk (run cfg [g] hist) n ((run cfg [g] hist).length + 1) none = some ((lcAsc (run cfg [g] hist)).map respOf) :=
  C08_walk_generated cfg _ n (BHS.Props.C01.C01_canonical cfg g hg hz hist).1 hm hn

/-- **bad keys, generated**: a key that matches no block is answered with ErrMerklerootNotFound; (with distinct
    roots) the key of a block that is not on the longest chain with ErrMerklerootNotInLongestChain — never a page -/
theorem C08_bad_key_generated (s : Store H) (n : Nat) :
    (∀ k, (∀ r ∈ s, r.merkle ≠ k) →
      MerklerootsService_GetMerkleRoots s (n : Int) (some k) = .ok (none, some (.bhs "ErrMerklerootNotFound"))) ∧
    (DistinctRoots s → ∀ r ∈ s, r.st ≠ .lc →
      MerklerootsService_GetMerkleRoots s (n : Int) (some r.merkle) =
        .ok (none, some (.bhs "ErrMerklerootNotInLongestChain"))) := by
  refine ⟨fun k hk => ?_, fun hm r hr hl => ?_⟩
  · rw [GetMerkleRoots_refines]; unfold expected; rw [(C08_bad_key s n).1 k hk]; rfl
  · rw [GetMerkleRoots_refines]; unfold expected; rw [(C08_bad_key s n).2 hm r hr hl]; rfl

/-- **page information, generated**: a successful answer has Size = number of entries ≤ batch size, TotalElements =
    height of the tip, and its entries are stored LONGEST_CHAIN rows -/
theorem C08_page_info_generated (s : Store H) (n : Nat) (key : Option H) (p : PagedResp H)
    (h : MerklerootsService_GetMerkleRoots s (n : Int) key = .ok (some p, none)) :
    p.page.size = (p.content.length : Int) ∧ p.content.length ≤ n ∧
    (∃ t, getTip s = some t ∧ p.page.totalElements = (t.height : Int)) ∧
    ∃ rows, page s n key = .ok (rows, p.page.lastEvaluatedKey) ∧ p.content = rows.map respOf ∧
      ∀ r ∈ rows, r ∈ s ∧ r.st = .lc := by
  rw [GetMerkleRoots_refines] at h
  unfold expected at h
  cases hp : page s n key with
  | error e => rw [hp] at h; cases h
  | ok r =>
    obtain ⟨rows, last⟩ := r
    obtain ⟨_, t, _, ht, _, _⟩ := page_ok hp
    rw [hp, ht] at h
    simp only [Except.ok.injEq, Prod.mk.injEq, Option.some.injEq, and_true] at h
    subst h
    refine ⟨by simp, ?_, ⟨t, ht, rfl⟩, rows, rfl, rfl, fun r hr => ?_⟩
    · simpa using C08_page_size s n key rows last hp
    · have := C08_no_stale s n key rows last hp r hr; exact ⟨this.1, this.2.1⟩

/-! ## Non-vacuity: the generated functions computed on the concrete store of C08 -/

/-- first page (batch size 2) and second page of the walk; the tip has height 2 -/
example : MerklerootsService_GetMerkleRoots exStore 2 none =
      .ok (some { content := [⟨some 0, 0⟩, ⟨some 2, 1⟩], page := { totalElements := 2, size := 2, lastEvaluatedKey := some 2 } }, none) ∧
    MerklerootsService_GetMerkleRoots exStore 2 (some 2) =
      .ok (some { content := [⟨some 3, 2⟩], page := { totalElements := 2, size := 1, lastEvaluatedKey := none } }, none) := by
  decide

/-- unknown key, stale key, orphan key -/
example : MerklerootsService_GetMerkleRoots exStore 3 (some 77) = .ok (none, some (.bhs "ErrMerklerootNotFound")) ∧
    MerklerootsService_GetMerkleRoots exStore 3 (some 1) = .ok (none, some (.bhs "ErrMerklerootNotInLongestChain")) ∧
    MerklerootsService_GetMerkleRoots exStore 3 (some 4) = .ok (none, some (.bhs "ErrMerklerootNotInLongestChain")) := by
  decide

/-- batch size 0; a negative batch size at the service layer (no meaning given); a store without a tip -/
example : MerklerootsService_GetMerkleRoots exStore 0 none =
      .ok (some { content := [], page := { totalElements := 2, size := 0, lastEvaluatedKey := none } }, none) ∧
    MerklerootsService_GetMerkleRoots exStore (-1) none = .error .negativeLimit ∧
    MerklerootsService_GetMerkleRoots ([] : Store Nat) 5 none = .ok (none, some (.new "could not find tip")) := by
  decide

/-- the handler on a concrete store (root "a" at height 0, tip "b" at height 1): default batch size, an explicit one with
    a key, a negative one, one that is not a number, an unknown key -/
def exStoreS : Store String :=
  [ { id := 0, hash := "h0", prev := "", merkle := "a", height := 0, version := 1, time := 0, bits := 0, nonce := 0,
      work := 1, cum := 1, st := .lc },
    { id := 1, hash := "h1", prev := "h0", merkle := "b", height := 1, version := 1, time := 0, bits := 0, nonce := 0,
      work := 1, cum := 2, st := .lc } ]

def exReq (batchSize key : Option String) : Gin :=
  { query := fun k => if k = "batchSize" then batchSize else if k = "lastEvaluatedKey" then key else none }

example : (handler_merkleroots exStoreS (exReq none none)).map (·.out) =
      .ok [.json 200 (some { content := [⟨some "a", 0⟩, ⟨some "b", 1⟩],
                             page := { totalElements := 1, size := 2, lastEvaluatedKey := none } })] ∧
    (handler_merkleroots exStoreS (exReq (some "1") (some ""))).map (·.out) =
      .ok [.json 200 (some { content := [⟨some "a", 0⟩],
                             page := { totalElements := 1, size := 1, lastEvaluatedKey := some "a" } })] ∧
    (handler_merkleroots exStoreS (exReq (some "-1") none)).map (·.out) =
      .ok [.errorResponse (some (.bhs "ErrInvalidBatchSize"))] := by
  decide

example : (handler_merkleroots exStoreS (exReq (some "1x") none)).map (·.out) =
      .ok [.errorResponse (some (.bhsWrap "ErrInvalidBatchSize" .numError))] ∧
    (handler_merkleroots exStoreS (exReq (some "5") (some "zz"))).map (·.out) =
      .ok [.errorResponse (some (.bhs "ErrMerklerootNotFound"))] := by
  decide

example : Inv exCfg exStore ∧ DistinctRoots exStore ∧ 1 ≤ 2 ∧
    genWalk exStore 2 (exStore.length + 1) none = some [⟨some 0, 0⟩, ⟨some 2, 1⟩, ⟨some 3, 2⟩] :=
  ⟨exInv, exDistinct, by decide, by decide⟩

end BHS.Props.MerkleRootsGen
