/-
C08 — Merkle-root listing pages cover the longest chain exactly once, in order.
"Walking the merkle-root listing from the beginning and passing each page's last key to the next request until the
key comes back empty visits every longest-chain block exactly once in ascending height order, with at most the
requested number of entries per page, for every page size >= 1 and every stored tree whose merkle roots are pairwise
distinct (the page key is a merkle root). Stale and orphan blocks never appear. A key that matches no block yields a
not-found error and a key of a block that is not on the longest chain yields a conflict error, never a silently
wrong page."

Model: BHS/Model/Query.lean (`lastEvalHeight`, `rootsAfter`, `page`), a transcription of
getLastEvaluatedMerklerootHeight / sqlMerkleRootsFromHeight / HeaderRepository.GetMerkleRoots.
The theorems hold for EVERY store satisfying the chain invariant `Inv cfg s` (proved for every reachable store in
C01). Helper lemmas: BHS/Proofs/Query{Sort,Lc,Page}.lean.
-/
import BHS.Model.Query
import BHS.Spec.BestChain
import BHS.Proofs.QueryPage
import BHS.Props.C01

set_option linter.unusedSectionVars false

namespace BHS.Props.C08
open BHS BHS.Chain
variable {H : Type} [DecidableEq H]

/-- the merkle roots of the stored tree are pairwise distinct -/
def DistinctRoots (s : Store H) : Prop := (s.map (·.merkle)).Nodup

instance (s : Store H) : Decidable (DistinctRoots s) := by unfold DistinctRoots; infer_instance

/-- the client loop: request a page with the current key, append its rows, continue with the returned key until it
    comes back empty. `none` = an error answer, or the fuel ran out. -/
def walk (s : Store H) (n : Nat) : Nat → Option H → Option (List (Row H))
  | 0, _ => none
  | fuel + 1, key =>
    match page s n key with
    | .error _ => none
    | .ok (rows, none) => some rows
    | .ok (rows, some k) => (walk s n fuel (some k)).map (rows ++ ·)

/-! ### the concrete stores used by the non-vacuity examples (the store of C01 and an extension of its tip) -/

def exCfg : Cfg Nat := { hashOf := fun x => x.nonce + 1, forbidden := [99] }

def exRow (id hash prev merkle height cum : Nat) (st : St) : Row Nat :=
  { id := id, hash := hash, prev := prev, merkle := merkle, height := height, version := 1, time := merkle,
    bits := 486604799, nonce := hash - 1, work := 4295032833, cum := cum, st := st }

/-- root; a STALE child; its LONGEST_CHAIN sibling; the sibling's child (the tip); an ORPHAN; a STALE grandchild -/
def exStore : Store Nat :=
  [ exRow 0 1000 0 0 0 4295032833 .lc,
    exRow 1 2 1000 1 1 8590065666 .stale,
    exRow 2 3 1000 2 1 8590065666 .lc,
    exRow 3 4 3 3 2 12885098499 .lc,
    exRow 4 5 777 4 1 4295032833 .orphan,
    exRow 5 6 2 5 2 12885098499 .stale ]

/-- `exStore` after two more headers extended the tip -/
def exStore' : Store Nat :=
  exStore ++ [ exRow 6 7 4 6 3 17180131332 .lc, exRow 7 8 7 7 4 21475164165 .lc ]

theorem exInv : Inv exCfg exStore := by decide
theorem exInv' : Inv exCfg exStore' := by decide
theorem exDistinct : DistinctRoots exStore := by decide
theorem exDistinct' : DistinctRoots exStore' := by decide

example : lcAsc exStore = [exRow 0 1000 0 0 0 4295032833 .lc, exRow 2 3 1000 2 1 8590065666 .lc,
    exRow 3 4 3 3 2 12885098499 .lc] := by decide

/-! ### the walk -/

/-- a walk that continues at position `i` of the sorted longest chain returns the rest of it -/
theorem walk_from {cfg : Cfg H} {s : Store H} {t : Row H} (hw : WF cfg s) (ht : t ∈ s) (hl : LcAt s t)
    (hm : DistinctRoots s) (n : Nat) (hn : 1 ≤ n) :
    ∀ (fuel i : Nat) (key : Option H), i ≤ (lcAsc s).length → (lcAsc s).length - i < fuel →
      lastEvalHeight s key = .ok ((i : Int) - 1) → walk s n fuel key = some ((lcAsc s).drop i) := by
  intro fuel
  induction fuel with
  | zero => intro i key _ h; omega
  | succ fuel ih =>
    intro i key hi hfuel hkey
    have hp : page s n key =
        .ok (((lcAsc s).drop i).take n, pageKey t (((lcAsc s).drop i).take n)) := by
      rw [page_eq hkey (hl.getTip ht), rootsAfter_pos (lcAsc_hf hw ht hl)]
    by_cases hend : (lcAsc s).length ≤ i + n
    · rw [pageKey_end hw ht hl i n hend] at hp
      simp only [walk, hp]
      rw [List.take_of_length_le (by rw [List.length_drop]; omega)]
    · have hlt : i + n < (lcAsc s).length := by omega
      rw [pageKey_inner hw ht hl hm i n hn hlt] at hp
      have hidx : i + n - 1 < (lcAsc s).length := by omega
      have hmem := mem_lcAsc.1 (List.getElem_mem hidx)
      have hk := lastEvalHeight_lc hm hmem.1 hmem.2
      rw [lcAsc_getElem_height hw ht hl _ hidx] at hk
      have hcast : ((i + n - 1 : Nat) : Int) = ((i + n : Nat) : Int) - 1 := by omega
      rw [hcast] at hk
      have := ih (i + n) _ (by omega) (by omega) hk
      simp only [walk, hp, this, Option.map_some]
      rw [← List.drop_drop, List.take_append_drop]

/-- the concatenated pages of a walk from the beginning are exactly the longest-chain rows in ascending height
    order — every longest-chain block once, nothing else (`C08_lcAsc_is_chain` says what `lcAsc s` is) -/
theorem C08_walk (cfg : Cfg H) (s : Store H) (n : Nat) (h : Inv cfg s) (hm : DistinctRoots s) (hn : 1 ≤ n) :
    walk s n (s.length + 1) none = some (lcAsc s) := by
  obtain ⟨hw, t, ht, hl⟩ := h
  have := walk_from hw ht hl hm n hn (s.length + 1) 0 none (Nat.zero_le _)
    (by have := length_lcAsc_le s; omega) rfl
  rw [this, List.drop_zero]

example : Inv exCfg exStore ∧ DistinctRoots exStore ∧ 1 ≤ 2 := ⟨exInv, exDistinct, by decide⟩
/-- the walk on the concrete store takes two pages -/
example : page exStore 2 none =
    .ok ([exRow 0 1000 0 0 0 4295032833 .lc, exRow 2 3 1000 2 1 8590065666 .lc], some 2) ∧
    page exStore 2 (some 2) = .ok ([exRow 3 4 3 3 2 12885098499 .lc], none) ∧
    walk exStore 2 (exStore.length + 1) none = some (lcAsc exStore) := by decide

/-- `lcAsc s` is: a permutation of the LONGEST_CHAIN rows of `s`; exactly the rows of the parent-linked path
    `chainTo s t` from the tip `t` down to the root; with heights `0, 1, …, t.height` in this order (so strictly
    ascending, one row per height); ending in the tip -/
theorem C08_lcAsc_is_chain (cfg : Cfg H) (s : Store H) (t : Row H) (h : Inv cfg s) (htip : getTip s = some t) :
    (lcAsc s).Perm (s.filter (fun r => decide (r.st = .lc))) ∧
    (∀ r, r ∈ lcAsc s ↔ r ∈ chainTo s t) ∧
    (lcAsc s).map (·.height) = List.range (t.height + 1) ∧
    (lcAsc s).getLast? = some t := by
  obtain ⟨t', ht', ec, _, hc⟩ := canon_of_inv h
  rw [htip] at ec; cases ec
  obtain ⟨hw, t', ht'', hl⟩ := h
  have : t' = t := by have := hl.getTip ht''; rw [htip] at this; cases this; rfl
  subst this
  refine ⟨perm_lcAsc s, ?_, lcAsc_heights hw ht' hl, lcAsc_getLast hw ht' hl⟩
  intro r
  rw [mem_lcAsc]
  constructor
  · rintro ⟨hr, hrl⟩; exact (hc r hr).1 hrl
  · intro hr; exact ⟨chainTo_mem hr, (hc r (chainTo_mem hr)).2 hr⟩

example : Inv exCfg exStore ∧ getTip exStore = some (exRow 3 4 3 3 2 12885098499 .lc) := ⟨exInv, by decide⟩

/-! ### every single page -/

/-- at most the requested number of entries per page -/
theorem C08_page_size (s : Store H) (n : Nat) (key : Option H) (rows : List (Row H)) (k' : Option H)
    (hp : page s n key = .ok (rows, k')) : rows.length ≤ n := by
  obtain ⟨h, t, _, _, e, _⟩ := page_ok hp
  rw [e]; exact length_rootsAfter_le s h n

example : page exStore 1 (some 0) = .ok ([exRow 2 3 1000 2 1 8590065666 .lc], some 2) := by decide

/-- stale and orphan blocks never appear: every row of every successful page is a stored LONGEST_CHAIN row, and it
    lies above the block of the key (the row the key lookup found: a LONGEST_CHAIN row with that merkle root) -/
theorem C08_no_stale (s : Store H) (n : Nat) (key : Option H) (rows : List (Row H)) (k' : Option H)
    (hp : page s n key = .ok (rows, k')) :
    ∀ r ∈ rows, r ∈ s ∧ r.st = .lc ∧
      ∀ k, key = some k → ∃ kr ∈ s, kr.merkle = k ∧ kr.st = .lc ∧ kr.height < r.height := by
  obtain ⟨h, t, e1, _, e, _⟩ := page_ok hp
  intro r hr
  rw [e] at hr
  obtain ⟨h1, h2, h3⟩ := mem_rootsAfter hr
  refine ⟨h1, h2, ?_⟩
  intro k hk
  rcases lastEvalHeight_ok e1 with ⟨hn, _⟩ | ⟨k0, kr, e2, hkr, hkm, hkl, hh⟩
  · rw [hn] at hk; cases hk
  · rw [e2] at hk; cases hk
    exact ⟨kr, hkr, hkm, hkl, by omega⟩

/-- with distinct roots the key's block is THE stored block with that merkle root -/
theorem C08_no_stale_key (s : Store H) (n : Nat) (kr : Row H) (rows : List (Row H)) (k' : Option H)
    (hm : DistinctRoots s) (hkr : kr ∈ s) (hp : page s n (some kr.merkle) = .ok (rows, k')) :
    kr.st = .lc ∧ ∀ r ∈ rows, r ∈ s ∧ r.st = .lc ∧ kr.height < r.height := by
  have key : ∀ r ∈ rows, r ∈ s ∧ r.st = .lc ∧ (kr.st = .lc ∧ kr.height < r.height) := by
    intro r hr
    obtain ⟨h1, h2, h3⟩ := C08_no_stale s n _ rows k' hp r hr
    obtain ⟨kr', hkr', e, hl, hlt⟩ := h3 _ rfl
    have : kr' = kr := inj_of_nodup_map (fun r : Row H => r.merkle) hm hkr' hkr e
    subst this
    exact ⟨h1, h2, hl, hlt⟩
  refine ⟨?_, fun r hr => ⟨(key r hr).1, (key r hr).2.1, (key r hr).2.2.2⟩⟩
  by_cases hl : kr.st = .lc
  · exact hl
  · rw [page_error (lastEvalHeight_notLc hm hkr hl)] at hp; cases hp

example : DistinctRoots exStore ∧ exRow 2 3 1000 2 1 8590065666 .lc ∈ exStore ∧
    page exStore 5 (some 2) = .ok ([exRow 3 4 3 3 2 12885098499 .lc], none) := by decide

/-- a key that matches no block yields the not-found error; (with distinct roots) the key of a block that is not
    on the longest chain yields the conflict error — never a page -/
theorem C08_bad_key (s : Store H) (n : Nat) :
    (∀ k, (∀ r ∈ s, r.merkle ≠ k) → page s n (some k) = .error .notFound) ∧
    (DistinctRoots s → ∀ r ∈ s, r.st ≠ .lc → page s n (some r.merkle) = .error .notLc) :=
  ⟨fun _ h => page_error (lastEvalHeight_notFound h),
   fun hm _ hr hl => page_error (lastEvalHeight_notLc hm hr hl)⟩

example : (∀ r ∈ exStore, r.merkle ≠ 77) ∧ DistinctRoots exStore ∧
    exRow 1 2 1000 1 1 8590065666 .stale ∈ exStore ∧ exRow 4 5 777 4 1 4295032833 .orphan ∈ exStore ∧
    page exStore 3 (some 77) = .error .notFound ∧ page exStore 3 (some 1) = .error .notLc ∧
    page exStore 3 (some 4) = .error .notLc := by decide

/-- batch size 0 with a valid key (empty, or the merkle root the lookup resolves to a longest-chain block):
    an empty page and an empty key, no error -/
theorem C08_zero (cfg : Cfg H) (s : Store H) (key : Option H) (h : Inv cfg s)
    (hv : ∃ ht, lastEvalHeight s key = .ok ht) : page s 0 key = .ok ([], none) := by
  obtain ⟨ht, e⟩ := hv
  obtain ⟨t, _, _, htip⟩ := h.tip
  rw [page_eq e htip]
  have : rootsAfter s ht 0 = [] := by unfold rootsAfter; exact List.take_zero
  rw [this]; rfl

example : Inv exCfg exStore ∧ lastEvalHeight exStore (some 2) = .ok 1 ∧ lastEvalHeight exStore none = .ok (-1) :=
  ⟨exInv, by decide, by decide⟩

/-! ### a walk interleaved with extensions of the tip -/

/-- the store grew while a client was walking: the longest chain of the new store `s'` is the old one plus an
    extension. The next page, requested on `s'` with the key the client holds — the merkle root of the `i`-th row of
    the OLD longest chain — is the slice of the NEW longest chain following position `i`; and the walk resumed with
    that key returns the whole rest of the new longest chain. So the blocks the client has seen (positions `0 … i`)
    and the ones it will see (`i+1 …`) are together every block of the new longest chain, once, in order. -/
theorem C08_interleaved (cfg : Cfg H) (s s' : Store H) (ext : List (Row H)) (n i : Nat) (h' : Inv cfg s')
    (hm' : DistinctRoots s') (happ : lcAsc s' = lcAsc s ++ ext) (hi : i < (lcAsc s).length) :
    (∃ k', page s' n (some (lcAsc s)[i].merkle) = .ok (((lcAsc s').drop (i + 1)).take n, k')) ∧
    (1 ≤ n → walk s' n (s'.length + 1) (some (lcAsc s)[i].merkle) = some ((lcAsc s').drop (i + 1))) ∧
    (lcAsc s').take (i + 1) = (lcAsc s).take (i + 1) := by
  obtain ⟨hw, t, ht, hl⟩ := h'
  have hi' : i < (lcAsc s').length := by rw [happ, List.length_append]; omega
  have he : (lcAsc s)[i] = (lcAsc s')[i] := by
    simp only [happ]; rw [List.getElem_append_left hi]
  refine ⟨⟨_, by rw [he]; exact page_at hw ht hl hm' n i hi'⟩, ?_, ?_⟩
  · intro hn
    rw [he]
    have hmem := mem_lcAsc.1 (List.getElem_mem hi')
    have hk := lastEvalHeight_lc hm' hmem.1 hmem.2
    rw [lcAsc_getElem_height hw ht hl i hi'] at hk
    have hcast : ((i : Nat) : Int) = ((i + 1 : Nat) : Int) - 1 := by omega
    rw [hcast] at hk
    exact walk_from hw ht hl hm' n hn (s'.length + 1) (i + 1) _ (by omega)
      (by have := length_lcAsc_le s'; omega) hk
  · rw [happ, List.take_append_of_le_length (by omega)]

example : Inv exCfg exStore' ∧ DistinctRoots exStore' ∧
    lcAsc exStore' = lcAsc exStore ++ [exRow 6 7 4 6 3 17180131332 .lc, exRow 7 8 7 7 4 21475164165 .lc] ∧
    1 < (lcAsc exStore).length := ⟨exInv', exDistinct', by decide, by decide⟩
/-- first page on the old store, second page (with the first page's key) on the extended store -/
example : page exStore 2 none =
      .ok ([exRow 0 1000 0 0 0 4295032833 .lc, exRow 2 3 1000 2 1 8590065666 .lc], some 2) ∧
    walk exStore' 2 (exStore'.length + 1) (some 2) =
      some [exRow 3 4 3 3 2 12885098499 .lc, exRow 6 7 4 6 3 17180131332 .lc, exRow 7 8 7 7 4 21475164165 .lc] := by
  decide

/-! ### for every store reachable by ingestion
The theorems above restated for `run cfg [g] hist` — the store after ANY ingestion history (reorganisations, stale
blocks, orphans, duplicates, forbidden and zero-work headers) from a root row `g`; the chain invariant comes from
`C01_canonical`, so no `Inv` hypothesis is left. `DistinctRoots` of the reached store stays: it is the property's
own hypothesis about the submitted headers (the page key is a merkle root). -/
section Reachable
open BHS.Props.C01 (IsRoot HashAvoids C01_canonical)

theorem C08_walk_reachable (cfg : Cfg H) (g : Row H) (hg : IsRoot g) (hz : HashAvoids cfg g.prev)
    (hist : List (Src H)) (n : Nat) (hm : DistinctRoots (run cfg [g] hist)) (hn : 1 ≤ n) :
    walk (run cfg [g] hist) n ((run cfg [g] hist).length + 1) none = some (lcAsc (run cfg [g] hist)) :=
  C08_walk cfg _ n (C01_canonical cfg g hg hz hist).1 hm hn

theorem C08_lcAsc_is_chain_reachable (cfg : Cfg H) (g : Row H) (hg : IsRoot g) (hz : HashAvoids cfg g.prev)
    (hist : List (Src H)) (t : Row H) (htip : getTip (run cfg [g] hist) = some t) :
    (lcAsc (run cfg [g] hist)).Perm ((run cfg [g] hist).filter (fun r => decide (r.st = .lc))) ∧
    (∀ r, r ∈ lcAsc (run cfg [g] hist) ↔ r ∈ chainTo (run cfg [g] hist) t) ∧
    (lcAsc (run cfg [g] hist)).map (·.height) = List.range (t.height + 1) ∧
    (lcAsc (run cfg [g] hist)).getLast? = some t :=
  C08_lcAsc_is_chain cfg _ t (C01_canonical cfg g hg hz hist).1 htip

theorem C08_bad_key_reachable (cfg : Cfg H) (g : Row H) (hist : List (Src H)) (n : Nat) :
    (∀ k, (∀ r ∈ run cfg [g] hist, r.merkle ≠ k) → page (run cfg [g] hist) n (some k) = .error .notFound) ∧
    (DistinctRoots (run cfg [g] hist) → ∀ r ∈ run cfg [g] hist, r.st ≠ .lc →
      page (run cfg [g] hist) n (some r.merkle) = .error .notLc) :=
  C08_bad_key _ n

theorem C08_zero_reachable (cfg : Cfg H) (g : Row H) (hg : IsRoot g) (hz : HashAvoids cfg g.prev)
    (hist : List (Src H)) (key : Option H) (hv : ∃ ht, lastEvalHeight (run cfg [g] hist) key = .ok ht) :
    page (run cfg [g] hist) 0 key = .ok ([], none) :=
  C08_zero cfg _ key (C01_canonical cfg g hg hz hist).1 hv

/-- a walk interleaved with further ingestion (`more` is submitted while the client holds the key of the `i`-th row
    of the old longest chain) -/
theorem C08_interleaved_reachable (cfg : Cfg H) (g : Row H) (hg : IsRoot g) (hz : HashAvoids cfg g.prev)
    (hist more : List (Src H)) (ext : List (Row H)) (n i : Nat)
    (hm' : DistinctRoots (run cfg [g] (hist ++ more)))
    (happ : lcAsc (run cfg [g] (hist ++ more)) = lcAsc (run cfg [g] hist) ++ ext)
    (hi : i < (lcAsc (run cfg [g] hist)).length) :
    (∃ k', page (run cfg [g] (hist ++ more)) n (some (lcAsc (run cfg [g] hist))[i].merkle) =
      .ok (((lcAsc (run cfg [g] (hist ++ more))).drop (i + 1)).take n, k')) ∧
    (1 ≤ n → walk (run cfg [g] (hist ++ more)) n ((run cfg [g] (hist ++ more)).length + 1)
      (some (lcAsc (run cfg [g] hist))[i].merkle) = some ((lcAsc (run cfg [g] (hist ++ more))).drop (i + 1))) ∧
    (lcAsc (run cfg [g] (hist ++ more))).take (i + 1) = (lcAsc (run cfg [g] hist)).take (i + 1) :=
  C08_interleaved cfg _ _ ext n i (C01_canonical cfg g hg hz (hist ++ more)).1 hm' happ hi

/-- non-vacuity on the history of C01 (fork, tie, reorganisation, orphan; merkle roots 0 … 5): the walk with page
    size 2 returns the three longest-chain rows; then two more headers extend the tip while the client holds key 2 -/
example : IsRoot C01.exRoot ∧ HashAvoids C01.exCfg C01.exRoot.prev ∧
    DistinctRoots (run C01.exCfg [C01.exRoot] C01.exHist) ∧
    (lcAsc (run C01.exCfg [C01.exRoot] C01.exHist)).map (·.hash) = [1000, 3, 4] ∧
    walk (run C01.exCfg [C01.exRoot] C01.exHist) 2 ((run C01.exCfg [C01.exRoot] C01.exHist).length + 1) none =
      some (lcAsc (run C01.exCfg [C01.exRoot] C01.exHist)) :=
  ⟨by decide, C01.exAvoids, by decide, by decide,
    C08_walk_reachable C01.exCfg C01.exRoot (by decide) C01.exAvoids C01.exHist 2 (by decide) (by decide)⟩

example : DistinctRoots (run C01.exCfg [C01.exRoot] (C01.exHist ++ [C01.exSrc 4 6, C01.exSrc 7 7])) ∧
    lcAsc (run C01.exCfg [C01.exRoot] (C01.exHist ++ [C01.exSrc 4 6, C01.exSrc 7 7])) =
      lcAsc (run C01.exCfg [C01.exRoot] C01.exHist) ++
        (lcAsc (run C01.exCfg [C01.exRoot] (C01.exHist ++ [C01.exSrc 4 6, C01.exSrc 7 7]))).drop 3 ∧
    ((lcAsc (run C01.exCfg [C01.exRoot] (C01.exHist ++ [C01.exSrc 4 6, C01.exSrc 7 7]))).drop 3).map (·.hash) = [7, 8] ∧
    1 < (lcAsc (run C01.exCfg [C01.exRoot] C01.exHist)).length := by decide

end Reachable

end BHS.Props.C08
