/-
Pinned SQL: the normalised text of every statement the hand-written chain model (BHS/Model/Chain.lean, Query.lean)
was transcribed from, compared with BHS/Gen/SqlText.lean, which is REGENERATED from /repo/database/sql on every run.
An edited statement re-opens the obligation of every property whose model reads through it; the check then
searches for a failing input (correspondence + oracle) and reports the violation with it, or `no-failing-input-found`.
One module per group of statements (BHS/Props/SqlShape/*.lean): a property depends only on the statements ITS model reads
through, so an edited statement re-opens only the obligations of the properties it concerns.
-/
import BHS.Props.SqlShape.Add
import BHS.Props.SqlShape.Verify
import BHS.Props.SqlShape.Page
import BHS.Props.SqlShape.GetHeaders
import BHS.Props.SqlShape.Query
