/-
Refinement: the Lean definitions REGENERATED from /repo/config/config.go on every run
(`BHS.Gen.CfgValidate`: `fileExists`, `(*DbConfig).Validate`, `(*AppConfig).Validate`, translated statement by
statement by harness/cmd/extract/gen_cfgvalidate.go) compute, for EVERY database section and EVERY behaviour of
os.Stat, the verdict of the hand model `BHS.Config.validateDb` that the C20 validation theorems are stated over.

The hand model takes `fileExists : String → Bool` as an input.  The generated code takes os.Stat itself as the
input (`String → Option StatFail`: nil / does-not-exist / any other error) and contains the translated body of
`fileExists`; the refinement instantiates the hand model's input with "os.Stat returned no error" (`statOk`) — the
meaning the C20 oracle gives it (an independent lstat).  A `fileExists` that answers `true` for a path that cannot
be stat'ed (the past defect `!os.IsNotExist(err)`, finding C20-F2) makes `CfgValidate_fileExists_translated`, and
with it every theorem below, fail.  No hypothesis: the equalities hold for all inputs.
-/
import BHS.Model.Config
import BHS.Gen.CfgValidate
import BHS.Gen.ConfigKeys
import BHS.Props.C20

namespace BHS.Props.CfgValidate
open BHS BHS.Config BHS.Gen.CfgValidate

/-- The verdict an `error` result stands for (nil = accepted). -/
def verdict : Option Refusal → Verdict
  | none => .ok
  | some r => .refused r

/-- "Something can be stat'ed at the path": the instance of the hand model's `fileExists` input. -/
def statOk (stat : String → Option StatFail) : String → Bool := fun p => decide (stat p = none)

/-- An os.Stat realising a given Boolean oracle (every input of the hand model is covered). -/
def statOf (ex : String → Bool) : String → Option StatFail := fun p => if ex p then none else some .notExist

/-! ### Refinement -/

/-- Translated `config.fileExists` answers `true` exactly when os.Stat returned no error — for the
does-not-exist error AND for every other error. -/
theorem CfgValidate_fileExists_translated (stat : String → Option StatFail) (p : String) :
    fileExists stat p = statOk stat p := by
  simp only [fileExists, statOk, Id.run, pure]
  cases stat p <;> rfl

/-- For every database section (or none) and every os.Stat, translated `(*DbConfig).Validate` returns the hand
model's verdict. -/
theorem CfgValidate_db_translated (stat : String → Option StatFail) (c : Option DbSection) :
    verdict (dbConfigValidate stat c) = validateDb (statOk stat) c := by
  cases c with
  | none => rfl
  | some c =>
    simp only [dbConfigValidate, CfgValidate_fileExists_translated, validateDb, statOk, engineSqlite, enginePostgres,
      Id.run, pure]
    cases hp : c.prepared <;> by_cases h1 : c.preparedPath = "" <;> by_cases h2 : stat c.preparedPath = none <;>
      by_cases hs : c.engine = "sqlite" <;> by_cases hg : c.engine = "postgres" <;>
      by_cases h3 : c.sqlitePath = "" <;> simp_all [verdict] <;>
      (simp only [or_assoc]; by_cases h4 : c.pgHost = "" ∨ c.pgPort = 0 ∨ c.pgUser = "" ∨ c.pgDb = "" <;> simp [h4])

/-- … and so does translated `(*AppConfig).Validate` (which is what cmd/main.go calls) on the `db` field. -/
theorem CfgValidate_app_translated (stat : String → Option StatFail) (db : Option DbSection) :
    verdict (appConfigValidate stat db) = validateDb (statOk stat) db := by
  rw [← CfgValidate_db_translated]
  simp only [appConfigValidate, Id.run, pure]
  cases dbConfigValidate stat db <;> rfl

/-- Every Boolean `fileExists` oracle of the hand model is the `statOk` of some os.Stat: the refinement covers
every instance of `validateDb`. -/
theorem CfgValidate_every_oracle (ex : String → Bool) (db : Option DbSection) :
    verdict (appConfigValidate (statOf ex) db) = validateDb ex db := by
  rw [CfgValidate_app_translated]
  congr 1; funext p; simp only [statOk, statOf]; by_cases h : ex p = true <;> simp [h]

/-! ### The C20 validation headlines, over the generated definition -/

/-- (C20_validate) The code accepts exactly: (prepared database off, or its path non-empty and os.Stat of it
succeeding) and (engine sqlite with a non-empty path, or engine postgres with host, port, user, database name). -/
theorem CfgValidate_accepts_iff (stat : String → Option StatFail) (c : DbSection) :
    appConfigValidate stat (some c) = none ↔
      (c.prepared = true → c.preparedPath ≠ "" ∧ stat c.preparedPath = none) ∧
      ((c.engine = Gen.dbSqlite ∧ c.sqlitePath ≠ "") ∨
       (c.engine = Gen.dbPostgres ∧ c.pgHost ≠ "" ∧ c.pgPort ≠ 0 ∧ c.pgUser ≠ "" ∧ c.pgDb ≠ "")) := by
  have h := BHS.Props.C20.C20_validate (statOk stat) c
  rw [← CfgValidate_app_translated] at h
  simp only [statOk, decide_eq_true_eq] at h
  rw [← h]
  cases appConfigValidate stat (some c) <;> simp [verdict]

/-- (C20_validate_reason, C20_refuses_nil) The error returned follows the order of the checks; a missing section
is refused. -/
theorem CfgValidate_reason (stat : String → Option StatFail) :
    appConfigValidate stat none = some .nilDb ∧
    ∀ c : DbSection, verdict (appConfigValidate stat (some c)) =
      if c.prepared = true ∧ c.preparedPath = "" then .refused .preparedPathEmpty
      else if c.prepared = true ∧ stat c.preparedPath ≠ none then .refused .preparedMissing
      else if c.engine = Gen.dbSqlite then (if c.sqlitePath = "" then .refused .sqlitePathEmpty else .ok)
      else if c.engine = Gen.dbPostgres then
        (if c.pgHost = "" ∨ c.pgPort = 0 ∨ c.pgUser = "" ∨ c.pgDb = "" then .refused .postgresIncomplete else .ok)
      else .refused .unsupportedEngine := by
  refine ⟨?_, fun c => ?_⟩
  · have h := CfgValidate_app_translated stat none
    rw [BHS.Props.C20.C20_refuses_nil] at h
    cases h' : appConfigValidate stat none <;> simp_all [verdict]
  · rw [CfgValidate_app_translated, BHS.Props.C20.C20_validate_reason]
    simp [statOk]

/-- (C20_refuses_missing_prepared_file, and the fixed finding C20-F2) With the prepared database on, a path that is
empty or at which os.Stat fails FOR ANY REASON (not only "does not exist") is refused by the code as it is now. -/
theorem CfgValidate_refuses_unstatable_prepared (stat : String → Option StatFail) (c : DbSection)
    (h1 : c.prepared = true) (h2 : c.preparedPath = "" ∨ stat c.preparedPath ≠ none) :
    appConfigValidate stat (some c) ≠ none := by
  rw [Ne, CfgValidate_accepts_iff]
  rcases h2 with h | h <;> simp [h1, h]

/-! ### Non-vacuity -/

private def okSqlite : DbSection :=
  { engine := "sqlite", sqlitePath := "./x.db", pgHost := "", pgPort := 0, pgUser := "", pgDb := "", prepared := false, preparedPath := "" }
private def okPg : DbSection :=
  { engine := "postgres", sqlitePath := "", pgHost := "h", pgPort := 5432, pgUser := "u", pgDb := "d", prepared := true, preparedPath := "p.gz" }
private def statA : String → Option StatFail := fun p => if p = "p.gz" then none else if p = "a/b" then some .other else some .notExist

example : appConfigValidate statA (some okSqlite) = none := by decide
example : appConfigValidate statA (some okPg) = none := by decide
example : appConfigValidate statA none = some .nilDb := by decide
example : appConfigValidate statA (some { okPg with preparedPath := "" }) = some .preparedPathEmpty := by decide
example : appConfigValidate statA (some { okPg with preparedPath := "nope" }) = some .preparedMissing := by decide
example : appConfigValidate statA (some { okPg with preparedPath := "a/b" }) = some .preparedMissing := by decide  -- ENOTDIR-like
example : appConfigValidate statA (some { okPg with pgPort := 0 }) = some .postgresIncomplete := by decide
example : appConfigValidate statA (some { okPg with pgDb := "" }) = some .postgresIncomplete := by decide
example : appConfigValidate statA (some { okSqlite with sqlitePath := "" }) = some .sqlitePathEmpty := by decide
example : appConfigValidate statA (some { okSqlite with engine := "mysql" }) = some .unsupportedEngine := by decide
example : fileExists statA "a/b" = false ∧ fileExists statA "p.gz" = true := by decide
-- hypotheses of CfgValidate_refuses_unstatable_prepared are met by a section that is otherwise complete
example : ({ okPg with preparedPath := "a/b" } : DbSection).prepared = true ∧ statA "a/b" ≠ none := by decide

end BHS.Props.CfgValidate
