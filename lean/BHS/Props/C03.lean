/-
C03 — Stored header identity and derived fields are exact and immutable. Every stored header's hash is
the double SHA-256 of its 80-byte serialisation, its height is its parent's height plus one, its work is
floor(2^256/(target+1)) for the target encoded by its bits (zero for non-positive targets) and its
cumulative work is its parent's plus its own; a header whose parent is unknown starts at height 1 with
only its own work. Version, previous hash, merkle root, timestamp (to the second), bits and nonce are
returned exactly as received. Once stored, no field of a header except its chain-state label ever
changes and no header ever disappears.

The theorems are about the executable models `BHS.Chain` (Model/Chain.lean, Model/Crash.lean) and
`BHS.Header` (Model/Header.lean), the regenerated `Gen.calcWork` (through `work` and C19) and the
regenerated table `Gen.sqlWrites` of every SQL write statement under /repo/database.
SHA-256 is only "a function on bytes" here (that it IS SHA-256 is tested, Model/Sha256.lean).
Helper lemmas: BHS/Proofs/Fields.lean, BHS/Proofs/FieldsBytes.lean.
-/
import BHS.Model.Chain
import BHS.Model.Crash
import BHS.Model.Header
import BHS.Spec.BestChain
import BHS.Gen.Sql
import BHS.Props.C01
import BHS.Props.C19
import BHS.Proofs.Fields
import BHS.Proofs.FieldsBytes

set_option linter.unusedSectionVars false

namespace BHS.Props.C03
open BHS BHS.Chain BHS.Header BHS.Sha256 BHS.Spec BHS.Props.C01
variable {H : Type} [DecidableEq H]

/-! ### identity and derived fields of the row `Add` stores -/

/-- the stored row: hash of the submission, the six fields exactly as received, work from the bits, height and
    cumulative work from the parent (or 1 / own work when the parent is unknown); it sits at position `s.length`
    of the new store and is what a later lookup by hash returns -/
theorem C03_stored_row (cfg : Cfg H) (s : Store H) (x : Src H) (r : Row H) (h : (add cfg s x).2 = .stored r) :
    r.hash = cfg.hashOf x ∧ srcOf r = x ∧ r.work = work x.bits ∧
    (∀ p, byHash s x.prev = some p → r.height = p.height + 1 ∧ r.cum = p.cum + r.work) ∧
    (byHash s x.prev = none → r.height = 1 ∧ r.cum = r.work) ∧
    r.id = s.length ∧ (add cfg s x).1.length = s.length + 1 ∧ (add cfg s x).1[s.length]? = some r ∧
    byHash (add cfg s x).1 (cfg.hashOf x) = some r := by
  have hl := add_lookup cfg s x r h
  rcases add_shape cfg s x with ⟨_, _, k⟩ | ⟨r', s', e1, e2, e3, f, _⟩
  · exact absurd h (k r)
  · rw [e1] at h
    injection h with h
    subst h
    obtain ⟨f1, f2, f3, f4, f5, f6⟩ := f
    refine ⟨f2, f3, f4, f5, f6, f1, ?_, ?_, hl⟩
    · rw [e2, List.length_append, e3]; rfl
    · rw [e2]; exact getElem?_append_singleton s' r' s.length e3

/-- the next row of the example store: a child of row 5 (height 2, cumulative work 12885098499) -/
def exNextRow : Row Nat :=
  { id := 6, hash := 7, prev := 6, merkle := 6, height := 3, version := 1, time := 6, bits := 486604799,
    nonce := 6, work := 4295032833, cum := 17180131332, st := .lc }

example : (add exCfg exStore exNext).2 = .stored exNextRow ∧
    (∃ p, byHash exStore exNext.prev = some p ∧ p.height = 2) := by decide

/-- unknown parent: the orphan of the example history -/
example : (add exCfg [exRoot] (exSrc 777 4)).2 = .stored { exOrphan with id := 1 } ∧
    byHash [exRoot] (exSrc 777 4).prev = none := by decide

/-! ### work -/

/-- work = floor(2^256/(target+1)) for the target encoded by the bits, zero for non-positive targets
    (on the regenerated `Gen.calcWork`, via C19) -/
theorem C03_work_exact (b : Nat) (hb : b < 2 ^ 32) :
    work b = (workSpec (targetSpec b)).toNat ∧
    (targetSpec b ≤ 0 → work b = 0) ∧
    (0 < targetSpec b → work b = 2 ^ 256 / ((targetSpec b).toNat + 1)) := by
  have e : work b = (workSpec (targetSpec b)).toNat := by
    unfold work
    rw [C19.C19_work b hb]
  refine ⟨e, ?_, ?_⟩
  · intro h
    rw [e, C19.C19_nonpos _ h]
    rfl
  · intro h
    rw [e]
    unfold workSpec
    rw [if_neg (by omega)]
    obtain ⟨n, hn⟩ := Int.eq_ofNat_of_zero_le (Int.le_of_lt h)
    rw [hn]
    have : (2 : Int) ^ 256 / ((n : Int) + 1) = ((2 ^ 256 / (n + 1) : Nat) : Int) := by
      rw [Int.natCast_ediv]
      simp
    rw [this]
    exact Int.toNat_natCast _

example : (486604799 : Nat) < 2 ^ 32 ∧ 0 < targetSpec 486604799 ∧ work 486604799 = 4295032833 := by decide
example : (0x04923456 : Nat) < 2 ^ 32 ∧ targetSpec 0x04923456 ≤ 0 ∧ work 0x04923456 = 0 := by decide

/-! ### the hash is the double SHA-256 of the 80-byte serialisation -/

/-- for the driver instance (`H := String`, `hashOf := blockHash`) -/
theorem C03_hash_is_sha256d (x : Src String) :
    blockHash x = displayHash (sha256d (serialize x)) ∧
    serialize x = le32 (int32Bits x.version) ++ hashBytes x.prev ++ hashBytes x.merkle ++ le32 x.time ++
      le32 x.bits ++ le32 x.nonce ∧
    (∀ n, (le32 n).length = 4) ∧
    ((hashBytes x.prev).length = 32 ∧ (hashBytes x.merkle).length = 32 → (serialize x).length = 80) :=
  ⟨rfl, serialize_layout x, le32_length, fun h => serialize_length x h.1 h.2⟩

example : (hashBytes genesisSrc.prev).length = 32 ∧ (hashBytes genesisSrc.merkle).length = 32 := by decide +kernel

/-- every row a reachable store holds (root aside) carries the hash of its own six fields: instantiated with
    `blockHash` this is "hash = sha256d of the serialisation of the stored fields" -/
theorem C03_hash_of_stored (forbidden : List String) (s : Store String)
    (h : WF { hashOf := blockHash, forbidden := forbidden } s) :
    ∀ r ∈ s, r.id ≠ 0 → r.hash = displayHash (sha256d (serialize (srcOf r))) :=
  fun r hr h0 => (h.hashes r hr h0).1

/-- (the genesis hash written out, so that the example does not evaluate SHA-256 in the kernel) -/
example : WF { hashOf := blockHash, forbidden := [] }
    [{ genesisRow with hash := "000000000019d6689c085ae165831e934ff763ae46a2a6c172b3f1b60a8ce26f" }] := by
  apply WF.init <;> decide

/-! ### returned exactly as received (byte level) -/

/-- integer and hex round trips, and `parse ∘ serialize = id` on well-formed headers -/
theorem C03_fields_roundtrip :
    (∀ n, n < 2 ^ 32 → getLe32 (le32 n) = n) ∧
    (∀ v : Int, -2 ^ 31 ≤ v → v < 2 ^ 31 → bitsToInt32 (int32Bits v) = v) ∧
    (∀ b : List UInt8, ofHex (toHex b) = some b) ∧
    (∀ b : List UInt8, hashBytes (displayHash b) = b) ∧
    (∀ x : Src String, WellFormed x → parse (serialize x) = some x) :=
  ⟨getLe32_le32, bitsToInt32_int32Bits, ofHex_toHex, hashBytes_displayHash, parse_serialize⟩

/-- the wire bytes of the genesis merkle root -/
def exMerkleBytes : List UInt8 :=
  [0x3b, 0xa3, 0xed, 0xfd, 0x7a, 0x7b, 0x12, 0xb2, 0x7a, 0xc7, 0x2c, 0x3e, 0x67, 0x76, 0x8f, 0x61,
   0x7f, 0xc8, 0x1b, 0xc3, 0x88, 0x8a, 0x51, 0x32, 0x3a, 0x9f, 0xb8, 0xaa, 0x4b, 0x1e, 0x5e, 0x4a]

example : WellFormed genesisSrc :=
  ⟨by decide, by decide, by decide, by decide, by decide,
   ⟨List.replicate 32 0, by decide, by decide⟩, ⟨exMerkleBytes, by decide, by decide⟩⟩

example : (-1 : Int) < 2 ^ 31 ∧ -2 ^ 31 ≤ (-1 : Int) ∧ int32Bits (-1) = 4294967295 := by decide

/-! ### immutability -/

/-- one submission, a submission cut after any number of its write transactions, and a restart keep every row
    (all fields but the state label) at its rowid -/
theorem C03_immutable_step (cfg : Cfg H) (g : Row H) (s : Store H) (x : Src H) (k : Nat) :
    rowsPreserved s (add cfg s x).1 ∧ rowsPreserved s (addPrefix cfg s x k) ∧ rowsPreserved s (restart g s) :=
  ⟨rowsPreserved_add cfg s x, rowsPreserved_addPrefix cfg s x k, rowsPreserved_restart g s⟩

/-- whole histories -/
theorem C03_immutable (cfg : Cfg H) (s : Store H) (hist : List (Src H)) : rowsPreserved s (run cfg s hist) :=
  rowsPreserved_run cfg hist s

/-- no header ever disappears, the table never shrinks -/
theorem C03_never_disappears (cfg : Cfg H) (s : Store H) (hist : List (Src H)) :
    s.length ≤ (run cfg s hist).length ∧ ∀ r ∈ s, ∃ r' ∈ run cfg s hist, sameButState r r' :=
  ⟨(rowsPreserved_run cfg hist s).1, fun _ hr => (rowsPreserved_run cfg hist s).mem hr⟩

/-- the first row of the example history as it was stored: LONGEST_CHAIN -/
def exFirst : Row Nat :=
  { id := 1, hash := 2, prev := 1000, merkle := 1, height := 1, version := 1, time := 1, bits := 486604799,
    nonce := 1, work := 4295032833, cum := 8590065666, st := .lc }

/-- a reorganisation really relabels rows, so "up to the state label" is not vacuous: row 1 of the example store was
    stored as LONGEST_CHAIN and is STALE at the end, everything else about it unchanged -/
example : exRoot ∈ [exRoot] ∧ rowsPreserved [exRoot] (run exCfg [exRoot] exHist) ∧
    (add exCfg [exRoot] (exSrc 1000 1)).2 = .stored exFirst ∧
    ∃ r' ∈ run exCfg [exRoot] exHist, sameButState exFirst r' ∧ r'.st = .stale := by decide

/-! ### the derived fields hold in every reachable store -/

/-- `WF` (BHS/Spec/BestChain.lean) holds after every history, zero-work headers included; in particular every
    non-root row has the hash of its own fields and the work of its own bits, and every connected non-root row has a
    stored, earlier parent from which its height and cumulative work derive -/
theorem C03_derived_invariant (cfg : Cfg H) (g : Row H) (hg : IsRoot g) (hz : HashAvoids cfg g.prev)
    (hist : List (Src H)) :
    WF cfg (run cfg [g] hist) ∧
    (∀ r ∈ run cfg [g] hist, r.id ≠ 0 → r.hash = cfg.hashOf (srcOf r) ∧ r.work = work r.bits) ∧
    (∀ r ∈ run cfg [g] hist, connected r → r.id ≠ 0 →
      ∃ p ∈ run cfg [g] hist, p.hash = r.prev ∧ p.id < r.id ∧ r.height = p.height + 1 ∧ r.cum = p.cum + r.work) := by
  have h := (WF.run hg.1 hz hist (WF.init cfg g hg.1 hg.2.1 hg.2.2.1 hg.2.2.2) (List.mem_singleton.2 rfl)).1
  refine ⟨h, ?_, ?_⟩
  · intro r hr h0
    have k := h.hashes r hr h0
    exact ⟨k.1, k.2.1⟩
  · intro r hr hc h0
    obtain ⟨p, hp, e1, e2, _, e3, e4⟩ := h.par r hr hc h0
    exact ⟨p, hp, e1, e2, e3, e4⟩

example : IsRoot exRoot ∧ HashAvoids exCfg exRoot.prev ∧ run exCfg [exRoot] exHist = exStore ∧
    (∃ r ∈ exStore, connected r ∧ r.id ≠ 0) :=
  ⟨by decide, exAvoids, exStore_eq, by decide⟩

/-- the same for EVERY non-root row, orphans included (`WF` speaks only of connected rows): its height and cumulative
    work derive from the row stored before it that carries its previous hash; if there was none — the parent was
    unknown — it has height 1 and only its own work -/
theorem C03_derived_all (cfg : Cfg H) (g : Row H) (hg : IsRoot g) (hz : HashAvoids cfg g.prev)
    (hist : List (Src H)) :
    ∀ r ∈ run cfg [g] hist, r.id ≠ 0 →
      (∃ p ∈ run cfg [g] hist, p.id < r.id ∧ p.hash = r.prev ∧ r.height = p.height + 1 ∧ r.cum = p.cum + r.work) ∨
      ((∀ p ∈ run cfg [g] hist, p.id < r.id → p.hash ≠ r.prev) ∧ r.height = 1 ∧ r.cum = r.work) :=
  Derived.run hg.1 hz hist (WF.init cfg g hg.1 hg.2.1 hg.2.2.1 hg.2.2.2) (List.mem_singleton.2 rfl)
    (fun _ hr h0 => absurd ((List.mem_singleton.1 hr) ▸ hg.1) h0)

/-- both disjuncts occur in the example store: row 3 derives from row 2, the orphan (row 4) has no earlier parent -/
example : IsRoot exRoot ∧ HashAvoids exCfg exRoot.prev ∧ Derived exStore ∧
    (∃ r ∈ exStore, r.id = 3 ∧ ∃ p ∈ exStore, p.id < r.id ∧ p.hash = r.prev) ∧
    (∃ r ∈ exStore, r.id = 4 ∧ (∀ p ∈ exStore, p.id < r.id → p.hash ≠ r.prev) ∧ r.height = 1 ∧ r.cum = r.work) :=
  ⟨by decide, exAvoids, by decide, by decide, by decide⟩

/-! ### the SQL layer can do nothing else -/

/-- the origins of one-time schema / import statements: a file under database/migrations/ (prefix test on the UTF-8
    bytes, which the kernel evaluates faster than on characters), database.go or import.go -/
def migrationOrigin (o : String) : Bool :=
  decide (o.toUTF8.data.toList.take 20 = "database/migrations/".toUTF8.data.toList) ||
    decide (o = "database/database.go") || decide (o = "database/import.go")

/-- what a write statement may do to table `headers` -/
def sqlOk (w : Gen.SqlWrite) : Bool :=
  -- a known kind of statement
  decide (w.verb ∈ ["insert", "update", "delete", "alter", "create-table", "create-index", "drop-index"]) &&
  -- an UPDATE of headers sets the state label and nothing else
  (if w.table = "headers" ∧ w.verb = "update" then decide (w.cols = ["header_state"]) else true) &&
  -- an INSERT into headers never overwrites
  (if w.table = "headers" ∧ w.verb = "insert" then decide (w.conflict = "do-nothing") else true) &&
  -- nothing deletes from headers while the service runs: the only DELETE is the start-up import's removal of the rows a
  -- REFUSED import had just written into the (until then empty) table — database/import.go, fix b6e0af0, property C17
  (if w.table = "headers" ∧ w.verb = "delete" then decide (w.origin = "database/import.go") else true) &&
  -- schema statements come only from migrations / database.go / import.go
  (if w.verb ∈ ["alter", "create-table", "create-index", "drop-index"] then migrationOrigin w.origin else true)

/-- over the regenerated table of every SQL write statement under /repo/database -/
theorem C03_sql_writes : ∀ w ∈ Gen.sqlWrites, sqlOk w = true := by decide

/-- the table does contain the statements the clauses speak about -/
example : (∃ w ∈ Gen.sqlWrites, w.table = "headers" ∧ w.verb = "update" ∧ w.origin = "database/sql/headers.go") ∧
    (∃ w ∈ Gen.sqlWrites, w.table = "headers" ∧ w.verb = "insert") ∧
    (∃ w ∈ Gen.sqlWrites, w.verb = "alter" ∧ migrationOrigin w.origin = true) := by decide

/-- and the predicate is not trivially true: an UPDATE of another column, a DELETE, a schema statement at run time -/
def exBadWrite (verb : String) (cols : List String) : Gen.SqlWrite :=
  { origin := "database/sql/headers.go", verb := verb, table := "headers", cols := cols, conflict := "" }

example : sqlOk (exBadWrite "update" ["height"]) = false ∧ sqlOk (exBadWrite "delete" []) = false ∧
    sqlOk (exBadWrite "alter" []) = false ∧ sqlOk (exBadWrite "update" ["header_state"]) = true := by decide

end BHS.Props.C03
