/-
C14, stream clause — repeated ReadMessage on one reader stays on frame boundaries.

The property's "hostile bytes are rejected without harm" includes what happens AFTER a rejection on a
live stream: the payload of a frame rejected on its header is skipped (discardInput), so the next read
starts at the next frame; nothing inside a rejected payload is ever parsed as a frame, and the frames that
follow are read intact. Stated over BHS.Wire.readFrame / readStream (lean/BHS/Model/WireStream.lean), which
the C14 runner compares with the real wire.ReadMessageWithEncodingN called repeatedly on one bytes.Reader
(op `wstream`), and tied to the single-call model of Props/C14.lean by `readFrame_agrees_readMessage`.
-/
import BHS.Model.WireStream
import BHS.Proofs.Wire
import BHS.Proofs.WireInv
import BHS.Props.C14

namespace BHS.Props.C14
open BHS BHS.Wire BHS.Gen BHS.Gen.WireC

theorem headerRd_frame (magic len : Nat) (cmd ck body : Bytes)
    (hm : magic < 2^32) (hl : len < 2^32) (hc : cmd.length = commandSize) (hk : ck.length = 4) :
    (headerRd (put32le magic ++ cmd ++ put32le len ++ ck ++ body)).2 = .ok ((magic, cmd, len, ck), body) := by
  unfold headerRd
  simp only [List.append_assoc]
  rw [get32le_bind _ hm, getBytes_bind _ _ hc, get32le_bind _ hl, getBytes_bind _ _ hk]
  rfl

/-- the result of the checksum test + decode does not depend on what follows the payload on the stream -/
theorem finishPayload_rest (H : Bytes → Bytes) (gmax pver : Nat) (t : MsgType) (ck payload r : Bytes) :
    (finishPayload H gmax pver t ck payload r).2 =
      match (finishPayload H gmax pver t ck payload []).2 with
      | .ok (m, _) => .ok (m, r)
      | .error e => .error e := by
  unfold finishPayload
  split
  · rfl
  · cases hr : decodeRd gmax pver t payload with
    | mk al res =>
      cases res with
      | error e => rfl
      | ok v => rfl

/-- RESYNCHRONISATION, one frame: whatever a whole frame `f` (header declaring L ≤ the global limit, then exactly L
    payload bytes) is answered with — a message, or a rejection for wrong magic / unknown command / per-type
    oversize / bad checksum / undecodable payload — the stream goes on exactly at the byte after the frame:
    the answer is the one `f` gets on its own, and what follows (`rest`) is untouched. -/
theorem readFrame_boundary (H : Bytes → Bytes) (gmax pver net : Nat) (f rest : Bytes) (hf : IsFrame gmax f) :
    (∃ m, readFrame H gmax pver net f = .msg m [] ∧ readFrame H gmax pver net (f ++ rest) = .msg m rest) ∨
    (∃ e, readFrame H gmax pver net f = .rejected e [] ∧ readFrame H gmax pver net (f ++ rest) = .rejected e rest) ∨
    (readFrame H gmax pver net f = .stop .unmodelled ∧ readFrame H gmax pver net (f ++ rest) = .stop .unmodelled) := by
  obtain ⟨magic, cmd, len, ck, payload, rfl, hm, hl, hc, hk, hg, hp⟩ := hf
  have e1 : put32le magic ++ cmd ++ put32le len ++ ck ++ payload ++ rest =
      put32le magic ++ cmd ++ put32le len ++ ck ++ (payload ++ rest) := by simp only [List.append_assoc]
  have d0 : payload.drop len = [] := by rw [← hp]; exact List.drop_length
  have t0 : payload.take len = payload := by rw [← hp]; exact List.take_length
  have d1 : (payload ++ rest).drop len = rest := by rw [← hp]; exact List.drop_left
  have t1 : (payload ++ rest).take len = payload := by rw [← hp]; exact List.take_left
  unfold readFrame
  rw [e1, headerRd_frame magic len cmd ck payload hm hl hc hk, headerRd_frame magic len cmd ck (payload ++ rest) hm hl hc hk]
  simp only
  unfold frameBody
  have hg' : ¬ len > gmax := by omega
  simp only [if_neg hg']
  by_cases hmag : magic ≠ net
  · simp only [if_pos hmag, d0, d1]; exact Or.inr (Or.inl ⟨_, rfl, rfl⟩)
  · simp only [if_neg hmag]
    cases hlk : lookupCmd (trimZeros cmd) with
    | none => simp only [d0, d1]; exact Or.inr (Or.inl ⟨_, rfl, rfl⟩)
    | some t =>
      simp only
      cases hmp : maxPayloadLength gmax pver t with
      | none => exact Or.inr (Or.inr ⟨rfl, rfl⟩)
      | some mpl =>
        simp only
        by_cases hov : len > mpl
        · simp only [if_pos hov, d0, d1]; exact Or.inr (Or.inl ⟨_, rfl, rfl⟩)
        · have s1 : ¬ payload.length < len := by omega
          have s2 : ¬ (payload ++ rest).length < len := by simp; omega
          simp only [if_neg hov, if_neg s1, if_neg s2, d0, d1, t0, t1]
          rw [finishPayload_rest H gmax pver t ck payload rest]
          cases hfp : (finishPayload H gmax pver t ck payload []).2 with
          | error e => exact Or.inr (Or.inl ⟨e, rfl, rfl⟩)
          | ok v =>
            obtain ⟨m, r⟩ := v
            have h := finishPayload_rest H gmax pver t ck payload []
            rw [hfp] at h
            simp only [Except.ok.injEq, Prod.mk.injEq, true_and] at h
            subst h
            exact Or.inl ⟨m, rfl, rfl⟩

/-- RESYNCHRONISATION, whole stream: on a stream that is a sequence of whole frames followed by anything, repeated
    ReadMessage answers frame by frame — the i-th answer is the answer the i-th frame gets on its own (a handed-out
    message is the decoding of exactly one frame, consuming exactly that frame) — and then carries on at `tail`.
    So no message is ever produced from bytes inside a rejected frame's payload, and the frames after a rejected
    frame are read intact. -/
theorem readStream_frames (H : Bytes → Bytes) (gmax pver net : Nat) (fs : List Bytes) (tail : Bytes) (k : Nat)
    (hfs : ∀ f ∈ fs, IsFrame gmax f ∧ readFrame H gmax pver net f ≠ .stop .unmodelled) :
    readStream H gmax pver net (fs.length + k) (fs.flatten ++ tail) =
      fs.map (frameItem H gmax pver net) ++ readStream H gmax pver net k tail := by
  induction fs with
  | nil => simp
  | cons f fs ih =>
    have hf := hfs f (List.mem_cons_self ..)
    have ih' := ih (fun g hg => hfs g (List.mem_cons_of_mem _ hg))
    have e : (f :: fs).flatten ++ tail = f ++ (fs.flatten ++ tail) := by simp
    have hl : (f :: fs).length + k = (fs.length + k) + 1 := by simp; omega
    rw [e, hl]
    simp only [List.map_cons, List.cons_append]
    rcases readFrame_boundary H gmax pver net f (fs.flatten ++ tail) hf.1 with ⟨m, h1, h2⟩ | ⟨e', h1, h2⟩ | ⟨h1, _⟩
    · rw [readStream, h2]
      simp only [frameItem, h1, ih']
      congr 2
      simp
    · rw [readStream, h2]
      simp only [frameItem, h1, ih']
    · exact absurd h1 hf.2

/-- the stream-layer outcome of one call is the single-call model's answer (Props/C14.lean: readMessage) -/
theorem readFrame_agrees_readMessage (H : Bytes → Bytes) (gmax pver net : Nat) (bs : Bytes) :
    match readFrame H gmax pver net bs with
    | .msg m rest => readMessage H gmax pver net bs = .ok (m, rest)
    | .rejected e _ => readMessage H gmax pver net bs = .error e
    | .stop e => readMessage H gmax pver net bs = .error e := by
  by_cases hs : bs.length < messageHeaderSize
  · -- short stream: both say eof
    have hr : readMessage H gmax pver net bs = .error .eof := by
      unfold readMessage readMessageRd
      rw [remaining_bind, if_pos hs]; rfl
    have hh : ∃ e, (headerRd bs).2 = .error e := by
      cases hh : (headerRd bs).2 with
      | error e => exact ⟨e, rfl⟩
      | ok v =>
        exfalso
        obtain ⟨⟨magic, cmd, len, ck⟩, body⟩ := v
        unfold headerRd at hh
        obtain ⟨a1, b1, h1, hh⟩ := bind_snd_inv hh
        obtain ⟨a2, b2, h2, hh⟩ := bind_snd_inv hh
        obtain ⟨a3, b3, h3, hh⟩ := bind_snd_inv hh
        obtain ⟨a4, b4, h4, hh⟩ := bind_snd_inv hh
        obtain ⟨e1, _⟩ := get32le_inv h1
        obtain ⟨e2, k2⟩ := getBytes_inv h2
        obtain ⟨e3, _⟩ := get32le_inv h3
        obtain ⟨e4, k4⟩ := getBytes_inv h4
        subst e1 e2 e3 e4
        simp only [List.length_append, put32le, List.length_cons, List.length_nil, k2, k4] at hs
        have : messageHeaderSize = 24 := rfl
        have : commandSize = 12 := rfl
        omega
    obtain ⟨e, he⟩ := hh
    unfold readFrame
    rw [he]
    exact hr
  · obtain ⟨magic, cmd, len, ck, body, rfl, hm, hl, hc, hk⟩ := frame_header_decompose bs (by omega)
    unfold readFrame readMessage
    rw [headerRd_frame magic len cmd ck body hm hl hc hk, readMessageRd_header H gmax pver net magic len cmd ck body hm hl hc hk]
    simp only
    unfold frameBody readBody
    by_cases h1 : len > gmax
    · simp only [if_pos h1]; rfl
    · simp only [if_neg h1]
      by_cases h2 : magic ≠ net
      · simp only [if_pos h2]; rfl
      · simp only [if_neg h2]
        cases hlk : lookupCmd (trimZeros cmd) with
        | none => rfl
        | some t =>
          simp only
          cases hmp : maxPayloadLength gmax pver t with
          | none => rfl
          | some mpl =>
            simp only
            by_cases h3 : len > mpl
            · simp only [if_pos h3]; rfl
            · simp only [if_neg h3]
              unfold readPayload
              rw [bind_snd_ok (m := Rd.alloc _) rfl]
              by_cases h4 : body.length < len
              · rw [if_pos h4]
                apply bind_snd_err
                unfold getBytes; rw [if_neg (by omega)]
              · rw [if_neg h4]
                have hb : body = body.take len ++ body.drop len := (List.take_append_drop len body).symm
                have hgb : (getBytes len body).2 = .ok (body.take len, body.drop len) := by
                  unfold getBytes; rw [if_pos (by omega)]
                rw [bind_snd_ok hgb]
                cases hfp : (finishPayload H gmax pver t ck (body.take len) (body.drop len)).2 with
                | error e => rfl
                | ok v => rfl

/-! ## non-vacuity (toy 32-byte hash; the driver runs the same functions with SHA-256) -/

/-- a frame from another network (magic 1) with a 2-byte payload, and a valid `ping 5` frame -/
def alienFrame : Bytes := [1, 0, 0, 0, 112, 105, 110, 103, 0, 0, 0, 0, 0, 0, 0, 0, 2, 0, 0, 0, 0, 0, 0, 0, 9, 9]
def pingFrame : Bytes := [0xe3, 0xe1, 0xf3, 0xe8, 112, 105, 110, 103, 0, 0, 0, 0, 0, 0, 0, 0, 8, 0, 0, 0, 0, 0, 0, 0, 5, 0, 0, 0, 0, 0, 0, 0]

example : IsFrame serviceMaxPayload alienFrame :=
  ⟨1, [112, 105, 110, 103, 0, 0, 0, 0, 0, 0, 0, 0], 2, [0, 0, 0, 0], [9, 9], by decide, by decide, by decide, by decide, by decide, by decide, by decide⟩
example : IsFrame serviceMaxPayload pingFrame :=
  ⟨mainNet, [112, 105, 110, 103, 0, 0, 0, 0, 0, 0, 0, 0], 8, [0, 0, 0, 0], [5, 0, 0, 0, 0, 0, 0, 0], by decide, by decide, by decide, by decide, by decide, by decide, by decide⟩
example : readFrame (fun _ => List.replicate 32 0) serviceMaxPayload 70013 mainNet alienFrame = .rejected .magic [] := by decide
example : readFrame (fun _ => List.replicate 32 0) serviceMaxPayload 70013 mainNet pingFrame = .msg (.ping 5) [] := by decide
-- the rejected frame's payload is skipped, the following frames are read intact, then the stream ends
example : readStream (fun _ => List.replicate 32 0) serviceMaxPayload 70013 mainNet 9 (alienFrame ++ pingFrame ++ alienFrame ++ pingFrame ++ [7]) =
    [.err .magic, .ok (.ping 5) 32, .err .magic, .ok (.ping 5) 32, .err .eof] := by decide
-- a length above the global limit is the one header-level rejection WITHOUT discardInput: the stream goes on right after the header
example : readFrame (fun _ => List.replicate 32 0) 1 70013 mainNet alienFrame = .rejected .oversizeGlobal [9, 9] := by decide

end BHS.Props.C14
