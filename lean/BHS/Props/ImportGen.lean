/-
The prepared-database import of C17, REGENERATED from the Go source and proved equal to the hand model.

`BHS/Gen/Import.lean` is written on every run by harness/cmd/extract/gen_import.go from /repo/database/import.go and
/repo/database/sqlite_adapter.go: `importHeaders` and every function it reaches (the skip rule, getHeadersFile, the
adapter's batch-after-batch loop, `insertHeaders` with the record loop and the values it carries from batch to batch,
prepareRecord / parseRecordToBlockHeadersSource / calculateFields, validateDbConsistency with its four checks, the
clean-up `removeImportedHeaders` on both error paths), statement by statement, over the primitives of
BHS/Model/ImportPrim.lean. This file proves: for EVERY file (record list or unreadable), batch size > 0, checkpoint list
and initial table, the generated `importHeaders` leaves the same table and reports the same verdict as the hand model
`ImpExp.start` (BHS/Model/ImpExp.lean) over which the C17 theorems are stated — and re-states the C17 headlines over the
generated definition. An edit of the Go functions changes the generated module and re-opens these obligations.

Hypothesis `hcsv`: the column-name line has at least one field. encoding/csv never yields a record without fields; the Go
text has a branch for it (`if len(record) == 0 { break }`) that the hand model does not have, so the two differ exactly
on such (impossible) input.
Helper lemmas: BHS/Proofs/ImportGen.lean.
-/
import BHS.Proofs.ImportGen
import BHS.Props.C17

set_option linter.unusedSectionVars false
set_option linter.unusedVariables false
set_option linter.unusedSimpArgs false

namespace BHS.Props.ImportGen
open BHS BHS.Chain BHS.ImpExp BHS.ImportPrim BHS.Gen.Import BHS.Proofs.ImportGen BHS.Props.C17

variable {H : Type} [DecidableEq H]

/-! ### parseRecordToBlockHeadersSource -/

/-- the record parser of the Go text against the hand model's `parseRecord`, for a record that passed the CSV reader's
    field-count rule -/
theorem Gen_parseRecord_refines (cfg : Cfg H) (cd : Codec H) (bs : Nat) (hdrLen : Nat) (rec : Record) (prev : H) (w : World H)
    (hlen : rec.length = hdrLen) :
    match parseRecord cd hdrLen prev rec with
    | .ok x => parseRecordToBlockHeadersSource cfg cd (kOf bs) rec (.hash prev) w = (.ok (some x, none), w)
    | .malformed e => ∃ e', parseRecordToBlockHeadersSource cfg cd (kOf bs) rec (.hash prev) w = (.ok (none, some e'), w) ∧
        fieldErr e' = some e
    | .outside => parseRecordToBlockHeadersSource cfg cd (kOf bs) rec (.hash prev) w = (.error .outside, w) := by
  unfold parseRecord
  rw [if_neg (by simpa using hlen)]
  have short : ∀ (r : Record), r.length ≠ 5 → ∃ e', parseRecordToBlockHeadersSource cfg cd (kOf bs) r (.hash prev) w =
      (.ok (none, some e'), w) ∧ fieldErr e' = some .recordLength := by
    intro r hr
    refine Exists.intro ?w ⟨?h1, ?h2⟩
    case h1 =>
      have hne : ((r.length : Nat) : Int) ≠ 5 := by exact_mod_cast hr
      simp only [parseRecordToBlockHeadersSource, kOf, consts, ne_eq, hne, not_false_eq_true, if_true, ↓reduceIte]
      rfl
    case h2 => rfl
  match rec, hlen with
  | [], _ => exact short _ (by simp)
  | [_], _ => exact short _ (by simp)
  | [_, _], _ => exact short _ (by simp)
  | [_, _, _], _ => exact short _ (by simp)
  | [_, _, _, _], _ => exact short _ (by simp)
  | _ :: _ :: _ :: _ :: _ :: _ :: _, _ => exact short _ (by simp)
  | [v, m, n, b, t], _ =>
    simp only [parseRecordToBlockHeadersSource, kOf, consts, List.length_cons, List.length_nil]
    cases hv : parseInt 32 v with
    | none => simp [indexRec, strconvParseInt, GoStr.text?, hv, fieldErr]
    | some ver =>
      cases hm : cd.parseH m with
      | none => simp [indexRec, strconvParseInt, parseChainHash, newHashFromStr, GoStr.text?, hv, hm, fieldErr]
      | some mr =>
        cases hn : parseUint 32 n with
        | none => simp [indexRec, strconvParseInt, strconvParseUint, parseChainHash, newHashFromStr, GoStr.text?, hv, hm, hn, fieldErr]
        | some nonce =>
          cases hb : parseUint 32 b with
          | none =>
            simp [indexRec, strconvParseInt, strconvParseUint, parseChainHash, newHashFromStr, GoStr.text?, hv, hm, hn, hb, fieldErr]
          | some bits =>
            cases ht : parseInt 64 t with
            | none =>
              simp [indexRec, strconvParseInt, strconvParseUint, parseChainHash, newHashFromStr, GoStr.text?, hv, hm, hn, hb, ht,
                fieldErr]
            | some ts =>
              by_cases hr : 0 ≤ ts ∧ ts < 4294967296
              · simp [indexRec, strconvParseInt, strconvParseUint, parseChainHash, newHashFromStr, GoStr.text?, hv, hm, hn, hb, ht,
                  timeUnix, hr]
              · simp [indexRec, strconvParseInt, strconvParseUint, parseChainHash, newHashFromStr, GoStr.text?, hv, hm, hn, hb, ht,
                  timeUnix, hr]

/-! ### calculateFields, prepareRecord -/

theorem Gen_calculateFields_refines (cfg : Cfg H) (cd : Codec H) (k : Consts) (x : Src H) (acc : Acc H) (cumS : GoStr H) (w : World H)
    (hc : CumOk cumS acc.cum) :
    calculateFields cfg cd k (some x) cumS (acc.idx : Int) w = (.ok (some (zeroId (mkImported cfg x acc))), w) := by
  simp [calculateFields, parseBigInt_cumOk hc, asHash, asDec, asState, mkImported, zeroId]

theorem Gen_prepareRecord_refines (cfg : Cfg H) (cd : Codec H) (bs : Nat) (hdrLen : Nat) (rec : Record) (acc : Acc H) (cumS : GoStr H)
    (w : World H) (hlen : rec.length = hdrLen) (hc : CumOk cumS acc.cum) :
    match parseRecord cd hdrLen acc.prev rec with
    | .ok x => prepareRecord cfg cd (kOf bs) rec (.hash acc.prev) cumS (acc.idx : Int) w =
        (.ok (some (zeroId (mkImported cfg x acc)), none), w)
    | .malformed e => ∃ e', prepareRecord cfg cd (kOf bs) rec (.hash acc.prev) cumS (acc.idx : Int) w = (.ok (none, some e'), w) ∧
        classify e' = .refused (.row acc.idx e)
    | .outside => prepareRecord cfg cd (kOf bs) rec (.hash acc.prev) cumS (acc.idx : Int) w = (.error .outside, w) := by
  have hp := Gen_parseRecord_refines cfg cd bs hdrLen rec acc.prev w hlen
  cases hr : parseRecord cd hdrLen acc.prev rec with
  | ok x =>
    rw [hr] at hp
    simp only [] at hp ⊢
    simp [prepareRecord, hp, Gen_calculateFields_refines cfg cd (kOf bs) x acc cumS w hc]
  | malformed e =>
    rw [hr] at hp
    simp only [] at hp ⊢
    obtain ⟨e', h1, h2⟩ := hp
    refine Exists.intro ?w ⟨?h1, ?h2⟩
    case h1 => simp [prepareRecord, h1]; rfl
    case h2 => exact classify_onHeight _ _ _ h2 (Int.natCast_nonneg _)
  | outside =>
    rw [hr] at hp
    simp only [] at hp ⊢
    simp [prepareRecord, hp]

/-- The record loop of `insertHeaders` (`n` iterations left) against `prepareBatch` on the next `n` unread records:
    the loop variables are the hand model's accumulator (row index, previous hash as a hash string, cumulated work as a
    decimal string), the batch grows by the prepared rows, the reader advances; a bad record ends the function with an
    error that names the row. -/
theorem Gen_insertHeaders_loop_refines (cfg : Cfg H) (cd : Codec H) (bs : Nat) (hdrLen : Nat) (hh : hdrLen ≠ 0) (bsI : Int) :
    ∀ (n : Nat) (w : World H) (acc : Acc H) (cumS : GoStr H) (err : Option Err) (batch : List (Row H)) (i : Int),
      i + n = bsI → w.fields = some hdrLen → w.nread = acc.idx + 1 → CumOk cumS acc.cum →
      (∀ rows acc', prepareBatch cfg cd hdrLen (w.rd.take n) acc = .ok rows acc' →
        ∃ cumS' err' i', CumOk cumS' acc'.cum ∧
          sqLiteAdapter_insertHeaders_loop1 cfg cd (kOf bs) bsI (n + 1) (acc.idx : Int) (.hash acc.prev) cumS err batch i w =
            (.ok (.next ((acc'.idx : Int), .hash acc'.prev, cumS', err', batch ++ rows.map zeroId, i')),
              { w with rd := w.rd.drop n, nread := w.nread + (w.rd.take n).length })) ∧
      (∀ j e, prepareBatch cfg cd hdrLen (w.rd.take n) acc = .bad j e →
        ∃ a b c e' w',
          sqLiteAdapter_insertHeaders_loop1 cfg cd (kOf bs) bsI (n + 1) (acc.idx : Int) (.hash acc.prev) cumS err batch i w =
            (.ok (.ret (a, b, c, some e')), w') ∧ w'.tbl = w.tbl ∧ classify e' = .refused (.row j e)) ∧
      (∀ j, prepareBatch cfg cd hdrLen (w.rd.take n) acc = .outside j →
        ∃ w',
          sqLiteAdapter_insertHeaders_loop1 cfg cd (kOf bs) bsI (n + 1) (acc.idx : Int) (.hash acc.prev) cumS err batch i w =
            (.error .outside, w') ∧ w'.tbl = w.tbl) := by
  intro n
  induction n with
  | zero =>
    intro w acc cumS err batch i hi hf hn hc
    have hlt : ¬ (i < bsI) := by omega
    have hL : sqLiteAdapter_insertHeaders_loop1 cfg cd (kOf bs) bsI (0 + 1) (acc.idx : Int) (.hash acc.prev) cumS err batch i w =
        (.ok (.next ((acc.idx : Int), .hash acc.prev, cumS, err, batch, i)), w) := by
      rw [sqLiteAdapter_insertHeaders_loop1]; simp [hlt]
    simp only [List.take_zero, prepareBatch_nil]
    refine ⟨?_, ?_, ?_⟩
    · intro rows acc' h
      cases h
      refine ⟨cumS, err, i, hc, ?_⟩
      rw [hL, world_upd_self w _ _ (by simp) (by simp)]
      simp
    · intro j e h; cases h
    · intro j h; cases h
  | succ n ih =>
    intro w acc cumS err batch i hi hf hn hc
    have hlt : i < bsI := by omega
    cases hrd : w.rd with
    | nil =>
      have hL : sqLiteAdapter_insertHeaders_loop1 cfg cd (kOf bs) bsI (n + 1 + 1) (acc.idx : Int) (.hash acc.prev) cumS err batch i w =
          (.ok (.next ((acc.idx : Int), .hash acc.prev, cumS, some .eof, batch, i)), w) := by
        rw [sqLiteAdapter_insertHeaders_loop1]; simp [hlt, csvRead, hrd, errorsIs]
      simp only [List.take_nil, prepareBatch_nil]
      refine ⟨?_, ?_, ?_⟩
      · intro rows acc' h
        cases h
        refine ⟨cumS, some .eof, i, hc, ?_⟩
        rw [hL, world_upd_self w _ _ (by simp [hrd]) (by simp)]
        simp
      · intro j e h; cases h
      · intro j h; cases h
    | cons r rest =>
      simp only [List.take_succ_cons]
      by_cases hlen : r.length = hdrLen
      · -- the reader accepts the record
        have hread : csvRead w = (.ok (r, none), { w with rd := rest, nread := w.nread + 1 }) := by
          simp [csvRead, hrd, hf, hlen]
        have hr0 : r ≠ [] := by intro h; subst h; exact hh (by simpa using hlen.symm)
        have hp := Gen_prepareRecord_refines cfg cd bs hdrLen r acc cumS { w with rd := rest, nread := w.nread + 1 } hlen hc
        rw [prepareBatch_cons]
        cases hpr : parseRecord cd hdrLen acc.prev r with
        | ok x =>
          rw [hpr] at hp
          simp only [] at hp ⊢
          have hL : sqLiteAdapter_insertHeaders_loop1 cfg cd (kOf bs) bsI (n + 1 + 1) (acc.idx : Int) (.hash acc.prev) cumS err batch i w =
              sqLiteAdapter_insertHeaders_loop1 cfg cd (kOf bs) bsI (n + 1) ((nextAcc (mkImported cfg x acc) acc).idx : Int)
                (.hash (nextAcc (mkImported cfg x acc) acc).prev) (.dec (mkImported cfg x acc).cum) none
                (batch ++ [zeroId (mkImported cfg x acc)]) (i + 1) { w with rd := rest, nread := w.nread + 1 } := by
            conv => lhs; rw [sqLiteAdapter_insertHeaders_loop1]
            simp [hlt, hread, hr0, hp, nextAcc]
          have ih' := ih { w with rd := rest, nread := w.nread + 1 } (nextAcc (mkImported cfg x acc) acc) (.dec (mkImported cfg x acc).cum)
            none (batch ++ [zeroId (mkImported cfg x acc)]) (i + 1) (by omega) hf (by simp [nextAcc]; omega) (Or.inl rfl)
          cases hrest : prepareBatch cfg cd hdrLen (rest.take n) (nextAcc (mkImported cfg x acc) acc) with
          | ok rows' a' =>
            refine ⟨?_, (by intro _ _ h; cases h), (by intro _ h; cases h)⟩
            intro rows acc' h
            simp only [BatchRes.ok.injEq] at h
            obtain ⟨rfl, rfl⟩ := h
            obtain ⟨cumS', err', i', hc', heq⟩ := ih'.1 rows' a' hrest
            refine ⟨cumS', err', i', hc', ?_⟩
            rw [hL, heq]
            simp [List.append_assoc]
            omega
          | bad j' e' =>
            refine ⟨(by intro _ _ h; cases h), ?_, (by intro _ h; cases h)⟩
            intro j e h
            simp only [BatchRes.bad.injEq] at h
            obtain ⟨rfl, rfl⟩ := h
            obtain ⟨a, b, c, e'', w', heq, ht, hcl⟩ := ih'.2.1 j' e' hrest
            exact ⟨a, b, c, e'', w', by rw [hL, heq], ht, hcl⟩
          | outside j' =>
            refine ⟨(by intro _ _ h; cases h), (by intro _ _ h; cases h), ?_⟩
            intro j h
            obtain ⟨w', heq, ht⟩ := ih'.2.2 j' hrest
            exact ⟨w', by rw [hL, heq], ht⟩
        | malformed e0 =>
          rw [hpr] at hp
          simp only [] at hp ⊢
          obtain ⟨e', hp1, hp2⟩ := hp
          have hL : sqLiteAdapter_insertHeaders_loop1 cfg cd (kOf bs) bsI (n + 1 + 1) (acc.idx : Int) (.hash acc.prev) cumS err batch i w =
              (.ok (.ret ((acc.idx : Int), .hash acc.prev, cumS, some e')), { w with rd := rest, nread := w.nread + 1 }) := by
            conv => lhs; rw [sqLiteAdapter_insertHeaders_loop1]
            simp [hlt, hread, hr0, hp1]
          refine ⟨(by intro _ _ h; cases h), ?_, (by intro _ h; cases h)⟩
          intro j e h
          simp only [BatchRes.bad.injEq] at h
          obtain ⟨rfl, rfl⟩ := h
          exact ⟨_, _, _, _, _, hL, rfl, hp2⟩
        | outside =>
          rw [hpr] at hp
          simp only [] at hp ⊢
          have hL : sqLiteAdapter_insertHeaders_loop1 cfg cd (kOf bs) bsI (n + 1 + 1) (acc.idx : Int) (.hash acc.prev) cumS err batch i w =
              (.error .outside, { w with rd := rest, nread := w.nread + 1 }) := by
            conv => lhs; rw [sqLiteAdapter_insertHeaders_loop1]
            simp [hlt, hread, hr0, hp]
          refine ⟨(by intro _ _ h; cases h), (by intro _ _ h; cases h), ?_⟩
          intro j h
          exact ⟨_, hL, rfl⟩
      · -- encoding/csv: wrong number of fields
        have hread : csvRead w = (.ok (r, some (.csvFieldCount w.nread)), { w with rd := rest, nread := w.nread + 1 }) := by
          simp [csvRead, hrd, hf, hlen]
        have hL : sqLiteAdapter_insertHeaders_loop1 cfg cd (kOf bs) bsI (n + 1 + 1) (acc.idx : Int) (.hash acc.prev) cumS err batch i w =
            (.ok (.ret ((acc.idx : Int), .hash acc.prev, cumS, some (.errorf "error reading record: %v" [] (.csvFieldCount w.nread)))),
              { w with rd := rest, nread := w.nread + 1 }) := by
          conv => lhs; rw [sqLiteAdapter_insertHeaders_loop1]
          simp [hlt, hread, errorsIs, errArg]
        have hpr : parseRecord cd hdrLen acc.prev r = .malformed .fieldCount := by
          unfold parseRecord; rw [if_pos hlen]
        rw [prepareBatch_cons, hpr]
        refine ⟨(by intro _ _ h; cases h), ?_, (by intro _ h; cases h)⟩
        intro j e h
        simp only [BatchRes.bad.injEq] at h
        obtain ⟨rfl, rfl⟩ := h
        exact ⟨_, _, _, _, _, hL, rfl, by rw [classify_fieldCount, hn]; simp⟩

/-! ### insertHeaders: one batch -/

theorem Gen_insertHeaders_refines (cfg : Cfg H) (cd : Codec H) (bs : Nat) (hdrLen : Nat) (hh : hdrLen ≠ 0) (w : World H) (acc : Acc H)
    (cumS : GoStr H) (hf : w.fields = some hdrLen) (hn : w.nread = acc.idx + 1) (hc : CumOk cumS acc.cum) :
    (∀ rows acc', prepareBatch cfg cd hdrLen (w.rd.take bs) acc = .ok rows acc' →
      ∃ cumS', CumOk cumS' acc'.cum ∧
        sqLiteAdapter_insertHeaders cfg cd (kOf bs) (bs : Int) (.hash acc.prev) cumS (acc.idx : Int) w =
          (.ok ((acc'.idx : Int), .hash acc'.prev, cumS', none),
            { w with rd := w.rd.drop bs, nread := w.nread + (w.rd.take bs).length, tbl := commitBatch w.tbl rows })) ∧
    (∀ j e, prepareBatch cfg cd hdrLen (w.rd.take bs) acc = .bad j e →
      ∃ a b c e' w',
        sqLiteAdapter_insertHeaders cfg cd (kOf bs) (bs : Int) (.hash acc.prev) cumS (acc.idx : Int) w =
          (.ok (a, b, c, some e'), w') ∧ w'.tbl = w.tbl ∧ classify e' = .refused (.row j e)) ∧
    (∀ j, prepareBatch cfg cd hdrLen (w.rd.take bs) acc = .outside j →
      ∃ w',
        sqLiteAdapter_insertHeaders cfg cd (kOf bs) (bs : Int) (.hash acc.prev) cumS (acc.idx : Int) w =
          (.error .outside, w') ∧ w'.tbl = w.tbl) := by
  have hl := Gen_insertHeaders_loop_refines cfg cd bs hdrLen hh (bs : Int) bs w acc cumS none [] 0 (by omega) hf hn hc
  have hfuel : ((bs : Int) - 0).toNat + 1 = bs + 1 := by simp
  refine ⟨?_, ?_, ?_⟩
  · intro rows acc' h
    obtain ⟨cumS', err', i', hc', heq⟩ := hl.1 rows acc' h
    refine ⟨cumS', hc', ?_⟩
    simp only [sqLiteAdapter_insertHeaders, hfuel, run_bind, run_pure, heq]
    simp [createMultiple, commitBatch_zeroId]
  · intro j e h
    obtain ⟨a, b, c, e', w', heq, ht, hcl⟩ := hl.2.1 j e h
    refine ⟨a, b, c, e', w', ?_, ht, hcl⟩
    simp only [sqLiteAdapter_insertHeaders, hfuel, run_bind, run_pure, heq]
  · intro j h
    obtain ⟨w', heq, ht⟩ := hl.2.2 j h
    refine ⟨w', ?_, ht⟩
    simp only [sqLiteAdapter_insertHeaders, hfuel, run_bind, run_pure, heq]

/-! ### the batch-after-batch loop of (*sqLiteAdapter).importHeaders -/

/-- a batch that reads nothing ends the loop -/
theorem Gen_adapter_loop_last (cfg : Cfg H) (cd : Codec H) (bs : Nat) (hdrLen : Nat) (hh : hdrLen ≠ 0) (w : World H) (acc : Acc H)
    (cumS : GoStr H) (err : Option Err) (f' : Nat) (hrd : w.rd = []) (hf : w.fields = some hdrLen)
    (hn : w.nread = acc.idx + 1) (hc : CumOk cumS acc.cum) :
    LoopOk (sqLiteAdapter_importHeaders_loop1 cfg cd (kOf bs) (f' + 1) (acc.idx : Int) err (.hash acc.prev) cumS (acc.idx : Int)
      (acc.idx : Int) w) w w.tbl (.done acc.idx) := by
  obtain ⟨cumS', hc', heq⟩ := (Gen_insertHeaders_refines cfg cd bs hdrLen hh w acc cumS hf hn hc).1 [] acc (by rw [hrd, List.take_nil]; rfl)
  show ∃ a b c d, ∃ w' : World H, _ = (Except.ok (Ctl.next ((acc.idx : Int), none, a, b, c, d)), w') ∧ w'.tbl = w.tbl ∧ w'.cps = w.cps
  refine ⟨.hash acc.prev, cumS', (acc.idx : Int), (acc.idx : Int),
    { w with rd := w.rd.drop bs, nread := w.nread + (w.rd.take bs).length, tbl := commitBatch w.tbl [] }, ?_, rfl, rfl⟩
  rw [sqLiteAdapter_importHeaders_loop1]
  simp only [kOf_batch, run_bind, heq]
  simp

/-- The `for { … }` of (*sqLiteAdapter).importHeaders against `importChunks` over the batches of the unread records:
    what is carried from batch to batch (row index, previous hash, cumulated work) is the hand model's accumulator,
    every batch is committed before the next is read, the loop ends on the first batch that reads nothing, and the
    fuel `unread records + 2` is never exhausted. -/
theorem Gen_adapter_loop_refines (cfg : Cfg H) (cd : Codec H) (bs : Nat) (hbs : 0 < bs) (hdrLen : Nat) (hh : hdrLen ≠ 0) :
    ∀ (g : Nat) (w : World H) (acc : Acc H) (cumS : GoStr H) (err : Option Err) (f : Nat),
      w.rd.length ≤ g → g + 2 ≤ f → w.fields = some hdrLen → w.nread = acc.idx + 1 → CumOk cumS acc.cum →
      LoopOk (sqLiteAdapter_importHeaders_loop1 cfg cd (kOf bs) f (acc.idx : Int) err (.hash acc.prev) cumS (acc.idx : Int)
          (acc.idx : Int) w) w
        (importChunks cfg cd hdrLen (chunkGo bs g w.rd) w.tbl acc).1
        (importChunks cfg cd hdrLen (chunkGo bs g w.rd) w.tbl acc).2 := by
  intro g
  induction g with
  | zero =>
    intro w acc cumS err f hg hfu hf hn hc
    have hrd : w.rd = [] := List.eq_nil_of_length_eq_zero (by omega)
    obtain ⟨f', rfl⟩ : ∃ f', f = f' + 1 := ⟨f - 1, by omega⟩
    have := Gen_adapter_loop_last cfg cd bs hdrLen hh w acc cumS err f' hrd hf hn hc
    rw [hrd]
    exact this
  | succ g ih =>
    intro w acc cumS err f hg hfu hf hn hc
    obtain ⟨f', rfl⟩ : ∃ f', f = f' + 1 := ⟨f - 1, by omega⟩
    cases hrd : w.rd with
    | nil =>
      have := Gen_adapter_loop_last cfg cd bs hdrLen hh w acc cumS err f' hrd hf hn hc
      exact this
    | cons r rest =>
      have hne : ((r :: rest).isEmpty) = false := rfl
      rw [chunkGo_succ, hne]
      simp only [Bool.false_eq_true, if_false]
      rw [importChunks_cons]
      have hs := Gen_insertHeaders_refines cfg cd bs hdrLen hh w acc cumS hf hn hc
      rw [hrd] at hs
      cases hpb : prepareBatch cfg cd hdrLen ((r :: rest).take bs) acc with
      | ok rows acc' =>
        simp only []
        obtain ⟨cumS', hc', heq⟩ := hs.1 rows acc' hpb
        have hidx := prepareBatch_idx cfg cd hdrLen _ acc rows acc' hpb
        have htl : 0 < ((r :: rest).take bs).length := by
          rw [List.length_take]; simp only [List.length_cons]; omega
        have hneq : ¬ ((acc.idx : Int) = (acc'.idx : Int)) := by omega
        have hL : sqLiteAdapter_importHeaders_loop1 cfg cd (kOf bs) (f' + 1) (acc.idx : Int) err (.hash acc.prev) cumS (acc.idx : Int)
            (acc.idx : Int) w =
            sqLiteAdapter_importHeaders_loop1 cfg cd (kOf bs) f' (acc'.idx : Int) none (.hash acc'.prev) cumS' (acc'.idx : Int)
              (acc'.idx : Int)
              { w with rd := (r :: rest).drop bs, nread := w.nread + ((r :: rest).take bs).length, tbl := commitBatch w.tbl rows } := by
          conv => lhs; rw [sqLiteAdapter_importHeaders_loop1]
          simp only [kOf_batch, run_bind, heq]
          simp [hneq]
        have ih' := ih { w with rd := (r :: rest).drop bs, nread := w.nread + ((r :: rest).take bs).length, tbl := commitBatch w.tbl rows }
          acc' cumS' none f'
          (by simp only [List.length_drop, List.length_cons]; rw [hrd] at hg; simp only [List.length_cons] at hg; omega)
          (by omega) hf (by simp only []; omega) hc'
        rw [hL]
        exact ih'
      | bad j e =>
        simp only []
        obtain ⟨a, b, c, e', w', heq, ht, hcl⟩ := hs.2.1 j e hpb
        show ∃ ar e'', ∃ w'' : World H, _ = (Except.ok (Ctl.ret (ar, some e'')), w'') ∧ w''.tbl = w.tbl ∧ classify e'' = .refused (.row j e)
        refine ⟨a, e', w', ?_, ht, hcl⟩
        rw [sqLiteAdapter_importHeaders_loop1]
        simp only [kOf_batch, run_bind, heq]
        simp
      | outside j =>
        simp only []
        obtain ⟨w', heq, ht⟩ := hs.2.2 j hpb
        show ∃ w'' : World H, _ = (Except.error Abort.outside, w'') ∧ w''.tbl = w.tbl
        refine ⟨w', ?_, ht⟩
        rw [sqLiteAdapter_importHeaders_loop1]
        simp only [kOf_batch, run_bind, heq]

/-! ### (*sqLiteAdapter).importHeaders -/

theorem Gen_adapter_refines (cfg : Cfg H) (cd : Codec H) (bs : Nat) (hbs : 0 < bs) (w : World H) (f : List Record)
    (hfile : w.file = some f) (hne : ∀ hdr recs, f = hdr :: recs → hdr ≠ []) :
    AdapterOk (sqLiteAdapter_importHeaders cfg cd (kOf bs) w) w (importFile cfg cd bs f w.tbl).1
      (importFile cfg cd bs f w.tbl).2 := by
  cases f with
  | nil =>
    show ∃ a, ∃ w' : World H, _ = (Except.ok (a, some Err.eof), w') ∧ w'.tbl = w.tbl
    refine ⟨0, { w with rd := [], fields := none, nread := 0 }, ?_, rfl⟩
    simp [sqLiteAdapter_importHeaders, envOk, csvNewReader, csvRead, hfile]
  | cons hdr recs =>
    have hh : hdr.length ≠ 0 := by
      intro h; exact hne hdr recs rfl (List.eq_nil_of_length_eq_zero h)
    have hchunk : chunk bs recs = chunkGo bs recs.length recs := by unfold chunk; rw [if_neg (by omega)]
    have hl : LoopOk (sqLiteAdapter_importHeaders_loop1 cfg cd (kOf bs) (recs.length + 2) 0 none (.hash cd.zero) (.lit "") 0 0
          { w with rd := recs, fields := some hdr.length, nread := 1 })
        { w with rd := recs, fields := some hdr.length, nread := 1 }
        (importChunks cfg cd hdr.length (chunkGo bs recs.length recs) w.tbl { prev := cd.zero, cum := 0, idx := 0 }).1
        (importChunks cfg cd hdr.length (chunkGo bs recs.length recs) w.tbl { prev := cd.zero, cum := 0, idx := 0 }).2 :=
      Gen_adapter_loop_refines cfg cd bs hbs hdr.length hh recs.length { w with rd := recs, fields := some hdr.length, nread := 1 }
        { prev := cd.zero, cum := 0, idx := 0 } (.lit "") none (recs.length + 2) (Nat.le_refl _) (Nat.le_refl _) rfl rfl
        (Or.inr ⟨rfl, rfl⟩)
    have hrun : sqLiteAdapter_importHeaders cfg cd (kOf bs) w =
        match sqLiteAdapter_importHeaders_loop1 cfg cd (kOf bs) (recs.length + 2) 0 none (.hash cd.zero) (.lit "") 0 0
          { w with rd := recs, fields := some hdr.length, nread := 1 } with
        | (.ok (Ctl.ret r), w') => (.ok r, w')
        | (.ok (Ctl.next s), w') => (.ok (s.1, s.2.1), w')
        | (.error e, w') => (.error e, w') := by
      have hnr : csvNewReader w = (.ok (), { w with rd := hdr :: recs, fields := none, nread := 0 }) := by
        simp [csvNewReader, hfile]
      simp [sqLiteAdapter_importHeaders, envOk, hnr, csvRead, loopFuel]
      generalize sqLiteAdapter_importHeaders_loop1 cfg cd (kOf bs) (recs.length + 2) 0 none (GoStr.hash cd.zero) (GoStr.lit "") 0 0
        { w with rd := recs, fields := some hdr.length, nread := 1 } = x
      rcases x with ⟨x | x, w'⟩
      · rfl
      · cases x <;> rfl
    show AdapterOk _ w (importChunks cfg cd hdr.length (chunk bs recs) w.tbl { prev := cd.zero, cum := 0, idx := 0 }).1
      (importChunks cfg cd hdr.length (chunk bs recs) w.tbl { prev := cd.zero, cum := 0, idx := 0 }).2
    rw [hchunk, hrun]
    generalize importChunks cfg cd hdr.length (chunkGo bs recs.length recs) w.tbl { prev := cd.zero, cum := 0, idx := 0 } = res at hl ⊢
    obtain ⟨t, ir⟩ := res
    cases ir with
    | done n =>
      obtain ⟨a, b, c, d, w', heq, ht, hcps⟩ := hl
      exact ⟨w', by rw [heq], ht, hcps⟩
    | rowError j e =>
      obtain ⟨ar, e', w', heq, ht, hcl⟩ := hl
      exact ⟨ar, e', w', by rw [heq], ht, hcl⟩
    | outside j =>
      obtain ⟨w', heq, ht⟩ := hl
      exact ⟨w', by rw [heq], ht⟩
    | noHeaderLine => exact hl.elim

/-! ### validateDbConsistency -/

theorem Gen_validateHeightUniqueness_refines (cfg : Cfg H) (cd : Codec H) (k : Consts) (w : World H) :
    validateHeightUniqueness cfg cd k w =
      if (w.tbl.map (·.height)).Nodup then (.ok none, w)
      else (.ok (some (.new "height values are not unique(they should be just after import)")), w) := by
  simp only [validateHeightUniqueness, run_bind, sqlExec_create]
  by_cases h : (w.tbl.map (·.height)).Nodup
  · simp [h, sqlExec_drop]
  · simp [h]

theorem Gen_validateNewestCheckpointBlock_refines (cfg : Cfg H) (cd : Codec H) (k : Consts) (w : World H) :
    match w.cps.getLast? with
    | none => validateNewestCheckpointBlock cfg cd k w = (.error .panic, w)
    | some cp =>
      match w.tbl.find? (fun r => decide (r.height = cp.1)) with
      | none => ∃ a b, validateNewestCheckpointBlock cfg cd k w =
          (.ok (some (.errorf "newest checkpoint block with height \"%d\" is not present in the database" a b)), w)
      | some r =>
        if r.hash = cp.2 then validateNewestCheckpointBlock cfg cd k w = (.ok none, w)
        else ∃ a b, validateNewestCheckpointBlock cfg cd k w =
          (.ok (some (.errorf "newest checkpoint block has different hash \"%s\" than hash \"%s\" of block in database with the same height (%d)" a b)), w) := by
  have hfun : ∀ c : Nat, (fun r : Row H => decide ((r.height : Int) = (c : Int))) = (fun r => decide (r.height = c)) := by
    intro c; funext r; simp [Int.natCast_inj]
  cases hcp : w.cps.getLast? with
  | none =>
    simp [validateNewestCheckpointBlock, checkpoints, index_last, hcp]
  | some cp =>
    simp only []
    cases hfind : w.tbl.find? (fun r => decide (r.height = cp.1)) with
    | none =>
      simp only []
      refine ⟨[(cp.1 : Int)], .nil, ?_⟩
      simp [validateNewestCheckpointBlock, checkpoints, index_last, hcp, sqlGet_select, hfun, hfind]
    | some r =>
      simp only []
      by_cases hh : r.hash = cp.2
      · rw [if_pos hh]
        simp [validateNewestCheckpointBlock, checkpoints, index_last, hcp, sqlGet_select, hfun, hfind, hh]
      · rw [if_neg hh]
        refine ⟨[(cp.1 : Int)], .nil, ?_⟩
        simp [validateNewestCheckpointBlock, checkpoints, index_last, hcp, sqlGet_select, hfun, hfind, hh, Ne.symm hh]

/-- validateDbConsistency against the hand model's `validate`: same checks in the same order, nothing is written -/
theorem Gen_validateDbConsistency_refines (cfg : Cfg H) (cd : Codec H) (k : Consts) (n : Nat) (w : World H) :
    match validate w.cps n w.tbl with
    | .ok => validateDbConsistency cfg cd k (n : Int) w = (.ok none, w)
    | .refuse e => ∃ e', validateDbConsistency cfg cd k (n : Int) w = (.ok (some e'), w) ∧ classify e' = .refused e
    | .panic => validateDbConsistency cfg cd k (n : Int) w = (.error .panic, w) := by
  unfold validate
  by_cases h1 : w.tbl.length ≠ n
  · rw [if_pos h1]
    have h1' : ((w.tbl.length : Nat) : Int) ≠ (n : Int) := by exact_mod_cast h1
    exact ⟨_, by simp [validateDbConsistency, repoCount, h1']; first | rfl | exact ⟨rfl, rfl⟩ | exact ⟨rfl, rfl, rfl⟩, classify_count _ _⟩
  · rw [if_neg h1]
    have h1' : ((w.tbl.length : Nat) : Int) = (n : Int) := by
      have : w.tbl.length = n := Decidable.not_not.1 h1
      exact_mod_cast this
    by_cases h2 : (maxHeight w.tbl : Int) ≠ (n : Int) - 1
    · rw [if_pos h2]
      exact ⟨_, by simp [validateDbConsistency, repoCount, repoHeight, h1', h2]; first | rfl | exact ⟨rfl, rfl⟩ | exact ⟨rfl, rfl, rfl⟩, classify_maxHeight _ _⟩
    · rw [if_neg h2]
      have h2' : (maxHeight w.tbl : Int) = (n : Int) - 1 := Decidable.not_not.1 h2
      by_cases h3 : ¬ (w.tbl.map (·.height)).Nodup
      · rw [if_pos h3]
        exact ⟨_, by simp [validateDbConsistency, repoCount, repoHeight, h1', h2', Gen_validateHeightUniqueness_refines, h3]; first | rfl | exact ⟨rfl, rfl⟩ | exact ⟨rfl, rfl, rfl⟩, classify_heights _⟩
      · rw [if_neg h3]
        have h3' : (w.tbl.map (·.height)).Nodup := Decidable.not_not.1 h3
        have hc := Gen_validateNewestCheckpointBlock_refines cfg cd k w
        cases hcp : w.cps.getLast? with
        | none =>
          rw [hcp] at hc
          simp only [] at hc ⊢
          simp [validateDbConsistency, repoCount, repoHeight, h1', h2', Gen_validateHeightUniqueness_refines, h3', hc]
        | some cp =>
          rw [hcp] at hc
          simp only [] at hc ⊢
          cases hfind : w.tbl.find? (fun r => decide (r.height = cp.1)) with
          | none =>
            rw [hfind] at hc
            simp only [] at hc ⊢
            obtain ⟨a, b, hc⟩ := hc
            exact ⟨_, by simp [validateDbConsistency, repoCount, repoHeight, h1', h2', Gen_validateHeightUniqueness_refines, h3', hc]; first | rfl | exact ⟨rfl, rfl⟩ | exact ⟨rfl, rfl, rfl⟩,
              classify_cpAbsent _ _ _⟩
          | some r =>
            rw [hfind] at hc
            simp only [] at hc ⊢
            by_cases hh : r.hash = cp.2
            · rw [if_pos hh] at hc ⊢
              simp [validateDbConsistency, repoCount, repoHeight, h1', h2', Gen_validateHeightUniqueness_refines, h3', hc]
            · rw [if_neg hh] at hc ⊢
              obtain ⟨a, b, hc⟩ := hc
              exact ⟨_, by simp [validateDbConsistency, repoCount, repoHeight, h1', h2', Gen_validateHeightUniqueness_refines, h3', hc]; first | rfl | exact ⟨rfl, rfl⟩ | exact ⟨rfl, rfl, rfl⟩,
                classify_cpMismatch _ _ _⟩


/-! ### importHeaders: the whole start -/

/-- one start of database.Init with prepared_db as the GENERATED `importHeaders` computes it: the table afterwards and
    what the caller observes (nil / the classified error / panic) -/
def genStart (cfg : Cfg H) (cd : Codec H) (k : Consts) (cps : List (Nat × H)) (tbl : Store H) (file : Option (List Record)) :
    Store H × Observed :=
  observe (importHeaders cfg cd k (world0 tbl file cps))

/-- encoding/csv never yields a record without fields: the column-name line of a readable file has at least one -/
def CsvOk (file : Option (List Record)) : Prop := ∀ hdr recs, file = some (hdr :: recs) → hdr ≠ []

/-- THE REFINEMENT. -/
theorem Gen_import_refines (cfg : Cfg H) (cd : Codec H) (bs : Nat) (hbs : 0 < bs) (cps : List (Nat × H)) (tbl : Store H)
    (file : Option (List Record)) (hcsv : CsvOk file) :
    genStart cfg cd (kOf bs) cps tbl file =
      ((start cfg cd bs cps tbl file).1, verdictOf (start cfg cd bs cps tbl file).2) := by
  unfold genStart start startWith cleanupOnRefusal
  by_cases ht : tbl.length > 0
  · rw [if_pos ht]
    have hlt : 0 < tbl.length := ht
    have hrun : importHeaders cfg cd (kOf bs) (world0 tbl file cps) = (.ok none, world0 tbl file cps) := by
      simp [importHeaders, repoCount, world0, hlt]
    rw [hrun]
    rfl
  · rw [if_neg ht]
    have hlt : ¬ (0 < tbl.length) := ht
    cases file with
    | none =>
      have hrun : importHeaders cfg cd (kOf bs) (world0 tbl none cps) = (.ok (some .unreadable), world0 tbl none cps) := by
        simp [importHeaders, repoCount, getHeadersFile, world0, hlt]
      rw [hrun]
      rfl
    | some f =>
      simp only []
      have ha := Gen_adapter_refines cfg cd bs hbs (world0 tbl (some f) cps) f rfl (fun hdr recs h => hcsv hdr recs (by rw [h]))
      have hcount : repoCount (world0 tbl (some f) cps) = (.ok ((tbl.length : Int), none), world0 tbl (some f) cps) := rfl
      have hfile : getHeadersFile (world0 tbl (some f) cps) = (.ok none, world0 tbl (some f) cps) := rfl
      have ha' : AdapterOk (sqLiteAdapter_importHeaders cfg cd (kOf bs) (world0 tbl (some f) cps)) (world0 tbl (some f) cps)
          (importFile cfg cd bs f tbl).1 (importFile cfg cd bs f tbl).2 := ha
      generalize importFile cfg cd bs f tbl = res at ha' ⊢
      obtain ⟨t, ir⟩ := res
      cases ir with
      | done n =>
        obtain ⟨w', heq, ht', hcps⟩ := ha'
        have hcps' : w'.cps = cps := hcps
        have hv := Gen_validateDbConsistency_refines cfg cd (kOf bs) n w'
        rw [hcps', ht'] at hv
        simp only []
        cases hval : validate cps n t with
        | ok =>
          rw [hval] at hv
          have hrun : importHeaders cfg cd (kOf bs) (world0 tbl (some f) cps) = (.ok none, w') := by
            simp [importHeaders, hcount, hfile, hlt, heq, hv]
          rw [hrun]
          simp [observe, verdictOf, ht']
        | refuse e =>
          rw [hval] at hv
          obtain ⟨e', hv1, hv2⟩ := hv
          have hrun : importHeaders cfg cd (kOf bs) (world0 tbl (some f) cps) = (.ok (some e'), { w' with tbl := [] }) := by
            simp [importHeaders, hcount, hfile, hlt, heq, hv1, removeImportedHeaders, sqlExec_delete]
          rw [hrun]
          simp [observe, verdictOf, hv2]
        | panic =>
          rw [hval] at hv
          have hrun : importHeaders cfg cd (kOf bs) (world0 tbl (some f) cps) = (.error .panic, w') := by
            simp [importHeaders, hcount, hfile, hlt, heq, hv]
          rw [hrun]
          simp [observe, verdictOf, ht']
      | rowError j e =>
        obtain ⟨a, e', w', heq, ht', hcl⟩ := ha'
        have hrun : importHeaders cfg cd (kOf bs) (world0 tbl (some f) cps) = (.ok (some e'), { w' with tbl := [] }) := by
          simp [importHeaders, hcount, hfile, hlt, heq, removeImportedHeaders, sqlExec_delete]
        rw [hrun]
        simp [observe, verdictOf, hcl]
      | noHeaderLine =>
        obtain ⟨a, w', heq, ht'⟩ := ha'
        have hrun : importHeaders cfg cd (kOf bs) (world0 tbl (some f) cps) = (.ok (some .eof), { w' with tbl := [] }) := by
          simp [importHeaders, hcount, hfile, hlt, heq, removeImportedHeaders, sqlExec_delete]
        rw [hrun]
        rfl
      | outside j =>
        obtain ⟨w', heq, ht'⟩ := ha'
        have hrun : importHeaders cfg cd (kOf bs) (world0 tbl (some f) cps) = (.error .outside, w') := by
          simp [importHeaders, hcount, hfile, hlt, heq]
        rw [hrun]
        simp [observe, verdictOf, ht']

/-- … at the constants of the Go source (`sqliteBatchSize` = 500 records per transaction, five CSV columns): a change of
    either constant changes `Gen.Import.consts` and re-opens this -/
theorem Gen_import_refines_consts (cfg : Cfg H) (cd : Codec H) (cps : List (Nat × H)) (tbl : Store H)
    (file : Option (List Record)) (hcsv : CsvOk file) :
    genStart cfg cd consts cps tbl file =
      ((start cfg cd 500 cps tbl file).1, verdictOf (start cfg cd 500 cps tbl file).2) := by
  have hk : consts = kOf 500 := by decide
  rw [hk]
  exact Gen_import_refines cfg cd 500 (by decide) cps tbl file hcsv

/-- the hypothesis holds for every exported file (the column-name line has five fields) -/
theorem csvOk_export (cd : Codec H) (s : Store H) : CsvOk (some (exportFile cd s)) := by
  intro hdr recs h
  simp only [exportFile, Option.some.injEq, List.cons.injEq] at h
  rw [← h.1]
  decide

/-! ### non-vacuity: the generated import on concrete files (toy hash, decimal hashes; see Props/C17.lean) -/

example : CsvOk (some [headerLine, exGood, exBadVersion]) := by
  intro hdr recs h; simp only [Option.some.injEq, List.cons.injEq] at h; rw [← h.1]; decide

example : genStart exCfg natCodec (kOf 2) [(2, 4294967296)] [] (some (exportFile natCodec exStore)) =
    ((lcAsc exStore).map canon, .accepted) := by
  rw [Gen_import_refines exCfg natCodec 2 (by decide) _ _ _ (csvOk_export _ _)]; decide

/-! ### the C17 headlines over the generated definition -/

/-- ROUND TRIP (C17_roundtrip_start over the generated import): with the newest checkpoint on the exported chain, the
    generated `importHeaders` on an empty table and the exported file returns nil and leaves exactly the sorted longest
    chain — for every store satisfying the chain invariant and every batch size. -/
theorem Gen_C17_roundtrip_start (cfg : Cfg H) (cd : Codec H) (bs : Nat) (hbs : 0 < bs) (s : Store H) (g : Row H)
    (hinv : Inv cfg s) (hg : g ∈ s) (hg0 : g.id = 0) (hgen : IsGenesis cfg cd g)
    (hf : ∀ r ∈ s, r.st = .lc → FieldsOk cd r) (cps : List (Nat × H)) (c : Row H) (hc : c ∈ s) (hcl : c.st = .lc)
    (hcp : cps.getLast? = some (c.height, c.hash)) :
    genStart cfg cd (kOf bs) cps [] (some (exportFile cd s)) = ((lcAsc s).map canon, .accepted) := by
  rw [Gen_import_refines cfg cd bs hbs cps [] _ (csvOk_export cd s)]
  have h := C17_roundtrip_start cleanupOnRefusal cfg cd bs hbs s g hinv hg hg0 hgen hf cps c hc hcl hcp
  show ((startWith cleanupOnRefusal cfg cd bs cps [] (some (exportFile cd s))).1,
    verdictOf (startWith cleanupOnRefusal cfg cd bs cps [] (some (exportFile cd s))).2) = _
  rw [h]
  rfl

/-- … and with the 500-record batches of the Go source -/
theorem Gen_C17_roundtrip_start_consts (cfg : Cfg H) (cd : Codec H) (s : Store H) (g : Row H)
    (hinv : Inv cfg s) (hg : g ∈ s) (hg0 : g.id = 0) (hgen : IsGenesis cfg cd g)
    (hf : ∀ r ∈ s, r.st = .lc → FieldsOk cd r) (cps : List (Nat × H)) (c : Row H) (hc : c ∈ s) (hcl : c.st = .lc)
    (hcp : cps.getLast? = some (c.height, c.hash)) :
    genStart cfg cd consts cps [] (some (exportFile cd s)) = ((lcAsc s).map canon, .accepted) := by
  have hk : consts = kOf 500 := by decide
  rw [hk]
  exact Gen_C17_roundtrip_start cfg cd 500 (by decide) s g hinv hg hg0 hgen hf cps c hc hcl hcp

/-- MALFORMED ROW (C17_refuses_malformed over the generated import): the generated `importHeaders` returns an error that
    names the first malformed record, wherever it is, whatever the batch size -/
theorem Gen_C17_refuses_malformed (cfg : Cfg H) (cd : Codec H) (bs : Nat) (hbs : 0 < bs) (cps : List (Nat × H))
    (hdr : Record) (hhdr : hdr ≠ []) (pre post : List Record) (bad : Record) (rows : List (Row H)) (acc1 : Acc H)
    (e : RowErr) (hpre : prepareBatch cfg cd hdr.length pre (acc0 cd) = .ok rows acc1)
    (hbad : parseRecord cd hdr.length acc1.prev bad = .malformed e) :
    (genStart cfg cd (kOf bs) cps [] (some (hdr :: (pre ++ bad :: post)))).2 = .refused (.row pre.length e) := by
  rw [Gen_import_refines cfg cd bs hbs cps [] _ (by
    intro h r hh; simp only [Option.some.injEq, List.cons.injEq] at hh; rw [← hh.1]; exact hhdr)]
  show verdictOf (startWith cleanupOnRefusal cfg cd bs cps [] (some (hdr :: (pre ++ bad :: post)))).2 = _
  rw [C17_refuses_malformed cleanupOnRefusal cfg cd bs hbs cps hdr pre post bad rows acc1 e hpre hbad]
  rfl

/-- NEVER OVERWRITTEN (C17_never_overwrites over the generated import; no hypothesis on the file): on a table that holds
    headers the generated `importHeaders` returns nil without touching the table, whatever the file, the checkpoints, the
    constants -/
theorem Gen_C17_never_overwrites (cfg : Cfg H) (cd : Codec H) (k : Consts) (cps : List (Nat × H)) (tbl : Store H)
    (file : Option (List Record)) (h : tbl ≠ []) : genStart cfg cd k cps tbl file = (tbl, .accepted) := by
  have hlt : 0 < tbl.length := List.length_pos_iff.2 h
  have hrun : importHeaders cfg cd k (world0 tbl file cps) = (.ok none, world0 tbl file cps) := by
    simp [importHeaders, repoCount, world0, hlt]
  unfold genStart
  rw [hrun]
  rfl

example : genStart exCfg natCodec consts [] exStore none = (exStore, .accepted) :=
  Gen_C17_never_overwrites _ _ _ _ _ _ (by decide)

theorem verdictOf_refused {r : StartRes} {e : Refusal} (h : verdictOf r = .refused e) : r = .refused e := by
  cases r <;> simp [verdictOf] at h ⊢
  exact h

/-- NOTHING LEFT BEHIND (C17_no_leftover over the generated import): when the generated `importHeaders` on an empty table
    returns an error, the table is empty afterwards, and running it again on that table with the same file does exactly
    what the first run did -/
theorem Gen_C17_no_leftover (cfg : Cfg H) (cd : Codec H) (bs : Nat) (hbs : 0 < bs) (cps : List (Nat × H))
    (file : Option (List Record)) (hcsv : CsvOk file) (e : Refusal)
    (h : (genStart cfg cd (kOf bs) cps [] file).2 = .refused e) :
    (genStart cfg cd (kOf bs) cps [] file).1 = [] ∧
    genStart cfg cd (kOf bs) cps (genStart cfg cd (kOf bs) cps [] file).1 file = genStart cfg cd (kOf bs) cps [] file := by
  rw [Gen_import_refines cfg cd bs hbs cps [] file hcsv] at h ⊢
  simp only [] at h ⊢
  have hl := C17_no_leftover cfg cd bs cps file e (verdictOf_refused h)
  refine ⟨hl.1, ?_⟩
  rw [Gen_import_refines cfg cd bs hbs cps _ file hcsv, hl.2]

example : (genStart exCfg natCodec (kOf 1) [(0, 11)] [] (some [headerLine, exGood, exBadVersion])).2 =
    .refused (.row 1 .version) := by
  rw [Gen_import_refines exCfg natCodec 1 (by decide) _ _ _ (by
    intro hdr recs h; simp only [Option.some.injEq, List.cons.injEq] at h; rw [← h.1]; decide)]
  decide

end BHS.Props.ImportGen
