/-
C02 — Merkle-root verification verdicts are exact and follow reorganisations.
Model: BHS/Model/Query.lean (`verifyHash`, `verifyItem`, `verify`, `aggregate`), a transcription of
sqlVerifyHash / getMerkleRootConfirmation / ToMerkleRootConfirmation / mapToMerkleRootsConfirmationsResponses.
"The longest-chain header at that height" is unique by the chain invariant (`LcInv`, proved for every
reachable store in C01); the theorems below take that uniqueness as the explicit hypothesis `LcUnique`.
-/
import BHS.Model.Query
import BHS.Spec.BestChain
import BHS.Gen.Verdict
import BHS.Props.C01

namespace BHS.Props.C02
open BHS BHS.Chain
variable {H : Type} [DecidableEq H]

/-- at most one longest-chain row per height (clause of `LcAt`) -/
def LcUnique (s : Store H) : Prop :=
  ∀ r ∈ s, ∀ r' ∈ s, r.st = .lc → r'.st = .lc → r.height = r'.height → r = r'

omit [DecidableEq H] in
theorem lcUnique_of_inv (cfg : Cfg H) (s : Store H) (h : Inv cfg s) : LcUnique s := by
  obtain ⟨_, t, _, _, _, _, hu, _⟩ := h
  exact hu

/-- `r` is the longest-chain header at height `h` -/
def IsLcAt (s : Store H) (r : Row H) (h : Int) : Prop := r ∈ s ∧ r.st = .lc ∧ (r.height : Int) = h

theorem verifyHash_some (s : Store H) (root : H) (h : Int) (r : Row H) (hu : LcUnique s) :
    verifyHash s root h = some r ↔ IsLcAt s r h ∧ r.merkle = root := by
  unfold verifyHash IsLcAt
  constructor
  · intro hf
    have hm := List.mem_of_find?_eq_some hf
    have hp := List.find?_some hf
    simp only [decide_eq_true_eq] at hp
    exact ⟨⟨hm, hp.2.2, hp.2.1⟩, hp.1⟩
  · rintro ⟨⟨hm, hst, hh⟩, hroot⟩
    have hex : (s.find? (fun r => decide (r.merkle = root ∧ (r.height : Int) = h ∧ r.st = .lc))).isSome := by
      rw [List.find?_isSome]
      exact ⟨r, hm, by simp [hroot, hh, hst]⟩
    obtain ⟨r', hr'⟩ := Option.isSome_iff_exists.mp hex
    have hm' := List.mem_of_find?_eq_some hr'
    have hp' := List.find?_some hr'
    simp only [decide_eq_true_eq] at hp'
    have : r' = r := hu r' hm' r hm hp'.2.2 hst (by have := hp'.2.1; omega)
    rw [hr', this]

theorem verifyHash_none (s : Store H) (root : H) (h : Int) :
    verifyHash s root h = none ↔ ∀ r, IsLcAt s r h → r.merkle ≠ root := by
  unfold verifyHash IsLcAt
  rw [List.find?_eq_none]
  constructor
  · intro hn r ⟨hm, hst, hh⟩ hroot
    exact hn r hm (by simp [hroot, hh, hst])
  · intro hn r hm hp
    simp only [decide_eq_true_eq] at hp
    exact hn r ⟨hm, hp.2.2, hp.2.1⟩ hp.1

/-- the configured excess fits Go's int32 (every sensible configuration) -/
def ExcessOk (e : Int) : Prop := -2147483648 ≤ e ∧ e < 2147483648

theorem toInt32_id (e : Int) (h : ExcessOk e) : toInt32 e = e := by
  unfold toInt32 ExcessOk at *; omega

/-- CONFIRMED exactly when the longest-chain header at that height carries that merkle root; the returned hash is its hash -/
theorem C02_confirmed (s : Store H) (e : Int) (tipH : Nat) (root : H) (h : Int) (hu : LcUnique s) (hash : H) :
    verifyItem s e tipH root h = (.confirmed, some hash) ↔ ∃ r, IsLcAt s r h ∧ r.merkle = root ∧ r.hash = hash := by
  unfold verifyItem
  constructor
  · intro hv
    split at hv
    · rename_i r hr
      simp only [Prod.mk.injEq, Option.some.injEq, true_and] at hv
      exact ⟨r, ((verifyHash_some s root h r hu).mp hr).1, ((verifyHash_some s root h r hu).mp hr).2, hv⟩
    · split at hv <;> simp at hv
  · rintro ⟨r, hl, hroot, hhash⟩
    rw [(verifyHash_some s root h r hu).mpr ⟨hl, hroot⟩]
    simp [hhash]

/-- UNABLE_TO_VERIFY exactly when no longest-chain header at that height carries the root and the height lies above
    the tip by at most the configured excess -/
theorem C02_unable (s : Store H) (e : Int) (tipH : Nat) (root : H) (h : Int) (he : ExcessOk e) :
    (verifyItem s e tipH root h).1 = .unable ↔
      (∀ r, IsLcAt s r h → r.merkle ≠ root) ∧ h > (tipH : Int) ∧ h - (tipH : Int) ≤ e := by
  unfold verifyItem
  rw [toInt32_id e he]
  split
  · rename_i r hr
    simp only [reduceCtorEq, false_iff, not_and]
    intro hn
    have := (verifyHash_none s root h).mpr hn
    rw [hr] at this; cases this
  · rename_i hn
    have hn' := (verifyHash_none s root h).mp hn
    split <;> simp_all

/-- INVALID otherwise -/
theorem C02_invalid (s : Store H) (e : Int) (tipH : Nat) (root : H) (h : Int) (he : ExcessOk e) :
    (verifyItem s e tipH root h).1 = .invalid ↔
      (∀ r, IsLcAt s r h → r.merkle ≠ root) ∧ ¬ (h > (tipH : Int) ∧ h - (tipH : Int) ≤ e) := by
  unfold verifyItem
  rw [toInt32_id e he]
  split
  · rename_i r hr
    simp only [reduceCtorEq, false_iff, not_and]
    intro hn
    have := (verifyHash_none s root h).mpr hn
    rw [hr] at this; cases this
  · rename_i hn
    have hn' := (verifyHash_none s root h).mp hn
    split <;> simp_all

/-- a negative excess never yields UNABLE_TO_VERIFY ("at most the configured excess") -/
theorem C02_negative_excess (s : Store H) (e : Int) (tipH : Nat) (root : H) (h : Int) (he : ExcessOk e) (hneg : e < 0) :
    (verifyItem s e tipH root h).1 ≠ .unable := by
  intro hc
  have := (C02_unable s e tipH root h he).mp hc
  omega

/-- one verdict per submitted item, in request order, each about its own item -/
theorem C02_shape (s : Store H) (e : Int) (req : List (H × Int)) (res : List (H × Int × Verdict × Option H))
    (hv : verify s e req = some res) :
    res.length = req.length ∧ ∀ i (hi : i < req.length) (hi' : i < res.length),
      (res[i]).1 = (req[i]).1 ∧ (res[i]).2.1 = (req[i]).2 ∧
      ∃ tipH, maxLcHeight s = some tipH ∧
        ((res[i]).2.2.1, (res[i]).2.2.2) = verifyItem s e tipH (req[i]).1 (req[i]).2 := by
  unfold verify at hv
  split at hv
  · cases hv
  · rename_i tipH htip
    simp only [Option.some.injEq] at hv
    subst hv
    refine ⟨by simp, ?_⟩
    intro i hi hi'
    simp only [List.getElem_map]
    exact ⟨trivial, trivial, tipH, htip, rfl⟩

/-- verification is refused only when the store has no longest-chain row at all (never for a reachable store) -/
theorem C02_answered (cfg : Cfg H) (s : Store H) (e : Int) (req : List (H × Int)) (hinv : Inv cfg s) :
    ∃ res, verify s e req = some res := by
  obtain ⟨_, t, ht, hlc, _⟩ := hinv
  unfold verify
  have : (maxLcHeight s).isSome := by
    unfold maxLcHeight
    have hmem : t ∈ s.filter (fun r => decide (r.st = .lc)) := by simp [List.mem_filter, ht, hlc]
    generalize s.filter (fun r => decide (r.st = .lc)) = l at hmem
    have key : ∀ (l : List (Row H)) (m : Option Nat), (m.isSome ∨ l ≠ []) →
        (l.foldl (fun m r => match m with | none => some r.height | some k => some (max k r.height)) m).isSome := by
      intro l
      induction l with
      | nil => intro m hm; rcases hm with h | h; exact h; exact absurd rfl h
      | cons a l ih =>
        intro m _
        simp only [List.foldl_cons]
        apply ih
        left
        cases m <;> simp
    exact key l none (Or.inr (List.ne_nil_of_mem hmem))
  obtain ⟨m, hm⟩ := Option.isSome_iff_exists.mp this
  rw [hm]
  exact ⟨_, rfl⟩

theorem severity_le_two (v : Verdict) : severity v ≤ 2 := by cases v <;> simp [severity]

theorem severity_inj (a b : Verdict) (h : severity a = severity b) : a = b := by
  cases a <;> cases b <;> simp [severity] at h <;> rfl

/-- the overall verdict is the worst individual one (INVALID > UNABLE_TO_VERIFY > CONFIRMED) -/
theorem C02_aggregate (vs : List Verdict) :
    (∀ v ∈ vs, severity v ≤ severity (aggregate vs)) ∧ (aggregate vs = .confirmed ∨ aggregate vs ∈ vs) := by
  unfold aggregate
  have key : ∀ (vs : List Verdict) (a : Verdict),
      let r := vs.foldl (fun a v => if severity a < severity v then v else a) a
      severity a ≤ severity r ∧ (∀ v ∈ vs, severity v ≤ severity r) ∧ (r = a ∨ r ∈ vs) := by
    intro vs
    induction vs with
    | nil => intro a; simp
    | cons x xs ih =>
      intro a
      simp only [List.foldl_cons]
      by_cases hlt : severity a < severity x
      · simp only [hlt, ↓reduceIte]
        obtain ⟨h1, h2, h3⟩ := ih x
        refine ⟨by omega, ?_, ?_⟩
        · intro v hv
          rcases List.mem_cons.mp hv with hv | hv
          · subst hv; exact h1
          · exact h2 v hv
        · rcases h3 with h3 | h3
          · right; rw [h3]; exact List.mem_cons_self
          · right; exact List.mem_cons_of_mem _ h3
      · simp only [hlt, ↓reduceIte]
        obtain ⟨h1, h2, h3⟩ := ih a
        refine ⟨h1, ?_, ?_⟩
        · intro v hv
          rcases List.mem_cons.mp hv with hv | hv
          · subst hv; omega
          · exact h2 v hv
        · rcases h3 with h3 | h3
          · left; exact h3
          · right; exact List.mem_cons_of_mem _ h3
  have := key vs .confirmed
  exact ⟨this.2.1, this.2.2⟩

/-- verdicts track the chain: they are a function of the current longest-chain rows only, so a root whose block a
    reorganisation moved off the longest chain stops being CONFIRMED, and the root of a block that joined becomes CONFIRMED -/
theorem C02_tracks_reorg_off (s' : Store H) (e : Int) (tipH : Nat) (root : H) (h : Int)
    (hoff : ∀ r, IsLcAt s' r h → r.merkle ≠ root) : (verifyItem s' e tipH root h).1 ≠ .confirmed := by
  unfold verifyItem
  rw [(verifyHash_none s' root h).mpr hoff]
  simp only
  split <;> simp

theorem C02_tracks_reorg_on (s' : Store H) (e : Int) (tipH : Nat) (r : Row H) (hu : LcUnique s')
    (hon : r ∈ s') (hlc : r.st = .lc) : verifyItem s' e tipH r.merkle r.height = (.confirmed, some r.hash) :=
  (C02_confirmed s' e tipH r.merkle r.height hu r.hash).mpr ⟨r, ⟨hon, hlc, rfl⟩, rfl, rfl⟩

/-! ### tie to the source by translation
`Gen.toMerkleRootConfirmation` and `Gen.convertState` are TRANSLATED from repository/dto/headers.go and
merkleroots/model.go on every run (harness/cmd/extract/gen_verdict.go); the hand-written `verifyItem` / `severity`
are proved equal to them, so an edit of the Go classification re-opens these obligations. -/

/-- the JSON name of a verdict -/
def verdictName : Verdict → String
  | .confirmed => "CONFIRMED"
  | .unable => "UNABLE_TO_VERIFY"
  | .invalid => "INVALID"

theorem wrapS32_id (x : Int) (h : -2147483648 ≤ x ∧ x < 2147483648) : wrapS 32 x = x := by
  unfold wrapS; omega

/-- the classification the model uses is the translated Go classification, for all int32 heights -/
theorem C02_verdict_translated (s : Store H) (e : Int) (tipH : Nat) (root : H) (h : Int)
    (hh : -2147483648 ≤ h ∧ h < 2147483648) (ht : (tipH : Int) < 2147483648) :
    Gen.toMerkleRootConfirmation (verifyHash s root h).isSome h tipH e
      = verdictName (verifyItem s e tipH root h).1 := by
  unfold Gen.toMerkleRootConfirmation verifyItem
  have hw : wrapS 32 e = toInt32 e := by unfold wrapS toInt32; omega
  cases hv : verifyHash s root h with
  | some r => simp [verdictName]
  | none =>
    simp only [Option.isSome_none, Bool.false_eq_true, if_false]
    by_cases hgt : h > (tipH : Int)
    · have hd : wrapS 32 (h - (tipH : Int)) = h - (tipH : Int) := wrapS32_id _ (by omega)
      rw [hd, hw]
      by_cases hle : h - (tipH : Int) ≤ toInt32 e <;> simp [hgt, hle, verdictName]
    · simp [hgt, verdictName]

/-- the severity order the model uses is the translated `convertState` -/
theorem C02_severity_translated (v : Verdict) : Gen.convertState (verdictName v) = severity v := by
  cases v <;> decide

-- non-vacuity: a concrete store with a fork (stale sibling at height 1) satisfying the hypotheses
def exStore : Store Nat :=
  [ { id := 0, hash := 100, prev := 0, merkle := 900, height := 0, version := 1, time := 0, bits := 0, nonce := 0, work := 5, cum := 5, st := .lc },
    { id := 1, hash := 101, prev := 100, merkle := 901, height := 1, version := 1, time := 0, bits := 0, nonce := 1, work := 2, cum := 7, st := .stale },
    { id := 2, hash := 102, prev := 100, merkle := 902, height := 1, version := 1, time := 0, bits := 0, nonce := 2, work := 3, cum := 8, st := .lc } ]
example : LcUnique exStore := by unfold LcUnique; decide
example : ExcessOk 6 := by unfold ExcessOk; decide
example : verify exStore 6 [(902, 1), (901, 1), (999, 3), (999, 9)] =
    some [(902, 1, .confirmed, some 102), (901, 1, .invalid, none), (999, 3, .unable, none), (999, 9, .invalid, none)] := by decide
example : aggregate [.confirmed, .unable, .confirmed] = .unable := by decide

/-! ### for every store reachable by ingestion
The theorems above restated for `run cfg [g] hist` — the store after ANY ingestion history (reorganisations, stale
blocks, orphans, duplicates, forbidden and zero-work headers) from a root row `g`; the chain invariant comes from
`C01_canonical`, so no `LcUnique` / `Inv` hypothesis is left. -/
section Reachable
open BHS.Props.C01 (IsRoot HashAvoids C01_canonical)

/-- at most one longest-chain row per height in every reachable store -/
theorem C02_lcUnique_reachable (cfg : Cfg H) (g : Row H) (hg : IsRoot g) (hz : HashAvoids cfg g.prev)
    (hist : List (Src H)) : LcUnique (run cfg [g] hist) :=
  lcUnique_of_inv cfg _ (C01_canonical cfg g hg hz hist).1

theorem C02_confirmed_reachable (cfg : Cfg H) (g : Row H) (hg : IsRoot g) (hz : HashAvoids cfg g.prev)
    (hist : List (Src H)) (e : Int) (tipH : Nat) (root : H) (h : Int) (hash : H) :
    verifyItem (run cfg [g] hist) e tipH root h = (.confirmed, some hash) ↔
      ∃ r, IsLcAt (run cfg [g] hist) r h ∧ r.merkle = root ∧ r.hash = hash :=
  C02_confirmed _ e tipH root h (C02_lcUnique_reachable cfg g hg hz hist) hash

theorem C02_unable_reachable (cfg : Cfg H) (g : Row H) (hist : List (Src H)) (e : Int) (tipH : Nat) (root : H)
    (h : Int) (he : ExcessOk e) :
    (verifyItem (run cfg [g] hist) e tipH root h).1 = .unable ↔
      (∀ r, IsLcAt (run cfg [g] hist) r h → r.merkle ≠ root) ∧ h > (tipH : Int) ∧ h - (tipH : Int) ≤ e :=
  C02_unable _ e tipH root h he

theorem C02_invalid_reachable (cfg : Cfg H) (g : Row H) (hist : List (Src H)) (e : Int) (tipH : Nat) (root : H)
    (h : Int) (he : ExcessOk e) :
    (verifyItem (run cfg [g] hist) e tipH root h).1 = .invalid ↔
      (∀ r, IsLcAt (run cfg [g] hist) r h → r.merkle ≠ root) ∧ ¬ (h > (tipH : Int) ∧ h - (tipH : Int) ≤ e) :=
  C02_invalid _ e tipH root h he

/-- verification of any request list is answered in every reachable store -/
theorem C02_answered_reachable (cfg : Cfg H) (g : Row H) (hg : IsRoot g) (hz : HashAvoids cfg g.prev)
    (hist : List (Src H)) (e : Int) (req : List (H × Int)) : ∃ res, verify (run cfg [g] hist) e req = some res :=
  C02_answered cfg _ e req (C01_canonical cfg g hg hz hist).1

/-- after any history (in particular after a reorganisation) the root of every CURRENT longest-chain row is CONFIRMED
    at that row's height, with that row's hash -/
theorem C02_tracks_reorg_on_reachable (cfg : Cfg H) (g : Row H) (hg : IsRoot g) (hz : HashAvoids cfg g.prev)
    (hist : List (Src H)) (e : Int) (tipH : Nat) (r : Row H) (hon : r ∈ run cfg [g] hist) (hlc : r.st = .lc) :
    verifyItem (run cfg [g] hist) e tipH r.merkle r.height = (.confirmed, some r.hash) :=
  C02_tracks_reorg_on _ e tipH r (C02_lcUnique_reachable cfg g hg hz hist) hon hlc

/-- non-vacuity on the history of C01 (fork, tie, reorganisation, orphan): the root of the block that the reorganisation
    put on the longest chain is CONFIRMED, the one it left behind is INVALID, a height above the tip is UNABLE -/
example : IsRoot C01.exRoot ∧ HashAvoids C01.exCfg C01.exRoot.prev ∧ ExcessOk 6 ∧
    (∃ r, IsLcAt (run C01.exCfg [C01.exRoot] C01.exHist) r 1 ∧ r.merkle = 2 ∧ r.hash = 3) ∧
    verify (run C01.exCfg [C01.exRoot] C01.exHist) 6 [(2, 1), (1, 1), (9, 5), (9, 9)] =
      some [(2, 1, .confirmed, some 3), (1, 1, .invalid, none), (9, 5, .unable, none), (9, 9, .invalid, none)] :=
  ⟨by decide, C01.exAvoids, by unfold ExcessOk; decide,
    (C02_confirmed_reachable C01.exCfg C01.exRoot (by decide) C01.exAvoids C01.exHist 6 2 2 1 3).mp (by decide),
    by decide⟩

end Reachable

end BHS.Props.C02
