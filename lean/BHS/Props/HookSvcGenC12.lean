/-
C12 headlines over the REGENERATED webhook code.

Props/HookSvcGen.lean proves that the translated Go functions (`BHS.Gen.HookSvc`, regenerated from /repo on every run)
yield the hand model's next table / answers / client calls for every input. Here the headline theorems of property C12
(Props/C12.lean, stated over the hand model) are carried through that equality and re-stated over what the generated
service does: `genRun` / `genStep` execute the operations with `WebhooksService_CreateWebhook / _DeleteWebhook /
_GetWebhookByURL / _Notify`, `observe` runs one translated method on a table.
-/
import BHS.Props.HookSvcGen
import BHS.Props.C12

set_option linter.unusedVariables false

namespace BHS.Props.HookSvcGen
open BHS BHS.Model.Hooks BHS.HookSvcPrim BHS.Gen.HookSvc BHS.Proofs.Hooks BHS.Proofs.HookSvcGen BHS.Props.C12

/-- **counter invariant** (C12_counter): after ANY operation sequence executed by the generated service, for every
    `max_tries ≥ 1`, a webhook is active iff its error count is below `max_tries`, and the count never exceeds it -/
theorem Gen_C12_counter (cfg : Cfg) (h1 : 1 ≤ cfg.maxTries) (ops : List Op) :
    ∃ s, genRun cfg ops {} = .ok s ∧
      ∀ r ∈ s.table, (r.active = true ↔ r.errors < cfg.maxTries) ∧ r.errors ≤ cfg.maxTries :=
  ⟨run cfg ops {}, Gen_run_refines cfg ops {}, C12_counter cfg h1 ops⟩

/-- **deactivation exactly at `max_tries` consecutive failures** (C12_counter_run + C12_counter): in the table the generated
    service reaches, the count of every webhook is the length of the trailing run of failed deliveries in the history of its
    url (a 200 reply, a registration or a re-registration ends the run), and the webhook is inactive exactly when that run
    has reached `max_tries` -/
theorem Gen_C12_deactivation (cfg : Cfg) (h1 : 1 ≤ cfg.maxTries) (ops : List Op) :
    ∃ s, genRun cfg ops {} = .ok s ∧
      ∀ r ∈ s.table, r.errors = trailingFailures r.url (runLog cfg ops ({}, [])).2 ∧
        (r.active = false ↔ cfg.maxTries ≤ trailingFailures r.url (runLog cfg ops ({}, [])).2) := by
  refine ⟨run cfg ops {}, Gen_run_refines cfg ops {}, fun r hr => ?_⟩
  have hrun := C12_counter_run cfg ops r (by rw [runLog_state]; exact hr)
  have hthr := (C12_counter cfg h1 ops r hr).1
  refine ⟨hrun, ?_⟩
  rw [← hrun]
  cases ha : r.active
  · simp only [true_iff]
    by_cases hlt : r.errors < cfg.maxTries
    · rw [hthr.mpr hlt] at ha; cases ha
    · omega
  · have := hthr.mp ha
    simp only [Bool.true_eq_false, false_iff]
    omega

/-- **one event, step form** (C12_counter_step; success resets, a failure counts, deactivation at the threshold): in every
    state the generated service can reach, the generated `Notify` leaves every inactive row untouched; an active row whose
    delivery is seen to succeed (readable 200 reply) gets count 0 and stays active; an active row whose delivery fails (other
    status, transport error, unreadable body — also with status 200) gets count + 1 and is active afterwards iff the new
    count is below `max_tries`; status and time of the attempt are written to the row -/
theorem Gen_C12_counter_step (cfg : Cfg) (ops : List Op) (out : String → Outcome) :
    ∃ s, genRun cfg ops {} = .ok s ∧ ∃ calls,
      observe (fun _ => none) (WebhooksService_Notify (envOf cfg s out)) s.table =
        .ok (none, s.table.map (rowStep cfg out (s.clock + 1)), calls) ∧
      ∀ r ∈ s.table,
        (r.active = false → rowStep cfg out (s.clock + 1) r = r) ∧
        (r.active = true →
          (rowStep cfg out (s.clock + 1) r).lastStatus = statusOf (rowSeen cfg out r) ∧
          (rowStep cfg out (s.clock + 1) r).lastAt = .at (s.clock + 1) ∧
          ((rowSeen cfg out r).isOk = true →
            (rowStep cfg out (s.clock + 1) r).errors = 0 ∧ (rowStep cfg out (s.clock + 1) r).active = true) ∧
          ((rowSeen cfg out r).isOk = false →
            (rowStep cfg out (s.clock + 1) r).errors = r.errors + 1 ∧
            ((rowStep cfg out (s.clock + 1) r).active = true ↔ r.errors + 1 < cfg.maxTries))) := by
  have h := C12_counter_step cfg ops out
  refine ⟨run cfg ops {}, Gen_run_refines cfg ops {}, (notify cfg (run cfg ops {}) out).2.map wire, ?_, fun r hr => ?_⟩
  · rw [Gen_Notify_refines, h.1]
  · have := h.2 r hr
    exact ⟨this.2.2.2.1, this.2.2.2.2⟩

/-- **re-registration** (C12_reregister): in every state the generated service can reach, the generated `CreateWebhook` on
    the url of an ACTIVE row is refused (ErrRefreshWebhook) and changes nothing; on the url of an INACTIVE row it answers an
    active webhook with a zero count and makes exactly that row active with a zero count (url, header, token unchanged) -/
theorem Gen_C12_reregister (cfg : Cfg) (ops : List Op) (out : String → Outcome) (a hd tk : String) :
    ∃ s, genRun cfg ops {} = .ok s ∧ ∀ r ∈ s.table,
      (r.active = true →
        observe replyOf (WebhooksService_CreateWebhook (envOf cfg s out) a hd tk r.url) s.table =
          .ok (some (.refused .refreshWebhook), s.table, [])) ∧
      (r.active = false →
        ∃ rep, rep.active = true ∧ rep.errors = 0 ∧
          observe replyOf (WebhooksService_CreateWebhook (envOf cfg s out) a hd tk r.url) s.table =
            .ok (some (.ok rep),
                 s.table.map (fun x => if x.url = r.url then
                   { x with active := true, errors := 0,
                            lastStatus := (toWebhook cfg.maxTries r).lastStatus, lastAt := (toWebhook cfg.maxTries r).lastAt }
                   else x), [])) := by
  refine ⟨run cfg ops {}, Gen_run_refines cfg ops {}, fun r hr => ?_⟩
  have hne : r.url ≠ "" := (inv_run cfg ops {} (inv_init cfg)).nonempty r hr
  have h := C12_reregister cfg ops (kindOf a) hd tk r hr
  constructor
  · intro ha
    rw [Gen_CreateWebhook_refines cfg _ out a hd tk r.url hne, h.1 ha]
  · intro ha
    obtain ⟨⟨rep, hrep, h1, h2⟩, htab⟩ := h.2 ha
    exact ⟨rep, h1, h2, by rw [Gen_CreateWebhook_refines cfg _ out a hd tk r.url hne, hrep, htab]⟩

/-- **deactivated hooks are not called; active ones get exactly their header** (C12_calls / C12_posts): in ANY state, under both
    clients, the client calls the generated `Notify` makes are one POST per ACTIVE row, in table order, to its url, with the
    header map `Content-Type` + its stored authorisation entry (none when the name is empty); every one of them leaves
    the client, and the service sees what the target of that url answers. Inactive rows are not called. -/
theorem Gen_C12_calls (cfg : Cfg) (s : State) (out : String → Outcome) :
    ∃ t', observe (fun _ => none) (WebhooksService_Notify (envOf cfg s out)) s.table =
      .ok (none, t', (s.table.filter (·.active)).map (fun r =>
        { headers := wireHeaders ⟨r.url, r.tokenHeader, r.token⟩, method := "POST", url := r.url, posted := true, seen := out r.url })) := by
  refine ⟨(notify cfg s out).1.table, ?_⟩
  rw [Gen_Notify_refines]
  congr 3
  have hc := C12_calls cfg s out
  have hp := C12_posts cfg s out
  have hposted : ∀ a ∈ (notify cfg s out).2, a.posted = true := by
    intro a ha
    have : a ∈ (notify cfg s out).2.filter (·.posted) := by
      have hlen : ((notify cfg s out).2.filter (·.posted)).length = (notify cfg s out).2.length := by
        have h1 := congrArg List.length hp.1
        have h2 := congrArg List.length hc
        simp only [posts, List.length_map] at h1 h2
        omega
      rw [List.filter_eq_self.mpr (List.length_filter_eq_length_iff.mp hlen)]
      exact ha
    exact (List.mem_filter.mp this).2
  have hwire : (notify cfg s out).2.map wire =
      ((notify cfg s out).2.map (·.call)).map (fun c =>
        ({ headers := wireHeaders c, method := "POST", url := c.url, posted := true, seen := out c.url } : Wire)) := by
    rw [List.map_map]
    apply List.map_congr_left
    intro a ha
    simp [wire, hposted a ha, hp.2 a ha]
  rw [hwire, hc, List.map_map]
  rfl

/-- **a deleted webhook is not called** (C12_deleted_not_called), over the generated `DeleteWebhook` and `Notify` -/
theorem Gen_C12_deleted_not_called (cfg : Cfg) (s : State) (u : String) (out : String → Outcome) (hu : u ≠ "")
    (hd : ∃ r ∈ s.table, r.url = u) :
    ∃ t', observe doneOf (WebhooksService_DeleteWebhook (envOf cfg s out) u) s.table = .ok (some .done, t', []) ∧
      ∃ t'' calls, observe (fun _ => none) (WebhooksService_Notify (envOf cfg { s with table := t' } out)) t' = .ok (none, t'', calls) ∧
        ∀ c ∈ calls, c.url ≠ u := by
  have hdone : (delete s u).2 = .done := by
    obtain ⟨r, hr, hru⟩ := hd
    have : (sqlGetByUrl s.table u).isSome := by
      unfold sqlGetByUrl
      exact List.find?_isSome.mpr ⟨r, hr, by simpa using hru⟩
    cases hg : sqlGetByUrl s.table u with
    | none => simp [hg] at this
    | some x => simp [delete, hu, hg]
  refine ⟨(delete s u).1.table, ?_, ?_⟩
  · rw [Gen_DeleteWebhook_refines cfg s out u hu, hdone]
  · have hs : ({ s with table := (delete s u).1.table } : State) = (delete s u).1 := by
      cases s
      simp only [delete, hu, if_false]
      split <;> rfl
    refine ⟨(notify cfg (delete s u).1 out).1.table, (notify cfg (delete s u).1 out).2.map wire, ?_, ?_⟩
    · have := Gen_Notify_refines cfg (delete s u).1 out
      rw [hs]
      exact this
    · intro c hc
      obtain ⟨a, ha, rfl⟩ := List.mem_map.mp hc
      exact C12_deleted_not_called cfg s u out hdone a ha

/-- **the query endpoint** (C12_get_reports): in every state the generated service can reach, the generated
    `GetWebhookByURL` answers, for the url of a row, that row's active flag, error count, status and time of the last attempt -/
theorem Gen_C12_get_reports (cfg : Cfg) (ops : List Op) (out : String → Outcome) :
    ∃ s, genRun cfg ops {} = .ok s ∧ ∀ r ∈ s.table, ∃ rep,
      observe replyOf (WebhooksService_GetWebhookByURL (envOf cfg s out) r.url) s.table = .ok (some (.ok rep), s.table, []) ∧
      rep.active = r.active ∧ rep.errors = r.errors ∧ rep.lastStatus = r.lastStatus ∧ rep.lastAt.attempt = r.lastAt.attempt := by
  refine ⟨run cfg ops {}, Gen_run_refines cfg ops {}, fun r hr => ?_⟩
  have hne : r.url ≠ "" := (inv_run cfg ops {} (inv_init cfg)).nonempty r hr
  obtain ⟨rep, hrep, h⟩ := C12_get_reports cfg ops r hr
  exact ⟨rep, by rw [Gen_GetWebhookByURL_refines cfg _ out r.url hne, hrep], h⟩

/-! ## non-vacuity: states that meet the hypotheses above -/

-- Gen_C12_counter / _deactivation / _counter_step / _get_reports: `1 ≤ max_tries`, and a reachable table with an active row (one
-- failure of three allowed) and an inactive one (three consecutive failures) — the run the generated service makes
set_option maxHeartbeats 4000 in
example :
    (genRun { maxTries := 3, prod := false }
      [.register .bearer "" "tok" "u", .notify (fun _ => .reply 500 ""), .notify (fun _ => .transportErr), .register .other "" "" "v",
       .notify (fun _ => .unreadableBody 200)] {}).toOption.map (fun s => s.table.map (fun r => (r.url, r.errors, r.active))) =
    some [("u", 3, false), ("v", 1, true)] := by
  decide +kernel
example :
    let r := runLog { maxTries := 3, prod := false }
      [.register .bearer "" "tok" "u", .notify (fun _ => .reply 500 ""), .notify (fun _ => .transportErr), .register .other "" "" "v",
       .notify (fun _ => .unreadableBody 200)] ({}, [])
    trailingFailures "u" r.2 = 3 ∧ trailingFailures "v" r.2 = 1 := by
  decide
-- Gen_C12_reregister: a reachable state with an inactive row and an active row
example :
    let s := run { maxTries := 1, prod := false } [.register .bearer "" "tok" "u", .notify (fun _ => .transportErr), .register .other "X" "k" "v"] {}
    (∃ r ∈ s.table, r.active = false) ∧ (∃ r ∈ s.table, r.active = true) := by
  decide
-- Gen_C12_deleted_not_called: a state in which the url to delete has a row
example :
    let s := run { maxTries := 2, prod := true } [.register .other "" "" "u", .register .bearer "" "t" "v"] {}
    "u" ≠ "" ∧ ∃ r ∈ s.table, r.url = "u" := by
  decide

end BHS.Props.HookSvcGen
