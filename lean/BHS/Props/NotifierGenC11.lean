/-
C11 headline over the REGENERATED notifier: the schedule model of Props/C11.lean with its `ingest` step replaced by the
task list the generated `Notifier_Notify` spawns (on the notifier the generated `NewNotifier` / `AddChannel` build).
`genExec = exec` (by `notify_refines_ingest`), so the schedule theorems of C11 are theorems about what
notification/notification.go says now.
-/
import BHS.Props.NotifierGen
import BHS.Props.C11

namespace BHS.Props.NotifierGen
open BHS BHS.Notify BHS.NotifierPrim BHS.Gen.Notifier BHS.Props.C11
variable {E : Type} [DecidableEq E]

/-- one scheduler decision, the `ingest` step executed by the generated `Notify` -/
def genStep (n : Nat) (σ : State E) (bs : List Nat × Step E) : State E :=
  if enabled bs.1 σ bs.2 then
    match bs.2 with
    | .ingest e => genIngest n σ e
    | .deliver c e => apply n σ (.deliver c e)
  else σ

def genExec (n : Nat) (σ : State E) (sched : List (List Nat × Step E)) : State E := sched.foldl (genStep n) σ

theorem genStep_eq (n : Nat) (σ : State E) (bs : List Nat × Step E) : genStep n σ bs = step n σ bs := by
  obtain ⟨b, s⟩ := bs
  cases s <;> simp [genStep, step, notify_refines_ingest]

theorem genExec_eq (n : Nat) (σ : State E) (sched : List (List Nat × Step E)) : genExec n σ sched = exec n σ sched := by
  unfold genExec exec
  congr 1
  funext σ bs
  exact genStep_eq n σ bs

/-- **C11_fanout_never_blocks / C11_fanout_exactly_once over the generated `Notify`**: for every schedule and every set of
    blocked channels, ingestion is always enabled and blocks nothing in the caller's thread, the ingested events are exactly
    the schedule's, and for every registered channel what it got plus what it is still owed is a permutation of what was
    ingested — nothing suppressed, nothing duplicated -/
theorem Gen_C11_fanout (n : Nat) (sched : List (List Nat × Step E)) (c : Nat) (hc : c < n) :
    (∀ (blocked : List Nat) (σ : State E) (e : E), enabled blocked σ (.ingest e) = true) ∧
    (∀ e : E, (Notifier_Notify ((genRegister (List.range n) : NotM Nat E _) {}).1 e {}).2.blocked = []) ∧
    (genExec n (init : State E) sched).ingested = ingestsOf sched ∧
    ((genExec n (init : State E) sched).delivered c ++ pendingFor (genExec n init sched) c).Perm
      (genExec n (init : State E) sched).ingested := by
  rw [genExec_eq]
  refine ⟨(C11_fanout_never_blocks n).1, genIngest_never_blocks n, ?_, (C11_fanout_exactly_once n sched c hc).1⟩
  have := (C11_fanout_never_blocks (E := E) n).2 init sched
  simpa [init] using this

-- non-vacuity: the schedule of Props/C11.lean (channel 1 blocked throughout) run with the generated ingest
example : (genExec 2 init exSched).ingested = [7, 8] ∧ (genExec 2 init exSched).delivered 0 = [7, 8] ∧
    pendingFor (genExec 2 init exSched) 1 = [7, 8] := by decide

end BHS.Props.NotifierGen
