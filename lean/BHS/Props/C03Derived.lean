/-
C03 — consequences of the derived-field rule, for every reachable store (added in the continuation session):
heights and cumulative work are monotone along parent links, a connected row's height never exceeds its rowid
(so heights are bounded by the number of stored headers), and a connected row's cumulative work is at least its own
work. All are corollaries of `WF`, which `C03_derived_invariant` proves for every history.
-/
import BHS.Props.C03

namespace BHS.Props.C03
open BHS BHS.Chain BHS.Spec BHS.Props.C01
set_option autoImplicit false
variable {H : Type} [DecidableEq H]

/-- in a well-formed store a connected row's height is at most its rowid -/
theorem WF_height_le_id (cfg : Cfg H) (s : Store H) (h : WF cfg s) :
    ∀ (n : Nat) (r : Row H), r ∈ s → r.id = n → connected r → r.height ≤ r.id := by
  intro n
  induction n using Nat.strongRecOn with
  | _ n ih =>
    intro r hr hn hc
    by_cases h0 : r.id = 0
    · have := (h.root_of_id hr h0).2.1
      omega
    · obtain ⟨p, hp, _, hlt, hpc, eh, _⟩ := h.par r hr hc h0
      have := ih p.id (by omega) p hp rfl hpc
      omega

/-- along every history: the parent of a connected row is strictly lower and has no more cumulative work -/
theorem C03_parent_below (cfg : Cfg H) (g : Row H) (hg : IsRoot g) (hz : HashAvoids cfg g.prev)
    (hist : List (Src H)) :
    ∀ r ∈ run cfg [g] hist, connected r → r.id ≠ 0 →
      ∃ p ∈ run cfg [g] hist, p.hash = r.prev ∧ p.id < r.id ∧ p.height < r.height ∧ p.cum ≤ r.cum ∧
        r.cum - p.cum = work r.bits := by
  intro r hr hc h0
  obtain ⟨_, hw, hp⟩ := C03_derived_invariant cfg g hg hz hist
  obtain ⟨p, hps, e1, e2, e3, e4⟩ := hp r hr hc h0
  have := (hw r hr h0).2
  exact ⟨p, hps, e1, e2, by omega, by omega, by omega⟩

/-- along every history: a connected row's height is at most its rowid, hence below the number of stored rows -/
theorem C03_height_bounded (cfg : Cfg H) (g : Row H) (hg : IsRoot g) (hz : HashAvoids cfg g.prev)
    (hist : List (Src H)) :
    ∀ r ∈ run cfg [g] hist, connected r → r.height ≤ r.id ∧ r.height < (run cfg [g] hist).length := by
  intro r hr hc
  have hw := (C03_derived_invariant cfg g hg hz hist).1
  have h1 := WF_height_le_id cfg _ hw r.id r hr rfl hc
  refine ⟨h1, ?_⟩
  have hid : r.id ∈ (run cfg [g] hist).map (·.id) := List.mem_map.2 ⟨r, hr, rfl⟩
  rw [hw.ids, List.mem_range] at hid
  omega

/-- along every history: every non-root connected row carries at least its own work -/
theorem C03_cum_ge_work (cfg : Cfg H) (g : Row H) (hg : IsRoot g) (hz : HashAvoids cfg g.prev)
    (hist : List (Src H)) :
    ∀ r ∈ run cfg [g] hist, connected r → r.id ≠ 0 → work r.bits ≤ r.cum := by
  intro r hr hc h0
  obtain ⟨p, _, _, _, _, _, e⟩ := C03_parent_below cfg g hg hz hist r hr hc h0
  omega

-- premises are met by the example store of Props/C01 (root + history with a fork and an orphan)
example : IsRoot exRoot ∧ HashAvoids exCfg exRoot.prev ∧ run exCfg [exRoot] exHist = exStore ∧
    (∃ r ∈ exStore, connected r ∧ r.id ≠ 0 ∧ r.height < r.id) :=
  ⟨by decide, exAvoids, exStore_eq, by decide⟩

end BHS.Props.C03
