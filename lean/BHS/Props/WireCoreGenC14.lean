/-
C14 headlines re-stated over the GENERATED definitions `BHS.Gen.WireCore` (translated from /repo/internal/wire on every run):
corollaries of the theorems of Props/C14.lean through the refinement equalities of Props/WireCoreGen.lean — var-int round
trip and canonicity, rejection of wrong magic / unknown command / oversize length / bad checksum, frame round trip.
-/
import BHS.Props.C14
import BHS.Props.WireCoreGen

set_option linter.unusedSimpArgs false

namespace BHS.Props.WireCoreGen
open BHS BHS.Wire BHS.Gen BHS.Gen.WireC BHS.WirePrim BHS.WireCoreGen

/-! ## C14 headlines re-stated over the GENERATED definitions (corollaries through the equalities above) -/

/-- var-int round trip on the translated code: what the translated WriteVarInt writes (onto any writer content `w`),
    the translated ReadVarInt reads back, for every uint64, leaving the rest of the stream -/
theorem varint_roundtrip_gen (n : Nat) (h : n < 2^64) (w rest : Bytes) :
    ∃ enc, Gen.WireCore.writeVarInt w n = .ok (w ++ enc) ∧ (Gen.WireCore.readVarInt (enc ++ rest)).2 = .ok (n, rest) :=
  ⟨putVarInt n, writeVarInt_refines w n, by rw [readVarInt_refines]; exact C14.varint_roundtrip n h rest⟩

/-- canonicity on the translated code: the translated ReadVarInt returns `n` leaving `rest` iff its input is exactly what
    the translated WriteVarInt writes for `n`, followed by `rest` — no other encoding of `n` is accepted -/
theorem varint_canonical_gen (bs : Bytes) (n : Nat) (rest : Bytes) :
    (Gen.WireCore.readVarInt bs).2 = .ok (n, rest) ↔
      ((∃ enc, Gen.WireCore.writeVarInt [] n = .ok enc ∧ bs = enc ++ rest) ∧ n < 2^64) := by
  rw [readVarInt_refines, C14.varint_canonical]
  constructor
  · rintro ⟨rfl, h⟩; exact ⟨⟨putVarInt n, by rw [writeVarInt_refines]; rfl, rfl⟩, h⟩
  · rintro ⟨⟨enc, he, rfl⟩, h⟩
    rw [writeVarInt_refines] at he
    injection he with he
    exact ⟨by rw [← he]; rfl, h⟩

/-- the error of the translated ReadMessage is the hand model's -/
theorem readMessage_gen_error (U : Bytes → Bool) (hU : ∀ c : Bytes, (∀ x ∈ c, x < 0x80) → U c = true)
    (H : Bytes → Bytes) (gmax pver net : Nat) (b : Bytes) (e : Err) (h : readMessage H gmax pver net b = .error e) :
    (Gen.WireCore.readMessageWithEncodingN U H gmax pver net b).2 = .error e := by
  apply map_snd_err (f := Prod.fst)
  rw [readMessage_refines U hU]; exact h

/-- wrong network magic: the translated ReadMessage rejects the frame whatever the rest of it is -/
theorem reject_wrong_magic_gen (U : Bytes → Bool) (hU : ∀ c : Bytes, (∀ x ∈ c, x < 0x80) → U c = true)
    (H : Bytes → Bytes) (gmax pver net magic len : Nat) (cmd ck rest : Bytes)
    (hm : magic < 2^32) (hl : len < 2^32) (hc : cmd.length = commandSize) (hk : ck.length = 4) (h : magic ≠ net) :
    (Gen.WireCore.readMessageWithEncodingN U H gmax pver net (put32le magic ++ cmd ++ put32le len ++ ck ++ rest)).2 =
      .error (if len > gmax then .oversizeGlobal else .magic) :=
  readMessage_gen_error U hU H gmax pver net _ _ (C14.reject_wrong_magic H gmax pver net magic len cmd ck rest hm hl hc hk h)

/-- a command outside makeEmptyMessage's table (after trimming trailing NULs): rejected by the translated ReadMessage -/
theorem reject_unknown_command_gen (U : Bytes → Bool) (hU : ∀ c : Bytes, (∀ x ∈ c, x < 0x80) → U c = true)
    (H : Bytes → Bytes) (gmax pver net len : Nat) (cmd ck rest : Bytes)
    (hn : net < 2^32) (hl : len < 2^32) (hc : cmd.length = commandSize) (hk : ck.length = 4) (hlen : len ≤ gmax)
    (h : ∀ e ∈ commandTable, e.1 ≠ trimZeros cmd) :
    (Gen.WireCore.readMessageWithEncodingN U H gmax pver net (put32le net ++ cmd ++ put32le len ++ ck ++ rest)).2 =
      .error .badCmd :=
  readMessage_gen_error U hU H gmax pver net _ _ (C14.reject_unknown_command H gmax pver net len cmd ck rest hn hl hc hk hlen h)

/-- a length above the (translated) MaxPayloadLength(pver) of the command's type, or above the global limit: rejected by the
    translated ReadMessage, for every header and stream -/
theorem reject_oversize_gen (U : Bytes → Bool) (hU : ∀ c : Bytes, (∀ x ∈ c, x < 0x80) → U c = true)
    (H : Bytes → Bytes) (gmax pver net len : Nat) (cmd ck rest : Bytes) (t : MsgType) (mpl : Nat)
    (hn : net < 2^32) (hl : len < 2^32) (hc : cmd.length = commandSize) (hk : ck.length = 4)
    (ht : lookupCmd (trimZeros cmd) = some t) (hm : Gen.WireCore.maxPayloadLength gmax pver t = some mpl) (h : len > mpl) :
    (Gen.WireCore.readMessageWithEncodingN U H gmax pver net (put32le net ++ cmd ++ put32le len ++ ck ++ rest)).2 =
      .error (if len > gmax then .oversizeGlobal else .oversizeType) :=
  readMessage_gen_error U hU H gmax pver net _ _
    (C14.reject_oversize H gmax pver net len cmd ck rest t mpl hn hl hc hk ht (by rw [← maxPayloadLength_refines]; exact hm) h)

/-- a payload whose double-hash prefix differs from the header's checksum: rejected by the translated ReadMessage without
    being decoded (this is the statement the seeded change C14-1 — no checksum test for empty payloads — falsifies) -/
theorem reject_bad_checksum_gen (U : Bytes → Bool) (hU : ∀ c : Bytes, (∀ x ∈ c, x < 0x80) → U c = true)
    (H : Bytes → Bytes) (gmax pver net : Nat) (cmd ck payload rest : Bytes) (t : MsgType) (mpl : Nat)
    (hn : net < 2^32) (hg : gmax < 2^32) (hc : cmd.length = commandSize) (hk : ck.length = 4)
    (ht : lookupCmd (trimZeros cmd) = some t) (hm : Gen.WireCore.maxPayloadLength gmax pver t = some mpl)
    (hl1 : payload.length ≤ gmax) (hl2 : payload.length ≤ mpl) (h : checksum H payload ≠ ck) :
    (Gen.WireCore.readMessageWithEncodingN U H gmax pver net
      (put32le net ++ cmd ++ put32le payload.length ++ ck ++ (payload ++ rest))).2 = .error .checksum :=
  readMessage_gen_error U hU H gmax pver net _ _
    (C14.reject_bad_checksum H gmax pver net cmd ck payload rest t mpl hn hg hc hk ht
      (by rw [← maxPayloadLength_refines]; exact hm) hl1 hl2 h)

/-- frame round trip on the translated code: the frame the translated WriteMessage writes for a well-formed message is read
    back by the translated ReadMessage as that message, consuming exactly the frame -/
theorem readMessage_writeMessage_gen (U : Bytes → Bool) (hU : ∀ c : Bytes, (∀ x ∈ c, x < 0x80) → U c = true)
    (H : Bytes → Bytes) (hH : ∀ x, (H x).length = 32) (gmax pver net : Nat) (hg : gmax < 2^32) (hn : net < 2^32)
    (m : Msg) (wf : WF gmax pver m) (frame rest : Bytes)
    (hw : Gen.WireCore.writeMessageWithEncodingN H gmax [] m pver net = .ok frame) :
    ∃ payload, (Gen.WireCore.readMessageWithEncodingN U H gmax pver net (frame ++ rest)).2 = .ok ((m, payload), rest) := by
  rw [writeMessage_refines H hH gmax hg] at hw
  cases hwm : writeMessage H gmax pver net m with
  | error e => rw [hwm] at hw; simp at hw
  | ok fr =>
    rw [hwm] at hw
    simp only [List.nil_append] at hw
    injection hw with hw
    subst hw
    have h := C14.readMessage_writeMessage_wf H hH gmax pver net hg hn m wf fr rest hwm
    unfold readMessage at h
    rw [← readMessage_refines U hU] at h
    obtain ⟨a, ha, hf⟩ := map_snd_ok (f := Prod.fst) h
    refine ⟨a.2, ?_⟩
    rw [ha, ← hf]

/-! ## non-vacuity: the generated definitions evaluate, and the hypotheses are met -/

-- ASCII-only strings valid: met by the function that accepts every string and by a 7-bit test; the test is NOT vacuous
example : ∀ c : Bytes, (∀ x ∈ c, x < 0x80) → (fun _ => true) c = true := fun _ _ => rfl
example : ∀ c : Bytes, (∀ x ∈ c, x < 0x80) → (fun (c : Bytes) => c.all (· < 0x80)) c = true := by
  intro c h; simpa using h
example : Gen.WireCore.writeVarInt [] 0xfd = .ok [0xfd, 0xfd, 0x00] := by decide
example : (Gen.WireCore.readVarInt [0xfd, 0xfd, 0x00, 7]).2 = .ok (0xfd, [7]) := by decide
example : (Gen.WireCore.readVarInt [0xfd, 0xfc, 0x00, 7]).2 = .error .nonCanonical := by decide
example : Gen.WireCore.varIntSerializeSize 0x10000 = 5 := by decide
example : Gen.WireCore.maxNetAddressPayload 31401 = 26 ∧ Gen.WireCore.maxNetAddressPayload 31402 = 30 := by decide
example : Gen.WireCore.maxPayloadLength serviceMaxPayload 70013 .MsgVersion = some 358 ∧
    Gen.WireCore.maxPayloadLength serviceMaxPayload 60000 .MsgPing = some 0 ∧
    Gen.WireCore.maxPayloadLength serviceMaxPayload 60001 .MsgPing = some 8 ∧
    Gen.WireCore.maxPayloadLength serviceMaxPayload 70013 .MsgBlock = none := by decide
example : Gen.WireCore.maxMessagePayload excessiveBlockSize = 268435456 := by decide
-- a ping frame (toy hash): written by the translated WriteMessage, read back by the translated ReadMessage; one flipped
-- checksum byte, a foreign magic and a damaged command are refused with the stated errors
example : Gen.WireCore.writeMessageWithEncodingN (fun _ => List.replicate 32 0) serviceMaxPayload [] (.ping 5) 70013 mainNet =
    .ok [0xe3, 0xe1, 0xf3, 0xe8, 112, 105, 110, 103, 0, 0, 0, 0, 0, 0, 0, 0, 8, 0, 0, 0, 0, 0, 0, 0, 5, 0, 0, 0, 0, 0, 0, 0] := by decide
example : (Gen.WireCore.readMessageWithEncodingN (fun _ => true) (fun _ => List.replicate 32 0) serviceMaxPayload 70013 mainNet
    [0xe3, 0xe1, 0xf3, 0xe8, 112, 105, 110, 103, 0, 0, 0, 0, 0, 0, 0, 0, 8, 0, 0, 0, 0, 0, 0, 0, 5, 0, 0, 0, 0, 0, 0, 0, 9]).2 =
    .ok ((.ping 5, [5, 0, 0, 0, 0, 0, 0, 0]), [9]) := by decide
example : (Gen.WireCore.readMessageWithEncodingN (fun _ => true) (fun _ => List.replicate 32 0) serviceMaxPayload 70013 mainNet
    [0xe3, 0xe1, 0xf3, 0xe8, 112, 105, 110, 103, 0, 0, 0, 0, 0, 0, 0, 0, 8, 0, 0, 0, 0, 0, 0, 1, 5, 0, 0, 0, 0, 0, 0, 0]).2 =
    .error .checksum := by decide
example : (Gen.WireCore.readMessageWithEncodingN (fun _ => true) (fun _ => List.replicate 32 0) serviceMaxPayload 70013 testNet
    [0xe3, 0xe1, 0xf3, 0xe8, 112, 105, 110, 103, 0, 0, 0, 0, 0, 0, 0, 0, 8, 0, 0, 0, 0, 0, 0, 0, 5, 0, 0, 0, 0, 0, 0, 0]).2 =
    .error .magic := by decide
example : (Gen.WireCore.readMessageWithEncodingN (fun _ => true) (fun _ => List.replicate 32 0) serviceMaxPayload 70013 mainNet
    [0xe3, 0xe1, 0xf3, 0xe8, 0, 105, 110, 103, 0, 0, 0, 0, 0, 0, 0, 0, 8, 0, 0, 0, 0, 0, 0, 0, 5, 0, 0, 0, 0, 0, 0, 0]).2 =
    .error .badCmd := by decide
-- an empty payload with a wrong checksum (the case C14-1 lets through) is refused
example : (Gen.WireCore.readMessageWithEncodingN (fun _ => true) (fun _ => List.replicate 32 0) serviceMaxPayload 70013 mainNet
    [0xe3, 0xe1, 0xf3, 0xe8, 118, 101, 114, 97, 99, 107, 0, 0, 0, 0, 0, 0, 0, 0, 0, 0, 1, 2, 3, 4]).2 =
    .error .checksum := by decide

end BHS.Props.WireCoreGen
