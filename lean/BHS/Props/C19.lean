/-
C19 — Compact bits → target → work arithmetic is exact on the whole 32-bit
domain; FastLog2Floor = floor(log2 n).

The theorems are about `BHS.Gen.*`, the definitions REGENERATED from
/repo/domains/chainwork.go and /repo/domains/headers.go on every run by
harness/cmd/extract. They quantify over all 2^32 inputs (no enumeration).
-/
import BHS.Gen.Arith
import BHS.Spec.Arith
import BHS.Proofs.Bits

namespace BHS.Props.C19
open BHS BHS.Spec BHS.Proofs

/-- decoded target = sign × mantissa × 256^(exponent−3) (truncating below 3), for every 32-bit encoding. -/
theorem C19_compact (b : Nat) (hb : b < 2^32) : Gen.compactToBig b = targetSpec b := by
  unfold Gen.compactToBig targetSpec
  have he : b / 2^24 < 256 := by omega
  simp only [Id.run, pure, wrap, subw, Nat.shiftRight_eq_div_pow, sign_bit,
    show (8388607 : Nat) = 2^23 - 1 from rfl, Nat.and_two_pow_sub_one_eq_mod]
  split
  · rename_i h
    have e1 : (8 * ((3 + 2 ^ 64 - b / 2 ^ 24) % 2 ^ 64)) % 2^64 = 8 * (3 - b / 2^24) := by omega
    rw [e1, show (256:Nat) = 2^8 from rfl, ← Nat.pow_mul]
    split <;> simp
  · rename_i h
    have e1 : (8 * ((b / 2 ^ 24 + 2 ^ 64 - 3) % 2 ^ 64)) % 2^64 = 8 * (b / 2^24 - 3) := by omega
    rw [e1, show (256:Nat) = 2^8 from rfl, ← Nat.pow_mul]
    split <;> simp [Int.natCast_mul, Int.natCast_pow]

/-- work = floor(2^256/(target+1)), zero when the target is not positive. -/
theorem C19_work (b : Nat) (hb : b < 2^32) : Gen.calcWork b = workSpec (targetSpec b) := by
  unfold Gen.calcWork workSpec
  simp only [Id.run, pure, C19_compact b hb]
  have hs : (targetSpec b).sign ≤ 0 ↔ targetSpec b ≤ 0 := by
    rcases Int.lt_trichotomy (targetSpec b) 0 with h | h | h
    · simp [Int.sign_eq_neg_one_of_neg h]; omega
    · simp [h]
    · simp [Int.sign_eq_one_of_pos h]; omega
  simp only [hs]
  split
  · rfl
  · simp [Int.div_def]

/-- work is never negative. -/
theorem C19_work_nonneg (b : Nat) (hb : b < 2^32) : 0 ≤ Gen.calcWork b := by
  rw [C19_work b hb]; unfold workSpec
  split
  · exact Int.le_refl _
  · apply Int.ediv_nonneg (by decide) (by omega)

theorem C19_nonpos (t : Int) (h : t ≤ 0) : workSpec t = 0 := by simp [workSpec, h]

/-- work is non-increasing in the (positive) target. -/
theorem C19_antitone (t1 t2 : Int) (h0 : 0 < t1) (h : t1 ≤ t2) : workSpec t2 ≤ workSpec t1 := by
  unfold workSpec
  rw [if_neg (by omega), if_neg (by omega)]
  have hq : 0 ≤ (2:Int)^256 / (t2 + 1) := Int.ediv_nonneg (by decide) (by omega)
  apply Int.le_ediv_of_mul_le (by omega)
  calc (2:Int)^256 / (t2 + 1) * (t1 + 1) ≤ (2:Int)^256 / (t2 + 1) * (t2 + 1) :=
        Int.mul_le_mul_of_nonneg_left (by omega) hq
    _ ≤ 2^256 := Int.ediv_mul_le _ (by omega)

/-- the locator-sizing logarithm equals floor(log2 n) for every 32-bit n ≥ 1. -/
theorem C19_log2 (n : Nat) (h0 : 0 < n) (h : n < 2^32) : Gen.fastLog2Floor n = Nat.log2 n := by
  have hn0 : n ≠ 0 := by omega
  rw [eq_comm, Nat.log2_eq_iff hn0]
  unfold Gen.fastLog2Floor
  simp only [Id.run, pure, wrap, Nat.shiftRight_eq_div_pow, Nat.reducePow, Nat.reduceDiv, Nat.reduceAdd, Nat.reduceMod]
  simp (disch := omega) only [m1]
  split <;> simp (disch := omega) only [m2] <;> split <;> simp (disch := omega) only [m3] <;> split <;>
    simp (disch := omega) only [m4] <;> split <;> simp (disch := omega) only [m5] <;> split <;>
    simp only [Nat.reducePow, Nat.reduceAdd] <;> omega


/-! End-to-end corollaries stated directly on the regenerated definitions. -/

/-- work, as the code computes it, is non-increasing in the decoded target: for any two
encodings with positive targets, the larger target never has the larger work. -/
theorem C19_work_antitone_generated (b1 b2 : Nat) (h1 : b1 < 2^32) (h2 : b2 < 2^32)
    (h0 : 0 < Gen.compactToBig b1) (h : Gen.compactToBig b1 ≤ Gen.compactToBig b2) :
    Gen.calcWork b2 ≤ Gen.calcWork b1 := by
  rw [C19_work b1 h1, C19_work b2 h2]
  rw [C19_compact b1 h1] at h0 h
  rw [C19_compact b2 h2] at h
  exact C19_antitone _ _ h0 h

/-- a non-positive decoded target (zero mantissa, sign bit, truncated away) has work zero in the code. -/
theorem C19_work_zero_generated (b : Nat) (hb : b < 2^32) (h : Gen.compactToBig b ≤ 0) :
    Gen.calcWork b = 0 := by
  rw [C19_work b hb]; rw [C19_compact b hb] at h; exact C19_nonpos _ h

/-- the spec's quotient IS the floor: w·(t+1) ≤ 2^256 < (w+1)·(t+1), and it is the only such w. -/
theorem C19_work_is_floor (t : Int) (h0 : 0 < t) :
    workSpec t * (t + 1) ≤ 2^256 ∧ 2^256 < (workSpec t + 1) * (t + 1) := by
  unfold workSpec
  rw [if_neg (by omega)]
  have hp : (0:Int) < t + 1 := by omega
  refine ⟨Int.ediv_mul_le _ (by omega), ?_⟩
  have := Int.lt_ediv_add_one_mul_self ((2:Int)^256) hp
  exact this

theorem C19_work_floor_unique (t w : Int) (h0 : 0 < t)
    (hl : w * (t + 1) ≤ 2^256) (hu : 2^256 < (w + 1) * (t + 1)) : w = workSpec t := by
  unfold workSpec
  rw [if_neg (by omega)]
  have hp : (0:Int) < t + 1 := by omega
  apply Int.le_antisymm
  · exact Int.le_ediv_of_mul_le hp hl
  · have : (2:Int)^256 / (t + 1) < w + 1 := Int.ediv_lt_of_lt_mul hp hu
    omega

/-- the code's work for a positive target satisfies the floor bracket (no spec in the statement). -/
theorem C19_work_floor_generated (b : Nat) (hb : b < 2^32) (h0 : 0 < Gen.compactToBig b) :
    Gen.calcWork b * (Gen.compactToBig b + 1) ≤ 2^256 ∧
    2^256 < (Gen.calcWork b + 1) * (Gen.compactToBig b + 1) := by
  rw [C19_work b hb, C19_compact b hb]
  rw [C19_compact b hb] at h0
  exact C19_work_is_floor _ h0

/-- work is positive exactly when the target is positive and below 2^256. -/
theorem C19_work_pos_iff (t : Int) (h0 : 0 < t) : 0 < workSpec t ↔ t + 1 ≤ 2^256 := by
  have ⟨hl, hu⟩ := C19_work_is_floor t h0
  have hnn : 0 ≤ workSpec t := by
    unfold workSpec; rw [if_neg (by omega)]; exact Int.ediv_nonneg (by decide) (by omega)
  constructor
  · intro hw
    have : 1 * (t + 1) ≤ workSpec t * (t + 1) := Int.mul_le_mul_of_nonneg_right (by omega) (by omega)
    omega
  · intro ht
    by_cases h : 0 < workSpec t
    · exact h
    · have hz : workSpec t = 0 := by omega
      rw [hz] at hu; omega

/-- on the code: work is positive exactly for the encodings whose decoded target lies in (0, 2^256);
    larger targets (exponent bytes above 32) and non-positive ones weigh nothing in chain selection. -/
theorem C19_work_pos_iff_generated (b : Nat) (hb : b < 2^32) :
    0 < Gen.calcWork b ↔ (0 < Gen.compactToBig b ∧ Gen.compactToBig b + 1 ≤ 2^256) := by
  rw [C19_work b hb, C19_compact b hb]
  constructor
  · intro hw
    by_cases h0 : 0 < targetSpec b
    · exact ⟨h0, (C19_work_pos_iff _ h0).1 hw⟩
    · rw [C19_nonpos _ (by omega)] at hw; omega
  · intro ⟨h0, h1⟩
    exact (C19_work_pos_iff _ h0).2 h1

/-- the logarithm brackets n between consecutive powers of two, on the generated definition. -/
theorem C19_log2_bracket (n : Nat) (h0 : 0 < n) (h : n < 2^32) :
    2 ^ Gen.fastLog2Floor n ≤ n ∧ n < 2 ^ (Gen.fastLog2Floor n + 1) := by
  rw [C19_log2 n h0 h]
  exact (Nat.log2_eq_iff (by omega)).mp rfl

/-- … and never exceeds 31, so a locator built from it has a bounded number of entries. -/
theorem C19_log2_le_31 (n : Nat) (h0 : 0 < n) (h : n < 2^32) : Gen.fastLog2Floor n ≤ 31 := by
  have hb := (C19_log2_bracket n h0 h).1
  rcases Nat.lt_or_ge (Gen.fastLog2Floor n) 32 with h' | h'
  · omega
  · have : 2^32 ≤ 2 ^ Gen.fastLog2Floor n := Nat.pow_le_pow_right (by decide) h'
    omega

/-- the logarithm is monotone. -/
theorem C19_log2_mono (m n : Nat) (h0 : 0 < m) (hmn : m ≤ n) (h : n < 2^32) :
    Gen.fastLog2Floor m ≤ Gen.fastLog2Floor n := by
  have hm := (C19_log2_bracket m h0 (by omega)).1
  have hn := (C19_log2_bracket n (by omega) h).2
  have hlt : 2 ^ Gen.fastLog2Floor m < 2 ^ (Gen.fastLog2Floor n + 1) := by omega
  have := (Nat.pow_lt_pow_iff_right (a := 2) (by decide)).mp hlt
  omega

-- non-vacuity / sanity: concrete evaluations of the regenerated definitions
example : Gen.compactToBig 0x1d00ffff = 0xffff * 2^208 := by decide
example : Gen.calcWork 0x1d00ffff = 4295032833 := by decide
example : Gen.compactToBig 0x04923456 = -0x12345600 := by decide
example : Gen.calcWork 0x04923456 = 0 := by decide
example : Gen.compactToBig 0x01003456 = 0 := by decide
example : Gen.fastLog2Floor 4294967295 = 31 := by decide
example : Gen.fastLog2Floor 1 = 0 := by decide
-- premises of the end-to-end corollaries are satisfiable: 0x1c00ffff decodes below 0x1d00ffff, both positive
example : 0 < Gen.compactToBig 0x1c00ffff ∧ Gen.compactToBig 0x1c00ffff ≤ Gen.compactToBig 0x1d00ffff := by decide
example : Gen.calcWork 0x1d00ffff ≤ Gen.calcWork 0x1c00ffff := by decide
-- both sides of the positivity criterion occur: 0x2200ffff decodes to 0xffff·2^248 > 2^256 and has work 0
example : 0 < Gen.compactToBig 0x2200ffff ∧ Gen.calcWork 0x2200ffff = 0 ∧ 0 < Gen.calcWork 0x207fffff := by decide
example : Gen.compactToBig 0x1d80ffff ≤ 0 ∧ Gen.calcWork 0x1d80ffff = 0 := by decide

end BHS.Props.C19
