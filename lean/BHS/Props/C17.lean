/-
C17 — export then import reproduces the longest chain; bad files are refused.

Model: BHS/Model/ImpExp.lean (a transcription of database/export.go, import.go, sqlite_adapter.go's batched
insert, validateDbConsistency and the skip rule of importHeaders), validated against the Go code by
differential testing on temporary SQLite files (harness/cmd/drive/c17*.go). Helper lemmas:
BHS/Proofs/ImpExp.lean, BHS/Proofs/ImpExpChain.lean. The chain invariant `Inv cfg s` is the one proved for
every store reachable by ingestion in C01.

  C17_roundtrip …            importing the export of a store gives its sorted longest chain, row for row
  C17_refuses_…              malformed row / count / heights / newest checkpoint ⇒ start-up fails
  C17_never_overwrites       a table that already has rows is left alone
  C17_no_leftover            after a refused import the table is empty and a later start refuses again — full strength
                             since /repo commit "fix: a refused import leaves no headers behind" (the defect was found
                             by this check: C17_leftover_before_fix keeps the witness on the pre-fix behaviour)
-/
import BHS.Model.ImpExp
import BHS.Proofs.ImpExpChain
import BHS.Gen.Sql

set_option linter.unusedSectionVars false

namespace BHS.Props.C17
open BHS BHS.Chain BHS.ImpExp

variable {H : Type} [DecidableEq H]

/-- the loop state the import starts from: zero hash, no work, row 0 -/
def acc0 (cd : Codec H) : Acc H := { prev := cd.zero, cum := 0, idx := 0 }

/-! ### the concrete store used by the non-vacuity examples (H := Nat, hashes printed in decimal) -/

def natCodec : Codec Nat := { showH := showNat, parseH := digits?, zero := 0 }

/-- toy hash: nonce + 1 -/
def exCfg : Cfg Nat := { hashOf := fun x => x.nonce + 1, forbidden := [] }

def exRoot : Row Nat :=
  { id := 0, hash := 1000, prev := 0, merkle := 0, height := 0, version := 1, time := 0, bits := 486604799,
    nonce := 999, work := 4295032833, cum := 4295032833, st := .lc }

/-- root; a stale child; its sibling on the longest chain (negative version, time 2^32−1); the tip (nonce 2^32−1,
    version −2^31); an orphan -/
def exStore : Store Nat :=
  [ exRoot,
    { id := 1, hash := 2, prev := 1000, merkle := 1, height := 1, version := 1, time := 1, bits := 486604799,
      nonce := 1, work := 4295032833, cum := 8590065666, st := .stale },
    { id := 2, hash := 3, prev := 1000, merkle := 2, height := 1, version := -1, time := 4294967295, bits := 486604799,
      nonce := 2, work := 4295032833, cum := 8590065666, st := .lc },
    { id := 3, hash := 4294967296, prev := 3, merkle := 3, height := 2, version := -2147483648, time := 3, bits := 486604799,
      nonce := 4294967295, work := 4295032833, cum := 12885098499, st := .lc },
    { id := 4, hash := 5, prev := 777, merkle := 4, height := 1, version := 1, time := 4, bits := 486604799,
      nonce := 4, work := 4295032833, cum := 4295032833, st := .orphan } ]

def exTip : Row Nat :=
  { id := 3, hash := 4294967296, prev := 3, merkle := 3, height := 2, version := -2147483648, time := 3, bits := 486604799,
    nonce := 4294967295, work := 4295032833, cum := 12885098499, st := .lc }

instance (cd : Codec H) (r : Row H) : Decidable (FieldsOk cd r) :=
  decidable_of_iff ((-2147483648 ≤ r.version ∧ r.version < 2147483648) ∧ r.time < 4294967296 ∧ r.bits < 4294967296 ∧
      r.nonce < 4294967296 ∧ cd.parseH (cd.showH r.merkle) = some r.merkle)
    ⟨fun h => ⟨h.1, h.2.1, h.2.2.1, h.2.2.2.1, h.2.2.2.2⟩, fun h => ⟨h.version, h.time, h.bits, h.nonce, h.merkle⟩⟩

instance (cfg : Cfg H) (cd : Codec H) (g : Row H) : Decidable (IsGenesis cfg cd g) :=
  decidable_of_iff (g.prev = cd.zero ∧ g.hash = cfg.hashOf (srcOf g) ∧ g.work = work g.bits ∧ g.cum = g.work)
    ⟨fun h => ⟨h.1, h.2.1, h.2.2.1, h.2.2.2⟩, fun h => ⟨h.prev, h.hash, h.work, h.cum⟩⟩

theorem exHyps : Inv exCfg exStore ∧ exRoot ∈ exStore ∧ exRoot.id = 0 ∧ IsGenesis exCfg natCodec exRoot ∧
    (∀ r ∈ exStore, r.st = .lc → FieldsOk natCodec r) := by decide

/-! ### the root hypotheses hold for the genesis row the service writes (and the driver starts from) -/

/-- database/genesis.go's row: previous hash zero, hash = hash of its fields, cumulated work = work -/
theorem C17_genesis : IsGenesis { hashOf := Header.blockHash, forbidden := [] } strCodec Header.genesisRow :=
  ⟨rfl, rfl, rfl, rfl⟩

/-- … and its fields fit the column types; its merkle root (64 lower-case hex digits) parses back -/
theorem C17_genesis_fields : FieldsOk strCodec Header.genesisRow := by
  refine ⟨by decide, by decide, by decide, by decide, ?_⟩
  decide

/-! ### export then import -/

/-- one pass over the exported records computes the sorted longest chain itself (rowid := height) -/
theorem C17_roundtrip_rows (cfg : Cfg H) (cd : Codec H) (s : Store H) (g : Row H) (hinv : Inv cfg s) (hg : g ∈ s)
    (hg0 : g.id = 0) (hgen : IsGenesis cfg cd g) (hf : ∀ r ∈ s, r.st = .lc → FieldsOk cd r) :
    ∃ acc', importRows cfg cd (exportRows cd s) = .ok ((lcAsc s).map canon) acc' ∧ acc'.idx = (lcAsc s).length := by
  obtain ⟨hw, t, ht, hl⟩ := hinv
  obtain ⟨acc', e, hi⟩ := prepareBatch_linked cfg cd (lcAsc s) _ (linked_lcAsc hw ht hl hg hg0 hgen hf)
  exact ⟨acc', e, by rw [hi]; simp⟩

/-- Exporting a store and importing the file into an empty table, in batches of any size, yields exactly the sorted
    longest chain of the store: `(lcAsc s).map canon` — every row with the same hash, previous hash, merkle root,
    height, version, time, bits, nonce, work, cumulated work, state LONGEST_CHAIN (`canon` only sets rowid := height) —
    and nothing else; the reported count is the number of longest-chain rows. -/
theorem C17_roundtrip (cfg : Cfg H) (cd : Codec H) (bs : Nat) (hbs : 0 < bs) (s : Store H) (g : Row H)
    (hinv : Inv cfg s) (hg : g ∈ s) (hg0 : g.id = 0) (hgen : IsGenesis cfg cd g)
    (hf : ∀ r ∈ s, r.st = .lc → FieldsOk cd r) :
    importFile cfg cd bs (exportFile cd s) [] = ((lcAsc s).map canon, .done (lcAsc s).length) := by
  obtain ⟨acc', e, hi⟩ := C17_roundtrip_rows cfg cd s g hinv hg hg0 hgen hf
  obtain ⟨hw, t, ht, hl⟩ := hinv
  show importChunks cfg cd headerLine.length (chunk bs (exportRows cd s)) [] _ = _
  have hc : chunk bs (exportRows cd s) = chunkGo bs (exportRows cd s).length (exportRows cd s) := by
    unfold chunk; rw [if_neg (by omega)]
  rw [hc, importChunks_chunkGo_ok cfg cd headerLine.length bs hbs _ _ [] _ _ acc' (Nat.le_refl _) e, hi,
    commit_canon_lcAsc hw ht hl]

example : importFile exCfg natCodec 2 (exportFile natCodec exStore) [] = ((lcAsc exStore).map canon, .done 3) := by decide

/-- what `canon` keeps: every column but the rowid -/
theorem C17_canon_fields (r : Row H) :
    (canon r).hash = r.hash ∧ (canon r).prev = r.prev ∧ (canon r).merkle = r.merkle ∧ (canon r).height = r.height ∧
      (canon r).version = r.version ∧ (canon r).time = r.time ∧ (canon r).bits = r.bits ∧ (canon r).nonce = r.nonce ∧
      (canon r).work = r.work ∧ (canon r).cum = r.cum ∧ (canon r).st = r.st ∧ (canon r).id = r.height :=
  ⟨rfl, rfl, rfl, rfl, rfl, rfl, rfl, rfl, rfl, rfl, rfl, rfl⟩

/-- same hashes at the same heights: the imported row at position i is the longest-chain header of height i -/
theorem C17_roundtrip_heights (cfg : Cfg H) (s : Store H) (hinv : Inv cfg s) (i : Nat) (hi : i < (lcAsc s).length) :
    ∃ r ∈ s, r.st = .lc ∧ r.height = i ∧ ((lcAsc s).map canon)[i]'(by rw [List.length_map]; exact hi) = canon r := by
  obtain ⟨hw, t, ht, hl⟩ := hinv
  have hm := mem_lcAsc.1 (List.getElem_mem hi)
  exact ⟨(lcAsc s)[i], hm.1, hm.2, lcAsc_getElem_height hw ht hl i hi, by rw [List.getElem_map]⟩

/-- every longest-chain header is imported, and only those: stale and orphan headers are left out -/
theorem C17_roundtrip_members (cfg : Cfg H) (s : Store H) (hinv : Inv cfg s) (r : Row H) (hr : r ∈ s) :
    (r.st = .lc → canon r ∈ (lcAsc s).map canon) ∧
    (r.st ≠ .lc → ∀ x ∈ (lcAsc s).map canon, x.hash ≠ r.hash) := by
  obtain ⟨hw, t, ht, hl⟩ := hinv
  constructor
  · intro h; exact List.mem_map_of_mem (mem_lcAsc.2 ⟨hr, h⟩)
  · intro h x hx e
    obtain ⟨a, ha, rfl⟩ := List.mem_map.1 hx
    have ha' := mem_lcAsc.1 ha
    have : a = r := hw.hash_inj ha'.1 hr e
    rw [this] at ha'
    exact h ha'.2

example : ∃ r ∈ exStore, r.st = .stale ∧ ∀ x ∈ (lcAsc exStore).map canon, x.hash ≠ r.hash := by decide
example : ∃ r ∈ exStore, r.st = .orphan ∧ ∀ x ∈ (lcAsc exStore).map canon, x.hash ≠ r.hash := by decide

/-- the whole start-up: with the newest checkpoint on the exported chain, a start on an empty database imports the file
    and validation passes (whatever the cleanup switch) -/
theorem C17_roundtrip_start (cleanup : Bool) (cfg : Cfg H) (cd : Codec H) (bs : Nat) (hbs : 0 < bs) (s : Store H)
    (g : Row H) (hinv : Inv cfg s) (hg : g ∈ s) (hg0 : g.id = 0) (hgen : IsGenesis cfg cd g)
    (hf : ∀ r ∈ s, r.st = .lc → FieldsOk cd r) (cps : List (Nat × H)) (c : Row H) (hc : c ∈ s) (hcl : c.st = .lc)
    (hcp : cps.getLast? = some (c.height, c.hash)) :
    startWith cleanup cfg cd bs cps [] (some (exportFile cd s)) =
      ((lcAsc s).map canon, .imported (lcAsc s).length) := by
  have hrt := C17_roundtrip cfg cd bs hbs s g hinv hg hg0 hgen hf
  obtain ⟨hw, t, ht, hl⟩ := hinv
  unfold startWith
  rw [if_neg (by simp)]
  simp only [hrt, validate_canon_lcAsc hw ht hl cps c hc hcl hcp]

example : exTip ∈ exStore ∧ exTip.st = .lc ∧ [(2, 4294967296)].getLast? = some (exTip.height, exTip.hash) := by decide
example : start exCfg natCodec 2 [(2, 4294967296)] [] (some (exportFile natCodec exStore)) =
    ((lcAsc exStore).map canon, .imported 3) := by decide

/-! ### bad files are refused -/

theorem prepareBatch_ok_idx (cfg : Cfg H) (cd : Codec H) (k : Nat) (l : List Record) (acc : Acc H) (rows : List (Row H))
    (acc' : Acc H) (h : prepareBatch cfg cd k l acc = .ok rows acc') : acc'.idx = acc.idx + l.length := by
  induction l generalizing acc rows with
  | nil => rw [prepareBatch_nil] at h; simp only [BatchRes.ok.injEq] at h; rw [← h.2]; rfl
  | cons rec rest ih =>
    rw [prepareBatch_cons] at h
    cases hp : parseRecord cd k acc.prev rec with
    | malformed e => rw [hp] at h; cases h
    | outside => rw [hp] at h; cases h
    | ok x =>
      rw [hp] at h
      simp only [] at h
      cases hr : prepareBatch cfg cd k rest (nextAcc (mkImported cfg x acc) acc) with
      | bad i e => rw [hr] at h; cases h
      | outside i => rw [hr] at h; cases h
      | ok rows' a' =>
        rw [hr] at h
        simp only [BatchRes.ok.injEq] at h
        obtain ⟨-, rfl⟩ := h
        have := ih _ _ hr
        rw [this, List.length_cons]
        simp only [nextAcc]
        omega

/-- the result of a start on an empty table with a readable file, in terms of one pass over the file -/
theorem importFile_res (cfg : Cfg H) (cd : Codec H) (bs : Nat) (hbs : 0 < bs) (hdr : Record) (recs : List Record)
    (tbl : Store H) :
    (importFile cfg cd bs (hdr :: recs) tbl).2 = resOf (prepareBatch cfg cd hdr.length recs (acc0 cd)) := by
  show (importChunks cfg cd hdr.length (chunk bs recs) tbl _).2 = _
  have hc : chunk bs recs = chunkGo bs recs.length recs := by unfold chunk; rw [if_neg (by omega)]
  rw [hc, importChunks_chunkGo_res cfg cd hdr.length bs hbs _ _ _ _ (Nat.le_refl _)]
  rfl

/-- MALFORMED ROW. A file whose records before position `pre.length` are fine and whose record at that position is
    malformed (a cell that is not a decimal int32 / uint32 / int64, a merkle root that is not a hash, another number
    of fields than the column-name line, not five fields) makes start-up fail, naming that row — wherever the
    row is, whatever follows it, whatever the batch size and the cleanup switch. -/
theorem C17_refuses_malformed (cleanup : Bool) (cfg : Cfg H) (cd : Codec H) (bs : Nat) (hbs : 0 < bs)
    (cps : List (Nat × H)) (hdr : Record) (pre post : List Record) (bad : Record) (rows : List (Row H)) (acc1 : Acc H)
    (e : RowErr) (hpre : prepareBatch cfg cd hdr.length pre (acc0 cd) = .ok rows acc1)
    (hbad : parseRecord cd hdr.length acc1.prev bad = .malformed e) :
    (startWith cleanup cfg cd bs cps [] (some (hdr :: (pre ++ bad :: post)))).2 = .refused (.row pre.length e) := by
  have hres := importFile_res cfg cd bs hbs hdr (pre ++ bad :: post) []
  have hidx := prepareBatch_ok_idx cfg cd _ _ _ _ _ hpre
  rw [prepareBatch_append, hpre] at hres
  simp only [andThen, prepareBatch_cons, hbad, resOf] at hres
  have hi : acc1.idx = pre.length := by rw [hidx]; simp [acc0]
  rw [hi] at hres
  unfold startWith
  rw [if_neg (by simp)]
  simp only []
  cases himp : importFile cfg cd bs (hdr :: (pre ++ bad :: post)) [] with
  | mk t r =>
    rw [himp] at hres
    simp only [] at hres
    subst hres
    rfl

/-- in particular a record that does not have five fields -/
theorem C17_refuses_wrong_length (cleanup : Bool) (cfg : Cfg H) (cd : Codec H) (bs : Nat) (hbs : 0 < bs)
    (cps : List (Nat × H)) (hdr : Record) (pre post : List Record) (bad : Record) (rows : List (Row H)) (acc1 : Acc H)
    (hpre : prepareBatch cfg cd hdr.length pre (acc0 cd) = .ok rows acc1) (hlen : bad.length ≠ nColumns) :
    ∃ e, (startWith cleanup cfg cd bs cps [] (some (hdr :: (pre ++ bad :: post)))).2 = .refused (.row pre.length e) := by
  obtain ⟨e, he⟩ := parseRecord_length cd hdr.length acc1.prev bad hlen
  exact ⟨e, C17_refuses_malformed cleanup cfg cd bs hbs cps hdr pre post bad rows acc1 e hpre he⟩

def exGood : Record := ["-1".toList, "7".toList, "10".toList, "486604799".toList, "4294967295".toList]
def exBadVersion : Record := ["2147483648".toList, "8".toList, "11".toList, "486604799".toList, "5".toList]
def exShort : Record := ["1".toList, "8".toList, "11".toList, "486604799".toList]

example : (∃ rows, prepareBatch exCfg natCodec headerLine.length [exGood] (acc0 natCodec) = .ok rows ⟨11, 4295032833, 1⟩) ∧
    parseRecord natCodec headerLine.length 11 exBadVersion = .malformed .version ∧ exShort.length ≠ nColumns :=
  ⟨⟨[mkImported exCfg ⟨-1, 0, 7, 4294967295, 486604799, 10⟩ ⟨0, 0, 0⟩], by decide⟩, by decide, by decide⟩

example : (start exCfg natCodec 1 [(0, 11)] [] (some [headerLine, exGood, exBadVersion, exGood])).2 =
    .refused (.row 1 .version) := by decide

/-- what "malformed" covers, cell by cell (H := String, the driver's codec) -/
example : parseRecord strCodec 5 Header.zeroHash ["".toList, "ab".toList, "1".toList, "1".toList, "1".toList] = .malformed .version ∧
    parseRecord strCodec 5 Header.zeroHash ["-2147483649".toList, "ab".toList, "1".toList, "1".toList, "1".toList] = .malformed .version ∧
    parseRecord strCodec 5 Header.zeroHash ["1x".toList, "ab".toList, "1".toList, "1".toList, "1".toList] = .malformed .version ∧
    parseRecord strCodec 5 Header.zeroHash ["1".toList, "xy".toList, "1".toList, "1".toList, "1".toList] = .malformed .merkle ∧
    parseRecord strCodec 5 Header.zeroHash ["1".toList, (List.replicate 65 'a'), "1".toList, "1".toList, "1".toList] = .malformed .merkle ∧
    parseRecord strCodec 5 Header.zeroHash ["1".toList, "ab".toList, "+1".toList, "1".toList, "1".toList] = .malformed .nonce ∧
    parseRecord strCodec 5 Header.zeroHash ["1".toList, "ab".toList, "1".toList, "4294967296".toList, "1".toList] = .malformed .bits ∧
    parseRecord strCodec 5 Header.zeroHash ["1".toList, "ab".toList, "1".toList, "1".toList, "9223372036854775808".toList] = .malformed .timestamp ∧
    parseRecord strCodec 5 Header.zeroHash ["1".toList, "ab".toList, "1".toList, "1".toList] = .malformed .fieldCount ∧
    parseRecord strCodec 4 Header.zeroHash ["1".toList, "ab".toList, "1".toList, "1".toList] = .malformed .recordLength := by
  decide

/-- an unreadable file (missing, not gzip) and an empty file make start-up fail -/
theorem C17_refuses_unreadable (cleanup : Bool) (cfg : Cfg H) (cd : Codec H) (bs : Nat) (cps : List (Nat × H)) :
    startWith cleanup cfg cd bs cps [] none = ([], .refused .unreadable) ∧
    startWith cleanup cfg cd bs cps [] (some []) = ([], .refused .noHeaderLine) := by
  constructor
  · rfl
  · unfold startWith importFile; cases cleanup <;> rfl

/-- WRONG COUNT: the table does not hold as many rows as records were read -/
theorem C17_refuses_count (cps : List (Nat × H)) (n : Nat) (tbl : Store H) (h : tbl.length ≠ n) :
    validate cps n tbl = .refuse .count := by
  unfold validate; rw [if_pos h]

/-- NON-UNIQUE HEIGHT: two rows on the same height are never accepted -/
theorem C17_refuses_heights (cps : List (Nat × H)) (n : Nat) (tbl : Store H) (h : ¬ (tbl.map (·.height)).Nodup) :
    ∃ e, validate cps n tbl = .refuse e := by
  unfold validate
  by_cases h1 : tbl.length ≠ n
  · exact ⟨_, if_pos h1⟩
  · rw [if_neg h1]
    by_cases h2 : (maxHeight tbl : Int) ≠ (n : Int) - 1
    · exact ⟨_, if_pos h2⟩
    · rw [if_neg h2]; exact ⟨_, if_pos h⟩

/-- HEIGHTS INCONSISTENT WITH THE COUNT: the greatest height is not the number of records minus one -/
theorem C17_refuses_maxheight (cps : List (Nat × H)) (n : Nat) (tbl : Store H) (h : (maxHeight tbl : Int) ≠ (n : Int) - 1) :
    ∃ e, validate cps n tbl = .refuse e := by
  unfold validate
  by_cases h1 : tbl.length ≠ n
  · exact ⟨_, if_pos h1⟩
  · rw [if_neg h1]; exact ⟨_, if_pos h⟩

/-- NEWEST CHECKPOINT: no row at the newest checkpoint's height carries the checkpoint's hash (absent, or another
    hash) ⇒ refused -/
theorem C17_refuses_checkpoint (cps : List (Nat × H)) (n : Nat) (tbl : Store H) (ch : Nat) (chash : H)
    (hcp : cps.getLast? = some (ch, chash)) (h : ∀ r ∈ tbl, r.height = ch → r.hash ≠ chash) :
    ∃ e, validate cps n tbl = .refuse e := by
  unfold validate
  by_cases h1 : tbl.length ≠ n
  · exact ⟨_, if_pos h1⟩
  · rw [if_neg h1]
    by_cases h2 : (maxHeight tbl : Int) ≠ (n : Int) - 1
    · exact ⟨_, if_pos h2⟩
    · rw [if_neg h2]
      by_cases h3 : ¬ (tbl.map (·.height)).Nodup
      · exact ⟨_, if_pos h3⟩
      · rw [if_neg h3, hcp]
        simp only []
        cases hfind : tbl.find? (fun r => decide (r.height = ch)) with
        | none => exact ⟨_, rfl⟩
        | some r =>
          have hm := List.mem_of_find?_eq_some hfind
          have hp := List.find?_some hfind
          simp only [decide_eq_true_eq] at hp
          simp only [if_neg (h r hm hp)]
          exact ⟨_, rfl⟩

/-- a failing validation makes start-up fail: the import's table and count are what `validate` sees -/
theorem C17_refuses_start (cleanup : Bool) (cfg : Cfg H) (cd : Codec H) (bs : Nat) (cps : List (Nat × H))
    (f : List Record) (t : Store H) (n : Nat) (e : Refusal) (himp : importFile cfg cd bs f [] = (t, .done n))
    (hval : validate cps n t = .refuse e) :
    (startWith cleanup cfg cd bs cps [] (some f)).2 = .refused e := by
  unfold startWith
  rw [if_neg (by simp)]
  simp only [himp, hval]

/-- BAD FILES ARE REFUSED, validation side in one statement: the import went through all records (`.done n`, table `t`) and
    the count is wrong, or the heights are inconsistent with it, or a height occurs twice, or no row at the newest
    checkpoint's height carries the checkpoint's hash ⇒ start-up fails -/
theorem C17_refuses (cleanup : Bool) (cfg : Cfg H) (cd : Codec H) (bs : Nat) (cps : List (Nat × H)) (f : List Record)
    (t : Store H) (n : Nat) (himp : importFile cfg cd bs f [] = (t, .done n)) (ch : Nat) (chash : H)
    (hcp : cps.getLast? = some (ch, chash))
    (hbad : t.length ≠ n ∨ (maxHeight t : Int) ≠ (n : Int) - 1 ∨ ¬ (t.map (·.height)).Nodup ∨
      ∀ r ∈ t, r.height = ch → r.hash ≠ chash) :
    ∃ e, (startWith cleanup cfg cd bs cps [] (some f)).2 = .refused e := by
  have hv : ∃ e, validate cps n t = .refuse e := by
    rcases hbad with h | h | h | h
    · exact ⟨_, C17_refuses_count cps n t h⟩
    · exact C17_refuses_maxheight cps n t h
    · exact C17_refuses_heights cps n t h
    · exact C17_refuses_checkpoint cps n t ch chash hcp h
  obtain ⟨e, he⟩ := hv
  exact ⟨e, C17_refuses_start cleanup cfg cd bs cps f t n e himp he⟩

/-- two records with the same (toy) hash: the second insert does nothing (ON CONFLICT DO NOTHING), two records were
    read, one row is in the table — the count check refuses -/
example : importFile exCfg natCodec 500 [headerLine, exGood, exGood] [] =
    ([mkImported exCfg ⟨-1, 0, 7, 4294967295, 486604799, 10⟩ ⟨0, 0, 0⟩], .done 2) := by decide
example : (start exCfg natCodec 500 [(1, 12)] [] (some [headerLine, exGood, exGood])).2 = .refused .count := by decide
example : (start exCfg natCodec 500 [(1, 12)] [] (some [headerLine, exGood, exBadVersion.set 0 "5".toList])).2 =
    .imported 2 := by decide
example : (start exCfg natCodec 500 [(1, 99)] [] (some [headerLine, exGood, exBadVersion.set 0 "5".toList])).2 =
    .refused .checkpointMismatch := by decide
example : (start exCfg natCodec 500 [(2, 12)] [] (some [headerLine, exGood, exBadVersion.set 0 "5".toList])).2 =
    .refused .checkpointAbsent := by decide

/-! ### never overwritten -/

/-- a database that already holds headers is left exactly as it is (the file is not even opened), whatever the file,
    the checkpoints and the switch -/
theorem C17_never_overwrites (cleanup : Bool) (cfg : Cfg H) (cd : Codec H) (bs : Nat) (cps : List (Nat × H))
    (tbl : Store H) (file : Option (List Record)) (h : tbl ≠ []) :
    startWith cleanup cfg cd bs cps tbl file = (tbl, .skipped) := by
  unfold startWith
  rw [if_pos (List.length_pos_iff.2 h)]

example : exStore ≠ [] := by decide

/-! ### nothing left behind by a refused import -/

/-- pinned to the regenerated table of write statements: exactly one statement under /repo/database deletes from
    `headers`, and it is the one in database/import.go — the import's own cleanup (`removeImportedHeaders`; this is why
    `cleanupOnRefusal` is true). Nothing else can remove a stored header; the insert never replaces a row. -/
theorem C17_cleanup_statement :
    (Gen.sqlWrites.filter (fun w => w.verb = "delete" ∧ w.table = "headers")).map (·.origin) = ["database/import.go"] ∧
    (∀ w ∈ Gen.sqlWrites, w.verb = "insert" → w.table = "headers" → w.conflict = "do-nothing") := by decide

/-! `C17_no_leftover` (the full statement) is at the end of this section; it was FALSE before /repo commit
   "fix: a refused import leaves no headers behind" (every batch of 500 records is committed in its own transaction and
   nothing was removed when a later record or the validation failed; the next start found `count > 0` and skipped import
   AND validation). The lemmas `C17_no_leftover_partial` / `_unreadable` hold for either value of the switch. -/

/-- the refusal leaves nothing behind — and the next start refuses again — when it happens before the first commit:
    the first bad record is inside the first batch (`i < bs`) -/
theorem C17_no_leftover_partial (cleanup : Bool) (cfg : Cfg H) (cd : Codec H) (bs : Nat) (cps : List (Nat × H))
    (hdr : Record) (recs : List Record) (i : Nat) (e : RowErr)
    (hbad : prepareBatch cfg cd hdr.length recs (acc0 cd) = .bad i e) (hi : i < bs) :
    startWith cleanup cfg cd bs cps [] (some (hdr :: recs)) = ([], .refused (.row i e)) ∧
    startWith cleanup cfg cd bs cps (startWith cleanup cfg cd bs cps [] (some (hdr :: recs))).1 (some (hdr :: recs)) =
      ([], .refused (.row i e)) := by
  have hbs : bs ≠ 0 := by omega
  have h1 : startWith cleanup cfg cd bs cps [] (some (hdr :: recs)) = ([], .refused (.row i e)) := by
    unfold startWith
    rw [if_neg (by simp)]
    have himp : importFile cfg cd bs (hdr :: recs) [] = ([], .rowError i e) := by
      show importChunks cfg cd hdr.length (chunk bs recs) [] _ = _
      unfold chunk
      rw [if_neg hbs]
      exact importChunks_chunkGo_first_bad cfg cd hdr.length bs _ recs [] _ i e (Nat.le_refl _) hbad
        (by simp only [acc0] at *; omega)
    simp only [himp]
    cases cleanup <;> rfl
  exact ⟨h1, by rw [h1]; exact h1⟩

example : prepareBatch exCfg natCodec headerLine.length [exGood, exBadVersion, exGood] (acc0 natCodec) = .bad 1 .version ∧
    1 < 500 := by decide

/-- same for an unreadable and for an empty file -/
theorem C17_no_leftover_unreadable (cleanup : Bool) (cfg : Cfg H) (cd : Codec H) (bs : Nat) (cps : List (Nat × H)) :
    (startWith cleanup cfg cd bs cps (startWith cleanup cfg cd bs cps [] none).1 none).2 = .refused .unreadable ∧
    (startWith cleanup cfg cd bs cps (startWith cleanup cfg cd bs cps [] (some [])).1 (some [])).2 =
      .refused .noHeaderLine := by
  have h := C17_refuses_unreadable cleanup cfg cd bs cps
  rw [h.1, h.2]
  exact ⟨by rw [h.1], by rw [h.2]⟩

/-- THE DEFECT THIS CHECK FOUND, kept on the model of the code BEFORE the fix (`startWith false`), two witnesses.
    (1) A one-row file whose block at the newest checkpoint height (0) has hash 11 while the checkpoint says 999:
        the first start is refused with "newest checkpoint block has different hash" but the row stays, and the second
        start on that table is `skipped` — it comes up serving the refused row.
    (2) Batch size 1, a good record followed by a malformed one: the first start is refused naming row 1, the first
        batch stays, the second start is `skipped`.
    (The same two inputs on the current code: see the examples after `C17_no_leftover`.) -/
theorem C17_leftover_before_fix :
    ((startWith false exCfg natCodec 500 [(0, 999)] [] (some [headerLine, exGood])).2 = .refused .checkpointMismatch ∧
     (startWith false exCfg natCodec 500 [(0, 999)] [] (some [headerLine, exGood])).1.length = 1 ∧
     (startWith false exCfg natCodec 500 [(0, 999)]
        (startWith false exCfg natCodec 500 [(0, 999)] [] (some [headerLine, exGood])).1
        (some [headerLine, exGood])).2 = .skipped) ∧
    ((startWith false exCfg natCodec 1 [(0, 11)] [] (some [headerLine, exGood, exBadVersion])).2 = .refused (.row 1 .version) ∧
     (startWith false exCfg natCodec 1 [(0, 11)] [] (some [headerLine, exGood, exBadVersion])).1.length = 1 ∧
     (startWith false exCfg natCodec 1 [(0, 11)]
        (startWith false exCfg natCodec 1 [(0, 11)] [] (some [headerLine, exGood, exBadVersion])).1
        (some [headerLine, exGood, exBadVersion])).2 = .skipped) := by decide

/-- with the cleanup (`cleanup = true`: empty the table before returning the error) a refused start leaves an empty
    table, so the next start on that database does what the first did -/
theorem C17_no_leftover_with_cleanup (cfg : Cfg H) (cd : Codec H) (bs : Nat) (cps : List (Nat × H))
    (file : Option (List Record)) (e : Refusal) (h : (startWith true cfg cd bs cps [] file).2 = .refused e) :
    (startWith true cfg cd bs cps [] file).1 = [] ∧
    startWith true cfg cd bs cps (startWith true cfg cd bs cps [] file).1 file = startWith true cfg cd bs cps [] file := by
  have h1 : (startWith true cfg cd bs cps [] file).1 = [] := by
    unfold startWith at h ⊢
    rw [if_neg (by simp)] at h ⊢
    cases file with
    | none => rfl
    | some f =>
      simp only [] at h ⊢
      cases hi : importFile cfg cd bs f [] with
      | mk t r =>
        rw [hi] at h
        cases r with
        | done n =>
          simp only [] at h ⊢
          cases hv : validate cps n t with
          | ok => rw [hv] at h; cases h
          | refuse e' => rfl
          | panic => rw [hv] at h; cases h
        | rowError i e' => rfl
        | noHeaderLine => rfl
        | outside i => cases h
  exact ⟨h1, by rw [h1]⟩

example : (startWith true exCfg natCodec 500 [(0, 999)] [] (some [headerLine, exGood])) = ([], .refused .checkpointMismatch) := by
  decide

/-- NOTHING LEFT BEHIND (full strength, about `start` = the current code): whatever the file, the checkpoints and the
    batch size, a start on an empty database that refuses the prepared file leaves the table empty, and a later start
    on the same database with the same file does exactly what the first did — it imports again and refuses again; it
    never comes up with what the refused import wrote. -/
theorem C17_no_leftover (cfg : Cfg H) (cd : Codec H) (bs : Nat) (cps : List (Nat × H)) (file : Option (List Record))
    (e : Refusal) (h : (start cfg cd bs cps [] file).2 = .refused e) :
    (start cfg cd bs cps [] file).1 = [] ∧
    start cfg cd bs cps (start cfg cd bs cps [] file).1 file = start cfg cd bs cps [] file :=
  C17_no_leftover_with_cleanup cfg cd bs cps file e h

/-- the two inputs of `C17_leftover_before_fix` on the current code: refused, nothing stays, refused again -/
example : start exCfg natCodec 500 [(0, 999)] [] (some [headerLine, exGood]) = ([], .refused .checkpointMismatch) ∧
    start exCfg natCodec 500 [(0, 999)] (start exCfg natCodec 500 [(0, 999)] [] (some [headerLine, exGood])).1
      (some [headerLine, exGood]) = ([], .refused .checkpointMismatch) ∧
    start exCfg natCodec 1 [(0, 11)] [] (some [headerLine, exGood, exBadVersion]) = ([], .refused (.row 1 .version)) ∧
    start exCfg natCodec 1 [(0, 11)] (start exCfg natCodec 1 [(0, 11)] [] (some [headerLine, exGood, exBadVersion])).1
      (some [headerLine, exGood, exBadVersion]) = ([], .refused (.row 1 .version)) := by decide

end BHS.Props.C17
