/-
C14 — Wire codec: decode(encode(m)) = m; hostile bytes are rejected without harm.

All theorems are about the executable model BHS.Wire (lean/BHS/Model/Wire.lean), whose limits,
protocol-version thresholds and command table are the REGENERATED BHS.Gen.Consts / BHS.Gen.WireConsts,
and which the C14 runner compares with the real internal/wire code on every run.
They quantify over ALL messages / byte strings / protocol versions / global limits.

Totality ("never hangs"): every model function is defined by structural recursion (on the declared
count — which the decoder bounds by the per-message limit before looping — or on the byte list), Lean
accepted them without `partial`/well-founded fuel, so each returns an error or a message on every input.
-/
import BHS.Proofs.Wire
import BHS.Proofs.WireAlloc
import BHS.Proofs.WireInv
import BHS.Model.WireSha

namespace BHS.Props.C14
open BHS BHS.Wire BHS.Gen BHS.Gen.WireC

/-! ## var-int -/

/-- ReadVarInt (WriteVarInt n) = n for every uint64 -/
theorem varint_roundtrip (n : Nat) (h : n < 2^64) (rest : Bytes) :
    (getVarInt (putVarInt n ++ rest)).2 = .ok (n, rest) := getVarInt_putVarInt n h rest

/-- ReadVarInt accepts exactly the canonical encodings: it returns `n` (leaving `rest`) iff the input
    is WriteVarInt(n) followed by `rest` -/
theorem varint_canonical (bs : Bytes) (n : Nat) (rest : Bytes) :
    (getVarInt bs).2 = .ok (n, rest) ↔ (bs = putVarInt n ++ rest ∧ n < 2^64) := by
  constructor
  · exact getVarInt_inv
  · rintro ⟨rfl, h⟩; exact getVarInt_putVarInt n h rest


/-! ## payload round trip, per kind: a well-formed message encodes, and its encoding (followed by
anything) decodes back to the same message -/

theorem decode_encode_inv (gmax pver : Nat) (l : List InvVect) (wf : WF gmax pver (.inv l)) :
    ∃ enc, encodePayload pver (.inv l) = .ok enc ∧
      ∀ rest, decodePayload gmax pver .MsgInv (enc ++ rest) = .ok (.inv l) := by
  have wf' : WFInvList l := wf
  refine ⟨putVarInt l.length ++ l.flatMap putInvVect, ?_, fun rest => decodePayload_of_snd (r := rest) ?_⟩
  · simp only [encodePayload, encInvList]; rw [if_neg (by have := wf'.1; omega)]
  · simp only [decodeRd]
    rw [bind_snd_ok (decInvList_enc l wf' rest)]; rfl


theorem decode_encode_getdata (gmax pver : Nat) (l : List InvVect) (wf : WF gmax pver (.getdata l)) :
    ∃ enc, encodePayload pver (.getdata l) = .ok enc ∧
      ∀ rest, decodePayload gmax pver .MsgGetData (enc ++ rest) = .ok (.getdata l) := by
  have wf' : WFInvList l := wf
  refine ⟨putVarInt l.length ++ l.flatMap putInvVect, ?_, fun rest => decodePayload_of_snd (r := rest) ?_⟩
  · simp only [encodePayload, encInvList]; rw [if_neg (by have := wf'.1; omega)]
  · simp only [decodeRd]
    rw [bind_snd_ok (decInvList_enc l wf' rest)]; rfl

theorem decode_encode_notfound (gmax pver : Nat) (l : List InvVect) (wf : WF gmax pver (.notfound l)) :
    ∃ enc, encodePayload pver (.notfound l) = .ok enc ∧
      ∀ rest, decodePayload gmax pver .MsgNotFound (enc ++ rest) = .ok (.notfound l) := by
  have wf' : WFInvList l := wf
  refine ⟨putVarInt l.length ++ l.flatMap putInvVect, ?_, fun rest => decodePayload_of_snd (r := rest) ?_⟩
  · simp only [encodePayload, encInvList]; rw [if_neg (by have := wf'.1; omega)]
  · simp only [decodeRd]
    rw [bind_snd_ok (decInvList_enc l wf' rest)]; rfl

theorem decode_encode_getblocks (gmax pver pv : Nat) (loc : List Bytes) (stop : Bytes) (wf : WF gmax pver (.getblocks pv loc stop)) :
    ∃ enc, encodePayload pver (.getblocks pv loc stop) = .ok enc ∧
      ∀ rest, decodePayload gmax pver .MsgGetBlocks (enc ++ rest) = .ok (.getblocks pv loc stop) := by
  have wf' : WFLocator pv loc stop := wf
  refine ⟨put32le pv ++ putVarInt loc.length ++ loc.flatMap putHash ++ putHash stop, ?_, fun rest => decodePayload_of_snd (r := rest) ?_⟩
  · simp only [encodePayload, encLocator]; rw [if_neg (by have := wf'.2.1; omega)]
  · exact decLocator_enc _ pv loc stop wf' rest

theorem decode_encode_getheaders (gmax pver pv : Nat) (loc : List Bytes) (stop : Bytes) (wf : WF gmax pver (.getheaders pv loc stop)) :
    ∃ enc, encodePayload pver (.getheaders pv loc stop) = .ok enc ∧
      ∀ rest, decodePayload gmax pver .MsgGetHeaders (enc ++ rest) = .ok (.getheaders pv loc stop) := by
  have wf' : WFLocator pv loc stop := wf
  refine ⟨put32le pv ++ putVarInt loc.length ++ loc.flatMap putHash ++ putHash stop, ?_, fun rest => decodePayload_of_snd (r := rest) ?_⟩
  · simp only [encodePayload, encLocator]; rw [if_neg (by have := wf'.2.1; omega)]
  · exact decLocator_enc _ pv loc stop wf' rest

theorem decode_encode_headers (gmax pver : Nat) (l : List BlockHeader) (wf : WF gmax pver (.headers l)) :
    ∃ enc, encodePayload pver (.headers l) = .ok enc ∧
      ∀ rest, decodePayload gmax pver .MsgHeaders (enc ++ rest) = .ok (.headers l) := by
  obtain ⟨h1, h2⟩ := wf
  refine ⟨putVarInt l.length ++ l.flatMap putHeaderElem, ?_, fun rest => decodePayload_of_snd (r := rest) ?_⟩
  · simp only [encodePayload]; rw [if_neg (by omega)]
  · simp only [decodeRd, decHeaders, List.append_assoc]
    rw [getVarInt_bind _ (by have := lim64; omega), guardAlloc_bind _ _ _ _ h1,
      getMany_bind getHeaderElem putHeaderElem l _ rfl _ _ (fun x hx r' => getHeaderElem_put x (h2 x hx) r')]
    rfl

theorem decode_encode_addr (gmax pver : Nat) (l : List NetAddr) (wf : WF gmax pver (.addr l)) :
    ∃ enc, encodePayload pver (.addr l) = .ok enc ∧
      ∀ rest, decodePayload gmax pver .MsgAddr (enc ++ rest) = .ok (.addr l) := by
  obtain ⟨h1, h2, h3⟩ := wf
  refine ⟨putVarInt l.length ++ l.flatMap (putNetAddr pver true), ?_, fun rest => decodePayload_of_snd (r := rest) ?_⟩
  · simp only [encodePayload]
    rw [if_neg (by omega), if_neg (by omega)]
  · simp only [decodeRd, decAddr, List.append_assoc]
    rw [getVarInt_bind _ (by have := lim64; omega), guardAlloc_bind _ _ _ _ h1,
      getMany_bind (getNetAddr pver true) (putNetAddr pver true) l _ rfl _ _ (fun x hx r' => getNetAddr_put pver true x (h3 x hx) r')]
    rfl

theorem decode_encode_ping (gmax pver nonce : Nat) (wf : WF gmax pver (.ping nonce)) :
    ∃ enc, encodePayload pver (.ping nonce) = .ok enc ∧
      ∀ rest, decodePayload gmax pver .MsgPing (enc ++ rest) = .ok (.ping nonce) := by
  have wf' : if bip0031Version < pver then nonce < 2^64 else nonce = 0 := wf
  refine ⟨_, rfl, fun rest => decodePayload_of_snd (r := rest) ?_⟩
  simp only [decodeRd]
  split
  · rename_i h; rw [if_pos h] at wf'; rw [get64le_bind _ wf']; rfl
  · rename_i h; rw [if_neg h] at wf'; subst wf'; rfl

theorem decode_encode_pong (gmax pver nonce : Nat) (wf : WF gmax pver (.pong nonce)) :
    ∃ enc, encodePayload pver (.pong nonce) = .ok enc ∧
      ∀ rest, decodePayload gmax pver .MsgPong (enc ++ rest) = .ok (.pong nonce) := by
  obtain ⟨h1, h2⟩ := wf
  refine ⟨put64le nonce, ?_, fun rest => decodePayload_of_snd (r := rest) ?_⟩
  · simp only [encodePayload]; rw [if_neg (by omega)]
  · simp only [decodeRd]; rw [if_neg (by omega), get64le_bind _ h2]; rfl

theorem decode_encode_feefilter (gmax pver fee : Nat) (wf : WF gmax pver (.feefilter fee)) :
    ∃ enc, encodePayload pver (.feefilter fee) = .ok enc ∧
      ∀ rest, decodePayload gmax pver .MsgFeeFilter (enc ++ rest) = .ok (.feefilter fee) := by
  obtain ⟨h1, h2⟩ := wf
  refine ⟨put64le fee, ?_, fun rest => decodePayload_of_snd (r := rest) ?_⟩
  · simp only [encodePayload]; rw [if_neg (by omega)]
  · simp only [decodeRd]; rw [if_neg (by omega), get64le_bind _ h2]; rfl

theorem decode_encode_sendheaders (gmax pver : Nat) (wf : WF gmax pver .sendheaders) :
    ∃ enc, encodePayload pver .sendheaders = .ok enc ∧
      ∀ rest, decodePayload gmax pver .MsgSendHeaders (enc ++ rest) = .ok .sendheaders := by
  have h : sendHeadersVersion ≤ pver := wf
  refine ⟨[], ?_, fun rest => decodePayload_of_snd (r := rest) ?_⟩
  · simp only [encodePayload]; rw [if_neg (by omega)]
  · simp only [decodeRd]; rw [if_neg (by omega)]; rfl

theorem decode_encode_mempool (gmax pver : Nat) (wf : WF gmax pver .mempool) :
    ∃ enc, encodePayload pver .mempool = .ok enc ∧
      ∀ rest, decodePayload gmax pver .MsgMemPool (enc ++ rest) = .ok .mempool := by
  have h : bip0035Version ≤ pver := wf
  refine ⟨[], ?_, fun rest => decodePayload_of_snd (r := rest) ?_⟩
  · simp only [encodePayload]; rw [if_neg (by omega)]
  · simp only [decodeRd]; rw [if_neg (by omega)]; rfl

theorem decode_encode_verack (gmax pver : Nat) :
    ∃ enc, encodePayload pver .verack = .ok enc ∧
      ∀ rest, decodePayload gmax pver .MsgVerAck (enc ++ rest) = .ok .verack :=
  ⟨[], rfl, fun _ => rfl⟩

theorem decode_encode_getaddr (gmax pver : Nat) :
    ∃ enc, encodePayload pver .getaddr = .ok enc ∧
      ∀ rest, decodePayload gmax pver .MsgGetAddr (enc ++ rest) = .ok .getaddr :=
  ⟨[], rfl, fun _ => rfl⟩

theorem decode_encode_reject (gmax pver : Nat) (hg : gmax < 2^64) (cmd : Bytes) (code : Nat) (reason hash : Bytes)
    (wf : WF gmax pver (.reject cmd code reason hash)) :
    ∃ enc, encodePayload pver (.reject cmd code reason hash) = .ok enc ∧
      ∀ rest, decodePayload gmax pver .MsgReject (enc ++ rest) = .ok (.reject cmd code reason hash) := by
  obtain ⟨h1, h2, h3, h4, h5⟩ := wf
  refine ⟨putVarBytes cmd ++ put8 code ++ putVarBytes reason ++ (if cmd = cmdBlock ∨ cmd = cmdTx then hash else []), ?_,
    fun rest => decodePayload_of_snd (r := rest) ?_⟩
  · simp only [encodePayload]; rw [if_neg (by omega)]
  · simp only [decodeRd, decReject, List.append_assoc]
    rw [if_neg (by omega), getVarBytes_bind _ _ h2 (by omega), get8_bind _ h4, getVarBytes_bind _ _ h3 (by omega)]
    split
    · rename_i hc; rw [if_pos hc] at h5; rw [bind_snd_ok (m := getHash) (getBytes_append hash 32 h5 rest)]; rfl
    · rename_i hc; rw [if_neg hc] at h5; subst h5; rfl

theorem decode_encode_version (gmax pver : Nat)
    (pv sv ts : Nat) (you me : NetAddr) (nonce : Nat) (ua : Bytes) (lb : Nat) (nr : Bool)
    (wf : WF gmax pver (.version pv sv ts you me nonce ua lb nr)) :
    ∃ enc, encodePayload pver (.version pv sv ts you me nonce ua lb nr) = .ok enc ∧
      decodePayload gmax pver .MsgVersion enc = .ok (.version pv sv ts you me nonce ua lb nr) := by
  obtain ⟨h1, h2, h3, h4, h5, h6, h7, h8, h9⟩ := wf
  refine ⟨put32le pv ++ put64le sv ++ put64le ts ++ putNetAddr pver false you ++ putNetAddr pver false me ++
              put64le nonce ++ putVarBytes ua ++ put32le lb ++
              (if bip0037Version ≤ pver then [if nr then 0 else 1] else []), ?_, decodePayload_of_snd (r := []) ?_⟩
  · simp only [encodePayload]; rw [if_neg (by omega)]
  · have hua : ua.length < 2^64 := by have : maxUserAgentLen < 2^64 := by decide
                                      omega
    simp only [decodeRd, decVersion, List.append_assoc]
    rw [get32le_bind _ h1, get64le_bind _ h2, get64le_bind _ h3, bind_snd_ok (getNetAddr_put pver false you h4 _),
      remaining_pos_bind _ _ _ _ (putNetAddr_ne_nil _ _ _ _), bind_snd_ok (getNetAddr_put pver false me h5 _),
      remaining_pos_bind _ _ _ _ (put64le_ne_nil _ _), get64le_bind _ h6,
      remaining_pos_bind _ _ _ _ (by unfold putVarBytes; rw [List.append_assoc]; exact putVarInt_ne_nil _ _)]
    rw [rd_bind_assoc, getVarBytes_bind maxUserAgentLen ua h7 hua]
    rw [if_neg (by omega), bind_snd_ok (pure_snd _ _)]
    rw [remaining_pos_bind _ _ _ _ (put32le_ne_nil _ _), get32le_bind _ h8]
    by_cases hp : bip0037Version ≤ pver
    · rw [if_pos hp]
      rw [remaining_pos_bind _ _ _ _ (by simp)]
      cases nr
      · show ((((get8 >>= fun x => pure (decide (x = 0))) >>= _) (put8 1 ++ [])).2 = _)
        rw [rd_bind_assoc, get8_bind 1 (by decide)]; rfl
      · show ((((get8 >>= fun x => pure (decide (x = 0))) >>= _) (put8 0 ++ [])).2 = _)
        rw [rd_bind_assoc, get8_bind 0 (by decide)]; rfl
    · rw [if_neg hp, remaining_zero_bind]
      have : nr = false := h9 (by omega)
      subst this; rfl

theorem readMessage_writeMessage (H : Bytes → Bytes) (hH : ∀ x, (H x).length = 32)
    (gmax pver net : Nat) (hg : gmax < 2^32) (hn : net < 2^32) (m : Msg) (frame rest : Bytes)
    (hw : writeMessage H gmax pver net m = .ok frame)
    (hd : ∀ enc, encodePayload pver m = .ok enc → decodePayload gmax pver m.msgType enc = .ok m) :
    readMessage H gmax pver net (frame ++ rest) = .ok (m, rest) := by
  obtain ⟨hc, hl⟩ := lookup_command m
  unfold writeMessage at hw
  rw [if_neg (by omega)] at hw
  cases he : encodePayload pver m with
  | error e => rw [he] at hw; simp at hw
  | ok payload =>
    rw [he] at hw
    simp only at hw
    split at hw
    · simp at hw
    · rename_i h1
      cases hmpl : maxPayloadLength gmax pver m.msgType with
      | none => rw [hmpl] at hw; simp at hw
      | some mpl =>
        rw [hmpl] at hw
        simp only at hw
        split at hw
        · simp at hw
        · rename_i h2
          injection hw with hw
          subst hw
          unfold readMessage
          simp only [List.append_assoc]
          have := readMessageRd_header H gmax pver net net payload.length (padCmd m.command) (checksum H payload) (payload ++ rest)
            hn (by omega) (padCmd_length _ hc) (checksum_length H hH _)
          simp only [List.append_assoc] at this
          rw [this]
          unfold readBody
          rw [if_neg h1, if_neg (by simp), hl]
          simp only [hmpl]
          rw [if_neg h2]
          exact readPayload_ok H gmax pver _ payload rest m (hd payload he)

theorem decode_encode_protoconf (gmax pver nf mr : Nat) (wf : WF gmax pver (.protoconf nf mr)) :
    ∃ enc, encodePayload pver (.protoconf nf mr) = .ok enc ∧
      ∀ rest, decodePayload gmax pver .MsgProtoconf (enc ++ rest) = .ok (.protoconf nf mr) := by
  obtain ⟨h1, h2, h3⟩ := wf
  subst h2 h3
  refine ⟨put64le 0 ++ put32le 0, ?_, fun rest => decodePayload_of_snd (r := put64le 0 ++ put32le 0 ++ rest) ?_⟩
  · simp only [encodePayload]; rw [if_neg (by omega)]
  · simp only [decodeRd]; rw [if_neg (by omega)]; rfl

/-- decode(encode(m)) = m for every well-formed message of every modelled kind -/
theorem decode_encode (gmax pver : Nat) (hg2 : gmax < 2^64) (m : Msg)
    (wf : WF gmax pver m) (enc : Bytes) (he : encodePayload pver m = .ok enc) :
    decodePayload gmax pver m.msgType enc = .ok m := by
  have fin : ∀ {t : MsgType} {enc' : Bytes}, encodePayload pver m = .ok enc' →
      (∀ rest, decodePayload gmax pver t (enc' ++ rest) = .ok m) → decodePayload gmax pver t enc = .ok m := by
    intro t enc' h1 h2
    rw [he] at h1; injection h1 with h1; subst h1
    have := h2 []; rwa [List.append_nil] at this
  cases m with
  | version pv sv ts you me nonce ua lb nr =>
    obtain ⟨enc', h1, h2⟩ := decode_encode_version gmax pver pv sv ts you me nonce ua lb nr wf
    rw [he] at h1; injection h1 with h1; subst h1; exact h2
  | verack => obtain ⟨_, h1, h2⟩ := decode_encode_verack gmax pver; exact fin h1 h2
  | getaddr => obtain ⟨_, h1, h2⟩ := decode_encode_getaddr gmax pver; exact fin h1 h2
  | addr l => obtain ⟨_, h1, h2⟩ := decode_encode_addr gmax pver l wf; exact fin h1 h2
  | getheaders pv loc stop => obtain ⟨_, h1, h2⟩ := decode_encode_getheaders gmax pver pv loc stop wf; exact fin h1 h2
  | getblocks pv loc stop => obtain ⟨_, h1, h2⟩ := decode_encode_getblocks gmax pver pv loc stop wf; exact fin h1 h2
  | headers l => obtain ⟨_, h1, h2⟩ := decode_encode_headers gmax pver l wf; exact fin h1 h2
  | inv l => obtain ⟨_, h1, h2⟩ := decode_encode_inv gmax pver l wf; exact fin h1 h2
  | getdata l => obtain ⟨_, h1, h2⟩ := decode_encode_getdata gmax pver l wf; exact fin h1 h2
  | notfound l => obtain ⟨_, h1, h2⟩ := decode_encode_notfound gmax pver l wf; exact fin h1 h2
  | ping n => obtain ⟨_, h1, h2⟩ := decode_encode_ping gmax pver n wf; exact fin h1 h2
  | pong n => obtain ⟨_, h1, h2⟩ := decode_encode_pong gmax pver n wf; exact fin h1 h2
  | reject c k r h => obtain ⟨_, h1, h2⟩ := decode_encode_reject gmax pver hg2 c k r h wf; exact fin h1 h2
  | sendheaders => obtain ⟨_, h1, h2⟩ := decode_encode_sendheaders gmax pver wf; exact fin h1 h2
  | feefilter f => obtain ⟨_, h1, h2⟩ := decode_encode_feefilter gmax pver f wf; exact fin h1 h2
  | mempool => obtain ⟨_, h1, h2⟩ := decode_encode_mempool gmax pver wf; exact fin h1 h2
  | protoconf nf mr => obtain ⟨_, h1, h2⟩ := decode_encode_protoconf gmax pver nf mr wf; exact fin h1 h2

/-- frame round trip for well-formed messages: what WriteMessage wrote, ReadMessage reads back,
    consuming exactly the frame -/
theorem readMessage_writeMessage_wf (H : Bytes → Bytes) (hH : ∀ x, (H x).length = 32)
    (gmax pver net : Nat) (hg : gmax < 2^32) (hn : net < 2^32) (m : Msg)
    (wf : WF gmax pver m) (frame rest : Bytes) (hw : writeMessage H gmax pver net m = .ok frame) :
    readMessage H gmax pver net (frame ++ rest) = .ok (m, rest) :=
  readMessage_writeMessage H hH gmax pver net hg hn m frame rest hw
    (fun enc he => decode_encode gmax pver (by omega) m wf enc he)

/-! ## re-encoding: whatever bytes a decoder accepts, the decoded message is well-formed and its
encoding is exactly the prefix of the input the decoder consumed (var-ints are canonical, the tx-count
of a header is 0, every field is carried verbatim). True for every kind except `version` (optional
trailing fields, any non-zero relay byte, ignored trailing bytes: `reencode_version_counterexample`),
for `addr` only from MultipleAddressVersion on (below it the encoder refuses what the decoder accepts),
and not for protoconf/authch whose payload is ignored on decode. -/

/-- re-encoding: a successfully decoded `inv`-family message is well-formed and its encoding is a prefix of the input -/
theorem reencode_inv (gmax pver : Nat) (bs : Bytes) (m : Msg) (h : decodePayload gmax pver .MsgInv bs = .ok m) :
    ∃ enc rest, encodePayload pver m = .ok enc ∧ bs = enc ++ rest ∧ WF gmax pver m := by
  obtain ⟨rest, h⟩ := decodePayload_inv h
  simp only [decodeRd] at h
  obtain ⟨l, b1, h1, h⟩ := bind_snd_inv h
  obtain ⟨e1, e2⟩ := pure_inv h
  obtain ⟨e3, wf⟩ := decInvList_inv _ _ _ h1
  subst e1 e2
  refine ⟨putVarInt l.length ++ l.flatMap putInvVect, rest, ?_, e3, wf⟩
  simp only [encodePayload, encInvList]; rw [if_neg (by have := wf.1; omega)]

theorem reencode_getheaders (gmax pver : Nat) (bs : Bytes) (m : Msg) (h : decodePayload gmax pver .MsgGetHeaders bs = .ok m) :
    ∃ enc rest, encodePayload pver m = .ok enc ∧ bs = enc ++ rest ∧ WF gmax pver m := by
  obtain ⟨rest, h⟩ := decodePayload_inv h
  simp only [decodeRd] at h
  obtain ⟨pv, loc, stop, e1, e2, wf⟩ := decLocator_inv _ _ _ _ h
  subst e1
  refine ⟨put32le pv ++ putVarInt loc.length ++ loc.flatMap putHash ++ putHash stop, rest, ?_, e2, wf⟩
  simp only [encodePayload, encLocator]; rw [if_neg (by have := wf.2.1; omega)]

theorem reencode_headers (gmax pver : Nat) (bs : Bytes) (m : Msg) (h : decodePayload gmax pver .MsgHeaders bs = .ok m) :
    ∃ enc rest, encodePayload pver m = .ok enc ∧ bs = enc ++ rest ∧ WF gmax pver m := by
  obtain ⟨rest, h⟩ := decodePayload_inv h
  simp only [decodeRd, decHeaders] at h
  obtain ⟨n, b1, h1, h⟩ := bind_snd_inv h
  obtain ⟨u, b2, h2, h⟩ := bind_snd_inv h
  obtain ⟨l, b3, h3, h⟩ := bind_snd_inv h
  obtain ⟨e1, k1⟩ := getVarInt_inv h1
  obtain ⟨k2, e2⟩ := guardAlloc_inv h2
  obtain ⟨e3, hl, hall⟩ := getMany_inv (p := putHeaderElem) (P := WFHeader) getHeaderElem_inv _ _ _ _ h3
  obtain ⟨e4, e5⟩ := pure_inv h
  subst e1 e2 e3 e4 e5 hl
  refine ⟨putVarInt l.length ++ l.flatMap putHeaderElem, rest, ?_, by simp, k2, hall⟩
  simp only [encodePayload]; rw [if_neg (by omega)]

theorem reencode_addr (gmax pver : Nat) (hp : multipleAddressVersion ≤ pver) (bs : Bytes) (m : Msg)
    (h : decodePayload gmax pver .MsgAddr bs = .ok m) :
    ∃ enc rest, encodePayload pver m = .ok enc ∧ bs = enc ++ rest ∧ WF gmax pver m := by
  obtain ⟨rest, h⟩ := decodePayload_inv h
  simp only [decodeRd, decAddr] at h
  obtain ⟨n, b1, h1, h⟩ := bind_snd_inv h
  obtain ⟨u, b2, h2, h⟩ := bind_snd_inv h
  obtain ⟨l, b3, h3, h⟩ := bind_snd_inv h
  obtain ⟨e1, k1⟩ := getVarInt_inv h1
  obtain ⟨k2, e2⟩ := guardAlloc_inv h2
  obtain ⟨e3, hl, hall⟩ := getMany_inv (p := putNetAddr pver true) (P := WFNetAddr pver true) (getNetAddr_inv pver true) _ _ _ _ h3
  obtain ⟨e4, e5⟩ := pure_inv h
  subst e1 e2 e3 e4 e5 hl
  refine ⟨putVarInt l.length ++ l.flatMap (putNetAddr pver true), rest, ?_, by simp, k2, fun hh => by omega, hall⟩
  simp only [encodePayload]; rw [if_neg (by omega), if_neg (by omega)]

theorem reencode_ping (gmax pver : Nat) (bs : Bytes) (m : Msg) (h : decodePayload gmax pver .MsgPing bs = .ok m) :
    ∃ enc rest, encodePayload pver m = .ok enc ∧ bs = enc ++ rest ∧ WF gmax pver m := by
  obtain ⟨rest, h⟩ := decodePayload_inv h
  simp only [decodeRd] at h
  split at h
  · rename_i hp
    obtain ⟨n, b1, h1, h⟩ := bind_snd_inv h
    obtain ⟨e1, k1⟩ := get64le_inv h1
    obtain ⟨e2, e3⟩ := pure_inv h
    subst e1 e2 e3
    refine ⟨put64le n, rest, ?_, rfl, ?_⟩
    · simp only [encodePayload]; rw [if_pos hp]
    · show (if bip0031Version < pver then n < 2^64 else n = 0); rw [if_pos hp]; exact k1
  · rename_i hp
    obtain ⟨e2, e3⟩ := pure_inv h
    subst e2 e3
    refine ⟨[], rest, ?_, rfl, ?_⟩
    · simp only [encodePayload]; rw [if_neg hp]
    · show (if bip0031Version < pver then 0 < 2^64 else 0 = 0); rw [if_neg hp]

theorem reencode_pong (gmax pver : Nat) (bs : Bytes) (m : Msg) (h : decodePayload gmax pver .MsgPong bs = .ok m) :
    ∃ enc rest, encodePayload pver m = .ok enc ∧ bs = enc ++ rest ∧ WF gmax pver m := by
  obtain ⟨rest, h⟩ := decodePayload_inv h
  simp only [decodeRd] at h
  split at h
  · exact (fail_inv h).elim
  · rename_i hp
    obtain ⟨n, b1, h1, h⟩ := bind_snd_inv h
    obtain ⟨e1, k1⟩ := get64le_inv h1
    obtain ⟨e2, e3⟩ := pure_inv h
    subst e1 e2 e3
    refine ⟨put64le n, rest, ?_, rfl, by omega, k1⟩
    simp only [encodePayload]; rw [if_neg hp]

theorem reencode_feefilter (gmax pver : Nat) (bs : Bytes) (m : Msg) (h : decodePayload gmax pver .MsgFeeFilter bs = .ok m) :
    ∃ enc rest, encodePayload pver m = .ok enc ∧ bs = enc ++ rest ∧ WF gmax pver m := by
  obtain ⟨rest, h⟩ := decodePayload_inv h
  simp only [decodeRd] at h
  split at h
  · exact (fail_inv h).elim
  · rename_i hp
    obtain ⟨n, b1, h1, h⟩ := bind_snd_inv h
    obtain ⟨e1, k1⟩ := get64le_inv h1
    obtain ⟨e2, e3⟩ := pure_inv h
    subst e1 e2 e3
    refine ⟨put64le n, rest, ?_, rfl, by omega, k1⟩
    simp only [encodePayload]; rw [if_neg hp]

theorem reencode_reject (gmax pver : Nat) (bs : Bytes) (m : Msg) (h : decodePayload gmax pver .MsgReject bs = .ok m) :
    ∃ enc rest, encodePayload pver m = .ok enc ∧ bs = enc ++ rest ∧ WF gmax pver m := by
  obtain ⟨rest, h⟩ := decodePayload_inv h
  simp only [decodeRd, decReject] at h
  split at h
  · exact (fail_inv h).elim
  · rename_i hp
    obtain ⟨cmd, b1, h1, h⟩ := bind_snd_inv h
    obtain ⟨code, b2, h2, h⟩ := bind_snd_inv h
    obtain ⟨reason, b3, h3, h⟩ := bind_snd_inv h
    obtain ⟨hash, b4, h4, h⟩ := bind_snd_inv h
    obtain ⟨e1, k1, _⟩ := getVarBytes_inv h1
    obtain ⟨e2, k2⟩ := get8_inv h2
    obtain ⟨e3, k3, _⟩ := getVarBytes_inv h3
    obtain ⟨e5, e6⟩ := pure_inv h
    subst e1 e2 e3 e5 e6
    refine ⟨putVarBytes cmd ++ put8 code ++ putVarBytes reason ++ (if cmd = cmdBlock ∨ cmd = cmdTx then hash else []), rest, ?_, ?_,
      by omega, k1, k3, k2, ?_⟩
    · simp only [encodePayload]; rw [if_neg hp]
    · split at h4
      · rename_i hc
        obtain ⟨e4, _⟩ := getHash_inv _ _ _ h4
        rw [e4, if_pos hc]; simp [putHash]
      · rename_i hc
        obtain ⟨_, e4⟩ := pure_inv h4
        rw [e4, if_neg hc]; simp
    · split at h4
      · rename_i hc; rw [if_pos hc]; exact (getHash_inv _ _ _ h4).2
      · rename_i hc; rw [if_neg hc]; exact (pure_inv h4).1

theorem reencode_getdata (gmax pver : Nat) (bs : Bytes) (m : Msg) (h : decodePayload gmax pver .MsgGetData bs = .ok m) :
    ∃ enc rest, encodePayload pver m = .ok enc ∧ bs = enc ++ rest ∧ WF gmax pver m := by
  obtain ⟨rest, h⟩ := decodePayload_inv h
  simp only [decodeRd] at h
  obtain ⟨l, b1, h1, h⟩ := bind_snd_inv h
  obtain ⟨e1, e2⟩ := pure_inv h
  obtain ⟨e3, wf⟩ := decInvList_inv _ _ _ h1
  subst e1 e2
  refine ⟨putVarInt l.length ++ l.flatMap putInvVect, rest, ?_, e3, wf⟩
  simp only [encodePayload, encInvList]; rw [if_neg (by have := wf.1; omega)]

theorem reencode_notfound (gmax pver : Nat) (bs : Bytes) (m : Msg) (h : decodePayload gmax pver .MsgNotFound bs = .ok m) :
    ∃ enc rest, encodePayload pver m = .ok enc ∧ bs = enc ++ rest ∧ WF gmax pver m := by
  obtain ⟨rest, h⟩ := decodePayload_inv h
  simp only [decodeRd] at h
  obtain ⟨l, b1, h1, h⟩ := bind_snd_inv h
  obtain ⟨e1, e2⟩ := pure_inv h
  obtain ⟨e3, wf⟩ := decInvList_inv _ _ _ h1
  subst e1 e2
  refine ⟨putVarInt l.length ++ l.flatMap putInvVect, rest, ?_, e3, wf⟩
  simp only [encodePayload, encInvList]; rw [if_neg (by have := wf.1; omega)]

theorem reencode_getblocks (gmax pver : Nat) (bs : Bytes) (m : Msg) (h : decodePayload gmax pver .MsgGetBlocks bs = .ok m) :
    ∃ enc rest, encodePayload pver m = .ok enc ∧ bs = enc ++ rest ∧ WF gmax pver m := by
  obtain ⟨rest, h⟩ := decodePayload_inv h
  simp only [decodeRd] at h
  obtain ⟨pv, loc, stop, e1, e2, wf⟩ := decLocator_inv _ _ _ _ h
  subst e1
  refine ⟨put32le pv ++ putVarInt loc.length ++ loc.flatMap putHash ++ putHash stop, rest, ?_, e2, wf⟩
  simp only [encodePayload, encLocator]; rw [if_neg (by have := wf.2.1; omega)]

theorem reencode_sendheaders (gmax pver : Nat) (bs : Bytes) (m : Msg) (h : decodePayload gmax pver .MsgSendHeaders bs = .ok m) :
    ∃ enc rest, encodePayload pver m = .ok enc ∧ bs = enc ++ rest ∧ WF gmax pver m :=
  reencode_trivial gmax pver _ .sendheaders bs m sendHeadersVersion rfl rfl Iff.rfl h

theorem reencode_mempool (gmax pver : Nat) (bs : Bytes) (m : Msg) (h : decodePayload gmax pver .MsgMemPool bs = .ok m) :
    ∃ enc rest, encodePayload pver m = .ok enc ∧ bs = enc ++ rest ∧ WF gmax pver m :=
  reencode_trivial gmax pver _ .mempool bs m bip0035Version rfl rfl Iff.rfl h

theorem reencode_verack (gmax pver : Nat) (bs : Bytes) (m : Msg) (h : decodePayload gmax pver .MsgVerAck bs = .ok m) :
    ∃ enc rest, encodePayload pver m = .ok enc ∧ bs = enc ++ rest ∧ WF gmax pver m := by
  obtain ⟨rest, h⟩ := decodePayload_inv h
  obtain ⟨e1, e2⟩ := pure_inv h
  subst e1 e2
  exact ⟨[], rest, rfl, rfl, trivial⟩

theorem reencode_getaddr (gmax pver : Nat) (bs : Bytes) (m : Msg) (h : decodePayload gmax pver .MsgGetAddr bs = .ok m) :
    ∃ enc rest, encodePayload pver m = .ok enc ∧ bs = enc ++ rest ∧ WF gmax pver m := by
  obtain ⟨rest, h⟩ := decodePayload_inv h
  obtain ⟨e1, e2⟩ := pure_inv h
  subst e1 e2
  exact ⟨[], rest, rfl, rfl, trivial⟩

/-- relay byte 0x02: decodes (DisableRelayTx = false), re-encodes with relay byte 0x01 -/
def versionRelay2 : Bytes := List.replicate 85 0 ++ [2]

theorem reencode_version_counterexample :
    ∃ m enc, decodePayload serviceMaxPayload 70013 .MsgVersion versionRelay2 = .ok m ∧
      encodePayload 70013 m = .ok enc ∧ enc.length = versionRelay2.length ∧ enc ≠ versionRelay2 := by
  refine ⟨.version 0 0 0 ⟨goZeroTime, 0, List.replicate 16 0, 0⟩ ⟨goZeroTime, 0, List.replicate 16 0, 0⟩ 0 [] 0 false,
    List.replicate 85 0 ++ [1], ?_, ?_, ?_, ?_⟩ <;> decide


/-- all kinds at once -/
theorem reencode (gmax pver : Nat) (t : MsgType) (bs : Bytes) (m : Msg)
    (h : decodePayload gmax pver t bs = .ok m) (hv : t ≠ .MsgVersion) (hpc : t ≠ .MsgProtoconf)
    (ha : t = .MsgAddr → multipleAddressVersion ≤ pver) :
    ∃ enc rest, encodePayload pver m = .ok enc ∧ bs = enc ++ rest ∧ WF gmax pver m := by
  cases t
  case MsgVersion => exact absurd rfl hv
  case MsgProtoconf => exact absurd rfl hpc
  case MsgVerAck => exact reencode_verack gmax pver bs m h
  case MsgGetAddr => exact reencode_getaddr gmax pver bs m h
  case MsgAddr => exact reencode_addr gmax pver (ha rfl) bs m h
  case MsgGetBlocks => exact reencode_getblocks gmax pver bs m h
  case MsgGetHeaders => exact reencode_getheaders gmax pver bs m h
  case MsgHeaders => exact reencode_headers gmax pver bs m h
  case MsgInv => exact reencode_inv gmax pver bs m h
  case MsgGetData => exact reencode_getdata gmax pver bs m h
  case MsgNotFound => exact reencode_notfound gmax pver bs m h
  case MsgPing => exact reencode_ping gmax pver bs m h
  case MsgPong => exact reencode_pong gmax pver bs m h
  case MsgReject => exact reencode_reject gmax pver bs m h
  case MsgSendHeaders => exact reencode_sendheaders gmax pver bs m h
  case MsgFeeFilter => exact reencode_feefilter gmax pver bs m h
  case MsgMemPool => exact reencode_mempool gmax pver bs m h
  all_goals (obtain ⟨_, h⟩ := decodePayload_inv h; exact (fail_inv (b := bs) h).elim)

/-! ## rejection of hostile frames (for ALL header field values and ALL streams) -/

/-- every stream of at least 24 bytes is a header (magic, 12-byte command field, length, checksum) followed by
    the rest — so the rejection theorems below cover ALL byte strings, not only well-formed headers -/
theorem frame_header_decompose (bs : Bytes) (h : messageHeaderSize ≤ bs.length) :
    ∃ magic cmd len ck rest, bs = put32le magic ++ cmd ++ put32le len ++ ck ++ rest ∧
      magic < 2^32 ∧ len < 2^32 ∧ cmd.length = commandSize ∧ ck.length = 4 := by
  have h24 : 24 ≤ bs.length := h
  obtain ⟨magic, hm, em⟩ := bytes4_eq_put32le (bs.take 4) (by simp; omega)
  obtain ⟨len, hl, el⟩ := bytes4_eq_put32le ((bs.drop 16).take 4) (by simp; omega)
  refine ⟨magic, (bs.drop 4).take 12, len, (bs.drop 20).take 4, bs.drop 24, ?_, hm, hl, by simp; show min 12 _ = 12; omega, by simp; omega⟩
  rw [← em, ← el]
  have e1 : bs = bs.take 4 ++ bs.drop 4 := (List.take_append_drop 4 bs).symm
  have e2 : bs.drop 4 = (bs.drop 4).take 12 ++ bs.drop 16 := by
    have := (List.take_append_drop 12 (bs.drop 4)).symm
    rwa [List.drop_drop] at this
  have e3 : bs.drop 16 = (bs.drop 16).take 4 ++ bs.drop 20 := by
    have := (List.take_append_drop 4 (bs.drop 16)).symm
    rwa [List.drop_drop] at this
  have e4 : bs.drop 20 = (bs.drop 20).take 4 ++ bs.drop 24 := by
    have := (List.take_append_drop 4 (bs.drop 20)).symm
    rwa [List.drop_drop] at this
  calc bs = bs.take 4 ++ bs.drop 4 := e1
    _ = bs.take 4 ++ ((bs.drop 4).take 12 ++ ((bs.drop 16).take 4 ++ ((bs.drop 20).take 4 ++ bs.drop 24))) := by
      rw [← e4, ← e3, ← e2]
    _ = _ := by simp only [List.append_assoc]

/-- a stream shorter than a header is rejected -/
theorem reject_short (H : Bytes → Bytes) (gmax pver net : Nat) (bs : Bytes) (h : bs.length < messageHeaderSize) :
    readMessage H gmax pver net bs = .error .eof := by
  unfold readMessage readMessageRd
  rw [remaining_bind, if_pos h]; rfl

/-- a length above the global limit is rejected before anything else is looked at -/
theorem reject_oversize_global (H : Bytes → Bytes) (gmax pver net magic len : Nat) (cmd ck rest : Bytes)
    (hm : magic < 2^32) (hl : len < 2^32) (hc : cmd.length = commandSize) (hk : ck.length = 4) (h : len > gmax) :
    readMessage H gmax pver net (put32le magic ++ cmd ++ put32le len ++ ck ++ rest) = .error .oversizeGlobal := by
  unfold readMessage
  rw [readMessageRd_header H gmax pver net magic len cmd ck rest hm hl hc hk]
  unfold readBody; rw [if_pos h]; rfl

/-- wrong network magic: rejected whatever the rest of the frame is -/
theorem reject_wrong_magic (H : Bytes → Bytes) (gmax pver net magic len : Nat) (cmd ck rest : Bytes)
    (hm : magic < 2^32) (hl : len < 2^32) (hc : cmd.length = commandSize) (hk : ck.length = 4) (h : magic ≠ net) :
    readMessage H gmax pver net (put32le magic ++ cmd ++ put32le len ++ ck ++ rest) =
      .error (if len > gmax then .oversizeGlobal else .magic) := by
  unfold readMessage
  rw [readMessageRd_header H gmax pver net magic len cmd ck rest hm hl hc hk]
  unfold readBody
  split
  · rfl
  · rfl

/-- a command that is not in makeEmptyMessage's table (after trimming trailing NULs) is rejected -/
theorem reject_unknown_command (H : Bytes → Bytes) (gmax pver net len : Nat) (cmd ck rest : Bytes)
    (hn : net < 2^32) (hl : len < 2^32) (hc : cmd.length = commandSize) (hk : ck.length = 4) (hlen : len ≤ gmax)
    (h : ∀ e ∈ commandTable, e.1 ≠ trimZeros cmd) :
    readMessage H gmax pver net (put32le net ++ cmd ++ put32le len ++ ck ++ rest) = .error .badCmd := by
  unfold readMessage
  rw [readMessageRd_header H gmax pver net net len cmd ck rest hn hl hc hk]
  unfold readBody
  rw [if_neg (by omega), if_neg (by simp)]
  have : lookupCmd (trimZeros cmd) = none := by
    unfold lookupCmd
    have : commandTable.find? (fun e => e.1 == trimZeros cmd) = none := by
      rw [List.find?_eq_none]
      intro e he
      simpa using h e he
    rw [this]
  rw [this]; rfl

/-- a length above MaxPayloadLength(pver) of the command's type is rejected (nothing is read or allocated for it) -/
theorem reject_oversize (H : Bytes → Bytes) (gmax pver net len : Nat) (cmd ck rest : Bytes) (t : MsgType) (mpl : Nat)
    (hn : net < 2^32) (hl : len < 2^32) (hc : cmd.length = commandSize) (hk : ck.length = 4)
    (ht : lookupCmd (trimZeros cmd) = some t) (hm : maxPayloadLength gmax pver t = some mpl) (h : len > mpl) :
    readMessage H gmax pver net (put32le net ++ cmd ++ put32le len ++ ck ++ rest) =
      .error (if len > gmax then .oversizeGlobal else .oversizeType) := by
  unfold readMessage
  rw [readMessageRd_header H gmax pver net net len cmd ck rest hn hl hc hk]
  unfold readBody
  split
  · rfl
  · rw [if_neg (by simp), ht]; simp only [hm]; rw [if_pos h]; rfl

/-- a payload whose checksum differs from the header's is rejected without being decoded -/
theorem reject_bad_checksum (H : Bytes → Bytes) (gmax pver net : Nat) (cmd ck payload rest : Bytes) (t : MsgType) (mpl : Nat)
    (hn : net < 2^32) (hg : gmax < 2^32) (hc : cmd.length = commandSize) (hk : ck.length = 4)
    (ht : lookupCmd (trimZeros cmd) = some t) (hm : maxPayloadLength gmax pver t = some mpl)
    (hl1 : payload.length ≤ gmax) (hl2 : payload.length ≤ mpl) (h : checksum H payload ≠ ck) :
    readMessage H gmax pver net (put32le net ++ cmd ++ put32le payload.length ++ ck ++ (payload ++ rest)) = .error .checksum := by
  unfold readMessage
  rw [readMessageRd_header H gmax pver net net payload.length cmd ck (payload ++ rest) hn (by omega) hc hk]
  unfold readBody
  rw [if_neg (by omega), if_neg (by simp), ht]; simp only [hm]; rw [if_neg (by omega)]
  unfold readPayload
  rw [bind_snd_ok (m := Rd.alloc _) rfl, getBytes_bind _ _ rfl]
  unfold finishPayload
  rw [if_pos h]

/-- a frame cut short inside its payload is rejected -/
theorem reject_truncated (H : Bytes → Bytes) (gmax pver net len : Nat) (cmd ck tail : Bytes) (t : MsgType) (mpl : Nat)
    (hn : net < 2^32) (hl : len < 2^32) (hc : cmd.length = commandSize) (hk : ck.length = 4)
    (ht : lookupCmd (trimZeros cmd) = some t) (hm : maxPayloadLength gmax pver t = some mpl)
    (hl1 : len ≤ gmax) (hl2 : len ≤ mpl) (h : tail.length < len) :
    readMessage H gmax pver net (put32le net ++ cmd ++ put32le len ++ ck ++ tail) = .error .eof := by
  unfold readMessage
  rw [readMessageRd_header H gmax pver net net len cmd ck tail hn hl hc hk]
  unfold readBody
  rw [if_neg (by omega), if_neg (by simp), ht]; simp only [hm]; rw [if_neg (by omega)]
  unfold readPayload
  rw [bind_snd_ok (m := Rd.alloc _) rfl]
  apply bind_snd_err
  unfold getBytes; rw [if_neg (by omega)]

/-! ## regenerated table: the model's MaxPayloadLength is the code's -/

set_option maxRecDepth 20000 in
/-- the model's MaxPayloadLength equals the real types' on every row of the regenerated table
    (every modelled type × every threshold protocol version with its neighbours, under the service's SetLimits) -/
theorem maxPayload_table :
    ∀ row ∈ maxPayloadTable, maxPayloadLength serviceMaxPayload row.2.1 row.1 = some row.2.2 := by
  decide

/-! ## allocation: the meter of the decoder model (every `make` sized by a length / count field)

History: the full-strength per-type statement used to be false for `version` — `MsgVersion.Bsvdecode`
read the user agent with ReadVarString (guard = the global maxMessagePayload(), 256 MiB) and checked
MaxUserAgentLen only afterwards, so an 85-byte payload forced a 268,435,455-byte allocation against a
declared limit of 358. This check found it (C14-F1, docs/findings/C14.md); /repo now reads the user agent
with ReadVarBytes bounded by MaxUserAgentLen, the model follows, and `version` is covered by the
per-type theorem; `version_inflated_rejected_without_allocation` is the old witness, now a regression fact.

The full-strength per-type statement

    theorem alloc_bound_type (gmax pver t bs mpl) (hm : maxPayloadLength gmax pver t = some mpl) :
        ∀ a ∈ decodeAllocs gmax pver t bs, a ≤ mpl

remains false only for `addr` below MultipleAddressVersion = 209, which the service never negotiates
(MinAcceptableProtocolVersion = 209): the decoder allows 1000 entries where MaxPayloadLength allows one —
`alloc_bound_type_addr_counterexample`. Proved: the global strength for every type, and the per-type
strength with exactly that input excluded. -/

/-- global strength: no allocation of a payload decode exceeds maxMessagePayload(), whatever the bytes -/
theorem alloc_bound_global (gmax pver : Nat) (hg : maxInvPerMsg * invVectSize ≤ gmax) (t : MsgType) (bs : Bytes) :
    ∀ a ∈ decodeAllocs gmax pver t bs, a ≤ gmax :=
  (allocsLe_decodeRd_global gmax pver hg t).le bs

/-- per-type strength for every type incl. `version`, excluding exactly `addr` below protocol version 209:
    no allocation of a payload decode exceeds the MaxPayloadLength the type declares, whatever the bytes -/
theorem alloc_bound_type_partial (gmax pver : Nat) (t : MsgType) (mpl : Nat) (bs : Bytes)
    (hm : maxPayloadLength gmax pver t = some mpl)
    (ha : t = .MsgAddr → multipleAddressVersion ≤ pver) :
    ∀ a ∈ decodeAllocs gmax pver t bs, a ≤ mpl :=
  (allocsLe_decodeRd_type gmax pver t mpl hm ha).le bs

/-- frame level: every allocation of one ReadMessage (payload buffer ≤ the checked header length,
    discardInput's buffers, decoder allocations) is bounded by the global limit, on every input stream -/
theorem alloc_bound_frame (H : Bytes → Bytes) (gmax pver net : Nat) (hg : maxInvPerMsg * invVectSize ≤ gmax) (bs : Bytes) :
    ∀ a ∈ readMessageAllocs H gmax pver net bs, a ≤ gmax :=
  (allocsLe_readMessageRd H gmax pver net hg).le bs

/-- 85 bytes of `version` payload: 80 zero bytes, then a user-agent var-int that says 0x0FFFFFFF -/
def versionInflated : Bytes := List.replicate 80 0 ++ [0xfe, 0xff, 0xff, 0xff, 0x0f]

/-- regression fact for the repaired defect C14-F1: the old witness payload is refused (`tooLong`)
    with NO allocation, and `version` declares 358 bytes -/
theorem version_inflated_rejected_without_allocation :
    maxPayloadLength serviceMaxPayload 70013 .MsgVersion = some 358 ∧
    versionInflated.length = 85 ∧
    decodePayload serviceMaxPayload 70013 .MsgVersion versionInflated = .error .tooLong ∧
    decodeAllocs serviceMaxPayload 70013 .MsgVersion versionInflated = [] := by
  decide

/-- `addr` at protocol version 208 (never negotiated): a 3-byte payload makes the decoder allocate 1000 entries -/
theorem alloc_bound_type_addr_counterexample :
    maxPayloadLength serviceMaxPayload 208 .MsgAddr = some 35 ∧
    decodeAllocs serviceMaxPayload 208 .MsgAddr [0xfd, 0xe8, 0x03] = [26000] := by
  decide

/-! ## non-vacuity: the hypotheses of the theorems above are met by concrete, non-trivial values -/

-- the global limit the service runs with (wire.SetLimits(config.ExcessiveBlockSize)) meets every side condition
example : serviceMaxPayload = 268435456 := by decide
example : serviceMaxPayload < 2^32 ∧ maxInvPerMsg * invVectSize ≤ serviceMaxPayload := by decide
-- SHA-256 (the hash the driver instantiates the frame layer with) meets the hash hypothesis
example : ∀ x, (BHS.WireSha.sha256 x).length = 32 := BHS.WireSha.sha256_length
-- well-formed messages of every kind exist (WF is decidable)
example : WF serviceMaxPayload 70013 (.version 70013 1 1700000000 ⟨goZeroTime, 1, List.replicate 16 1, 8333⟩ ⟨goZeroTime, 0, List.replicate 16 0, 0⟩ 7 [47, 120, 47] 800000 true) := by decide
example : ¬ WF serviceMaxPayload 60002 (.version 70013 1 1700000000 ⟨goZeroTime, 1, List.replicate 16 1, 8333⟩ ⟨goZeroTime, 0, List.replicate 16 0, 0⟩ 7 [] 0 true) := by decide
example : WF serviceMaxPayload 70013 (.addr [⟨1700000000, 1, List.replicate 16 9, 8333⟩]) := by decide
example : WF serviceMaxPayload 209 (.addr [⟨goZeroTime, 1, List.replicate 16 9, 8333⟩]) := by decide
example : WF serviceMaxPayload 70013 (.getheaders 70013 [List.replicate 32 1, List.replicate 32 2] zeroHash) := by decide
example : WF serviceMaxPayload 70013 (.getblocks 70013 [List.replicate 32 1] zeroHash) := by decide
example : WF serviceMaxPayload 70013 (.headers [⟨1, zeroHash, List.replicate 32 3, 1231006505, 0x1d00ffff, 2083236893⟩]) := by decide
example : WF serviceMaxPayload 70013 (.inv [⟨2, List.replicate 32 5⟩]) ∧ WF serviceMaxPayload 70013 (.getdata [⟨2, List.replicate 32 5⟩]) ∧
    WF serviceMaxPayload 70013 (.notfound [⟨1, List.replicate 32 5⟩]) := by decide
example : WF serviceMaxPayload 70013 (.ping 5) ∧ WF serviceMaxPayload 60000 (.ping 0) ∧ ¬ WF serviceMaxPayload 60000 (.ping 5) := by decide
example : WF serviceMaxPayload 60001 (.pong 5) ∧ ¬ WF serviceMaxPayload 60000 (.pong 5) := by decide
example : WF serviceMaxPayload 70002 (.reject cmdBlock 0x10 [98, 97, 100] (List.replicate 32 7)) ∧
    WF serviceMaxPayload 70002 (.reject [118] 0x10 [] zeroHash) ∧ ¬ WF serviceMaxPayload 70001 (.reject [118] 0x10 [] zeroHash) := by decide
example : WF serviceMaxPayload 70012 .sendheaders ∧ WF serviceMaxPayload 70013 (.feefilter 1000) ∧ WF serviceMaxPayload 60002 .mempool ∧
    WF serviceMaxPayload 0 .verack ∧ WF serviceMaxPayload 0 .getaddr := by decide
-- concrete evaluations of the model
example : encodePayload 70013 (.ping 5) = .ok [5, 0, 0, 0, 0, 0, 0, 0] := by decide
example : decodePayload serviceMaxPayload 70013 .MsgPing [5, 0, 0, 0, 0, 0, 0, 0, 0xff] = .ok (.ping 5) := by decide
example : decodePayload serviceMaxPayload 70013 .MsgInv [0xfd, 0x01, 0x00] = .error .nonCanonical := by decide
example : decodePayload serviceMaxPayload 70013 .MsgInv [0xfd, 0x51, 0xc3] = .error .tooMany := by decide
example : decodeAllocs serviceMaxPayload 70013 .MsgInv [0xfd, 0x50, 0xc3] = [1800000] := by decide
example : decodePayload serviceMaxPayload 70013 .MsgHeaders ([1] ++ List.replicate 80 0 ++ [1]) = .error .txCount := by decide
-- the frame theorems' hypotheses: a known command, an unknown one, a toy 32-byte hash
example : lookupCmd (trimZeros (padCmd [112, 105, 110, 103])) = some .MsgPing ∧ (padCmd [112, 105, 110, 103]).length = commandSize := by decide
example : ∀ e ∈ commandTable, e.1 ≠ trimZeros (padCmd [102, 111, 111]) := by decide
example : lookupCmd (trimZeros ([118, 101, 114, 0, 97, 99, 107, 0, 0, 0, 0, 0])) = none := by decide
example : writeMessage (fun _ => List.replicate 32 0) serviceMaxPayload 70013 mainNet (.ping 5) =
    .ok ([0xe3, 0xe1, 0xf3, 0xe8, 112, 105, 110, 103, 0, 0, 0, 0, 0, 0, 0, 0, 8, 0, 0, 0, 0, 0, 0, 0, 5, 0, 0, 0, 0, 0, 0, 0]) := by decide
example : readMessage (fun _ => List.replicate 32 0) serviceMaxPayload 70013 mainNet
    ([0xe3, 0xe1, 0xf3, 0xe8, 112, 105, 110, 103, 0, 0, 0, 0, 0, 0, 0, 0, 8, 0, 0, 0, 0, 0, 0, 1, 5, 0, 0, 0, 0, 0, 0, 0]) = .error .checksum := by decide

end BHS.Props.C14
