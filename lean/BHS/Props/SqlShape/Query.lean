/-
Pinned SQL: the normalised text of every statement the hand-written chain model (BHS/Model/Chain.lean, Query.lean)
was transcribed from, compared with BHS/Gen/SqlText.lean, which is REGENERATED from /repo/database/sql on every run.
An edited statement re-opens the obligation of every property whose model reads through it; the check then
searches for a failing input (correspondence + oracle) and reports the violation with it, or `no-failing-input-found`.
-/
import BHS.Gen.SqlText

namespace BHS.Props.SqlShape
open BHS.Gen

/-- chain queries (model: byHash / byHeightRange / allTips / ancestorOnHeight / chainBetween / prev) — C04 -/
theorem query_statements :
    sqlText_sqlHeader =
      "select hash, height, version, merkleroot, nonce, bits, chainwork, previous_block, timestamp, header_state, cumulated_work from headers where hash = ?" ∧
    sqlText_sqlHeaderByHeightRange =
      "select hash, height, version, merkleroot, nonce, bits, chainwork, previous_block, timestamp, header_state, cumulated_work from headers where height between ? and ?" ∧
    sqlText_sqlSelectTips =
      "with maintip as ( select hash, height, version, merkleroot, nonce, bits, chainwork, previous_block, timestamp, header_state, cumulated_work from headers where header_state = 'LONGEST_CHAIN' order by height desc limit 1 ) select hash, height, version, merkleroot, nonce, bits, chainwork, previous_block, timestamp, header_state, cumulated_work from maintip union select hash, height, version, merkleroot, nonce, bits, chainwork, previous_block, timestamp, header_state, cumulated_work from headers where header_state != 'LONGEST_CHAIN' and hash not in (select previous_block from headers where header_state != 'LONGEST_CHAIN')" ∧
    sqlText_sqlSelectAncestorOnHeight =
      "with recursive ancestors(hash, height, version, merkleroot, nonce, bits, chainwork, previous_block, timestamp, cumulated_work, level) as ( select hash, height, version, merkleroot, nonce, bits, chainwork, previous_block, timestamp, cumulated_work, 0 level from headers where hash = ? union all select h.hash, h.height, h.version, h.merkleroot, h.nonce, h.bits, h.chainwork, h.previous_block, h.timestamp, h.cumulated_work, a.level + 1 level from headers h join ancestors a on h.hash = a.previous_block and h.height >= ? ) select hash, height, version, merkleroot, nonce, bits, chainwork, previous_block, timestamp, cumulated_work from ancestors where height = ?" ∧
    sqlText_sqlChainBetweenTwoHashes =
      "with recursive ancestors(hash, height, version, merkleroot, nonce, bits, chainwork, previous_block, timestamp, cumulated_work, level) as ( select hash, height, version, merkleroot, nonce, bits, chainwork, previous_block, timestamp, cumulated_work, 0 level from headers where hash = ? union all select h.hash, h.height, h.version, h.merkleroot, h.nonce, h.bits, h.chainwork, h.previous_block, h.timestamp, h.cumulated_work, a.level + 1 level from headers h join ancestors a on h.hash = a.previous_block and h.hash != ? ) select hash, height, version, merkleroot, nonce, bits, chainwork, previous_block, timestamp, cumulated_work from ancestors union all select hash, height, version, merkleroot, nonce, bits, chainwork, previous_block, timestamp, cumulated_work from headers where hash = ?" ∧
    sqlText_sqlSelectPreviousBlock =
      "select prev.hash, prev.height, prev.version, prev.merkleroot, prev.nonce, prev.bits, prev.chainwork, prev.previous_block, prev.timestamp, prev.header_state, prev.cumulated_work from headers h, headers prev where h.hash = ? and h.previous_block = prev.hash" ∧
    sqlText_sqlSelectTip =
      "select hash, height, version, merkleroot, nonce, bits, chainwork, previous_block, timestamp, header_state, cumulated_work from headers where height = (select max(height) from headers where header_state = 'LONGEST_CHAIN')" := by
  refine ⟨rfl, rfl, rfl, rfl, rfl, rfl, rfl⟩

end BHS.Props.SqlShape
