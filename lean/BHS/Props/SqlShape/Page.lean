/-
Pinned SQL: the normalised text of every statement the hand-written chain model (BHS/Model/Chain.lean, Query.lean)
was transcribed from, compared with BHS/Gen/SqlText.lean, which is REGENERATED from /repo/database/sql on every run.
An edited statement re-opens the obligation of every property whose model reads through it; the check then
searches for a failing input (correspondence + oracle) and reports the violation with it, or `no-failing-input-found`.
-/
import BHS.Gen.SqlText

namespace BHS.Props.SqlShape
open BHS.Gen

/-- merkle-root listing (model: lastEvalHeight / rootsAfter / page) — C08 -/
theorem page_statements :
    sqlText_sqlMerkleRootsFromHeight =
      "select merkleroot, height from headers where height > ? and header_state = 'LONGEST_CHAIN' order by height asc limit ?" ∧
    sqlText_sqlGetSingleMerkleroot =
      "select merkleroot, height, header_state from headers where merkleroot = ?" ∧
    sqlText_sqlSelectTip =
      "select hash, height, version, merkleroot, nonce, bits, chainwork, previous_block, timestamp, header_state, cumulated_work from headers where height = (select max(height) from headers where header_state = 'LONGEST_CHAIN')" := by
  refine ⟨rfl, rfl, rfl⟩

end BHS.Props.SqlShape
