/-
Pinned SQL: the normalised text of every statement the hand-written chain model (BHS/Model/Chain.lean, Query.lean)
was transcribed from, compared with BHS/Gen/SqlText.lean, which is REGENERATED from /repo/database/sql on every run.
An edited statement re-opens the obligation of every property whose model reads through it; the check then
searches for a failing input (correspondence + oracle) and reports the violation with it, or `no-failing-input-found`.
-/
import BHS.Gen.SqlText

namespace BHS.Props.SqlShape
open BHS.Gen

/-- locator and getheaders (model: locator / startHeight / stopHeight / rangeLc) — C13 -/
theorem getheaders_statements :
    sqlText_sqlGetHeadersHeight =
      "select coalesce(max(height), 0) as startheight from headers where header_state = 'LONGEST_CHAIN' and hash in (?)" ∧
    sqlText_sqlHeaderHeightFromHashAndState =
      "select height from headers where hash = ? and header_state = ?" ∧
    sqlText_sqlHeaderByHeightRangeLongestChain =
      "select hash, height, version, merkleroot, nonce, bits, chainwork, previous_block, timestamp, header_state, cumulated_work from headers where height between ? and ? and header_state = 'LONGEST_CHAIN'" ∧
    sqlText_sqlHeaderByHeight =
      "select hash, height, version, merkleroot, nonce, bits, chainwork, previous_block, timestamp, header_state, cumulated_work from headers where height = ? and header_state = ?" ∧
    sqlText_sqlSelectTip =
      "select hash, height, version, merkleroot, nonce, bits, chainwork, previous_block, timestamp, header_state, cumulated_work from headers where height = (select max(height) from headers where header_state = 'LONGEST_CHAIN')" := by
  refine ⟨rfl, rfl, rfl, rfl, rfl⟩

end BHS.Props.SqlShape
