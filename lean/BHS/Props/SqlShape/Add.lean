/-
Pinned SQL: the normalised text of every statement the hand-written chain model (BHS/Model/Chain.lean, Query.lean)
was transcribed from, compared with BHS/Gen/SqlText.lean, which is REGENERATED from /repo/database/sql on every run.
An edited statement re-opens the obligation of every property whose model reads through it; the check then
searches for a failing input (correspondence + oracle) and reports the violation with it, or `no-failing-input-found`.
-/
import BHS.Gen.SqlText

namespace BHS.Props.SqlShape
open BHS.Gen

/-- the statements `Chains.Add` reads and writes through (model: BHS/Model/Chain.lean) — C01, C03, C05, C11, C15 -/
theorem add_statements :
    sqlText_sqlHeader =
      "select hash, height, version, merkleroot, nonce, bits, chainwork, previous_block, timestamp, header_state, cumulated_work from headers where hash = ?" ∧
    sqlText_sqlHeaderByHeight =
      "select hash, height, version, merkleroot, nonce, bits, chainwork, previous_block, timestamp, header_state, cumulated_work from headers where height = ? and header_state = ?" ∧
    sqlText_sqlSelectTip =
      "select hash, height, version, merkleroot, nonce, bits, chainwork, previous_block, timestamp, header_state, cumulated_work from headers where height = (select max(height) from headers where header_state = 'LONGEST_CHAIN')" ∧
    sqlText_sqlStaleHeadersFrom =
      "with recursive recur(hash, height, version, merkleroot, nonce, bits, chainwork, previous_block, timestamp, header_state, cumulated_work) as ( select hash, height, version, merkleroot, nonce, bits, chainwork, previous_block, timestamp, header_state, cumulated_work from headers where hash = ? union all select h.hash, h.height, h.version, h.merkleroot, h.nonce, h.bits, h.chainwork, h.previous_block, h.timestamp, h.header_state, h.cumulated_work from headers h join recur r on h.hash = r.previous_block ) select hash, height, version, merkleroot, nonce, bits, chainwork, previous_block, timestamp, header_state, cumulated_work from recur where header_state = 'STALE'" ∧
    sqlText_sqlLongestChainHeadersFromHeight =
      "select hash, height, version, merkleroot, nonce, bits, chainwork, previous_block, timestamp, header_state, cumulated_work from headers where height >= ? and header_state = 'LONGEST_CHAIN'" ∧
    sqlText_sqlUpdateState =
      "update headers set header_state = ? where hash in (?)" ∧
    sqlText_sqlInsertHeader =
      "insert into headers(hash, height, version, merkleroot, nonce, bits, header_state, chainwork, previous_block, timestamp , cumulated_work) values(:hash, :height, :version, :merkleroot, :nonce, :bits, :header_state, :chainwork, :previous_block, :timestamp, :cumulated_work) on conflict do nothing" := by
  refine ⟨rfl, rfl, rfl, rfl, rfl, rfl, rfl⟩

end BHS.Props.SqlShape
