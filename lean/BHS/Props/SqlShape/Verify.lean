/-
Pinned SQL: the normalised text of every statement the hand-written chain model (BHS/Model/Chain.lean, Query.lean)
was transcribed from, compared with BHS/Gen/SqlText.lean, which is REGENERATED from /repo/database/sql on every run.
An edited statement re-opens the obligation of every property whose model reads through it; the check then
searches for a failing input (correspondence + oracle) and reports the violation with it, or `no-failing-input-found`.
-/
import BHS.Gen.SqlText

namespace BHS.Props.SqlShape
open BHS.Gen

/-- merkle-root verification (model: verifyHash / verify) — C02 -/
theorem verify_statements :
    sqlText_sqlVerifyHash =
      "select hash from headers where merkleroot = $1 and height = $2 and header_state = 'LONGEST_CHAIN'" ∧
    sqlText_sqlTipOfChainHeight =
      "select max(height) from headers where header_state = 'LONGEST_CHAIN'" := by
  refine ⟨rfl, rfl⟩

end BHS.Props.SqlShape
