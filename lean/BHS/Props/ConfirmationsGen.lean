/-
Merkle-root verification (C02): the REGENERATED verification path refines the hand model, and it is pointwise.

`BHS.Gen.Confirmations` is produced on every run by harness/cmd/extract/gen_merkleroots.go (module "Confirmations") from
  /repo/service/merkleroots_service.go             (*MerklerootsService).GetMerkleRootsConfirmations
  /repo/database/repository/header_repository.go   (*HeaderRepository).GetMerkleRootsConfirmations
  /repo/repository/dto/headers.go                  ConvertToMerkleRootsConfirmations, (*DbMerkleRootConfirmation).ToMerkleRootConfirmation
  /repo/database/sql/headers.go                    (*HeadersDb).GetMerkleRootsConfirmations, getMerkleRootConfirmation, getChainTipHeight
— a statement-by-statement translation (the request loop with its `continue`, the appends, the mapping to the domain
type, the int32 arithmetic of the classification) into `Except Fault`; vocabulary in BHS/Model/MerkleRootsCore.lean and
BHS/Model/ConfirmationsPrim.lean. The two SQL statements stay primitives, mapped by the NAME of the SQL constant to what
the hand model reads for them (`maxLcHeight`, `verifyHash`).

Theorems, for EVERY store, excess value and request list:
* `confirmations_pointwise` — the generated answer is `items.map (answer1 s e tipH)`: one entry per request item, in request
  order, entry i a function of item i, the store, the tip height and the excess ONLY (no information flows between items;
  equal items get equal entries; the answer to a list is the list of the answers to its singletons);
* `GetMerkleRootsConfirmations_refines` — generated = the hand model's `verify` (the function the C02 theorems are stated
  over), including the error answer when the tip height cannot be read;
* the C02 headline theorems restated over the generated definition.
An edit of one of the Go functions changes `Gen/Confirmations.lean` and re-opens these obligations.

Hypothesis of the refinement: the requested heights are int32 values (`Int32`) — they are, by the Go type of
`MerkleRootConfirmationRequestItem.BlockHeight`; the model's heights are unbounded integers and Go's `BlockHeight - TipHeight`
wraps around outside that range. `confirmations_pointwise` needs no hypothesis.
-/
import BHS.Gen.Confirmations
import BHS.Proofs.ConfirmationsGen
import BHS.Props.C02

set_option linter.unusedSectionVars false
set_option linter.unusedSimpArgs false
-- when the translator refuses the Go source the regenerated module is empty: every theorem that mentions a generated
-- function must then fail with ONE error that names it (no auto-bound variables, no failing `open`)
set_option autoImplicit false
namespace BHS.Gen.Confirmations
end BHS.Gen.Confirmations

namespace BHS.Props.ConfirmationsGen
open BHS BHS.Chain BHS.MerkleRootsPrim BHS.Proofs.ConfirmationsGen BHS.Props.C02
open BHS.Gen.Confirmations
variable {H : Type} [DecidableEq H]

/-! ## What one item is answered with -/

/-- the database-level confirmation of one item: the hash of the row sqlVerifyHash finds, if any -/
def dbConfOf (s : Store H) (tipH : Int) (it : ReqItem H) : DbConf H :=
  { merkleRoot := it.merkleRoot, blockHeight := it.blockHeight,
    hash := (it.merkleRoot.bind (fun k => verifyHash s k it.blockHeight)).map (·.hash), tipHeight := tipH }

/-- ToMerkleRootConfirmation as a function (int32 arithmetic: `toInt32`) -/
def confOfDb (c : DbConf H) (e : Int) : Conf H :=
  { merkleRoot := c.merkleRoot, blockHeight := c.blockHeight, hash := c.hash,
    confirmation :=
      if c.hash.isSome then "CONFIRMED"
      else if c.blockHeight > c.tipHeight ∧ toInt32 (c.blockHeight - c.tipHeight) ≤ toInt32 e then "UNABLE_TO_VERIFY"
      else "INVALID" }

/-- the answer to ONE item: a function of the item, the store, the tip height and the configured excess only -/
def answer1 (s : Store H) (e : Int) (tipH : Nat) (it : ReqItem H) : Option (Conf H) :=
  some (confOfDb (dbConfOf s (tipH : Int) it) e)

/-- the error answer when the tip height cannot be read (no longest-chain row: MAX is NULL) -/
def tipErr : Option Err := some (.bhsWrap "ErrGetChainTipHeight" .scanNull)

/-! ## Layer by layer -/

theorem getChainTipHeight_refines (s : Store H) :
    HeadersDb_getChainTipHeight s =
      Except.ok (match maxLcHeight s with
        | some m => ((m : Int), none)
        | none => (0, some .scanNull)) := by
  unfold HeadersDb_getChainTipHeight dbGet_sqlTipOfChainHeight
  cases maxLcHeight s <;> simp [bind, Except.bind, pure, Except.pure]

/-- one item at the SQL layer: never an error (the lookup either finds a row or reports sql.ErrNoRows, which the code
    treats as "no hash") -/
theorem getMerkleRootConfirmation_refines (s : Store H) (it : ReqItem H) (tipH : Int) :
    HeadersDb_getMerkleRootConfirmation s it tipH = Except.ok (some (dbConfOf s tipH it), none) := by
  unfold HeadersDb_getMerkleRootConfirmation dbGet_sqlVerifyHash dbConfOf
  cases it.merkleRoot.bind (fun k => verifyHash s k it.blockHeight) <;>
    simp [isNoRows, Err.isNoRows, bind, Except.bind, pure, Except.pure]

/-- the request loop at the SQL layer: one database-level confirmation per item, in order; the tip-height error -/
theorem HeadersDb_GetMerkleRootsConfirmations_refines (s : Store H) (items : List (ReqItem H)) :
    HeadersDb_GetMerkleRootsConfirmations s items =
      Except.ok (match maxLcHeight s with
        | some tipH => (items.map (fun it => some (dbConfOf s (tipH : Int) it)), none)
        | none => ([], tipErr)) := by
  unfold HeadersDb_GetMerkleRootsConfirmations
  rw [getChainTipHeight_refines]
  cases maxLcHeight s with
  | none => simp [bhsWrap, tipErr, bind, Except.bind, pure, Except.pure]
  | some tipH =>
    simp only [bind, Except.bind, pure, Except.pure, Option.isSome_none, Bool.false_eq_true, if_false]
    rw [forRange_append (fun it => [some (dbConfOf s (tipH : Int) it)])]
    · simp [flatMap_singleton]
    · intro i x acc
      simp [getMerkleRootConfirmation_refines, bind, Except.bind, pure, Except.pure]

/-- the classification of one database-level confirmation -/
theorem ToMerkleRootConfirmation_refines (s : Store H) (c : DbConf H) (e : Int) :
    DbMerkleRootConfirmation_ToMerkleRootConfirmation s (some c) e = Except.ok (some (confOfDb c e)) := by
  unfold DbMerkleRootConfirmation_ToMerkleRootConfirmation confOfDb
  by_cases hv : c.hash.isSome = true
  · simp [hv, deref, bind, Except.bind, pure, Except.pure]
  · by_cases hg : c.blockHeight > c.tipHeight
    · have hg' : c.tipHeight < c.blockHeight := hg
      by_cases hl : toInt32 (c.blockHeight - c.tipHeight) ≤ toInt32 e <;>
        simp [hv, hg, hg', hl, deref, andM, orM, toBool, bind, Except.bind, pure, Except.pure]
    · have hg' : ¬ c.tipHeight < c.blockHeight := hg
      simp [hv, hg, hg', deref, andM, orM, toBool, bind, Except.bind, pure, Except.pure]

/-- the mapping loop of the dto layer -/
theorem ConvertToMerkleRootsConfirmations_refines (s : Store H) (cs : List (DbConf H)) (e : Int) :
    dto_ConvertToMerkleRootsConfirmations s (cs.map some) e = Except.ok (cs.map (fun c => some (confOfDb c e))) := by
  unfold dto_ConvertToMerkleRootsConfirmations
  simp only [bind, Except.bind, pure, Except.pure]
  rw [forRange_append_some (fun c => [some (confOfDb c e)])]
  · simp [flatMap_singleton]
  · intro i x acc
    simp [ToMerkleRootConfirmation_refines, bind, Except.bind, pure, Except.pure]

/-! ## Pointwise -/

/-- **`confirmations_pointwise`**: for EVERY store, excess and request list the generated verification answers
    `items.map (answer1 s e tipH)` — one entry per request item, in request order, entry i computed from item i, the store,
    the tip height and the excess only; or the tip-height error with no entries -/
theorem confirmations_pointwise (s : Store H) (e : Int) (items : List (ReqItem H)) :
    MerklerootsService_GetMerkleRootsConfirmations s e items =
      Except.ok (match maxLcHeight s with
        | some tipH => (items.map (answer1 s e tipH), none)
        | none => ([], tipErr)) := by
  unfold MerklerootsService_GetMerkleRootsConfirmations HeaderRepository_GetMerkleRootsConfirmations
  rw [HeadersDb_GetMerkleRootsConfirmations_refines]
  cases maxLcHeight s with
  | none => simp [tipErr, bind, Except.bind, pure, Except.pure]
  | some tipH =>
    have hm : items.map (fun it => some (dbConfOf s (tipH : Int) it)) = (items.map (dbConfOf s (tipH : Int))).map some := by
      simp [List.map_map]
    simp only [bind, Except.bind, pure, Except.pure, Option.isSome_none, Bool.false_eq_true, if_false]
    rw [hm, ConvertToMerkleRootsConfirmations_refines]
    simp [List.map_map, answer1, Function.comp_def]

/-- what pointwise means, spelled out: same length; entry i is THE answer to the one-item request `[items[i]]`; equal
    items (duplicates in the request) get equal entries; an entry does not change when the other items do -/
theorem confirmations_pointwise_entries (s : Store H) (e : Int) (items : List (ReqItem H)) (tipH : Nat)
    (ht : maxLcHeight s = some tipH) :
    ∃ res, MerklerootsService_GetMerkleRootsConfirmations s e items = Except.ok (res, none) ∧ res.length = items.length ∧
      (∀ i (hi : i < items.length) (hi' : i < res.length),
        MerklerootsService_GetMerkleRootsConfirmations s e [items[i]] = Except.ok ([res[i]], none)) ∧
      (∀ i j (hi : i < items.length) (hj : j < items.length) (hi' : i < res.length) (hj' : j < res.length),
        items[i] = items[j] → res[i] = res[j]) ∧
      (∀ (items' : List (ReqItem H)) i (hi : i < items.length) (hi2 : i < items'.length) (hi' : i < res.length),
        items'[i] = items[i] → ∃ res', MerklerootsService_GetMerkleRootsConfirmations s e items' = Except.ok (res', none) ∧
          res'[i]? = some res[i]) := by
  refine ⟨items.map (answer1 s e tipH), by rw [confirmations_pointwise, ht], by simp, ?_, ?_, ?_⟩
  · intro i hi hi'
    rw [confirmations_pointwise, ht]; simp
  · intro i j hi hj hi' hj' h
    simp [h]
  · intro items' i hi hi2 hi' h
    refine ⟨items'.map (answer1 s e tipH), by rw [confirmations_pointwise, ht], ?_⟩
    simp [hi2, h]

/-! ## Refinement of the hand model -/

/-- the requested height is an int32 value (the Go type of `BlockHeight`) -/
def Int32 (h : Int) : Prop := -2147483648 ≤ h ∧ h < 2147483648

/-- a request item of the hand model as the Go struct (the root text is not empty) -/
def itemOf (x : H × Int) : ReqItem H := ⟨some x.1, x.2⟩

/-- an entry of the hand model's answer as the Go struct: `Confirmation` is the JSON name of the verdict -/
def confOf (x : H × Int × Verdict × Option H) : Conf H := ⟨some x.1, x.2.1, x.2.2.2, verdictName x.2.2.1⟩

/-- one item: the generated answer is the hand model's `verifyItem` -/
theorem answer1_eq_verifyItem (s : Store H) (e : Int) (tipH : Nat) (root : H) (h : Int) (hh : Int32 h) :
    answer1 s e tipH (itemOf (root, h)) =
      some (confOf (root, h, (verifyItem s e tipH root h).1, (verifyItem s e tipH root h).2)) := by
  unfold answer1 confOfDb dbConfOf itemOf confOf verifyItem Int32 at *
  simp only [Option.bind_some]
  cases hv : verifyHash s root h with
  | some r => simp [verdictName]
  | none =>
    simp only [Option.map_none, Option.isSome_none, Bool.false_eq_true, if_false]
    by_cases hg : h > (tipH : Int)
    · have hd : toInt32 (h - (tipH : Int)) = h - (tipH : Int) := by unfold toInt32; omega
      rw [hd]
      by_cases hl : h - (tipH : Int) ≤ toInt32 e <;> simp [hg, hl, verdictName]
    · simp [hg, verdictName]

/-- **refinement**: for EVERY store, excess and request list (of int32 heights) the generated verification returns what the
    hand model's `verify` returns — the same entries in the same order, each with its root, height, hash and the JSON
    name of its verdict — and, when the tip height cannot be read, no entries and ErrGetChainTipHeight -/
theorem GetMerkleRootsConfirmations_refines (s : Store H) (e : Int) (req : List (H × Int))
    (hr : ∀ x ∈ req, Int32 x.2) :
    MerklerootsService_GetMerkleRootsConfirmations s e (req.map itemOf) =
      Except.ok (match verify s e req with
        | some res => (res.map (fun x => some (confOf x)), none)
        | none => ([], tipErr)) := by
  rw [confirmations_pointwise]
  unfold verify
  cases maxLcHeight s with
  | none => rfl
  | some tipH =>
    simp only [List.map_map, Except.ok.injEq, Prod.mk.injEq, and_true]
    apply List.map_congr_left
    intro x hx
    obtain ⟨root, h⟩ := x
    exact answer1_eq_verifyItem s e tipH root h (hr _ hx)

/-! ## The C02 headline over the generated definition -/

theorem verdictName_inj (a b : Verdict) (h : verdictName a = verdictName b) : a = b := by
  cases a <;> cases b <;> first | rfl | (exact absurd h (by decide))

/-- the generated answer to the one-item request `(root, h)` -/
theorem single_generated (s : Store H) (e : Int) (tipH : Nat) (root : H) (h : Int)
    (ht : maxLcHeight s = some tipH) (hh : Int32 h) :
    MerklerootsService_GetMerkleRootsConfirmations s e [itemOf (root, h)] =
      Except.ok ([some ⟨some root, h, (verifyItem s e tipH root h).2, verdictName (verifyItem s e tipH root h).1⟩], none) := by
  rw [confirmations_pointwise, ht]
  simp only [List.map_cons, List.map_nil, answer1_eq_verifyItem s e tipH root h hh]
  rfl

/-- **CONFIRMED, generated**: the generated code answers the item `(root, h)` with CONFIRMED and the hash `hash` exactly
    when the longest-chain header at that height carries that merkle root and has that hash -/
theorem C02_confirmed_generated (s : Store H) (e : Int) (tipH : Nat) (root : H) (h : Int) (hash : H)
    (hu : LcUnique s) (ht : maxLcHeight s = some tipH) (hh : Int32 h) :
    MerklerootsService_GetMerkleRootsConfirmations s e [itemOf (root, h)] =
        Except.ok ([some ⟨some root, h, some hash, "CONFIRMED"⟩], none) ↔
      ∃ r, IsLcAt s r h ∧ r.merkle = root ∧ r.hash = hash := by
  rw [single_generated s e tipH root h ht hh, ← C02_confirmed s e tipH root h hu hash]
  constructor
  · intro hc
    simp only [Except.ok.injEq, Prod.mk.injEq, List.cons.injEq, Option.some.injEq, Conf.mk.injEq, and_true, true_and] at hc
    have hv : (verifyItem s e tipH root h).1 = .confirmed := verdictName_inj _ _ hc.2
    exact Prod.ext hv hc.1
  · intro hc; rw [hc]; rfl

/-- **UNABLE_TO_VERIFY, generated**: exactly when no longest-chain header at that height carries the root and the height
    lies above the tip by at most the configured excess -/
theorem C02_unable_generated (s : Store H) (e : Int) (tipH : Nat) (root : H) (h : Int)
    (ht : maxLcHeight s = some tipH) (hh : Int32 h) (he : ExcessOk e) :
    (∃ hash, MerklerootsService_GetMerkleRootsConfirmations s e [itemOf (root, h)] =
        Except.ok ([some ⟨some root, h, hash, "UNABLE_TO_VERIFY"⟩], none)) ↔
      (∀ r, IsLcAt s r h → r.merkle ≠ root) ∧ h > (tipH : Int) ∧ h - (tipH : Int) ≤ e := by
  rw [single_generated s e tipH root h ht hh, ← C02_unable s e tipH root h he]
  constructor
  · rintro ⟨hash, hc⟩
    simp only [Except.ok.injEq, Prod.mk.injEq, List.cons.injEq, Option.some.injEq, Conf.mk.injEq, and_true, true_and] at hc
    exact verdictName_inj _ _ hc.2
  · intro hc; exact ⟨_, by rw [hc]; rfl⟩

/-- **answered, generated**: in every store reachable by ingestion the generated verification answers every request list
    (of int32 heights) with one entry per item — never the tip-height error, never a fault — and the entries are the hand
    model's -/
theorem C02_answered_generated_reachable (cfg : Cfg H) (g : Row H) (hg : BHS.Props.C01.IsRoot g)
    (hz : BHS.Props.C01.HashAvoids cfg g.prev) (hist : List (Src H)) (e : Int) (req : List (H × Int))
    (hr : ∀ x ∈ req, Int32 x.2) :
    ∃ res, verify (run cfg [g] hist) e req = some res ∧ res.length = req.length ∧
      MerklerootsService_GetMerkleRootsConfirmations (run cfg [g] hist) e (req.map itemOf) =
        Except.ok (res.map (fun x => some (confOf x)), none) := by
  obtain ⟨res, hv⟩ := C02_answered_reachable cfg g hg hz hist e req
  refine ⟨res, hv, (C02_shape _ e req res hv).1, ?_⟩
  rw [GetMerkleRootsConfirmations_refines _ e req hr, hv]

/-! ## Non-vacuity: the generated functions computed on the concrete store of C02 (a fork at height 1) -/

example : MerklerootsService_GetMerkleRootsConfirmations exStore 6 ([(902, 1), (901, 1), (999, 3), (999, 9)].map itemOf) =
    Except.ok ([some ⟨some 902, 1, some 102, "CONFIRMED"⟩, some ⟨some 901, 1, none, "INVALID"⟩,
          some ⟨some 999, 3, none, "UNABLE_TO_VERIFY"⟩, some ⟨some 999, 9, none, "INVALID"⟩], none) := by rfl

/-- duplicates and near-duplicates each get their own answer; the empty request; a store without a tip -/
example : MerklerootsService_GetMerkleRootsConfirmations exStore 6 ([(902, 1), (902, 1), (90, 21)].map itemOf) =
      Except.ok ([some ⟨some 902, 1, some 102, "CONFIRMED"⟩, some ⟨some 902, 1, some 102, "CONFIRMED"⟩,
            some ⟨some 90, 21, none, "INVALID"⟩], none) ∧
    MerklerootsService_GetMerkleRootsConfirmations exStore 6 [] = Except.ok ([], none) ∧
    MerklerootsService_GetMerkleRootsConfirmations ([] : Store Nat) 6 [itemOf (902, 1)] = Except.ok ([], tipErr) :=
  ⟨by rfl, by rfl, by rfl⟩

example : LcUnique exStore ∧ maxLcHeight exStore = some 1 ∧ Int32 1 ∧ ExcessOk 6 ∧ (∀ x ∈ [(902, (1 : Int))], Int32 x.2) := by
  unfold LcUnique Int32 ExcessOk; decide

end BHS.Props.ConfirmationsGen
