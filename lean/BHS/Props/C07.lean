/-
C07 — forbidden headers and checkpoint-violating peers are contained.

Models: the header store BHS/Model/Chain.lean (`add`, `run`), the default sync engine BHS/Model/Sync.lean
(M-Sync: `handleHeaders`, `headersLoop`, `findNext`, `pushGetHeaders`, `step`), both compared with the real code on
every run (harness/cmd/drive/c06_*.go, c07.go). Helper lemmas: BHS/Proofs/SyncStore.lean, SyncBasic.lean, SyncLoop.lean.

What is proved, for ALL stores / histories / peer tables / event sequences:
  * a forbidden hash is never in the table, whatever is submitted (`C07_never_stored`, `C07_never_found`);
  * a header whose parent is forbidden, unknown or an orphan can only be stored as ORPHAN, and stays one
    (`C07_descendants_orphan`, `C07_orphan_child`, `C07_orphan_stays`);
  * M-Sync: a batch with a forbidden header at ANY position (after a prefix that is processed completely) yields
    exactly `ban p, disconnect p`, the headers before it are stored, and no later event sequence ever sends a
    getheaders to p (`C07_ban_disconnect`, `C07_no_request_after`);
  * M-Sync: a stored header at the cursor's height that differs from the checkpoint yields exactly `disconnect p`
    and nothing further is requested from p (`C07_checkpoint_mismatch`); a batch in which the checkpoint was matched
    moves the cursor to `findNext`, which on an ascending list is the first checkpoint above that height
    (`C07_checkpoint_advance`, `C07_next_checkpoint`), and asks up to it — after the last one with the zero stop hash.
Not claimed (the implementation does not do it; KNOWN_FINDINGS C07-R1, C07-R2): the contradicting header is in the
table when the mismatch is noticed (`C07_checkpoint_mismatch` states that it IS stored), and only the checkpoint at the
sync cursor is compared.
-/
import BHS.Props.C01
import BHS.Model.Sync
import BHS.Proofs.SyncStore
import BHS.Proofs.SyncBasic
import BHS.Proofs.SyncLoop
import BHS.Model.SyncExp
import BHS.Proofs.SyncExp

set_option linter.unusedSectionVars false

namespace BHS.Props.C07
open BHS BHS.Chain BHS.Sync
variable {H : Type} [DecidableEq H]

/-! ### the store -/

/-- a forbidden hash is never stored: for every history from a table that holds none -/
theorem C07_never_stored (cfg : Chain.Cfg H) (s : Store H) (hist : List (Src H)) (h0 : NoForbidden cfg s) :
    NoForbidden cfg (run cfg s hist) :=
  NoForbidden.run hist h0

/-- … hence no lookup by hash finds it (every endpoint reads rows of the table) -/
theorem C07_never_found (cfg : Chain.Cfg H) (s : Store H) (hist : List (Src H)) (h0 : NoForbidden cfg s) (f : H)
    (hf : f ∈ cfg.forbidden) : byHash (run cfg s hist) f = none := by
  rw [byHash_none]
  intro r hr e
  exact NoForbidden.run hist h0 r hr (e ▸ hf)

/-- a header whose parent hash is forbidden is answered duplicate / rejected or stored as an ORPHAN -/
theorem C07_descendants_orphan (cfg : Chain.Cfg H) (s : Store H) (x : Src H) (h0 : NoForbidden cfg s)
    (hp : x.prev ∈ cfg.forbidden) :
    (add cfg s x).2 = .duplicate ∨ (add cfg s x).2 = .rejected ∨
      ∃ r, (add cfg s x).2 = .stored r ∧ r.st = .orphan ∧ r ∈ (add cfg s x).1 := by
  apply add_dead_parent
  left
  rw [byHash_none]
  intro r hr e
  exact h0 r hr (e ▸ hp)

/-- … and so is every header whose parent is stored as an ORPHAN (descendants of descendants) -/
theorem C07_orphan_child (cfg : Chain.Cfg H) (s : Store H) (x : Src H) (p : Row H) (hp : byHash s x.prev = some p)
    (ho : p.st = .orphan) :
    (add cfg s x).2 = .duplicate ∨ (add cfg s x).2 = .rejected ∨
      ∃ r, (add cfg s x).2 = .stored r ∧ r.st = .orphan ∧ r ∈ (add cfg s x).1 :=
  add_dead_parent cfg s x (Or.inr ⟨p, hp, ho⟩)

/-- an ORPHAN row stays an ORPHAN row, whatever is submitted later (C01) -/
theorem C07_orphan_stays (cfg : Chain.Cfg H) (s : Store H) (hist : List (Src H)) (g : Row H) (hg : g ∈ s) (hg0 : g.id = 0)
    (hz : C01.HashAvoids cfg g.prev) (h : WF cfg s) (r : Row H) (hr : r ∈ s) (ho : r.st = .orphan) :
    r ∈ run cfg s hist :=
  C01.C01_orphan_forever cfg s hist g hg hg0 hz h r hr ho

/-! ### the default engine -/

/-- the peer is known to the manager and connected; headers-first sync is active -/
structure Talking (st : State H) (p : Nat) (q : PeerSt H) : Prop where
  found : lookup st.peers p = some q
  inMap : q.inMap = true
  connected : q.disc = false
  headersFirst : st.headersFirst = true

/-- the inHandler's part of a headers message (F4b switch) leaves the peer known, connected, in headers-first mode -/
theorem Talking.seen {st : State H} {p : Nat} {q : PeerSt H} (ht : Talking st p q) :
    Talking { st with peers := onHeadersReceived st.peers p } p (headersSeen q) :=
  ⟨lookup_onHeadersReceived ht.found, by rw [headersSeen_inMap]; exact ht.inMap,
    by rw [headersSeen_disc]; exact ht.connected, ht.headersFirst⟩

theorem handleHeaders_rejected (cfg : Sync.Cfg H) (st : State H) (p : Nat) (q : PeerSt H) (hs : List (Src H))
    (ht : Talking st p q) (hne : hs.isEmpty = false)
    (he : (headersLoop cfg.chain st.nextCp st.store hs false none).2.2.2 = .rejected) :
    handleHeadersCore cfg st p hs =
      ({ st with store := (headersLoop cfg.chain st.nextCp st.store hs false none).1,
                 peers := (disconnectPeer st.peers p).1 }, .ban p :: (disconnectPeer st.peers p).2) := by
  unfold handleHeadersCore
  rw [ht.found]
  simp only [ht.inMap, ht.headersFirst, hne, Bool.not_true, Bool.false_eq_true, if_false]
  rw [he]

theorem handleHeaders_mismatch (cfg : Sync.Cfg H) (st : State H) (p : Nat) (q : PeerSt H) (hs : List (Src H))
    (ht : Talking st p q) (hne : hs.isEmpty = false)
    (he : (headersLoop cfg.chain st.nextCp st.store hs false none).2.2.2 = .mismatch) :
    handleHeadersCore cfg st p hs =
      ({ st with store := (headersLoop cfg.chain st.nextCp st.store hs false none).1,
                 peers := (disconnectPeer st.peers p).1 }, (disconnectPeer st.peers p).2) := by
  unfold handleHeadersCore
  rw [ht.found]
  simp only [ht.inMap, ht.headersFirst, hne, Bool.not_true, Bool.false_eq_true, if_false]
  rw [he]

/-- a batch `pre ++ x :: post` whose prefix is processed completely and whose header `x` is forbidden:
    exactly `ban p, disconnect p`; the table is what ingesting `pre` leaves (the headers before `x` are stored,
    `x` and everything after it are not looked at); Disconnect() has been called on the peer -/
theorem C07_ban_disconnect (cfg : Sync.Cfg H) (st : State H) (p : Nat) (q : PeerSt H) (pre post : List (Src H)) (x : Src H)
    (ht : Talking st p q) (h0 : NoForbidden cfg.chain st.store) (hx : cfg.chain.hashOf x ∈ cfg.chain.forbidden)
    (hpre : (headersLoop cfg.chain st.nextCp st.store pre false none).2.2.2 = .completed) :
    (handleHeaders cfg st p (pre ++ x :: post)).2 = [.ban p, .disconnect p] ∧
    (handleHeaders cfg st p (pre ++ x :: post)).1.store = run cfg.chain st.store pre ∧
    AllDisc (handleHeaders cfg st p (pre ++ x :: post)).1.peers p := by
  have hstore := headersLoop_store_completed cfg.chain st.nextCp pre st.store false none hpre
  have hl : headersLoop cfg.chain st.nextCp st.store (pre ++ x :: post) false none =
      (run cfg.chain st.store pre, (headersLoop cfg.chain st.nextCp st.store pre false none).2.1,
        (headersLoop cfg.chain st.nextCp st.store pre false none).2.2.1, .rejected) := by
    rw [headersLoop_append cfg.chain st.nextCp (x :: post) pre st.store false none hpre, hstore]
    exact headersLoop_forbidden cfg.chain st.nextCp _ x post _ _ (NoForbidden.run pre h0) hx
  have hne : (pre ++ x :: post).isEmpty = false := by
    cases pre <;> rfl
  obtain ⟨hd, ha⟩ := disconnectPeer_connected ht.seen.found ht.seen.connected
  show (handleHeadersCore cfg { st with peers := onHeadersReceived st.peers p } p (pre ++ x :: post)).2 = _ ∧
    (handleHeadersCore cfg { st with peers := onHeadersReceived st.peers p } p (pre ++ x :: post)).1.store = _ ∧
    AllDisc (handleHeadersCore cfg { st with peers := onHeadersReceived st.peers p } p (pre ++ x :: post)).1.peers p
  rw [handleHeaders_rejected cfg { st with peers := onHeadersReceived st.peers p } p (headersSeen q) _ ht.seen hne (by rw [hl]), hl]
  exact ⟨by rw [ha], rfl, hd⟩

/-- once Disconnect() has been called on the peer, NO event sequence (that does not introduce a new peer object
    under the same id) sends a getheaders to it -/
theorem C07_no_request_after (cfg : Sync.Cfg H) (st : State H) (p : Nat) (h : AllDisc st.peers p)
    (evs : List (Nat × Event H)) (hev : ∀ e ∈ evs, NotNewPeer p e.2) :
    NoGhTo (runEvents cfg st evs).2 p :=
  (runEvents_pres cfg p evs st h hev).2

/-- a batch `pre ++ x :: post` whose prefix is processed completely and whose header `x` is stored at the cursor's
    height with a hash other than the checkpoint's: exactly `disconnect p` (no ban), nothing after `x` is looked at,
    Disconnect() has been called — and `x` IS in the table (the comparison comes after `Chains.Add`) -/
theorem C07_checkpoint_mismatch (cfg : Sync.Cfg H) (st : State H) (p : Nat) (q : PeerSt H) (pre post : List (Src H))
    (x : Src H) (c : Nat × H) (r : Row H) (ht : Talking st p q) (hc : st.nextCp = some c)
    (hpre : (headersLoop cfg.chain st.nextCp st.store pre false none).2.2.2 = .completed)
    (hadd : (add cfg.chain (run cfg.chain st.store pre) x).2 = .stored r) (hh : r.height = c.1) (hne : r.hash ≠ c.2) :
    (handleHeaders cfg st p (pre ++ x :: post)).2 = [.disconnect p] ∧
    (handleHeaders cfg st p (pre ++ x :: post)).1.store = run cfg.chain st.store (pre ++ [x]) ∧
    r ∈ (handleHeaders cfg st p (pre ++ x :: post)).1.store ∧
    AllDisc (handleHeaders cfg st p (pre ++ x :: post)).1.peers p := by
  have hstore := headersLoop_store_completed cfg.chain st.nextCp pre st.store false none hpre
  have hrun : run cfg.chain st.store (pre ++ [x]) = (add cfg.chain (run cfg.chain st.store pre) x).1 := by
    unfold run; rw [List.foldl_append]; rfl
  have hl : headersLoop cfg.chain st.nextCp st.store (pre ++ x :: post) false none =
      ((add cfg.chain (run cfg.chain st.store pre) x).1, (headersLoop cfg.chain st.nextCp st.store pre false none).2.1,
        (headersLoop cfg.chain st.nextCp st.store pre false none).2.2.1, .mismatch) := by
    rw [headersLoop_append cfg.chain st.nextCp (x :: post) pre st.store false none hpre, hstore, hc]
    exact headersLoop_mismatch cfg.chain c _ x post _ _ r hadd hh hne
  have hnemp : (pre ++ x :: post).isEmpty = false := by
    cases pre <;> rfl
  obtain ⟨hd, ha⟩ := disconnectPeer_connected ht.seen.found ht.seen.connected
  show (handleHeadersCore cfg { st with peers := onHeadersReceived st.peers p } p (pre ++ x :: post)).2 = _ ∧
    (handleHeadersCore cfg { st with peers := onHeadersReceived st.peers p } p (pre ++ x :: post)).1.store = _ ∧
    r ∈ (handleHeadersCore cfg { st with peers := onHeadersReceived st.peers p } p (pre ++ x :: post)).1.store ∧
    AllDisc (handleHeadersCore cfg { st with peers := onHeadersReceived st.peers p } p (pre ++ x :: post)).1.peers p
  rw [handleHeaders_mismatch cfg { st with peers := onHeadersReceived st.peers p } p (headersSeen q) _ ht.seen hnemp (by rw [hl]), hl]
  exact ⟨ha, hrun.symm, (add_stored_mem cfg.chain _ x r hadd).1, hd⟩

/-- a batch that is processed completely, matched the checkpoint at the cursor and brought a longest-chain header:
    the cursor moves to `findNext` of the matched height; the next request goes to the same peer and is
    `getheaders([matched checkpoint], next checkpoint)` — or, after the last checkpoint, `getheaders(locator, 0)`
    (through the peer's duplicate filter, `pushGetHeaders`, on the peer object as the inHandler left it: `headersSeen`) -/
theorem C07_checkpoint_advance (cfg : Sync.Cfg H) (st : State H) (p : Nat) (q : PeerSt H) (hs : List (Src H)) (c : Nat × H)
    (s' : Store H) (fh : H) (ht : Talking st p q) (hc : st.nextCp = some c) (hne : hs.isEmpty = false)
    (hl : headersLoop cfg.chain st.nextCp st.store hs false none = (s', true, some fh, .completed)) :
    (handleHeaders cfg st p hs).1.nextCp = findNext cfg.checkpoints c.1 ∧
    (handleHeaders cfg st p hs).1.store = s' ∧
    (handleHeaders cfg st p hs).2 =
      match findNext cfg.checkpoints c.1 with
      | some c' => (pushGetHeaders (headersSeen q) [c.2] c'.2).2
      | none => (pushGetHeaders (headersSeen q) (locator s') cfg.zero).2 := by
  rw [hc] at hl
  unfold handleHeaders handleHeadersCore
  simp only [ht.seen.found]
  simp only [ht.seen.inMap, ht.headersFirst, hne, hc, hl, Bool.not_true, Bool.false_eq_true, if_false, if_true]
  cases hf : findNext cfg.checkpoints c.1 with
  | none =>
    simp only []
    unfold pushTo
    simp only [ht.seen.found]
    exact ⟨by first | rfl | trivial, by first | rfl | trivial, by first | rfl | trivial⟩
  | some c' =>
    simp only []
    unfold pushTo
    simp only [ht.seen.found]
    exact ⟨by first | rfl | trivial, by first | rfl | trivial, by first | rfl | trivial⟩

/-- on an ascending checkpoint list `findNext` IS the next checkpoint: a member above the height, and the lowest such;
    `none` exactly when no checkpoint lies above -/
theorem C07_next_checkpoint (cps : List (Nat × H)) (h : Asc cps) (height : Nat) :
    (∀ c, findNext cps height = some c → c ∈ cps ∧ height < c.1 ∧ ∀ d ∈ cps, height < d.1 → c.1 ≤ d.1) ∧
    (findNext cps height = none → ∀ d ∈ cps, d.1 ≤ height) :=
  findNext_spec cps h height

/-- when the checkpoint was matched somewhere in a completely processed batch, some header of the batch was stored at
    the cursor's height with the checkpoint's hash (the flag is not raised by anything else) -/
theorem C07_match_means_match (ccfg : Chain.Cfg H) (c : Nat × H) : ∀ (hs : List (Src H)) (s : Store H) (fh : Option H),
    (headersLoop ccfg (some c) s hs false fh).2.1 = true →
    ∃ pre x post r, hs = pre ++ x :: post ∧ (add ccfg (run ccfg s pre) x).2 = .stored r ∧ r.height = c.1 ∧ r.hash = c.2 := by
  intro hs
  induction hs with
  | nil => intro s fh h; simp [headersLoop_nil] at h
  | cons x xs ih =>
    intro s fh h
    rw [headersLoop_cons] at h
    have lift : ∀ fh', (headersLoop ccfg (some c) (add ccfg s x).1 xs false fh').2.1 = true →
        ∃ pre y post r, x :: xs = pre ++ y :: post ∧ (add ccfg (run ccfg s pre) y).2 = .stored r ∧ r.height = c.1 ∧
          r.hash = c.2 := by
      intro fh' h'
      obtain ⟨pre, y, post, r, e, ha, hh, hk⟩ := ih _ fh' h'
      exact ⟨x :: pre, y, post, r, by rw [e]; rfl, ha, hh, hk⟩
    cases ho : (add ccfg s x).2 with
    | duplicate => rw [ho] at h; exact lift _ h
    | creationFail => rw [ho] at h; exact lift _ h
    | rejected => rw [ho] at h; simp at h
    | stored r =>
      rw [ho] at h
      simp only [] at h
      by_cases hh : r.height = c.1
      · simp only [if_pos hh] at h
        by_cases hk : r.hash = c.2
        · exact ⟨[], x, xs, r, rfl, ho, hh, hk⟩
        · simp only [if_neg hk] at h; simp at h
      · simp only [if_neg hh] at h; exact lift _ h

/-! ### the experimental engine (one peer object per connection) -/

/-- experimental engine: a batch `pre ++ x :: post` whose prefix is processed completely and whose header `x` is
    forbidden: exactly `disconnect` (this engine does not ban), the table is what ingesting `pre` leaves -/
theorem C07_exp_forbidden (cfg : SyncExp.Cfg H) (st : SyncExp.State H) (pre post : List (Src H)) (x : Src H)
    (hstart : st.started = true) (hconn : st.disc = false) (h0 : NoForbidden cfg.chain st.store)
    (hx : cfg.chain.hashOf x ∈ cfg.chain.forbidden)
    (hpre : (SyncExp.headersLoop cfg st.store st.cp st.cpIdx pre 0 0).2.2.2.2.2 = .completed) :
    (SyncExp.handleHeaders cfg st (pre ++ x :: post)).2 = [.disconnect] ∧
    (SyncExp.handleHeaders cfg st (pre ++ x :: post)).1.disc = true ∧
    (SyncExp.handleHeaders cfg st (pre ++ x :: post)).1.store = run cfg.chain st.store pre := by
  have hstore := SyncExp.headersLoop_store_completed cfg pre st.store st.cp st.cpIdx 0 0 hpre
  have hl : (SyncExp.headersLoop cfg st.store st.cp st.cpIdx (pre ++ x :: post) 0 0).2.2.2.2.2 = .rejected ∧
      (SyncExp.headersLoop cfg st.store st.cp st.cpIdx (pre ++ x :: post) 0 0).1 = run cfg.chain st.store pre := by
    rw [SyncExp.headersLoop_append cfg (x :: post) pre st.store st.cp st.cpIdx 0 0 hpre, hstore,
      SyncExp.headersLoop_forbidden cfg _ _ _ _ _ x post (NoForbidden.run pre h0) hx]
    exact ⟨rfl, rfl⟩
  unfold SyncExp.handleHeaders
  simp only [hstart, hconn, Bool.not_true, Bool.or_self, Bool.false_eq_true, if_false, hl.1]
  exact ⟨by first | rfl | trivial, by first | rfl | trivial, hl.2⟩

/-- experimental engine: a longest-chain header at the cursor's height that is not the checkpoint: exactly
    `disconnect`; the header IS in the table -/
theorem C07_exp_checkpoint_mismatch (cfg : SyncExp.Cfg H) (st : SyncExp.State H) (pre post : List (Src H)) (x : Src H)
    (c : Nat × H) (r : Row H) (hstart : st.started = true) (hconn : st.disc = false)
    (hpre : (SyncExp.headersLoop cfg st.store st.cp st.cpIdx pre 0 0).2.2.2.2.2 = .completed)
    (hcp : (SyncExp.headersLoop cfg st.store st.cp st.cpIdx pre 0 0).2.1 = some c)
    (hadd : (add cfg.chain (run cfg.chain st.store pre) x).2 = .stored r) (hlc : r.st = .lc) (hh : r.height = c.1)
    (hne : r.hash ≠ c.2) :
    (SyncExp.handleHeaders cfg st (pre ++ x :: post)).2 = [.disconnect] ∧
    (SyncExp.handleHeaders cfg st (pre ++ x :: post)).1.disc = true ∧
    r ∈ (SyncExp.handleHeaders cfg st (pre ++ x :: post)).1.store := by
  have hstore := SyncExp.headersLoop_store_completed cfg pre st.store st.cp st.cpIdx 0 0 hpre
  have hl : (SyncExp.headersLoop cfg st.store st.cp st.cpIdx (pre ++ x :: post) 0 0).2.2.2.2.2 = .checkpointError ∧
      (SyncExp.headersLoop cfg st.store st.cp st.cpIdx (pre ++ x :: post) 0 0).1 =
        (add cfg.chain (run cfg.chain st.store pre) x).1 := by
    rw [SyncExp.headersLoop_append cfg (x :: post) pre st.store st.cp st.cpIdx 0 0 hpre, hstore, hcp,
      SyncExp.headersLoop_mismatch cfg _ c _ _ _ x post r hadd hlc hh hne]
    exact ⟨rfl, rfl⟩
  unfold SyncExp.handleHeaders
  simp only [hstart, hconn, Bool.not_true, Bool.or_self, Bool.false_eq_true, if_false, hl.1]
  refine ⟨by first | rfl | trivial, by first | rfl | trivial, ?_⟩
  show r ∈ (SyncExp.headersLoop cfg st.store st.cp st.cpIdx (pre ++ x :: post) 0 0).1
  rw [hl.2]
  exact (add_stored_mem cfg.chain _ x r hadd).1

/-- experimental engine: after Disconnect() nothing is processed and nothing is sent any more -/
theorem C07_exp_silent_after (cfg : SyncExp.Cfg H) (st : SyncExp.State H) (hd : st.disc = true) (ev : SyncExp.Event H) :
    SyncExp.step cfg st ev = (st, []) := by
  cases ev with
  | headers hs => unfold SyncExp.step SyncExp.handleHeaders; simp [hd]
  | inv invs => unfold SyncExp.step SyncExp.handleInv; simp [hd]

/-! ### non-vacuity: a concrete peer table and store over `H := Nat` -/

/-- toy hash `nonce + 1`; hash 99 is forbidden (C01's example configuration); checkpoints at heights 2 and 4 -/
def exCfg : Sync.Cfg Nat :=
  { chain := C01.exCfg, zero := 0, checkpoints := [(2, 12), (4, 14)], disableCp := false, now := 100 }

def exPeer : PeerSt Nat :=
  { id := 7, inMap := true, candidate := true, lastBlock := 9, startHeight := 9, prevBegin := none, prevStop := none,
    disc := false }

def exState : State Nat :=
  { peers := [exPeer], syncPeer := some 7, headersFirst := true, nextCp := some (2, 12), store := [C01.exRoot] }

/-- child of the root (hash 11), a forbidden header (hash 99) on top of it, one more -/
def exBatch : List (Src Nat) := [C01.exSrc 1000 10, C01.exSrc 11 98, C01.exSrc 99 20]

example : Talking exState 7 exPeer := ⟨rfl, rfl, rfl, rfl⟩
example : NoForbidden exCfg.chain exState.store := by decide
example : exCfg.chain.hashOf (C01.exSrc 11 98) ∈ exCfg.chain.forbidden := by decide
example : (headersLoop exCfg.chain exState.nextCp exState.store [C01.exSrc 1000 10] false none).2.2.2 = .completed := by
  decide
example : (handleHeaders exCfg exState 7 exBatch).2 = [.ban 7, .disconnect 7] := by decide
example : (handleHeaders exCfg exState 7 exBatch).1.store.length = 2 := by decide
-- a header at the cursor's height (2) whose hash (21) is not the checkpoint's (12): stored, then the peer is dropped
example : (handleHeaders exCfg exState 7 [C01.exSrc 1000 10, C01.exSrc 11 20, C01.exSrc 21 30]).2 = [.disconnect 7] := by
  decide
example : (handleHeaders exCfg exState 7 [C01.exSrc 1000 10, C01.exSrc 11 20, C01.exSrc 21 30]).1.store.length = 3 := by
  decide
-- a matching header (hash 12 at height 2): the cursor moves to (4, 14), the request is getheaders([12], 14)
example : (handleHeaders exCfg exState 7 [C01.exSrc 1000 10, C01.exSrc 11 11]).1.nextCp = some (4, 14) ∧
    (handleHeaders exCfg exState 7 [C01.exSrc 1000 10, C01.exSrc 11 11]).2 = [.getheaders 7 [12] 14] := by decide
example : Asc exCfg.checkpoints := by unfold Asc; decide
example : findNext exCfg.checkpoints 2 = some (4, 14) ∧ findNext exCfg.checkpoints 4 = none := by decide
example : AllDisc (handleHeaders exCfg exState 7 exBatch).1.peers 7 := by unfold AllDisc; decide
example : ∃ p, byHash [C01.exRoot, C01.exOrphan] (C01.exSrc 5 50).prev = some p ∧ p.st = .orphan := ⟨C01.exOrphan, by decide⟩

-- experimental engine on the same batch: disconnect, the header before the forbidden one stored
def exX : SyncExp.State Nat :=
  { started := true, cp := some (2, 12), cpIdx := 0, sendHeadersMode := false, syncedCheckpoints := false, latestHeight := 9,
    pver := 70013, disc := false, store := [C01.exRoot] }
def exXCfg : SyncExp.Cfg Nat := { chain := C01.exCfg, zero := 0, checkpoints := [(2, 12), (4, 14)] }
example : (SyncExp.handleHeaders exXCfg exX exBatch).2 = [.disconnect] ∧
    (SyncExp.handleHeaders exXCfg exX exBatch).1.store.length = 2 := by decide
example : (SyncExp.handleHeaders exXCfg exX [C01.exSrc 1000 10, C01.exSrc 11 20]).2 = [.disconnect] := by decide

end BHS.Props.C07
