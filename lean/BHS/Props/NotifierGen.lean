/-
Event fan-out (C11): the REGENERATED notifier, websocket channel and event mapping.

`BHS.Gen.Notifier` is produced on every run by harness/cmd/extract/gen_notifier.go from
  /repo/notification/notification.go   NewNotifier, (*Notifier).AddChannel, (*Notifier).Notify
  /repo/notification/websocket.go      NewWebsocketChannel, (*wsChan).publishToHeadersChannel, (*wsChan).Notify
  /repo/domains/header_events.go       HeaderAdded
— a statement-by-statement translation (subset, primitive table, skip list in the header of the translator; vocabulary in
BHS/Model/NotifierPrim.lean). A `go ch.Notify(ev)` becomes `spawn`: the task is recorded and the caller goes on. Every
construct that can make the CALLER wait (channel send / receive, Lock, Wait, Acquire, Sleep, a direct `ch.Notify(ev)`)
is translated to `mayBlock` — or refused loudly — never skipped.

For ALL channel lists, events and states:
  * `notify_spawns_one_per_channel` — `Notify` starts exactly one task per registered channel, in registration order, each
    `ch.Notify event`, and changes nothing else;
  * `notify_never_blocks` — it executes no `mayBlock` operation in the caller's thread. Together with the type of the
    generated function (channels are elements of an abstract type `C`: the code cannot run or inspect one) the run of
    `Notify` — hence of `Chains.Add`, which calls it holding its mutex — does not depend on what any channel does;
  * `notify_refines_ingest` — on the channels `0 .. n-1`, registered through the generated `NewNotifier` / `AddChannel`, it IS the
    `ingest` step of the hand model BHS/Model/Notify.lean, so the C11 schedule theorems hold over the generated
    definition (`Props/NotifierGenC11.lean` restates the headline);
  * `ws_publishes_event_json` (+ `ws_marshal_failure`, `ws_payloads_not_shared`) — the websocket channel publishes ONE message
    on "headers": a payload freshly allocated by `json.Marshal` that encodes the event, with the configured history size
    and TTL (minutes); two deliveries never share an allocation. "The payload is not referenced by the channel afterwards"
    is enforced structurally: `json.Marshal` is the only source of bytes in the translator's subset, and the translator
    checks that `wsChan` has exactly the fields publisher / log / historySize / historySeconds — none can keep a payload;
  * `header_added_fields` — the event made from a stored header carries operation "ADD" and the nine fields of that header.
This file deliberately does not import Props/C11.lean.
-/
import BHS.Gen.Notifier
import BHS.Model.Notify

set_option linter.unusedSimpArgs false
set_option linter.unusedVariables false

namespace BHS.Props.NotifierGen
open BHS BHS.Chain BHS.NotifierPrim BHS.Gen.Notifier
variable {C E H : Type}

/-! ## the notifier -/

/-- a loop whose body, per element, starts the task `g x` and does nothing else -/
theorem forRange_spawns {α : Type} (g : α → Task C E) (f : α → NotM C E Unit)
    (hf : ∀ x σ, f x σ = ((), { σ with spawned := σ.spawned ++ [g x] })) (xs : List α) (σ : NState C E) :
    forRange xs f σ = ((), { σ with spawned := σ.spawned ++ xs.map g }) := by
  induction xs generalizing σ with
  | nil => simp [forRange, pure, StateT.pure]
  | cons x xs ih => simp [forRange, bind, StateT.bind, hf, ih, List.append_assoc]

/-- **exactly one task per registered channel**, in order, each `ch.Notify event`; nothing else happens to the state -/
theorem notify_spawns_one_per_channel (n : Notifier C) (ev : E) (σ : NState C E) :
    Notifier_Notify n ev σ = ((), { σ with spawned := σ.spawned ++ n.channels.map (fun ch => Task.chNotify ch ev) }) := by
  unfold Notifier_Notify
  simp only [bind, StateT.bind]
  rw [forRange_spawns (fun ch => Task.chNotify ch ev)]
  · rfl
  · intro x σ
    simp [spawn, modify, modifyGet, MonadStateOf.modifyGet, StateT.modifyGet, bind, StateT.bind, pure, StateT.pure]

/-- a loop whose body never executes a possibly-blocking operation executes none -/
theorem forRange_keeps_blocked {α : Type} (f : α → NotM C E Unit) (hf : ∀ x σ, (f x σ).2.blocked = σ.blocked)
    (xs : List α) (σ : NState C E) : (forRange xs f σ).2.blocked = σ.blocked := by
  induction xs generalizing σ with
  | nil => rfl
  | cons x xs ih =>
    have : forRange (x :: xs) f σ = forRange xs f (f x σ).2 := rfl
    rw [this, ih, hf]

/-- **the caller never waits**: `Notify` executes no possibly-blocking operation in its own thread — whatever the
    channels are, however many there are, whatever was spawned or blocked before (proved on its own, not through
    `notify_spawns_one_per_channel`) -/
theorem notify_never_blocks (n : Notifier C) (ev : E) (σ : NState C E) :
    (Notifier_Notify n ev σ).2.blocked = σ.blocked := by
  unfold Notifier_Notify
  simp only [bind, StateT.bind]
  show ((forRange n.channels _ : NotM C E Unit) σ).2.blocked = σ.blocked
  apply forRange_keeps_blocked
  intro x σ
  simp [spawn, mayBlock, modify, modifyGet, MonadStateOf.modifyGet, StateT.modifyGet, bind, StateT.bind, pure, StateT.pure]

theorem NewNotifier_empty (σ : NState C E) : (NewNotifier : NotM C E _) σ = ({ channels := [] }, σ) := rfl

theorem AddChannel_appends (n : Notifier C) (ch : C) (σ : NState C E) :
    Notifier_AddChannel n ch σ = ({ channels := n.channels ++ [ch] }, σ) := rfl

/-- `NewNotifier()` followed by one `AddChannel` per element (what main() does) -/
def genRegister (chs : List C) : NotM C E (Notifier C) := do
  let n ← NewNotifier
  chs.foldlM (fun n ch => Notifier_AddChannel n ch) n

theorem foldl_AddChannel (chs : List C) (n : Notifier C) (σ : NState C E) :
    (chs.foldlM (fun n ch => Notifier_AddChannel n ch) n : NotM C E _) σ = ({ channels := n.channels ++ chs }, σ) := by
  induction chs generalizing n with
  | nil => simp [List.foldlM, pure, StateT.pure]
  | cons c cs ih => simp [List.foldlM, bind, StateT.bind, AddChannel_appends, ih, List.append_assoc]

/-- registration keeps exactly the channels given, in order, and neither starts nor blocks anything -/
theorem register_channels (chs : List C) (σ : NState C E) :
    (genRegister chs : NotM C E _) σ = ({ channels := chs }, σ) := by
  simp [genRegister, bind, StateT.bind, NewNotifier_empty, foldl_AddChannel]

/-! ## refinement to the hand model of the fan-out (Model/Notify.lean) -/

/-- a started task as the hand model's pending pair -/
def taskPair : Task Nat E → Nat × E
  | .chNotify c e => (c, e)

/-- the hand model's `ingest` step with its task list taken from the GENERATED `Notify`, run on the notifier the
    generated `NewNotifier` / `AddChannel` build for the channels `0 .. n-1` -/
def genIngest (n : Nat) (σ : Notify.State E) (e : E) : Notify.State E :=
  let nt := ((genRegister (List.range n) : NotM Nat E _) {}).1
  { σ with ingested := σ.ingested ++ [e],
           pending := σ.pending ++ ((Notifier_Notify nt e {}).2.spawned).map taskPair }

/-- **the generated `Notify` IS the hand model's `ingest` step** -/
theorem notify_refines_ingest [DecidableEq E] (n : Nat) (σ : Notify.State E) (e : E) :
    genIngest n σ e = Notify.apply n σ (.ingest e) := by
  simp [genIngest, register_channels, notify_spawns_one_per_channel, Notify.apply, Notify.spawn, taskPair, List.map_map,
    Function.comp_def]

/-- and it blocks nothing there either -/
theorem genIngest_never_blocks (n : Nat) (e : E) :
    (Notifier_Notify ((genRegister (List.range n) : NotM Nat E _) {}).1 e {}).2.blocked = [] := by
  rw [notify_never_blocks]

/-! ## the websocket channel -/

theorem NewWebsocketChannel_cfg (env : WsEnv E) (cfg : WsCfg) (σ : WsState E) :
    NewWebsocketChannel env cfg σ = ({ historySize := cfg.historyMax, historySeconds := cfg.historyTTL }, σ) := rfl

/-- **one Publish on "headers"** with a FRESH payload that encodes the event and the configured history options;
    the publisher's answer (accepted / refused) changes nothing -/
theorem ws_publishes_event_json (env : WsEnv E) (cfg : WsCfg) (ev : E) (σ : WsState E) (hm : env.marshalOk ev = true) :
    wsChan_Notify env (NewWebsocketChannel env cfg σ).1 ev σ =
      ((), { nextAlloc := σ.nextAlloc + 1,
             published := σ.published ++
               [{ channel := "headers", data := some { alloc := σ.nextAlloc, json := ev },
                  hist := withHistory cfg.historyMax (durMinutes cfg.historyTTL) }] }) := by
  cases hp : env.publishOk <;>
  simp [wsChan_Notify, wsChan_publishToHeadersChannel, NewWebsocketChannel_cfg, jsonMarshal, publish, hm, hp,
    bind, StateT.bind, pure, StateT.pure]

/-- an event json.Marshal cannot encode: nothing is published, nothing allocated -/
theorem ws_marshal_failure (env : WsEnv E) (w : WsChan) (ev : E) (σ : WsState E) (hm : env.marshalOk ev = false) :
    wsChan_Notify env w ev σ = ((), σ) := by
  simp [wsChan_Notify, jsonMarshal, hm, bind, StateT.bind, pure, StateT.pure]

/-- **no shared buffer**: two deliveries publish payloads living in two different allocations, each encoding its own event -/
theorem ws_payloads_not_shared (env : WsEnv E) (w : WsChan) (e1 e2 : E) (σ : WsState E)
    (h1 : env.marshalOk e1 = true) (h2 : env.marshalOk e2 = true) :
    ((wsChan_Notify env w e2 (wsChan_Notify env w e1 σ).2).2.published.drop σ.published.length).map (·.data) =
      [some { alloc := σ.nextAlloc, json := e1 }, some { alloc := σ.nextAlloc + 1, json := e2 }] := by
  cases hp : env.publishOk <;>
  simp [wsChan_Notify, wsChan_publishToHeadersChannel, jsonMarshal, publish, h1, h2, hp, bind, StateT.bind, pure, StateT.pure]

/-! ## the event -/

/-- **`HeaderAdded`**: operation "ADD" and the nine fields the property lists, each the stored header's -/
theorem header_added_fields (r : Row H) :
    (HeaderAdded r : HeaderEvent H) =
      { operation := "ADD",
        header := some { height := r.height, hash := r.hash, version := r.version, merkleRoot := r.merkle, timestamp := r.time,
                         nonce := r.nonce, state := r.st, cumulatedWork := r.cum, previousBlock := r.prev } } := rfl

/-! ## non-vacuity: the generated code on concrete inputs -/

example : (Notifier_Notify ((genRegister ["ws", "hooks", "slow"] : NotM String Nat _) {}).1 7 {}).2 =
    { spawned := [.chNotify "ws" 7, .chNotify "hooks" 7, .chNotify "slow" 7], blocked := [] } := by decide
example : (Notifier_Notify ({ channels := [] } : Notifier String) 7 ({} : NState String Nat)).2 = {} := by decide
example : genIngest 2 (Notify.init : Notify.State Nat) 7 = Notify.apply 2 Notify.init (.ingest 7) ∧
    (genIngest 2 (Notify.init : Notify.State Nat) 7).pending = [(0, 7), (1, 7)] := ⟨notify_refines_ingest .., by decide⟩
-- ws_publishes_event_json / ws_marshal_failure: an environment that encodes even numbers only, a refusing publisher
example :
    let env : WsEnv Nat := { marshalOk := fun e => e % 2 == 0, publishOk := false }
    env.marshalOk 4 = true ∧ env.marshalOk 5 = false ∧
    (wsChan_Notify env { historySize := 300, historySeconds := 10 } 4 {}).2 =
      { nextAlloc := 1, published := [⟨"headers", some ⟨0, 4⟩, ⟨300, ⟨10⟩⟩⟩] } ∧
    (wsChan_Notify env { historySize := 300, historySeconds := 10 } 5 {}).2 = {} := by decide
example : (HeaderAdded ({ id := 3, hash := 9, prev := 8, merkle := 5, height := 2, version := 1, time := 100, bits := 7, nonce := 6, work := 2, cum := 6, st := .lc } : Row Nat)).header.map (fun d => (d.height, d.hash, d.previousBlock, d.cumulatedWork)) = some (2, 9, 8, 6) := by decide

end BHS.Props.NotifierGen
