/-
C13 — size of the block locator: the step rule visits at most 11 + (log2 (tip height) + 3) heights, so the
locator the service sends is logarithmic in the chain length (never more than 45 hashes for a 32-bit height).
Added in the continuation session; uses only `locHeights` of Proofs/QueryLocator and `C13_locator`.
-/
import BHS.Props.C13
import BHS.Props.C19

namespace BHS.Props.C13
open BHS BHS.Chain
set_option autoImplicit false

/-- doubling phase (`n ≥ 10`): every further entry doubles the step, so `step · 2^length ≤ 4·(h + step)`. -/
theorem locHeights_doubling : ∀ (fuel h step n : Nat), 1 ≤ step → 10 ≤ n →
    step * 2 ^ (locHeights fuel h step n).length ≤ 4 * (h + step)
  | 0, h, step, n, _, _ => by simp [locHeights]; omega
  | fuel + 1, h, step, n, hs, hn => by
    by_cases h0 : h = 0
    · subst h0; simp [locHeights]; omega
    · have hstep : (if n + 1 > 10 then step * 2 else step) = step * 2 := by rw [if_pos (by omega)]
      simp only [locHeights, if_neg h0, hstep, List.length_cons]
      by_cases hlt : h < step
      · -- the next height is clipped to 0: at most one more entry
        have hz : h - step = 0 := by omega
        rw [hz]
        cases fuel with
        | zero => simp [locHeights]; omega
        | succ f => simp [locHeights]; omega
      · have ih := locHeights_doubling fuel (h - step) (step * 2) (n + 1) (by omega) (by omega)
        rw [Nat.pow_succ]
        have e : step * (2 ^ (locHeights fuel (h - step) (step * 2) (n + 1)).length * 2)
            = step * 2 * 2 ^ (locHeights fuel (h - step) (step * 2) (n + 1)).length := by
          rw [Nat.mul_assoc, Nat.mul_comm 2]
        rw [e]
        omega

/-- linear phase: each entry costs one, and the walk reaches the doubling phase after `10 - n` more entries. -/
theorem locHeights_linear : ∀ (fuel h n : Nat), n ≤ 10 →
    ∃ fuel' h', h' ≤ h ∧ (locHeights fuel h 1 n).length ≤ (10 - n) + (locHeights fuel' h' 1 10).length
  | 0, h, n, _ => ⟨0, h, Nat.le_refl _, by simp [locHeights]⟩
  | fuel + 1, h, n, hn => by
    by_cases h10 : n = 10
    · subst h10; exact ⟨fuel + 1, h, Nat.le_refl _, by omega⟩
    · by_cases h0 : h = 0
      · subst h0
        refine ⟨1, 0, Nat.le_refl _, ?_⟩
        simp [locHeights]
      · have hstep : (if n + 1 > 10 then 1 * 2 else 1) = 1 := by rw [if_neg (by omega)]
        obtain ⟨f', h', hle, hb⟩ := locHeights_linear fuel (h - 1) (n + 1) (by omega)
        refine ⟨f', h', by omega, ?_⟩
        simp only [locHeights, if_neg h0, hstep, List.length_cons]
        omega

/-- the step rule visits at most `10 + k` heights whenever `4·(h+1) < 2^k`. -/
theorem C13_locator_heights_size (h k : Nat) (hk : 4 * (h + 1) < 2 ^ k) :
    (locHeights (h + 1) h 1 0).length ≤ 10 + k := by
  obtain ⟨f', h', hle, hb⟩ := locHeights_linear (h + 1) h 0 (by omega)
  have hd := locHeights_doubling f' h' 1 10 (Nat.le_refl _) (Nat.le_refl _)
  rw [Nat.one_mul] at hd
  have hlen : (locHeights f' h' 1 10).length < k := by
    rcases Nat.lt_or_ge (locHeights f' h' 1 10).length k with hl | hl
    · exact hl
    · have : 2 ^ k ≤ 2 ^ (locHeights f' h' 1 10).length := Nat.pow_le_pow_right (by decide) hl
      omega
  omega

/-- for every tip height that fits 32 bits the locator's height list has at most 45 entries … -/
theorem C13_locator_heights_size_u32 (h : Nat) (hh : h < 2 ^ 32) :
    (locHeights (h + 1) h 1 0).length ≤ 45 := by
  have := C13_locator_heights_size h 35 (by simp only [Nat.reducePow] at hh ⊢; omega)
  omega

/-- … and so has the locator the service sends, in every store satisfying the invariant. -/
theorem C13_locator_size {H : Type} [DecidableEq H] (cfg : Cfg H) (s : Store H) (t : Row H) (h : Inv cfg s)
    (htip : getTip s = some t) (k : Nat) (hk : 4 * (t.height + 1) < 2 ^ k) :
    (locator s).length ≤ 10 + k := by
  obtain ⟨hl, hh, _⟩ := C13_locator cfg s t h htip
  have : (locator s).length = (locHeights (t.height + 1) t.height 1 0).length := by
    have e2 := congrArg List.length hh
    simp only [List.length_map] at e2
    rw [hl, List.length_map, e2]
  rw [this]
  exact C13_locator_heights_size _ _ hk

-- the bound is met with little slack: 16 entries for height 30 (k = 7 gives 17)
example : (locHeights 31 30 1 0).length = 16 ∧ 4 * (30 + 1) < 2 ^ 7 := by decide
example : Inv exCfg exStore ∧ getTip exStore = some exTip ∧ (locator exStore).length = 5 := by decide

/-! ### The capacity hint of `LatestHeaderLocator` (`12 + FastLog2Floor(height - 10)`) is never exceeded -/

/-- sharp form of the doubling bound for a positive height: `step · 2^length ≤ 4·(h + step - 1)`. -/
theorem locHeights_doubling_sharp : ∀ (fuel h step n : Nat), 1 ≤ step → 10 ≤ n → 1 ≤ h →
    step * 2 ^ (locHeights fuel h step n).length ≤ 4 * (h + step - 1)
  | 0, h, step, n, _, _, _ => by simp [locHeights]; omega
  | fuel + 1, h, step, n, hs, hn, hh => by
    have h0 : h ≠ 0 := by omega
    have hstep : (if n + 1 > 10 then step * 2 else step) = step * 2 := by rw [if_pos (by omega)]
    simp only [locHeights, if_neg h0, hstep, List.length_cons]
    by_cases hlt : h ≤ step
    · have hz : h - step = 0 := by omega
      rw [hz]
      cases fuel with
      | zero => simp [locHeights]; omega
      | succ f => simp [locHeights]; omega
    · have ih := locHeights_doubling_sharp fuel (h - step) (step * 2) (n + 1) (by omega) (by omega) (by omega)
      rw [Nat.pow_succ]
      have e : step * (2 ^ (locHeights fuel (h - step) (step * 2) (n + 1)).length * 2)
          = step * 2 * 2 ^ (locHeights fuel (h - step) (step * 2) (n + 1)).length := by
        rw [Nat.mul_assoc, Nat.mul_comm 2]
      rw [e]
      omega

/-- linear phase with the exact landing point: after `10 - n` unit steps the walk is at `h - (10 - n)`. -/
theorem locHeights_linear_exact : ∀ (fuel h n : Nat), n ≤ 10 →
    (locHeights fuel h 1 n).length ≤ (10 - n) + (locHeights (fuel - (10 - n)) (h - (10 - n)) 1 10).length
  | 0, h, n, _ => by simp [locHeights]
  | fuel + 1, h, n, hn => by
    by_cases h10 : n = 10
    · subst h10; simp
    · by_cases h0 : h = 0
      · subst h0; simp [locHeights]; omega
      · have hstep : (if n + 1 > 10 then 1 * 2 else 1) = 1 := by rw [if_neg (by omega)]
        have ih := locHeights_linear_exact fuel (h - 1) (n + 1) (by omega)
        have e1 : fuel + 1 - (10 - n) = fuel - (10 - (n + 1)) := by omega
        have e2 : h - (10 - n) = h - 1 - (10 - (n + 1)) := by omega
        simp only [locHeights, if_neg h0, hstep, List.length_cons]
        rw [e1, e2]
        omega

/-- for a tip above height 10 the step rule visits at most `12 + floor(log2 (h - 10))` heights. -/
theorem C13_locator_heights_le_hint (h : Nat) (hh : 11 ≤ h) :
    (locHeights (h + 1) h 1 0).length ≤ 12 + Nat.log2 (h - 10) := by
  have hl := locHeights_linear_exact (h + 1) h 0 (by omega)
  have hd := locHeights_doubling_sharp (h + 1 - (10 - 0)) (h - (10 - 0)) 1 10 (Nat.le_refl _) (Nat.le_refl _) (by omega)
  rw [Nat.one_mul] at hd
  generalize (locHeights (h + 1 - (10 - 0)) (h - (10 - 0)) 1 10).length = m at hl hd
  have hm : m - 2 ≤ Nat.log2 (h - 10) := by
    rw [Nat.le_log2 (by omega)]
    rcases Nat.lt_or_ge m 2 with h2 | h2
    · have : m - 2 = 0 := by omega
      rw [this]; omega
    · have e : m = (m - 2) + 2 := by omega
      rw [e, Nat.pow_add] at hd
      omega
  omega

/-- the hint as the CODE computes it (`12 + FastLog2Floor(uint32(height) - 10)`, regenerated `Gen.fastLog2Floor`)
    is an upper bound of the locator's length for every 32-bit tip height above 12 … -/
theorem C13_locator_capacity_hint_generated (h : Nat) (h12 : 12 < h) (h32 : h < 2 ^ 32) :
    (locHeights (h + 1) h 1 0).length ≤ 12 + Gen.fastLog2Floor (h - 10) := by
  rw [BHS.Props.C19.C19_log2 (h - 10) (by omega) (by omega)]
  exact C13_locator_heights_le_hint h (by omega)

/-- … and `height + 1` is one for the heights up to 12 (the other branch of the hint). -/
theorem C13_locator_capacity_hint_low (h : Nat) : (locHeights (h + 1) h 1 0).length ≤ h + 1 := by
  have : ∀ (fuel h step n : Nat), (locHeights fuel h step n).length ≤ fuel := by
    intro fuel
    induction fuel with
    | zero => intro h step n; simp [locHeights]
    | succ f ih =>
      intro h step n
      simp only [locHeights, List.length_cons]
      split
      · simp
      · have := ih (h - step) (if n + 1 > 10 then step * 2 else step) (n + 1); omega
  exact this _ _ _ _

-- the hint is met exactly at height 30 (16 = 12 + floor(log2 20)) and at 13 (13 = 12 + floor(log2 3))
example : (locHeights 31 30 1 0).length = 12 + Gen.fastLog2Floor 20 := by decide
example : (locHeights 14 13 1 0).length = 12 + Gen.fastLog2Floor 3 := by decide

end BHS.Props.C13
