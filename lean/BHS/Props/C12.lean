/-
C12 — Webhooks deactivate at max_tries consecutive failures, reset on success.

  "For events delivered one at a time, each active webhook - registered with bearer,
   custom-header or no authorisation - receives one HTTP POST per event carrying exactly
   its configured authorisation header; a transport error or non-200 reply increments its
   consecutive-error count, the webhook becomes inactive exactly when that count reaches
   the configured maximum, and a 200 reply resets the count to zero. Inactive or deleted
   webhooks are not called; re-registering an inactive URL reactivates it with a zero
   count while re-registering an active URL is refused. The webhook query endpoint reports
   this state (active flag, error count, time and status of the last attempt), including
   after a restart."

The theorems are about `BHS.Model.Hooks` (the executable model the correspondence check
runs against the real WebhooksService / SQL repository / endpoints on every run) and
quantify over ALL operation sequences `ops : List Op` from the empty table, every
`max_tries`, every scripted outcome function, both clients.  `BHS.Gen.HookSql` (column
lists, DTO fields, …) is regenerated from /repo on every run; section A ties the model's
reading of the source to it.

Three clauses of the property were FALSE of the code when this check was first run
(docs/findings/C12.md): (i) the threshold in force was 1 whatever max_tries was, (ii) a
webhook registered without authorisation never received a POST from the production client,
(iii) the query endpoint never reported the last attempt.  They were found by this check
(oracle signatures + `_counterexample` theorems at concrete witnesses) and repaired in /repo
(acffb03, 0c73de3, b2d3d75).  The three model switches now describe the repaired code and the
full-strength theorems `C12_counter`, `C12_posts`, `C12_get_reports` are proved; the
`_partial` theorems are kept as the switch-independent lemmas they follow from, and
`C12_switches_match_source` ties each switch to the regenerated source facts, so that a
regression of a fix re-opens the obligation (and the three former witnesses are replayed
first on every run as corpus cases).
-/
import BHS.Gen.HookSql
import BHS.Model.Hooks
import BHS.Proofs.Hooks
import BHS.Proofs.HooksSpec

namespace BHS.Props.C12
open BHS BHS.Model.Hooks BHS.Proofs.Hooks

/-! ## A. the model's reading of the source (regenerated tables: `decide` is a proof) -/

/-- the statements read and write exactly the columns `Row` has (+ `created_at`), keyed by
`url`; the INSERT leaves the four mutable columns to their defaults; the UPDATE sets exactly
the four mutable columns and binds each to the parameter of that meaning, fed from the
webhook field of that meaning. -/
theorem C12_sql_shape :
    Gen.HookSql.tableCols = ["url", "token_header", "token", "created_at", "last_emit_status", "last_emit_timestamp", "errors_count", "is_active"] ∧
    Gen.HookSql.primaryKey = "url" ∧
    Gen.HookSql.tableDefaults.drop 4 = ["''", "'1970-01-01 00:00:00'", "0", "TRUE"] ∧
    Gen.HookSql.insertCols = ["url", "token_header", "token", "created_at"] ∧
    Gen.HookSql.selectAllCols = Gen.HookSql.tableCols ∧
    Gen.HookSql.selectByUrlCols = Gen.HookSql.tableCols ∧
    Gen.HookSql.selectByUrlWhere = "url" ∧ Gen.HookSql.deleteWhere = "url" ∧ Gen.HookSql.updateWhere = "url" ∧
    Gen.HookSql.updateSetCols.zip Gen.HookSql.updateBind =
      [("last_emit_status", "lastEmitStatus"), ("last_emit_timestamp", "lastEmitTimestamp"), ("errors_count", "errorsCount"), ("is_active", "active")] ∧
    Gen.HookSql.updateBind.drop 4 = ["url"] ∧
    Gen.HookSql.updateParams.zip Gen.HookSql.repoUpdateArgs =
      [("url", "URL"), ("lastEmitTimestamp", "LastEmitTimestamp"), ("lastEmitStatus", "LastEmitStatus"), ("errorsCount", "ErrorsCount"), ("active", "Active")] := by
  decide

/-- the three switches of the model agree with what the source shows: `ToWebhook` copies the
two last-emit fields; some function other than `CreateWebhook` sets `MaxTries`; a delivery
function guards against `""`.  (When the source changes in one of these respects this
theorem fails until the switch in `BHS/Model/Hooks.lean` says what the code does.) -/
theorem C12_switches_match_source :
    toWebhookMapsLastEmit =
      (Gen.HookSql.toWebhookFields.contains "LastEmitStatus" && Gen.HookSql.toWebhookFields.contains "LastEmitTimestamp") ∧
    decide (restoredMaxTries 3 = 3) = !Gen.HookSql.maxTriesRestoredSites.isEmpty ∧
    emptyHeaderNameSkipped = !Gen.HookSql.emptyNameGuards.isEmpty ∧
    (∀ f ∈ ["URL", "TokenHeader", "Token", "ErrorsCount", "Active"], f ∈ Gen.HookSql.toWebhookFields) := by
  decide

/-! ## B. registration and re-registration -/

/-- what is stored for the three kinds of authorisation. -/
theorem C12_auth_header (h t : String) :
    authHeader .bearer h t = ("Authorization", "Bearer " ++ t) ∧
    authHeader .other h t = (h, t) ∧
    authHeader .other "" "" = ("", "") := ⟨rfl, rfl, rfl⟩

/-- registering an unknown URL appends an active row with a zero count and the configured header. -/
theorem C12_register_new (cfg : Cfg) (s : State) (k : AuthKind) (h t u : String)
    (hu : u ≠ "") (hnew : ∀ r ∈ s.table, r.url ≠ u) :
    (register cfg s k h t u).1.table =
      s.table ++ [{ url := u, tokenHeader := (authHeader k h t).1, token := (authHeader k h t).2,
                    lastStatus := .none, lastAt := .never, errors := 0, active := true }] ∧
    ∃ rep, (register cfg s k h t u).2 = .ok rep ∧ rep.active = true ∧ rep.errors = 0 := by
  have hany : (s.table.any fun r => decide (r.url = u)) = false :=
    List.any_eq_false.mpr (fun x hx => by simpa using hnew x hx)
  simp [register, hu, sqlInsert, hany]

/-- in every reachable state: re-registering an ACTIVE URL is refused and changes nothing;
re-registering an INACTIVE URL answers an active webhook with a zero count, and in the table
exactly that row becomes active with a zero count (url, header, token unchanged — the
authorisation given with the re-registration is ignored), every other row is untouched. -/
theorem C12_reregister (cfg : Cfg) (ops : List Op) (k : AuthKind) (h t : String) (r : Row)
    (hr : r ∈ (run cfg ops {}).table) :
    (r.active = true → register cfg (run cfg ops {}) k h t r.url = (run cfg ops {}, .refused .refreshWebhook)) ∧
    (r.active = false →
      (∃ rep, (register cfg (run cfg ops {}) k h t r.url).2 = .ok rep ∧ rep.active = true ∧ rep.errors = 0) ∧
      (register cfg (run cfg ops {}) k h t r.url).1.table =
        (run cfg ops {}).table.map (fun x => if x.url = r.url then
          { x with active := true, errors := 0,
                   lastStatus := (toWebhook cfg.maxTries r).lastStatus, lastAt := (toWebhook cfg.maxTries r).lastAt }
          else x)) := by
  have hi := inv_run cfg ops {} (inv_init cfg)
  generalize run cfg ops {} = s at hr hi
  have hne := hi.nonempty r hr
  have hget := getByUrl_of_mem hi.uniq hr
  have hany : (s.table.any fun x => decide (x.url = r.url)) = true :=
    List.any_eq_true.mpr ⟨r, hr, by simp⟩
  constructor
  · intro ha
    simp [register, hne, sqlInsert, hany, hget, ha]
  · intro ha
    simp [register, hne, sqlInsert, hany, hget, ha, report, repoUpdate, sqlUpdate]
    intro a _; rfl

/-! ## C. deliveries -/

/-- ONE `client.Call` per ACTIVE hook per event, in table order, for its url with exactly the
stored header; inactive hooks are not called (any state, any client, any outcomes). -/
theorem C12_calls (cfg : Cfg) (s : State) (out : String → Outcome) :
    (notify cfg s out).2.map (·.call) =
      (s.table.filter (·.active)).map (fun r => ⟨r.url, r.tokenHeader, r.token⟩) := by
  rw [notify_attempts]
  induction s.table with
  | nil => rfl
  | cons r t ih =>
    by_cases ha : r.active = true
    · simp only [List.filterMap_cons, rowAttempt, ha, if_true, List.map_cons, List.filter_cons]
      rw [← ih]
      simp only [attempt]
      split <;> rfl
    · have hf : r.active = false := by simpa using ha
      simp only [List.filterMap_cons, rowAttempt, hf, List.filter_cons]
      exact ih

/-- the stored header IS the configured one: in every reachable state each row carries the
authorisation header its URL was (last) created with, and its count is … (see D). -/
theorem C12_header_configured (cfg : Cfg) (ops : List Op) :
    ∀ r ∈ (runLog cfg ops ({}, [])).1.table,
      configuredAuth r.url (runLog cfg ops ({}, [])).2 = some (r.tokenHeader, r.token) :=
  (hist_run cfg ops {} [] hist_init).auth

/-- a deleted webhook is not called. -/
theorem C12_deleted_not_called (cfg : Cfg) (s : State) (u : String) (out : String → Outcome)
    (hd : (delete s u).2 = .done) : ∀ a ∈ (notify cfg (delete s u).1 out).2, a.call.url ≠ u := by
  intro a ha
  have hc : a.call ∈ (notify cfg (delete s u).1 out).2.map (·.call) := List.mem_map_of_mem ha
  rw [C12_calls] at hc
  obtain ⟨r, hr, hrc⟩ := List.mem_map.mp hc
  have hr' := (List.mem_filter.mp hr).1
  by_cases hu : u = ""
  · simp [delete, hu] at hd
  · cases hg : sqlGetByUrl s.table u with
    | none => simp [delete, hu, hg] at hd
    | some x =>
      have htab : (delete s u).1.table = sqlDelete s.table u := by simp [delete, hu, hg]
      rw [htab] at hr'
      have := (List.mem_filter.mp hr').2
      rw [← hrc]
      simpa using this

/-- (ii) switch-independent form: whenever the client lets the header name of every active
hook through, every active hook receives exactly one POST with exactly its header, and the
service sees the target's outcome. -/
theorem C12_posts_partial (cfg : Cfg) (s : State) (out : String → Outcome)
    (hw : ∀ r ∈ s.table, r.active = true → wireAccepts cfg.prod r.tokenHeader = true) :
    posts (notify cfg s out).2 = (s.table.filter (·.active)).map (fun r => ⟨r.url, r.tokenHeader, r.token⟩) ∧
    ∀ a ∈ (notify cfg s out).2, a.seen = out a.call.url := by
  have hall : ∀ a ∈ (notify cfg s out).2, a.posted = true ∧ a.seen = out a.call.url := by
    intro a ha
    rw [notify_attempts] at ha
    obtain ⟨r, hr, hra⟩ := List.mem_filterMap.mp ha
    unfold rowAttempt at hra
    split at hra
    · rename_i hact
      injection hra with hra
      subst hra
      simp [attempt, hw r hr hact]
    · cases hra
  constructor
  · rw [← C12_calls cfg s out]
    unfold posts
    rw [List.filter_eq_self.mpr (fun a ha => (hall a ha).1)]
  · exact fun a ha => (hall a ha).2

/-- the hypothesis of C12_posts_partial holds for every state under the scripted client, and
under the production client for every hook with a non-empty header name (whatever switch (ii) says). -/
theorem C12_posts_hypothesis (name : String) :
    wireAccepts false name = true ∧ (name ≠ "" → wireAccepts true name = true) := by
  constructor
  · simp [wireAccepts]
  · intro h; simp [wireAccepts, h]

/-- (ii) FULL STATEMENT, both clients, every state: every active hook — registered with
bearer, custom header or no authorisation — receives exactly one POST per event with exactly
its header, and the service sees the target's outcome.  (False before /repo 0c73de3.) -/
theorem C12_posts (cfg : Cfg) (s : State) (out : String → Outcome) :
    posts (notify cfg s out).2 = (s.table.filter (·.active)).map (fun r => ⟨r.url, r.tokenHeader, r.token⟩) ∧
    ∀ a ∈ (notify cfg s out).2, a.seen = out a.call.url :=
  C12_posts_partial cfg s out (fun _ _ _ => by simp [wireAccepts, emptyHeaderNameSkipped])

/-! ## D. the counter -/

/-- for ALL operation sequences: the error count of every webhook equals the length of the
trailing run of failed deliveries in the history of its URL (a 200 reply, a registration or
a re-registration ends the run). -/
theorem C12_counter_run (cfg : Cfg) (ops : List Op) :
    ∀ r ∈ (runLog cfg ops ({}, [])).1.table,
      r.errors = trailingFailures r.url (runLog cfg ops ({}, [])).2 :=
  (hist_run cfg ops {} [] hist_init).count

/-- for ALL operation sequences: a webhook is active exactly while its count is below the
threshold IN FORCE (`effThr`: the restored `MaxTries`, at least 1), and the count never
exceeds it; urls are unique and non-empty. -/
theorem C12_counter_threshold (cfg : Cfg) (ops : List Op) :
    ∀ r ∈ (run cfg ops {}).table,
      (r.active = true ↔ r.errors < effThr cfg.maxTries) ∧ r.errors ≤ effThr cfg.maxTries :=
  (inv_run cfg ops {} (inv_init cfg)).thr

/-- one event, any reachable state (the step form of the property): every row keeps url and
header; an inactive row is untouched; an active row whose delivery is seen to succeed (a
readable 200 reply) gets count 0 and stays active; an active row whose delivery fails
(other status, transport error, unreadable body — also with status 200) gets count + 1 and
is active afterwards iff the new count is below the restored `MaxTries`; status and time of
the attempt are written to the row. -/
theorem C12_counter_step (cfg : Cfg) (ops : List Op) (out : String → Outcome) :
    let s := run cfg ops {}
    (notify cfg s out).1.table = s.table.map (rowStep cfg out (s.clock + 1)) ∧
    ∀ r ∈ s.table,
      (rowStep cfg out (s.clock + 1) r).url = r.url ∧
      (rowStep cfg out (s.clock + 1) r).tokenHeader = r.tokenHeader ∧
      (rowStep cfg out (s.clock + 1) r).token = r.token ∧
      (r.active = false → rowStep cfg out (s.clock + 1) r = r) ∧
      (r.active = true →
        (rowStep cfg out (s.clock + 1) r).lastStatus = statusOf (rowSeen cfg out r) ∧
        (rowStep cfg out (s.clock + 1) r).lastAt = .at (s.clock + 1) ∧
        ((rowSeen cfg out r).isOk = true →
          (rowStep cfg out (s.clock + 1) r).errors = 0 ∧ (rowStep cfg out (s.clock + 1) r).active = true) ∧
        ((rowSeen cfg out r).isOk = false →
          (rowStep cfg out (s.clock + 1) r).errors = r.errors + 1 ∧
          ((rowStep cfg out (s.clock + 1) r).active = true ↔ r.errors + 1 < restoredMaxTries cfg.maxTries))) := by
  intro s
  have hi := inv_run cfg ops {} (inv_init cfg)
  refine ⟨notify_table cfg s out hi.uniq, ?_⟩
  intro r _
  refine ⟨rowStep_url .., (rowStep_header ..).1, (rowStep_header ..).2, rowStep_inactive cfg out _ r, ?_⟩
  intro ha
  exact ⟨(rowStep_last cfg out _ r ha).1, (rowStep_last cfg out _ r ha).2,
    rowStep_ok cfg out _ r ha, rowStep_fail cfg out _ r ha⟩

/-- which outcomes count as success: exactly a readable reply with status 200. -/
theorem C12_success_is_200 (o : Outcome) : o.isOk = true ↔ ∃ body, o = .reply 200 body := by
  cases o with
  | reply c b => simp [Outcome.isOk]
  | transportErr => simp [Outcome.isOk]
  | unreadableBody c => simp [Outcome.isOk]

/-- (i) switch-independent form: whenever the threshold in force equals the configured one,
every webhook is active iff its count is below max_tries, and the count never exceeds
max_tries, after every operation sequence. -/
theorem C12_counter_partial (cfg : Cfg) (h : effThr cfg.maxTries = cfg.maxTries) (ops : List Op) :
    ∀ r ∈ (run cfg ops {}).table,
      (r.active = true ↔ r.errors < cfg.maxTries) ∧ r.errors ≤ cfg.maxTries := by
  have := C12_counter_threshold cfg ops
  rw [h] at this
  exact this

/-- (i) FULL STATEMENT, every max_tries ≥ 1, all operation sequences: a webhook is active iff
its consecutive-error count is below max_tries, and the count never exceeds max_tries —
together with C12_counter_run / C12_counter_step: it becomes inactive exactly when the count
reaches the configured maximum.  (False before /repo acffb03.) -/
theorem C12_counter (cfg : Cfg) (h1 : 1 ≤ cfg.maxTries) (ops : List Op) :
    ∀ r ∈ (run cfg ops {}).table,
      (r.active = true ↔ r.errors < cfg.maxTries) ∧ r.errors ≤ cfg.maxTries :=
  C12_counter_partial cfg (by simp [effThr, restoredMaxTries]; omega) ops

/-! ## E. the query endpoint -/

/-- in every reachable state the query endpoint answers, for the url of a row, a document
with that row's active flag and error count; for a url without row (never registered, or
deleted) it refuses. -/
theorem C12_get_state (cfg : Cfg) (ops : List Op) :
    (∀ r ∈ (run cfg ops {}).table, ∃ rep, Model.Hooks.get cfg (run cfg ops {}) r.url = .ok rep ∧
        rep.active = r.active ∧ rep.errors = r.errors) ∧
    (∀ u, u ≠ "" → (∀ r ∈ (run cfg ops {}).table, r.url ≠ u) → Model.Hooks.get cfg (run cfg ops {}) u = .refused .webhookNotFound) := by
  have hi := inv_run cfg ops {} (inv_init cfg)
  generalize run cfg ops {} = s at hi
  constructor
  · intro r hr
    simp [Model.Hooks.get, hi.nonempty r hr, getByUrl_of_mem hi.uniq hr, report]
  · intro u hu hnone
    have : sqlGetByUrl s.table u = none := by
      unfold sqlGetByUrl
      exact List.find?_eq_none.mpr (fun x hx => by simpa using hnone x hx)
    simp [Model.Hooks.get, hu, this]

/-- (iii) switch-independent form: the report carries status and time of the last attempt
when `ToWebhook` maps the two columns, or when the row has none recorded. -/
theorem C12_get_reports_partial (cfg : Cfg) (ops : List Op) (r : Row) (hr : r ∈ (run cfg ops {}).table)
    (h : toWebhookMapsLastEmit = true ∨ (r.lastStatus = .none ∧ r.lastAt.attempt = none)) :
    ∃ rep, Model.Hooks.get cfg (run cfg ops {}) r.url = .ok rep ∧
      rep.active = r.active ∧ rep.errors = r.errors ∧
      rep.lastStatus = r.lastStatus ∧ rep.lastAt.attempt = r.lastAt.attempt := by
  have hi := inv_run cfg ops {} (inv_init cfg)
  generalize run cfg ops {} = s at hr hi
  refine ⟨report (toWebhook cfg.maxTries r), ?_, rfl, rfl, ?_⟩
  · simp [Model.Hooks.get, hi.nonempty r hr, getByUrl_of_mem hi.uniq hr]
  · rcases h with h | ⟨h1, h2⟩
    · simp [report, toWebhook, h]
    · cases hm : toWebhookMapsLastEmit
      · simp only [report, toWebhook, hm, h1, h2]
        exact ⟨by simp, rfl⟩
      · simp [report, toWebhook, hm]

/-- (iii) FULL STATEMENT, all operation sequences: the query endpoint reports the row's
active flag, error count, and status and time of the last attempt.  (False before /repo b2d3d75.) -/
theorem C12_get_reports (cfg : Cfg) (ops : List Op) :
    ∀ r ∈ (run cfg ops {}).table, ∃ rep, Model.Hooks.get cfg (run cfg ops {}) r.url = .ok rep ∧
      rep.active = r.active ∧ rep.errors = r.errors ∧
      rep.lastStatus = r.lastStatus ∧ rep.lastAt.attempt = r.lastAt.attempt :=
  fun r hr => C12_get_reports_partial cfg ops r hr (Or.inl rfl)

/-- the state — hence everything the query endpoint reports — survives a restart: the
service keeps no webhook state in memory (every operation reads the table).  In the model
this is by construction; that the REAL service behaves so is what the correspondence check
exercises by closing and reopening the database file. -/
theorem C12_restart (cfg : Cfg) (s : State) (u : String) :
    (step cfg s .restart).1 = s ∧ Model.Hooks.get cfg (step cfg s .restart).1 u = Model.Hooks.get cfg s u := ⟨rfl, rfl⟩

/-! ## non-vacuity: states that meet the hypotheses above, and the former witnesses -/

-- C12_counter (former witness of (i)): max_tries 3, one failure leaves the hook active with count 1;
-- the third consecutive failure deactivates; a success in between resets
example :
    let cfg : Cfg := { maxTries := 3, prod := false }
    let fail : Op := .notify (fun _ => .reply 500 "")
    let ok : Op := .notify (fun _ => .reply 200 "OK")
    (run cfg [.register .bearer "" "tok" "u", fail] {}).table.map (fun r => (r.errors, r.active)) = [(1, true)] ∧
    (run cfg [.register .bearer "" "tok" "u", fail, fail] {}).table.map (fun r => (r.errors, r.active)) = [(2, true)] ∧
    (run cfg [.register .bearer "" "tok" "u", fail, fail, fail] {}).table.map (fun r => (r.errors, r.active)) = [(3, false)] ∧
    (run cfg [.register .bearer "" "tok" "u", fail, fail, ok, fail] {}).table.map (fun r => (r.errors, r.active)) = [(1, true)] := by
  decide
-- C12_counter: the hypothesis of C12_counter_partial holds for every max_tries ≥ 1
example : effThr 1 = 1 ∧ effThr 5 = 5 := by decide
-- C12_posts (former witness of (ii)): production client, bearer / custom header / no authorisation
example :
    let cfg : Cfg := { maxTries := 2, prod := true }
    let s := run cfg [.register .bearer "" "tok" "u1", .register .other "X-Api-Key" "k" "u2", .register .other "" "" "u3"] {}
    (∀ r ∈ s.table, r.active = true → wireAccepts cfg.prod r.tokenHeader = true) ∧
    posts (notify cfg s (fun _ => .reply 200 "OK")).2 =
      [⟨"u1", "Authorization", "Bearer tok"⟩, ⟨"u2", "X-Api-Key", "k"⟩, ⟨"u3", "", ""⟩] ∧
    (notify cfg s (fun _ => .reply 200 "OK")).1.table.map (fun r => (r.errors, r.active)) = [(0, true), (0, true), (0, true)] := by
  decide
-- C12_get_reports (former witness of (iii)): the report carries the last attempt
example :
    let cfg : Cfg := { maxTries := 3, prod := false }
    let s := run cfg [.register .bearer "" "tok" "u", .notify (fun _ => .reply 200 "OK")] {}
    Model.Hooks.get cfg s "u" = .ok { active := true, errors := 0, lastStatus := .reply 200 "OK", lastAt := .at 1 } := by
  decide
-- C12_get_reports_partial, second disjunct: a freshly registered hook has no attempt recorded
example :
    let s := run { maxTries := 2, prod := false } [.register .other "" "" "u"] {}
    ∀ r ∈ s.table, r.lastStatus = .none ∧ r.lastAt.attempt = none := by
  decide
-- C12_reregister: a reachable state with an inactive row, and what re-registering it does
example :
    let cfg : Cfg := { maxTries := 1, prod := false }
    let s := run cfg [.register .bearer "" "tok" "u", .notify (fun _ => .transportErr)] {}
    (∃ r ∈ s.table, r.active = false) ∧
    (register cfg s .other "X" "new" "u").1.table.map (fun r => (r.url, r.tokenHeader, r.token, r.errors, r.active)) =
      [("u", "Authorization", "Bearer tok", 0, true)] := by
  decide
-- C12_counter_run: a history with a trailing run of one failure after a success
example :
    let r := runLog { maxTries := 1, prod := false }
      [.register .bearer "" "tok" "u", .notify (fun _ => .reply 200 ""), .register .bearer "" "tok" "u", .notify (fun _ => .unreadableBody 200)] ({}, [])
    r.2 = [.created "u" "Authorization" "Bearer tok", .delivered "u" true, .delivered "u" false] ∧
    trailingFailures "u" r.2 = 1 ∧ r.1.table.map (·.errors) = [1] := by
  decide

/-! ### tie to the source by translation
The webhook code itself — `updateWebhookAfterNotification` with its counter and deactivation, `Webhook.Notify`, the service,
the repository, the DTO mapping and the SQL-layer methods — is TRANSLATED from the Go source on every run
(harness/cmd/extract/gen_hooksvc.go → `BHS.Gen.HookSvc`) and proved equal to the hand model used above, for every input,
in BHS/Props/HookSvcGen.lean (`updateWebhookAfterNotification_refines` … `Gen_step_refines`, `Gen_run_refines`); the
headline theorems of this file are re-stated over the generated definitions in BHS/Props/HookSvcGenC12.lean.
(This replaces the former `C12_counter_translated` over `Gen.HookCounter`, which covered only the two counter fields and
was not robust against harmless rewrites of the Go text.) -/

end BHS.Props.C12
