/-
C18 — Peer management: outbound target kept; bans, per-host and total limits hold.

Two executable models, both validated against the real code on every run by the
correspondence harness (harness/cmd/drive/c18*.go):

* `BHS.Model.Peers`   — `handleAddPeerMsg` / `handleDonePeerMsg` / `handleBanPeerMsg` on `peerState`
* `BHS.Model.ConnMgr` — `connmgr.connHandler` + `NewConnReq`/`handleFailedConn` as a counter machine

Every theorem quantifies over ALL event sequences from the initial state (induction over the
event list, invariants in BHS/Proofs/Peers*.lean). Limits and thresholds are parameters;
`serverCfg` / `serverConn` instantiate them with the constants regenerated from /repo
(`BHS.Gen.PeerConsts`).

What the code's true invariant is (differences to the plain reading of the property):
* persistent peers are counted in the total and in their outbound group, never per host
  (`C18_limits` counts non-persistent peers per host; `persistent_exempt` below);
* `outboundGroups` is decremented only for peers with `VersionKnown()` — true for every
  peer the server adds (`AddPeer` is called from `OnVersion`), an assumption of `Valid`;
* two defects found by this check are repaired in /repo (docs/findings/C18.md): R-C18 (the
  outbound slot was lost after `BanAddress`; now `C18_target` holds at full strength for both
  configurations, `C18_target_after_ban` is the former counterexample turned regression) and
  R-C18-b (an outbound peer answering with two `version` messages was added twice — the
  assumption `Valid` was not met by `peer.go`; its witness is a regression scenario of the harness).
-/
import BHS.Gen.PeerConsts
import BHS.Proofs.Peers
import BHS.Proofs.PeersConnMgr
import BHS.Proofs.PeersWire
import BHS.Proofs.PeersAddrMgr

namespace BHS.Props.C18
open BHS

/-! ## Part 1 — admission bookkeeping -/
section peers
open BHS.Model.Peers BHS.Proofs.Peers

/-- the server's limits (regenerated constants); the ban duration is configuration. -/
def serverCfg (banMs : Nat) : Cfg := { maxPeers := Gen.maxPeers, maxPerIP := Gen.maxPeersPerIP, banMs := banMs }

/-- **Limits and counters, every valid history.** The admitted set never exceeds the total
limit; the admitted non-persistent peers of one host never exceed the per-host limit;
`connectionCount[h]` IS the number of admitted non-persistent peers of `h` and
`outboundGroups[g]` IS the number of admitted outbound (incl. persistent) peers of `g`. -/
theorem C18_limits (c : Cfg) (evs : List Event) (hv : Valid c init evs) :
    count (run c init evs) ≤ c.maxPeers ∧
    (∀ h, hostCount (run c init evs) h ≤ c.maxPerIP) ∧
    (∀ h, (run c init evs).conn h = (hostCount (run c init evs) h : Int)) ∧
    (∀ g, (run c init evs).groups g = (groupCount (run c init evs) g : Int)) := by
  have hi := inv_run evs init inv_init hv
  have hb := bound_run (c := c) evs init (bound_init c)
  refine ⟨hb.total, ?_, hi.conn, hi.grp⟩
  intro h
  have h1 := hb.perHost h
  have h2 := hi.conn h
  omega

/-- the same, with the limits the server is compiled with (`config.MaxPeers`, `config.MaxPeersPerIP`). -/
theorem C18_limits_server (banMs : Nat) (evs : List Event) (hv : Valid (serverCfg banMs) init evs) :
    count (run (serverCfg banMs) init evs) ≤ Gen.maxPeers ∧
    ∀ h, hostCount (run (serverCfg banMs) init evs) h ≤ Gen.maxPeersPerIP :=
  ⟨(C18_limits _ evs hv).1, (C18_limits _ evs hv).2.1⟩

/-- **Even without any assumption on peer ids** (duplicate ids, `done` for foreign peers, …)
the map sizes and the per-host counter stay within the limits. -/
theorem C18_limits_any_history (c : Cfg) (evs : List Event) :
    count (run c init evs) ≤ c.maxPeers ∧ ∀ h, (run c init evs).conn h ≤ (c.maxPerIP : Int) :=
  let hb := bound_run (c := c) evs init (bound_init c)
  ⟨hb.total, hb.perHost⟩

/-- **Counters return to zero**: once the last counted peer of a host / group has left, its
counter is 0 again — nothing leaks. -/
theorem C18_counters_return_to_zero (c : Cfg) (evs : List Event) (hv : Valid c init evs) :
    (∀ h, (∀ p ∈ (run c init evs).inb ++ (run c init evs).outb, p.host ≠ h) → (run c init evs).conn h = 0) ∧
    (∀ g, (∀ p ∈ (run c init evs).outb ++ (run c init evs).pers, p.group ≠ g) → (run c init evs).groups g = 0) := by
  have hi := inv_run evs init inv_init hv
  constructor
  · intro h hn
    rw [hi.conn h]
    have : hostCount (run c init evs) h = 0 := by
      unfold hostCount
      rw [List.countP_eq_zero]
      intro p hp
      simpa using hn p hp
    omega
  · intro g hn
    rw [hi.grp g]
    have : groupCount (run c init evs) g = 0 := by
      unfold groupCount
      rw [List.countP_eq_zero]
      intro p hp
      simpa using hn p hp
    omega

/-- **Limits never wedge admission**: after any valid history a new peer is admitted exactly
when the server is running, its host is not under an active ban, fewer than `maxPerIP`
non-persistent peers of its host and fewer than `maxPeers` peers in total are admitted *now*. -/
theorem C18_admission_exact (c : Cfg) (evs : List Event) (hv : Valid c init evs) (p : Peer) :
    (addPeer c (run c init evs) p).2 = .admitted ↔
      ((run c init evs).shutdown = false ∧ banActive (run c init evs) p.host = false ∧
       hostCount (run c init evs) p.host < c.maxPerIP ∧ count (run c init evs) < c.maxPeers) := by
  have hi := inv_run evs init inv_init hv
  have hc := hi.conn p.host
  generalize run c init evs = s at *
  unfold addPeer
  have e1 : (clearBan s p.host).conn p.host = s.conn p.host := rfl
  have e2 : count (clearBan s p.host) = count s := rfl
  rw [e1, e2, hc]
  cases hs : s.shutdown <;> cases hb : banActive s p.host <;> simp
  · by_cases h1 : c.maxPerIP ≤ hostCount s p.host
    · simp only [h1, ↓reduceIte]
      constructor
      · intro h; cases h
      · intro h; omega
    · simp only [h1, ↓reduceIte]
      by_cases h2 : c.maxPeers ≤ count s
      · simp only [h2, ↓reduceIte]
        constructor
        · intro h; cases h
        · intro h; omega
      · simp only [h2, ↓reduceIte, true_iff]
        omega

/-- **No admission during a ban.** `ghost c evs` computes from the history alone how much time
has passed and when the most recent ban of each host ends. While that moment is in the future a
peer of the host is refused (`banned`, or `shutdown` when the server stops) and the state is untouched. -/
theorem C18_ban (c : Cfg) (evs : List Event) (p : Peer) (e : Nat)
    (hban : (ghost c evs).banEnd p.host = some e) (hnow : (ghost c evs).now < e) :
    (addPeer c (run c init evs) p).2 ≠ .admitted ∧
    ((addPeer c (run c init evs) p).2 = .banned ∨ (addPeer c (run c init evs) p).2 = .shutdown) ∧
    (addPeer c (run c init evs) p).1 = run c init evs := by
  have hr := banRel_run (c := c) evs init {} banRel_init
  change BanRel (run c init evs) (ghost c evs) at hr
  generalize run c init evs = s at *
  generalize ghost c evs = g at *
  have hact : banActive s p.host = true := by
    unfold banActive
    cases hs : s.banned p.host with
    | none =>
      have := hr.none_ p.host hs e hban
      have := hr.now
      omega
    | some e' =>
      have := hr.some_ p.host e' hs
      rw [hban] at this
      cases this
      have := hr.now
      simp only [decide_eq_true_eq]
      omega
  unfold addPeer
  cases hs : s.shutdown <;> simp [hact]

/-- **Admission again afterwards.** Once the ban duration has elapsed (or the host was never
banned) a peer is no longer refused for being banned … -/
theorem C18_ban_elapsed (c : Cfg) (evs : List Event) (p : Peer)
    (hel : ∀ e, (ghost c evs).banEnd p.host = some e → e ≤ (ghost c evs).now) :
    banActive (run c init evs) p.host = false ∧ (addPeer c (run c init evs) p).2 ≠ .banned := by
  have hr := banRel_run (c := c) evs init {} banRel_init
  change BanRel (run c init evs) (ghost c evs) at hr
  generalize run c init evs = s at *
  generalize ghost c evs = g at *
  have hact : banActive s p.host = false := by
    unfold banActive
    cases hs : s.banned p.host with
    | none => rfl
    | some e' =>
      have h1 := hel e' (hr.some_ p.host e' hs)
      have := hr.now
      simp only [decide_eq_false_iff_not]
      omega
  refine ⟨hact, ?_⟩
  unfold addPeer
  cases hs : s.shutdown
  · simp only [hact, Bool.false_eq_true, ↓reduceIte]
    (repeat' split) <;> simp
  · simp

/-- … and, with room under both limits, it IS admitted. -/
theorem C18_readmitted (c : Cfg) (evs : List Event) (hv : Valid c init evs) (p : Peer)
    (hel : ∀ e, (ghost c evs).banEnd p.host = some e → e ≤ (ghost c evs).now)
    (hrun : (run c init evs).shutdown = false)
    (hroom : hostCount (run c init evs) p.host < c.maxPerIP ∧ count (run c init evs) < c.maxPeers) :
    (addPeer c (run c init evs) p).2 = .admitted :=
  (C18_admission_exact c evs hv p).2 ⟨hrun, (C18_ban_elapsed c evs p hel).1, hroom.1, hroom.2⟩

/-- **The assumptions are a property of the history alone**: ids of the added peers pairwise
distinct, outbound peers added with their version known, `done` carrying the peer that was added
under its id (`ValidH`, no reference to the state) imply `Valid`. -/
theorem C18_valid_of_history (c : Cfg) (evs : List Event) (h : ValidH [] evs) : Valid c init evs :=
  valid_of_validH evs init [] (by simp [all, init]) h

/-! ### non-vacuity and the accidents of the code, on concrete histories -/

instance (s : State) (e : Event) : Decidable (Ok s e) := by
  cases e <;> unfold Ok <;> infer_instance

instance decValid (c : Cfg) : (s : State) → (evs : List Event) → Decidable (Valid c s evs)
  | _, [] => isTrue trivial
  | s, e :: es => by
    unfold Valid
    exact @instDecidableAnd _ _ _ (decValid c (step c s e).1 es)

instance decValidH : (added : List Peer) → (evs : List Event) → Decidable (ValidH added evs)
  | _, [] => isTrue trivial
  | added, .add p :: es => by
    unfold ValidH
    exact @instDecidableAnd _ _ _ (@instDecidableAnd _ _ _ (decValidH (p :: added) es))
  | added, .done p :: es => by
    unfold ValidH
    exact @instDecidableAnd _ _ _ (decValidH added es)
  | added, .addBad :: es => by unfold ValidH; exact decValidH added es
  | added, .ban _ :: es => by unfold ValidH; exact decValidH added es
  | added, .clock _ :: es => by unfold ValidH; exact decValidH added es
  | added, .shutdown :: es => by unfold ValidH; exact decValidH added es

private def tc : Cfg := { maxPeers := 3, maxPerIP := 2, banMs := 10 }
private def pI (id host : Nat) : Peer := { id := id, kind := .inbound, host := host, group := 0, vk := true }
private def pO (id host group : Nat) : Peer := { id := id, kind := .outbound, host := host, group := group, vk := true }
private def pP (id host group : Nat) : Peer := { id := id, kind := .persistent, host := host, group := group, vk := true }

-- a valid history that fills host 0, is refused per host, fills the total, is refused in total
private def h1 : List Event := [.add (pI 1 0), .add (pO 2 0 7), .add (pI 3 0), .add (pO 4 1 7), .add (pI 5 2)]
example : Valid tc init h1 := by decide
example : (step tc (run tc init (h1.take 2)) (h1.getD 2 .addBad)).2 = some .perHost := by decide
example : (step tc (run tc init (h1.take 4)) (h1.getD 4 .addBad)).2 = some .total := by decide
example : (run tc init h1).conn 0 = 2 ∧ (run tc init h1).groups 7 = 2 ∧ count (run tc init h1) = 3 := by decide
-- everybody leaves: counters are back to 0 and a formerly refused host is admitted (C18_counters_return_to_zero, C18_admission_exact)
private def h2 : List Event := h1 ++ [.done (pI 1 0), .done (pO 2 0 7), .done (pO 4 1 7), .done (pI 3 0)]
example : Valid tc init h2 := by decide
example : ValidH [] h2 := by decide
example : all (run tc init h2) = [] ∧ (run tc init h2).conn 0 = 0 ∧ (run tc init h2).groups 7 = 0 := by decide
example : (addPeer tc (run tc init h2) (pI 9 0)).2 = .admitted := by decide
-- ban: refused at +9 ms, admitted at +10 ms (C18_ban / C18_ban_elapsed / C18_readmitted hypotheses are satisfiable)
private def h3 : List Event := [.ban 4, .clock 9]
example : (ghost tc h3).banEnd 4 = some 10 ∧ (ghost tc h3).now < 10 := by decide
example : (addPeer tc (run tc init h3) (pI 1 4)).2 = .banned := by decide
example : (ghost tc (h3 ++ [.clock 1])).banEnd 4 = some 10 ∧ 10 ≤ (ghost tc (h3 ++ [.clock 1])).now := by decide
example : (addPeer tc (run tc init (h3 ++ [.clock 1])) (pI 1 4)).2 = .admitted := by decide
-- accident kept by the model: persistent peers never occupy a per-host slot
theorem persistent_exempt : ∃ evs, Valid tc init evs ∧
    ((all (run tc init evs)).filter (fun p => p.host == 0)).length > tc.maxPerIP ∧ (run tc init evs).conn 0 = 0 :=
  ⟨[.add (pP 1 0 7), .add (pP 2 0 7), .add (pP 3 0 7)], by decide⟩
-- why `Valid` asks for VersionKnown: a peer added before its version is known leaks its group slot
example : (run tc init [.add { pO 1 0 7 with vk := false }, .done { pO 1 0 7 with vk := false }]).groups 7 = 1 := by decide
-- why `Valid` asks for fresh ids: the same peer object added under two ids leaves one entry behind for ever
example : let s := run tc init [.add (pO 1 0 7), .add (pO 2 0 7), .done (pO 2 0 7)]
    count s = 1 ∧ s.conn 0 = 1 ∧ s.groups 7 = 1 := by decide
example : 0 < Gen.maxPeersPerIP ∧ Gen.maxPeersPerIP ≤ Gen.maxPeers := by decide

end peers

/-! ## Part 2 — the connection manager keeps the outbound target -/
section connmgr
open BHS.Model.ConnMgr BHS.Proofs.ConnMgr

/-- the connection manager as the server configures it (`BanAddress: s.addrManager.BanAddress`,
`TargetOutbound` left 0 → default) or as a caller may (`banAddr = false`). -/
def serverConn (target : Nat) (banAddr : Bool) : Cfg :=
  { target := effTarget Gen.defaultTargetOutbound target, banAddr := banAddr, maxFailed := Gen.maxFailedAttempts }

/-- **Never more than the target**, for EVERY sequence of dial results, address failures,
disconnects, removals and cancellations, with or without `BanAddress`: established connections
plus requests being dialled never exceed `TargetOutbound`. -/
theorem C18_target_never_exceeded (c : Cfg) (evs : List Event) :
    (run c (start c) evs).conns.length + (run c (start c) evs).live.length ≤ c.target := by
  have := tot_run_le c evs (start c) (by rw [tot_start]; exact Nat.le_refl _)
  simp only [tot] at this
  omega

/-- **Target kept — full strength, with and without `BanAddress`.** After any sequence of dial
failures, address errors, connections, bans and disconnections (the events the server produces:
`Disconnect` of established connections only): `established + in flight = target`; hence never
more than the target, and while fewer than `target` connections are established a request is
in flight (it keeps asking for addresses and dialling). -/
theorem C18_target (c : Cfg) (evs : List Event) (ha : AdmAll c (start c) evs) :
    (run c (start c) evs).conns.length + (run c (start c) evs).live.length = c.target ∧
    (run c (start c) evs).conns.length ≤ c.target ∧
    ((run c (start c) evs).conns.length < c.target → (run c (start c) evs).live ≠ []) := by
  have h := (run_eq evs (start c) (wf_start c) ha (tot_start c)).2
  simp only [tot, lost_eq_zero] at h
  refine ⟨by omega, by omega, ?_⟩
  intro hlt hnil
  rw [hnil] at h
  simp only [List.length_nil] at h
  omega

/-- the same for the server's configuration (regenerated `maxFailedAttempts`, default target, `BanAddress` set). -/
theorem C18_target_server (target : Nat) (evs : List Event)
    (ha : AdmAll (serverConn target true) (start (serverConn target true)) evs) :
    (run (serverConn target true) (start (serverConn target true)) evs).conns.length +
      (run (serverConn target true) (start (serverConn target true)) evs).live.length
      = effTarget Gen.defaultTargetOutbound target :=
  (C18_target _ evs ha).1

/-- **Replacement of a closed connection**: when an established connection is disconnected, one
more request is in flight afterwards (also when that disconnect makes the address reach
`maxFailedAttempts` and it is banned). -/
theorem C18_target_replacement (c : Cfg) (evs : List Event) (ha : AdmAll c (start c) evs)
    (id : Nat) (hc : hasConn (run c (start c) evs) id = true) (hl : id ∉ (run c (start c) evs).live) :
    (step c (run c (start c) evs) (.disc id true)).conns.length + 1 = (run c (start c) evs).conns.length ∧
    (step c (run c (start c) evs) (.disc id true)).live.length = (run c (start c) evs).live.length + 1 := by
  have hadm : AdmAll c (start c) (evs ++ [.disc id true]) := by
    have : ∀ (es : List Event) (s : St), AdmAll c s es → Adm (run c s es) (.disc id true) →
        AdmAll c s (es ++ [.disc id true]) := by
      intro es
      induction es with
      | nil => intro s _ h; exact ⟨h, trivial⟩
      | cons e es ih => intro s h1 h2; exact ⟨h1.1, ih _ h1.2 h2⟩
    exact this evs _ ha ⟨hl, fun _ => rfl⟩
  have h1 := (C18_target c evs ha).1
  have h2 := (C18_target c (evs ++ [.disc id true]) hadm).1
  have hrun : run c (start c) (evs ++ [.disc id true]) = step c (run c (start c) evs) (.disc id true) := by
    simp [run, List.foldl_append]
  rw [hrun] at h2
  have hw := (run_eq evs (start c) (wf_start c) ha (tot_start c)).1
  have h3 := length_filter_key _ id (hasConn_iff.1 hc) hw.connNd
  have hconns : (step c (run c (start c) evs) (.disc id true)).conns.length + 1 = (run c (start c) evs).conns.length := by
    generalize run c (start c) evs = s at *
    have hlt : (s.conns.filter (fun x => x.1 != id)).length < c.target := by omega
    simp only [step, hc, ↓reduceIte, hlt, conns_failedConn]
    exact h3
  omega

instance (s : St) (e : Event) : Decidable (Adm s e) := by
  cases e <;> unfold Adm <;> infer_instance

instance decAdmAll (c : Cfg) : (s : St) → (evs : List Event) → Decidable (AdmAll c s evs)
  | _, [] => isTrue trivial
  | s, e :: es => by
    unfold AdmAll
    exact @instDecidableAnd _ _ _ (decAdmAll c (step c s e) es)

/-- the witness of the repaired defect R-C18: one outbound slot, `BanAddress` configured, the same
address refuses `maxFailedAttempts` times in a row (request ids 1, 2, …) -/
def witness : List Event := (List.range Gen.maxFailedAttempts).map (fun i => Event.dialFail (i + 1) 0)

/-- **Regression of R-C18** (the former counterexample, evaluated on the model of the repaired
code): after `maxFailedAttempts` refusals of one address the manager has called `BanAddress`
once and a further request IS in flight. (Before the repair: `live = []` for ever.) -/
theorem C18_target_after_ban :
    let c := serverConn 1 true
    AdmAll c (start c) witness ∧
    (run c (start c) witness).dials = Gen.maxFailedAttempts ∧
    (run c (start c) witness).banned = [0] ∧
    (run c (start c) witness).live.length = 1 := by
  decide

/-! ### non-vacuity -/
private def cc (b : Bool) : Cfg := { target := 2, banAddr := b, maxFailed := 3 }
-- an admissible history with failures, connections, a disconnect: hypotheses of C18_target / _replacement
private def k1 : List Event := [.dialFail 1 0, .dialOk 2 5, .addrFail 3, .dialOk 4 6, .disc 2 true, .dialOk 5 7]
example : AdmAll (cc false) (start (cc false)) k1 := by decide
example : (run (cc false) (start (cc false)) k1).conns = [(4, 6), (5, 7)] := by decide
example : hasConn (run (cc false) (start (cc false)) (k1.take 4)) 2 = true ∧ 2 ∉ (run (cc false) (start (cc false)) (k1.take 4)).live := by decide
example : AdmAll (cc true) (start (cc true)) k1 ∧ (run (cc true) (start (cc true)) k1).fails 0 = 1 := by decide
-- three refusals of address 0 with BanAddress: one ban, and both slots are still being served
example : let s := run (cc true) (start (cc true)) [.dialFail 1 0, .dialFail 3 0, .dialFail 4 0]
    s.banned = [0] ∧ s.live = [2, 5] ∧ s.conns = [] := by decide
-- a disconnect that makes the address reach the threshold: banned AND replaced (C18_target_replacement with a ban)
example : let s := run (cc true) (start (cc true)) [.dialOk 1 0, .dialFail 2 0, .dialFail 3 0, .disc 1 true]
    s.banned = [0] ∧ s.conns = [] ∧ s.live.length = 2 := by decide
example : (serverConn 0 true).target = Gen.defaultTargetOutbound ∧ (serverConn 3 true).target = 3 := by decide

end connmgr

/-! ## Part 3 — admission and connection manager wired together as in server.go -/
section wired
open BHS.Model BHS.Model.PeerWire BHS.Proofs.PeerWire

/-- **Target kept by the wired system.** For EVERY sequence of dial results, outbound peers
admitted or refused (banned host, per-host limit, total limit — a refused outbound peer ends in
`connManager.Disconnect(connReq.ID())` exactly once), peers leaving, inbound arrivals, bans and
clock steps: `established + in flight = target`, so while fewer than `target` outbound
connections are established the connection manager is asking for an address / dialling. -/
theorem C18_wired_target (cfg : PeerWire.Cfg) (evs : List PeerWire.Event) :
    (run cfg (start cfg) evs).c.conns.length + (run cfg (start cfg) evs).c.live.length = cfg.cc.target ∧
    ((run cfg (start cfg) evs).c.conns.length < cfg.cc.target → (run cfg (start cfg) evs).c.live ≠ []) := by
  have h := (cinv_run evs (start cfg) (cinv_start cfg)).tot
  simp only [BHS.Proofs.ConnMgr.tot, BHS.Proofs.ConnMgr.lost_eq_zero] at h
  refine ⟨by omega, ?_⟩
  intro hlt hnil
  rw [hnil] at h
  simp only [List.length_nil] at h
  omega

/-- every admitted outbound peer holds a connection request that is not being dialled any more
(its later `Disconnect` is one of the events `C18_target` admits) -/
theorem C18_wired_peers_hold_requests (cfg : PeerWire.Cfg) (evs : List PeerWire.Event) :
    ∀ x ∈ (run cfg (start cfg) evs).out, x.1 ∉ (run cfg (start cfg) evs).c.live :=
  fun x hx => ((cinv_run evs (start cfg) (cinv_start cfg)).kept x hx).2

-- non-vacuity: target 2; host 0 is banned; the manager connects to host 0 again, the peer is refused as banned,
-- the connection is given back and a new request is in flight; then host 1 is admitted
private def wcfg : PeerWire.Cfg := { pc := { maxPeers := 3, maxPerIP := 1, banMs := 10 }, cc := { target := 2, banAddr := true, maxFailed := 3 } }
example : (step wcfg (run wcfg (start wcfg) [.ban 0]) (.ok 0 0 0)).2 = some .banned := by decide
example : let w := run wcfg (start wcfg) [.ban 0, .ok 0 0 0]
    w.c.conns = [] ∧ w.c.live = [2, 3] ∧ w.c.closed = [1] ∧ w.out = [] := by decide
example : let w := run wcfg (start wcfg) [.ban 0, .ok 0 0 0, .ok 0 1 1]
    w.c.conns = [(2, 1)] ∧ w.c.live = [3] ∧ w.out.map (·.1) = [2] ∧ Peers.count w.p = 1 := by decide
-- refused for the per-host limit (an inbound peer of host 1 holds the only slot), replaced; the admitted one leaves, replaced
example : (step wcfg (run wcfg (start wcfg) [.inbound 1 1]) (.ok 0 1 1)).2 = some .perHost := by decide
example : let w := run wcfg (start wcfg) [.ok 0 1 1, .done 0]
    w.c.conns = [] ∧ w.c.live.length = 2 ∧ w.out = [] ∧ Peers.count w.p = 0 := by decide

end wired

/-! ## Part 4 — the address manager never starves the connection manager -/
section addrmgr
open BHS.Model.AddrMgr BHS.Proofs.AddrMgr

/-- the bookkeeping invariant (`BHS.Proofs.AddrMgr.Inv`: index keys and new-bucket entries without
duplicates; `refs` = number of new buckets holding the address; every new-bucket entry is indexed;
tried ⇒ `refs = 0`, not tried ⇒ `refs > 0`; an address sits in at most one tried bucket, tried-bucket
entries are indexed as tried and vice versa; `nTried` = entries of the tried buckets; `nNew` = indexed
addresses with `refs > 0`) holds for the empty manager. -/
theorem C18_addrmgr_invariant_init : Inv ({} : St) := inv_init

/-- every indexed address is in a bucket -/
theorem C18_addrmgr_indexed_in_bucket (s : St) (h : Inv s) :
    ∀ e ∈ s.index, (e.2.tried = true ∧ ∃ p ∈ s.triedB, p.2 = e.1) ∨ (∃ p ∈ s.newB, p.2 = e.1) := h.inBucket

/-- `updateAddress` keeps the invariant — for every address, every bucket the hash may give and either outcome of the dice. -/
theorem C18_addrmgr_inv_add (c : Cfg) (s : St) (a b : Nat) (dice : Bool) (h : Inv s) : Inv (add c s a b dice) := inv_add c a b dice h

/-- `Good` keeps the invariant — for every address and every tried bucket. -/
theorem C18_addrmgr_inv_good (s : St) (a t : Nat) (h : Inv s) : Inv (good s a t) := inv_good a t h

/-- `BanAddress` of today's code (`removeAddrFromTried` after commit 82e7a0f, then `removeAddrFromNew`) keeps the invariant. -/
theorem C18_addrmgr_inv_ban (c : Cfg) (s : St) (a : Nat) (h : Inv s) : Inv (ban true c s a) := inv_ban c a h

/-- time passing (ban expiry is read at the next `add`) keeps the invariant; `Attempt` / `Connected` do not touch the bookkeeping. -/
theorem C18_addrmgr_inv_clock (c : Cfg) (s : St) (dt : Nat) (h : Inv s) : Inv (step c s (.clock dt)) := inv_step c (.clock dt) h

/-- **Every reachable state satisfies the invariant**: all sequences of add / good / ban / clock from the empty manager,
all bucket hashes and dice outcomes. -/
theorem C18_addrmgr_reachable_inv (c : Cfg) (ops : List Op) : Inv (run c {} ops) := inv_run c ops {} inv_init

/-- **`GetAddress` returns.** Under the invariant neither of its two `for {}` searches over random
buckets is entered with all its buckets empty (so it ends with probability 1 and the manager's
mutex is released), and it answers `nil` exactly when the manager counts no address. -/
theorem C18_addrmgr_get_returns (s : St) (h : Inv s) (coin : Bool) :
    getAddress s coin ≠ .hang ∧ (getAddress s coin = .nil ↔ s.nTried + s.nNew = 0) := by
  refine ⟨get_not_hang h coin, ?_⟩
  unfold getAddress
  constructor
  · intro hn
    split at hn
    · assumption
    · split at hn <;> split at hn <;> cases hn
  · intro h0
    simp [h0]

/-- **`GetAddress` never wedges.** After ANY history of AddAddresses / Good / BanAddress / time passing (all hashes, all dice)
and for either value of its coin, `GetAddress` does not enter a search over empty buckets (it returns, and releases the
manager's mutex), and it answers `nil` exactly when the manager counts no address — the connection manager keeps getting
addresses as long as there are any. -/
theorem C18_addrmgr_never_hangs (c : Cfg) (ops : List Op) (coin : Bool) :
    getAddress (run c {} ops) coin ≠ .hang ∧
    (getAddress (run c {} ops) coin = .nil ↔ (run c {} ops).nTried + (run c {} ops).nNew = 0) :=
  C18_addrmgr_get_returns _ (C18_addrmgr_reachable_inv c ops) coin

private def acfg : Cfg := { banT := 24, maxRefs := 8 }

/-- **Counterexample for the code before commit 82e7a0f** (`removeTried false`): an address is
added, connected (`Good`), banned. The removal decrements `refs` from 0 to −1 and therefore skips
`nTried--` and the index deletion: `nTried = 1` with every tried bucket empty — `GetAddress` enters
the tried search (whatever its coin says) and never leaves it. -/
theorem C18_addrmgr_before_fix :
    let s := ban false acfg (good (add acfg {} 0 5 true) 0 3) 0
    s.nTried = 1 ∧ s.triedB = [] ∧ s.nNew = 0 ∧ find s 0 = some { refs := -1, tried := true } ∧
    getAddress s true = .hang ∧ getAddress s false = .hang := by
  decide

/-- **The old removal does not keep the invariant** (so none of the above holds for the code before 82e7a0f): a state that
satisfies the invariant — one address, added and connected — is taken out of it by `ban false`. -/
theorem C18_addrmgr_old_removal_not_invariant : ¬ ∀ (c : Cfg) (s : St) (a : Nat), Inv s → Inv (ban false c s a) := by
  intro h
  have hs : Inv (good (add acfg {} 0 5 true) 0 3) := inv_good 0 3 (inv_add acfg 0 5 true inv_init)
  have hb := (h acfg _ 0 hs).tried
  revert hb
  decide

/-- the same history on the code of today: nothing is left, `GetAddress` answers `nil`; a fresh
address added afterwards is handed out. -/
theorem C18_addrmgr_after_fix :
    let s := run acfg {} [.add 0 5 true, .good 0 3, .ban 0]
    s.nTried = 0 ∧ s.nNew = 0 ∧ s.index = [] ∧ s.triedB = [] ∧ getAddress s true = .nil ∧
    getAddress (step acfg s (.add 1 9 true)) true = .new := by
  decide

-- non-vacuity of `Inv`: a state with a tried and a twice-referenced new address
example : (run acfg {} [.add 0 5 true, .good 0 3, .add 1 9 true, .add 1 11 true]).nTried = 1 ∧
    (run acfg {} [.add 0 5 true, .good 0 3, .add 1 9 true, .add 1 11 true]).nNew = 1 ∧
    find (run acfg {} [.add 0 5 true, .good 0 3, .add 1 9 true, .add 1 11 true]) 1 = some { refs := 2, tried := false } := by decide
-- a ban is honoured by `add` until it ends
example : (run acfg {} [.ban 2, .clock 23, .add 2 1 true]).index = [] ∧
    (run acfg {} [.ban 2, .clock 24, .add 2 1 true]).nNew = 1 := by decide

end addrmgr

end BHS.Props.C18
