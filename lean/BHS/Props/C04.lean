/-
C04 — Chain query endpoints answer as pure functions of the stored header tree.
  "At any moment every read endpoint returns what the stored tree implies: header/state by hash return that
  header (404 if absent); by-height returns stored headers only from the requested height window and all
  longest-chain ones in it; tips returns the longest tip plus every leaf of a stale or orphan branch;
  tip/longest returns the longest tip. Ancestors(hash, ancestor) returns exactly the parent-linked path between
  the two when one descends from the other and a same-chain error otherwise; common-ancestor returns the
  highest header strictly below the lowest given height that is an ancestor of all given headers. Reads never
  modify the store."

The theorems are about the executable model BHS/Model/Query.lean (`byHash`, `byHeightRange`, `allTips`, `getTip`,
`ancestors`, `commonAncestor` and the walks they use), for every store satisfying the chain invariant
`Inv = WF ∧ LcInv` (proved for every reachable store in C01). Where only the structural half `WF` is needed the
theorem says `WF` (`Inv cfg s` gives it as `.1`). Helper lemmas: BHS/Proofs/QueryTree*.lean.

Tree vocabulary: `IsParent`, `Anc` (an inductive reflexive-transitive closure, independent of the model's
walk functions), `Leaf`, `Linked`. `C04_anc_iff_chainTo` shows that for CONNECTED (non-orphan) rows `Anc`
agrees with membership in the parent walk `chainTo` of the specification BHS/Spec/BestChain.lean.

Known finding K-C04-late-parent-orphan: the SQL walks behind Ancestors and CommonAncestor compare HEIGHTS. For
connected rows heights drop by exactly one per parent link; an ORPHAN whose parent was stored after it keeps
the height computed at arrival (1 + 0), so the statements about `ancestors` and `commonAncestor` are false
for such rows. They are proved for connected rows (`…_partial`) and refuted at a concrete reachable store
(`…_counterexample`).

Every implication is followed by a non-vacuity example on a concrete seven-row store over `H := Nat` with a
fork, a stale branch and an orphan branch.
-/
import BHS.Model.Query
import BHS.Spec.BestChain
import BHS.Proofs.QueryTreeCommon
import Driver.Ops.ChainCore
import BHS.Proofs.Fields
import BHS.Props.C01

set_option linter.unusedSectionVars false

namespace BHS.Props.C04
open BHS BHS.Chain BHS.QueryTree
variable {H : Type} [DecidableEq H]

/-! ### tree vocabulary -/

/-- `p` is the stored parent of the stored row `r` -/
def IsParent (s : Store H) (p r : Row H) : Prop := p ∈ s ∧ r ∈ s ∧ p.hash = r.prev

/-- `Anc s a r`: `a` is `r` or an ancestor of `r` in the stored tree (reflexive-transitive closure of `IsParent`) -/
inductive Anc (s : Store H) : Row H → Row H → Prop
  | refl {r : Row H} : r ∈ s → Anc s r r
  | step {a p r : Row H} : Anc s a p → IsParent s p r → Anc s a r

/-- a stored row without stored children -/
def Leaf (s : Store H) (r : Row H) : Prop := r ∈ s ∧ ∀ c ∈ s, c.prev ≠ r.hash

/-- consecutive rows are child and stored parent -/
def Linked (s : Store H) : List (Row H) → Prop
  | [] => True
  | [_] => True
  | x :: y :: l => IsParent s y x ∧ Linked s (y :: l)

/-- the prefix of the parent walk from `r` down to `a` inclusive -/
def pathDown (s : Store H) (r a : Row H) : List (Row H) :=
  (chainTo s r).takeWhile (fun x => decide (x.hash ≠ a.hash)) ++ [a]

instance (s : Store H) (p r : Row H) : Decidable (IsParent s p r) := by unfold IsParent; infer_instance
instance (s : Store H) (r : Row H) : Decidable (Leaf s r) := by unfold Leaf; infer_instance

/-! ### the concrete stores used by the examples -/

/-- toy hash: nonce + 1 (never 0, the root's previous-hash) -/
def exCfg : Cfg Nat := { hashOf := fun x => x.nonce + 1, forbidden := [99] }

def exSrc (prev nonce : Nat) : Src Nat :=
  { version := 1, prev := prev, merkle := nonce, time := nonce, bits := 486604799, nonce := nonce }

/-- the row `Add` stores for `exSrc prev (hash - 1)` -/
def exRow (id hash prev height : Nat) (st : St) : Row Nat :=
  { id := id, hash := hash, prev := prev, merkle := hash - 1, height := height, version := 1, time := hash - 1,
    bits := 486604799, nonce := hash - 1, work := 4295032833, cum := (height + 1) * 4295032833, st := st }

def exRoot : Row Nat :=
  { id := 0, hash := 1000, prev := 0, merkle := 0, height := 0, version := 1, time := 0, bits := 486604799,
    nonce := 999, work := 4295032833, cum := 4295032833, st := .lc }

def r2 : Row Nat := exRow 1 2 1000 1 .stale     -- child of the root, lost the tie: stale branch …
def r3 : Row Nat := exRow 2 3 1000 1 .lc        -- its sibling (fork), on the longest chain
def r4 : Row Nat := exRow 3 4 3 2 .lc           -- the tip
def r5 : Row Nat := { exRow 4 5 777 1 .orphan with cum := 4295032833 }   -- unknown parent: orphan branch …
def r6 : Row Nat := exRow 5 6 2 2 .stale        -- … leaf of the stale branch
def r7 : Row Nat := { exRow 6 7 5 2 .orphan with cum := 2 * 4295032833 } -- … leaf of the orphan branch

def exStore : Store Nat := [exRoot, r2, r3, r4, r5, r6, r7]

def exHist : List (Src Nat) := [exSrc 1000 1, exSrc 1000 2, exSrc 3 3, exSrc 777 4, exSrc 2 5, exSrc 5 6]

/-- the example store is what ingestion produces -/
theorem exStore_eq : run exCfg [exRoot] exHist = exStore := by decide

theorem exInv : Inv exCfg exStore := by decide

/-- K-C04-late-parent-orphan: `o1` arrives before its parent `x` (hash 77) and stays an orphan at height 1;
    `o2` is its child; `x` and `y` then extend the longest chain -/
def cexHist : List (Src Nat) := [exSrc 77 4, exSrc 5 5, exSrc 1000 76, exSrc 77 7]

def o1 : Row Nat := { exRow 1 5 77 1 .orphan with cum := 4295032833 }
def o2 : Row Nat := { exRow 2 6 5 2 .orphan with cum := 2 * 4295032833 }
def x77 : Row Nat := exRow 3 77 1000 1 .lc
def y8 : Row Nat := exRow 4 8 77 2 .lc

def cexStore : Store Nat := [exRoot, o1, o2, x77, y8]

theorem cexStore_eq : run exCfg [exRoot] cexHist = cexStore := by decide

/-! ### `Anc` and the parent walk -/

/-- for connected rows of a well-formed store the inductive ancestor relation is membership in the parent walk -/
theorem C04_anc_iff_chainTo (cfg : Cfg H) (s : Store H) (hw : WF cfg s) (a r : Row H) (hr : r ∈ s)
    (hc : connected r) : Anc s a r ↔ a ∈ chainTo s r := by
  constructor
  · intro h
    revert hc hr
    induction h with
    | refl hr' => intro hr _; exact hw.chainTo_self hr
    | @step p r _ hpr ih =>
      intro hr hc
      obtain ⟨hp, _, e⟩ := hpr
      have h0 : r.id ≠ 0 := fun h0 => (hw.root_of_id hr h0).2.2 p hp e
      obtain ⟨q, hq, e1, e2, e3, _, _⟩ := hw.par r hr hc h0
      have : q = p := hw.hash_inj hq hp (e1.trans e.symm)
      subst this
      rw [hw.chainTo_cons hr hq e1 e2 e3]
      exact List.mem_cons_of_mem _ (ih hq e3)
  · revert a
    refine hw.chain_induction (P := fun r => ∀ a, a ∈ chainTo s r → Anc s a r) ?_ ?_ r hr hc
    · intro g hg hg0 a ha
      rw [hw.chainTo_root hg hg0] at ha
      have : a = g := by simpa using ha
      rw [this]; exact Anc.refl hg
    · intro r hr _ _ q hq e1 e2 hqc _ _ ih a ha
      rw [hw.chainTo_cons hr hq e1 e2 hqc] at ha
      rcases List.mem_cons.1 ha with rfl | ha
      · exact Anc.refl hr
      · exact Anc.step (ih a ha) ⟨hq, hr, e1⟩

example : WF exCfg exStore ∧ r6 ∈ exStore ∧ connected r6 ∧ exRoot ∈ chainTo exStore r6 := by decide

theorem linked_iff (s : Store H) : ∀ l : List (Row H), Linked s l ↔ linked s l
  | [] => Iff.rfl
  | [_] => Iff.rfl
  | _ :: y :: l => and_congr Iff.rfl (linked_iff s (y :: l))

/-! ### header / state by hash -/

/-- by-hash returns THE stored row with that hash, and nothing (404) exactly when no stored row has it -/
theorem C04_byhash (s : Store H) (hn : (s.map (·.hash)).Nodup) (h : H) (r : Row H) :
    (byHash s h = some r ↔ r ∈ s ∧ r.hash = h) ∧ (byHash s h = none ↔ ∀ r ∈ s, r.hash ≠ h) :=
  ⟨⟨byHash_some, fun k => byHash_eq_of_mem hn k.1 k.2⟩, byHash_none⟩

example : (exStore.map (·.hash)).Nodup ∧ byHash exStore 6 = some r6 ∧ byHash exStore 777 = none := by decide

/-! ### by height -/

/-- by-height returns exactly the stored rows of the window (in storage order): only headers of the window, and
    every one of them — in particular every longest-chain one -/
theorem C04_byheight (s : Store H) (lo hi : Int) (r : Row H) :
    (r ∈ byHeightRange s lo hi ↔ r ∈ s ∧ lo ≤ (r.height : Int) ∧ (r.height : Int) ≤ hi) ∧
      (byHeightRange s lo hi).Sublist s :=
  ⟨mem_byHeightRange, List.filter_sublist⟩

example : byHeightRange exStore 1 1 = [r2, r3, r5] ∧ byHeightRange exStore (-3) 0 = [exRoot] := by decide

/-- every height of the window up to the tip is answered with its longest-chain header -/
theorem C04_byheight_lc (cfg : Cfg H) (s : Store H) (h : Inv cfg s) (t : Row H) (ht : getTip s = some t)
    (lo hi : Int) (k : Nat) (h1 : lo ≤ (k : Int)) (h2 : (k : Int) ≤ hi) (h3 : k ≤ t.height) :
    ∃ r ∈ byHeightRange s lo hi, r.st = .lc ∧ r.height = k := by
  obtain ⟨hw, t', ht', hl⟩ := h
  have e := hl.getTip ht'
  rw [ht] at e
  have : t = t' := Option.some.inj e
  subst this
  obtain ⟨a, ha, hal, hak⟩ := hw.lc_contiguous hl.par ht' hl.lc h3
  exact ⟨a, mem_byHeightRange.2 ⟨ha, by omega, by omega⟩, hal, hak⟩

example : Inv exCfg exStore ∧ getTip exStore = some r4 ∧ ((0 : Int) ≤ (1 : Nat)) ∧ (((1 : Nat) : Int) ≤ 5) ∧
    1 ≤ r4.height := ⟨exInv, by decide, by decide, by decide, by decide⟩

/-! ### tips and tip/longest -/

/-- tip/longest returns the best header: the connected header with the greatest cumulative work, earliest among equals -/
theorem C04_tip_longest (cfg : Cfg H) (s : Store H) (h : Inv cfg s) : ∃ t, getTip s = some t ∧ IsBest s t := by
  obtain ⟨t, _, e, hb, _⟩ := canon_of_inv h
  exact ⟨t, e, hb⟩

example : Inv exCfg exStore ∧ getTip exStore = some r4 := ⟨exInv, by decide⟩

/-- tips returns the longest tip plus every row off the longest chain that is nobody's off-chain parent -/
theorem C04_tips (cfg : Cfg H) (s : Store H) (h : Inv cfg s) :
    ∃ t, getTip s = some t ∧ ∀ r, r ∈ allTips s ↔
      r = t ∨ (r ∈ s ∧ r.st ≠ .lc ∧ ¬ ∃ c ∈ s, c.st ≠ .lc ∧ c.prev = r.hash) := by
  obtain ⟨_, t, ht, hl⟩ := h
  exact ⟨t, hl.getTip ht, fun r => mem_allTips (lcAsc_getLast ht hl)⟩

/-- under the invariant a row off the longest chain never has a longest-chain child, so "no off-chain child" is
    "no stored child": tips returns the longest tip plus every LEAF of a stale or orphan branch -/
theorem C04_tips_leaf (cfg : Cfg H) (s : Store H) (h : Inv cfg s) :
    ∃ t, getTip s = some t ∧ ∀ r, r ∈ allTips s ↔ r = t ∨ (r.st ≠ .lc ∧ Leaf s r) := by
  obtain ⟨t, e, k⟩ := C04_tips cfg s h
  obtain ⟨hw, t', _, hl⟩ := h
  refine ⟨t, e, fun r => (k r).trans (or_congr Iff.rfl ?_)⟩
  constructor
  · rintro ⟨hr, hst, hno⟩
    refine ⟨hst, hr, ?_⟩
    intro c hc hcp
    exact hno ⟨c, hc, nonlc_child_nonlc hw hl hr hc hst hcp, hcp⟩
  · rintro ⟨hst, hr, hno⟩
    refine ⟨hr, hst, ?_⟩
    rintro ⟨c, hc, _, hcp⟩
    exact hno c hc hcp

example : Inv exCfg exStore ∧ allTips exStore = [r4, r6, r7] ∧ Leaf exStore r6 ∧ Leaf exStore r7 ∧
    ¬ Leaf exStore r5 ∧ ¬ Leaf exStore r2 := ⟨exInv, by decide, by decide, by decide, by decide, by decide⟩

/-! ### ancestors -/

/-- an unknown hash (either argument) is answered with the not-found error -/
theorem C04_ancestors_notfound (s : Store H) (hash anc : H)
    (h : (∀ r ∈ s, r.hash ≠ hash) ∨ (∀ r ∈ s, r.hash ≠ anc)) : ancestors s hash anc = .error .notFound :=
  ancestors_notFound (h.imp byHash_none.2 byHash_none.2)

example : ∀ r ∈ exStore, r.hash ≠ 777 := by decide

/-- FULL STATEMENT (false on the unchanged code for ORPHAN `r`, see `C04_ancestors_counterexample`):
      ∀ r a ∈ s,  (a = r → ancestors s r.hash a.hash = .ok []) ∧
                  (Anc s a r → a ≠ r → ancestors s r.hash a.hash = .ok (the parent-linked path from r down to a)) ∧
                  (¬ Anc s a r → ancestors s r.hash a.hash is a same-chain error)
    proved for connected `r` (`a` is ANY stored row):
    * `a = r`: the (empty) answer of the repaired code;
    * `a` a proper ancestor: the answer is `pathDown s r a`, the prefix of the parent walk from `r` down to `a`
      inclusive; it starts with `r`, ends with `a`, consecutive rows are child and parent, and it holds exactly the
      rows that descend from `a` and are ancestors of `r`;
    * otherwise (another branch, a descendant, an orphan): `ancestorHigher` when `a` is higher, else `notSameChain` —
      never `.ok`. -/
theorem C04_ancestors_partial (cfg : Cfg H) (s : Store H) (hw : WF cfg s) (r a : Row H) (hr : r ∈ s) (ha : a ∈ s)
    (hc : connected r) :
    (a = r → ancestors s r.hash a.hash = .ok []) ∧
    (Anc s a r → a ≠ r →
      ancestors s r.hash a.hash = .ok (pathDown s r a) ∧
      (pathDown s r a).head? = some r ∧ (pathDown s r a).getLast? = some a ∧ Linked s (pathDown s r a) ∧
      ∀ x, x ∈ pathDown s r a ↔ Anc s a x ∧ Anc s x r) ∧
    (¬ Anc s a r → ancestors s r.hash a.hash =
      .error (if r.height < a.height then AncErr.ancestorHigher else AncErr.notSameChain)) := by
  have bridge := fun a' => C04_anc_iff_chainTo cfg s hw a' r hr hc
  refine ⟨?_, ?_, ?_⟩
  · intro e; rw [e]; exact ancestors_self hw.nodup hr
  · intro hanc hne
    have hmem := (bridge a).1 hanc
    refine ⟨ancestors_path hw hr hc hmem hne, segment_head hw hr ha, segment_getLast,
      (linked_iff s _).2 (segment_linked hw hr hc hmem), ?_⟩
    intro x
    show x ∈ segment s r a ↔ _
    rw [mem_segment hw hr hc hmem]
    constructor
    · rintro ⟨hx, hle⟩
      have hxc := (hw.chainTo_le r hr hc x hx).1
      exact ⟨(C04_anc_iff_chainTo cfg s hw a x (chainTo_mem hx) hxc).2 (chainTo_of_le hw hr hc hx hmem hle),
        (bridge x).2 hx⟩
    · rintro ⟨hax, hxr⟩
      have hx := (bridge x).1 hxr
      have hxc := (hw.chainTo_le r hr hc x hx).1
      have := (C04_anc_iff_chainTo cfg s hw a x (chainTo_mem hx) hxc).1 hax
      exact ⟨hx, (hw.chainTo_le x (chainTo_mem hx) hxc a this).2⟩
  · intro hn
    exact ancestors_error hw hr ha hc (fun k => hn ((bridge a).2 k))

/-- non-vacuity: a proper ancestor (root of the stale leaf `r6`, path `[r6, r2, root]`), another branch (`r4`, same
    height → notSameChain), a higher row of another branch, and `a = r` -/
example : WF exCfg exStore ∧ r6 ∈ exStore ∧ exRoot ∈ exStore ∧ connected r6 ∧ Anc exStore exRoot r6 ∧ exRoot ≠ r6 ∧
    ancestors exStore r6.hash exRoot.hash = .ok [r6, r2, exRoot] :=
  ⟨by decide, by decide, by decide, by decide,
    .step (.step (.refl (by decide)) (by decide : IsParent exStore exRoot r2)) (by decide : IsParent exStore r2 r6),
    by decide, by decide⟩

example : r4 ∈ exStore ∧ ¬ Anc exStore r4 r6 ∧ ancestors exStore r6.hash r4.hash = .error .notSameChain ∧
    ¬ Anc exStore r6 r3 ∧ ancestors exStore r3.hash r6.hash = .error .ancestorHigher ∧
    ancestors exStore r6.hash r6.hash = .ok [] :=
  ⟨by decide,
    fun k => absurd ((C04_anc_iff_chainTo exCfg exStore exInv.1 r4 r6 (by decide) (by decide)).1 k) (by decide),
    by decide,
    fun k => absurd ((C04_anc_iff_chainTo exCfg exStore exInv.1 r6 r3 (by decide) (by decide)).1 k) (by decide),
    by decide, by decide⟩

/-- the full statement fails on the unchanged code (K-C04-late-parent-orphan): in the reachable store `cexStore`
    the header `x77` is the stored parent of the orphan `o1` (which arrived first), yet Ancestors(o1, x77) is the
    same-chain error instead of the path `[o1, x77]` -/
theorem C04_ancestors_counterexample :
    Inv exCfg cexStore ∧ o1 ∈ cexStore ∧ x77 ∈ cexStore ∧ Anc cexStore x77 o1 ∧ x77 ≠ o1 ∧
      ancestors cexStore o1.hash x77.hash = .error .notSameChain :=
  ⟨by decide, by decide, by decide, .step (.refl (by decide)) (by decide : IsParent cexStore x77 o1), by decide,
    by decide⟩

/-! ### common ancestor -/

/-- an empty request list: the handler indexes `headers[0]` (500 — C16's concern) -/
theorem C04_common_empty (s : Store H) : commonAncestor s [] = .panicEmpty := commonAncestor_nil s

/-- an unknown hash is answered with not-found -/
theorem C04_common_unknown (s : Store H) (hashes : List H) (h : H) (hh : h ∈ hashes) (hn : ∀ r ∈ s, r.hash ≠ h) :
    commonAncestor s hashes = .notFound :=
  commonAncestor_unknown hh (byHash_none.2 hn)

example : (777 : Nat) ∈ [6, 777] ∧ ∀ r ∈ exStore, r.hash ≠ 777 := by decide

/-- a request that contains a header of height 0 (the root): `return nil, nil` (the handler dereferences it — C16) -/
theorem C04_common_height0 (s : Store H) (hn : (s.map (·.hash)).Nodup) (rows : List (Row H))
    (hrows : ∀ r ∈ rows, r ∈ s) (r0 : Row H) (hr0 : r0 ∈ rows) (h0 : r0.height = 0) :
    commonAncestor s (rows.map (·.hash)) = .nilResult :=
  commonAncestor_zero hn hrows hr0 h0

example : (exStore.map (·.hash)).Nodup ∧ (∀ r ∈ [r6, exRoot], r ∈ exStore) ∧ exRoot ∈ [r6, exRoot] ∧
    exRoot.height = 0 := by decide

/-- FULL STATEMENT (false on the unchanged code when a requested row is a late-parent ORPHAN, see
    `C04_common_counterexample`): for stored rows `rows` (non-empty) with lowest height `m ≥ 1` that have a common
    ancestor below `m`, `commonAncestor s (rows.map (·.hash)) = .found c` with `c` the highest such.
    Proved for connected rows, where the root is always such an ancestor, so the answer is never
    `.notFound`/`.nilResult`. `m` is the lowest requested height; `hcap` is the range of Go's int32 start value. -/
theorem C04_common_partial (cfg : Cfg H) (s : Store H) (hw : WF cfg s) (rows : List (Row H))
    (hrows : ∀ r ∈ rows, r ∈ s ∧ connected r) (m : Nat) (hm1 : 1 ≤ m)
    (hle : ∀ r ∈ rows, m ≤ r.height) (hat : ∃ r ∈ rows, r.height = m) (hcap : m ≤ 2147483647) :
    ∃ c, commonAncestor s (rows.map (·.hash)) = .found c ∧ (∀ r ∈ rows, Anc s c r) ∧ c.height < m ∧
      ∀ c', (∀ r ∈ rows, Anc s c' r) → c'.height < m → c'.height ≤ c.height := by
  obtain ⟨c, e, h1, h2, h3⟩ := commonAncestor_spec hw rows hrows m hm1 hle hat hcap
  have bridge := fun (a r : Row H) (hr : r ∈ rows) =>
    C04_anc_iff_chainTo cfg s hw a r (hrows r hr).1 (hrows r hr).2
  refine ⟨c, e, fun r hr => (bridge c r hr).2 (h1 r hr), h2, ?_⟩
  intro c' hc' hlt
  exact h3 c' (fun r hr => (bridge c' r hr).1 (hc' r hr)) hlt

/-- non-vacuity: the tip and the stale leaf (both at height 2) meet in the root; the stale leaf and its parent
    (lowest height 1) too -/
example : WF exCfg exStore ∧ (∀ r ∈ [r4, r6], r ∈ exStore ∧ connected r) ∧ (∀ r ∈ [r4, r6], 2 ≤ r.height) ∧
    (∃ r ∈ [r4, r6], r.height = 2) ∧ commonAncestor exStore [4, 6] = .found exRoot ∧
    commonAncestor exStore [6, 2] = .found exRoot ∧ commonAncestor exStore [6] = .found r2 := by decide

/-- the full statement fails on the unchanged code (K-C04-late-parent-orphan): `x77` is an ancestor of both the
    orphan `o2` (via `o1`, whose parent `x77` arrived later) and of `y8`, it lies below their lowest height 2, yet
    the answer is not-found -/
theorem C04_common_counterexample :
    Inv exCfg cexStore ∧ o2 ∈ cexStore ∧ y8 ∈ cexStore ∧ Anc cexStore x77 o2 ∧ Anc cexStore x77 y8 ∧
      o2.height = 2 ∧ y8.height = 2 ∧ x77.height < 2 ∧ commonAncestor cexStore [o2.hash, y8.hash] = .notFound :=
  ⟨by decide, by decide, by decide,
    .step (.step (.refl (by decide)) (by decide : IsParent cexStore x77 o1)) (by decide : IsParent cexStore o1 o2),
    .step (.refl (by decide)) (by decide : IsParent cexStore x77 y8), by decide, by decide, by decide, by decide⟩

/-! ### reads never modify the store

Every query above has type `Store H → … → answer`: it cannot change its argument, and `add`/`applyWrites`
(`BHS/Model/Chain.lean`) are the only functions that return a store. What can be STATED is that the driver-level
read operations, through which the model is compared with the implementation, hand back the state they were
given — see `C04_reads_pure`. -/

/-- the first words of the driver's chain read operations (Driver/Ops/Chain.lean) -/
def readOps : List String := ["tip", "state", "byheight", "tips", "ancestors", "common"]

/-- whatever a read operation answers, the model state (store and configuration) after it is the state before it -/
theorem C04_reads_pure (ck : Driver.Ops.Chain.Checks) (st st' : Driver.Ops.Chain.S) (w : String) (args : List String)
    (out : String) (hw : w ∈ readOps) (h : Driver.Ops.Chain.handleWith ck st (w :: args) = some (st', out)) : st' = st := by
  simp only [readOps, List.mem_cons, List.not_mem_nil, or_false] at hw
  unfold Driver.Ops.Chain.handleWith at h
  split at h
  all_goals first
    | (rename_i heq; simp only [List.cons.injEq] at heq; obtain ⟨rfl, _⟩ := heq; simp at hw; done)
    | ((repeat' split at h) <;> (simp only [Option.some.injEq, Prod.mk.injEq] at h; exact h.1.symm))
    | simp at h

/-- non-vacuity: every read operation is answered (with the unchanged state) in every state -/
example (ck : Driver.Ops.Chain.Checks) (st : Driver.Ops.Chain.S) : ∃ out, Driver.Ops.Chain.handleWith ck st ["tip"] = some (st, out) := ⟨_, rfl⟩
example (ck : Driver.Ops.Chain.Checks) (st : Driver.Ops.Chain.S) (h : String) : ∃ out, Driver.Ops.Chain.handleWith ck st ["state", h] = some (st, out) :=
  ⟨_, rfl⟩
example (ck : Driver.Ops.Chain.Checks) (st : Driver.Ops.Chain.S) : ∃ out, Driver.Ops.Chain.handleWith ck st ["tips"] = some (st, out) := ⟨_, rfl⟩
example (ck : Driver.Ops.Chain.Checks) (st : Driver.Ops.Chain.S) (a b : String) :
    ∃ out, Driver.Ops.Chain.handleWith ck st ["byheight", a, b] = some (st, out) := by
  simp only [Driver.Ops.Chain.handleWith]; split <;> exact ⟨_, rfl⟩
example (ck : Driver.Ops.Chain.Checks) (st : Driver.Ops.Chain.S) (a b : String) :
    ∃ out, Driver.Ops.Chain.handleWith ck st ["ancestors", a, b] = some (st, out) := by
  simp only [Driver.Ops.Chain.handleWith]; split <;> exact ⟨_, rfl⟩
example (ck : Driver.Ops.Chain.Checks) (st : Driver.Ops.Chain.S) (hs : List String) :
    ∃ out, Driver.Ops.Chain.handleWith ck st ("common" :: hs) = some (st, out) := by
  simp only [Driver.Ops.Chain.handleWith]; split <;> exact ⟨_, rfl⟩

/-! ### for every store reachable by ingestion
The theorems above restated for `run cfg [g] hist` — the store after ANY ingestion history (reorganisations, stale
blocks, orphans, duplicates, forbidden and zero-work headers) from a root row `g`; the chain invariant comes from
`C01_canonical`, so no `Inv` / `WF` / `Nodup` hypothesis is left. -/
section Reachable
open BHS.Props.C01 (IsRoot HashAvoids C01_canonical)

theorem C04_anc_iff_chainTo_reachable (cfg : Cfg H) (g : Row H) (hg : IsRoot g) (hz : HashAvoids cfg g.prev)
    (hist : List (Src H)) (a r : Row H) (hr : r ∈ run cfg [g] hist) (hc : connected r) :
    Anc (run cfg [g] hist) a r ↔ a ∈ chainTo (run cfg [g] hist) r :=
  C04_anc_iff_chainTo cfg _ (C01_canonical cfg g hg hz hist).1.1 a r hr hc

theorem C04_byhash_reachable (cfg : Cfg H) (g : Row H) (hg : IsRoot g) (hz : HashAvoids cfg g.prev)
    (hist : List (Src H)) (h : H) (r : Row H) :
    (byHash (run cfg [g] hist) h = some r ↔ r ∈ run cfg [g] hist ∧ r.hash = h) ∧
      (byHash (run cfg [g] hist) h = none ↔ ∀ r ∈ run cfg [g] hist, r.hash ≠ h) :=
  C04_byhash _ (C01_canonical cfg g hg hz hist).1.1.nodup h r

theorem C04_byheight_lc_reachable (cfg : Cfg H) (g : Row H) (hg : IsRoot g) (hz : HashAvoids cfg g.prev)
    (hist : List (Src H)) (t : Row H) (ht : getTip (run cfg [g] hist) = some t)
    (lo hi : Int) (k : Nat) (h1 : lo ≤ (k : Int)) (h2 : (k : Int) ≤ hi) (h3 : k ≤ t.height) :
    ∃ r ∈ byHeightRange (run cfg [g] hist) lo hi, r.st = .lc ∧ r.height = k :=
  C04_byheight_lc cfg _ (C01_canonical cfg g hg hz hist).1 t ht lo hi k h1 h2 h3

theorem C04_tip_longest_reachable (cfg : Cfg H) (g : Row H) (hg : IsRoot g) (hz : HashAvoids cfg g.prev)
    (hist : List (Src H)) : ∃ t, getTip (run cfg [g] hist) = some t ∧ IsBest (run cfg [g] hist) t :=
  C04_tip_longest cfg _ (C01_canonical cfg g hg hz hist).1

theorem C04_tips_reachable (cfg : Cfg H) (g : Row H) (hg : IsRoot g) (hz : HashAvoids cfg g.prev)
    (hist : List (Src H)) :
    ∃ t, getTip (run cfg [g] hist) = some t ∧ ∀ r, r ∈ allTips (run cfg [g] hist) ↔
      r = t ∨ (r ∈ run cfg [g] hist ∧ r.st ≠ .lc ∧ ¬ ∃ c ∈ run cfg [g] hist, c.st ≠ .lc ∧ c.prev = r.hash) :=
  C04_tips cfg _ (C01_canonical cfg g hg hz hist).1

theorem C04_tips_leaf_reachable (cfg : Cfg H) (g : Row H) (hg : IsRoot g) (hz : HashAvoids cfg g.prev)
    (hist : List (Src H)) :
    ∃ t, getTip (run cfg [g] hist) = some t ∧ ∀ r, r ∈ allTips (run cfg [g] hist) ↔
      r = t ∨ (r.st ≠ .lc ∧ Leaf (run cfg [g] hist) r) :=
  C04_tips_leaf cfg _ (C01_canonical cfg g hg hz hist).1

/-- (connected `r` only: the full statement fails for late-parent orphans, `C04_ancestors_counterexample`, whose
    store `cexStore` IS reachable: `cexStore_eq`) -/
theorem C04_ancestors_partial_reachable (cfg : Cfg H) (g : Row H) (hg : IsRoot g) (hz : HashAvoids cfg g.prev)
    (hist : List (Src H)) (r a : Row H) (hr : r ∈ run cfg [g] hist) (ha : a ∈ run cfg [g] hist) (hc : connected r) :
    (a = r → ancestors (run cfg [g] hist) r.hash a.hash = .ok []) ∧
    (Anc (run cfg [g] hist) a r → a ≠ r →
      ancestors (run cfg [g] hist) r.hash a.hash = .ok (pathDown (run cfg [g] hist) r a) ∧
      (pathDown (run cfg [g] hist) r a).head? = some r ∧ (pathDown (run cfg [g] hist) r a).getLast? = some a ∧
      Linked (run cfg [g] hist) (pathDown (run cfg [g] hist) r a) ∧
      ∀ x, x ∈ pathDown (run cfg [g] hist) r a ↔ Anc (run cfg [g] hist) a x ∧ Anc (run cfg [g] hist) x r) ∧
    (¬ Anc (run cfg [g] hist) a r → ancestors (run cfg [g] hist) r.hash a.hash =
      .error (if r.height < a.height then AncErr.ancestorHigher else AncErr.notSameChain)) :=
  C04_ancestors_partial cfg _ (C01_canonical cfg g hg hz hist).1.1 r a hr ha hc

/-- a request that contains the root itself (which every reachable store still holds): `return nil, nil` -/
theorem C04_common_height0_reachable (cfg : Cfg H) (g : Row H) (hg : IsRoot g) (hz : HashAvoids cfg g.prev)
    (hist : List (Src H)) (rows : List (Row H)) (hrows : ∀ r ∈ rows, r ∈ run cfg [g] hist) (hg' : g ∈ rows) :
    commonAncestor (run cfg [g] hist) (rows.map (·.hash)) = .nilResult :=
  C04_common_height0 _ (C01_canonical cfg g hg hz hist).1.1.nodup rows hrows g hg' hg.2.2.1

theorem C04_common_partial_reachable (cfg : Cfg H) (g : Row H) (hg : IsRoot g) (hz : HashAvoids cfg g.prev)
    (hist : List (Src H)) (rows : List (Row H))
    (hrows : ∀ r ∈ rows, r ∈ run cfg [g] hist ∧ connected r) (m : Nat) (hm1 : 1 ≤ m)
    (hle : ∀ r ∈ rows, m ≤ r.height) (hat : ∃ r ∈ rows, r.height = m) (hcap : m ≤ 2147483647) :
    ∃ c, commonAncestor (run cfg [g] hist) (rows.map (·.hash)) = .found c ∧
      (∀ r ∈ rows, Anc (run cfg [g] hist) c r) ∧ c.height < m ∧
      ∀ c', (∀ r ∈ rows, Anc (run cfg [g] hist) c' r) → c'.height < m → c'.height ≤ c.height :=
  C04_common_partial cfg _ (C01_canonical cfg g hg hz hist).1.1 rows hrows m hm1 hle hat hcap

/-- every reachable store still holds its root row -/
theorem C04_root_stored_reachable (cfg : Cfg H) (g : Row H) (hg : IsRoot g) (hz : HashAvoids cfg g.prev)
    (hist : List (Src H)) : g ∈ run cfg [g] hist :=
  (WF.run hg.1 hz hist (C01.C01_inv_init cfg g hg).1 (List.mem_singleton.2 rfl)).2

theorem exAvoids : HashAvoids exCfg exRoot.prev := fun x => Nat.succ_ne_zero x.nonce

/-- non-vacuity on the seven-row history of this file (fork, stale branch, orphan branch) -/
example : IsRoot exRoot ∧ HashAvoids exCfg exRoot.prev ∧ allTips (run exCfg [exRoot] exHist) = [r4, r6, r7] ∧
    (∃ t, getTip (run exCfg [exRoot] exHist) = some t ∧ ∀ r, r ∈ allTips (run exCfg [exRoot] exHist) ↔
      r = t ∨ (r.st ≠ .lc ∧ Leaf (run exCfg [exRoot] exHist) r)) :=
  ⟨by decide, exAvoids, by decide, C04_tips_leaf_reachable exCfg exRoot (by decide) exAvoids exHist⟩

/-- … and for the walks: the stale leaf `r6` is a connected row of the reached store, the root a proper ancestor -/
example : r6 ∈ run exCfg [exRoot] exHist ∧ exRoot ∈ run exCfg [exRoot] exHist ∧ connected r6 ∧
    ancestors (run exCfg [exRoot] exHist) r6.hash exRoot.hash = .ok [r6, r2, exRoot] ∧
    commonAncestor (run exCfg [exRoot] exHist) [4, 6] = .found exRoot := by decide

end Reachable

end BHS.Props.C04
