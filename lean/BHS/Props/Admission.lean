/-
Admission bookkeeping (C18, part 1): the REGENERATED handlers refine the hand model.

`BHS.Gen.Admission` is produced on every run by harness/cmd/extract/gen_admission.go from
/repo/transports/p2p/server.go (`handleAddPeerMsg`, `handleDonePeerMsg`, `handleBanPeerMsg`) and
/repo/transports/p2p/peerstate.go (`Count`, `CountIP`): a statement-by-statement translation (subset,
primitive table, skip and record lists in the header of the translator). The theorems below say that,
for EVERY state, configuration and peer, the translated handlers compute the next state and the answer of
the hand-model step functions of `BHS.Model.Peers`. Hence every C18 theorem about `addPeer` / `donePeer` /
`banHost` / `run` is a theorem about what the Go source says now; the headline ones are re-stated over
the generated definitions at the end. An edit of one of the Go functions changes `Gen/Admission.lean`
and re-opens these obligations.

Parameters of the generated handlers (as in the hand model): `addr_ : Option Nat` is the result of
`net.SplitHostPort(sp.Addr())` (`some host` / `none` = error). The hand model's `Peer` carries the host of
an address that splits (`p.host`); `addBad` is the add of a peer whose address does not.
-/
import BHS.Gen.Admission
import BHS.Props.C18

namespace BHS.Props.Admission
open BHS BHS.Model.Peers BHS.Gen.Admission

/-- what Go's `handleAddPeerMsg` answers for a hand-model result: `true` exactly for `admitted`. -/
def answer (r : AddResult) : Bool := decide (r = .admitted)

/-- `delete(state.banned, host)` of an absent entry changes nothing (the hand model deletes unconditionally,
the code only inside `if banEnd, ok := state.banned[host]; ok`). -/
theorem clearBan_absent (s : State) (h : Nat) (hb : s.banned h = none) : clearBan s h = s := by
  have : upd s.banned h none = s.banned := by
    funext x
    unfold upd
    split
    · next e => rw [e, hb]
    · rfl
  unfold clearBan
  rw [this]

/-! ## Refinement -/

/-- `peerState.Count()` is the model's `count` (as a Go `int`). -/
theorem peerState_Count_eq (s : State) : peerState_Count s = (count s : Int) := by
  unfold peerState_Count count
  simp only [Int.ofNat_eq_natCast]
  omega

/-- `peerState.CountIP(host)` reads `connectionCount[host]`. -/
theorem peerState_CountIP_eq (s : State) (h : Nat) : peerState_CountIP s h = s.conn h := rfl

set_option linter.unusedSimpArgs false in
/-- **`handleAddPeerMsg` = `addPeer`** (address splits): same next state; the Go result is `true` exactly when
the model admits; `sp.Disconnect()` is called exactly once when it does not and never when it does.

(Proof: split on everything the model looks at — both limit tests in `≤` and in `<` form, so that a comparison
written the other way round in Go is still recognised —, then both sides compute.) -/
theorem handleAddPeerMsg_refines (c : Cfg) (s : State) (p : Peer) :
    handleAddPeerMsg c s p (some p.host) =
      ((addPeer c s p).1, answer (addPeer c s p).2, if (addPeer c s p).2 = .admitted then 0 else 1) := by
  unfold handleAddPeerMsg
  simp only [peerState_Count_eq, peerState_CountIP_eq]
  by_cases h1 : (c.maxPerIP : Int) ≤ s.conn p.host <;>
  by_cases h2 : c.maxPeers ≤ s.inb.length + s.outb.length + s.pers.length
  all_goals
    have h1' : (s.conn p.host < (c.maxPerIP : Int)) ↔ ¬ ((c.maxPerIP : Int) ≤ s.conn p.host) := by omega
    have h2i : ((c.maxPeers : Int) ≤ (s.inb.length : Int) + s.outb.length + s.pers.length) ↔
        c.maxPeers ≤ s.inb.length + s.outb.length + s.pers.length := by omega
    have h2' : ((s.inb.length : Int) + s.outb.length + s.pers.length < (c.maxPeers : Int)) ↔
        ¬ (c.maxPeers ≤ s.inb.length + s.outb.length + s.pers.length) := by omega
    simp only [h1, h2, not_true_eq_false, not_false_eq_true, iff_true, iff_false] at h1' h2i h2'
    cases hs : s.shutdown <;> cases hk : p.kind <;> cases hb : s.banned p.host
    all_goals first
      | (have hc := clearBan_absent s p.host hb
         simp [addPeer, banActive, answer, shutdownFlag, count, admitPeer, hc, hs, hb, hk, h1, h2, h1', h2i, h2']
         done)
      | (rename_i e
         by_cases hn : s.now < e <;>
           simp [addPeer, banActive, answer, shutdownFlag, clearBan, count, admitPeer, hs, hb, hk, hn, h1, h2, h1', h2i, h2']
         done)

/-- **`handleAddPeerMsg` = `addBad`** (`net.SplitHostPort(sp.Addr())` fails), for every peer: the state is
untouched, the peer refused and disconnected. -/
theorem handleAddPeerMsg_badaddr (c : Cfg) (s : State) (p : Peer) :
    handleAddPeerMsg c s p none = ((addBad s).1, answer (addBad s).2, 1) ∧ answer (addBad s).2 = false := by
  unfold handleAddPeerMsg addBad answer shutdownFlag
  cases hs : s.shutdown <;> simp

/-- **`handleDonePeerMsg` = `donePeer`** (the `peerState` part; address splits — `handleAddPeerMsg` admits no
other peer, see `handleDonePeerMsg_absent` for the rest). -/
theorem handleDonePeerMsg_refines (s : State) (p : Peer) :
    handleDonePeerMsg s p (some p.host) = donePeer s p := by
  unfold handleDonePeerMsg donePeer
  cases hk : p.kind <;> cases hv : p.vk <;> simp only [listOf] <;>
    (split <;> simp_all [decGroup])

/-- a peer that is in none of the maps (every peer whose address does not split: it was refused by
`handleAddPeerMsg_badaddr`) leaves the state untouched, whatever `SplitHostPort` answers. -/
theorem handleDonePeerMsg_absent (s : State) (p : Peer) (a : Option Nat)
    (h : has (listOf s p.kind) p.id = false) : handleDonePeerMsg s p a = s := by
  unfold handleDonePeerMsg
  cases hk : p.kind <;> simp_all [listOf]

/-- **`handleBanPeerMsg` = `banHost`** (for every peer object `q` of that host); an address that does not split
bans nobody. -/
theorem handleBanPeerMsg_refines (c : Cfg) (s : State) (q : Peer) (h : Nat) :
    handleBanPeerMsg c s q (some h) = banHost c s h ∧ handleBanPeerMsg c s q none = s :=
  ⟨rfl, rfl⟩

/-! ## The event machine over the generated handlers -/

/-- some peer object for the events that carry none (`addBad`: its fields are never read, see
`handleAddPeerMsg_badaddr`; `ban`: `handleBanPeerMsg` reads only the address). -/
def nobody : Peer := { id := 0, kind := .inbound, host := 0, group := 0, vk := false }

/-- `BHS.Model.Peers.step` with the three handlers replaced by the generated ones (`clock` and `shutdown`
are the environment: the wall clock and `Stop`'s flag). The answer is Go's `bool`. -/
def genStep (c : Cfg) (s : State) : Event → State × Option Bool
  | .add p => ((handleAddPeerMsg c s p (some p.host)).1, some (handleAddPeerMsg c s p (some p.host)).2.1)
  | .addBad => ((handleAddPeerMsg c s nobody none).1, some (handleAddPeerMsg c s nobody none).2.1)
  | .done p => (handleDonePeerMsg s p (some p.host), none)
  | .ban h => (handleBanPeerMsg c s nobody (some h), none)
  | .clock dt => ({ s with now := s.now + dt }, none)
  | .shutdown => ({ s with shutdown := true }, none)

def genRun (c : Cfg) (s : State) (evs : List Event) : State := evs.foldl (fun s e => (genStep c s e).1) s

/-- **every step of the generated machine is the hand model's step** (next state and answer). -/
theorem genStep_eq_step (c : Cfg) (s : State) (e : Event) :
    genStep c s e = ((step c s e).1, (step c s e).2.map answer) := by
  cases e with
  | add p => simp [genStep, step, handleAddPeerMsg_refines]
  | addBad => simp [genStep, step, (handleAddPeerMsg_badaddr c s nobody).1]
  | done p => simp [genStep, step, handleDonePeerMsg_refines]
  | ban h => simp [genStep, step, (handleBanPeerMsg_refines c s nobody h).1]
  | clock dt => rfl
  | shutdown => rfl

/-- **every run of the generated machine is the hand model's run.** -/
theorem genRun_eq_run (c : Cfg) (s : State) (evs : List Event) : genRun c s evs = run c s evs := by
  induction evs generalizing s with
  | nil => rfl
  | cons e es ih =>
    show genRun c (genStep c s e).1 es = run c (step c s e).1 es
    rw [genStep_eq_step, ih]

/-! ## C18 headlines over the generated handlers -/
open BHS.Props.C18

/-- **C18 limits and counters, for the regenerated code** (`C18_limits` through the refinement; the
assumption is the history-only `ValidH`: fresh ids, outbound peers added with their version known,
`done` carries the peer that was added). -/
theorem C18_limits_generated (c : Cfg) (evs : List Event) (hv : ValidH [] evs) :
    count (genRun c init evs) ≤ c.maxPeers ∧
    (∀ h, hostCount (genRun c init evs) h ≤ c.maxPerIP) ∧
    (∀ h, (genRun c init evs).conn h = (hostCount (genRun c init evs) h : Int)) ∧
    (∀ g, (genRun c init evs).groups g = (groupCount (genRun c init evs) g : Int)) := by
  rw [genRun_eq_run]
  exact C18_limits c evs (C18_valid_of_history c evs hv)

/-- the same without any assumption on the history (`C18_limits_any_history`). -/
theorem C18_limits_any_history_generated (c : Cfg) (evs : List Event) :
    count (genRun c init evs) ≤ c.maxPeers ∧ ∀ h, (genRun c init evs).conn h ≤ (c.maxPerIP : Int) := by
  rw [genRun_eq_run]
  exact C18_limits_any_history c evs

/-- **counters return to zero, for the regenerated code** (`C18_counters_return_to_zero`). -/
theorem C18_counters_return_to_zero_generated (c : Cfg) (evs : List Event) (hv : ValidH [] evs) :
    (∀ h, (∀ p ∈ (genRun c init evs).inb ++ (genRun c init evs).outb, p.host ≠ h) → (genRun c init evs).conn h = 0) ∧
    (∀ g, (∀ p ∈ (genRun c init evs).outb ++ (genRun c init evs).pers, p.group ≠ g) → (genRun c init evs).groups g = 0) := by
  rw [genRun_eq_run]
  exact C18_counters_return_to_zero c evs (C18_valid_of_history c evs hv)

/-- **limits never wedge admission, for the regenerated code** (`C18_admission_exact`): Go's
`handleAddPeerMsg` returns `true` exactly when the server runs, the host is not under an active ban and
both limits have room. -/
theorem C18_admission_exact_generated (c : Cfg) (evs : List Event) (hv : ValidH [] evs) (p : Peer) :
    (handleAddPeerMsg c (genRun c init evs) p (some p.host)).2.1 = true ↔
      ((genRun c init evs).shutdown = false ∧ banActive (genRun c init evs) p.host = false ∧
       hostCount (genRun c init evs) p.host < c.maxPerIP ∧ count (genRun c init evs) < c.maxPeers) := by
  rw [genRun_eq_run, handleAddPeerMsg_refines, ← C18_admission_exact c evs (C18_valid_of_history c evs hv) p]
  simp [answer]

/-- **no admission during a ban, for the regenerated code** (`C18_ban`): while the end of the latest ban of
the host (computed from the history alone) is in the future, `handleAddPeerMsg` answers `false`, disconnects
the peer and leaves the state untouched. -/
theorem C18_ban_generated (c : Cfg) (evs : List Event) (p : Peer) (e : Nat)
    (hban : (ghost c evs).banEnd p.host = some e) (hnow : (ghost c evs).now < e) :
    handleAddPeerMsg c (genRun c init evs) p (some p.host) = (genRun c init evs, false, 1) := by
  have h := C18_ban c evs p e hban hnow
  rw [genRun_eq_run, handleAddPeerMsg_refines, h.2.2]
  simp [answer, h.1]

/-! ### non-vacuity: the generated handlers evaluated on concrete histories -/

private def tc : Cfg := { maxPeers := 3, maxPerIP := 2, banMs := 10 }
private def pI (id host : Nat) : Peer := { id := id, kind := .inbound, host := host, group := 0, vk := true }
private def pO (id host group : Nat) : Peer := { id := id, kind := .outbound, host := host, group := group, vk := true }
private def pP (id host group : Nat) : Peer := { id := id, kind := .persistent, host := host, group := group, vk := true }

private def h1 : List Event := [.add (pI 1 0), .add (pO 2 0 7), .add (pI 3 0), .add (pO 4 1 7), .add (pI 5 2)]
example : ValidH [] h1 := by decide
-- answers of the generated handler along h1: admitted, admitted, per-host refusal, admitted, total refusal
example : (genStep tc (genRun tc init (h1.take 2)) (.add (pI 3 0))).2 = some false := by decide
example : (handleAddPeerMsg tc (genRun tc init (h1.take 2)) (pI 3 0) (some 0)).2 = (false, 1) := by decide
example : (genStep tc (genRun tc init (h1.take 3)) (.add (pO 4 1 7))).2 = some true := by decide
example : (handleAddPeerMsg tc (genRun tc init (h1.take 3)) (pO 4 1 7) (some 1)).2 = (true, 0) := by decide
example : (genRun tc init h1).conn 0 = 2 ∧ (genRun tc init h1).groups 7 = 2 ∧ count (genRun tc init h1) = 3 := by decide
-- everybody leaves: the generated done handler brings the counters back to 0
private def h2 : List Event := h1 ++ [.done (pI 1 0), .done (pO 2 0 7), .done (pO 4 1 7), .done (pI 3 0)]
example : ValidH [] h2 := by decide
example : all (genRun tc init h2) = [] ∧ (genRun tc init h2).conn 0 = 0 ∧ (genRun tc init h2).groups 7 = 0 := by decide
-- ban by the generated handler: refused at +9 ms (state untouched), the expired entry is deleted and the peer admitted at +10 ms
example : (ghost tc [.ban 4, .clock 9]).banEnd 4 = some 10 ∧ (ghost tc [.ban 4, .clock 9]).now < 10 := by decide
example : (handleAddPeerMsg tc (genRun tc init [.ban 4, .clock 9]) (pI 1 4) (some 4)).2 = (false, 1) := by decide
example : let r := handleAddPeerMsg tc (genRun tc init [.ban 4, .clock 10]) (pI 1 4) (some 4)
    r.2 = (true, 0) ∧ r.1.banned 4 = none ∧ (genRun tc init [.ban 4, .clock 10]).banned 4 = some 10 := by decide
-- accidents of the code, as translated: a persistent peer takes no per-host slot; an address that does not split
example : (genRun tc init [.add (pP 1 0 7)]).conn 0 = 0 ∧ (genRun tc init [.add (pP 1 0 7)]).groups 7 = 1 := by decide
example : (handleAddPeerMsg tc init (pI 1 0) none).2 = (false, 1) := by decide
example : (handleDonePeerMsg (genRun tc init [.add (pI 1 0)]) (pI 1 0) none).conn 0 = 1 ∧
    (handleDonePeerMsg (genRun tc init [.add (pI 1 0)]) (pI 1 0) none).inb = [] := by decide
-- hypothesis of handleDonePeerMsg_absent is satisfiable
example : has (listOf (genRun tc init [.add (pI 1 0)]) (pO 2 0 7).kind) (pO 2 0 7).id = false := by decide

end BHS.Props.Admission
