/-
C11 — Exactly one ADD event per stored header on every notification channel. Every header that ingestion
reports as stored produces exactly one ADD event on every registered notification channel (websocket
'headers' channel, webhooks), whose hash, height, state, version, merkle root, previous hash, nonce,
timestamp and cumulative work equal the stored header's. Submissions that are duplicates, forbidden, or
failed to store produce no event. A failing or slow channel neither blocks ingestion nor suppresses
delivery on the other channels.

Two models: `BHS.Chain` (`events (add …).2` = the `notification.Notify(HeaderAdded(h))` call that
`Chains.Add` makes only after the insert succeeded) and `BHS.Notify` (Model/Notify.lean: `Notifier.Notify`
spawns one goroutine per registered channel and returns).
PARTIAL, named: the Go scheduler is outside the model — that every spawned goroutine eventually runs
(fairness) and what a channel does inside its one attempt (webhook retries, the websocket library's
queue). The fan-out theorems hold for ALL schedules and ALL blocked sets; they say what each channel is
owed and that it never depends on another channel.
Helper lemmas: BHS/Proofs/Fields.lean, BHS/Proofs/FieldsNotify.lean.
-/
import BHS.Model.Chain
import BHS.Model.Notify
import BHS.Spec.BestChain
import BHS.Props.C01
import BHS.Props.C03
import BHS.Proofs.Fields
import BHS.Proofs.FieldsNotify
import BHS.Gen.CallSites

set_option linter.unusedSectionVars false

namespace BHS.Props.C11
open BHS BHS.Chain BHS.Notify BHS.Props.C01
variable {H : Type} [DecidableEq H]

/-! ### one submission -/

/-- one event exactly when the submission is answered "stored", and it carries the stored row: the row at position
    `s.length` of the new store, the one a lookup by hash returns (all nine announced fields are fields of that row);
    no event for duplicate / rejected / failed submissions -/
theorem C11_events (cfg : Cfg H) (s : Store H) (x : Src H) :
    (∀ r, events (add cfg s x).2 = [r] ↔ (add cfg s x).2 = .stored r) ∧
    (∀ r, (add cfg s x).2 = .stored r →
      (add cfg s x).1[s.length]? = some r ∧ byHash (add cfg s x).1 (cfg.hashOf x) = some r ∧ r.hash = cfg.hashOf x) ∧
    ((add cfg s x).2 = .duplicate → events (add cfg s x).2 = []) ∧
    ((add cfg s x).2 = .rejected → events (add cfg s x).2 = []) ∧
    ((add cfg s x).2 = .creationFail → events (add cfg s x).2 = []) ∧
    (events (add cfg s x).2 = [] ∨ ∃ r, events (add cfg s x).2 = [r]) := by
  refine ⟨?_, ?_, ?_, ?_, ?_, ?_⟩
  · intro r
    cases (add cfg s x).2 with
    | stored r' =>
      constructor
      · intro h; injection h with h; rw [h]
      · intro h; injection h with h; rw [h]; rfl
    | duplicate => exact ⟨fun h => (by cases h), fun h => (by cases h)⟩
    | rejected => exact ⟨fun h => (by cases h), fun h => (by cases h)⟩
    | creationFail => exact ⟨fun h => (by cases h), fun h => (by cases h)⟩
  · intro r h
    have k := C03.C03_stored_row cfg s x r h
    exact ⟨k.2.2.2.2.2.2.2.1, k.2.2.2.2.2.2.2.2, k.1⟩
  · intro h; rw [h]; rfl
  · intro h; rw [h]; rfl
  · intro h; rw [h]; rfl
  · cases (add cfg s x).2 with
    | stored r' => exact Or.inr ⟨r', rfl⟩
    | duplicate => exact Or.inl rfl
    | rejected => exact Or.inl rfl
    | creationFail => exact Or.inl rfl

example : events (add exCfg exStore exNext).2 = [C03.exNextRow] := by decide

/-- a known header and a forbidden header are answered duplicate / rejected: no event, no write -/
theorem C11_no_event (cfg : Cfg H) (s : Store H) (x : Src H)
    (h : (byHash s (cfg.hashOf x)).isSome = true ∨ cfg.hashOf x ∈ cfg.forbidden) :
    events (add cfg s x).2 = [] ∧ (add cfg s x).1 = s := by
  rcases add_shape cfg s x with ⟨e1, e2, _⟩ | ⟨_, _, _, _, _, _, hd, hf, _⟩
  · exact ⟨e2, e1⟩
  · rcases h with h | h
    · exact absurd h hd
    · exact absurd h hf

example : (byHash exStore (exCfg.hashOf (exSrc 1000 2))).isSome = true ∧
    exCfg.hashOf (exSrc 4 98) ∈ exCfg.forbidden := by decide

/-! ### a history -/

/-- the events of a history (`eventsOf`: the concatenation of `events (add …).2` along `run`) carry pairwise distinct
    hashes, which are exactly the hashes of the rows the history appended, in order; each event row is the stored row
    up to a later relabelling; the number of events is the number of rows appended -/
theorem C11_history (cfg : Cfg H) (s : Store H) (hist : List (Src H)) (g : Row H) (hg : g ∈ s) (hg0 : g.id = 0)
    (hz : HashAvoids cfg g.prev) (h : WF cfg s) :
    ((eventsOf cfg s hist).map (·.hash)).Nodup ∧
    (eventsOf cfg s hist).map (·.hash) = ((run cfg s hist).drop s.length).map (·.hash) ∧
    rowsMatch (eventsOf cfg s hist) ((run cfg s hist).drop s.length) ∧
    (eventsOf cfg s hist).length = (run cfg s hist).length - s.length := by
  have m := eventsOf_match cfg hist s
  have hw := (WF.run hg0 hz hist h hg).1
  refine ⟨?_, m.map_hash, m, eventsOf_length cfg s hist⟩
  rw [m.map_hash, List.map_drop]
  exact List.Nodup.sublist (List.drop_sublist _ _) hw.nodup

example : exRoot ∈ [exRoot] ∧ exRoot.id = 0 ∧ HashAvoids exCfg exRoot.prev ∧ WF exCfg [exRoot] ∧
    (eventsOf exCfg [exRoot] (exHist ++ [exSrc 1000 2, exSrc 4 98])).map (·.hash) = [2, 3, 4, 5, 6] :=
  ⟨by decide, by decide, exAvoids, by decide, by decide⟩

/-- each event row IS the stored row with the state label it had when it was announced put back -/
theorem C11_event_is_stored_row (cfg : Cfg H) (s : Store H) (hist : List (Src H)) (i : Nat)
    (hi : i < (eventsOf cfg s hist).length) :
    ∃ h' : s.length + i < (run cfg s hist).length,
      (eventsOf cfg s hist)[i] = setSt (run cfg s hist)[s.length + i] (eventsOf cfg s hist)[i].st := by
  have m := eventsOf_match cfg hist s
  have hl := m.length
  rw [List.length_drop] at hl
  have h' : s.length + i < (run cfg s hist).length := by omega
  refine ⟨h', ?_⟩
  have k := m.getElem i hi (by rw [List.length_drop]; omega)
  rw [List.getElem_drop] at k
  exact k.eq_setSt

example : 0 < (eventsOf exCfg [exRoot] exHist).length := by decide

/-! ### fan-out to the channels -/

/-- (a) a failing or slow channel never blocks ingestion: `ingest` is enabled in every state under every blocked set,
    and the events a schedule ingests do not depend on the blocked sets or on the deliveries at all -/
theorem C11_fanout_never_blocks {E : Type} [DecidableEq E] (n : Nat) :
    (∀ (blocked : List Nat) (σ : State E) (e : E), enabled blocked σ (.ingest e) = true) ∧
    (∀ (σ : State E) (sched : List (List Nat × Step E)),
      (exec n σ sched).ingested = σ.ingested ++ ingestsOf sched) :=
  ⟨fun _ _ _ => rfl, fun σ sched => exec_ingested n sched σ⟩

/-- (b) exactly one task per event per registered channel, whatever the schedule and the blocked sets: what channel `c`
    got plus what it is still owed is a permutation of what was ingested — nothing suppressed, nothing duplicated; in
    particular every event is delivered to `c` at most as often as it was ingested -/
theorem C11_fanout_exactly_once {E : Type} [DecidableEq E] (n : Nat) (sched : List (List Nat × Step E))
    (c : Nat) (hc : c < n) :
    ((exec n (init : State E) sched).delivered c ++ pendingFor (exec n init sched) c).Perm
      (exec n (init : State E) sched).ingested ∧
    (∀ e, ((exec n (init : State E) sched).delivered c).count e + (pendingFor (exec n init sched) c).count e =
      (exec n (init : State E) sched).ingested.count e) ∧
    (∀ e, ((exec n (init : State E) sched).delivered c).count e ≤ (exec n (init : State E) sched).ingested.count e) := by
  have p := ((Owed.init n).exec sched (E := E)).1 c hc
  have k : ∀ e, ((exec n (init : State E) sched).delivered c).count e + (pendingFor (exec n init sched) c).count e =
      (exec n (init : State E) sched).ingested.count e := by
    intro e
    rw [← List.count_append]
    exact p.count_eq e
  exact ⟨p, k, fun e => by have := k e; omega⟩

/-- two channels; channel 1 is blocked throughout: ingestion and channel 0 proceed, channel 1 is still owed both events -/
def exSched : List (List Nat × Step Nat) :=
  [([1], .ingest 7), ([1], .deliver 0 7), ([1], .deliver 1 7), ([1], .ingest 8), ([1], .deliver 0 8),
   ([1], .deliver 0 8)]

example : (exec 2 init exSched).ingested = [7, 8] ∧ (exec 2 init exSched).delivered 0 = [7, 8] ∧
    (exec 2 init exSched).delivered 1 = [] ∧ pendingFor (exec 2 init exSched) 1 = [7, 8] ∧
    pendingFor (exec 2 init exSched) 0 = [] := by decide

/-- unregistered channel indices get nothing -/
theorem C11_fanout_registered_only {E : Type} [DecidableEq E] (n : Nat) (sched : List (List Nat × Step E))
    (c : Nat) (hc : n ≤ c) :
    (exec n (init : State E) sched).delivered c = [] ∧ pendingFor (exec n (init : State E) sched) c = [] :=
  ((Owed.init n).exec sched (E := E)).2 c hc

example : (exec 2 init exSched).delivered 2 = [] := by decide

/-- (c) channels are independent: whether `deliver b e` is enabled depends only on `b`'s own pending tasks and on
    whether `b` itself is blocked — not on the other members of the blocked set, not on other channels' tasks; and a
    delivery on another channel changes nothing that `b` sees -/
theorem C11_fanout_independent {E : Type} [DecidableEq E] (n : Nat) (b : Nat) (e : E) :
    (∀ (blocked blocked' : List Nat) (σ σ' : State E), (b ∈ blocked ↔ b ∈ blocked') →
      pendingFor σ b = pendingFor σ' b → enabled blocked σ (.deliver b e) = enabled blocked' σ' (.deliver b e)) ∧
    (∀ (blocked : List Nat) (σ : State E), b ∉ blocked → e ∈ pendingFor σ b → enabled blocked σ (.deliver b e) = true) ∧
    (∀ (blocked : List Nat) (σ : State E) (c : Nat) (e' : E), b ≠ c →
      view (step n σ (blocked, .deliver c e')) b = view σ b) := by
  refine ⟨?_, ?_, ?_⟩
  · intro bl bl' σ σ' hb hp
    rw [enabled_deliver_eq, enabled_deliver_eq, hp]
    by_cases h : b ∈ bl
    · simp [h, hb.1 h]
    · have h' : ¬ b ∈ bl' := fun k => h (hb.2 k)
      simp [h, h']
  · intro bl σ hb he
    rw [enabled_deliver_eq]
    simp [hb, he]
  · intro bl σ c e' h
    exact view_deliver_other n σ bl c e' b h

example : (0 ∈ [1] ↔ 0 ∈ [1, 5]) ∧ (0 : Nat) ∉ [1] ∧ (8 : Nat) ∈ pendingFor (exec 2 init (exSched.take 4)) 0 ∧
    (0 : Nat) ≠ 1 := by decide

/-- the two models together: feed the notifier the events of an ingestion history (in any interleaving with deliveries,
    under any blocked sets); then every registered channel has received, or is still owed, exactly those events -/
theorem C11_fanout_history (cfg : Cfg H) (s : Store H) (hist : List (Src H)) (n : Nat)
    (sched : List (List Nat × Step (Row H))) (hs : ingestsOf sched = eventsOf cfg s hist) (c : Nat) (hc : c < n) :
    ((exec n init sched).delivered c ++ pendingFor (exec n init sched) c).Perm (eventsOf cfg s hist) := by
  have p := (C11_fanout_exactly_once n sched c hc).1
  rw [(C11_fanout_never_blocks n).2 init sched, hs] at p
  exact p

example : ingestsOf ((eventsOf exCfg [exRoot] exHist).map fun r => (([] : List Nat), Step.ingest r)) =
    eventsOf exCfg [exRoot] exHist := by decide

/-- tie to the source (regenerated go/ast facts): the chain service's `Notify` is called from exactly one place,
    `chainService.Add`, after the insert and after the insert's error return — which is what `events` models. -/
theorem C11_notify_site :
    Gen.notifyCallers = [("service/chain_service.go", "Add")] ∧ Gen.notifyAfterInsert = true := by decide

end BHS.Props.C11
