/-
C01 — the header store after any ingestion history is canonically labelled: the LONGEST_CHAIN rows
are exactly the parent-linked path from the root to the genesis-connected header with the greatest
cumulative work (the earliest stored among equals), that header is the reported tip, every other
connected header is STALE, orphans stay ORPHAN.

The theorems are about the executable model `BHS.Chain` (BHS/Model/Chain.lean, validated against the
Go code by differential testing) and the specification BHS/Spec/BestChain.lean. The inductive
invariant is `Inv = WF ∧ LcInv`; helper lemmas are in BHS/Proofs/Chain*.lean.
Every implication is followed by a non-vacuity example on a concrete six-row store over `H := Nat`
with a fork, a tie, a reorganisation and an orphan.
-/
import BHS.Model.Chain
import BHS.Spec.BestChain
import BHS.Proofs.ChainLc

set_option linter.unusedSectionVars false

namespace BHS.Props.C01
open BHS BHS.Chain
variable {H : Type} [DecidableEq H]

/-- the root row a store starts from (database/genesis.go) -/
def IsRoot (g : Row H) : Prop := g.id = 0 ∧ g.st = .lc ∧ g.height = 0 ∧ g.hash ≠ g.prev

/-- hashes of submitted headers never equal the root's previous-hash (the all-zero hash): trusted property of SHA-256d -/
def HashAvoids (cfg : Cfg H) (z : H) : Prop := ∀ x, cfg.hashOf x ≠ z

instance (g : Row H) : Decidable (IsRoot g) := by unfold IsRoot; infer_instance

/-! ### the concrete store used by the non-vacuity examples -/

/-- toy hash: nonce + 1 (never 0, the root's previous-hash); hash 99 is forbidden -/
def exCfg : Cfg Nat := { hashOf := fun x => x.nonce + 1, forbidden := [99] }

def exRoot : Row Nat :=
  { id := 0, hash := 1000, prev := 0, merkle := 0, height := 0, version := 1, time := 0, bits := 486604799,
    nonce := 999, work := 4295032833, cum := 4295032833, st := .lc }

def exSrc (prev nonce : Nat) : Src Nat :=
  { version := 1, prev := prev, merkle := nonce, time := nonce, bits := 486604799, nonce := nonce }

/-- child of the root; a sibling with the same work (tie, stays STALE); a child of the sibling
    (reorganisation: the sibling's branch becomes the longest chain); an orphan (unknown parent);
    a child of the first row that only ties with the tip (stays STALE) -/
def exHist : List (Src Nat) := [exSrc 1000 1, exSrc 1000 2, exSrc 3 3, exSrc 777 4, exSrc 2 5]

/-- `run exCfg [exRoot] exHist`, written out -/
def exStore : Store Nat :=
  [ exRoot,
    { id := 1, hash := 2, prev := 1000, merkle := 1, height := 1, version := 1, time := 1, bits := 486604799,
      nonce := 1, work := 4295032833, cum := 8590065666, st := .stale },
    { id := 2, hash := 3, prev := 1000, merkle := 2, height := 1, version := 1, time := 2, bits := 486604799,
      nonce := 2, work := 4295032833, cum := 8590065666, st := .lc },
    { id := 3, hash := 4, prev := 3, merkle := 3, height := 2, version := 1, time := 3, bits := 486604799,
      nonce := 3, work := 4295032833, cum := 12885098499, st := .lc },
    { id := 4, hash := 5, prev := 777, merkle := 4, height := 1, version := 1, time := 4, bits := 486604799,
      nonce := 4, work := 4295032833, cum := 4295032833, st := .orphan },
    { id := 5, hash := 6, prev := 2, merkle := 5, height := 2, version := 1, time := 5, bits := 486604799,
      nonce := 5, work := 4295032833, cum := 12885098499, st := .stale } ]

def exOrphan : Row Nat :=
  { id := 4, hash := 5, prev := 777, merkle := 4, height := 1, version := 1, time := 4, bits := 486604799,
    nonce := 4, work := 4295032833, cum := 4295032833, st := .orphan }

/-- the next submission: a child of the STALE row 5, heavier than the tip (a second reorganisation) -/
def exNext : Src Nat := exSrc 6 6

theorem exStore_eq : run exCfg [exRoot] exHist = exStore := by decide

theorem exAvoids : HashAvoids exCfg exRoot.prev := fun x => Nat.succ_ne_zero x.nonce

/-- a zero-work submission (bits = 0) on top of the current tip (hash 4) -/
def exZero : Src Nat := { version := 1, prev := 4, merkle := 7, time := 7, bits := 0, nonce := 7 }

/-! ### the invariant -/

theorem C01_inv_init (cfg : Cfg H) (g : Row H) (hg : IsRoot g) : Inv cfg [g] := by
  obtain ⟨h0, hl, hh, hne⟩ := hg
  have one : ∀ r, r ∈ [g] → r = g := fun r hr => List.mem_singleton.1 hr
  refine ⟨⟨?_, ?_, ?_, ?_, ?_, ?_⟩, g, List.mem_singleton.2 rfl, hl, ?_, ?_, ?_, ?_⟩
  · simp [h0]
  · simp
  · refine ⟨g, List.mem_singleton.2 rfl, h0, hl, hh, ?_⟩
    intro r hr; rw [one r hr]; exact hne
  · intro r hr _ hn; rw [one r hr] at hn; exact absurd h0 hn
  · intro r hr ho; rw [one r hr, hl] at ho; cases ho
  · intro r hr hn; rw [one r hr] at hn; exact absurd h0 hn
  · intro r hr _; rw [one r hr]; exact ⟨Nat.le_refl _, fun _ => Nat.le_refl _⟩
  · intro r hr _; rw [one r hr]; exact Nat.le_refl _
  · intro r hr r' hr' _ _ _; rw [one r hr, one r' hr']
  · intro r hr _ hn; rw [one r hr] at hn; exact absurd h0 hn

example : IsRoot exRoot := by decide

/-- one step: the invariant is preserved by EVERY submission (also a zero-work one: it is compared with the tip
    like a competing header, never exceeds it, and is stored STALE) -/
theorem C01_inv_step (cfg : Cfg H) (s : Store H) (x : Src H) (g : Row H) (hg : g ∈ s) (hg0 : g.id = 0)
    (hz : HashAvoids cfg g.prev) (h : Inv cfg s) : Inv cfg (add cfg s x).1 :=
  h.add x hg hg0 hz

example : exRoot ∈ exStore ∧ exRoot.id = 0 ∧ HashAvoids exCfg exRoot.prev ∧ Inv exCfg exStore :=
  ⟨by decide, by decide, exAvoids, by decide⟩

/-- the step on the formerly excluded input: a zero-work child of the tip is appended STALE, the tip stays -/
example : work exZero.bits = 0 ∧ (getTip exStore).map (·.hash) = some exZero.prev ∧
    (add exCfg exStore exZero).1 = exStore ++ [
      { id := 6, hash := 8, prev := 4, merkle := 7, height := 3, version := 1, time := 7, bits := 0, nonce := 7,
        work := 0, cum := 12885098499, st := .stale }] ∧
    getTip (add exCfg exStore exZero).1 = getTip exStore ∧ Inv exCfg (add exCfg exStore exZero).1 := by
  decide

/-- structural well-formedness is preserved by EVERY submission (also the zero-work one) -/
theorem C01_wf_step (cfg : Cfg H) (s : Store H) (x : Src H) (g : Row H) (hg : g ∈ s) (hg0 : g.id = 0)
    (hz : HashAvoids cfg g.prev) (h : WF cfg s) : WF cfg (add cfg s x).1 :=
  h.add_wf x hg hg0 hz

example : exRoot ∈ exStore ∧ exRoot.id = 0 ∧ HashAvoids exCfg exRoot.prev ∧ WF exCfg exStore :=
  ⟨by decide, by decide, exAvoids, by decide⟩

/-- the invariant gives the property's labelling clause -/
theorem C01_inv_canon (cfg : Cfg H) (s : Store H) (h : Inv cfg s) : Canon s :=
  canon_of_inv h

example : Inv exCfg exStore := by decide

/-- FULL STATEMENT: after ANY ingestion history (any tree shape, order, duplicates, forbidden hashes, orphans, any
    bits — zero-work headers included) the store satisfies the invariant and is canonically labelled -/
theorem C01_canonical (cfg : Cfg H) (g : Row H) (hg : IsRoot g) (hz : HashAvoids cfg g.prev)
    (hist : List (Src H)) : Inv cfg (run cfg [g] hist) ∧ Canon (run cfg [g] hist) := by
  have h := (C01_inv_init cfg g hg).run hz hist (List.mem_singleton.2 rfl) hg.1
  exact ⟨h, canon_of_inv h⟩

example : IsRoot exRoot ∧ HashAvoids exCfg exRoot.prev ∧ run exCfg [exRoot] exHist = exStore :=
  ⟨by decide, exAvoids, exStore_eq⟩

/-- a history containing a zero-work header on the tip is covered as well -/
example : (∃ x ∈ exHist ++ [exZero], work x.bits = 0) ∧ Canon (run exCfg [exRoot] (exHist ++ [exZero])) := by
  decide

/-- every other connected header is STALE -/
theorem C01_stale_or_lc (r : Row H) (h : connected r) : r.st = .lc ∨ r.st = .stale :=
  St.lc_or_stale_of_ne_orphan h

example : ∃ r ∈ exStore, connected r ∧ r.st = .stale := by decide

/-- every submission is answered stored / duplicate / rejected: never a failure (hence never the nil dereference the
    unfixed code had) -/
theorem C01_answered (cfg : Cfg H) (s : Store H) (x : Src H) (h : WF cfg s) :
    (∃ r, (add cfg s x).2 = .stored r) ∨ (add cfg s x).2 = .duplicate ∨ (add cfg s x).2 = .rejected := by
  rcases add_cases cfg s x with ⟨_, e⟩ | ⟨_, _, e⟩ | ⟨_, _, k⟩
  · rw [e]; exact Or.inr (Or.inl rfl)
  · rw [e]; exact Or.inr (Or.inr rfl)
  · rcases k with ⟨_, e⟩ | ⟨_, hn, _⟩ | ⟨_, _, _, _, e⟩ | ⟨_, _, _, _, e⟩
    · rw [e]; exact Or.inl ⟨_, rfl⟩
    · obtain ⟨g, hg, _, hl, _⟩ := h.root
      obtain ⟨t, e, _⟩ := getTip_some hg hl
      rw [e] at hn; cases hn
    · rw [e]; exact Or.inl ⟨_, rfl⟩
    · rw [e]; exact Or.inl ⟨_, rfl⟩

example : WF exCfg exStore := by decide

/-- re-submitting a known header changes nothing -/
theorem C01_idempotent (cfg : Cfg H) (s : Store H) (x : Src H) (h : (byHash s (cfg.hashOf x)).isSome) :
    (add cfg s x).1 = s ∧ (add cfg s x).2 = .duplicate := by
  rw [add_eq, plan_eq, if_pos h]
  exact ⟨rfl, rfl⟩

example : (byHash exStore (exCfg.hashOf (exSrc 1000 2))).isSome := by decide

/-- a forbidden header is rejected and nothing is written -/
theorem C01_forbidden (cfg : Cfg H) (s : Store H) (x : Src H) (hn : (byHash s (cfg.hashOf x)).isNone)
    (hf : cfg.hashOf x ∈ cfg.forbidden) : (add cfg s x).1 = s ∧ (add cfg s x).2 = .rejected := by
  have hd : ¬ (byHash s (cfg.hashOf x)).isSome = true := by
    cases e : byHash s (cfg.hashOf x) with
    | none => simp
    | some r => rw [e] at hn; cases hn
  rw [add_eq, plan_eq, if_neg hd, if_pos hf]
  exact ⟨rfl, rfl⟩

example : (byHash exStore (exCfg.hashOf (exSrc 4 98))).isNone ∧ exCfg.hashOf (exSrc 4 98) ∈ exCfg.forbidden := by
  decide

/-- an ORPHAN row is never relabelled or removed, whatever is submitted later -/
theorem C01_orphan_forever (cfg : Cfg H) (s : Store H) (hist : List (Src H)) (g : Row H) (hg : g ∈ s) (hg0 : g.id = 0)
    (hz : HashAvoids cfg g.prev) (h : WF cfg s) (r : Row H)
    (hr : r ∈ s) (ho : r.st = .orphan) : r ∈ run cfg s hist := by
  induction hist generalizing s with
  | nil => exact hr
  | cons x hist ih =>
    show r ∈ run cfg (add cfg s x).1 hist
    exact ih (add cfg s x).1 (h.add_keeps x hg (Or.inl hg0)) (h.add_wf x hg hg0 hz)
      (h.add_keeps x hr (Or.inr ho))

example : exRoot ∈ exStore ∧ exRoot.id = 0 ∧ HashAvoids exCfg exRoot.prev ∧ WF exCfg exStore ∧
    exOrphan ∈ exStore ∧ exOrphan.st = .orphan :=
  ⟨by decide, by decide, exAvoids, by decide, by decide, by decide⟩

/-- a header that adds no work never gets onto the longest chain (the repaired defect, for every store satisfying the
    invariant): a new, non-forbidden zero-work header is appended STALE or ORPHAN and no old row is relabelled -/
theorem C01_zero_work_never_lc (cfg : Cfg H) (s : Store H) (x : Src H) (h : Inv cfg s) (hwk : work x.bits = 0)
    (hn : (byHash s (cfg.hashOf x)).isNone) (hf : cfg.hashOf x ∉ cfg.forbidden) :
    ∃ r, add cfg s x = (s ++ [r], .stored r) ∧ r.hash = cfg.hashOf x ∧ r.work = 0 ∧ r.st ≠ .lc := by
  have hd : ¬ (byHash s (cfg.hashOf x)).isSome = true := by
    cases e : byHash s (cfg.hashOf x) with
    | none => simp
    | some r => rw [e] at hn; cases hn
  exact h.add_zero_work x hwk hd hf

example : Inv exCfg exStore ∧ work exZero.bits = 0 ∧ (byHash exStore (exCfg.hashOf exZero)).isNone ∧
    exCfg.hashOf exZero ∉ exCfg.forbidden := by
  decide

/-- regression for the repaired defect (former known finding K-C01-zero-work: a zero-work child of the tip took over
    a tie although the old tip has the same cumulative work and was stored earlier). Concrete witness over H := Nat. -/
def cexCfg : Cfg Nat := { hashOf := fun x => x.nonce, forbidden := [] }
def cexRoot : Row Nat :=
  { id := 0, hash := 1000, prev := 0, merkle := 0, height := 0, version := 1, time := 0, bits := 486604799, nonce := 1000,
    work := 4295032833, cum := 4295032833, st := .lc }
def cexHist : List (Src Nat) := [{ version := 1, prev := 1000, merkle := 1, time := 1, bits := 0, nonce := 7 }]

/-- on the former counterexample the labelling is canonical: the zero-work child of the tip is stored STALE and the
    old tip stays the tip. (Closed form: `HashAvoids cexCfg 0` cannot hold for the toy hash — nonce 0 would collide —
    so `IsRoot cexRoot` is stated as a fact and `Canon` is decided directly.) -/
theorem C01_zero_work_stays_stale : IsRoot cexRoot ∧ Canon (run cexCfg [cexRoot] cexHist) ∧
    run cexCfg [cexRoot] cexHist = [cexRoot,
      { id := 1, hash := 7, prev := 1000, merkle := 1, height := 1, version := 1, time := 1, bits := 0, nonce := 7,
        work := 0, cum := 4295032833, st := .stale }] ∧
    getTip (run cexCfg [cexRoot] cexHist) = some cexRoot := by
  decide

/-- the witness satisfies the whole invariant -/
example : Inv cexCfg (run cexCfg [cexRoot] cexHist) := by decide

end BHS.Props.C01
