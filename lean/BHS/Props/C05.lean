/-
C05 — ingestion survives a crash / storage failure anywhere; redelivery recovers.
If the process is killed, or a storage write fails, at any point while headers are being ingested —
including between the steps of a reorganisation — then after restart the store is structurally valid
(exactly one longest-chain header at every height from genesis to the tip, parent-linked) and every
previously acknowledged header is still present and unaltered. Re-receiving the same headers then brings
the service to the same final state as an uninterrupted run; it never remains stuck rejecting them.
Restarting on an existing database never modifies stored headers.

Model: `BHS.Chain` (Model/Chain.lean, Model/Crash.lean). `plan` performs all reads of `Add` before its
first write, so `Add` is at most three write transactions `[setState old→STALE]?, [setState new→LC]?, insert`;
`addPrefix cfg s x k` is the store after the first `k` of them = a kill at boundary `k` = the store left
when write `k+1` returns an error (the code returns at once and issues no further write);
`restart g s` is start-up on an existing file (`INSERT genesis ... ON CONFLICT DO NOTHING`);
`crashRedeliver` = kill at boundary k, restart, the same header delivered again.
`k` ranges over ALL naturals (`List.take` saturates at `nWrites`).
Helper lemmas: BHS/Proofs/Crash{Basic,Struct,Redeliver}.lean. The stores a crash can leave are classified by
`addPrefix_cases`: the old store, the final store, or — inside a reorganisation only — `s.map (rel1 ..)`
(old branch demoted, new branch still STALE) and `s.map (rel2 ..)` (new branch promoted, header not yet inserted).

Every implication is followed by a non-vacuity example on the six-row store of C01 (`exStore`, over H := Nat)
and the submission `exNext`, which triggers a reorganisation with BOTH updates before the insert (3 writes).
-/
import BHS.Model.Chain
import BHS.Model.Crash
import BHS.Spec.BestChain
import BHS.Proofs.CrashRedeliver
import BHS.Props.C01

set_option linter.unusedSectionVars false

namespace BHS.Props.C05
open BHS BHS.Chain
open BHS.Props.C01 (IsRoot HashAvoids exCfg exRoot exSrc exHist exStore exNext exStore_eq exAvoids C01_inv_init
  C01_canonical exZero)
variable {H : Type} [DecidableEq H]

/-! ### the concrete crash scenario used by the examples -/

/-- `exNext` on `exStore` is a reorganisation whose plan has both updates and the insert -/
theorem ex_three_writes : nWrites exCfg exStore exNext = 3 := by decide

/-- the four stores along the write list are pairwise different: the kill points are all distinct states -/
example : addPrefix exCfg exStore exNext 0 = exStore ∧
    addPrefix exCfg exStore exNext 1 ≠ exStore ∧
    addPrefix exCfg exStore exNext 2 ≠ addPrefix exCfg exStore exNext 1 ∧
    addPrefix exCfg exStore exNext 3 ≠ addPrefix exCfg exStore exNext 2 ∧
    addPrefix exCfg exStore exNext 3 = (add exCfg exStore exNext).1 ∧
    addPrefix exCfg exStore exNext 7 = (add exCfg exStore exNext).1 := by decide

/-- after the first update only, the longest chain has shrunk to the fork row (the root); the tip is the root -/
example : getTip (restart exRoot (addPrefix exCfg exStore exNext 1)) = some exRoot ∧
    ¬ Inv exCfg (addPrefix exCfg exStore exNext 1) := by decide

/-! ### restart -/

/-- restarting on an existing database never modifies stored headers: the store is returned unchanged
    (needs only that the genesis hash is stored; `WF` is not required) -/
theorem C05_restart_id (g : Row H) (s : Store H) (hg : g ∈ s) : restart g s = s :=
  restart_of_mem hg

example : exRoot ∈ exStore := by decide

/-- first start on an empty file: the genesis row is inserted at rowid 0 -/
theorem C05_restart_fresh (g : Row H) : restart g [] = [{ g with id := 0 }] :=
  restart_nil g

/-- on ANY file (even one without the genesis row) a restart keeps every stored row, verbatim -/
theorem C05_restart_keeps (g : Row H) (s : Store H) :
    rowsPreserved s (restart g s) ∧ ∀ r ∈ s, r ∈ restart g s := by
  refine ⟨rowsPreserved_insertRow s g, ?_⟩
  intro r hr
  unfold restart insertRow
  split
  · exact hr
  · exact List.mem_append_left _ hr

/-! ### structural validity -/

/-- the invariant of C01 gives the structural validity of the store -/
theorem C05_inv_struct (cfg : Cfg H) (s : Store H) (h : Inv cfg s) : StructValid s := by
  obtain ⟨hw, t, ht, hl⟩ := h
  exact hl.toLcS.structValid hw ht

example : Inv exCfg exStore := by decide

/-- killed (or a write failed) at ANY write boundary of ANY submission — including between the two updates of a
    reorganisation — and restarted: the store is structurally valid and every previously stored header is still
    there, at the same rowid, unaltered up to its state label -/
theorem C05_struct_valid (cfg : Cfg H) (s : Store H) (x : Src H) (g : Row H) (hg : g ∈ s) (hg0 : g.id = 0)
    (hz : HashAvoids cfg g.prev) (h : Inv cfg s) (k : Nat) :
    StructValid (restart g (addPrefix cfg s x k)) ∧ rowsPreserved s (addPrefix cfg s x k) ∧
      rowsPreserved s (restart g (addPrefix cfg s x k)) := by
  have hp := rowsPreserved_addPrefix cfg s x k
  rw [restart_of_preserved hp hg]
  exact ⟨h.addPrefix_struct x hg hg0 hz k, hp, hp⟩

example : exRoot ∈ exStore ∧ exRoot.id = 0 ∧ HashAvoids exCfg exRoot.prev ∧ Inv exCfg exStore ∧
    nWrites exCfg exStore exNext = 3 :=
  ⟨by decide, by decide, exAvoids, by decide, ex_three_writes⟩

/-- the conclusion evaluated at the two kill points inside the reorganisation -/
example : StructValid (restart exRoot (addPrefix exCfg exStore exNext 1)) ∧
    StructValid (restart exRoot (addPrefix exCfg exStore exNext 2)) ∧
    rowsPreserved exStore (addPrefix exCfg exStore exNext 1) ∧
    rowsPreserved exStore (addPrefix exCfg exStore exNext 2) := by decide

/-! ### redelivery of the interrupted header -/

/-- after a kill at ANY write boundary and a restart, delivering the same header again produces EXACTLY the store
    of the uninterrupted `add`: same rows, same rowids, same labels -/
theorem C05_redeliver_exact (cfg : Cfg H) (s : Store H) (x : Src H) (g : Row H) (hg : g ∈ s)
    (h : Inv cfg s) (k : Nat) : (crashRedeliver cfg g s x k).1 = (add cfg s x).1 := by
  rcases h.redeliver hg x k with e | ⟨_, e⟩ <;> rw [e]

example : exRoot ∈ exStore ∧ Inv exCfg exStore ∧ nWrites exCfg exStore exNext = 3 :=
  ⟨by decide, by decide, ex_three_writes⟩

example : (crashRedeliver exCfg exRoot exStore exNext 1).1 = (add exCfg exStore exNext).1 ∧
    (crashRedeliver exCfg exRoot exStore exNext 2).1 = (add exCfg exStore exNext).1 := by decide

/-- the redelivery is never stuck: when the uninterrupted `add` stores the header, the redelivered header is
    answered `stored` (or `duplicate`, when the kill came after the insert) -/
theorem C05_not_stuck (cfg : Cfg H) (s : Store H) (x : Src H) (g : Row H) (hg : g ∈ s) (h : Inv cfg s) (k : Nat)
    (hs : ∃ r, (add cfg s x).2 = .stored r) :
    (crashRedeliver cfg g s x k).2 = .duplicate ∨ ∃ r, (crashRedeliver cfg g s x k).2 = .stored r := by
  rcases h.redeliver hg x k with e | ⟨_, e⟩ <;> rw [e]
  · exact Or.inr hs
  · exact Or.inl rfl

example : exRoot ∈ exStore ∧ Inv exCfg exStore ∧ nWrites exCfg exStore exNext = 3 ∧
    ∃ r, (add exCfg exStore exNext).2 = .stored r :=
  ⟨by decide, by decide, ex_three_writes, _, rfl⟩

/-- more precisely: the answer is the one of the uninterrupted `add` — the same stored row — unless the header had
    already been inserted before the kill, and then it is `duplicate` -/
theorem C05_redeliver_answer (cfg : Cfg H) (s : Store H) (x : Src H) (g : Row H) (hg : g ∈ s) (h : Inv cfg s)
    (k : Nat) : (crashRedeliver cfg g s x k).2 = (add cfg s x).2 ∨
      ((∃ r, (add cfg s x).2 = .stored r) ∧ (crashRedeliver cfg g s x k).2 = .duplicate) := by
  rcases h.redeliver hg x k with e | ⟨hs, e⟩ <;> rw [e]
  · exact Or.inl rfl
  · exact Or.inr ⟨hs, rfl⟩

example : exRoot ∈ exStore ∧ Inv exCfg exStore ∧ nWrites exCfg exStore exNext = 3 :=
  ⟨by decide, by decide, ex_three_writes⟩

/-- whatever was submitted, the redelivery is answered stored / duplicate / rejected — never HeaderCreationFail
    (on the unrepaired code the empty IN-list error made this false) -/
theorem C05_redeliver_answered (cfg : Cfg H) (s : Store H) (x : Src H) (g : Row H) (hg : g ∈ s) (h : Inv cfg s)
    (k : Nat) : (crashRedeliver cfg g s x k).2 = .duplicate ∨ (crashRedeliver cfg g s x k).2 = .rejected ∨
      ∃ r, (crashRedeliver cfg g s x k).2 = .stored r := by
  rcases h.redeliver hg x k with e | ⟨_, e⟩ <;> rw [e]
  · exact h.1.add_ne_fail x
  · exact Or.inl rfl

example : exRoot ∈ exStore ∧ Inv exCfg exStore ∧ nWrites exCfg exStore exNext = 3 :=
  ⟨by decide, by decide, ex_three_writes⟩

/-! ### redelivery of the whole history -/

/-- the store built from the root row by ANY history (zero-work headers included) is interrupted at write boundary
    `k` of the next submission `x` (ANY header); after the restart the peers deliver the WHOLE
    history again, `x` last: the final store is exactly the one of the uninterrupted run -/
theorem C05_redeliver_history (cfg : Cfg H) (g : Row H) (hg : IsRoot g) (hz : HashAvoids cfg g.prev)
    (hist : List (Src H)) (x : Src H) (k : Nat) :
    run cfg (restart g (addPrefix cfg (run cfg [g] hist) x k)) (hist ++ [x]) = run cfg [g] (hist ++ [x]) := by
  have hinv := (C01_canonical cfg g hg hz hist).1
  have hw0 := (C01_inv_init cfg g hg).1
  have hg1 : g ∈ [g] := List.mem_singleton.2 rfl
  have hgs : g ∈ run cfg [g] hist := by
    have hgk : ∀ (h : List (Src H)) (s : Store H), WF cfg s → g ∈ s → g ∈ run cfg s h := by
      intro h
      induction h with
      | nil => intro s _ hm; exact hm
      | cons y h ih =>
        intro s hw hm
        exact ih _ (hw.add_wf y hm hg.1 hz) (hw.add_keeps y hm (Or.inl hg.1))
    exact hgk hist [g] hw0 hg1
  have hpres : rowsPreserved (run cfg [g] hist) (restart g (addPrefix cfg (run cfg [g] hist) x k)) :=
    rowsPreserved_trans (rowsPreserved_addPrefix cfg _ x k) (rowsPreserved_insertRow _ g)
  have hknown : ∀ y ∈ hist, Known cfg (restart g (addPrefix cfg (run cfg [g] hist) x k)) y :=
    fun y hy => (run_known hz hist [g] hw0 hg1 hg.1 y hy).mono hpres
  rw [run_snoc, run_snoc, run_of_known hist _ hknown]
  exact C05_redeliver_exact cfg (run cfg [g] hist) x g hgs hinv k

example : IsRoot exRoot ∧ HashAvoids exCfg exRoot.prev ∧
    nWrites exCfg (run exCfg [exRoot] exHist) exNext = 3 :=
  ⟨by decide, exAvoids, by decide⟩

example : run exCfg (restart exRoot (addPrefix exCfg (run exCfg [exRoot] exHist) exNext 1)) (exHist ++ [exNext]) =
    run exCfg [exRoot] (exHist ++ [exNext]) := by decide

/-- the same with a zero-work header on the tip inside the history (it stays STALE; the later reorganisation by
    `exNext` is interrupted after its first update) -/
example : (∃ y ∈ exHist ++ [exZero], work y.bits = 0) ∧
    nWrites exCfg (run exCfg [exRoot] (exHist ++ [exZero])) exNext = 3 ∧
    run exCfg (restart exRoot (addPrefix exCfg (run exCfg [exRoot] (exHist ++ [exZero])) exNext 1))
        ((exHist ++ [exZero]) ++ [exNext]) =
      run exCfg [exRoot] ((exHist ++ [exZero]) ++ [exNext]) := by decide

/-! ### acknowledged headers survive -/

/-- on ANY store: whatever the kill point, every stored row is found again at the same rowid and unaltered (up to
    its state label) after the restart, and also after the redelivery -/
theorem C05_rows_survive (cfg : Cfg H) (g : Row H) (s : Store H) (x : Src H) (k : Nat) :
    rowsPreserved s (restart g (addPrefix cfg s x k)) ∧ rowsPreserved s (crashRedeliver cfg g s x k).1 := by
  have h1 : rowsPreserved s (restart g (addPrefix cfg s x k)) :=
    rowsPreserved_trans (rowsPreserved_addPrefix cfg s x k) (rowsPreserved_insertRow _ g)
  exact ⟨h1, rowsPreserved_trans h1 (rowsPreserved_add cfg _ x)⟩

/-- every header acknowledged during a history is still present and unaltered after a crash at any write boundary
    of the next submission and a restart, and also after the redelivery -/
theorem C05_acknowledged_survive (cfg : Cfg H) (g : Row H) (hist : List (Src H)) (x : Src H) (k : Nat)
    (r : Row H) (hr : r ∈ run cfg [g] hist) :
    (∃ r' ∈ restart g (addPrefix cfg (run cfg [g] hist) x k), sameButState r r') ∧
    (∃ r' ∈ (crashRedeliver cfg g (run cfg [g] hist) x k).1, sameButState r r') := by
  have h := C05_rows_survive cfg g (run cfg [g] hist) x k
  exact ⟨rowsPreserved_mem h.1 hr, rowsPreserved_mem h.2 hr⟩

/-- a row of the old longest chain that the interrupted reorganisation has already demoted: present, relabelled -/
example : ∃ r ∈ run exCfg [exRoot] exHist, r.st = .lc ∧
    ∃ r' ∈ restart exRoot (addPrefix exCfg (run exCfg [exRoot] exHist) exNext 1), sameButState r r' ∧ r'.st = .stale := by
  decide

end BHS.Props.C05
