/-
HeaderSvcGen — the hand models of the query side (BHS/Model/Query.lean) ARE what the Go source says now.

BHS/Gen/HeaderSvc.lean is REGENERATED on every check run from /repo/service/header_service.go,
/repo/database/repository/header_repository.go and /repo/database/sql/headers.go by
harness/cmd/extract/gen_headersvc.go (the translator core of gen_chainsvc.go: a statement-by-statement translation of
the service methods and of everything they reach, down to the `db.Get` / `db.Select` calls, into `do` blocks over the
reader monad BHS/Model/QueryM.lean). The theorems below state, for EVERY store (no invariant is assumed) and every input,
that running the generated function gives exactly what the hand model computes — so every theorem of C13 / C04, all
stated over `locator`, `getHeaders`, `ancestors`, `commonAncestor`, `byHeightRange`, `allTips`, `getTip`, `byHash`, is a
theorem about the translated source, and an edit of these functions changes the generated module and re-opens the
obligations. The two known findings of C13 (an empty locator is an error; a stop hash at height 0 counts as absent) are
behaviour of the code: the refinement reproduces them (`C13_findings_generated`).

What `… = .ok …` excludes: the faults of the monad — a nil `*BlockHeader` / `*DbBlockHeader` dereference (the defect
class of 15c8125), an index out of range (397583f) and a `for cond` loop that does not stop within the loop budget
`fuel`: `Gen_locator_refines` and `Gen_common_refines` hold for every budget above the heights involved, i.e. they also
bound the number of iterations of the two open-ended loops.

Where the translation abstracts (header of QueryM.lean and of gen_headersvc.go): `int`/`int32` are unbounded integers
(assumption "heights below 2^31" of C13 / C04); DbBlockHeader ≙ BlockHeader ≙ Row and wire.BlockHeader ≙ Src (field maps
checked against the struct declarations); every SQL statement is the hand model's list function for it, keyed by the
name of the SQL constant (texts pinned by Gen.SqlText); errors are told apart by the outermost bhserrors name, as the
HTTP layer does. Helper lemmas: BHS/Proofs/HeaderSvcRefine.lean.
-/
import BHS.Model.QueryM
import BHS.Gen.HeaderSvc
import BHS.Proofs.HeaderSvcRefine
import BHS.Props.C13
import BHS.Props.C04

set_option linter.unusedSectionVars false

namespace BHS.Props.HeaderSvcGen
open BHS BHS.Chain BHS.Gen.HeaderSvc
open BHS.QueryM (runQ)
open BHS.QueryM.Refine (ghAnswer ancObs caObs caClass CaObs errNotFound)
variable {H : Type} [DecidableEq H] [Inhabited H]

/-! ### C13: block locator and getheaders -/

/-- LatestHeaderLocator = `locator`, for every store and every loop budget above the tip's height (the loop makes at
    most height + 1 iterations and ends; no hypothesis on the shape of the store) -/
theorem Gen_locator_refines (s : Store H) (fuel : Nat) (hf : ∀ t, getTip s = some t → t.height < fuel) :
    runQ s fuel HeaderService_LatestHeaderLocator = .ok (locator s) :=
  QueryM.Refine.Gen_locator_refines { store := s, fuel := fuel } hf

/-- LocateHeadersGetHeaders = `getHeaders` (the zero hash is `default`), every store, locator and stop hash: the same
    rows as wire headers, or the same refusal -/
theorem Gen_getheaders_refines (s : Store H) (fuel : Nat) (loc : List H) (stop : H) :
    runQ s fuel (HeaderService_LocateHeadersGetHeaders loc stop) = .ok (ghAnswer (getHeaders s default loc stop)) :=
  QueryM.Refine.Gen_getheaders_refines loc stop { store := s, fuel := fuel }

/-! ### C04: chain queries -/

/-- GetHeaderAncestorsByHash = `ancestors`: the same rows, or the same class of error -/
theorem Gen_ancestors_refines (s : Store H) (fuel : Nat) (hash anc : H) :
    (runQ s fuel (HeaderService_GetHeaderAncestorsByHash hash anc)).map ancObs =
      .ok (some ((ancestors s hash anc).map (·.map some))) :=
  QueryM.Refine.Gen_ancestors_refines hash anc { store := s, fuel := fuel }

/-- GetCommonAncestor = `commonAncestor` as a caller sees it (found r / not found / empty request), for every store and
    every loop budget above the stored heights: the `for height >= 0` loop ends within (lowest height + 1) iterations -/
theorem Gen_common_refines (s : Store H) (fuel : Nat) (hashes : List H) (hf : ∀ r ∈ s, r.height < fuel) :
    (runQ s fuel (HeaderService_GetCommonAncestor hashes)).map caObs = .ok (some (caClass (commonAncestor s hashes))) :=
  QueryM.Refine.Gen_common_refines hashes { store := s, fuel := fuel } hf

/-- GetHeadersByHeight = `byHeightRange` -/
theorem Gen_byheight_refines (s : Store H) (fuel : Nat) (height count : Int) :
    runQ s fuel (HeaderService_GetHeadersByHeight height count) =
      .ok ((byHeightRange s height (height + count - 1)).map some, none) :=
  QueryM.Refine.Gen_byheight_refines height count { store := s, fuel := fuel }

/-- GetTips = `allTips` -/
theorem Gen_tips_refines (s : Store H) (fuel : Nat) :
    runQ s fuel (HeaderService_GetTips (H := H)) = .ok ((allTips s).map some, none) :=
  QueryM.Refine.Gen_tips_refines { store := s, fuel := fuel }

/-- GetTip = `getTip` (incl. the accident that the tip query has no state filter) -/
theorem Gen_tip_refines (s : Store H) (fuel : Nat) : runQ s fuel (HeaderService_GetTip (H := H)) = .ok (getTip s) :=
  QueryM.Refine.Gen_tip_refines { store := s, fuel := fuel }

/-- GetHeaderByHash = `byHash` -/
theorem Gen_byhash_refines (s : Store H) (fuel : Nat) (h : H) :
    runQ s fuel (HeaderService_GetHeaderByHash h) =
      .ok (match byHash s h with | some r => (some r, none) | none => (none, some errNotFound)) :=
  QueryM.Refine.Gen_byhash_refines h { store := s, fuel := fuel }

/-! ### non-vacuity: the generated functions evaluated on the example stores of C13 and C04 -/

example : runQ C13.exStore 5 (HeaderService_LatestHeaderLocator (H := Nat)) = .ok [8, 7, 4, 3, 1000] ∧
    runQ C13.exStore 4 (HeaderService_LatestHeaderLocator (H := Nat)) = .error .outOfFuel ∧
    (runQ C13.exStore 0 (HeaderService_LocateHeadersGetHeaders [1000] 4)).toBool = true ∧
    runQ C04.exStore 3 (HeaderService_GetHeaderAncestorsByHash 6 1000) =
      .ok ([some C04.r6, some C04.r2, some C04.exRoot], none) ∧
    runQ C04.exStore 3 (HeaderService_GetCommonAncestor [4, 6]) = .ok (some C04.exRoot, none) ∧
    runQ C04.exStore 0 (HeaderService_GetCommonAncestor [4, 6]) = .error .outOfFuel ∧
    runQ C04.exStore 0 (HeaderService_GetTips (H := Nat)) = .ok ([some C04.r4, some C04.r6, some C04.r7], none) := by
  decide

/-! ### headline theorems of C13 over the generated definitions -/

/-- C13_locator for the translated source -/
theorem C13_locator_generated (cfg : Cfg H) (s : Store H) (t : Row H) (h : Inv cfg s) (htip : getTip s = some t)
    (fuel : Nat) (hf : t.height < fuel) :
    runQ s fuel HeaderService_LatestHeaderLocator =
      .ok ((lcRowsAt s (locHeights (t.height + 1) t.height 1 0)).map (·.hash)) ∧
    (lcRowsAt s (locHeights (t.height + 1) t.height 1 0)).map (·.height) = locHeights (t.height + 1) t.height 1 0 ∧
    ∀ r ∈ lcRowsAt s (locHeights (t.height + 1) t.height 1 0), r ∈ s ∧ r.st = .lc := by
  obtain ⟨e1, e2, e3⟩ := C13.C13_locator cfg s t h htip
  refine ⟨?_, e2, e3⟩
  rw [Gen_locator_refines s fuel (fun t' ht' => by rw [htip] at ht'; cases ht'; exact hf), e1]

example : Inv C13.exCfg C13.exStore ∧ getTip C13.exStore = some C13.exTip ∧ C13.exTip.height < 5 :=
  ⟨C13.exInv, C13.exTip_eq, by decide⟩

/-- C13_getheaders_lc and C13_getheaders_cap for the translated source: whatever the request, the answer holds only
    the headers of stored LONGEST_CHAIN rows — never a stale or orphan one — and never more than the cap -/
theorem C13_getheaders_generated (cfg : Cfg H) (s : Store H) (fuel : Nat) (loc : List H) (stop : H) (h : Inv cfg s) :
    ∃ res, runQ s fuel (HeaderService_LocateHeadersGetHeaders loc stop) = .ok res ∧
      res.1.length ≤ Gen.maxCFHeadersPerMsg ∧ ∀ x ∈ res.1, ∃ r ∈ s, r.st = .lc ∧ x = some (srcOf r) := by
  refine ⟨_, Gen_getheaders_refines s fuel loc stop, ?_⟩
  cases hg : getHeaders s default loc stop with
  | error e => cases e <;> exact ⟨Nat.zero_le _, fun x hx => by cases hx⟩
  | ok rows =>
    refine ⟨?_, ?_⟩
    · simpa [ghAnswer] using C13.C13_getheaders_cap cfg s default loc stop rows h hg
    · intro x hx
      simp only [ghAnswer, List.mem_map] at hx
      obtain ⟨r, hr, rfl⟩ := hx
      exact ⟨r, (C13.C13_getheaders_lc s default loc stop rows hg r hr).1,
        (C13.C13_getheaders_lc s default loc stop rows hg r hr).2, rfl⟩

example : Inv C13.exCfg C13.exStore := C13.exInv

/-- the two known findings of C13 are what the translated code does: an EMPTY locator is refused (on every store), and
    a stop hash equal to the root (height 0) is treated as absent — everything after the start is sent -/
theorem C13_findings_generated :
    (∀ (s : Store H) (fuel : Nat) (stop : H),
      runQ s fuel (HeaderService_LocateHeadersGetHeaders [] stop) = .ok ([], some (.msg "no locators provided"))) ∧
    runQ C13.exStore 0 (HeaderService_LocateHeadersGetHeaders [3] C13.exRoot.hash) =
      .ok ([some (srcOf (C13.exRow 3 4 3 3 2 12885098499 .lc)), some (srcOf (C13.exRow 6 7 4 6 3 17180131332 .lc)),
        some (srcOf C13.exTip)], none) := by
  refine ⟨fun s fuel stop => ?_, by decide⟩
  rw [Gen_getheaders_refines]
  rfl

/-! ### headline theorems of C04 over the generated definitions -/

theorem ancObs_ok {res : List (Option (Row H)) × Option QueryM.Err} {l : List (Option (Row H))}
    (h : ancObs res = some (.ok l)) : res = (l, none) := by
  obtain ⟨l', e⟩ := res
  cases e with
  | none => simp [ancObs] at h; rw [h]
  | some e =>
    simp only [ancObs] at h
    split at h
    · split at h
      · cases h
      · split at h
        · cases h
        · split at h <;> cases h
    · cases h

theorem caObs_found {res : Option (Row H) × Option QueryM.Err} {c : Row H} (h : caObs res = some (.found c)) :
    res = (some c, none) := by
  obtain ⟨r, e⟩ := res
  cases e with
  | none =>
    cases r with
    | none => simp [caObs] at h
    | some r => simp [caObs] at h; rw [h]
  | some e =>
    simp only [caObs] at h
    split at h
    · cases h
    · split at h <;> cases h

/-- C04_ancestors_partial for the translated source: for a connected header `r` and a proper ancestor `a`,
    GetHeaderAncestorsByHash answers the parent-linked path from `r` down to `a`; for `a = r` the empty list -/
theorem C04_ancestors_generated (cfg : Cfg H) (s : Store H) (fuel : Nat) (hw : WF cfg s) (r a : Row H) (hr : r ∈ s)
    (ha : a ∈ s) (hc : connected r) :
    (a = r → runQ s fuel (HeaderService_GetHeaderAncestorsByHash r.hash a.hash) = .ok ([], none)) ∧
    (C04.Anc s a r → a ≠ r →
      runQ s fuel (HeaderService_GetHeaderAncestorsByHash r.hash a.hash) = .ok ((C04.pathDown s r a).map some, none) ∧
      (C04.pathDown s r a).head? = some r ∧ (C04.pathDown s r a).getLast? = some a ∧ C04.Linked s (C04.pathDown s r a)) := by
  obtain ⟨h1, h2, _⟩ := C04.C04_ancestors_partial cfg s hw r a hr ha hc
  have key : ∀ rows, ancestors s r.hash a.hash = .ok rows →
      runQ s fuel (HeaderService_GetHeaderAncestorsByHash r.hash a.hash) = .ok (rows.map some, none) := by
    intro rows e
    have := Gen_ancestors_refines s fuel r.hash a.hash
    rw [e] at this
    cases hrun : runQ s fuel (HeaderService_GetHeaderAncestorsByHash r.hash a.hash) with
    | error f => rw [hrun] at this; cases this
    | ok res =>
      rw [hrun] at this
      simp only [Except.map, Except.ok.injEq] at this
      rw [ancObs_ok this]
  refine ⟨fun e => by simpa using key [] (h1 e), fun hanc hne => ?_⟩
  obtain ⟨e, p1, p2, p3, _⟩ := h2 hanc hne
  exact ⟨key _ e, p1, p2, p3⟩

example : WF C04.exCfg C04.exStore ∧ C04.r6 ∈ C04.exStore ∧ C04.exRoot ∈ C04.exStore ∧ connected C04.r6 ∧
    runQ C04.exStore 0 (HeaderService_GetHeaderAncestorsByHash C04.r6.hash C04.exRoot.hash) =
      .ok ([some C04.r6, some C04.r2, some C04.exRoot], none) := by decide

/-- C04_common_partial for the translated source: for connected stored rows with lowest height `m ≥ 1`,
    GetCommonAncestor answers the highest common ancestor below `m` -/
theorem C04_common_generated (cfg : Cfg H) (s : Store H) (fuel : Nat) (hf : ∀ r ∈ s, r.height < fuel) (hw : WF cfg s)
    (rows : List (Row H)) (hrows : ∀ r ∈ rows, r ∈ s ∧ connected r) (m : Nat) (hm1 : 1 ≤ m)
    (hle : ∀ r ∈ rows, m ≤ r.height) (hat : ∃ r ∈ rows, r.height = m) (hcap : m ≤ 2147483647) :
    ∃ c, runQ s fuel (HeaderService_GetCommonAncestor (rows.map (·.hash))) = .ok (some c, none) ∧
      (∀ r ∈ rows, C04.Anc s c r) ∧ c.height < m ∧
      ∀ c', (∀ r ∈ rows, C04.Anc s c' r) → c'.height < m → c'.height ≤ c.height := by
  obtain ⟨c, e, p1, p2, p3⟩ := C04.C04_common_partial cfg s hw rows hrows m hm1 hle hat hcap
  refine ⟨c, ?_, p1, p2, p3⟩
  have := Gen_common_refines s fuel (rows.map (·.hash)) hf
  rw [e] at this
  cases hrun : runQ s fuel (HeaderService_GetCommonAncestor (rows.map (·.hash))) with
  | error f => rw [hrun] at this; cases this
  | ok res =>
    rw [hrun] at this
    simp only [Except.map, Except.ok.injEq, caClass] at this
    rw [caObs_found this]

example : WF C04.exCfg C04.exStore ∧ (∀ r ∈ C04.exStore, r.height < 3) ∧
    runQ C04.exStore 3 (HeaderService_GetCommonAncestor ([C04.r4, C04.r6].map (·.hash))) = .ok (some C04.exRoot, none) := by
  decide

/-- C04_byheight and C04_tips_leaf for the translated source -/
theorem C04_byheight_generated (s : Store H) (fuel : Nat) (height count : Int) :
    ∃ l : List (Row H), runQ s fuel (HeaderService_GetHeadersByHeight height count) = .ok (l.map some, none) ∧
      l.Sublist s ∧
      ∀ r, r ∈ l ↔ r ∈ s ∧ height ≤ (r.height : Int) ∧ (r.height : Int) ≤ height + count - 1 :=
  ⟨_, Gen_byheight_refines s fuel height count, List.filter_sublist,
    fun r => (C04.C04_byheight s height (height + count - 1) r).1⟩

theorem C04_tips_generated (cfg : Cfg H) (s : Store H) (fuel : Nat) (h : Inv cfg s) :
    ∃ (t : Row H) (l : List (Row H)), runQ s fuel (HeaderService_GetTip (H := H)) = .ok (some t) ∧
      runQ s fuel (HeaderService_GetTips (H := H)) = .ok (l.map some, none) ∧
      ∀ r, r ∈ l ↔ r = t ∨ (r.st ≠ .lc ∧ C04.Leaf s r) := by
  obtain ⟨t, e, k⟩ := C04.C04_tips_leaf cfg s h
  exact ⟨t, allTips s, by rw [Gen_tip_refines, e], Gen_tips_refines s fuel, k⟩

example : Inv C04.exCfg C04.exStore := C04.exInv

end BHS.Props.HeaderSvcGen
