/-
C09 — Every API route is mediated by authentication; admin routes by admin token.

Decision logic: theorems over ALL header strings, token stores, handlers and worlds
(`BHS.Model.Auth`: parseAuthHeader / getToken / RequireAdmin as the code has them).
Routing table: theorems over `BHS.Gen.routes` / `BHS.Gen.adminWrapped`, REGENERATED on every
run from the gin engine wired as cmd/main.go does, for the 8 configurations
{use_auth} × {debug_profiling} × {metrics}; `decide` over that finite table is a proof and is
re-run whenever the table changes.

What the table alone can show: which routes exist outside the "/api/v1" prefix, and which
routes end in the RequireAdmin closure. That every route under the prefix really runs the group
middleware first is a fact about gin's dispatch: it is established dynamically by the
correspondence check (every run-time route × credential class against `serveRoute`).
-/
import BHS.Gen.Routes
import BHS.Proofs.Auth

namespace BHS.Props.C09
open BHS BHS.Model.Auth BHS.Proofs.Auth

/-! ### decision logic (∀ header strings, ∀ stores) -/

/-- With authentication enabled, a request to a route under the prefix that does not carry
    `Authorization: Bearer <admin token | stored token>` is answered 401, the handler does not
    run and nothing the handler could touch (tokens table, webhooks, headers, …) changes. -/
theorem C09_mediated {σ : Type} (env : Env) (r : Route) (handler : World σ → World σ) (w : World σ) (hdr : String)
    (hu : env.useAuth = true) (hr : behindAuth r = true) (hc : ¬ validCred env w.tokens hdr) :
    ∃ why, serveRoute env r handler w hdr = ⟨w, .unauthorized401 why, false⟩ := by
  obtain ⟨why, hw⟩ := (middleware_abort_iff env w.tokens hdr hu).2 hc
  exact ⟨why, by simp [serveRoute, hr, serve, authorize, hw]⟩

/-- …and conversely a valid credential always reaches the handler of a non-admin route (so the 401
    set is exactly the complement of the valid credentials), with `isAdmin` set iff the token is
    the admin token. -/
theorem C09_valid_passes {σ : Type} (env : Env) (r : Route) (handler : World σ → World σ) (w : World σ) (t : String)
    (hu : env.useAuth = true) (hr : behindAuth r = true) (ha : adminOnly r = false)
    (hs : ' ' ∉ t.toList) (hv : t = env.admin ∨ t ∈ w.tokens) :
    serveRoute env r handler w (bearer t) = ⟨handler w, .pass (some (decide (t = env.admin))), true⟩ := by
  have hg : getToken env.admin w.tokens t = some (decide (t = env.admin)) := by
    by_cases h : t = env.admin
    · simp [getToken, h]
    · have : t ∈ w.tokens := hv.resolve_left h
      simp [getToken, h, this]
  have hm := (middleware_next_iff env w.tokens (bearer t) hu (some (decide (t = env.admin)))).2
    ⟨t, _, rfl, rfl, hs, hg⟩
  simp [serveRoute, hr, serve, authorize, hm, ha, requireAdmin]

/-- the 401 answers of a non-admin route are exactly the non-credentials -/
theorem C09_401_iff (env : Env) (st : Store) (hdr : String) (hu : env.useAuth = true) :
    (∃ why, authorize env st false hdr = .unauthorized401 why) ↔ ¬ validCred env st hdr := by
  rw [← middleware_abort_iff env st hdr hu]
  unfold authorize
  cases h : middleware env st hdr with
  | abort w => simp
  | next c => simp [requireAdmin]

/-- Creating and revoking tokens additionally require the admin token: with authentication
    enabled, on the two RequireAdmin routes every header other than `Bearer <admin token>` is
    answered 401 without running the handler or changing anything — in particular a valid
    non-admin token (answer: ErrUnauthorized). -/
theorem C09_admin {σ : Type} (env : Env) (r : Route) (handler : World σ → World σ) (w : World σ) (hdr : String)
    (hu : env.useAuth = true) (hr : behindAuth r = true) (ha : adminOnly r = true) (hc : ¬ adminCred env hdr) :
    ∃ why, serveRoute env r handler w hdr = ⟨w, .unauthorized401 why, false⟩ := by
  rcases middleware_cases env w.tokens hdr with ⟨why, hw⟩ | ⟨c, hm⟩
  · exact ⟨why, by simp [serveRoute, hr, serve, authorize, hw]⟩
  · obtain ⟨t, a, rfl, h, hs, hg⟩ := (middleware_next_iff env w.tokens hdr hu c).1 hm
    cases a with
    | true =>
      exfalso
      have := (getToken_admin _ _ _).1 hg
      subst this
      exact hc ⟨h, hs⟩
    | false =>
      exact ⟨.notAdmin, by simp [serveRoute, hr, serve, authorize, hm, ha, hu, requireAdmin]⟩

/-- a stored (non-admin) token on a RequireAdmin route: 401 ErrUnauthorized exactly -/
theorem C09_admin_user_token (env : Env) (st : Store) (t : String)
    (hu : env.useAuth = true) (hs : ' ' ∉ t.toList) (hne : t ≠ env.admin) (hm : t ∈ st) :
    authorize env st true (bearer t) = .unauthorized401 .notAdmin := by
  have hg : getToken env.admin st t = some false := (getToken_user _ _ _).2 ⟨hne, hm⟩
  have := (middleware_next_iff env st (bearer t) hu (some false)).2 ⟨t, _, rfl, rfl, hs, hg⟩
  simp [authorize, this, hu, requireAdmin]

/-- the admin credential passes the RequireAdmin routes -/
theorem C09_admin_passes (env : Env) (st : Store) (hdr : String) (hu : env.useAuth = true) (hc : adminCred env hdr) :
    authorize env st true hdr = .pass (some true) := by
  obtain ⟨h, hs⟩ := hc
  have hg : getToken env.admin st env.admin = some true := (getToken_admin _ _ _).2 rfl
  have := (middleware_next_iff env st hdr hu (some true)).2 ⟨env.admin, _, rfl, h, hs, hg⟩
  simp [authorize, this, hu, requireAdmin]

/-- With authentication disabled every route is reachable without credentials: whatever the
    header, the handler runs (no token is put into the context; RequireAdmin(h,false) = h). -/
theorem C09_open_when_disabled {σ : Type} (env : Env) (r : Route) (handler : World σ → World σ) (w : World σ) (hdr : String)
    (hu : env.useAuth = false) :
    serveRoute env r handler w hdr = ⟨handler w, .pass none, true⟩ := by
  unfold serveRoute
  split
  · simp [serve, authorize, middleware_off env w.tokens hdr hu, hu, requireAdmin]
  · rfl

/-! ### the regenerated routing table -/

/-- all 8 configurations were extracted -/
theorem C09_table_complete (a p m : Bool) : (⟨a, p, m⟩ : Cfg) ∈ Gen.routes.map Prod.fst := by
  revert a p m; decide

private theorem outside_table :
    ∀ row ∈ Gen.routes, ∀ r ∈ row.2, allowedIn row.1 (kind r) = true := by decide

/-- In every configuration, every route of the engine's routing table that is not under the
    authenticated prefix is the status route, a swagger documentation route, the websocket
    upgrade, the metrics route (only when metrics are enabled) or a pprof route (only when
    profiling endpoints are enabled). -/
theorem C09_outside_prefix (c : Cfg) (rs : List Route) (hrow : (c, rs) ∈ Gen.routes) (r : Route) (hr : r ∈ rs) :
    behindAuth r = true ∨ kind r = .status ∨ kind r = .swagger ∨ kind r = .websocket ∨
      (kind r = .metrics ∧ c.metrics = true) ∨ (kind r = .pprof ∧ c.profiling = true) := by
  have h := outside_table (c, rs) hrow r hr
  cases hk : kind r <;> simp_all [allowedIn]
  -- kind = api: then behindAuth r
  unfold kind at hk
  split at hk
  · assumption
  · repeat (first | cases hk | split at hk)

/-- the optional root routes really are switched by their flags: no metrics route with metrics
    off, no pprof route with profiling off (contrapositive reading of the clause above) -/
theorem C09_optional_off (c : Cfg) (rs : List Route) (hrow : (c, rs) ∈ Gen.routes) (r : Route) (hr : r ∈ rs) :
    (c.metrics = false → kind r ≠ .metrics) ∧ (c.profiling = false → kind r ≠ .pprof) := by
  have h := outside_table (c, rs) hrow r hr
  constructor <;> intro hf hk <;> simp [hk, allowedIn, hf] at h

private theorem same_api_table :
    ∀ row ∈ Gen.routes, row.2.filter behindAuth = Gen.routes_t_f_f.filter behindAuth := by decide

/-- "the same routes": the set of routes under the prefix does not depend on the configuration
    (authentication on/off, profiling, metrics) -/
theorem C09_same_api_routes (c c' : Cfg) (rs rs' : List Route)
    (h : (c, rs) ∈ Gen.routes) (h' : (c', rs') ∈ Gen.routes) :
    rs.filter behindAuth = rs'.filter behindAuth := by
  rw [same_api_table _ h, same_api_table _ h']

private theorem admin_table :
    ∀ row ∈ Gen.adminWrapped, ∀ rts ∈ Gen.routes, rts.1 = row.1 →
      row.2 = if row.1.useAuth then rts.2.filter adminOnly else [] := by decide

/-- In every configuration the routes whose final handler is the `auth.RequireAdmin` closure are,
    with authentication on, exactly the token-creation and token-revocation routes
    (POST /api/v1/access, DELETE /api/v1/access/:token) and, with authentication off, none. -/
theorem C09_admin_routes (c : Cfg) (wr rs : List Route)
    (hw : (c, wr) ∈ Gen.adminWrapped) (hr : (c, rs) ∈ Gen.routes) :
    wr = if c.useAuth then rs.filter adminOnly else [] :=
  admin_table (c, wr) hw (c, rs) hr rfl

private theorem admin_present_table :
    ∀ row ∈ Gen.routes, row.2.filter adminOnly =
      [⟨"POST", "/api/v1/access"⟩, ⟨"DELETE", "/api/v1/access/:token"⟩] := by decide

/-- both access-management routes exist in every configuration and lie under the prefix -/
theorem C09_admin_routes_present (c : Cfg) (rs : List Route) (hr : (c, rs) ∈ Gen.routes) :
    rs.filter adminOnly = [⟨"POST", "/api/v1/access"⟩, ⟨"DELETE", "/api/v1/access/:token"⟩] ∧
    ∀ r ∈ rs, adminOnly r = true → behindAuth r = true := by
  refine ⟨admin_present_table _ hr, ?_⟩
  intro r _ ha
  simp only [adminOnly, Bool.or_eq_true, Bool.and_eq_true, beq_iff_eq] at ha
  rcases ha with ⟨_, hp⟩ | ⟨_, hp⟩ <;> simp only [behindAuth, hp] <;> decide

/-! ### non-vacuity -/

def envOn : Env := ⟨"adm1n", true⟩
def envOff : Env := ⟨"adm1n", false⟩
def w0 : World Nat := ⟨["tokA", "tokB"], 0⟩
def bump : World Nat → World Nat := fun w => ⟨w.tokens ++ ["x"], w.rest + 1⟩
def rTip : Route := ⟨"GET", "/api/v1/chain/tip"⟩
def rCreate : Route := ⟨"POST", "/api/v1/access"⟩

-- hypotheses of C09_mediated are met by non-trivial data, and the conclusion is what evaluation gives
example : behindAuth rTip = true := by decide
example : (serveRoute envOn rTip bump w0 "").decision = .unauthorized401 .missingHeader := by decide
example : (serveRoute envOn rTip bump w0 "Bearer").decision = .unauthorized401 .invalidHeader := by decide
example : (serveRoute envOn rTip bump w0 "Bearer ").decision = .unauthorized401 .invalidToken := by decide
example : (serveRoute envOn rTip bump w0 "bearer tokA").decision = .unauthorized401 .invalidHeader := by decide
example : (serveRoute envOn rTip bump w0 "Bearer tokA x").decision = .unauthorized401 .invalidHeader := by decide
example : (serveRoute envOn rTip bump w0 "Bearer  tokA").decision = .unauthorized401 .invalidHeader := by decide
example : (serveRoute envOn rTip bump w0 " Bearer tokA").decision = .unauthorized401 .invalidHeader := by decide
example : (serveRoute envOn rTip bump w0 "Bearer tokC").decision = .unauthorized401 .invalidToken := by decide
example : (serveRoute envOn rTip bump w0 "Bearer tokC").world.rest = 0 := by decide
example : (serveRoute envOn rTip bump w0 "Bearer tokA").decision = .pass (some false) := by decide
example : (serveRoute envOn rTip bump w0 "Bearer tokA").world.rest = 1 := by decide
example : (serveRoute envOn rTip bump w0 "Bearer adm1n").decision = .pass (some true) := by decide
example : (serveRoute envOn rCreate bump w0 "Bearer tokA").decision = .unauthorized401 .notAdmin := by decide
example : (serveRoute envOn rCreate bump w0 "Bearer tokA").handlerRan = false := by decide
example : (serveRoute envOn rCreate bump w0 "Bearer adm1n").handlerRan = true := by decide
example : (serveRoute envOff rCreate bump w0 "").decision = .pass none := by decide
example : (serveRoute envOff rTip bump w0 "garbage").handlerRan = true := by decide
example : validCred envOn w0.tokens "Bearer tokB" := ⟨"tokB", rfl, by decide, Or.inr (by decide)⟩
example : ¬ adminCred envOn "Bearer tokA" := by
  rintro ⟨h, _⟩; revert h; decide
-- the table rows are non-trivial: each configuration has routes outside the prefix
example : (Gen.routes_t_t_t.filter (fun r => !behindAuth r)).length = 15 := by decide
example : (Gen.routes_t_f_f.filter (fun r => !behindAuth r)).map kind = [.websocket, .status, .swagger] := by decide
example : (⟨true, false, false⟩, Gen.routes_t_f_f) ∈ Gen.routes := by decide
example : (Gen.routes_t_f_f.filter behindAuth).length = 17 := by decide

end BHS.Props.C09
