/-
C10 — Issued tokens authenticate from creation until revocation, and never after.

The lifecycle machine `BHS.Model.Auth.step/run` (POST /api/v1/access, DELETE /api/v1/access/<t>,
an authenticated HTTP request, a websocket connect, a restart) is refined to a SET of strings
(`BHS.Spec.Auth`, a membership predicate). All theorems quantify over all operation sequences,
all header strings and all initial tables; the token value of a `create` is chosen by the
environment (`uniuri.NewLen(32)` in the code).
-/
import BHS.Proofs.Auth
import BHS.Spec.Auth

namespace BHS.Props.C10
open BHS BHS.Model.Auth BHS.Proofs.Auth BHS.Spec.Auth

/-- abstraction: the tokens table as a set -/
def abs (s : Sys) : TokSet := fun u => u ∈ s.store

/-- the abstract reading of an operation: only an admin-authorised create/revoke touches the set -/
def toA (env : Env) : Op → AOp
  | .create hdr t => .create (adminPass env hdr = true) t
  | .revoke hdr t => .revoke (adminPass env hdr = true) t
  | _ => .other

/-! ### who authenticates -/

/-- `GetToken` succeeds exactly for the admin token and the members of the set, and says
    `IsAdmin` exactly for the admin token (admin compare first, even if the value is also stored). -/
theorem C10_auth_iff (s : Sys) (t : String) :
    ((getToken s.env.admin s.store t).isSome = true ↔ valid s.env.admin (abs s) t) ∧
    (getToken s.env.admin s.store t = some true ↔ t = s.env.admin) :=
  ⟨getToken_isSome _ _ _, getToken_admin _ _ _⟩

/-- HTTP: with authentication on, `Authorization: Bearer t` (t space-free) reaches the handler of
    an ordinary API route iff `t` is valid, as admin iff `t` is the admin token; otherwise the
    answer is 401 ErrInvalidAccessToken. -/
theorem C10_http (s : Sys) (t : String) (hu : s.env.useAuth = true) (hs : ' ' ∉ t.toList) :
    (valid s.env.admin (abs s) t →
      authorize s.env s.store false (bearer t) = .pass (some (decide (t = s.env.admin)))) ∧
    (¬ valid s.env.admin (abs s) t →
      authorize s.env s.store false (bearer t) = .unauthorized401 .invalidToken) := by
  constructor
  · intro hv
    have hg : getToken s.env.admin s.store t = some (decide (t = s.env.admin)) := by
      by_cases h : t = s.env.admin
      · simp [getToken, h]
      · have : t ∈ s.store := hv.resolve_left h
        simp [getToken, h, this]
    have hm := (middleware_next_iff s.env s.store (bearer t) hu _).2 ⟨t, _, rfl, rfl, hs, hg⟩
    simp [authorize, hm, requireAdmin]
  · intro hv
    have hg : getToken s.env.admin s.store t = none :=
      (getToken_none _ _ _).2 ⟨fun h => hv (Or.inl h), fun h => hv (Or.inr h)⟩
    have hp := (parse_token_iff (bearer t) t).2 ⟨rfl, hs⟩
    simp [authorize, middleware, hu, hp, hg]

/-- websocket connect handshake: with authentication on, connects iff `t` is valid -/
theorem C10_ws (s : Sys) (t : String) (hu : s.env.useAuth = true) :
    wsConnect s.env s.store t = true ↔ valid s.env.admin (abs s) t := by
  simp only [wsConnect, hu, if_true]
  exact getToken_isSome _ _ _

/-- HTTP and websocket use the same predicate -/
theorem C10_http_ws_same (s : Sys) (t : String) (hu : s.env.useAuth = true) (hs : ' ' ∉ t.toList) :
    (∃ c, authorize s.env s.store false (bearer t) = .pass c) ↔ wsConnect s.env s.store t = true := by
  rw [C10_ws s t hu]
  obtain ⟨h1, h2⟩ := C10_http s t hu hs
  constructor
  · rintro ⟨c, hc⟩
    apply Classical.byContradiction
    intro hv
    rw [h2 hv] at hc; cases hc
  · intro hv; exact ⟨_, h1 hv⟩

/-! ### refinement to the set machine -/

/-- one step refines the abstract step; the configuration (admin token, use_auth) never changes -/
theorem C10_refines_step (s : Sys) (op : Op) (u : String) :
    (abs (step s op) u ↔ astep (abs s) (toA s.env op) u) ∧ (step s op).env = s.env := by
  refine ⟨?_, env_step s op⟩
  have := mem_step s op u
  cases op <;> simpa [abs, toA, astep] using this

/-- every run refines the abstract run -/
theorem C10_refines (s : Sys) (ops : List Op) (u : String) :
    abs (run s ops) u ↔ arun (abs s) (ops.map (toA s.env)) u := by
  induction ops generalizing s with
  | nil => exact Iff.rfl
  | cons o os ih =>
    rw [run_cons, ih (step s o), env_step]
    simp only [List.map_cons, arun]
    have hfun : abs (step s o) = astep (abs s) (toA s.env o) :=
      funext fun v => propext (C10_refines_step s o v).1
    rw [hfun]

/-- the primary key: the table never holds a value twice -/
theorem C10_nodup (s : Sys) (ops : List Op) (h : s.store.Nodup) : (run s ops).store.Nodup := by
  induction ops generalizing s with
  | nil => exact h
  | cons o os ih =>
    rw [run_cons]
    apply ih
    cases o with
    | create hdr t =>
      simp only [step]; split
      · exact nodup_insertTok _ _ h
      · exact h
    | revoke hdr t =>
      simp only [step]; split
      · exact nodup_deleteTok _ _ h
      · exact h
    | auth _ => exact h
    | ws _ => exact h
    | restart => exact h

/-! ### create / revoke -/

/-- an admin-authorised create makes exactly `t` valid in addition; when `t` is not in the table
    exactly one row is appended -/
theorem C10_create (s : Sys) (hdr t : String) (ha : adminPass s.env hdr = true) :
    (∀ u, valid s.env.admin (abs (step s (.create hdr t))) u ↔ valid s.env.admin (abs s) u ∨ u = t) ∧
    (t ∉ s.store → (step s (.create hdr t)).store = s.store ++ [t]) := by
  constructor
  · intro u
    have := mem_step s (.create hdr t) u
    simp only [ha, true_and] at this
    simp only [valid, abs, this]
    constructor
    · rintro (h | h | h) <;> simp [h]
    · rintro ((h | h) | h) <;> simp [h]
  · intro hn
    obtain ⟨c, hc⟩ := (authorize_admin_pass s.env s.store hdr).2 ha
    simp [step, hc, insertTok, hn]

/-- an admin-authorised revoke removes exactly `t` from the set; the admin token stays valid -/
theorem C10_revoke (s : Sys) (hdr t : String) (ha : adminPass s.env hdr = true) (u : String) :
    (abs (step s (.revoke hdr t)) u ↔ abs s u ∧ u ≠ t) ∧
    valid s.env.admin (abs (step s (.revoke hdr t))) s.env.admin := by
  have := mem_step s (.revoke hdr t) u
  simp only [ha, true_and] at this
  exact ⟨by simpa [abs] using this, Or.inl rfl⟩

/-- revoking an unknown value, an already revoked token, or the admin token (which is not a row)
    changes nothing -/
theorem C10_revoke_noop (s : Sys) (hdr t : String) (hn : t ∉ s.store) : step s (.revoke hdr t) = s := by
  simp only [step]
  split
  · rw [deleteTok_absent _ _ hn]
  · rfl

/-- create and revoke without the admin credential (authentication on) change nothing -/
theorem C10_needs_admin (s : Sys) (hdr t : String) (ha : adminPass s.env hdr = false) :
    step s (.create hdr t) = s ∧ step s (.revoke hdr t) = s := by
  have hw : ∃ w, authorize s.env s.store true hdr = .unauthorized401 w := by
    rcases authorize_cases s.env s.store true hdr with hc | hw
    · have := (authorize_admin_pass s.env s.store hdr).1 hc
      rw [ha] at this; cases this
    · exact hw
  obtain ⟨w, hw⟩ := hw
  simp [step, hw]

/-- no operation changes the validity of any token other than the one it names -/
theorem C10_others_unchanged (s : Sys) (op : Op) (u : String)
    (hne : ∀ hdr t, (op = .create hdr t ∨ op = .revoke hdr t) → u ≠ t) :
    valid s.env.admin (abs (step s op)) u ↔ valid s.env.admin (abs s) u := by
  have := mem_step s op u
  cases op with
  | create hdr t =>
    have hu := hne hdr t (Or.inl rfl)
    simp only [hu, and_false, or_false] at this
    simp only [valid, abs, this]
  | revoke hdr t =>
    have hu := hne hdr t (Or.inr rfl)
    simp only [hu, and_false, not_false_eq_true, and_true] at this
    simp only [valid, abs, this]
  | auth h => simp only [valid, abs]; simp only at this; rw [this]
  | ws t => simp only [valid, abs]; simp only at this; rw [this]
  | restart => simp only [valid, abs]; simp only at this; rw [this]

/-- restart (reopen the same file, same configuration), authenticated requests and websocket
    connects leave the state as it is -/
theorem C10_restart_id (s : Sys) (h t : String) :
    step s .restart = s ∧ step s (.auth h) = s ∧ step s (.ws t) = s := ⟨rfl, rfl, rfl⟩

/-! ### histories -/

private theorem stays_in (s : Sys) (post : List Op) (t : String)
    (hno : ∀ h, Op.revoke h t ∉ post) (hin : t ∈ s.store) : t ∈ (run s post).store := by
  induction post generalizing s with
  | nil => exact hin
  | cons o os ih =>
    rw [run_cons]
    apply ih
    · intro h hm; exact hno h (List.mem_cons_of_mem _ hm)
    · rw [mem_step]
      cases o with
      | create hdr t' => exact Or.inl hin
      | revoke hdr t' =>
        refine ⟨hin, ?_⟩
        rintro ⟨_, rfl⟩
        exact hno hdr (List.mem_cons_self)
      | auth _ => exact hin
      | ws _ => exact hin
      | restart => exact hin

private theorem stays_out (s : Sys) (post : List Op) (t : String)
    (hno : ∀ h, Op.create h t ∉ post) (hout : t ∉ s.store) : t ∉ (run s post).store := by
  induction post generalizing s with
  | nil => exact hout
  | cons o os ih =>
    rw [run_cons]
    apply ih
    · intro h hm; exact hno h (List.mem_cons_of_mem _ hm)
    · rw [mem_step]
      cases o with
      | create hdr t' =>
        rintro (h | ⟨_, rfl⟩)
        · exact hout h
        · exact hno hdr (List.mem_cons_self)
      | revoke hdr t' => exact fun h => hout h.1
      | auth _ => exact hout
      | ws _ => exact hout
      | restart => exact hout

/-- FROM CREATION UNTIL REVOCATION: after an admin-authorised create of `t`, whatever happens
    before and after (other creates and revokes, requests, connects, restarts), `t` is valid as
    long as no revoke names it — on HTTP and on the websocket. -/
theorem C10_until_revoked (s : Sys) (pre post : List Op) (hdr t : String)
    (ha : adminPass s.env hdr = true) (hno : ∀ h, Op.revoke h t ∉ post) :
    let s' := run s (pre ++ .create hdr t :: post)
    t ∈ s'.store ∧ valid s'.env.admin (abs s') t ∧ (s'.env.useAuth = true → wsConnect s'.env s'.store t = true) := by
  intro s'
  have hin : t ∈ s'.store := by
    show t ∈ (run s (pre ++ .create hdr t :: post)).store
    rw [run_append, run_cons]
    apply stays_in _ _ _ hno
    rw [mem_step]
    exact Or.inr ⟨by rw [env_run]; exact ha, rfl⟩
  exact ⟨hin, Or.inr hin, fun hu => (C10_ws s' t hu).2 (Or.inr hin)⟩

/-- AND NEVER AFTER: after an admin-authorised revoke of `t` (t not the admin token), as long as
    no later create hands out the same value again, `t` is not in the table, `GetToken` fails,
    HTTP answers 401 ErrInvalidAccessToken and the websocket handshake is rejected — also across
    restarts. -/
theorem C10_never_after (s : Sys) (pre post : List Op) (hdr t : String)
    (ha : adminPass s.env hdr = true) (hno : ∀ h, Op.create h t ∉ post) (hadm : t ≠ s.env.admin) :
    let s' := run s (pre ++ .revoke hdr t :: post)
    t ∉ s'.store ∧ ¬ valid s'.env.admin (abs s') t ∧ getToken s'.env.admin s'.store t = none ∧
    (s'.env.useAuth = true → wsConnect s'.env s'.store t = false) ∧
    (s'.env.useAuth = true → ' ' ∉ t.toList →
        authorize s'.env s'.store false (bearer t) = .unauthorized401 .invalidToken) := by
  intro s'
  have henv : s'.env = s.env := env_run _ _
  have hout : t ∉ s'.store := by
    show t ∉ (run s (pre ++ .revoke hdr t :: post)).store
    rw [run_append, run_cons]
    apply stays_out _ _ _ hno
    rw [mem_step]
    rintro ⟨_, h⟩
    exact h ⟨by rw [env_run]; exact ha, rfl⟩
  have hnv : ¬ valid s'.env.admin (abs s') t := by
    rintro (h | h)
    · exact hadm (by rw [← henv]; exact h)
    · exact hout h
  refine ⟨hout, hnv, (getToken_none _ _ _).2 ⟨by rw [henv]; exact hadm, hout⟩, ?_, ?_⟩
  · intro hu
    cases hw : wsConnect s'.env s'.store t with
    | false => rfl
    | true => exact absurd ((C10_ws s' t hu).1 hw) hnv
  · intro hu hs
    exact (C10_http s' t hu hs).2 hnv

/-- the tokens table only ever holds initial rows and values handed out by successful creates -/
theorem C10_store_subset_issued (s : Sys) (ops : List Op) (u : String)
    (h : u ∈ (run s ops).store) : u ∈ s.store ∨ u ∈ issued s.env ops := by
  induction ops generalizing s with
  | nil => exact Or.inl h
  | cons o os ih =>
    rw [run_cons] at h
    rcases ih (step s o) h with h' | h'
    · rw [mem_step] at h'
      cases o with
      | create hdr t =>
        rcases h' with h' | ⟨hp, rfl⟩
        · exact Or.inl h'
        · exact Or.inr (by simp [issued, hp])
      | revoke hdr t => exact Or.inl h'.1
      | auth _ => exact Or.inl h'
      | ws _ => exact Or.inl h'
      | restart => exact Or.inl h'
    · rw [env_step] at h'
      refine Or.inr ?_
      simp only [issued, List.filterMap_cons] at h' ⊢
      split
      · exact h'
      · exact List.mem_cons_of_mem _ h'

/-! ### the admin token -/

-- Full statement of the property's last clause:
--   ∀ s ops, useAuth → authorize (run s ops).env (run s ops).store a (bearer s.env.admin) = .pass (some true)
-- It FAILS for a configured admin token that contains a space (the header parser splits on every
-- space and wants exactly two parts; config.Validate does not reject such a token): see
-- `C10_admin_always_counterexample` and docs/findings/C10.md. The `_partial` theorem excludes
-- exactly those configurations; the websocket handshake and `GetToken` are unaffected.

/-- The configured admin token always authenticates as admin and cannot be disabled through the
    API: after ANY sequence of operations the configuration is unchanged, `GetToken admin` says
    admin, the websocket handshake accepts it, and (admin token space-free) `Bearer <admin>` passes
    every API route — RequireAdmin ones included — as admin. -/
theorem C10_admin_always_partial (s : Sys) (ops : List Op) (hs : ' ' ∉ s.env.admin.toList) :
    let s' := run s ops
    s'.env = s.env ∧ getToken s'.env.admin s'.store s.env.admin = some true ∧
    wsConnect s'.env s'.store s.env.admin = true ∧
    (s'.env.useAuth = true → ∀ a, authorize s'.env s'.store a (bearer s.env.admin) = .pass (some true)) := by
  intro s'
  have henv : s'.env = s.env := env_run _ _
  have hg : getToken s'.env.admin s'.store s.env.admin = some true := (getToken_admin _ _ _).2 (by rw [henv])
  refine ⟨henv, hg, ?_, ?_⟩
  · simp only [wsConnect]; split
    · rw [hg]; rfl
    · rfl
  · intro hu a
    have hm := (middleware_next_iff s'.env s'.store (bearer s.env.admin) hu (some true)).2
      ⟨s.env.admin, _, rfl, rfl, hs, hg⟩
    cases a <;> simp [authorize, hm, requireAdmin]

/-- a configured admin token with a space never authenticates over HTTP (401 invalid auth header),
    although the websocket handshake accepts it -/
theorem C10_admin_always_counterexample :
    let s : Sys := ⟨⟨"ad min", true⟩, []⟩
    authorize s.env s.store false (bearer s.env.admin) = .unauthorized401 .invalidHeader ∧
    wsConnect s.env s.store s.env.admin = true := by decide

/-! ### pairwise distinct -/

/-- the generator hypothesis (TRUSTED: 32 characters from crypto/rand through uniuri; the code does
    not check for a conflict — `INSERT … ON CONFLICT DO NOTHING` answers 200 with the colliding
    value): every value handed out by a successful create was never handed out before. -/
def FreshGen (env : Env) (ops : List Op) : Prop :=
  ∀ pre hdr t post, ops = pre ++ .create hdr t :: post → adminPass env hdr = true → t ∉ issued env pre

private theorem distinct_aux (env : Env) (ops : List Op) (seen : List String) (hseen : seen.Nodup)
    (hf : ∀ pre hdr t post, ops = pre ++ .create hdr t :: post → adminPass env hdr = true →
      t ∉ seen ++ issued env pre) : (seen ++ issued env ops).Nodup := by
  induction ops generalizing seen with
  | nil => simpa [issued] using hseen
  | cons o os ih =>
    have hrest : ∀ (seen' : List String), (∀ x, x ∈ seen' ↔ x ∈ seen ++ issued env [o]) →
        ∀ pre hdr t post, os = pre ++ .create hdr t :: post → adminPass env hdr = true →
          t ∉ seen' ++ issued env pre := by
      intro seen' hs' pre hdr t post e hp hm
      apply hf (o :: pre) hdr t post (by rw [e]; rfl) hp
      rw [List.mem_append] at hm ⊢
      rcases hm with hm | hm
      · have := (hs' t).1 hm
        rw [List.mem_append] at this
        rcases this with h | h
        · exact Or.inl h
        · refine Or.inr ?_
          have : issued env (o :: pre) = issued env [o] ++ issued env pre := by
            simp [issued, List.filterMap_cons]; split <;> simp
          rw [this]; exact List.mem_append_left _ h
      · refine Or.inr ?_
        have : issued env (o :: pre) = issued env [o] ++ issued env pre := by
          simp [issued, List.filterMap_cons]; split <;> simp
        rw [this]; exact List.mem_append_right _ hm
    have hsplit : issued env (o :: os) = issued env [o] ++ issued env os := by
      simp [issued, List.filterMap_cons]; split <;> simp
    rw [hsplit, ← List.append_assoc]
    apply ih
    · -- seen ++ issued [o] is duplicate-free
      cases o with
      | create hdr t =>
        by_cases hp : adminPass env hdr = true
        · have hnew := hf [] hdr t os rfl hp
          simp only [issued, List.filterMap_nil, List.append_nil] at hnew
          simp only [issued, List.filterMap_cons, hp, if_true, List.filterMap_nil]
          rw [List.nodup_append]
          refine ⟨hseen, by simp, ?_⟩
          intro a ha b hb
          simp only [List.mem_singleton] at hb
          subst hb
          rintro rfl
          exact hnew ha
        · simpa [issued, List.filterMap_cons, hp] using hseen
      | revoke _ _ => simpa [issued] using hseen
      | auth _ => simpa [issued] using hseen
      | ws _ => simpa [issued] using hseen
      | restart => simpa [issued] using hseen
    · exact hrest _ (fun _ => Iff.rfl)

/-- Issued tokens are pairwise distinct — under the explicit hypothesis that the generator never
    repeats a value. -/
theorem C10_distinct (env : Env) (ops : List Op) (hf : FreshGen env ops) : (issued env ops).Nodup := by
  have := distinct_aux env ops [] List.nodup_nil (by simpa [FreshGen] using hf)
  simpa using this

/-- …and the hypothesis is needed: the code does not detect a repeated value (both requests are
    answered as successful and hand out the same token). -/
theorem C10_distinct_needs_fresh :
    let env : Env := ⟨"adm1n", true⟩
    let ops := [Op.create "Bearer adm1n" "same", Op.create "Bearer adm1n" "same"]
    issued env ops = ["same", "same"] ∧ (run ⟨env, []⟩ ops).store = ["same"] ∧
    answer (run ⟨env, []⟩ [Op.create "Bearer adm1n" "same"]) (Op.create "Bearer adm1n" "same") = "pass admin" := by decide

/-! ### non-vacuity -/

def s0 : Sys := ⟨⟨"adm1n", true⟩, ["old"]⟩
def A : String := "Bearer adm1n"

example : adminPass s0.env A = true := by decide
example : adminPass s0.env "Bearer old" = false := by decide
example : (run s0 [.create A "t1", .auth "Bearer t1", .restart, .create A "t2", .revoke A "t1", .ws "t1"]).store = ["old", "t2"] := by decide
example : answer (run s0 [.create A "t1"]) (.auth "Bearer t1") = "pass user" := by decide
example : answer (run s0 [.create A "t1", .revoke A "t1"]) (.auth "Bearer t1") = "401 ErrInvalidAccessToken" := by decide
example : answer (run s0 [.create A "t1", .revoke A "t1"]) (.ws "t1") = "rejected" := by decide
example : answer (run s0 [.create A "t1", .restart]) (.ws "t1") = "connected" := by decide
example : answer (run s0 [.revoke A "adm1n"]) (.auth A) = "pass admin" := by decide
example : answer s0 (.revoke "Bearer old" "old") = "401 ErrUnauthorized" := by decide
example : (run s0 [.revoke "Bearer old" "old"]).store = ["old"] := by decide
example : (run s0 [.create A "adm1n", .revoke A "adm1n"]).store = ["old"] := by decide
example : answer (run s0 [.create A "adm1n"]) (.auth A) = "pass admin" := by decide
example : FreshGen s0.env [.create A "t1", .revoke A "t1", .create A "t2"] := by
  intro pre hdr t post e hp
  match pre, e with
  | [], e => simp [issued]
  | [_], e => simp at e
  | [_, _], e =>
    simp only [List.cons_append, List.nil_append, List.cons.injEq, Op.create.injEq] at e
    obtain ⟨rfl, rfl, ⟨-, rfl⟩, rfl⟩ := e
    decide
  | _ :: _ :: _ :: pre, e => simp at e

end BHS.Props.C10
