/-
Webhooks (C12): the REGENERATED webhook code refines the hand model.

`BHS.Gen.HookSvc` is produced on every run by harness/cmd/extract/gen_hooksvc.go from
  /repo/notification/webhooks_service.go             (*WebhooksService).CreateWebhook, refreshWebhook, DeleteWebhook, Notify, GetWebhookByURL
  /repo/notification/webhooks.go                     (*Webhook).Notify, updateWebhookAfterNotification, CreateWebhook
  /repo/database/repository/webhooks_repository.go   (*WebhooksRepository).AddWebhookToDatabase, DeleteWebhookByURL, GetWebhookByURL, GetAllWebhooks, UpdateWebhook
  /repo/repository/dto/webhooks.go                   (*DbWebhook).ToWebhook, ToDbWebhook
  /repo/database/sql/webhooks.go                     (*HeadersDb).CreateWebhook, GetWebhookByURL, GetAllWebhooks, DeleteWebhookByURL, UpdateWebhook
— a statement-by-statement translation into the state monad `HookM` (subset, primitive table, effect and skip lists in the
header of the translator; vocabulary in BHS/Model/HookSvcPrim.lean). The HTTP client call and the five SQL statements
stay primitives (the statements keyed by the NAME of the SQL constant; their texts are pinned by Gen.HookSql /
C12_sql_shape), time is a parameter.

The theorems below say that, for EVERY table, configuration, clock, scripted outcome function (every reply status and
body, transport error, unreadable body), client (scripted / production) and argument, each translated function
terminates without a fault (no nil dereference, no transaction left open) and yields exactly what the hand model
(BHS/Model/Hooks.lean: `sqlInsert … sqlUpdate`, `toWebhook`, `updateAfter`, `afterOutcome`, `attempt`, `register`,
`delete`, `get`, `notify`, `step`, `run`) yields: the next table, the answer, the client calls with their complete header
maps. Hence every C12 theorem about the hand model is a theorem about what the Go source says now (the headline ones
are re-stated over the generated definitions in Props/HookSvcGenC12.lean), and an edit of one of the Go functions
changes `Gen/HookSvc.lean` and re-opens these obligations. `max_tries` is a natural number here (Go `int` ↦ `Nat`,
see HookSvcPrim.lean); no theorem of this file needs `max_tries ≥ 1`.

The only hypothesis is `url ≠ ""` in the three endpoint-facing theorems: the hand model's `register` / `delete` / `get`
begin with the refusal of an empty url, which in the Go code is done by the HTTP handlers
(transports/http/endpoints/api/webhook/endpoints.go), not by the translated service methods. `genStep` adds exactly
that refusal by hand, so `Gen_step_refines` / `Gen_run_refines` have no hypothesis at all.

The client calls are compared through `wire`: the generated code records the header MAP it hands to the client
(`Content-Type` + the authorisation entry, the latter left out when its name is empty), the hand model the pair
`(TokenHeader, Token)`; `wireHeaders` is the map for such a pair.

This file deliberately does not import Props/C12.lean: a change of the Go code shows up here on its own.
-/
import BHS.Gen.HookSvc
import BHS.Proofs.HookSvcGen

set_option linter.unusedSimpArgs false
set_option linter.unusedVariables false

namespace BHS.Props.HookSvcGen
open BHS BHS.Model.Hooks BHS.HookSvcPrim BHS.Gen.HookSvc BHS.Proofs.Hooks BHS.Proofs.HookSvcGen

/-! ## A. the SQL layer (database/sql/webhooks.go) = the hand model's statement functions -/

/-- `HeadersDb.CreateWebhook` = `sqlInsert` (committed), or ErrCreateWebhook and an unchanged table -/
theorem sql_CreateWebhook_refines (env : Env) (r : Row) (t : List Row) (log : List Wire) :
    HeadersDb_CreateWebhook env (some r) ⟨t, none, log⟩ =
      .ok (match sqlInsert t r.url r.tokenHeader r.token with
        | some t' => (none, ⟨t', none, log⟩)
        | none => (some (.bhsWrap "ErrCreateWebhook" .uniqueViolation), ⟨t, none, log⟩)) := by
  cases h : sqlInsert t r.url r.tokenHeader r.token <;>
  simp [HeadersDb_CreateWebhook, dbBeginTxx, txDeferRollback, txNamedExec_sqlInsertWebhook, txStmt, txCommit, deref, bhsWrap, h,
    bind, StateT.bind, Except.bind, pure, StateT.pure, Except.pure]

/-- `HeadersDb.GetWebhookByURL` = `sqlGetByUrl`, or ErrWebhookNotFound -/
theorem sql_GetWebhookByURL_refines (env : Env) (u : String) (w : World) :
    HeadersDb_GetWebhookByURL env u w =
      .ok (match sqlGetByUrl w.table u with
        | some r => (some r, none)
        | none => (none, some (.bhsWrap "ErrWebhookNotFound" .sqlNoRows)), w) := by
  cases h : sqlGetByUrl w.table u <;>
  simp [HeadersDb_GetWebhookByURL, dbGet_sqlGetWebhookByURL, bhsWrap, h,
    bind, StateT.bind, Except.bind, pure, StateT.pure, Except.pure]

/-- `HeadersDb.UpdateWebhook` = `sqlUpdate` (committed) with each argument bound to the placeholder of its meaning -/
theorem sql_UpdateWebhook_refines (env : Env) (u : String) (la : Stamp) (ls : Status) (e : Nat) (a : Bool) (t : List Row) (log : List Wire) :
    HeadersDb_UpdateWebhook env u la ls e a ⟨t, none, log⟩ = .ok (none, ⟨sqlUpdate t u ls la e a, none, log⟩) := by
  simp [HeadersDb_UpdateWebhook, dbBeginTxx, txDeferRollback, sqlxIn_sqlUpdateWebhook, txExec, txStmt, txCommit, errorsWrap,
    bind, StateT.bind, Except.bind, pure, StateT.pure, Except.pure]

/-- `HeadersDb.DeleteWebhookByURL` = `sqlDelete` (committed) -/
theorem sql_DeleteWebhookByURL_refines (env : Env) (u : String) (t : List Row) (log : List Wire) :
    HeadersDb_DeleteWebhookByURL env u ⟨t, none, log⟩ = .ok (none, ⟨sqlDelete t u, none, log⟩) := by
  simp [HeadersDb_DeleteWebhookByURL, dbBeginTxx, txDeferRollback, txNamedExec_sqlDeleteWebhookByURL, txStmt, txCommit, bhsWrap,
    bind, StateT.bind, Except.bind, pure, StateT.pure, Except.pure]

/-- `HeadersDb.GetAllWebhooks` = `sqlGetAll` -/
theorem sql_GetAllWebhooks_refines (env : Env) (w : World) :
    HeadersDb_GetAllWebhooks env w = .ok (((sqlGetAll w.table).map some, none), w) := by
  simp [HeadersDb_GetAllWebhooks, dbSelect_sqlGetAllWebhooks, sqlGetAll,
    bind, StateT.bind, Except.bind, pure, StateT.pure, Except.pure]

/-! ## B. repository + DTO mapping (database/repository/webhooks_repository.go, repository/dto/webhooks.go) -/

/-- `AddWebhookToDatabase` (through `ToDbWebhook`) inserts url, header and token of the webhook -/
theorem repo_AddWebhookToDatabase_refines (env : Env) (h : Hook) (t : List Row) (log : List Wire) :
    WebhooksRepository_AddWebhookToDatabase env (some h) ⟨t, none, log⟩ =
      .ok (match sqlInsert t h.url h.tokenHeader h.token with
        | some t' => (none, ⟨t', none, log⟩)
        | none => (some (.bhsWrap "ErrCreateWebhook" .uniqueViolation), ⟨t, none, log⟩)) := by
  simp [WebhooksRepository_AddWebhookToDatabase, dto_ToDbWebhook, sql_CreateWebhook_refines, deref,
    bind, StateT.bind, Except.bind, pure, StateT.pure, Except.pure]

/-- `GetWebhookByURL` (through `ToWebhook`): the row with every column copied (`rawHook`), or ErrWebhookNotFound -/
theorem repo_GetWebhookByURL_refines (env : Env) (u : String) (w : World) :
    WebhooksRepository_GetWebhookByURL env u w =
      .ok (match sqlGetByUrl w.table u with
        | some r => (some (rawHook r), none)
        | none => (none, some (.bhsWrap "ErrWebhookNotFound" .sqlNoRows)), w) := by
  cases h : sqlGetByUrl w.table u <;>
  simp [WebhooksRepository_GetWebhookByURL, sql_GetWebhookByURL_refines, DbWebhook_ToWebhook, deref, rawHook, h,
    bind, StateT.bind, Except.bind, pure, StateT.pure, Except.pure]

/-- `UpdateWebhook` = the hand model's `repoUpdate`: the four mutable fields into the row with the webhook's url -/
theorem repo_UpdateWebhook_refines (env : Env) (h : Hook) (t : List Row) (log : List Wire) :
    WebhooksRepository_UpdateWebhook env (some h) ⟨t, none, log⟩ = .ok (none, ⟨repoUpdate t h, none, log⟩) := by
  simp [WebhooksRepository_UpdateWebhook, sql_UpdateWebhook_refines, deref, repoUpdate,
    bind, StateT.bind, Except.bind, pure, StateT.pure, Except.pure]

theorem repo_DeleteWebhookByURL_refines (env : Env) (u : String) (t : List Row) (log : List Wire) :
    WebhooksRepository_DeleteWebhookByURL env u ⟨t, none, log⟩ = .ok (none, ⟨sqlDelete t u, none, log⟩) := by
  simp [WebhooksRepository_DeleteWebhookByURL, sql_DeleteWebhookByURL_refines, bind, StateT.bind, Except.bind, pure, StateT.pure, Except.pure]

/-- `GetAllWebhooks`: every row, in table order, each through `ToWebhook` -/
theorem repo_GetAllWebhooks_refines (env : Env) (w : World) :
    WebhooksRepository_GetAllWebhooks env w = .ok ((w.table.map (fun r => some (rawHook r)), none), w) := by
  unfold WebhooksRepository_GetAllWebhooks
  simp only [bind, StateT.bind, Except.bind, sql_GetAllWebhooks_refines, sqlGetAll, Option.isSome_none, Bool.false_eq_true, if_false]
  rw [forRange_collect (fun r => r.map rawHook)]
  · simp [pure, StateT.pure, Except.pure, List.map_map, Function.comp_def]
  · intro x hx acc w
    obtain ⟨r, _, rfl⟩ := List.mem_map.mp hx
    simp [DbWebhook_ToWebhook, deref, rawHook, bind, StateT.bind, Except.bind, pure, StateT.pure, Except.pure]

/-! ## C. `Webhook.Notify` (notification/webhooks.go) -/

/-- **`updateWebhookAfterNotification` = `updateAfter`**: time and status of the attempt, the error counter, the deactivation
    at `ErrorsCount ≥ MaxTries`, the reset on status 200 — all eight fields of the webhook -/
theorem updateWebhookAfterNotification_refines (env : Env) (h : Hook) (c : Nat) (b : String) (e : Option GoErr) (w : World) :
    Webhook_updateWebhookAfterNotification env (some h) c b e w =
      .ok (some (updateAfter h c (if e.isSome then Status.err else Status.reply c b) env.now), w) := by
  cases e <;> by_cases hc : c = 200 <;> by_cases hm : h.errors + 1 ≥ h.maxTries <;>
  simp [Webhook_updateWebhookAfterNotification, updateAfter, setField, deref, timeNow, sprintErr, sprintReply, hc, hm,
    bind, StateT.bind, Except.bind, pure, StateT.pure, Except.pure]

/-- **`Webhook.Notify` = `attempt` + `afterOutcome`**: ONE client call — POST, the hook's url, the header map `Content-Type` +
    the authorisation entry (left out when its name is empty) — which leaves the client under both clients; the webhook
    afterwards is the hand model's `afterOutcome` of what the target answered (readable reply of any status / transport
    error / unreadable body, also with status 200); the table is not touched here -/
theorem Webhook_Notify_refines (env : Env) (h : Hook) (t : List Row) (tx : Option (List Row)) (log : List Wire) :
    Webhook_Notify env (some h) ⟨t, tx, log⟩ =
      .ok ((some (afterOutcome h env.now (attempt env.cfg env.out h).seen), notifyErr (attempt env.cfg env.out h).seen),
           ⟨t, tx, log ++ [wire (attempt env.cfg env.out h)]⟩) := by
  rw [attempt_eq]
  by_cases hk : h.tokenHeader = ""
  · cases ho : env.out h.url <;>
    simp [Webhook_Notify, updateWebhookAfterNotification_refines, clientCall, ioReadAll, deref, hk, mapSet_nil, ct_names, ho, afterOutcome, notifyErr,
      wire, wireHeaders, bind, StateT.bind, Except.bind, pure, StateT.pure, Except.pure]
  · have hn := mapSet_ct_names h.tokenHeader h.token hk
    have hk' : ¬ "" = h.tokenHeader := fun e => hk e.symm   -- the comparison written the other way round
    cases ho : env.out h.url <;>
    simp [Webhook_Notify, updateWebhookAfterNotification_refines, clientCall, ioReadAll, deref, hk, hk', mapSet_nil, hn, ho, afterOutcome, notifyErr,
      wire, wireHeaders, bind, StateT.bind, Except.bind, pure, StateT.pure, Except.pure]

/-! ## D. the service (notification/webhooks_service.go) -/

theorem svc_GetWebhookByURL_refines (env : Env) (u : String) (w : World) :
    WebhooksService_GetWebhookByURL env u w =
      .ok (match sqlGetByUrl w.table u with
        | some r => (some (rawHook r), none)
        | none => (none, some (.bhsWrap "ErrWebhookNotFound" .sqlNoRows)), w) := by
  simp [WebhooksService_GetWebhookByURL, repo_GetWebhookByURL_refines]

/-- `refreshWebhook`: no row → ErrWebhookNotFound; active row → ErrRefreshWebhook, nothing written; inactive row → `Active = true`,
    `ErrorsCount = 0` written back (with the loaded last-emit values) and returned -/
theorem svc_refreshWebhook_refines (env : Env) (u : String) (t : List Row) (log : List Wire) :
    WebhooksService_refreshWebhook env u ⟨t, none, log⟩ =
      .ok (match sqlGetByUrl t u with
        | none => ((none, some (.bhsWrap "ErrWebhookNotFound" .sqlNoRows)), ⟨t, none, log⟩)
        | some r =>
          if r.active then ((none, some (.bhs "ErrRefreshWebhook")), ⟨t, none, log⟩)
          else ((some { rawHook r with active := true, errors := 0 }, none),
                ⟨repoUpdate t { rawHook r with active := true, errors := 0 }, none, log⟩)) := by
  cases h : sqlGetByUrl t u with
  | none =>
    simp [WebhooksService_refreshWebhook, repo_GetWebhookByURL_refines, h, bind, StateT.bind, Except.bind, pure, StateT.pure, Except.pure]
  | some r =>
    cases ha : r.active <;>
    simp [WebhooksService_refreshWebhook, repo_GetWebhookByURL_refines, repo_UpdateWebhook_refines, h, ha, rawHook, deref, setField,
      bind, StateT.bind, Except.bind, pure, StateT.pure, Except.pure]

/-- `CreateWebhook`: the stored pair is `authHeader`; a successful insert answers the in-memory webhook; any insert error
    goes to `refreshWebhook` -/
theorem svc_CreateWebhook_refines (env : Env) (a hd tk u : String) (t : List Row) (log : List Wire) :
    WebhooksService_CreateWebhook env a hd tk u ⟨t, none, log⟩ =
      (match sqlInsert t u (authHeader (kindOf a) hd tk).1 (authHeader (kindOf a) hd tk).2 with
        | some t' => .ok ((some { url := u, tokenHeader := (authHeader (kindOf a) hd tk).1, token := (authHeader (kindOf a) hd tk).2,
                                   lastStatus := .none, lastAt := .zero, errors := 0, active := true, maxTries := env.cfg.maxTries }, none),
                          ⟨t', none, log⟩)
        | none => WebhooksService_refreshWebhook env u ⟨t, none, log⟩) := by
  by_cases hb : stringsToLower a = "bearer"
  · cases h : sqlInsert t u "Authorization" ("Bearer " ++ tk) <;>
    simp [WebhooksService_CreateWebhook, notification_CreateWebhook, repo_AddWebhookToDatabase_refines, kindOf, authHeader, hb, h,
      bind, StateT.bind, Except.bind, pure, StateT.pure, Except.pure]
  · cases h : sqlInsert t u hd tk <;>
    simp [WebhooksService_CreateWebhook, notification_CreateWebhook, repo_AddWebhookToDatabase_refines, kindOf, authHeader, hb, h,
      bind, StateT.bind, Except.bind, pure, StateT.pure, Except.pure]

theorem svc_DeleteWebhook_refines (env : Env) (u : String) (t : List Row) (log : List Wire) :
    WebhooksService_DeleteWebhook env u ⟨t, none, log⟩ =
      .ok (match sqlGetByUrl t u with
        | none => (some (.bhsWrap "ErrWebhookNotFound" .sqlNoRows), ⟨t, none, log⟩)
        | some _ => (none, ⟨sqlDelete t u, none, log⟩)) := by
  cases h : sqlGetByUrl t u <;>
  simp [WebhooksService_DeleteWebhook, repo_GetWebhookByURL_refines, repo_DeleteWebhookByURL_refines, h,
    bind, StateT.bind, Except.bind, pure, StateT.pure, Except.pure]

/-- **`WebhooksService.Notify` = `notifyLoop`** over the snapshot loaded at its start: inactive hooks are skipped (no call, no
    write); an active one gets `MaxTries` from the configuration, is called once, and its new state is written back -/
theorem svc_Notify_refines (env : Env) (t : List Row) :
    WebhooksService_Notify env ⟨t, none, []⟩ =
      .ok ((), ⟨(notifyLoop env.cfg env.out env.now (t.map (toWebhook env.cfg.maxTries)) (t, [])).1, none,
                (notifyLoop env.cfg env.out env.now (t.map (toWebhook env.cfg.maxTries)) (t, [])).2.map wire⟩) := by
  unfold WebhooksService_Notify
  simp only [bind, StateT.bind, Except.bind, repo_GetAllWebhooks_refines, Option.isSome_none, Bool.false_eq_true, if_false]
  rw [forRange_notify0 env _ t t]
  · simp [pure, StateT.pure, Except.pure]
  · intro r t log
    cases ha : r.active
    · simp [bodyWorld, ha, rawHook, deref, bind, StateT.bind, Except.bind, pure, StateT.pure, Except.pure]
    · cases ho : env.out r.url <;>
      simp [bodyWorld, ha, ho, deref, setField, Webhook_Notify_refines, repo_UpdateWebhook_refines, attempt_eq, notifyErr,
        rawHook, toWebhook, toWebhookMapsLastEmit, restoredMaxTries,
        bind, StateT.bind, Except.bind, pure, StateT.pure, Except.pure]

/-! ## E. the operations of the hand model -/

/-- the surroundings of one operation on state `s`: the configuration, the scripted targets, "during event clock + 1" -/
def envOf (cfg : Cfg) (s : State) (out : String → Outcome) : Env := { cfg := cfg, out := out, now := s.clock + 1 }

/-- everything observable of one run of a translated service method on table `t`: its answer in the endpoint's terms
    (`rd`), the table afterwards, the client calls made; or the panic. A transaction left open counts as a fault. -/
def observe {α : Type} (rd : α → Option Reply) (m : HookM α) (t : List Row) : Except Fault (Option Reply × List Row × List Wire) :=
  match m { table := t } with
  | .ok (a, w) => if w.tx.isSome then .error .txOpen else .ok (rd a, w.table, w.log)
  | .error f => .error f

/-- **POST /webhook → `CreateWebhook` = `register`** (new url / active url / inactive url; bearer / custom / no authorisation) -/
theorem Gen_CreateWebhook_refines (cfg : Cfg) (s : State) (out : String → Outcome) (a hd tk u : String) (hu : u ≠ "") :
    observe replyOf (WebhooksService_CreateWebhook (envOf cfg s out) a hd tk u) s.table =
      .ok (some (register cfg s (kindOf a) hd tk u).2, (register cfg s (kindOf a) hd tk u).1.table, []) := by
  unfold observe
  rw [svc_CreateWebhook_refines, svc_refreshWebhook_refines]
  cases hi : sqlInsert s.table u (authHeader (kindOf a) hd tk).1 (authHeader (kindOf a) hd tk).2 with
  | some t' => simp [register, hu, hi, replyOf, report]
  | none =>
    cases hg : sqlGetByUrl s.table u with
    | none => simp [register, hu, hi, hg, replyOf, codeOf, codeOfName]
    | some r =>
      cases ha : r.active <;>
      simp [register, hu, hi, hg, ha, replyOf, codeOf, codeOfName, report, rawHook, toWebhook, toWebhookMapsLastEmit, repoUpdate]

/-- **DELETE /webhook → `DeleteWebhook` = `delete`** -/
theorem Gen_DeleteWebhook_refines (cfg : Cfg) (s : State) (out : String → Outcome) (u : String) (hu : u ≠ "") :
    observe doneOf (WebhooksService_DeleteWebhook (envOf cfg s out) u) s.table =
      .ok (some (delete s u).2, (delete s u).1.table, []) := by
  unfold observe
  rw [svc_DeleteWebhook_refines]
  cases hg : sqlGetByUrl s.table u <;> simp [delete, hu, hg, doneOf, codeOf, codeOfName]

/-- **GET /webhook → `GetWebhookByURL` = `get`**: active flag, error count, status and time of the last attempt -/
theorem Gen_GetWebhookByURL_refines (cfg : Cfg) (s : State) (out : String → Outcome) (u : String) (hu : u ≠ "") :
    observe replyOf (WebhooksService_GetWebhookByURL (envOf cfg s out) u) s.table =
      .ok (some (Model.Hooks.get cfg s u), s.table, []) := by
  unfold observe
  rw [svc_GetWebhookByURL_refines]
  cases hg : sqlGetByUrl s.table u <;>
  simp [Model.Hooks.get, hu, hg, replyOf, codeOf, codeOfName, report, rawHook, toWebhook, toWebhookMapsLastEmit]

/-- **one event → `Notify` = `notify`**: the next table and the client calls, for every outcome function -/
theorem Gen_Notify_refines (cfg : Cfg) (s : State) (out : String → Outcome) :
    observe (fun _ => none) (WebhooksService_Notify (envOf cfg s out)) s.table =
      .ok (none, (notify cfg s out).1.table, (notify cfg s out).2.map wire) := by
  unfold observe
  rw [svc_Notify_refines]
  simp [notify, envOf, sqlGetAll]

/-- what one operation yields, with the client calls as the client sees them -/
inductive GRes where
  | reply (r : Option Reply)
  | calls (cs : List Wire)
  | restarted
deriving DecidableEq

def resOf : Res → GRes
  | .reply r => .reply (some r)
  | .attempts as => .calls (as.map wire)
  | .restarted => .restarted

/-- an authorisation type of each kind -/
def authTypeOf : AuthKind → String
  | .bearer => "bearer"
  | .other => ""

/-- the outcome function of operations that call no target -/
def quiet : String → Outcome := fun _ => .transportErr

/-- one operation of the hand model executed by the GENERATED service. The refusals of an empty url are the HTTP
    handlers' (not translated here) and are written by hand exactly as in the hand model; `restart` keeps the table. -/
def genStep (cfg : Cfg) (s : State) : Op → Except Fault (State × GRes)
  | .register k h t u =>
    if u = "" then .ok (s, .reply (some (.refused .urlBodyRequired)))
    else (observe replyOf (WebhooksService_CreateWebhook (envOf cfg s quiet) (authTypeOf k) h t u) s.table).map
      fun r => ({ s with table := r.2.1 }, .reply r.1)
  | .delete u =>
    if u = "" then .ok (s, .reply (some (.refused .urlParamRequired)))
    else (observe doneOf (WebhooksService_DeleteWebhook (envOf cfg s quiet) u) s.table).map
      fun r => ({ s with table := r.2.1 }, .reply r.1)
  | .get u =>
    if u = "" then .ok (s, .reply (some (.refused .urlParamRequired)))
    else (observe replyOf (WebhooksService_GetWebhookByURL (envOf cfg s quiet) u) s.table).map
      fun r => ({ s with table := r.2.1 }, .reply r.1)
  | .notify out =>
    (observe (fun _ => none) (WebhooksService_Notify (envOf cfg s out)) s.table).map
      fun r => ({ table := r.2.1, clock := s.clock + 1 }, .calls r.2.2)
  | .restart => .ok (s, .restarted)

def genRun (cfg : Cfg) : List Op → State → Except Fault State
  | [], s => .ok s
  | op :: ops, s => genStep cfg s op >>= fun r => genRun cfg ops r.1

theorem kindOf_authTypeOf (k : AuthKind) : kindOf (authTypeOf k) = k := by cases k <;> decide

/-- **every operation**: the generated service yields the hand model's next state and answer / calls — no hypothesis -/
theorem Gen_step_refines (cfg : Cfg) (s : State) (op : Op) :
    genStep cfg s op = .ok ((step cfg s op).1, resOf (step cfg s op).2) := by
  cases op with
  | register k h t u =>
    by_cases hu : u = ""
    · simp [genStep, step, register, resOf, hu]
    · have := Gen_CreateWebhook_refines cfg s quiet (authTypeOf k) h t u hu
      rw [kindOf_authTypeOf] at this
      simp only [genStep, hu, if_false, this, step, resOf, Except.map]
      congr 2
      cases s
      simp only [register, hu, if_false]
      split <;> try rfl
      split <;> try rfl
      split <;> rfl
  | delete u =>
    by_cases hu : u = ""
    · simp [genStep, step, delete, resOf, hu]
    · simp only [genStep, hu, if_false, Gen_DeleteWebhook_refines cfg s quiet u hu, step, resOf, Except.map]
      congr 2
      cases s
      simp only [delete, hu, if_false]
      split <;> rfl
  | get u =>
    by_cases hu : u = ""
    · simp [genStep, step, Model.Hooks.get, resOf, hu]
    · simp [genStep, hu, Gen_GetWebhookByURL_refines cfg s quiet u hu, step, resOf, Except.map]
  | notify out =>
    simp only [genStep, Gen_Notify_refines, step, resOf, Except.map]
    rfl
  | restart => rfl

/-- **every operation sequence from every state**: the generated service reaches exactly the hand model's state -/
theorem Gen_run_refines (cfg : Cfg) (ops : List Op) (s : State) :
    genRun cfg ops s = .ok (run cfg ops s) := by
  induction ops generalizing s with
  | nil => rfl
  | cons op ops ih =>
    simp only [genRun, Gen_step_refines, run, bind, Except.bind]
    exact ih _

/-! ## non-vacuity: the generated code on concrete inputs (evaluated by the kernel, not proved through the hand model;
the heartbeat limit only bounds the time Lean spends explaining a FAILED evaluation when the Go code was changed) -/

private def fail500 : Op := .notify (fun _ => .reply 500 "")
private def ok200 : Op := .notify (fun _ => .reply 200 "OK")

private def tableOf (r : Except Fault State) : Option (List (String × String × String × Nat × Bool)) :=
  r.toOption.map (fun s => s.table.map (fun r => (r.url, r.tokenHeader, r.token, r.errors, r.active)))

-- max_tries 3: the third consecutive failure deactivates; a success in between resets
set_option maxHeartbeats 4000 in
example : tableOf (genRun { maxTries := 3, prod := false } [.register .bearer "" "tok" "u", fail500, fail500] {}) =
    some [("u", "Authorization", "Bearer tok", 2, true)] := by decide +kernel
set_option maxHeartbeats 4000 in
example : tableOf (genRun { maxTries := 3, prod := false } [.register .bearer "" "tok" "u", fail500, fail500, fail500] {}) =
    some [("u", "Authorization", "Bearer tok", 3, false)] := by decide +kernel
set_option maxHeartbeats 4000 in
example : tableOf (genRun { maxTries := 3, prod := false } [.register .bearer "" "tok" "u", fail500, fail500, ok200, fail500] {}) =
    some [("u", "Authorization", "Bearer tok", 1, true)] := by decide +kernel

-- re-registration of an inactive url reactivates it (the header stored at creation is kept)
set_option maxHeartbeats 4000 in
example : tableOf (genRun { maxTries := 1, prod := false } [.register .bearer "" "tok" "u", .notify (fun _ => .transportErr)] {}) =
    some [("u", "Authorization", "Bearer tok", 1, false)] := by decide +kernel
set_option maxHeartbeats 4000 in
example : tableOf (genRun { maxTries := 1, prod := false } [.register .bearer "" "tok" "u", .notify (fun _ => .transportErr), .register .other "X" "new" "u"] {}) =
    some [("u", "Authorization", "Bearer tok", 0, true)] := by decide +kernel

-- production client: bearer / custom header / no authorisation — the header maps handed to the client, all posted; the
-- hook deactivated by the first event (unreadable body, max_tries 1) is not called in the second
set_option maxHeartbeats 4000 in
example :
    ((genRun { maxTries := 1, prod := true } [.register .bearer "" "tok" "u1", .register .other "X-Api-Key" "k" "u2", .register .other "" "" "u3",
        .notify (fun u => if u = "u2" then .unreadableBody 200 else .reply 200 "OK")] {}).toOption.bind fun s =>
      (genStep { maxTries := 1, prod := true } s ok200).toOption.map fun r =>
        match r.2 with | .calls cs => cs.map (fun c => (c.url, c.headers, c.posted)) | _ => []) =
    some [("u1", [("Content-Type", "application/json"), ("Authorization", "Bearer tok")], true),
          ("u3", [("Content-Type", "application/json")], true)] := by
  decide +kernel

end BHS.Props.HookSvcGen
