/-
The REGENERATED token store (`BHS.Gen.TokenStore`: service/token_service.go, database/repository/
token_repository.go, database/sql/tokens.go, repository/dto/tokens.go, domains/tokens.go — re-translated
from the Go source on every run) below the regenerated middleware (`BHS.Gen.AuthMw`).

Closes the gap `BHS.Props.AuthMw` leaves open: there `repo.Tokens.GetTokenByValue` is a parameter with
the ASSUMED contract `RepoSpec`. Here the contract is proved of the generated code, for ALL table
contents, strings and FAULT SCHEDULES (`Db.faults`: any database call may return a non-nil,
non-ErrNoRows error), and composed with the generated middleware.

Primitives (hand-written, trusted): `BHS.Model.TokenStorePrim` (sqlx calls over a table with a fault
schedule; tuples with independent components; nil pointers); wiring: `BHS.Model.TokenStoreWire`.
-/
import BHS.Model.TokenStoreWire
import BHS.Props.AuthMw

set_option linter.unusedSimpArgs false

namespace BHS.Props.TokenStore
open BHS BHS.Model.Auth BHS.Model.TokenStorePrim BHS.Model.TokenStoreWire BHS.Model.AuthMwWire BHS.Proofs.Auth BHS.Spec.Auth
open BHS.Model.AuthMwPrim (Tok Res Ctx GoErr)
open BHS.Props.AuthMw (RepoSpec)

variable {σ : Type}

/-- is the `i`-th database call from now on scheduled to fail? -/
def faultAt (db : Db) (i : Nat) : Bool := db.faults.getD i false

/-- the store the middleware effectively sees: the table, or nothing at all while the lookup faults -/
def visible (db : Db) : Store := if faultAt db 0 then [] else db.table

private theorem validCred_mono (env : Env) (st : Store) (hdr : String) (h : validCred env [] hdr) :
    validCred env st hdr := by
  obtain ⟨t, h1, h2, h3⟩ := h
  refine ⟨t, h1, h2, ?_⟩
  rcases h3 with h3 | h3
  · exact Or.inl h3
  · simp at h3

private theorem not_validCred_visible (env : Env) (db : Db) (hdr : String) (h : ¬ validCred env db.table hdr) :
    ¬ validCred env (visible db) hdr := by
  unfold visible
  split
  · exact fun h' => h (validCred_mono env db.table hdr h')
  · exact h

section Unfold
/-! ### exact behaviour, by unfolding every generated definition and primitive -/

attribute [local simp] Gen.TokenStore.createToken Gen.TokenStore.dbTokenToToken Gen.TokenStore.toDbToken
  Gen.TokenStore.sqlCreateToken Gen.TokenStore.sqlGetTokenByValue Gen.TokenStore.sqlDeleteToken
  Gen.TokenStore.newTokensRepository Gen.TokenStore.repoAddTokenToDatabase Gen.TokenStore.repoGetTokenByValue
  Gen.TokenStore.repoDeleteToken Gen.TokenStore.newTokenService Gen.TokenStore.svcGenerateToken
  Gen.TokenStore.svcDeleteToken
  M.bind M.pure M.deref M.withDefer M.panic SqlxDB.beginTxx SqlxDB.getContext Tx.namedExec Tx.commit Tx.rollback
  uniuriNewLen Db.step sqlInsertTokenText sqlGetTokenText sqlDeleteTokenText GErr.wrapBhs Binds.ofDbToken
  tokensRepoOf svcOf wired List.lookup

/-- split a database state into the cases of its first three schedule entries -/
local macro "fault_cases" db:ident : tactic => `(tactic| (
  rcases $db:ident with ⟨table, tx, faults, rng, log⟩
  rcases faults with _ | ⟨f1, faults⟩
  · simp [faultAt]
  · cases f1
    · rcases faults with _ | ⟨f2, faults⟩
      · simp [faultAt]
      · cases f2
        · rcases faults with _ | ⟨f3, faults⟩
          · simp [faultAt]
          · cases f3 <;> simp [faultAt]
        · simp [faultAt]
    · simp [faultAt]))

/-- split on the first schedule entry and on whether the value is stored, then unfold everything -/
local macro "lookup_cases" db:ident v:ident : tactic => `(tactic| (
  rcases $db:ident with ⟨table, tx, faults, rng, log⟩
  by_cases hv : $v ∈ table <;> rcases faults with _ | ⟨f, fs⟩ <;> (try cases f) <;> simp [faultAt, hv]))

/-- TOKEN LOOKUP IS SOUND AND FAILS CLOSED. For every table, string and fault schedule the generated
    repository `GetTokenByValue v`
    (1) returns a token only together with a nil error, only if the table holds a row with exactly the
        value `v`, and the token is that row, non-admin;
    (2) under a fault returns an error and no token;
    (3) never returns (nil, nil), never panics, and leaves the table as it is. -/
theorem token_lookup_sound (r : TokenRepository) (v : String) (db : Db) :
    (∀ t e, (Gen.TokenStore.repoGetTokenByValue r v db).1 = .val (some t, e) →
        e = none ∧ v ∈ db.table ∧ t = ⟨v, false⟩) ∧
    (faultAt db 0 = true → ∃ e, (Gen.TokenStore.repoGetTokenByValue r v db).1 = .val (none, some e)) ∧
    (∀ e, (Gen.TokenStore.repoGetTokenByValue r v db).1 = .val (none, e) → e.isSome = true) ∧
    (∀ m, (Gen.TokenStore.repoGetTokenByValue r v db).1 ≠ .panic m) ∧
    (Gen.TokenStore.repoGetTokenByValue r v db).2.table = db.table := by
  lookup_cases db v

/-- what the generated `(*TokenRepository).GetTokenByValue` returns, exactly: under a fault the wrapped
    error and no token; otherwise the row (non-admin) or ErrTokenNotFound wrapping sql.ErrNoRows -/
theorem token_lookup_exact (r : TokenRepository) (v : String) (db : Db) :
    (Gen.TokenStore.repoGetTokenByValue r v db).1 =
      if faultAt db 0 then .val (none, some (.bhsWrap Gen.errTokenNotFound .fault))
      else if v ∈ db.table then .val (some ⟨v, false⟩, none)
      else .val (none, some (.bhsWrap Gen.errTokenNotFound .noRows)) := by
  lookup_cases db v

/-- the ASSUMED contract of `BHS.Props.AuthMw` (`RepoSpec`) PROVED of the generated token store, for every
    database state: without a fault over the table itself, under a fault over the empty table -/
theorem repoAt_spec (admin : String) (db : Db) : RepoSpec (repoAt (svcOf admin) db) (visible db) := by
  intro t
  unfold visible repoAt
  lookup_cases db t <;> simp [toRes, GErr.toGoErr]

/-- MIDDLEWARE FAILS CLOSED over the generated middleware AND the generated token store: with
    authentication on, a request whose Authorization header is not `Bearer <configured admin token | value in
    the tokens table>` is answered with a 401 of the error table and the handler is not run — on every route
    (admin or not), for every handler, table and FAULT SCHEDULE of the database.
    (The repository contract is re-derived here from the generated definitions, not taken from a lemma, so
    that a change of the lookup code re-opens THIS theorem.) -/
theorem middleware_fail_closed (admin : String) (db : Db) (handler : Ctx σ → Ctx σ) (adminRoute : Bool) (c : Ctx σ)
    (hcred : ¬ validCred ⟨admin, true⟩ db.table (c.header "Authorization")) :
    ∃ d : Gen.ErrDef, d.status = 401 ∧
      serveChainAt (svcOf admin) true db handler adminRoute c = c.abort (.bhs d) ∧
      (serveChainAt (svcOf admin) true db handler adminRoute c).world = c.world := by
  have hs : RepoSpec (repoAt (svcOf admin) db) (visible db) := by
    intro t
    unfold visible repoAt
    lookup_cases db t <;> simp [toRes, GErr.toGoErr]
  exact BHS.Props.AuthMw.C09_mediated_generated ⟨admin, true⟩ (visible db) (repoAt (svcOf admin) db)
    hs handler adminRoute c rfl (not_validCred_visible _ db _ hcred)

/-- `NewTokenService` WRITES NOTHING: for every repository value, admin token and database state it returns
    the service record and leaves the database state — table, open transaction, fault schedule, generator and
    the LOG OF DATABASE CALLS — exactly as it was (it performs no database call at all). So a previously
    configured admin token cannot get into the tokens table through start-up. -/
theorem new_service_writes_nothing (repo : Repositories) (admin : String) (db : Db) :
    Gen.TokenStore.newTokenService repo admin db = (.val ⟨repo, admin⟩, db) := by
  simp

/-- the start-up wiring as a whole performs no database call and yields `svcOf admin` -/
theorem wired_eq (admin : String) (db : Db) : wired admin db = (.val (svcOf admin), db) := by
  simp

/-- `(*TokenService).DeleteToken` exactly (through the repository and the SQL layer, transaction included):
    a failing BeginTxx / NamedExecContext / Commit gives an error and leaves the table as it was; otherwise
    nil is returned and the table is the hand model's `deleteTok`. Never a panic. -/
theorem delete_exact (admin t : String) (db : Db) :
    if faultAt db 0 then
      (Gen.TokenStore.svcDeleteToken (svcOf admin) t db).1 = .val (some .fault) ∧
      (Gen.TokenStore.svcDeleteToken (svcOf admin) t db).2.table = db.table
    else if faultAt db 1 || faultAt db 2 then
      (Gen.TokenStore.svcDeleteToken (svcOf admin) t db).1 = .val (some (.bhsWrap Gen.errDeleteToken .fault)) ∧
      (Gen.TokenStore.svcDeleteToken (svcOf admin) t db).2.table = db.table
    else
      (Gen.TokenStore.svcDeleteToken (svcOf admin) t db).1 = .val none ∧
      (Gen.TokenStore.svcDeleteToken (svcOf admin) t db).2.table = deleteTok db.table t := by
  fault_cases db

/-- `(*TokenService).GenerateToken` exactly: `v` is what `uniuri.NewLen(32)` returns; on a fault an error, no
    token and the table as it was; otherwise the non-admin token `v` and the hand model's `insertTok`. -/
theorem generate_exact (admin : String) (db : Db) :
    let v := db.rng.headD ""
    if faultAt db 0 || faultAt db 1 || faultAt db 2 then
      (∃ e, (Gen.TokenStore.svcGenerateToken (svcOf admin) db).1 = .val (none, some e)) ∧
      (Gen.TokenStore.svcGenerateToken (svcOf admin) db).2.table = db.table
    else
      (Gen.TokenStore.svcGenerateToken (svcOf admin) db).1 = .val (some ⟨v, false⟩, none) ∧
      (Gen.TokenStore.svcGenerateToken (svcOf admin) db).2.table = insertTok db.table v := by
  rcases db with ⟨table, tx, faults, rng, log⟩
  rcases rng with _ | ⟨v, rng⟩ <;>
  · rcases faults with _ | ⟨f1, faults⟩
    · simp [faultAt]
    · cases f1
      · rcases faults with _ | ⟨f2, faults⟩
        · simp [faultAt]
        · cases f2
          · rcases faults with _ | ⟨f3, faults⟩
            · simp [faultAt]
            · cases f3 <;> simp [faultAt]
          · simp [faultAt]
      · simp [faultAt]

end Unfold

/-! ### lookup -/

/-! ### the composed authentication layer fails closed -/

/-- the same for the websocket connect handshake: a value that is neither the admin token nor in the table
    is rejected whatever faults happen -/
theorem ws_fail_closed (admin : String) (db : Db) (t : String) (hne : t ≠ admin) (hm : t ∉ db.table) :
    wsConnectAt (svcOf admin) true db t = false := by
  have h := BHS.Props.AuthMw.AuthMw_getToken admin (repoAt (svcOf admin) db) (visible db) (repoAt_spec admin db) t
  have hv : t ∉ visible db := by
    unfold visible; split
    · simp
    · exact hm
  rw [(getToken_none admin (visible db) t).2 ⟨hne, hv⟩] at h
  obtain ⟨e, he⟩ := h
  simp only [wsConnectAt, if_true, svcOf] at he ⊢
  rw [he]

/-- without a fault the composed chain is EXACTLY the hand model's `authorize` (the refinement of
    `BHS.Props.AuthMw`, now without any assumption on the repository) -/
theorem composed_authorize (admin : String) (useAuth : Bool) (db : Db) (hf : faultAt db 0 = false)
    (handler : Ctx σ → Ctx σ) (adminRoute : Bool) (c : Ctx σ) (hc : c.status = .running) :
    match authorize ⟨admin, useAuth⟩ db.table adminRoute (c.header "Authorization") with
    | .unauthorized401 why =>
        ∃ c', BHS.Props.AuthMw.SameButToken c c' ∧
          serveChainAt (svcOf admin) useAuth db handler adminRoute c = c'.abort (.bhs (BHS.Props.AuthMw.rejectDef why))
    | .pass ctx => ∃ c', BHS.Props.AuthMw.MwRel c c' (.next ctx) ∧
          serveChainAt (svcOf admin) useAuth db handler adminRoute c = handler c' := by
  have hs := repoAt_spec admin db
  simp only [visible, hf, Bool.false_eq_true, if_false] at hs
  exact BHS.Props.AuthMw.AuthMw_authorize ⟨admin, useAuth⟩ db.table (repoAt (svcOf admin) db) hs handler adminRoute c hc

/-- A REVOKED TOKEN IS REFUSED AFTERWARDS: if `DeleteToken t` returned nil, then in every later database
    state with the same committed rows — whatever its fault schedule — `Bearer t` (t not the configured admin
    token) is answered 401 on every route without running the handler, and the websocket handshake rejects it. -/
theorem revoked_token_refused (admin t : String) (db db2 : Db) (hne : t ≠ admin)
    (hdel : (Gen.TokenStore.svcDeleteToken (svcOf admin) t db).1 = .val none)
    (hlater : db2.table = (Gen.TokenStore.svcDeleteToken (svcOf admin) t db).2.table)
    (handler : Ctx σ → Ctx σ) (adminRoute : Bool) (c : Ctx σ) (hh : c.header "Authorization" = bearer t) :
    (∃ d : Gen.ErrDef, d.status = 401 ∧ serveChainAt (svcOf admin) true db2 handler adminRoute c = c.abort (.bhs d)) ∧
    wsConnectAt (svcOf admin) true db2 t = false := by
  have hx := delete_exact admin t db
  have htab : db2.table = deleteTok db.table t := by
    rw [hlater]
    by_cases h0 : faultAt db 0 = true
    · simp [h0] at hx; rw [hx.1] at hdel; cases hdel
    · by_cases h1 : (faultAt db 1 || faultAt db 2) = true
      · simp only [h0, h1, if_true] at hx
        simp at hx
        rw [hx.1] at hdel; cases hdel
      · simp only [h0, h1] at hx
        simp at hx
        exact hx.2
  have hnot : t ∉ db2.table := by rw [htab, mem_deleteTok]; exact fun h => h.2 rfl
  constructor
  · have hcred : ¬ validCred ⟨admin, true⟩ db2.table (c.header "Authorization") := by
      rw [hh]
      rintro ⟨t', h1, _, h3⟩
      have : t' = t := by
        have := congrArg String.toList h1
        simp [bearer, String.toList_append] at this
        exact (String.toList_inj.1 this).symm
      subst this
      rcases h3 with h3 | h3
      · exact hne h3
      · exact hnot h3
    obtain ⟨d, hd, hrun, _⟩ := middleware_fail_closed admin db2 handler adminRoute c hcred
    exact ⟨d, hd, hrun⟩
  · exact ws_fail_closed admin db2 t hne hnot

/-! ### the C10 lifecycle over the generated store -/

/-- the hand model's `create` / `revoke` steps (C10) are what the generated service does to the table when
    no database call fails; when one fails the table is unchanged (and the caller gets an error) -/
theorem C10_steps_generated (admin : String) (db : Db) (t : String) :
    ((Gen.TokenStore.svcGenerateToken (svcOf admin) db).2.table = insertTok db.table (db.rng.headD "") ∨
     (Gen.TokenStore.svcGenerateToken (svcOf admin) db).2.table = db.table) ∧
    ((Gen.TokenStore.svcDeleteToken (svcOf admin) t db).2.table = deleteTok db.table t ∨
     (Gen.TokenStore.svcDeleteToken (svcOf admin) t db).2.table = db.table) ∧
    (db.faults = [] →
      (Gen.TokenStore.svcGenerateToken (svcOf admin) db).1 = .val (some ⟨db.rng.headD "", false⟩, none) ∧
      (Gen.TokenStore.svcGenerateToken (svcOf admin) db).2.table = insertTok db.table (db.rng.headD "") ∧
      (Gen.TokenStore.svcDeleteToken (svcOf admin) t db).1 = .val none ∧
      (Gen.TokenStore.svcDeleteToken (svcOf admin) t db).2.table = deleteTok db.table t) := by
  have hg := generate_exact admin db
  have hd := delete_exact admin t db
  refine ⟨?_, ?_, ?_⟩
  · by_cases h : (faultAt db 0 || faultAt db 1 || faultAt db 2) = true
    · rw [if_pos h] at hg; exact Or.inr hg.2
    · rw [if_neg h] at hg; exact Or.inl hg.2
  · by_cases h0 : faultAt db 0 = true
    · rw [if_pos h0] at hd; exact Or.inr hd.2
    · rw [if_neg h0] at hd
      by_cases h1 : (faultAt db 1 || faultAt db 2) = true
      · rw [if_pos h1] at hd; exact Or.inr hd.2
      · rw [if_neg h1] at hd; exact Or.inl hd.2
  · intro hf
    have h0 : ∀ i, faultAt db i = false := by intro i; simp [faultAt, hf]
    simp only [h0, Bool.or_self, Bool.false_eq_true, if_false] at hg hd
    exact ⟨hg.1, hg.2, hd.1, hd.2⟩

/-- C10 headline over the composed generated code (`C10_auth_iff` without an assumption on the repository):
    with no fault on the lookup, the translated `GetToken` over the translated store succeeds exactly for the
    admin token and the rows of the table, as admin exactly for the admin token -/
theorem C10_auth_iff_composed (admin : String) (db : Db) (hf : faultAt db 0 = false) (t : String) :
    ((∃ tok, Gen.AuthMw.tokenServiceGetToken ⟨admin, repoAt (svcOf admin) db⟩ t = .ok tok) ↔ (t = admin ∨ t ∈ db.table)) ∧
    ((∃ tok, Gen.AuthMw.tokenServiceGetToken ⟨admin, repoAt (svcOf admin) db⟩ t = .ok tok ∧ tok.isAdmin = true) ↔ t = admin) := by
  have hs := repoAt_spec admin db
  simp only [visible, hf, Bool.false_eq_true, if_false] at hs
  exact BHS.Props.AuthMw.C10_auth_iff_generated ⟨⟨admin, true⟩, db.table⟩ (repoAt (svcOf admin) db) hs t

/-- what the driver cross-checks can never differ: the composed generated code answers every request as the
    hand model does, and its create / revoke leave the table the hand model's `insertTok` / `deleteTok` give -/
theorem driver_crosscheck (env : Env) (st : Store) (admin : Bool) (hdr t : String) :
    genAuthorizeAt env st admin hdr = (authorize env st admin hdr).render ∧
    genCreate env.admin st t = insertTok st t ∧ genRevoke env.admin st t = deleteTok st t := by
  refine ⟨?_, ?_, ?_⟩
  · have hs := repoAt_spec env.admin { table := st }
    exact BHS.Props.AuthMw.AuthMw_render_of_spec env st _ hs admin hdr
  · exact (C10_steps_generated env.admin { table := st, rng := [t] } t).2.2 rfl |>.2.1
  · exact (C10_steps_generated env.admin { table := st } t).2.2 rfl |>.2.2.2

/-! ### non-vacuity -/

def db0 : Db := { table := ["tokA", "tokB"], rng := ["fresh1"] }
def dbFault : Db := { table := ["tokA", "tokB"], faults := [true] }
def ctx0 (hdr : String) : Ctx Nat := { header := fun k => if k = "Authorization" then hdr else "", world := 0 }
def bump : Ctx Nat → Ctx Nat := fun c => { c with world := c.world + 1 }

-- a lookup without / with a fault (the faulting lookup of a STORED token gives an error and no token)
example : (Gen.TokenStore.repoGetTokenByValue {} "tokA" db0).1 = .val (some ⟨"tokA", false⟩, none) := by decide
example : (Gen.TokenStore.repoGetTokenByValue {} "nope" db0).1 = .val (none, some (.bhsWrap Gen.errTokenNotFound .noRows)) := by decide
example : (Gen.TokenStore.repoGetTokenByValue {} "tokA" dbFault).1 = .val (none, some (.bhsWrap Gen.errTokenNotFound .fault)) := by decide
example : (Gen.TokenStore.repoGetTokenByValue {} "nope" dbFault).1 = .val (none, some (.bhsWrap Gen.errTokenNotFound .fault)) := by decide
example : faultAt dbFault 0 = true := by decide
-- the composed chain: handler runs for a stored token, not for an unknown one, not for ANY token while the lookup faults
example : (serveChainAt (svcOf "adm1n") true db0 bump false (ctx0 "Bearer tokA")).world = 1 := by decide
example : (serveChainAt (svcOf "adm1n") true db0 bump false (ctx0 "Bearer nope")).world = 0 := by decide
example : (serveChainAt (svcOf "adm1n") true dbFault bump false (ctx0 "Bearer nope")).world = 0 := by decide
example : (serveChainAt (svcOf "adm1n") true dbFault bump false (ctx0 "Bearer nope")).status = .aborted (.bhs Gen.errInvalidAccessToken) := by decide
example : (serveChainAt (svcOf "adm1n") true dbFault bump false (ctx0 "Bearer tokA")).world = 0 := by decide
example : (serveChainAt (svcOf "adm1n") true dbFault bump true (ctx0 "Bearer adm1n")).world = 1 := by decide
example : wsConnectAt (svcOf "adm1n") true dbFault "nope" = false := by decide
example : wsConnectAt (svcOf "adm1n") true db0 "tokB" = true := by decide
-- create / revoke through the transaction; a failing commit changes nothing
example : (Gen.TokenStore.svcGenerateToken (svcOf "adm1n") db0).2.table = ["tokA", "tokB", "fresh1"] := by decide
example : (Gen.TokenStore.svcGenerateToken (svcOf "adm1n") db0).1 = .val (some ⟨"fresh1", false⟩, none) := by decide
example : (Gen.TokenStore.svcDeleteToken (svcOf "adm1n") "tokA" db0).2.table = ["tokB"] := by decide
example : (Gen.TokenStore.svcDeleteToken (svcOf "adm1n") "tokA" db0).1 = .val none := by decide
example : (Gen.TokenStore.svcDeleteToken (svcOf "adm1n") "tokA" { db0 with faults := [false, false, true] }).2.table = ["tokA", "tokB"] := by decide
example : (Gen.TokenStore.svcDeleteToken (svcOf "adm1n") "tokA" { db0 with faults := [false, false, true] }).1 =
    .val (some (.bhsWrap Gen.errDeleteToken .fault)) := by decide
-- the log shows the calls of a revoke, and that start-up makes none
example : (Gen.TokenStore.svcDeleteToken (svcOf "adm1n") "tokA" db0).2.log =
    [.begin, .exec sqlDeleteTokenText [("token", "tokA")], .commit, .rollback] := by decide
example : (wired "adm1n" db0).2.log = [] := by decide
-- a nil token pointer is a panic, not a silent insert
example : (Gen.TokenStore.repoAddTokenToDatabase {} none db0).1 = .panic "nil pointer dereference" := by decide

end BHS.Props.TokenStore
