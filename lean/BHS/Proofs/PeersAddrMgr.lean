/-
Helper lemmas for C18, part 4: the address manager's bookkeeping (M-AddrMgr). Core Lean only.
-/
import BHS.Model.AddrMgr

namespace BHS.Proofs.AddrMgr
open BHS.Model.AddrMgr

/-- the bookkeeping invariant of the address manager -/
structure Inv (s : St) : Prop where
  tried : s.nTried = (s.triedB.length : Nat)
  nnew : s.nNew = (s.index.countP (fun e => decide (0 < e.2.refs)) : Nat)
  refs : ∀ e ∈ s.index, e.2.refs = (s.newB.countP (fun p => p.2 == e.1) : Nat)
  inBucket : ∀ e ∈ s.index, (e.2.tried = true ∧ ∃ p ∈ s.triedB, p.2 = e.1) ∨ (∃ p ∈ s.newB, p.2 = e.1)

theorem inv_init : Inv {} := by
  constructor <;> simp

/-- under the invariant neither search of `GetAddress` can be entered with all its buckets empty -/
theorem get_not_hang {s : St} (h : Inv s) (coin : Bool) : getAddress s coin ≠ .hang := by
  have ht := h.tried
  have hn := h.nnew
  unfold getAddress
  split
  · simp
  · rename_i hsum
    split
    · rename_i hb
      have : s.triedB ≠ [] := by
        intro e
        rw [e] at ht
        simp at ht
        omega
      simp [List.isEmpty_iff, this]
    · rename_i hb
      have hpos : 0 < s.index.countP (fun e => decide (0 < e.2.refs)) := by
        by_cases h0 : s.nTried = 0
        · omega
        · have h1 : 0 < s.nTried := by omega
          have : ¬ s.nNew = 0 := fun e => hb ⟨h1, Or.inl e⟩
          omega
      rcases List.countP_pos_iff.1 hpos with ⟨e, he, hr⟩
      have hr' : 0 < e.2.refs := by simpa using hr
      have hc := h.refs e he
      have : s.newB ≠ [] := by
        intro en
        rw [en] at hc
        simp at hc
        omega
      simp [List.isEmpty_iff, this]

end BHS.Proofs.AddrMgr
