/-
Helper lemmas for C18, part 4: the address manager's bookkeeping (M-AddrMgr). Core Lean only.
-/
import BHS.Model.AddrMgr

namespace BHS.Proofs.AddrMgr
open BHS.Model.AddrMgr

abbrev Idx := List (Nat × KA)
abbrev Pairs := List (Nat × Nat)

def Keys (idx : Idx) : Prop := idx.Pairwise (fun x y => x.1 ≠ y.1)

/-! ### the index as a map -/

theorem findIdx_mem {idx : Idx} {a : Nat} {ka : KA} (h : (idx.find? (fun e => e.1 == a)).map (·.2) = some ka) : (a, ka) ∈ idx := by
  cases hf : idx.find? (fun e => e.1 == a) with
  | none => rw [hf] at h; cases h
  | some e =>
    rw [hf] at h
    have h1 := List.find?_some hf
    have h2 := List.mem_of_find?_eq_some hf
    simp at h h1
    rcases e with ⟨k, v⟩
    simp at h h1
    subst h; subst h1
    exact h2

theorem mem_findIdx {idx : Idx} (hk : Keys idx) {a : Nat} {ka : KA} (h : (a, ka) ∈ idx) :
    (idx.find? (fun e => e.1 == a)).map (·.2) = some ka := by
  induction idx with
  | nil => cases h
  | cons x l ih =>
    have hk' : (∀ y ∈ l, x.1 ≠ y.1) ∧ Keys l := by simpa [Keys, List.pairwise_cons] using hk
    rcases List.mem_cons.1 h with e | e
    · subst e; simp
    · have hne : x.1 ≠ a := fun e' => hk'.1 _ e e'
      have hb : (x.1 == a) = false := by simp [hne]
      simp only [List.find?_cons, hb]
      exact ih hk'.2 e

theorem findIdx_none {idx : Idx} {a : Nat} (h : (idx.find? (fun e => e.1 == a)).map (·.2) = none) : ∀ e ∈ idx, e.1 ≠ a := by
  intro e he heq
  cases hf : idx.find? (fun e => e.1 == a) with
  | some x => rw [hf] at h; cases h
  | none =>
    have := List.find?_eq_none.1 hf e he
    simp [heq] at this

theorem keys_setKA (idx : Idx) (a : Nat) (ka : KA) : (setKA idx a ka).map (·.1) = idx.map (·.1) := by
  unfold setKA
  induction idx with
  | nil => rfl
  | cons x l ih =>
    simp only [List.map_cons, ih]
    congr 1
    split
    · rename_i h; simp at h; exact h.symm
    · rfl

theorem keys_of_map {idx idx' : Idx} (h : idx'.map (·.1) = idx.map (·.1)) (hk : Keys idx) : Keys idx' := by
  have : ∀ l : Idx, Keys l ↔ (l.map (·.1)).Pairwise (· ≠ ·) := by
    intro l; unfold Keys; rw [List.pairwise_map]
  rw [this] at hk ⊢
  rw [h]; exact hk

theorem mem_setKA {idx : Idx} {a : Nat} {ka : KA} {e : Nat × KA} :
    e ∈ setKA idx a ka ↔ (e ∈ idx ∧ e.1 ≠ a) ∨ (e = (a, ka) ∧ ∃ x ∈ idx, x.1 = a) := by
  unfold setKA
  simp only [List.mem_map]
  constructor
  · rintro ⟨x, hx, rfl⟩
    by_cases h : x.1 = a
    · right
      refine ⟨?_, x, hx, h⟩
      simp [h]
    · left
      refine ⟨?_, ?_⟩
      · simpa [h] using hx
      · simp [h]
  · rintro (⟨he, hne⟩ | ⟨rfl, x, hx, hxa⟩)
    · exact ⟨e, he, by simp [hne]⟩
    · exact ⟨x, hx, by simp [hxa]⟩

theorem mem_delKA {idx : Idx} {a : Nat} {e : Nat × KA} : e ∈ delKA idx a ↔ e ∈ idx ∧ e.1 ≠ a := by
  unfold delKA; simp [List.mem_filter]

theorem keys_delKA {idx : Idx} (a : Nat) (hk : Keys idx) : Keys (delKA idx a) := List.Pairwise.filter _ hk

theorem b2n (b : Bool) : (if b = true then 1 else 0 : Nat) = b.toNat := by cases b <;> rfl

/-- replacing the value under a key changes a count by that entry only -/
theorem countP_setKA (f : Nat × KA → Bool) : ∀ (idx : Idx) (a : Nat) (ka ka' : KA), Keys idx → (a, ka) ∈ idx →
    (setKA idx a ka').countP f + (f (a, ka)).toNat = idx.countP f + (f (a, ka')).toNat := by
  intro idx
  induction idx with
  | nil => intro a ka ka' _ h; cases h
  | cons x l ih =>
    intro a ka ka' hk h
    have hk' : (∀ y ∈ l, x.1 ≠ y.1) ∧ Keys l := by simpa [Keys, List.pairwise_cons] using hk
    rcases List.mem_cons.1 h with e | e
    · subst e
      have hl2 : ∀ y ∈ l, (if (y.1 == a) = true then (a, ka') else y) = y := by
        intro y hy; have := hk'.1 y hy; simp at this; simp [Ne.symm this]
      simp only [setKA, List.map_cons, beq_self_eq_true, ↓reduceIte, List.countP_cons]
      rw [List.map_congr_left hl2, List.map_id']
      cases f (a, ka) <;> cases f (a, ka') <;> simp
    · have hne : x.1 ≠ a := fun e' => hk'.1 _ e e'
      have := ih a ka ka' hk'.2 e
      simp only [setKA, List.map_cons, List.countP_cons] at this ⊢
      simp only [show (x.1 == a) = false from by simp [hne]]
      simp only [Bool.false_eq_true, ↓reduceIte]
      omega

theorem countP_delKA (f : Nat × KA → Bool) : ∀ (idx : Idx) (a : Nat) (ka : KA), Keys idx → (a, ka) ∈ idx →
    (delKA idx a).countP f + (f (a, ka)).toNat = idx.countP f := by
  intro idx
  induction idx with
  | nil => intro a ka _ h; cases h
  | cons x l ih =>
    intro a ka hk h
    have hk' : (∀ y ∈ l, x.1 ≠ y.1) ∧ Keys l := by simpa [Keys, List.pairwise_cons] using hk
    rcases List.mem_cons.1 h with e | e
    · subst e
      have hl : delKA l a = l := by
        unfold delKA
        apply List.filter_eq_self.2
        intro y hy; have := hk'.1 y hy; simp at this; simp [Ne.symm this]
      have : delKA ((a, ka) :: l) a = l := by simpa [delKA] using hl
      rw [this, List.countP_cons]
      cases f (a, ka) <;> simp
    · have hne : x.1 ≠ a := fun e' => hk'.1 _ e e'
      have := ih a ka hk'.2 e
      have hd : delKA (x :: l) a = x :: delKA l a := by simp [delKA, hne]
      rw [hd, List.countP_cons, List.countP_cons]
      omega

/-! ### counting bucket entries of one address -/

def cnt (l : Pairs) (x : Nat) : Nat := l.countP (fun p => p.2 == x)

theorem cnt_append (l : Pairs) (b a x : Nat) : cnt (l ++ [(b, a)]) x = cnt l x + (if a = x then 1 else 0) := by
  simp [cnt, List.countP_append, List.countP_cons]

theorem cnt_filter_addr (l : Pairs) (a x : Nat) : cnt (l.filter (fun e => e.2 != a)) x = if x = a then 0 else cnt l x := by
  unfold cnt
  rw [List.countP_filter]
  split
  · rename_i h; subst h
    rw [List.countP_eq_zero]; intro p _; simp
  · rename_i h
    apply List.countP_congr
    intro p _
    simp
    intro e; rw [e]; exact h

theorem cnt_pos {l : Pairs} {x : Nat} : 0 < cnt l x ↔ ∃ p ∈ l, p.2 = x := by
  unfold cnt; rw [List.countP_pos_iff]; simp

theorem cnt_remove_pair : ∀ (l : Pairs) (b a x : Nat), l.Nodup → (b, a) ∈ l →
    cnt (l.filter (fun e => e != (b, a))) x + (if a = x then 1 else 0) = cnt l x := by
  intro l
  induction l with
  | nil => intro b a x _ h; cases h
  | cons y l ih =>
    intro b a x hn h
    have hn' := List.nodup_cons.1 hn
    rcases List.mem_cons.1 h with e | e
    · subst e
      have hl : l.filter (fun e => e != (b, a)) = l := by
        apply List.filter_eq_self.2
        intro z hz
        have : z ≠ (b, a) := fun e' => hn'.1 (e' ▸ hz)
        simpa using this
      simp only [List.filter_cons, bne_self_eq_false, Bool.false_eq_true, ↓reduceIte, hl, cnt, List.countP_cons]
      by_cases hax : a = x <;> simp [hax]
    · have hne : y ≠ (b, a) := fun e' => hn'.1 (e' ▸ e)
      have := ih b a x hn'.2 e
      simp only [cnt, List.filter_cons, List.countP_cons] at this ⊢
      simp only [show (y != (b, a)) = true from by simpa using hne, ↓reduceIte, List.countP_cons]
      omega

/-! ### the invariant -/

/-- the bookkeeping invariant of the address manager -/
structure Inv (s : St) : Prop where
  keys : Keys s.index
  newNd : s.newB.Nodup
  refs : ∀ e ∈ s.index, e.2.refs = (cnt s.newB e.1 : Nat)
  newIdx : ∀ p ∈ s.newB, ∃ e ∈ s.index, e.1 = p.2
  triedRefs : ∀ e ∈ s.index, e.2.tried = true → e.2.refs = 0
  untried : ∀ e ∈ s.index, e.2.tried = false → 0 < e.2.refs
  triedNd : (s.triedB.map (·.2)).Nodup
  triedIdx : ∀ p ∈ s.triedB, ∃ e ∈ s.index, e.1 = p.2 ∧ e.2.tried = true
  idxTried : ∀ e ∈ s.index, e.2.tried = true → ∃ p ∈ s.triedB, p.2 = e.1
  tried : s.nTried = (s.triedB.length : Nat)
  nnew : s.nNew = (s.index.countP (fun e => decide (0 < e.2.refs)) : Nat)

/-- every indexed address is in a bucket -/
theorem Inv.inBucket {s : St} (h : Inv s) : ∀ e ∈ s.index, (e.2.tried = true ∧ ∃ p ∈ s.triedB, p.2 = e.1) ∨ (∃ p ∈ s.newB, p.2 = e.1) := by
  intro e he
  cases ht : e.2.tried
  · right
    have h1 := h.untried e he ht
    have h2 := h.refs e he
    exact cnt_pos.1 (by omega)
  · left; exact ⟨rfl, h.idxTried e he ht⟩

theorem inv_init : Inv {} := by
  constructor <;> simp [Keys, cnt]

/-- the invariant does not look at the ban table or the clock -/
theorem inv_congr {s s' : St} (h : Inv s) (h1 : s'.index = s.index) (h2 : s'.newB = s.newB) (h3 : s'.triedB = s.triedB)
    (h4 : s'.nNew = s.nNew) (h5 : s'.nTried = s.nTried) : Inv s' := by
  constructor
  · rw [h1]; exact h.keys
  · rw [h2]; exact h.newNd
  · rw [h1, h2]; exact h.refs
  · rw [h1, h2]; exact h.newIdx
  · rw [h1]; exact h.triedRefs
  · rw [h1]; exact h.untried
  · rw [h3]; exact h.triedNd
  · rw [h1, h3]; exact h.triedIdx
  · rw [h1, h3]; exact h.idxTried
  · rw [h3, h5]; exact h.tried
  · rw [h1, h4]; exact h.nnew

theorem find_mem {s : St} {a : Nat} {ka : KA} (h : find s a = some ka) : (a, ka) ∈ s.index := findIdx_mem h
theorem mem_find {s : St} (hi : Inv s) {a : Nat} {ka : KA} (h : (a, ka) ∈ s.index) : find s a = some ka := mem_findIdx hi.keys h

/-- under the invariant neither search of `GetAddress` can be entered with all its buckets empty -/
theorem get_not_hang {s : St} (h : Inv s) (coin : Bool) : getAddress s coin ≠ .hang := by
  have ht := h.tried
  have hn := h.nnew
  unfold getAddress
  split
  · simp
  · rename_i hsum
    split
    · rename_i hb
      have : s.triedB ≠ [] := by
        intro e
        rw [e] at ht
        simp at ht
        omega
      simp [List.isEmpty_iff, this]
    · rename_i hb
      have hpos : 0 < s.index.countP (fun e => decide (0 < e.2.refs)) := by
        by_cases h0 : s.nTried = 0
        · omega
        · have h1 : 0 < s.nTried := by omega
          have : ¬ s.nNew = 0 := fun e => hb ⟨h1, Or.inl e⟩
          omega
      rcases List.countP_pos_iff.1 hpos with ⟨e, he, hr⟩
      have hr' : 0 < e.2.refs := by simpa using hr
      have hc := h.refs e he
      have : s.newB ≠ [] := by
        intro en
        rw [en] at hc
        simp [cnt] at hc
        omega
      simp [List.isEmpty_iff, this]

/-! ### preservation -/

theorem keys_unique {idx : Idx} (hk : Keys idx) {x y : Nat × KA} (hx : x ∈ idx) (hy : y ∈ idx) (e : x.1 = y.1) : x = y := by
  have hf := mem_findIdx hk (a := x.1) (ka := x.2) hx
  have hg := mem_findIdx hk (a := x.1) (ka := y.2) (by rw [e]; exact hy)
  rw [hf] at hg
  cases x; cases y; simp at hg e; simp [hg, e]

theorem key_mem_setKA {idx : Idx} {a k : Nat} {ka : KA} : (∃ e ∈ setKA idx a ka, e.1 = k) ↔ ∃ e ∈ idx, e.1 = k := by
  have h1 : ∀ l : Idx, (∃ e ∈ l, e.1 = k) ↔ k ∈ l.map (·.1) := by
    intro l; simp [List.mem_map]
  rw [h1, h1, keys_setKA]

theorem inv_insertNew {s : St} {b a : Nat} {ka : KA} (hi : Inv s) (hf : find s a = some ka) (ht : ka.tried = false) :
    Inv (insertNew s b a) := by
  unfold insertNew
  split
  · exact hi
  · rename_i hc
    have hnc : (b, a) ∉ s.newB := by simpa using hc
    rw [hf]
    have hm := find_mem hf
    have hpos := hi.untried _ hm ht
    have hr := hi.refs _ hm
    simp only at hpos hr
    constructor
    · exact keys_of_map (keys_setKA _ _ _) hi.keys
    · simp only
      rw [List.nodup_append]
      exact ⟨hi.newNd, by simp, by intro x hx y hy; simp at hy; subst hy; exact fun e => hnc (e ▸ hx)⟩
    · intro e he
      simp only at he ⊢
      rcases mem_setKA.1 he with ⟨h1, h2⟩ | ⟨rfl, _⟩
      · rw [cnt_append, hi.refs e h1]
        have : ¬ a = e.1 := fun e' => h2 e'.symm
        simp [this]
      · simp only [cnt_append, ↓reduceIte]
        omega
    · intro p hp
      simp only at hp ⊢
      rw [key_mem_setKA]
      rcases List.mem_append.1 hp with h | h
      · exact hi.newIdx p h
      · simp at h; subst h; exact ⟨_, hm, rfl⟩
    · intro e he hte
      simp only at he
      rcases mem_setKA.1 he with ⟨h1, _⟩ | ⟨rfl, _⟩
      · exact hi.triedRefs e h1 hte
      · simp [ht] at hte
    · intro e he hte
      simp only at he
      rcases mem_setKA.1 he with ⟨h1, _⟩ | ⟨rfl, _⟩
      · exact hi.untried e h1 hte
      · simp only; omega
    · exact hi.triedNd
    · intro p hp
      rcases hi.triedIdx p hp with ⟨e, he, h1, h2⟩
      refine ⟨e, ?_, h1, h2⟩
      simp only
      refine mem_setKA.2 (Or.inl ⟨he, ?_⟩)
      intro ea
      have := keys_unique hi.keys he hm ea
      rw [this] at h2
      simp [ht] at h2
    · intro e he hte
      simp only at he
      rcases mem_setKA.1 he with ⟨h1, _⟩ | ⟨rfl, _⟩
      · exact hi.idxTried e h1 hte
      · simp [ht] at hte
    · exact hi.tried
    · simp only
      have := countP_setKA (fun e => decide (0 < e.2.refs)) s.index a ka { ka with refs := ka.refs + 1 } hi.keys hm
      have h1 : decide (0 < ka.refs) = true := by simpa using hpos
      have h2 : decide (0 < ka.refs + 1) = true := by simp; omega
      simp only [h1, h2, Bool.toNat_true] at this
      rw [hi.nnew]
      omega

theorem setKA_fresh {idx : Idx} {a : Nat} {k0 k1 : KA} (h : ∀ e ∈ idx, e.1 ≠ a) : setKA (idx ++ [(a, k0)]) a k1 = idx ++ [(a, k1)] := by
  unfold setKA
  rw [List.map_append]
  congr 1
  · have : ∀ e ∈ idx, (if (e.1 == a) = true then (a, k1) else e) = id e := by
      intro e he; simp [h e he]
    rw [List.map_congr_left this, List.map_id]
  · simp

/-- a so far unknown address enters the index and its first new bucket -/
theorem inv_addFresh {s : St} {a b : Nat} (hi : Inv s) (hf : find s a = none) :
    Inv (insertNew { s with index := s.index ++ [(a, { refs := 0, tried := false })], nNew := s.nNew + 1 } b a) := by
  have hfresh : ∀ e ∈ s.index, e.1 ≠ a := findIdx_none hf
  have hnone : ∀ p ∈ s.newB, p.2 ≠ a := by
    intro p hp e
    rcases hi.newIdx p hp with ⟨x, hx, hxa⟩
    exact hfresh x hx (hxa.trans e)
  have hc0 : cnt s.newB a = 0 := by
    unfold cnt; rw [List.countP_eq_zero]; intro p hp; simpa using hnone p hp
  have hnc : (b, a) ∉ s.newB := fun h => hnone _ h rfl
  unfold insertNew
  have hcont : (s.newB.contains (b, a)) = false := by simpa using hnc
  simp only [hcont, Bool.false_eq_true, ↓reduceIte]
  have hfind : find { s with index := s.index ++ [(a, { refs := 0, tried := false })], nNew := s.nNew + 1 } a = some { refs := 0, tried := false } := by
    unfold find
    simp only [List.find?_append]
    have : s.index.find? (fun e => e.1 == a) = none := by
      rw [List.find?_eq_none]; intro e he; simpa using hfresh e he
    simp [this]
  rw [hfind]
  simp only [setKA_fresh hfresh]
  constructor
  · simp only [Keys]
    rw [List.pairwise_append]
    refine ⟨hi.keys, by simp, ?_⟩
    intro x hx y hy
    simp at hy; subst hy
    exact hfresh x hx
  · simp only
    rw [List.nodup_append]
    exact ⟨hi.newNd, by simp, by intro x hx y hy; simp at hy; subst hy; exact fun e => hnc (e ▸ hx)⟩
  · intro e he
    simp only at he ⊢
    rcases List.mem_append.1 he with h | h
    · rw [cnt_append, hi.refs e h]
      have : ¬ a = e.1 := fun e' => hfresh e h e'.symm
      simp [this]
    · simp at h; subst h
      simp only [cnt_append, ↓reduceIte, hc0]
      rfl
  · intro p hp
    simp only at hp ⊢
    rcases List.mem_append.1 hp with h | h
    · rcases hi.newIdx p h with ⟨x, hx, hxa⟩
      exact ⟨x, List.mem_append.2 (Or.inl hx), hxa⟩
    · simp at h; subst h
      exact ⟨_, List.mem_append.2 (Or.inr (List.mem_singleton.2 rfl)), rfl⟩
  · intro e he hte
    simp only at he
    rcases List.mem_append.1 he with h | h
    · exact hi.triedRefs e h hte
    · simp at h; subst h; simp at hte
  · intro e he hte
    simp only at he
    rcases List.mem_append.1 he with h | h
    · exact hi.untried e h hte
    · simp at h; subst h; simp
  · exact hi.triedNd
  · intro p hp
    rcases hi.triedIdx p hp with ⟨e, he, h1, h2⟩
    exact ⟨e, List.mem_append.2 (Or.inl he), h1, h2⟩
  · intro e he hte
    simp only at he
    rcases List.mem_append.1 he with h | h
    · exact hi.idxTried e h hte
    · simp at h; subst h; simp at hte
  · exact hi.tried
  · simp only [List.countP_append, List.countP_cons, List.countP_nil]
    rw [hi.nnew]
    simp

theorem inv_add (c : Cfg) {s : St} (a b : Nat) (dice : Bool) (hi : Inv s) : Inv (add c s a b dice) := by
  unfold add
  split
  · exact hi
  · have h0 : Inv { s with banned := s.banned.filter (fun e => e.1 != a) } := inv_congr hi rfl rfl rfl rfl rfl
    simp only
    split
    · rename_i ka hf
      split
      · exact h0
      · rename_i ht
        split
        · exact h0
        · split
          · exact inv_insertNew h0 hf (by simpa using ht)
          · exact h0
    · rename_i hf
      exact inv_addFresh h0 hf

theorem inv_good {s : St} (a t : Nat) (hi : Inv s) : Inv (good s a t) := by
  unfold good
  split
  · exact hi
  · rename_i ka hf
    split
    · exact hi
    · rename_i ht
      have ht' : ka.tried = false := by simpa using ht
      have hm := find_mem hf
      have hpos := hi.untried _ hm ht'
      have hr := hi.refs _ hm
      simp only at hpos hr
      have hk0 : ¬ ((s.newB.countP (fun e => e.2 == a) : Nat) : Int) = 0 := by
        have : cnt s.newB a = s.newB.countP (fun e => e.2 == a) := rfl
        omega
      simp only [hk0, ↓reduceIte]
      have hrefs0 : ka.refs - ((s.newB.countP (fun e => e.2 == a) : Nat) : Int) = 0 := by
        have : cnt s.newB a = s.newB.countP (fun e => e.2 == a) := rfl
        omega
      have hsetset : ∀ (k1 k2 : KA), setKA (setKA s.index a k1) a k2 = setKA s.index a k2 := by
        intro k1 k2
        unfold setKA
        rw [List.map_map]
        apply List.map_congr_left
        intro e _
        by_cases h : e.1 = a <;> simp [h]
      simp only [hsetset, hrefs0]
      have hnotTried : ∀ p ∈ s.triedB, p.2 ≠ a := by
        intro p hp e
        rcases hi.triedIdx p hp with ⟨x, hx, h1, h2⟩
        have := keys_unique hi.keys hx hm (h1.trans e)
        rw [this] at h2
        simp [ht'] at h2
      constructor
      · exact keys_of_map (keys_setKA _ _ _) hi.keys
      · exact hi.newNd.filter _
      · intro e he
        simp only at he ⊢
        rw [cnt_filter_addr]
        rcases mem_setKA.1 he with ⟨h1, h2⟩ | ⟨rfl, _⟩
        · simp [h2, hi.refs e h1]
        · simp
      · intro p hp
        simp only at hp ⊢
        rw [key_mem_setKA]
        exact hi.newIdx p (List.mem_filter.1 hp).1
      · intro e he hte
        simp only at he
        rcases mem_setKA.1 he with ⟨h1, _⟩ | ⟨rfl, _⟩
        · exact hi.triedRefs e h1 hte
        · rfl
      · intro e he hte
        simp only at he
        rcases mem_setKA.1 he with ⟨h1, _⟩ | ⟨rfl, _⟩
        · exact hi.untried e h1 hte
        · simp at hte
      · simp only [List.map_append, List.map_cons, List.map_nil]
        rw [List.nodup_append]
        refine ⟨hi.triedNd, by simp, ?_⟩
        intro x hx y hy
        simp at hy; subst hy
        rcases List.mem_map.1 hx with ⟨p, hp, rfl⟩
        exact hnotTried p hp
      · intro p hp
        simp only at hp ⊢
        rcases List.mem_append.1 hp with h | h
        · rcases hi.triedIdx p h with ⟨e, he, h1, h2⟩
          refine ⟨e, mem_setKA.2 (Or.inl ⟨he, ?_⟩), h1, h2⟩
          rw [h1]; exact hnotTried p h
        · simp at h; subst h
          exact ⟨_, mem_setKA.2 (Or.inr ⟨rfl, _, hm, rfl⟩), rfl, rfl⟩
      · intro e he hte
        simp only at he ⊢
        rcases mem_setKA.1 he with ⟨h1, _⟩ | ⟨rfl, _⟩
        · rcases hi.idxTried e h1 hte with ⟨p, hp, hpe⟩
          exact ⟨p, List.mem_append.2 (Or.inl hp), hpe⟩
        · exact ⟨(t, a), List.mem_append.2 (Or.inr (List.mem_singleton.2 rfl)), rfl⟩
      · simp only [List.length_append, List.length_cons, List.length_nil]
        rw [hi.tried]; omega
      · simp only
        have := countP_setKA (fun e => decide (0 < e.2.refs)) s.index a ka { refs := 0, tried := true } hi.keys hm
        have h1 : decide (0 < ka.refs) = true := by simpa using hpos
        simp only [h1, Bool.toNat_true] at this
        simp at this
        rw [hi.nnew]
        omega

theorem mem_eraseFirst_of_ne {l : Pairs} {a : Nat} {p : Nat × Nat} (hp : p ∈ l) (hne : p.2 ≠ a) : p ∈ eraseFirst l a := by
  unfold eraseFirst
  rw [List.mem_eraseP_of_neg (by simpa using hne)]
  exact hp

/-- `removeAddrFromTried` of today's code -/
theorem inv_removeTried {s : St} (a : Nat) (hi : Inv s) : Inv (removeTried true s a) := by
  unfold removeTried
  split
  · rename_i hany
    simp only [↓reduceIte]
    rcases List.any_eq_true.1 hany with ⟨p0, hp0, hp0a⟩
    have hp0a' : p0.2 = a := by simpa using hp0a
    rcases hi.triedIdx p0 hp0 with ⟨e0, he0, he0a, he0t⟩
    have he0key : e0.1 = a := he0a.trans hp0a'
    have he0refs := hi.triedRefs e0 he0 he0t
    have hsub : ∀ p ∈ eraseFirst s.triedB a, p ∈ s.triedB := fun p hp => List.mem_of_mem_eraseP hp
    -- after the removal no tried entry carries the address any more
    have hgone : ∀ p ∈ eraseFirst s.triedB a, p.2 ≠ a := by
      have : ∀ (l : Pairs), (l.map (·.2)).Nodup → ∀ p ∈ eraseFirst l a, p.2 ≠ a := by
        intro l
        induction l with
        | nil => intro _ p hp; cases hp
        | cons x l ih =>
          intro hn p hp
          have hn' : x.2 ∉ l.map (·.2) ∧ (l.map (·.2)).Nodup := by
            rw [List.map_cons] at hn
            exact List.nodup_cons.1 hn
          unfold eraseFirst at hp
          by_cases hx : x.2 = a
          · rw [List.eraseP_cons_of_pos (by simpa using hx)] at hp
            intro e
            exact hn'.1 (List.mem_map.2 ⟨p, hp, e.trans hx.symm⟩)
          · rw [List.eraseP_cons_of_neg (by simpa using hx)] at hp
            rcases List.mem_cons.1 hp with h | h
            · rw [h]; exact hx
            · exact ih hn'.2 p h
      exact this s.triedB hi.triedNd
    have hnoNew : ∀ p ∈ s.newB, p.2 ≠ a := by
      intro p hp e
      have h1 := hi.refs e0 he0
      have : 0 < cnt s.newB e0.1 := cnt_pos.2 ⟨p, hp, by rw [he0key]; exact e⟩
      omega
    constructor
    · exact keys_delKA a hi.keys
    · exact hi.newNd
    · intro e he
      exact hi.refs e (mem_delKA.1 he).1
    · intro p hp
      rcases hi.newIdx p hp with ⟨e, he, hea⟩
      exact ⟨e, mem_delKA.2 ⟨he, by rw [hea]; exact hnoNew p hp⟩, hea⟩
    · intro e he
      exact hi.triedRefs e (mem_delKA.1 he).1
    · intro e he
      exact hi.untried e (mem_delKA.1 he).1
    · simp only
      exact List.Nodup.sublist (List.Sublist.map _ (List.eraseP_sublist)) hi.triedNd
    · intro p hp
      rcases hi.triedIdx p (hsub p hp) with ⟨e, he, h1, h2⟩
      exact ⟨e, mem_delKA.2 ⟨he, by rw [h1]; exact hgone p hp⟩, h1, h2⟩
    · intro e he hte
      have hm := mem_delKA.1 he
      rcases hi.idxTried e hm.1 hte with ⟨p, hp, hpe⟩
      exact ⟨p, mem_eraseFirst_of_ne hp (by rw [hpe]; exact hm.2), hpe⟩
    · simp only
      have hlen : (eraseFirst s.triedB a).length + 1 = s.triedB.length := by
        unfold eraseFirst
        rw [List.length_eraseP_of_mem hp0 hp0a]
        have := List.length_pos_of_mem hp0
        omega
      rw [hi.tried]; omega
    · simp only
      have := countP_delKA (fun e => decide (0 < e.2.refs)) s.index a e0.2 hi.keys (by rw [← he0key]; exact he0)
      have h0 : decide (0 < e0.2.refs) = false := by simp [he0refs]
      simp only [h0, Bool.toNat_false, Nat.add_zero] at this
      rw [hi.nnew, this]
  · exact hi

/-- one hit of `removeAddrFromNew` -/
theorem inv_removeNewOne {s : St} {b a : Nat} (hi : Inv s) (hm : (b, a) ∈ s.newB) : Inv (removeNewOne s b a) := by
  rcases hi.newIdx _ hm with ⟨e0, he0, he0a⟩
  simp only at he0a
  have hcnt := fun x => cnt_remove_pair s.newB b a x hi.newNd hm
  have hr0 := hi.refs e0 he0
  have hc0 := hcnt a
  simp only [↓reduceIte] at hc0
  have hnt : e0.2.tried = false := by
    cases h : e0.2.tried
    · rfl
    · have := hi.triedRefs e0 he0 h
      rw [he0a] at hr0
      omega
  have hf : find s a = some e0.2 := mem_find hi (by rw [← he0a]; exact he0)
  unfold removeNewOne
  have hf' : find { s with newB := s.newB.filter (fun e => e != (b, a)) } a = some e0.2 := hf
  simp only [hf']
  have hsubN : ∀ p ∈ s.newB.filter (fun e => e != (b, a)), p ∈ s.newB := fun p hp => (List.mem_filter.1 hp).1
  split
  · rename_i hz
    -- last reference: the address leaves the manager
    have hzero : cnt (s.newB.filter (fun e => e != (b, a))) a = 0 := by rw [he0a] at hr0; omega
    constructor
    · exact keys_delKA a hi.keys
    · exact hi.newNd.filter _
    · intro e he
      have hm' := mem_delKA.1 he
      have := hcnt e.1
      have hne : ¬ a = e.1 := fun e' => hm'.2 e'.symm
      simp only [hne, ↓reduceIte, Nat.add_zero] at this
      simp only
      rw [this]; exact hi.refs e hm'.1
    · intro p hp
      rcases hi.newIdx p (hsubN p hp) with ⟨e, he, hea⟩
      refine ⟨e, mem_delKA.2 ⟨he, ?_⟩, hea⟩
      rw [hea]
      intro epa
      have : 0 < cnt (s.newB.filter (fun e => e != (b, a))) a := cnt_pos.2 ⟨p, hp, epa⟩
      omega
    · intro e he
      exact hi.triedRefs e (mem_delKA.1 he).1
    · intro e he
      exact hi.untried e (mem_delKA.1 he).1
    · exact hi.triedNd
    · intro p hp
      rcases hi.triedIdx p hp with ⟨e, he, h1, h2⟩
      refine ⟨e, mem_delKA.2 ⟨he, ?_⟩, h1, h2⟩
      intro ea
      have := keys_unique hi.keys he he0 (ea.trans he0a.symm)
      rw [this, hnt] at h2
      cases h2
    · intro e he hte
      exact hi.idxTried e (mem_delKA.1 he).1 hte
    · exact hi.tried
    · simp only
      have := countP_delKA (fun e => decide (0 < e.2.refs)) s.index a e0.2 hi.keys (by rw [← he0a]; exact he0)
      have h1 : decide (0 < e0.2.refs) = true := by simp; omega
      simp only [h1, Bool.toNat_true] at this
      rw [hi.nnew]; omega
  · rename_i hz
    have hm0 : (a, e0.2) ∈ s.index := by rw [← he0a]; exact he0
    constructor
    · exact keys_of_map (keys_setKA _ _ _) hi.keys
    · exact hi.newNd.filter _
    · intro e he
      simp only at he ⊢
      rcases mem_setKA.1 he with ⟨h1, h2⟩ | ⟨rfl, _⟩
      · have := hcnt e.1
        have hne : ¬ a = e.1 := fun e' => h2 e'.symm
        simp only [hne, ↓reduceIte, Nat.add_zero] at this
        rw [this]; exact hi.refs e h1
      · simp only; rw [he0a] at hr0; omega
    · intro p hp
      simp only at hp ⊢
      rw [key_mem_setKA]
      exact hi.newIdx p (hsubN p hp)
    · intro e he hte
      simp only at he
      rcases mem_setKA.1 he with ⟨h1, _⟩ | ⟨rfl, _⟩
      · exact hi.triedRefs e h1 hte
      · simp [hnt] at hte
    · intro e he hte
      simp only at he
      rcases mem_setKA.1 he with ⟨h1, _⟩ | ⟨rfl, _⟩
      · exact hi.untried e h1 hte
      · simp only; rw [he0a] at hr0; omega
    · exact hi.triedNd
    · intro p hp
      rcases hi.triedIdx p hp with ⟨e, he, h1, h2⟩
      refine ⟨e, mem_setKA.2 (Or.inl ⟨he, ?_⟩), h1, h2⟩
      intro ea
      have := keys_unique hi.keys he he0 (ea.trans he0a.symm)
      rw [this, hnt] at h2
      cases h2
    · intro e he hte
      simp only at he
      rcases mem_setKA.1 he with ⟨h1, _⟩ | ⟨rfl, _⟩
      · exact hi.idxTried e h1 hte
      · simp [hnt] at hte
    · exact hi.tried
    · simp only
      have := countP_setKA (fun e => decide (0 < e.2.refs)) s.index a e0.2 { e0.2 with refs := e0.2.refs - 1 } hi.keys hm0
      have h1 : decide (0 < e0.2.refs) = true := by simp; rw [he0a] at hr0; omega
      have h2 : decide (0 < e0.2.refs - 1) = true := by simp; rw [he0a] at hr0; omega
      simp only [h1, h2, Bool.toNat_true] at this
      rw [hi.nnew]; omega

theorem newB_removeNewOne (s : St) (b a : Nat) : (removeNewOne s b a).newB = s.newB.filter (fun e => e != (b, a)) := by
  unfold removeNewOne
  simp only
  split
  · split <;> rfl
  · rfl

theorem inv_removeNew_fold (a : Nat) : ∀ (L : Pairs) (s : St), L.Nodup → (∀ p ∈ L, p ∈ s.newB ∧ p.2 = a) → Inv s →
    Inv (L.foldl (fun s e => removeNewOne s e.1 a) s) := by
  intro L
  induction L with
  | nil => intro s _ _ hi; exact hi
  | cons x L ih =>
    intro s hn hall hi
    have hn' := List.nodup_cons.1 hn
    have hx := hall x (List.mem_cons_self)
    have hxm : (x.1, a) ∈ s.newB := by
      have : x = (x.1, a) := by rw [← hx.2]
      rw [← this]; exact hx.1
    simp only [List.foldl_cons]
    apply ih _ hn'.2 _ (inv_removeNewOne hi hxm)
    intro p hp
    have h1 := hall p (List.mem_cons_of_mem _ hp)
    refine ⟨?_, h1.2⟩
    rw [newB_removeNewOne]
    refine List.mem_filter.2 ⟨h1.1, ?_⟩
    have : p ≠ (x.1, a) := by
      intro e
      have : p = x := by rw [e, ← hx.2]
      exact hn'.1 (this ▸ hp)
    simpa using this

theorem inv_removeNew {s : St} (a : Nat) (hi : Inv s) : Inv (removeNew s a) := by
  unfold removeNew
  apply inv_removeNew_fold a _ s (hi.newNd.filter _) _ hi
  intro p hp
  have := List.mem_filter.1 hp
  exact ⟨this.1, by simpa using this.2⟩

/-- `BanAddress` of today's code -/
theorem inv_ban (c : Cfg) {s : St} (a : Nat) (hi : Inv s) : Inv (ban true c s a) := by
  unfold ban
  exact inv_removeNew a (inv_removeTried a (inv_congr hi rfl rfl rfl rfl rfl))

theorem inv_step (c : Cfg) {s : St} (op : Op) (hi : Inv s) : Inv (step c s op) := by
  cases op with
  | add a b d => exact inv_add c a b d hi
  | good a t => exact inv_good a t hi
  | ban a => exact inv_ban c a hi
  | clock dt => exact inv_congr hi rfl rfl rfl rfl rfl

theorem inv_run (c : Cfg) : ∀ (ops : List Op) (s : St), Inv s → Inv (run c s ops) := by
  intro ops
  induction ops with
  | nil => intro s h; exact h
  | cons o os ih => intro s h; exact ih _ (inv_step c o h)

end BHS.Proofs.AddrMgr
