/-
Helper lemmas for the refinement `BHS.Gen.WireCore (translated from /repo/internal/wire) = BHS.Wire (hand model)`:
full-pair (allocation meter AND result) evaluation of the reader primitives on a stream that begins with a
complete 24-byte header, and the primitive-table facts (trimRight, goCopy, subRd).
-/
import BHS.Proofs.Wire
import BHS.Proofs.WireInv
import BHS.Gen.WireCore

namespace BHS.WireCoreGen
open BHS BHS.Wire BHS.Gen BHS.Gen.WireC BHS.WirePrim

/-! ## primitives -/

theorem trimRight_zero (l : Bytes) : trimRight l [0] = trimZeros l := by
  unfold trimRight trimZeros
  congr 2
  funext x
  simp [List.contains, List.elem]
  cases (x == 0) <;> rfl

theorem goCopy_pad (name : Bytes) (h : name.length ≤ commandSize) : goCopy (zeros commandSize) name = padCmd name := by
  unfold goCopy zeros padCmd
  rw [List.length_replicate, List.take_of_length_le h, List.drop_replicate]

theorem goCopy_full (dst src : Bytes) (h : src.length = dst.length) : goCopy dst src = src := by
  unfold goCopy
  rw [List.take_of_length_le (by omega), List.drop_eq_nil_of_le (by omega), List.append_nil]

/-! ## full-pair evaluation of the meter-free primitives -/

theorem get32le_fst (b : Bytes) : (get32le b).1 = [] := by
  unfold get32le; split <;> rfl

theorem get32le_full (n : Nat) (h : n < 2^32) (r : Bytes) : get32le (put32le n ++ r) = ([], .ok (n, r)) :=
  Prod.ext (get32le_fst _) (get32le_put32le n h r)

theorem getBytes_full (x : Bytes) (n : Nat) (h : x.length = n) (r : Bytes) : getBytes n (x ++ r) = ([], .ok (x, r)) := by
  subst h
  unfold getBytes
  rw [if_pos (by simp)]
  simp

theorem getBytes_short (n : Nat) (b : Bytes) (h : b.length < n) : getBytes n b = ([], .error .eof) := by
  unfold getBytes
  rw [if_neg (by omega)]

theorem subRd_apply (s : Bytes) (m : Rd α) (b : Bytes) :
    subRd s m b = match m s with
      | (al, .error e) => (al, .error e)
      | (al, .ok (a, s')) => (al, .ok ((a, s'), b)) := rfl

theorem discard_apply (n : Nat) (b : Bytes) : WirePrim.discard n b = (discardAllocs n, .ok ((), b.drop n)) := rfl

theorem fail_bind (e : Err) (f : α → Rd β) : (Rd.fail e >>= f) = Rd.fail e := rfl

theorem ite_bind (c : Prop) [Decidable c] (x y : Rd α) (f : α → Rd β) :
    ((if c then x else y) >>= f) = if c then x >>= f else y >>= f := by
  split <;> rfl

/-- forgetting part of the value does not change an error -/
theorem map_snd_err {m : Rd α} {f : α → β} {b : Bytes} {e : Err}
    (h : ((m >>= fun r => pure (f r)) b).2 = .error e) : (m b).2 = .error e := by
  rw [bind_apply] at h
  cases hm : m b with
  | mk al res =>
    rw [hm] at h
    cases res with
    | error e' => simpa using h
    | ok v => simp [pure_apply] at h

theorem map_snd_ok {m : Rd α} {f : α → β} {b : Bytes} {c : β} {r : Bytes}
    (h : ((m >>= fun r => pure (f r)) b).2 = .ok (c, r)) : ∃ a, (m b).2 = .ok (a, r) ∧ f a = c := by
  rw [bind_apply] at h
  cases hm : m b with
  | mk al res =>
    rw [hm] at h
    cases res with
    | error e' => simp at h
    | ok v =>
      simp only [pure_apply] at h
      injection h with h
      injection h with h1 h2
      exact ⟨v.1, by rw [← h2], h1⟩

/-- every stream of at least 24 bytes is a header followed by the rest (same statement as C14's frame_header_decompose;
    repeated here so that the refinement does not depend on the property file) -/
theorem header_decompose (bs : Bytes) (h : messageHeaderSize ≤ bs.length) :
    ∃ magic cmd len ck rest, bs = put32le magic ++ cmd ++ put32le len ++ ck ++ rest ∧
      magic < 2^32 ∧ len < 2^32 ∧ cmd.length = commandSize ∧ ck.length = 4 := by
  have h24 : 24 ≤ bs.length := h
  obtain ⟨magic, hm, em⟩ := bytes4_eq_put32le (bs.take 4) (by simp; omega)
  obtain ⟨len, hl, el⟩ := bytes4_eq_put32le ((bs.drop 16).take 4) (by simp; omega)
  refine ⟨magic, (bs.drop 4).take 12, len, (bs.drop 20).take 4, bs.drop 24, ?_, hm, hl, by simp; show min 12 _ = 12; omega, by simp; omega⟩
  rw [← em, ← el]
  have e1 : bs = bs.take 4 ++ bs.drop 4 := (List.take_append_drop 4 bs).symm
  have e2 : bs.drop 4 = (bs.drop 4).take 12 ++ bs.drop 16 := by
    have := (List.take_append_drop 12 (bs.drop 4)).symm
    rwa [List.drop_drop] at this
  have e3 : bs.drop 16 = (bs.drop 16).take 4 ++ bs.drop 20 := by
    have := (List.take_append_drop 4 (bs.drop 16)).symm
    rwa [List.drop_drop] at this
  have e4 : bs.drop 20 = (bs.drop 20).take 4 ++ bs.drop 24 := by
    have := (List.take_append_drop 4 (bs.drop 20)).symm
    rwa [List.drop_drop] at this
  calc bs = bs.take 4 ++ bs.drop 4 := e1
    _ = bs.take 4 ++ ((bs.drop 4).take 12 ++ ((bs.drop 16).take 4 ++ ((bs.drop 20).take 4 ++ bs.drop 24))) := by
      rw [← e4, ← e3, ← e2]
    _ = _ := by simp only [List.append_assoc]

/-! ## the 24-byte header: generated readMessageHeader and the hand model's readMessageRd on the same stream -/

theorem readMessageHeader_refines_short (b : Bytes) (h : b.length < messageHeaderSize) :
    Gen.WireCore.readMessageHeader b = ([], .error .eof) := by
  unfold Gen.WireCore.readMessageHeader
  simp only [bind_apply, getBytes_short _ _ h]

theorem readMessageHeader_refines_frame (magic len : Nat) (cmd ck rest : Bytes)
    (hm : magic < 2^32) (hl : len < 2^32) (hc : cmd.length = commandSize) (hk : ck.length = 4) :
    Gen.WireCore.readMessageHeader (put32le magic ++ cmd ++ put32le len ++ ck ++ rest) =
      ([], .ok ({ magic := magic, command := trimZeros cmd, length := len, checksum := ck }, rest)) := by
  unfold Gen.WireCore.readMessageHeader
  have h24 : (put32le magic ++ cmd ++ put32le len ++ ck).length = messageHeaderSize := by
    simp only [List.length_append, hc, hk, put32le, List.length_cons, List.length_nil]; rfl
  have h4 := getBytes_full ck 4 hk []
  rw [List.append_nil] at h4
  simp only [bind_apply, getBytes_full _ _ h24, subRd_apply]
  simp only [List.append_assoc, get32le_full _ hm, getBytes_full _ _ hc, get32le_full _ hl, h4,
    trimRight_zero, pure_apply, List.append_nil]

theorem readMessageRd_short (H : Bytes → Bytes) (gmax pver net : Nat) (b : Bytes) (h : b.length < messageHeaderSize) :
    readMessageRd H gmax pver net b = ([], .error .eof) := by
  unfold readMessageRd
  simp only [bind_apply, remaining_apply, if_pos h, fail_apply, List.append_nil]

theorem readMessageRd_frame (H : Bytes → Bytes) (gmax pver net magic len : Nat) (cmd ck rest : Bytes)
    (hm : magic < 2^32) (hl : len < 2^32) (hc : cmd.length = commandSize) (hk : ck.length = 4) :
    readMessageRd H gmax pver net (put32le magic ++ cmd ++ put32le len ++ ck ++ rest) =
      readBody H gmax pver net magic cmd len ck rest := by
  unfold readMessageRd
  have hlen : ¬ (put32le magic ++ (cmd ++ (put32le len ++ (ck ++ rest)))).length < messageHeaderSize := by
    simp only [List.length_append, hc, hk, put32le, List.length_cons, List.length_nil]
    show ¬ _ < 24
    have : commandSize = 12 := rfl
    omega
  simp only [bind_apply, remaining_apply, List.append_assoc, if_neg hlen, get32le_full _ hm,
    getBytes_full _ _ hc, get32le_full _ hl, getBytes_full _ _ hk, List.nil_append]

/-! ## utf8.ValidString: every command of makeEmptyMessage's table is ASCII -/

theorem commandTable_ascii : ∀ e ∈ commandTable, ∀ x ∈ e.1, x < 0x80 := by decide

theorem lookupCmd_ascii {name : Bytes} {t : MsgType} (h : lookupCmd name = some t) : ∀ x ∈ name, x < 0x80 := by
  unfold lookupCmd at h
  cases hf : commandTable.find? (fun e => e.1 == name) with
  | none => rw [hf] at h; simp at h
  | some e =>
    have h1 := List.find?_some hf
    have h2 := List.mem_of_find?_eq_some hf
    have : e.1 = name := by simpa using h1
    rw [← this]; exact commandTable_ascii e h2

end BHS.WireCoreGen
