/-
Helper lemmas for C18, part 2: the connection-manager counter machine (M-ConnMgr).
Core Lean only.
-/
import BHS.Model.ConnMgr

namespace BHS.Proofs.ConnMgr
open BHS.Model.ConnMgr

/-- slots accounted for: established + being dialled + given up after a ban -/
def tot (s : St) : Nat := s.conns.length + s.live.length + lost s

theorem mem_ins {x y : Nat} {l : List Nat} : y ∈ ins x l ↔ y = x ∨ y ∈ l := by
  unfold ins
  split
  · constructor
    · exact Or.inr
    · rintro (h | h)
      · subst h; assumption
      · exact h
  · exact List.mem_cons

theorem mem_rem {x y : Nat} {l : List Nat} : y ∈ rem x l ↔ y ∈ l ∧ y ≠ x := by
  unfold rem
  simp [List.mem_filter]

theorem hasConn_iff {s : St} {id : Nat} : hasConn s id = true ↔ ∃ x ∈ s.conns, x.1 = id := by
  unfold hasConn
  simp [List.any_eq_true]

def DistinctKeys (l : List (Nat × Nat)) : Prop := l.Pairwise (fun a b => a.1 ≠ b.1)

theorem filter_absent {l : List (Nat × Nat)} {id : Nat} (h : ∀ x ∈ l, x.1 ≠ id) :
    l.filter (fun x => x.1 != id) = l := by
  apply List.filter_eq_self.2
  intro x hx
  simpa using h x hx

theorem length_filter_key_le (l : List (Nat × Nat)) (id : Nat) (h : ∃ x ∈ l, x.1 = id) :
    (l.filter (fun x => x.1 != id)).length + 1 ≤ l.length := by
  induction l with
  | nil => rcases h with ⟨x, hx, _⟩; cases hx
  | cons y l ih =>
    by_cases hy : y.1 = id
    · have := List.length_filter_le (fun x => x.1 != id) l
      simp [hy]
      omega
    · have h' : ∃ x ∈ l, x.1 = id := by
        rcases h with ⟨x, hx, e⟩
        rcases List.mem_cons.1 hx with h1 | h1
        · subst h1; exact absurd e hy
        · exact ⟨x, h1, e⟩
      have := ih h'
      simp [hy]
      omega

theorem length_filter_key (l : List (Nat × Nat)) (id : Nat) (h : ∃ x ∈ l, x.1 = id) (hd : DistinctKeys l) :
    (l.filter (fun x => x.1 != id)).length + 1 = l.length := by
  induction l with
  | nil => rcases h with ⟨x, hx, _⟩; cases hx
  | cons y l ih =>
    have hd' : (∀ r ∈ l, y.1 ≠ r.1) ∧ DistinctKeys l := by
      simpa [DistinctKeys, List.pairwise_cons] using hd
    by_cases hy : y.1 = id
    · have : l.filter (fun x => x.1 != id) = l := filter_absent (fun x hx e => hd'.1 x hx (hy.trans e.symm))
      simp [hy, this]
    · have h' : ∃ x ∈ l, x.1 = id := by
        rcases h with ⟨x, hx, e⟩
        rcases List.mem_cons.1 hx with h1 | h1
        · subst h1; exact absurd e hy
        · exact ⟨x, h1, e⟩
      have := ih h' hd'.2
      simp [hy]
      omega

/-! ### safety: never more slots in use than the target — EVERY event sequence, both configurations -/

theorem tot_spawn (s : St) : tot (spawn s) = tot s + 1 := by
  simp only [tot, spawn, lost, List.length_append, List.length_cons, List.length_nil]
  omega

theorem tot_afterBan (s : St) (a : Nat) :
    tot (afterBanAddress { s with banned := s.banned ++ [a] }) = tot s + 1 := by
  unfold afterBanAddress
  split
  · rename_i h
    simp only [tot, lost, h, ↓reduceIte, List.length_append, List.length_cons, List.length_nil]
    omega
  · rename_i h
    rw [tot_spawn]
    simp [tot, lost, h]

theorem tot_failedConn (c : Cfg) (s : St) (addr : Option Nat) : tot (failedConn c s addr) = tot s + 1 := by
  unfold failedConn
  split
  · simp only []
    split
    · exact tot_afterBan _ _
    · exact tot_spawn _
  · exact tot_spawn _

theorem tot_step_le (c : Cfg) (s : St) (e : Event) (h : tot s ≤ c.target) : tot (step c s e) ≤ c.target := by
  cases e with
  | dialOk id a =>
    simp only [step]
    split
    · rename_i hl
      have h1 := List.length_erase_of_mem hl
      have hpos : 0 < s.live.length := List.length_pos_of_mem hl
      split
      · have := List.length_filter_le (fun x => x.1 != id) s.conns
        simp only [tot, lost, List.length_append, List.length_cons, List.length_nil] at *
        omega
      · simp only [tot, lost] at *
        omega
    · exact h
  | dialFail id a =>
    simp only [step]
    split
    · rename_i hl
      have h1 := List.length_erase_of_mem hl
      have hpos : 0 < s.live.length := List.length_pos_of_mem hl
      split
      · rw [tot_failedConn]
        simp only [tot, lost] at *
        omega
      · simp only [tot, lost] at *
        omega
    · exact h
  | addrFail id =>
    simp only [step]
    split
    · rename_i hl
      have h1 := List.length_erase_of_mem hl
      have hpos : 0 < s.live.length := List.length_pos_of_mem hl
      split
      · rw [tot_failedConn]
        simp only [tot, lost] at *
        omega
      · simp only [tot, lost] at *
        omega
    · exact h
  | disc id retry =>
    simp only [step]
    split
    · rename_i hc
      have h1 := length_filter_key_le s.conns id (hasConn_iff.1 hc)
      split
      · split
        · rw [tot_failedConn]
          simp only [tot, lost] at *
          omega
        · simp only [tot, lost] at *
          omega
      · simp only [tot, lost] at *
        omega
    · split
      · exact h
      · exact h

theorem tot_spawnN (n : Nat) (s : St) : tot (spawnN n s) = tot s + n := by
  induction n generalizing s with
  | zero => rfl
  | succ n ih => rw [spawnN, ih, tot_spawn]; omega

theorem tot_start (c : Cfg) : tot (start c) = c.target := by
  rw [start, tot_spawnN]
  simp [tot, lost]

theorem tot_run_le (c : Cfg) : ∀ (evs : List Event) (s : St), tot s ≤ c.target → tot (run c s evs) ≤ c.target := by
  intro evs
  induction evs with
  | nil => intro s h; exact h
  | cons e es ih => intro s h; exact ih _ (tot_step_le c s e h)

/-! ### exact accounting under the events the server produces -/

structure Wf (s : St) : Prop where
  liveLe : ∀ id ∈ s.live, id ≤ s.nextId
  livePend : ∀ id ∈ s.live, id ∈ s.pending
  liveNd : s.live.Nodup
  connLe : ∀ x ∈ s.conns, x.1 ≤ s.nextId
  connLive : ∀ x ∈ s.conns, x.1 ∉ s.live
  connNd : DistinctKeys s.conns

theorem wf_spawn {s : St} (h : Wf s) : Wf (spawn s) := by
  refine ⟨?_, ?_, ?_, ?_, ?_, h.connNd⟩
  · intro id hid
    simp only [spawn, List.mem_append, List.mem_singleton] at hid ⊢
    rcases hid with h1 | h1
    · have := h.liveLe id h1; omega
    · omega
  · intro id hid
    simp only [spawn, List.mem_append, List.mem_singleton] at hid ⊢
    rcases hid with h1 | h1
    · exact mem_ins.2 (Or.inr (h.livePend id h1))
    · exact mem_ins.2 (Or.inl h1)
  · simp only [spawn]
    rw [List.nodup_append]
    refine ⟨h.liveNd, by simp, ?_⟩
    intro a ha b hb
    simp only [List.mem_singleton] at hb
    have := h.liveLe a ha
    omega
  · intro x hx
    have := h.connLe x hx
    simp only [spawn] at hx ⊢
    omega
  · intro x hx
    simp only [spawn, List.mem_append, List.mem_singleton] at hx ⊢
    have h1 := h.connLive x hx
    have h2 := h.connLe x hx
    intro hh
    rcases hh with h3 | h3
    · exact h1 h3
    · omega

theorem wf_afterBan {s : St} (h : Wf s) : Wf (afterBanAddress s) := by
  unfold afterBanAddress
  split
  · exact h
  · exact wf_spawn h

theorem wf_failedConn {c : Cfg} {s : St} (addr : Option Nat) (h : Wf s) : Wf (failedConn c s addr) := by
  unfold failedConn
  split
  · simp only []
    split
    · exact wf_afterBan ⟨h.liveLe, h.livePend, h.liveNd, h.connLe, h.connLive, h.connNd⟩
    · exact wf_spawn ⟨h.liveLe, h.livePend, h.liveNd, h.connLe, h.connLive, h.connNd⟩
  · exact wf_spawn ⟨h.liveLe, h.livePend, h.liveNd, h.connLe, h.connLive, h.connNd⟩

/-- a request leaves `live` (its goroutine delivered its result); `pending` untouched. -/
theorem wf_eraseLive {s : St} (id : Nat) (asks dials : Nat) (h : Wf s) :
    Wf { s with live := s.live.erase id, asks := asks, dials := dials } := by
  refine ⟨?_, ?_, h.liveNd.erase id, h.connLe, ?_, h.connNd⟩
  · intro x hx; exact h.liveLe x (List.mem_of_mem_erase hx)
  · intro x hx; exact h.livePend x (List.mem_of_mem_erase hx)
  · intro x hx hm; exact h.connLive x hx (List.mem_of_mem_erase hm)

theorem wf_step {c : Cfg} {s : St} {e : Event} (h : Wf s) (ha : Adm s e) : Wf (step c s e) := by
  cases e with
  | dialOk id a =>
    simp only [step]
    split
    · rename_i hl
      split
      · have hfil : s.conns.filter (fun x => x.1 != id) = s.conns :=
          filter_absent (fun x hx e => h.connLive x hx (e ▸ hl))
        simp only [hfil]
        refine ⟨?_, ?_, h.liveNd.erase id, ?_, ?_, ?_⟩
        · intro x hx; exact h.liveLe x (List.mem_of_mem_erase hx)
        · intro x hx
          have := (h.liveNd.mem_erase_iff).1 hx
          exact mem_rem.2 ⟨h.livePend x this.2, this.1⟩
        · intro x hx
          simp only [List.mem_append, List.mem_singleton] at hx
          rcases hx with h1 | h1
          · exact h.connLe x h1
          · subst h1; exact h.liveLe id hl
        · intro x hx hm
          simp only [List.mem_append, List.mem_singleton] at hx
          have hm' := (h.liveNd.mem_erase_iff).1 hm
          rcases hx with h1 | h1
          · exact h.connLive x h1 hm'.2
          · subst h1; exact hm'.1 rfl
        · simp only [DistinctKeys]
          rw [List.pairwise_append]
          refine ⟨h.connNd, by simp, ?_⟩
          intro x hx y hy
          simp only [List.mem_singleton] at hy
          subst hy
          intro e
          exact h.connLive x hx (e ▸ hl)
      · exact wf_eraseLive id _ _ h
    · exact h
  | dialFail id a =>
    simp only [step]
    split
    · split
      · exact wf_failedConn _ (wf_eraseLive id _ _ h)
      · exact wf_eraseLive id _ _ h
    · exact h
  | addrFail id =>
    simp only [step]
    split
    · split
      · exact wf_failedConn _ (wf_eraseLive id _ s.dials h)
      · exact wf_eraseLive id _ s.dials h
    · exact h
  | disc id retry =>
    have hnl : id ∉ s.live := ha.1
    simp only [step]
    have hsub : ∀ x ∈ s.conns.filter (fun x => x.1 != id), x ∈ s.conns := fun x hx => (List.mem_filter.1 hx).1
    have w1 : Wf { s with conns := s.conns.filter (fun x => x.1 != id), closed := id :: s.closed } :=
      ⟨h.liveLe, h.livePend, h.liveNd, fun x hx => h.connLe x (hsub x hx), fun x hx => h.connLive x (hsub x hx),
        List.Pairwise.filter _ h.connNd⟩
    split
    · split
      · split
        · apply wf_failedConn
          exact ⟨w1.liveLe, fun x hx => mem_ins.2 (Or.inr (h.livePend x hx)), w1.liveNd, w1.connLe, w1.connLive, w1.connNd⟩
        · exact w1
      · exact w1
    · split
      · refine ⟨h.liveLe, ?_, h.liveNd, h.connLe, h.connLive, h.connNd⟩
        intro x hx
        exact mem_rem.2 ⟨h.livePend x hx, fun e => hnl (e ▸ hx)⟩
      · exact h

theorem wf_spawnN (n : Nat) : ∀ s, Wf s → Wf (spawnN n s) := by
  induction n with
  | zero => intro s h; exact h
  | succ n ih => intro s h; exact ih _ (wf_spawn h)

theorem wf_start (c : Cfg) : Wf (start c) := by
  apply wf_spawnN
  constructor <;> simp [DistinctKeys]

/-- with the server's events the accounting is exact in every step -/
theorem tot_step_eq {c : Cfg} {s : St} {e : Event} (hw : Wf s) (ha : Adm s e) (h : tot s = c.target) :
    tot (step c s e) = c.target := by
  cases e with
  | dialOk id a =>
    simp only [step]
    split
    · rename_i hl
      have h1 := List.length_erase_of_mem hl
      have hpos : 0 < s.live.length := List.length_pos_of_mem hl
      have hp : id ∈ s.pending := hw.livePend id hl
      have hfil : s.conns.filter (fun x => x.1 != id) = s.conns :=
        filter_absent (fun x hx e => hw.connLive x hx (e ▸ hl))
      simp only [hp, ↓reduceIte, hfil]
      simp only [tot, lost, List.length_append, List.length_cons, List.length_nil] at *
      omega
    · exact h
  | dialFail id a =>
    simp only [step]
    split
    · rename_i hl
      have h1 := List.length_erase_of_mem hl
      have hpos : 0 < s.live.length := List.length_pos_of_mem hl
      have hp : id ∈ s.pending := hw.livePend id hl
      simp only [hp, ↓reduceIte]
      rw [tot_failedConn]
      simp only [tot, lost] at *
      omega
    · exact h
  | addrFail id =>
    simp only [step]
    split
    · rename_i hl
      have h1 := List.length_erase_of_mem hl
      have hpos : 0 < s.live.length := List.length_pos_of_mem hl
      have hp : id ∈ s.pending := hw.livePend id hl
      simp only [hp, ↓reduceIte]
      rw [tot_failedConn]
      simp only [tot, lost] at *
      omega
    · exact h
  | disc id retry =>
    simp only [step]
    split
    · rename_i hc
      have hr : retry = true := ha.2 hc
      have h1 := length_filter_key s.conns id (hasConn_iff.1 hc) hw.connNd
      have hlt : (s.conns.filter (fun x => x.1 != id)).length < c.target := by
        simp only [tot] at h
        omega
      simp only [hr, ↓reduceIte, hlt]
      rw [tot_failedConn]
      simp only [tot, lost] at *
      omega
    · split
      · exact h
      · exact h

theorem run_eq {c : Cfg} : ∀ (evs : List Event) (s : St), Wf s → AdmAll c s evs → tot s = c.target →
    Wf (run c s evs) ∧ tot (run c s evs) = c.target := by
  intro evs
  induction evs with
  | nil => intro s hw _ h; exact ⟨hw, h⟩
  | cons e es ih =>
    intro s hw ha h
    exact ih _ (wf_step hw ha.1) ha.2 (tot_step_eq hw ha.1 h)

/-- `BanAddress` is never called when it is not configured. -/
theorem banned_failedConn_noBan {c : Cfg} (hc : c.banAddr = false) (s : St) (addr : Option Nat) :
    (failedConn c s addr).banned = s.banned := by
  unfold failedConn
  split
  · rename_i hb; rw [hc] at hb; cases hb
  · rfl

theorem banned_step_noBan {c : Cfg} (hc : c.banAddr = false) (s : St) (e : Event) :
    (step c s e).banned = s.banned := by
  cases e with
  | dialOk id a =>
    simp only [step]; split
    · split <;> rfl
    · rfl
  | dialFail id a =>
    simp only [step]; split
    · split
      · rw [banned_failedConn_noBan hc]
      · rfl
    · rfl
  | addrFail id =>
    simp only [step]; split
    · split
      · rw [banned_failedConn_noBan hc]
      · rfl
    · rfl
  | disc id retry =>
    simp only [step]; split
    · split
      · split
        · rw [banned_failedConn_noBan hc]
        · rfl
      · rfl
    · split <;> rfl

theorem banned_spawnN (n : Nat) : ∀ s, (spawnN n s).banned = s.banned := by
  induction n with
  | zero => intro s; rfl
  | succ n ih => intro s; rw [spawnN, ih]; rfl

theorem banned_run_noBan {c : Cfg} (hc : c.banAddr = false) : ∀ (evs : List Event) (s : St),
    (run c s evs).banned = s.banned := by
  intro evs
  induction evs with
  | nil => intro s; rfl
  | cons e es ih => intro s; simp only [run, List.foldl_cons] at ih ⊢; rw [ih, banned_step_noBan hc]

theorem lost_eq_zero (s : St) : lost s = 0 := by
  simp [lost, slotLostOnBan]

theorem conns_spawn (s : St) : (spawn s).conns = s.conns := rfl

theorem conns_failedConn (c : Cfg) (s : St) (addr : Option Nat) : (failedConn c s addr).conns = s.conns := by
  unfold failedConn
  split
  · simp only []
    split
    · unfold afterBanAddress; split <;> rfl
    · rfl
  · rfl

end BHS.Proofs.ConnMgr
