/-
Helper lemmas for C20 (configuration precedence). Core Lean only.
-/
import BHS.Model.Config

namespace BHS.Proofs.Config
open BHS.Config

/-- A key table is *well formed* when dotted keys are unique, and *fully registered* when
viper knows a default for every entry and that default is the documented one. -/
def FullyRegistered (keys : List KeyInfo) : Prop :=
  ∀ i ∈ keys, i.registered = true ∧ i.viperDflt = i.dflt

instance (keys : List KeyInfo) : Decidable (FullyRegistered keys) := by
  unfold FullyRegistered; infer_instance

theorem lookup_of_nodup (keys : List KeyInfo) (h : (keys.map (·.key)).Nodup) (i : KeyInfo) (hi : i ∈ keys) :
    lookup keys i.key = some i := by
  induction keys with
  | nil => cases hi
  | cons a t ih =>
    simp only [List.map_cons, List.nodup_cons] at h
    unfold lookup
    rw [List.find?_cons]
    rcases List.mem_cons.mp hi with rfl | hit
    · simp
    · have hne : a.key ≠ i.key := by
        intro e
        exact h.1 (e ▸ List.mem_map_of_mem hit)
      have : (a.key == i.key) = false := by simpa using hne
      rw [this]
      exact ih h.2 hit

theorem viperDefaults_of (keys : List KeyInfo) (h : (keys.map (·.key)).Nodup) (hr : FullyRegistered keys)
    (i : KeyInfo) (hi : i ∈ keys) : viperDefaults keys i.key = some i.dflt := by
  unfold viperDefaults
  rw [lookup_of_nodup keys h i hi]
  have := hr i hi
  simp [this.1, this.2]

/-- On a well-formed, fully registered table the viper-accurate model is exactly
"environment (empty = unset) over file over documented default". -/
theorem effective_eq_resolve (keys : List KeyInfo) (h : (keys.map (·.key)).Nodup) (hr : FullyRegistered keys)
    (i : KeyInfo) (hi : i ∈ keys) (ae : Bool) (rawEnv file : Source) :
    effective keys ae rawEnv file i.key = resolve (viperEnv ae rawEnv) file (fun _ => some i.dflt) i.key := by
  unfold effective
  rw [viperDefaults_of keys h hr i hi]
  simp [resolve, viperDefaults_of keys h hr i hi]

theorem resolve_env (env file dflt : Source) (k v : String) (h : env k = some v) :
    resolve env file dflt k = some v := by
  simp [resolve, h]

theorem resolve_file (env file dflt : Source) (k v : String) (he : env k = none) (h : file k = some v) :
    resolve env file dflt k = some v := by
  simp [resolve, he, h]

theorem resolve_default (env file dflt : Source) (k : String) (he : env k = none) (hf : file k = none) :
    resolve env file dflt k = dflt k := by
  simp [resolve, he, hf]

theorem viperEnv_nonempty (ae : Bool) (raw : Source) (k v : String) (h : raw k = some v) (hv : v ≠ "" ∨ ae = true) :
    viperEnv ae raw k = some v := by
  rcases hv with hv | hv <;> simp [viperEnv, h, hv]

theorem viperEnv_empty (raw : Source) (k : String) (h : raw k = some "") : viperEnv false raw k = none := by
  simp [viperEnv, h]

theorem viperEnv_none (ae : Bool) (raw : Source) (k : String) (h : raw k = none) : viperEnv ae raw k = none := by
  simp [viperEnv, h]

end BHS.Proofs.Config
