/-
Helper lemmas for C13: the heights the locator's step rule visits (`locHeights`, mirroring `locatorGo`; `locStep`),
their shape (first, last, strictly descending, fuel, the distance between consecutive entries), the longest-chain rows
at a list of heights (`lcRowsAt`), and `locatorGo` = the hashes of the longest-chain rows at `locHeights`.
Core Lean only.
-/
import BHS.Proofs.QueryLc

set_option linter.unusedSectionVars false

namespace BHS.Chain
variable {H : Type} [DecidableEq H]

/-! ### the locator: the expected heights -/

/-- the heights the step rule visits, mirroring `locatorGo`: `h`, then `h - step` (clipped at 0) …, stop after
    height 0; the step doubles once more than 10 entries have been appended (`n` = entries appended so far) -/
def locHeights : Nat → Nat → Nat → Nat → List Nat
  | 0, _, _, _ => []
  | fuel + 1, h, step, n =>
    h :: (if h = 0 then [] else locHeights fuel (h - step) (if n + 1 > 10 then step * 2 else step) (n + 1))

/-- the distance between entry `j` and entry `j+1`: 1 for the first 11 steps, then 2, 4, 8, … -/
def locStep (j : Nat) : Nat := if j ≤ 10 then 1 else 2 ^ (j - 10)

theorem locHeights_zero (fuel step n : Nat) : locHeights (fuel + 1) 0 step n = [0] := by
  simp [locHeights]

theorem locHeights_pos (fuel : Nat) {h : Nat} (step n : Nat) (h0 : h ≠ 0) :
    locHeights (fuel + 1) h step n =
      h :: locHeights fuel (h - step) (if n + 1 > 10 then step * 2 else step) (n + 1) := by
  simp [locHeights, h0]

theorem locStep_succ (n : Nat) : (if n + 1 > 10 then locStep n * 2 else locStep n) = locStep (n + 1) := by
  unfold locStep
  by_cases h : n + 1 > 10
  · rw [if_pos h, if_neg (by omega : ¬ n + 1 ≤ 10)]
    by_cases h' : n ≤ 10
    · have : n = 10 := by omega
      subst this; rfl
    · rw [if_neg h']
      have : n + 1 - 10 = (n - 10) + 1 := by omega
      rw [this, Nat.pow_succ]
  · rw [if_neg h, if_pos (by omega), if_pos (by omega)]

theorem locStep_pos (n : Nat) : 1 ≤ locStep n := by
  unfold locStep
  split
  · exact Nat.le_refl _
  · exact Nat.one_le_two_pow

theorem locHeights_le : ∀ (fuel h step n : Nat), ∀ k ∈ locHeights fuel h step n, k ≤ h
  | 0, _, _, _, k, hk => by cases hk
  | fuel + 1, h, step, n, k, hk => by
    by_cases h0 : h = 0
    · subst h0
      rw [locHeights_zero] at hk
      have := List.mem_singleton.1 hk; omega
    · rw [locHeights_pos fuel step n h0] at hk
      rcases List.mem_cons.1 hk with rfl | hk'
      · exact Nat.le_refl _
      · have := locHeights_le fuel _ _ _ k hk'; omega

/-- strictly descending -/
theorem locHeights_desc : ∀ (fuel h step n : Nat), 1 ≤ step → (locHeights fuel h step n).Pairwise (· > ·)
  | 0, _, _, _, _ => List.Pairwise.nil
  | fuel + 1, h, step, n, hs => by
    by_cases h0 : h = 0
    · subst h0; rw [locHeights_zero]; exact List.pairwise_singleton _ _
    · rw [locHeights_pos fuel step n h0, List.pairwise_cons]
      refine ⟨?_, locHeights_desc fuel _ _ _ (by split <;> omega)⟩
      intro k hk
      have := locHeights_le fuel _ _ _ k hk
      show k < h
      omega

theorem locHeights_head (fuel h step n : Nat) : (locHeights (fuel + 1) h step n).head? = some h := rfl

/-- with fuel `> h` the walk always reaches height 0 -/
theorem locHeights_last : ∀ (fuel h step n : Nat), 1 ≤ step → h < fuel →
    (locHeights fuel h step n).getLast? = some 0
  | 0, _, _, _, _, hf => by omega
  | fuel + 1, h, step, n, hs, hf => by
    by_cases h0 : h = 0
    · subst h0; rw [locHeights_zero]; rfl
    · rw [locHeights_pos fuel step n h0]
      have hf' : h - step < fuel := by omega
      have ih := locHeights_last fuel (h - step) (if n + 1 > 10 then step * 2 else step) (n + 1)
        (by split <;> omega) hf'
      cases e : locHeights fuel (h - step) (if n + 1 > 10 then step * 2 else step) (n + 1) with
      | nil => rw [e] at ih; cases ih
      | cons a l => rw [List.getLast?_cons_cons, ← e, ih]

/-- more fuel than `h + 1` changes nothing -/
theorem locHeights_fuel : ∀ (fuel fuel' h step n : Nat), 1 ≤ step → h < fuel → h < fuel' →
    locHeights fuel h step n = locHeights fuel' h step n
  | 0, _, _, _, _, _, hf, _ => by omega
  | _ + 1, 0, _, _, _, _, _, hf' => by omega
  | fuel + 1, fuel' + 1, h, step, n, hs, hf, hf' => by
    by_cases h0 : h = 0
    · subst h0; rw [locHeights_zero, locHeights_zero]
    · rw [locHeights_pos fuel step n h0, locHeights_pos fuel' step n h0,
        locHeights_fuel fuel fuel' (h - step) _ (n + 1) (by split <;> omega) (by omega) (by omega)]

/-- the step rule: entry `i+1` lies `locStep (n+i)` below entry `i` (clipped at 0) -/
theorem locHeights_step : ∀ (fuel h n i x y : Nat),
    (locHeights fuel h (locStep n) n)[i]? = some x → (locHeights fuel h (locStep n) n)[i + 1]? = some y →
      y = x - locStep (n + i)
  | 0, _, _, _, _, _, hx, _ => by simp [locHeights] at hx
  | fuel + 1, h, n, i, x, y, hx, hy => by
    by_cases h0 : h = 0
    · subst h0; rw [locHeights_zero] at hy; simp at hy
    · rw [locHeights_pos fuel (locStep n) n h0, locStep_succ] at hx hy
      rw [List.getElem?_cons_succ] at hy
      cases i with
      | zero =>
        rw [List.getElem?_cons_zero] at hx
        cases hx
        cases fuel with
        | zero => simp [locHeights] at hy
        | succ fuel =>
          have := locHeights_head fuel (h - locStep n) (locStep (n + 1)) (n + 1)
          rw [List.head?_eq_getElem?, hy] at this
          cases this; rfl
      | succ i =>
        rw [List.getElem?_cons_succ] at hx
        have := locHeights_step fuel _ (n + 1) i x y hx hy
        rw [this]
        have : n + 1 + i = n + (i + 1) := by omega
        rw [this]

/-! ### the locator -/

/-- the longest-chain rows at the given heights -/
def lcRowsAt (s : Store H) (hs : List Nat) : List (Row H) := hs.filterMap (lcAtHeight s)

theorem mem_lcRowsAt {s : Store H} {hs : List Nat} {r : Row H} (hr : r ∈ lcRowsAt s hs) :
    r ∈ s ∧ r.st = .lc ∧ r.height ∈ hs := by
  unfold lcRowsAt at hr
  obtain ⟨k, hk, e⟩ := List.mem_filterMap.1 hr
  obtain ⟨h1, h2, h3⟩ := lcAtHeight_some e
  exact ⟨h1, h3, by rw [h2]; exact hk⟩

/-- under the invariant there is a longest-chain row at every height up to the tip: none of the heights is dropped -/
theorem lcRowsAt_heights {cfg : Cfg H} {s : Store H} {t : Row H} (hw : WF cfg s) (ht : t ∈ s) (hl : LcAt s t) :
    ∀ (hs : List Nat), (∀ k ∈ hs, k ≤ t.height) → (lcRowsAt s hs).map (·.height) = hs := by
  intro hs
  induction hs with
  | nil => intro _; rfl
  | cons k hs ih =>
    intro hle
    obtain ⟨r, e, _, _, hh⟩ := lcAtHeight_le hw ht hl (hle k List.mem_cons_self)
    unfold lcRowsAt at ih ⊢
    rw [List.filterMap_cons, e]
    simp only [List.map_cons, hh]
    rw [ih (fun k' hk' => hle k' (List.mem_cons_of_mem _ hk'))]

theorem locatorGo_eq {cfg : Cfg H} {s : Store H} {t : Row H} (hw : WF cfg s) (ht : t ∈ s) (hl : LcAt s t) :
    ∀ (fuel : Nat) (v : Row H) (step n : Nat), v ∈ s → v.st = .lc →
      locatorGo s fuel v step n = (lcRowsAt s (locHeights fuel v.height step n)).map (·.hash) := by
  intro fuel
  induction fuel with
  | zero => intro v step n _ _; rfl
  | succ fuel ih =>
    intro v step n hv hvl
    have hself := lcAtHeight_of_lc hl hv hvl
    by_cases h0 : v.height = 0
    · have e1 : locatorGo s (fuel + 1) v step n = [v.hash] := by simp [locatorGo, h0]
      rw [e1, h0, locHeights_zero]
      rw [h0] at hself
      simp [lcRowsAt, hself]
    · have hle : v.height - step ≤ t.height := by have := hl.top v hv hvl; omega
      obtain ⟨v', e, hv', hvl', hh⟩ := lcAtHeight_le hw ht hl hle
      have e1 : locatorGo s (fuel + 1) v step n =
          v.hash :: locatorGo s fuel v' (if n + 1 > 10 then step * 2 else step) (n + 1) := by
        simp [locatorGo, h0, e]
      rw [e1, locHeights_pos fuel step n h0, ih v' _ _ hv' hvl', hh]
      simp [lcRowsAt, hself]

end BHS.Chain
