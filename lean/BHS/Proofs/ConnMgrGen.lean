/-
Helper lemmas for the refinement "regenerated connection manager = M-ConnMgr" (theorems in
`BHS/Props/ConnMgrGen.lean`). Nothing here mentions the generated module `BHS.Gen.ConnMgr`: these are facts about
the hand model, the primitives of `BHS.Model.ConnMgrPrim` and list bookkeeping. Core Lean only.
-/
import BHS.Model.ConnMgrPrim
import BHS.Proofs.PeersConnMgr

namespace BHS.Proofs.ConnMgrGen
open BHS.Model.ConnMgr

/-- the configuration the hand model is about: the callbacks it takes for granted are set. -/
structure Srv (c : GCfg) : Prop where
  gna : c.getNewAddress = true
  ond : c.onDisconnection = true

/-- what the hand model leaves out is in its rest position: `Stop` was not called, no permanent request. -/
structure Base (g : G) : Prop where
  stop : g.stop = 0
  perm : ∀ i, g.perm i = false

/-! ### the failure bookkeeping of `handleFailedConn`, stated over `G` -/

/-- the failure bookkeeping of `handleFailedConn` before the new request is made (non-permanent request) -/
def failedPre (c : GCfg) (g : G) (addr : Option Nat) : G :=
  match addr, c.banAddr with
  | some a, true =>
    if c.maxFailed ≤ (g.fails a + 1) % 65536
    then { g with fails := upd g.fails a ((g.fails a + 1) % 65536), banned := g.banned ++ [a] }
    else { g with fails := upd g.fails a ((g.fails a + 1) % 65536) }
  | _, _ =>
    if c.maxFailed ≤ g.gfails + 1
    then { g with gfails := g.gfails + 1, acts := g.acts ++ [Act.after c.retryDuration Fn.newConnReq] }
    else { g with gfails := g.gfails + 1 }

theorem failedPre_stop (c : GCfg) (g : G) (a : Option Nat) : (failedPre c g a).stop = g.stop := by
  unfold failedPre; split <;> split <;> rfl
theorem failedPre_perm (c : GCfg) (g : G) (a : Option Nat) : (failedPre c g a).perm = g.perm := by
  unfold failedPre; split <;> split <;> rfl
theorem failedPre_rstate (c : GCfg) (g : G) (a : Option Nat) : (failedPre c g a).rstate = g.rstate := by
  unfold failedPre; split <;> split <;> rfl
theorem failedPre_nextId (c : GCfg) (g : G) (a : Option Nat) : (failedPre c g a).nextId = g.nextId := by
  unfold failedPre; split <;> split <;> rfl
theorem failedPre_base {c : GCfg} {g : G} (a : Option Nat) (hb : Base g) : Base (failedPre c g a) :=
  ⟨by rw [failedPre_stop]; exact hb.stop, by rw [failedPre_perm]; exact hb.perm⟩

theorem failedPre_spawn (c : GCfg) (g : G) (a : Option Nat) :
    spawn (failedPre c g a).toSt = failedConn c.toCfg g.toSt a := by
  unfold failedPre failedConn
  cases a <;> cases hban : c.banAddr <;> simp [afterBanAddress, slotLostOnBan, upd] <;> split <;> rfl

theorem failedPre_live (c : GCfg) (g : G) (a : Option Nat) : (failedPre c g a).live = g.live := by
  unfold failedPre; split <;> split <;> rfl
theorem failedPre_pending (c : GCfg) (g : G) (a : Option Nat) : (failedPre c g a).pending = g.pending := by
  unfold failedPre; split <;> split <;> rfl

theorem hasConn_lookup (s : St) (id : Nat) : hasConn s id = (lookupConn s.conns id).isSome := by
  unfold hasConn lookupConn
  induction s.conns with
  | nil => rfl
  | cons x xs ih =>
    simp only [List.any_cons, List.find?_cons]
    cases h : x.1 == id <;> simp [ih]

theorem addrOf_lookup (s : St) (id : Nat) : addrOf s id = lookupConn s.conns id := rfl

/-! ### request states coherent with `pending` (`cc` = the value of `ConnCanceled`) -/

def CohF (cc : Nat) (live pending : List Nat) (rs : Nat → Nat) : Prop := ∀ j ∈ live, rs j = cc ↔ j ∉ pending

theorem cohF_erase {cc : Nat} {live p : List Nat} {rs : Nat → Nat} (id : Nat) (h : CohF cc live p rs) : CohF cc (live.erase id) p rs :=
  fun j hj => h j (List.mem_of_mem_erase hj)

theorem cohF_erase_upd {cc : Nat} {live p : List Nat} {rs : Nat → Nat} (id v : Nat) (hnd : live.Nodup) (h : CohF cc live p rs) :
    CohF cc (live.erase id) p (upd rs id v) := by
  intro j hj
  have hm := (hnd.mem_erase_iff).1 hj
  simp only [upd, hm.1, ↓reduceIte]
  exact h j hm.2

theorem cohF_erase_rem_upd {cc : Nat} {live p : List Nat} {rs : Nat → Nat} (id v : Nat) (hnd : live.Nodup) (h : CohF cc live p rs) :
    CohF cc (live.erase id) (rem id p) (upd rs id v) := by
  intro j hj
  have hm := (hnd.mem_erase_iff).1 hj
  simp only [upd, hm.1, ↓reduceIte, BHS.Proofs.ConnMgr.mem_rem]
  have := h j hm.2
  constructor
  · intro h1 h2; exact (this.1 h1) h2.1
  · intro h1; exact this.2 (fun h2 => h1 ⟨h2, hm.1⟩)

theorem cohF_ins_upd {cc : Nat} {live p : List Nat} {rs : Nat → Nat} (id v : Nat) (hni : id ∉ live) (h : CohF cc live p rs) :
    CohF cc live (ins id p) (upd rs id v) := by
  intro j hj
  have hne : j ≠ id := fun e => hni (e ▸ hj)
  simp only [upd, hne, ↓reduceIte, BHS.Proofs.ConnMgr.mem_ins, false_or]
  exact h j hj

theorem cohF_upd_notlive {cc : Nat} {live p : List Nat} {rs : Nat → Nat} (id v : Nat) (hni : id ∉ live) (h : CohF cc live p rs) :
    CohF cc live p (upd rs id v) := by
  intro j hj
  have hne : j ≠ id := fun e => hni (e ▸ hj)
  simp only [upd, hne, ↓reduceIte]
  exact h j hj

/-- "Canceling": whatever the request was -/
theorem cohF_cancel {cc : Nat} {live p : List Nat} {rs : Nat → Nat} (id : Nat) (h : CohF cc live p rs) :
    CohF cc live (rem id p) (upd rs id cc) := by
  intro j hj
  by_cases hne : j = id
  · subst hne
    simp [upd, BHS.Proofs.ConnMgr.mem_rem]
  · simp only [upd, hne, ↓reduceIte, BHS.Proofs.ConnMgr.mem_rem]
    have := h j hj
    constructor
    · intro h1 h2; exact (this.1 h1) h2.1
    · intro h1; exact this.2 (fun h2 => h1 ⟨h2, hne⟩)

/-- `spawn`: a new id beyond every parked one, registered, in a state that is not `cc` -/
theorem cohF_spawn {cc : Nat} {live p : List Nat} {rs rs' : Nat → Nat} (n v : Nat) (hv : v ≠ cc)
    (hle : ∀ j ∈ live, j ≤ n) (hrs : ∀ j, rs' j = if j = n + 1 then v else rs j) (h : CohF cc live p rs) :
    CohF cc (live ++ [n + 1]) (ins (n + 1) p) rs' := by
  intro j hj
  rw [hrs, BHS.Proofs.ConnMgr.mem_ins]
  simp only [List.mem_append, List.mem_singleton] at hj
  rcases hj with hj | hj
  · have hne : j ≠ n + 1 := by have := hle j hj; omega
    simp only [hne, ↓reduceIte, false_or]
    exact h j hj
  · simp [hj, hv]


/-- the part of the hand model's well-formedness that holds for EVERY event sequence (no `Adm`) -/
structure WfL (s : St) : Prop where
  liveLe : ∀ id ∈ s.live, id ≤ s.nextId
  livePos : ∀ id ∈ s.live, id ≠ 0
  liveNd : s.live.Nodup
  connLe : ∀ x ∈ s.conns, x.1 ≤ s.nextId
  connLive : ∀ x ∈ s.conns, x.1 ∉ s.live


/-! ### `WfL` along EVERY event sequence of the hand model -/

theorem wfl_spawn {s : St} (h : WfL s) : WfL (spawn s) := by
  refine ⟨?_, ?_, ?_, ?_, ?_⟩
  · intro id hid
    simp only [spawn, List.mem_append, List.mem_singleton] at hid ⊢
    rcases hid with h1 | h1
    · have := h.liveLe id h1; omega
    · omega
  · intro id hid
    simp only [spawn, List.mem_append, List.mem_singleton] at hid
    rcases hid with h1 | h1
    · exact h.livePos id h1
    · omega
  · simp only [spawn]
    rw [List.nodup_append]
    refine ⟨h.liveNd, by simp, ?_⟩
    intro a ha b hb
    simp only [List.mem_singleton] at hb
    have := h.liveLe a ha
    omega
  · intro x hx
    have := h.connLe x hx
    simp only [spawn] at hx ⊢
    omega
  · intro x hx
    simp only [spawn, List.mem_append, List.mem_singleton] at hx ⊢
    have h1 := h.connLive x hx
    have h2 := h.connLe x hx
    intro hh
    rcases hh with h3 | h3
    · exact h1 h3
    · omega

theorem wfl_failedConn {c : Cfg} {s : St} (addr : Option Nat) (h : WfL s) : WfL (failedConn c s addr) := by
  unfold failedConn
  split
  · simp only []
    split
    · unfold afterBanAddress
      split
      · exact ⟨h.liveLe, h.livePos, h.liveNd, h.connLe, h.connLive⟩
      · exact wfl_spawn ⟨h.liveLe, h.livePos, h.liveNd, h.connLe, h.connLive⟩
    · exact wfl_spawn ⟨h.liveLe, h.livePos, h.liveNd, h.connLe, h.connLive⟩
  · exact wfl_spawn ⟨h.liveLe, h.livePos, h.liveNd, h.connLe, h.connLive⟩

theorem wfl_eraseLive {s : St} (id : Nat) (asks dials : Nat) (h : WfL s) :
    WfL { s with live := s.live.erase id, asks := asks, dials := dials } := by
  refine ⟨?_, ?_, h.liveNd.erase id, h.connLe, ?_⟩
  · intro x hx; exact h.liveLe x (List.mem_of_mem_erase hx)
  · intro x hx; exact h.livePos x (List.mem_of_mem_erase hx)
  · intro x hx hm; exact h.connLive x hx (List.mem_of_mem_erase hm)

theorem wfl_step {c : Cfg} {s : St} (h : WfL s) (e : Event) : WfL (step c s e) := by
  cases e with
  | dialOk id a =>
    simp only [step]
    split
    · rename_i hl
      split
      · refine ⟨?_, ?_, h.liveNd.erase id, ?_, ?_⟩
        · intro x hx; exact h.liveLe x (List.mem_of_mem_erase hx)
        · intro x hx; exact h.livePos x (List.mem_of_mem_erase hx)
        · intro x hx
          simp only [List.mem_append, List.mem_singleton, List.mem_filter] at hx
          rcases hx with h1 | h1
          · exact h.connLe x h1.1
          · subst h1; exact h.liveLe id hl
        · intro x hx hm
          simp only [List.mem_append, List.mem_singleton, List.mem_filter] at hx
          have hm' := (h.liveNd.mem_erase_iff).1 hm
          rcases hx with h1 | h1
          · exact h.connLive x h1.1 hm'.2
          · subst h1; exact hm'.1 rfl
      · exact wfl_eraseLive id _ _ h
    · exact h
  | dialFail id a =>
    simp only [step]
    split
    · split
      · exact wfl_failedConn _ (wfl_eraseLive id _ _ h)
      · exact wfl_eraseLive id _ _ h
    · exact h
  | addrFail id =>
    simp only [step]
    split
    · split
      · exact wfl_failedConn _ (wfl_eraseLive id _ s.dials h)
      · exact wfl_eraseLive id _ s.dials h
    · exact h
  | disc id retry =>
    simp only [step]
    have hsub : ∀ x ∈ s.conns.filter (fun x => x.1 != id), x ∈ s.conns := fun x hx => (List.mem_filter.1 hx).1
    have w1 : WfL { s with conns := s.conns.filter (fun x => x.1 != id), closed := id :: s.closed } :=
      ⟨h.liveLe, h.livePos, h.liveNd, fun x hx => h.connLe x (hsub x hx), fun x hx => h.connLive x (hsub x hx)⟩
    split
    · split
      · split
        · apply wfl_failedConn
          exact ⟨w1.liveLe, w1.livePos, w1.liveNd, w1.connLe, w1.connLive⟩
        · exact w1
      · exact w1
    · split
      · exact ⟨h.liveLe, h.livePos, h.liveNd, h.connLe, h.connLive⟩
      · exact h

theorem wfl_spawnN (n : Nat) : ∀ s, WfL s → WfL (spawnN n s) := by
  induction n with
  | zero => intro s h; exact h
  | succ n ih => intro s h; exact ih _ (wfl_spawn h)

theorem wfl_start (c : Cfg) : WfL (start c) := by
  apply wfl_spawnN
  constructor <;> simp

/-! ### durations -/

/-- the delay `handleFailedConn` computes for the `n`-th retry of a permanent request (`mx` = `maxRetryDuration`) -/
def retryDelay (mx : Int) (c : GCfg) (n : Nat) : Int :=
  if durMul (Int.ofNat n) c.retryDuration > mx then mx else durMul (Int.ofNat n) c.retryDuration

theorem retryDelay_le (mx : Int) (c : GCfg) (n : Nat) : retryDelay mx c n ≤ mx := by
  unfold retryDelay
  split
  · exact Int.le_refl _
  · omega

theorem durMul_small {a b : Int} (h0 : 0 ≤ a * b) (h1 : a * b < 9223372036854775808) : durMul a b = a * b := by
  unfold durMul wrapI64
  omega


end BHS.Proofs.ConnMgrGen
