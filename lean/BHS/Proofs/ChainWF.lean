/-
Helper lemmas for C01 (4/5): preservation of the structural well-formedness `WF` by `add`
(relabelling of states, appending the new row), and the rows `add` never touches
(the root row, ORPHAN rows).
Core Lean only.
-/
import BHS.Proofs.ChainAdd
import BHS.Proofs.ChainWalk

set_option linter.unusedSectionVars false

namespace BHS.Chain
variable {H : Type} [DecidableEq H]

theorem setSt_fields_of_eq {a b : Row H} {st : St} (e : b = setSt a st) :
    b.id = a.id ∧ b.hash = a.hash ∧ b.prev = a.prev ∧ b.height = a.height ∧ b.cum = a.cum ∧
      b.work = a.work ∧ b.bits = a.bits ∧ srcOf b = srcOf a := by
  subst e
  exact ⟨rfl, rfl, rfl, rfl, rfl, rfl, rfl, rfl⟩

/-- relabelling states (orphans stay orphans, connected rows stay connected, the root stays on the
    longest chain) preserves well-formedness -/
theorem WF.map {cfg : Cfg H} {s : Store H} (h : WF cfg s) (f : Row H → Row H)
    (hf : ∀ a ∈ s, f a = setSt a (f a).st)
    (ho : ∀ a ∈ s, (f a).st = .orphan ↔ a.st = .orphan)
    (hroot : ∀ a ∈ s, a.id = 0 → (f a).st = .lc) : WF cfg (s.map f) := by
  have fld := fun a ha => setSt_fields_of_eq (hf a ha)
  have hcon : ∀ a ∈ s, connected (f a) ↔ connected a := fun a ha => not_congr (ho a ha)
  refine ⟨?_, ?_, ?_, ?_, ?_, ?_⟩
  · rw [List.map_map, List.length_map, ← h.ids]
    apply List.map_congr_left
    intro a ha; exact (fld a ha).1
  · rw [List.map_map]
    have : s.map ((·.hash) ∘ f) = s.map (·.hash) := by
      apply List.map_congr_left
      intro a ha; exact (fld a ha).2.1
    rw [this]; exact h.nodup
  · obtain ⟨g, hg, h0, h1, h2, h3⟩ := h.root
    refine ⟨f g, List.mem_map.2 ⟨g, hg, rfl⟩, ?_, hroot g hg h0, ?_, ?_⟩
    · rw [(fld g hg).1]; exact h0
    · rw [(fld g hg).2.2.2.1]; exact h2
    · intro r' hr'
      obtain ⟨a, ha, rfl⟩ := List.mem_map.1 hr'
      rw [(fld a ha).2.1, (fld g hg).2.2.1]
      exact h3 a ha
  · intro r' hr' hc h0
    obtain ⟨a, ha, rfl⟩ := List.mem_map.1 hr'
    have fa := fld a ha
    rw [fa.1] at h0
    obtain ⟨p, hp, e1, e2, e3, e4, e5⟩ := h.par a ha ((hcon a ha).1 hc) h0
    have fp := fld p hp
    refine ⟨f p, List.mem_map.2 ⟨p, hp, rfl⟩, ?_, ?_, (hcon p hp).2 e3, ?_, ?_⟩
    · rw [fp.2.1, fa.2.2.1]; exact e1
    · rw [fp.1, fa.1]; exact e2
    · rw [fp.2.2.2.1, fa.2.2.2.1]; exact e4
    · rw [fp.2.2.2.2.1, fa.2.2.2.2.1, fa.2.2.2.2.2.1]; exact e5
  · intro r' hr' hst p' hp' e
    obtain ⟨a, ha, rfl⟩ := List.mem_map.1 hr'
    obtain ⟨p, hp, rfl⟩ := List.mem_map.1 hp'
    have fa := fld a ha
    have fp := fld p hp
    rw [fp.2.1, fa.2.2.1] at e
    rw [fp.1, fa.1]
    rcases h.orph a ha ((ho a ha).1 hst) p hp e with k | k
    · exact Or.inl ((ho p hp).2 k)
    · exact Or.inr k
  · intro r' hr' h0
    obtain ⟨a, ha, rfl⟩ := List.mem_map.1 hr'
    have fa := fld a ha
    rw [fa.1] at h0
    rw [fa.2.1, fa.2.2.2.2.2.1, fa.2.2.2.2.2.2.1, fa.2.2.2.2.2.2.2]
    exact h.hashes a ha h0

/-- appending a new row with a fresh hash preserves well-formedness -/
theorem WF.append {cfg : Cfg H} {s : Store H} (h : WF cfg s) (r : Row H)
    (hid : r.id = s.length) (hfresh : ∀ a ∈ s, a.hash ≠ r.hash)
    (hz : ∀ g ∈ s, g.id = 0 → r.hash ≠ g.prev)
    (hpar : connected r → ∃ p ∈ s, p.hash = r.prev ∧ connected p ∧ r.height = p.height + 1 ∧
      r.cum = p.cum + r.work)
    (horph : r.st = .orphan → ∀ p ∈ s, p.hash = r.prev → p.st = .orphan)
    (hh : r.hash = cfg.hashOf (srcOf r) ∧ r.work = work r.bits ∧ r.hash ∉ cfg.forbidden) :
    WF cfg (s ++ [r]) := by
  have mem : ∀ a, a ∈ s ++ [r] ↔ a ∈ s ∨ a = r := by
    intro a; rw [List.mem_append, List.mem_singleton]
  refine ⟨?_, ?_, ?_, ?_, ?_, ?_⟩
  · rw [List.map_append, List.length_append, List.length_singleton, List.range_succ, h.ids,
      List.map_singleton, hid]
  · rw [List.map_append, List.nodup_append]
    refine ⟨h.nodup, by simp, ?_⟩
    intro a ha b hb
    obtain ⟨a0, ha0, rfl⟩ := List.mem_map.1 ha
    have : b = r.hash := by simpa using hb
    rw [this]; exact hfresh a0 ha0
  · obtain ⟨g, hg, h0, h1, h2, h3⟩ := h.root
    refine ⟨g, (mem g).2 (Or.inl hg), h0, h1, h2, ?_⟩
    intro a ha
    rcases (mem a).1 ha with ha | rfl
    · exact h3 a ha
    · exact hz g hg h0
  · intro a ha hc h0
    rcases (mem a).1 ha with ha | rfl
    · obtain ⟨p, hp, k⟩ := h.par a ha hc h0
      exact ⟨p, (mem p).2 (Or.inl hp), k⟩
    · obtain ⟨p, hp, e1, e2, e3, e4⟩ := hpar hc
      exact ⟨p, (mem p).2 (Or.inl hp), e1, by rw [hid]; exact ids_lt h.ids hp, e2, e3, e4⟩
  · intro o ho hst p hp e
    rcases (mem o).1 ho with ho' | rfl <;> rcases (mem p).1 hp with hp' | rfl
    · exact h.orph o ho' hst p hp' e
    · right; rw [hid]; exact ids_lt h.ids ho'
    · left; exact horph hst p hp' e
    · left; exact hst
  · intro a ha h0
    rcases (mem a).1 ha with ha | rfl
    · exact h.hashes a ha h0
    · exact hh

/-! ### `lowestHeight` -/

theorem lowestHeight_le (c : List (Row H)) : ∀ ht, lowestHeight c ht ≤ ht := by
  induction c with
  | nil => intro ht; exact Nat.le_refl _
  | cons a c ih =>
    intro ht
    show lowestHeight c (min ht a.height) ≤ ht
    have := ih (min ht a.height); omega

theorem lowestHeight_le_mem (c : List (Row H)) : ∀ ht, ∀ b ∈ c, lowestHeight c ht ≤ b.height := by
  induction c with
  | nil => intro ht b hb; cases hb
  | cons a c ih =>
    intro ht b hb
    show lowestHeight c (min ht a.height) ≤ b.height
    rcases List.mem_cons.1 hb with rfl | hb'
    · have := lowestHeight_le c (min ht b.height); omega
    · exact ih _ b hb'

theorem lowestHeight_attained (c : List (Row H)) :
    ∀ ht, lowestHeight c ht = ht ∨ ∃ b ∈ c, lowestHeight c ht = b.height := by
  induction c with
  | nil => intro ht; exact Or.inl rfl
  | cons a c ih =>
    intro ht
    show lowestHeight c (min ht a.height) = ht ∨ ∃ b ∈ a :: c, lowestHeight c (min ht a.height) = b.height
    rcases ih (min ht a.height) with k | ⟨b, hb, k⟩
    · by_cases hle : ht ≤ a.height
      · left; omega
      · right; exact ⟨a, List.mem_cons_self, by omega⟩
    · right; exact ⟨b, List.mem_cons_of_mem _ hb, k⟩

/-! ### the two hash lists of a switch -/

theorem mem_stalePre {s : Store H} {x : Src H} {a : Row H} :
    a ∈ stalePre s x ↔ a ∈ ancestorsFrom s s.length x.prev ∧ a.st = .stale := by
  unfold stalePre staleBackFrom
  rw [List.mem_filter]
  constructor
  · rintro ⟨k1, k2⟩; exact ⟨k1, of_decide_eq_true k2⟩
  · rintro ⟨k1, k2⟩; exact ⟨k1, decide_eq_true k2⟩

theorem stalePre_mem {s : Store H} {x : Src H} {a : Row H} (ha : a ∈ stalePre s x) : a ∈ s :=
  anc_mem _ _ a (mem_stalePre.1 ha).1

/-- the promoted hashes are those of the stale rows of the ancestor walk -/
theorem WF.mem_hs2 {cfg : Cfg H} {s : Store H} (h : WF cfg s) {x : Src H} {a : Row H} (ha : a ∈ s) :
    a.hash ∈ hs2 s x ↔ a ∈ ancestorsFrom s s.length x.prev ∧ a.st = .stale := by
  unfold hs2
  rw [List.mem_map, ← mem_stalePre]
  constructor
  · rintro ⟨b, hb, e⟩
    have : b = a := h.hash_inj (stalePre_mem hb) ha e
    rw [← this]; exact hb
  · intro k; exact ⟨a, k, rfl⟩

/-- the demoted hashes are those of the longest-chain rows from `lowH` up -/
theorem WF.mem_hs1 {cfg : Cfg H} {s : Store H} (h : WF cfg s) {x : Src H} {a : Row H} (ha : a ∈ s) :
    a.hash ∈ hs1 cfg s x ↔ lowH cfg s x ≤ a.height ∧ a.st = .lc := by
  unfold hs1 lcFromHeight
  rw [List.mem_map]
  constructor
  · rintro ⟨b, hb, e⟩
    have hb' := List.mem_filter.1 hb
    have : b = a := h.hash_inj hb'.1 ha e
    rw [← this]; exact of_decide_eq_true hb'.2
  · intro k; exact ⟨a, List.mem_filter.2 ⟨ha, decide_eq_true k⟩, rfl⟩

theorem WF.lowH_pos {cfg : Cfg H} {s : Store H} (h : WF cfg s) (x : Src H) : 1 ≤ lowH cfg s x := by
  unfold lowH
  rcases lowestHeight_attained (stalePre s x) (mkRow cfg s x).height with k | ⟨b, hb, k⟩
  · rw [k]; exact mkRow_height_pos cfg s x
  · rw [k]; exact h.stale_height_pos (stalePre_mem hb) (mem_stalePre.1 hb).2

/-- a row that is neither demoted nor promoted is unchanged -/
theorem WF.relab_orphan {cfg : Cfg H} {s : Store H} (h : WF cfg s) (x : Src H) {a : Row H} (ha : a ∈ s)
    (ho : a.st = .orphan) : relab (hs1 cfg s x) (hs2 s x) a = a := by
  apply relab_st_of_not_mem
  · intro k; have := ((h.mem_hs1 ha).1 k).2; rw [ho] at this; cases this
  · intro k; have := ((h.mem_hs2 ha).1 k).2; rw [ho] at this; cases this

theorem WF.relab_root {cfg : Cfg H} {s : Store H} (h : WF cfg s) (x : Src H) {g : Row H} (hg : g ∈ s)
    (h0 : g.id = 0) : relab (hs1 cfg s x) (hs2 s x) g = g := by
  have hr := h.root_of_id hg h0
  apply relab_st_of_not_mem
  · intro k; have := ((h.mem_hs1 hg).1 k).1; have := h.lowH_pos x; omega
  · intro k; have := ((h.mem_hs2 hg).1 k).2; rw [hr.1] at this; cases this

theorem WF.relab_orphan_iff {cfg : Cfg H} {s : Store H} (h : WF cfg s) (x : Src H) {a : Row H} (ha : a ∈ s) :
    (relab (hs1 cfg s x) (hs2 s x) a).st = .orphan ↔ a.st = .orphan := by
  rcases relab_st_cases (hs1 cfg s x) (hs2 s x) a with k | ⟨k1, k2⟩
  · rw [k]
  · have hne : a.st ≠ .orphan := by
      intro ho
      rcases k1 with k1 | k1
      · have := ((h.mem_hs1 ha).1 k1).2; rw [ho] at this; cases this
      · have := ((h.mem_hs2 ha).1 k1).2; rw [ho] at this; cases this
    constructor
    · intro e; rcases k2 with k2 | k2 <;> rw [e] at k2 <;> cases k2
    · intro e; exact absurd e hne

/-- the relabelled store of a switch is well-formed -/
theorem WF.relab_wf {cfg : Cfg H} {s : Store H} (h : WF cfg s) (x : Src H) :
    WF cfg (s.map (relab (hs1 cfg s x) (hs2 s x))) := by
  apply h.map
  · intro a _; exact relab_fields _ _ a
  · intro a ha; exact h.relab_orphan_iff x ha
  · intro a ha h0; rw [h.relab_root x ha h0]; exact (h.root_of_id ha h0).1

/-! ### the candidate row -/

theorem concurrent_connected {s : Store H} {r : Row H} (hc : concurrent s r = true) : connected r := by
  intro ho
  simp [concurrent, ho] at hc

theorem mkRow_par {cfg : Cfg H} {s : Store H} {x : Src H} (hc : connected (mkRow cfg s x)) :
    ∃ p ∈ s, byHash s x.prev = some p ∧ p.hash = x.prev ∧ connected p ∧
      (mkRow cfg s x).height = p.height + 1 ∧ (mkRow cfg s x).cum = p.cum + work x.bits ∧
      (mkRow cfg s x).st = p.st := by
  cases e : byHash s x.prev with
  | none => exact absurd (mkRow_none e).2 hc
  | some p =>
    have k := mkRow_some (cfg := cfg) e
    have hp := byHash_some e
    refine ⟨p, hp.1, rfl, hp.2, ?_, k.1, k.2.1, k.2.2⟩
    unfold connected; rw [← k.2.2]; exact hc

theorem WF.mkRow_orph {cfg : Cfg H} {s : Store H} (h : WF cfg s) {x : Src H}
    (ho : (mkRow cfg s x).st = .orphan) : ∀ p ∈ s, p.hash = x.prev → p.st = .orphan := by
  intro p hp e
  have k := mkRow_some (cfg := cfg) (byHash_eq_of_mem h.nodup hp e)
  rw [← k.2.2]; exact ho

/-- `add` preserves well-formedness; `g` is the root row -/
theorem WF.add_wf {cfg : Cfg H} {s : Store H} (h : WF cfg s) (x : Src H) {g : Row H} (hg : g ∈ s)
    (hg0 : g.id = 0) (hz : ∀ y, cfg.hashOf y ≠ g.prev) : WF cfg (add cfg s x).1 := by
  have hzz : ∀ g' ∈ s, g'.id = 0 → cfg.hashOf x ≠ g'.prev := by
    intro g' hg' h0
    rw [h.id_inj hg' hg (by rw [h0, hg0])]; exact hz x
  rcases add_cases cfg s x with ⟨_, e⟩ | ⟨_, _, e⟩ | ⟨hd, hf, k⟩
  · rw [e]; exact h
  · rw [e]; exact h
  · have fresh := byHash_not_isSome hd
    rcases k with ⟨_, e⟩ | ⟨_, _, e⟩ | ⟨hc, tip, _, _, e⟩ | ⟨hc, tip, _, _, e⟩
    · rw [e]
      apply h.append _ rfl fresh hzz
      · intro hc
        obtain ⟨p, hp, _, e1, e2, e3, e4, _⟩ := mkRow_par hc
        exact ⟨p, hp, e1, e2, e3, e4⟩
      · exact h.mkRow_orph
      · exact ⟨rfl, rfl, hf⟩
    · rw [e]; exact h
    · rw [e]
      apply h.append _ rfl fresh hzz
      · intro _
        obtain ⟨p, hp, _, e1, e2, e3, e4, _⟩ := mkRow_par (concurrent_connected hc)
        exact ⟨p, hp, e1, e2, e3, e4⟩
      · intro k; cases k
      · exact ⟨rfl, rfl, hf⟩
    · rw [e]
      have fld := fun a => setSt_fields_of_eq (relab_fields (hs1 cfg s x) (hs2 s x) a)
      apply (h.relab_wf x).append _ (by rw [List.length_map]; rfl)
      · intro a ha
        obtain ⟨a0, ha0, rfl⟩ := List.mem_map.1 ha
        rw [relab_hash]; exact fresh a0 ha0
      · intro g' hg' h0
        obtain ⟨a0, ha0, rfl⟩ := List.mem_map.1 hg'
        rw [(fld a0).1] at h0
        rw [(fld a0).2.2.1]
        exact hzz a0 ha0 h0
      · intro _
        obtain ⟨p, hp, _, e1, e2, e3, e4, _⟩ := mkRow_par (concurrent_connected hc)
        refine ⟨_, List.mem_map.2 ⟨p, hp, rfl⟩, ?_, ?_, ?_, ?_⟩
        · rw [(fld p).2.1]; exact e1
        · exact (not_congr (h.relab_orphan_iff x hp)).2 e2
        · rw [(fld p).2.2.2.1]; exact e3
        · rw [(fld p).2.2.2.2.1]; exact e4
      · intro k; cases k
      · exact ⟨rfl, rfl, hf⟩

/-- rows that `add` never touches: the root row and ORPHAN rows -/
theorem WF.add_keeps {cfg : Cfg H} {s : Store H} (h : WF cfg s) (x : Src H) {a : Row H} (ha : a ∈ s)
    (hk : a.id = 0 ∨ a.st = .orphan) : a ∈ (add cfg s x).1 := by
  rcases add_cases cfg s x with ⟨_, e⟩ | ⟨_, _, e⟩ | ⟨hd, hf, k⟩
  · rw [e]; exact ha
  · rw [e]; exact ha
  · rcases k with ⟨_, e⟩ | ⟨_, _, e⟩ | ⟨hc, tip, _, _, e⟩ | ⟨hc, tip, _, _, e⟩
    · rw [e]; exact List.mem_append_left _ ha
    · rw [e]; exact ha
    · rw [e]; exact List.mem_append_left _ ha
    · rw [e]
      apply List.mem_append_left
      refine List.mem_map.2 ⟨a, ha, ?_⟩
      rcases hk with hk | hk
      · exact h.relab_root x ha hk
      · exact h.relab_orphan x ha hk

end BHS.Chain
