/-
Helper lemmas for C06/C07 about the header store under `Chain.add` / `Chain.run`:
which hashes can be in the table, forbidden hashes never are, children of absent / orphan parents are orphans.
-/
import BHS.Model.Chain
import BHS.Spec.BestChain
import BHS.Proofs.ChainAdd
import BHS.Proofs.ChainWF

namespace BHS.Chain
variable {H : Type} [DecidableEq H]

/-- no row carries a forbidden hash -/
def NoForbidden (cfg : Cfg H) (s : Store H) : Prop := ∀ r ∈ s, r.hash ∉ cfg.forbidden

instance (cfg : Cfg H) (s : Store H) : Decidable (NoForbidden cfg s) := by unfold NoForbidden; infer_instance

/-- every row after `add` carries the hash of an old row or the (non-forbidden) hash of the submitted header -/
theorem add_hash_cases (cfg : Cfg H) (s : Store H) (x : Src H) :
    ∀ r ∈ (add cfg s x).1, (∃ a ∈ s, a.hash = r.hash) ∨ (r.hash = cfg.hashOf x ∧ cfg.hashOf x ∉ cfg.forbidden) := by
  intro r hr
  rcases add_cases cfg s x with ⟨_, e⟩ | ⟨_, _, e⟩ | ⟨_, hnf, k⟩
  · rw [e] at hr; exact Or.inl ⟨r, hr, rfl⟩
  · rw [e] at hr; exact Or.inl ⟨r, hr, rfl⟩
  · rcases k with ⟨_, e⟩ | ⟨_, _, e⟩ | ⟨_, _, _, _, e⟩ | ⟨_, _, _, _, e⟩
    · rw [e] at hr
      rcases List.mem_append.1 hr with h | h
      · exact Or.inl ⟨r, h, rfl⟩
      · rw [List.mem_singleton.1 h]; exact Or.inr ⟨mkRow_hash cfg s x, hnf⟩
    · rw [e] at hr; exact Or.inl ⟨r, hr, rfl⟩
    · rw [e] at hr
      rcases List.mem_append.1 hr with h | h
      · exact Or.inl ⟨r, h, rfl⟩
      · rw [List.mem_singleton.1 h]; exact Or.inr ⟨mkRow_hash cfg s x, hnf⟩
    · rw [e] at hr
      rcases List.mem_append.1 hr with h | h
      · obtain ⟨a, ha, rfl⟩ := List.mem_map.1 h
        exact Or.inl ⟨a, ha, (relab_hash _ _ a).symm⟩
      · rw [List.mem_singleton.1 h]; exact Or.inr ⟨mkRow_hash cfg s x, hnf⟩

theorem NoForbidden.add {cfg : Cfg H} {s : Store H} (h : NoForbidden cfg s) (x : Src H) :
    NoForbidden cfg (add cfg s x).1 := by
  intro r hr
  rcases add_hash_cases cfg s x r hr with ⟨a, ha, e⟩ | ⟨e, hnf⟩
  · rw [← e]; exact h a ha
  · rw [e]; exact hnf

theorem NoForbidden.run {cfg : Cfg H} (hist : List (Src H)) : ∀ {s : Store H}, NoForbidden cfg s →
    NoForbidden cfg (run cfg s hist) := by
  induction hist with
  | nil => intro s h; exact h
  | cons x xs ih => intro s h; exact ih (h.add x)

/-- old rows keep their hash under `add` (they may be relabelled) -/
theorem add_keeps_hash (cfg : Cfg H) (s : Store H) (x : Src H) :
    ∀ a ∈ s, ∃ r ∈ (add cfg s x).1, r.hash = a.hash := by
  intro a ha
  rcases add_cases cfg s x with ⟨_, e⟩ | ⟨_, _, e⟩ | ⟨_, _, k⟩
  · rw [e]; exact ⟨a, ha, rfl⟩
  · rw [e]; exact ⟨a, ha, rfl⟩
  · rcases k with ⟨_, e⟩ | ⟨_, _, e⟩ | ⟨_, _, _, _, e⟩ | ⟨_, _, _, _, e⟩
    · rw [e]; exact ⟨a, List.mem_append_left _ ha, rfl⟩
    · rw [e]; exact ⟨a, ha, rfl⟩
    · rw [e]; exact ⟨a, List.mem_append_left _ ha, rfl⟩
    · rw [e]
      exact ⟨relab _ _ a, List.mem_append_left _ (List.mem_map.2 ⟨a, ha, rfl⟩), relab_hash _ _ a⟩

/-- a stored submission is in the table afterwards, under its hash -/
theorem add_stored_mem (cfg : Cfg H) (s : Store H) (x : Src H) (r : Row H) (h : (add cfg s x).2 = .stored r) :
    r ∈ (add cfg s x).1 ∧ r.hash = cfg.hashOf x := by
  rcases add_cases cfg s x with ⟨_, e⟩ | ⟨_, _, e⟩ | ⟨_, _, k⟩
  · rw [e] at h; cases h
  · rw [e] at h; cases h
  · rcases k with ⟨_, e⟩ | ⟨_, _, e⟩ | ⟨_, _, _, _, e⟩ | ⟨_, _, _, _, e⟩
    · rw [e] at h ⊢; cases h; exact ⟨List.mem_append_right _ (List.mem_singleton.2 rfl), rfl⟩
    · rw [e] at h; cases h
    · rw [e] at h ⊢; cases h; exact ⟨List.mem_append_right _ (List.mem_singleton.2 rfl), rfl⟩
    · rw [e] at h ⊢; cases h; exact ⟨List.mem_append_right _ (List.mem_singleton.2 rfl), rfl⟩

/-- the parent of a submission is unusable: unknown, or stored as an orphan -/
def DeadParent (s : Store H) (h : H) : Prop :=
  byHash s h = none ∨ ∃ p, byHash s h = some p ∧ p.st = .orphan

/-- a header whose parent is unknown or an orphan is answered duplicate / rejected, or stored as an ORPHAN -/
theorem add_dead_parent (cfg : Cfg H) (s : Store H) (x : Src H) (hd : DeadParent s x.prev) :
    (add cfg s x).2 = .duplicate ∨ (add cfg s x).2 = .rejected ∨
      ∃ r, (add cfg s x).2 = .stored r ∧ r.st = .orphan ∧ r ∈ (add cfg s x).1 := by
  have horph : (mkRow cfg s x).st = .orphan := by
    rcases hd with e | ⟨p, e, hp⟩
    · exact (mkRow_none (cfg := cfg) e).2
    · rw [(mkRow_some (cfg := cfg) e).2.2]; exact hp
  have hconc : concurrent s (mkRow cfg s x) = false := by
    unfold concurrent; rw [horph]
  rcases add_cases cfg s x with ⟨_, e⟩ | ⟨_, _, e⟩ | ⟨_, _, k⟩
  · rw [e]; exact Or.inl rfl
  · rw [e]; exact Or.inr (Or.inl rfl)
  · rcases k with ⟨_, e⟩ | ⟨hc, _⟩ | ⟨hc, _⟩ | ⟨hc, _⟩
    · rw [e]
      exact Or.inr (Or.inr ⟨_, rfl, horph, List.mem_append_right _ (List.mem_singleton.2 rfl)⟩)
    · rw [hconc] at hc; cases hc
    · rw [hconc] at hc; cases hc
    · rw [hconc] at hc; cases hc

end BHS.Chain
